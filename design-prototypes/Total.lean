import Proto.Pratt
open Pratt

namespace Pratt

/-- token streams as the lexer delivers them: a body without EOF followed by one EOF -/
def WFS (ts : List Tok) : Prop := ∃ body, ts = body ++ [.eof] ∧ ∀ t ∈ body, t ≠ .eof

theorem WFS.ne_nil {ts} (h : WFS ts) : ts ≠ [] := by
  obtain ⟨b, rfl, _⟩ := h; simp

theorem WFS.adv {ts} (h : WFS ts) : WFS (next ts) ∧ (next ts).length ≤ ts.length := by
  obtain ⟨b, rfl, hb⟩ := h
  cases b with
  | nil => exact ⟨⟨[], rfl, by simp⟩, by simp [Pratt.next]⟩
  | cons x xs =>
    cases xs with
    | nil => exact ⟨⟨[], by simp [Pratt.next], by simp⟩, by simp [Pratt.next]⟩
    | cons y ys =>
      refine ⟨⟨y :: ys, by simp [Pratt.next], ?_⟩, by simp [Pratt.next]⟩
      intro t ht; exact hb t (List.mem_cons_of_mem _ ht)

/-- moving past a non-EOF current token strictly shortens the stream -/
theorem WFS.adv_lt {t ts} (h : WFS (t :: ts)) (ht : t ≠ .eof) :
    (next (t :: ts)).length < (t :: ts).length := by
  obtain ⟨b, hb, hne⟩ := h
  cases ts with
  | nil =>
    cases b with
    | nil => simp at hb; exact absurd hb ht
    | cons x xs => cases xs <;> simp at hb
  | cons y ys => simp [Pratt.next]

theorem peek_ne_eof_len {ts} (h : WFS ts) (hp : peekTok ts ≠ .eof) : 3 ≤ ts.length := by
  obtain ⟨b, rfl, hb⟩ := h
  match b with
  | [] => simp [peekTok] at hp
  | [x] => simp [peekTok] at hp
  | x :: y :: zs => simp

/-- result shape shared by the three functions -/
def Good (ts : List Tok) (r : Option Res) : Prop :=
  ∃ x, r = some x ∧ WFS x.2.1 ∧ x.2.1.length ≤ ts.length

theorem total_aux (n : Nat) :
    (∀ ts, WFS ts → ts.length ≤ n → ∀ p l e, Good ts (cont p l ts e)) ∧
    (∀ ts, WFS ts → ts.length ≤ n → ∀ e, Good ts (parsePrefix ts e)) ∧
    (∀ ts, WFS ts → ts.length ≤ n → ∀ p e, Good ts (parseExpr p ts e)) := by
  induction n with
  | zero =>
    refine ⟨?_, ?_, ?_⟩ <;> intro ts h hl <;> exact absurd (List.length_eq_zero_iff.mp (by omega)) h.ne_nil
  | succ n ih =>
    obtain ⟨ihC, ihP, ihE⟩ := ih
    -- cont at length ≤ n+1, by an inner strong induction handled through ihC on shorter results
    have hC : ∀ ts, WFS ts → ts.length ≤ n + 1 → ∀ p l e, Good ts (cont p l ts e) := by
      intro ts h hl p l e
      rw [cont]
      simp only
      split
      · rename_i hc
        split
        · rename_i hb
          have hpk : peekTok ts ≠ .eof := by
            intro heq; rw [heq] at hb; simp [isBinTok] at hb
          have h3 := peek_ne_eof_len h hpk
          have hn1 := h.adv
          have hn2 := hn1.1.adv
          have hlen : (next (next ts)).length ≤ n := by
            -- two real tokens are consumed
            obtain ⟨b, rfl, hb'⟩ := h
            match b, h3 with
            | x :: y :: zs, _ => simp [Pratt.next] at *; omega
          obtain ⟨x, hx, hw, hxl⟩ := ihE _ hn2.1 hlen (prec (peekTok ts)) e
          rw [hx]
          simp only [Option.bind_eq_bind, Option.bind_some]
          have hx2 : x.2.1.length ≤ n := by omega
          split
          · obtain ⟨y, hy, hyw, hyl⟩ := ihC _ hw hx2 p (some (Expr.bin _ (peekTok ts) _)) x.2.2
            exact ⟨y, hy, hyw, by have := hn1.2; have := hn2.2; omega⟩
          · obtain ⟨y, hy, hyw, hyl⟩ := ihC _ hw hx2 p none x.2.2
            exact ⟨y, hy, hyw, by have := hn1.2; have := hn2.2; omega⟩
        · exact ⟨_, rfl, h, Nat.le_refl _⟩
      · exact ⟨_, rfl, h, Nat.le_refl _⟩
    have hP : ∀ ts, WFS ts → ts.length ≤ n + 1 → ∀ e, Good ts (parsePrefix ts e) := by
      intro ts h hl e
      rw [parsePrefix.eq_def]
      have sub : ∀ t rest, ts = t :: rest → t ≠ .eof → ∀ q, Good ts
          (parseExpr q (next ts) e) := by
        intro t rest hts hne q
        subst hts
        have hlt := h.adv_lt hne
        obtain ⟨x, hx, hw, hxl⟩ := ihE _ h.adv.1 (by omega) q e
        exact ⟨x, hx, hw, by omega⟩
      split
      · exact ⟨_, rfl, h, Nat.le_refl _⟩
      · obtain ⟨x, hx, hw, hxl⟩ := sub _ _ rfl (by simp) UNARY
        rw [hx]; exact ⟨_, rfl, hw, hxl⟩
      · obtain ⟨x, hx, hw, hxl⟩ := sub _ _ rfl (by simp) UNARY
        rw [hx]; exact ⟨_, rfl, hw, hxl⟩
      · obtain ⟨x, hx, hw, hxl⟩ := sub _ _ rfl (by simp) 1
        rw [hx]
        simp only [Option.bind_eq_bind, Option.bind_some]
        split
        · exact ⟨_, rfl, hw.adv.1, Nat.le_trans hw.adv.2 hxl⟩
        · exact ⟨_, rfl, hw, hxl⟩
      · exact ⟨_, rfl, h, Nat.le_refl _⟩
    refine ⟨hC, hP, ?_⟩
    intro ts h hl p e
    rw [parseExpr]
    obtain ⟨x, hx, hw, hxl⟩ := hP ts h hl e
    rw [hx]
    simp only [Option.bind_eq_bind, Option.bind_some]
    obtain ⟨y, hy, hyw, hyl⟩ := hC _ hw (by omega) p x.1 x.2.2
    exact ⟨y, hy, hyw, by omega⟩

/-- parsing terminates on every EOF-terminated token stream -/
theorem parseExpr_total (ts : List Tok) (h : WFS ts) (p e : Nat) : (parseExpr p ts e).isSome := by
  obtain ⟨x, hx, _, _⟩ := (total_aux ts.length).2.2 ts h (Nat.le_refl _) p e
  simp [hx]

#print axioms parseExpr_total
end Pratt
