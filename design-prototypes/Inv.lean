import Proto.Pratt
open Pratt

namespace Pratt

/-- joint invariant: errors only grow, and a nil result means an error was recorded -/
theorem inv :
    (∀ p ts e r, parseExpr p ts e = some r → e ≤ r.2.2 ∧ (r.1 = none → e < r.2.2)) := by
  apply parseExpr.partial_correctness
    (motive_1 := fun _ _ e r => e ≤ r.2.2 ∧ (r.1 = none → e < r.2.2))
    (motive_2 := fun _ l _ e r => e ≤ r.2.2 ∧ (r.1 = none → l = none ∨ e < r.2.2))
    (motive_3 := fun _ e r => e ≤ r.2.2 ∧ (r.1 = none → e < r.2.2))
  · -- parseExpr
    intro cont parsePrefix ihC ihP p ts e r h
    obtain ⟨⟨l, ts1, e1⟩, hp, h⟩ := Option.bind_eq_some_iff.mp h
    have h1 := ihP _ _ _ hp
    have h2 := ihC _ _ _ _ _ h
    simp only at h1 h2
    refine ⟨by omega, ?_⟩
    intro hn
    rcases h2.2 hn with hl | hlt
    · have := h1.2 hl; omega
    · omega
  · -- cont
    intro parseExpr cont ihE ihC p l ts e r h
    simp only at h
    split at h
    · split at h
      · obtain ⟨⟨rr, ts2, e2⟩, hq, h⟩ := Option.bind_eq_some_iff.mp h
        have h1 := ihE _ _ _ _ hq
        simp only at h1 h
        split at h
        · have h2 := ihC _ _ _ _ _ h
          skip
          refine ⟨by omega, ?_⟩
          intro hn
          rcases h2.2 hn with hl | hlt
          · exact absurd hl (by simp)
          · right; omega
        · rename_i hnot
          have h2 := ihC _ _ _ _ _ h
          simp only at h2
          refine ⟨by omega, ?_⟩
          intro _
          cases l with
          | none => exact Or.inl rfl
          | some lv =>
            cases rr with
            | none => have := h1.2 rfl; right; omega
            | some rv => exact absurd rfl (hnot lv rv rfl)
      · simp only [Option.some.injEq] at h; subst h
        exact ⟨Nat.le_refl _, fun hl => Or.inl hl⟩
    · simp only [Option.some.injEq] at h; subst h
      exact ⟨Nat.le_refl _, fun hl => Or.inl hl⟩
  · -- parsePrefix
    intro parseExpr ihE ts e r h
    split at h
    · simp only [Option.some.injEq] at h; subst h; simp
    · obtain ⟨⟨rr, ts1, e1⟩, hq, h⟩ := Option.bind_eq_some_iff.mp h
      have h1 := ihE _ _ _ _ hq
      simp only [Option.some.injEq] at h h1; subst h
      simpa using h1
    · obtain ⟨⟨rr, ts1, e1⟩, hq, h⟩ := Option.bind_eq_some_iff.mp h
      have h1 := ihE _ _ _ _ hq
      simp only [Option.some.injEq] at h h1; subst h
      simpa using h1
    · obtain ⟨⟨rr, ts1, e1⟩, hq, h⟩ := Option.bind_eq_some_iff.mp h
      have h1 := ihE _ _ _ _ hq
      simp only at h h1
      split at h <;> (simp only [Option.some.injEq] at h; subst h)
      · simpa using h1
      · simp; omega
    · simp only [Option.some.injEq] at h; subst h; simp

#print axioms inv
end Pratt
