/-! Feasibility prototype: Base64-VLQ round trip, unbounded. -/

namespace Vlq

/-- digits (0..63) of the VLQ of a natural number already carrying the sign bit -/
def encNat (fuel : Nat) (n : Nat) : List Nat :=
  match fuel with
  | 0 => [n % 32]
  | fuel + 1 =>
    if n / 32 > 0 then (n % 32 + 32) :: encNat fuel (n / 32) else [n % 32]

def toVlqSigned (n : Int) : Nat :=
  if n < 0 then 2 * n.natAbs + 1 else 2 * n.natAbs

def encode (n : Int) : List Nat := encNat (toVlqSigned n) (toVlqSigned n)

/-- spec decoder (Source Map v3): little endian 5-bit groups, bit 5 = continuation -/
def decNat : List Nat → Option (Nat × List Nat)
  | [] => none
  | d :: ds =>
    if d < 32 then some (d, ds)
    else if d < 64 then
      match decNat ds with
      | some (v, rest) => some ((d - 32) + 32 * v, rest)
      | none => none
    else none

def fromVlqSigned (v : Nat) : Int :=
  if v % 2 = 1 then -((v / 2 : Nat) : Int) else ((v / 2 : Nat) : Int)

def decode (ds : List Nat) : Option (Int × List Nat) :=
  match decNat ds with
  | some (v, rest) => some (fromVlqSigned v, rest)
  | none => none

theorem decNat_encNat (fuel n : Nat) (h : n ≤ fuel) (rest : List Nat) :
    decNat (encNat fuel n ++ rest) = some (n, rest) := by
  induction fuel generalizing n with
  | zero =>
    have : n = 0 := by omega
    subst this; simp [encNat, decNat]
  | succ fuel ih =>
    unfold encNat
    split
    · rename_i hpos
      have hle : n / 32 ≤ fuel := by omega
      simp only [List.cons_append, decNat]
      have h1 : ¬ (n % 32 + 32 < 32) := by omega
      have h2 : n % 32 + 32 < 64 := by omega
      simp only [h1, h2, if_true, if_false, ih (n / 32) hle]
      have : n % 32 + 32 - 32 + 32 * (n / 32) = n := by omega
      simp only [this]
    · rename_i hz
      have h1 : n < 32 := by omega
      have : n % 32 = n := by omega
      rw [this]; simp [decNat, h1]

theorem from_to (n : Int) : fromVlqSigned (toVlqSigned n) = n := by
  unfold fromVlqSigned toVlqSigned
  split <;> split <;> omega

theorem decode_encode (n : Int) (rest : List Nat) :
    decode (encode n ++ rest) = some (n, rest) := by
  unfold decode encode
  rw [decNat_encNat _ _ (Nat.le_refl _)]
  simp [from_to]

end Vlq
