/-! Feasibility prototype: Pratt loop (XJS shape: cur/peek, stop on `prec < peekPrec`)
    versus a precedence-comparing printer; round trip for all trees. -/

namespace Pratt

inductive Tok where
  | ident (n : Nat)
  | op (id : Nat)        -- binary operator, level from table
  | minus                -- binary SUM and prefix
  | bang                 -- prefix
  | lp | rp | semi | eof
  deriving DecidableEq, Repr

/-- generated table stand-in -/
def opLevel (id : Nat) : Nat := 3 + id % 6   -- levels 3..8
def SUM := 7
def UNARY := 9
def ATOM := 13

def prec : Tok → Nat
  | .op id => opLevel id
  | .minus => SUM
  | _ => 1

inductive Expr where
  | ident (n : Nat)
  | bin (l : Expr) (t : Tok) (r : Expr)     -- t is .op id or .minus
  | un (t : Tok) (r : Expr)                 -- t is .minus or .bang
  | group (e : Expr)
  deriving Repr

def Expr.prec : Expr → Nat
  | .ident _ => ATOM
  | .bin _ t _ => Pratt.prec t
  | .un _ _ => UNARY
  | .group _ => ATOM

/-- printer: token list, XJS parenthesisation rule -/
def pt : Expr → List Tok
  | .ident n => [.ident n]
  | .bin l t r =>
      (if l.prec < Pratt.prec t then [.lp] ++ pt l ++ [.rp] else pt l) ++ [t] ++
      (if r.prec ≤ Pratt.prec t then [.lp] ++ pt r ++ [.rp] else pt r)
  | .un t r => [t] ++ (if r.prec < UNARY then [.lp] ++ pt r ++ [.rp] else pt r)
  | .group e => [.lp] ++ pt e ++ [.rp]

/-- what the parser returns for a printed tree: parens become group nodes -/
def norm : Expr → Expr
  | .ident n => .ident n
  | .bin l t r =>
      .bin (if l.prec < Pratt.prec t then .group (norm l) else norm l) t
           (if r.prec ≤ Pratt.prec t then .group (norm r) else norm r)
  | .un t r => .un t (if r.prec < UNARY then .group (norm r) else norm r)
  | .group e => .group (norm e)

def isBinTok : Tok → Bool
  | .op _ => true
  | .minus => true
  | _ => false

/-- parser state: head = CurrentToken, second = PeekToken; results keep cur on the
    last token of the construct, as the Go code does. `none` = nil expression. -/
abbrev Res := Option Expr × List Tok × Nat   -- expr, tokens, error count

def peekTok : List Tok → Tok
  | _ :: t :: _ => t
  | _ => .eof

def next : List Tok → List Tok
  | [] => []
  | [t] => [t]    -- eof sticks (model: last token repeated)
  | _ :: ts => ts

-- `none` = divergence (least fixed point in the flat order); totality is a separate theorem
mutual
def parseExpr (p : Nat) (ts : List Tok) (errs : Nat) : Option Res := do
    let (l, ts1, e1) ← parsePrefix ts errs
    cont p l ts1 e1
partial_fixpoint
def parsePrefix (ts : List Tok) (errs : Nat) : Option Res :=
    match ts with
    | .ident n :: _ => some (some (.ident n), ts, errs)
    | .minus :: _ => do
        let (r, ts1, e1) ← parseExpr UNARY (next ts) errs
        some (r.map (Expr.un .minus), ts1, e1)
    | .bang :: _ => do
        let (r, ts1, e1) ← parseExpr UNARY (next ts) errs
        some (r.map (Expr.un .bang), ts1, e1)
    | .lp :: _ => do
        let (r, ts1, e1) ← parseExpr 1 (next ts) errs
        if peekTok ts1 = .rp then some (r.map Expr.group, next ts1, e1) else some (none, ts1, e1 + 1)
    | _ => some (none, ts, errs + 1)
partial_fixpoint
def cont (p : Nat) (l : Option Expr) (ts : List Tok) (errs : Nat) : Option Res :=
    let pk := peekTok ts
    if pk ≠ .semi ∧ p < prec pk then
      if isBinTok pk then do
        let (r, ts2, e2) ← parseExpr (prec pk) (next (next ts)) errs
        match l, r with
        | some l, some r => cont p (some (.bin l pk r)) ts2 e2
        | _, _ => cont p none ts2 e2
      else some (l, ts, errs)
    else some (l, ts, errs)
partial_fixpoint
end

def lastTok (ts : List Tok) : Tok := ts.getLast?.getD .eof

/-- tree size, used as the fuel bound -/
def size : Expr → Nat
  | .ident _ => 1
  | .bin l _ r => size l + size r + 1
  | .un _ r => size r + 1
  | .group e => size e + 1

/-- trees the theorem quantifies over: operator tokens in operator positions -/
def WF : Expr → Prop
  | .ident _ => True
  | .bin l t r => isBinTok t = true ∧ WF l ∧ WF r
  | .un t r => (t = .minus ∨ t = .bang) ∧ WF r
  | .group e => WF e

def stops (k : Nat) (rest : List Tok) : Prop :=
  match rest with
  | [] => 1 ≤ k
  | t :: _ => t = .semi ∨ prec t ≤ k

def fits (p : Nat) : Expr → Prop
  | .bin _ t _ => p < prec t
  | _ => True

end Pratt



namespace Pratt

theorem cont_stop (p : Nat) (l : Option Expr) (t : Tok) (rest : List Tok) (errs : Nat)
    (h : stops p rest) : cont p l (t :: rest) errs = some (l, t :: rest, errs) := by
  rw [cont]
  cases rest with
  | nil => simp [peekTok, prec, stops] at *; omega
  | cons u us =>
    simp only [peekTok, stops] at *
    rcases h with h | h
    · simp [h]
    · have : ¬ (p < prec u) := by omega
      simp [this]

theorem stops_mono {k k' : Nat} {rest : List Tok} (h : stops k rest) (hk : k ≤ k') : stops k' rest := by
  cases rest with
  | nil => simp [stops] at *; omega
  | cons u us =>
    simp only [stops] at *
    rcases h with h | h
    · exact Or.inl h
    · exact Or.inr (by omega)

theorem pt_ne_nil (e : Expr) : pt e ≠ [] := by
  cases e <;> simp [pt]

theorem prec_binTok_ge {t : Tok} (h : isBinTok t = true) : 3 ≤ prec t := by
  cases t <;> simp [isBinTok] at h <;> simp [prec, opLevel, SUM]

theorem prec_binTok_lt {t : Tok} (h : isBinTok t = true) : prec t < UNARY := by
  cases t <;> simp [isBinTok] at h <;> simp [prec, opLevel, SUM, UNARY] ; omega

theorem next_cons_append (t : Tok) (xs rest : List Tok) (h : xs ≠ []) :
    next (t :: (xs ++ rest)) = xs ++ rest := by
  cases xs with
  | nil => exact absurd rfl h
  | cons x xs => simp [next]

theorem next_cons_cons (a b : Tok) (xs : List Tok) : next (a :: b :: xs) = b :: xs := rfl

theorem lastTok_append_cons (xs : List Tok) (t : Tok) : lastTok (xs ++ [t]) = t := by
  simp [lastTok]

end Pratt

namespace Pratt

/-- operand printed in a context that may wrap it in parentheses -/
def ptw (needs : Bool) (c : Expr) : List Tok := if needs then [.lp] ++ pt c ++ [.rp] else pt c
def nw (needs : Bool) (c : Expr) : Expr := if needs then .group (norm c) else norm c

/-- the main statement, per tree -/
def RT (e : Expr) : Prop :=
  ∀ p rest errs, fits p e → stops e.prec rest → 1 ≤ p →
    parseExpr p (pt e ++ rest) errs = cont p (some (norm e)) (lastTok (pt e) :: rest) errs

theorem lastTok_cons_ne (t : Tok) (xs : List Tok) (h : xs ≠ []) : lastTok (t :: xs) = lastTok xs := by
  cases xs with
  | nil => exact absurd rfl h
  | cons x xs => simp [lastTok, List.getLast?_cons_cons]

theorem lastTok_append_ne (xs ys : List Tok) (h : ys ≠ []) : lastTok (xs ++ ys) = lastTok ys := by
  unfold lastTok
  rw [List.getLast?_append]
  cases hy : ys.getLast? with
  | none => simp [List.getLast?_eq_none_iff] at hy; exact absurd hy h
  | some v => simp

/-- operand lemma: given RT for the child, an operand parsed at level `q` yields the
    (possibly grouped) child and leaves the cursor on its last token -/
theorem operand (c : Expr) (ih : RT c) (needs : Bool) (q : Nat) (rest : List Tok) (errs : Nat)
    (hq : 1 ≤ q) (hfit : needs = false → fits q c ∧ q ≤ c.prec)
    (hlow : fits 1 c) (hstop : stops q rest) :
    parseExpr q (ptw needs c ++ rest) errs
      = some (some (nw needs c), lastTok (ptw needs c) :: rest, errs) := by
  cases needs with
  | false =>
    obtain ⟨hf, hle⟩ := hfit rfl
    simp only [ptw, nw, Bool.false_eq_true, if_false]
    rw [ih q rest errs hf (stops_mono hstop hle) hq]
    exact cont_stop _ _ _ _ _ hstop
  | true =>
    simp only [ptw, nw, if_true]
    simp only [List.cons_append, List.nil_append, List.append_assoc]
    rw [parseExpr, parsePrefix.eq_def]
    simp only []
    rw [next_cons_append _ _ _ (pt_ne_nil c)]
    have h1 : 1 ≤ c.prec := by
      cases c <;> simp [Expr.prec, ATOM, UNARY]
      simp [fits] at hlow; omega
    have hs : stops c.prec (Tok.rp :: rest) := by simp [stops, prec]; exact h1
    rw [ih 1 (Tok.rp :: rest) errs hlow hs (Nat.le_refl 1)]
    rw [cont_stop _ _ _ _ _ (by simp [stops, prec])]
    simp only [Option.bind_eq_bind, Option.bind_some, peekTok, if_true, Option.map_some, next]
    rw [cont_stop _ _ _ _ _ hstop]
    congr 2
    rw [lastTok_cons_ne _ _ (by simp), lastTok_append_ne _ _ (by simp)]
    simp [lastTok]

end Pratt

namespace Pratt

/-- operand lemma, continuation form (no stop condition for a parenthesised operand) -/
theorem operand' (c : Expr) (ih : RT c) (needs : Bool) (q : Nat) (rest : List Tok) (errs : Nat)
    (hq : 1 ≤ q) (hfit : needs = false → fits q c ∧ stops c.prec rest)
    (hlow : fits 1 c) :
    parseExpr q (ptw needs c ++ rest) errs
      = cont q (some (nw needs c)) (lastTok (ptw needs c) :: rest) errs := by
  cases needs with
  | false =>
    obtain ⟨hf, hs⟩ := hfit rfl
    simp only [ptw, nw, Bool.false_eq_true, if_false]
    exact ih q rest errs hf hs hq
  | true =>
    simp only [ptw, nw, if_true]
    simp only [List.cons_append, List.nil_append, List.append_assoc]
    rw [parseExpr, parsePrefix.eq_def]
    simp only []
    rw [next_cons_append _ _ _ (pt_ne_nil c)]
    have h1 : 1 ≤ c.prec := by
      cases c <;> simp [Expr.prec, ATOM, UNARY]
      simp [fits] at hlow; omega
    have hs : stops c.prec (Tok.rp :: rest) := by simp [stops, prec]; exact h1
    rw [ih 1 (Tok.rp :: rest) errs hlow hs (Nat.le_refl 1)]
    rw [cont_stop _ _ _ _ _ (by simp [stops, prec])]
    simp only [Option.bind_eq_bind, Option.bind_some, peekTok, if_true, Option.map_some, next]
    congr 2
    rw [lastTok_cons_ne _ _ (by simp), lastTok_append_ne _ _ (by simp)]
    simp [lastTok]

theorem ptw_ne_nil (b : Bool) (c : Expr) : ptw b c ≠ [] := by
  unfold ptw; split <;> simp [pt_ne_nil]

theorem fits_one (e : Expr) (h : WF e) : fits 1 e := by
  cases e <;> simp [fits]
  simp [WF] at h
  have := prec_binTok_ge h.1
  omega

theorem roundtrip (e : Expr) (h : WF e) : RT e := by
  induction e with
  | ident n =>
    intro p rest errs _ _ _
    simp [pt, norm, lastTok, parseExpr, parsePrefix]
  | group c ih =>
    intro p rest errs _ hstop hp
    simp only [WF] at h
    have hop := operand c (ih h) true p rest errs hp (by simp) (fits_one c h)
    -- a group is exactly the "needs parens" operand form, so reuse through parsePrefix
    simp only [pt, norm, List.cons_append, List.nil_append, List.append_assoc]
    rw [parseExpr, parsePrefix.eq_def]
    simp only []
    rw [next_cons_append _ _ _ (pt_ne_nil c)]
    have h1 : 1 ≤ c.prec := by
      have := fits_one c h
      cases c <;> simp [Expr.prec, ATOM, UNARY]
      simp [fits] at this; omega
    rw [ih h 1 (Tok.rp :: rest) errs (fits_one c h) (by simp [stops, prec]; exact h1) (Nat.le_refl 1)]
    rw [cont_stop _ _ _ _ _ (by simp [stops, prec])]
    simp only [Option.bind_eq_bind, Option.bind_some, peekTok, if_true, Option.map_some, next]
    congr 2
    rw [lastTok_cons_ne _ _ (by simp), lastTok_append_ne _ _ (by simp)]
    simp [lastTok]
  | un t r ih =>
    intro p rest errs _ hstop hp
    simp only [WF] at h
    obtain ⟨ht, hr⟩ := h
    simp only [Expr.prec] at hstop
    have hop := operand r (ih hr) (decide (r.prec < UNARY)) UNARY rest errs (by decide)
      (by
        intro hn
        simp at hn
        refine ⟨?_, hn⟩
        cases r <;> simp [fits]
        rename_i l t' r'
        simp [Expr.prec] at hn
        simp [WF] at hr
        have := prec_binTok_lt hr.1
        omega)
      (fits_one r hr) hstop
    have hpt : pt (.un t r) = t :: ptw (decide (r.prec < UNARY)) r := by
      simp [pt, ptw]
    have hnorm : norm (.un t r) = .un t (nw (decide (r.prec < UNARY)) r) := by
      simp [norm, nw]
    rw [hpt, hnorm, List.cons_append, parseExpr, parsePrefix.eq_def]
    rcases ht with ht | ht <;> subst ht <;> simp only []
    all_goals
      rw [next_cons_append _ _ _ (ptw_ne_nil _ _), hop]
      simp only [Option.bind_eq_bind, Option.bind_some, Option.map_some]
      rw [lastTok_cons_ne _ _ (ptw_ne_nil _ _)]
  | bin l t r ihl ihr =>
    intro p rest errs hfit hstop hp
    simp only [WF] at h
    obtain ⟨ht, hl, hr⟩ := h
    simp only [Expr.prec] at hstop
    simp only [fits] at hfit
    have hlt := prec_binTok_lt ht
    have hge := prec_binTok_ge ht
    have hpt : pt (.bin l t r) = ptw (decide (l.prec < prec t)) l ++ t :: ptw (decide (r.prec ≤ prec t)) r := by
      simp [pt, ptw]
    have hnorm : norm (.bin l t r) = .bin (nw (decide (l.prec < prec t)) l) t (nw (decide (r.prec ≤ prec t)) r) := by
      simp [norm, nw]
    rw [hpt, hnorm, List.append_assoc, List.cons_append]
    rw [operand' l (ihl hl) _ p _ errs hp
      (by
        intro hn
        simp at hn
        refine ⟨?_, ?_⟩
        · cases l <;> simp [fits]
          simp [Expr.prec] at hn; omega
        · simp [stops]; right; exact hn)
      (fits_one l hl)]
    rw [cont.eq_def]
    have htsemi : t ≠ Tok.semi := by cases t <;> simp [isBinTok] at ht <;> simp
    simp only [peekTok, ne_eq, htsemi, not_false_eq_true, hfit, and_self, if_true, ht, next_cons_cons]
    rw [next_cons_append _ _ _ (ptw_ne_nil _ _)]
    rw [operand r (ihr hr) _ (prec t) rest errs (by omega)
      (by
        intro hn
        simp at hn
        refine ⟨?_, by omega⟩
        cases r <;> simp [fits]
        simp [Expr.prec] at hn; omega)
      (fits_one r hr) hstop]
    simp only [Option.bind_eq_bind, Option.bind_some]
    rw [lastTok_append_ne _ _ (by simp), lastTok_cons_ne _ _ (ptw_ne_nil _ _)]

end Pratt

namespace Pratt
/-- top level: printing any well-formed tree and parsing it back gives the tree (with parens as groups) -/
theorem parse_print (e : Expr) (h : WF e) (errs : Nat) :
    parseExpr 1 (pt e ++ [.eof]) errs = some (some (norm e), [lastTok (pt e), .eof], errs) := by
  rw [roundtrip e h 1 [.eof] errs (fits_one e h) (by simp [stops, prec]; cases e <;> simp [Expr.prec, ATOM, UNARY]; rename_i l t r; simp [WF] at h; have := prec_binTok_ge h.1; omega) (Nat.le_refl 1)]
  exact cont_stop _ _ _ _ _ (by simp [stops, prec])
#print axioms parse_print
end Pratt
