// extract re-reads the tables of /repo's current working tree (go/ast over the sources) and prints
// XjsModel/Gen/Tables.lean. The Lean file XjsModel/Props/TableObligations.lean compares these
// tables with the hand-written model by `decide`.
package main

import (
	"fmt"
	"go/ast"
	"go/parser"
	"go/token"
	"os"
	"path/filepath"
	"sort"
	"strconv"
	"strings"
)

var fset = token.NewFileSet()

func parseDir(dir string) map[string]*ast.File {
	files := map[string]*ast.File{}
	entries, err := os.ReadDir(dir)
	if err != nil {
		fail("read dir %s: %v", dir, err)
	}
	for _, e := range entries {
		n := e.Name()
		if e.IsDir() || !strings.HasSuffix(n, ".go") || strings.HasSuffix(n, "_test.go") {
			continue
		}
		f, err := parser.ParseFile(fset, filepath.Join(dir, n), nil, parser.ParseComments)
		if err != nil {
			fail("parse %s: %v", n, err)
		}
		// honour build tags: skip files that are only built under a tag (hooks)
		skip := false
		for _, cg := range f.Comments {
			if cg.Pos() < f.Package && strings.Contains(cg.Text(), "go:build") && !strings.Contains(cg.Text(), "!") {
				skip = true
			}
		}
		if !skip {
			files[n] = f
		}
	}
	return files
}

func fail(format string, a ...any) {
	fmt.Fprintf(os.Stderr, "extract: "+format+"\n", a...)
	os.Exit(1)
}

func sel(e ast.Expr) string {
	switch v := e.(type) {
	case *ast.SelectorExpr:
		return v.Sel.Name
	case *ast.Ident:
		return v.Name
	}
	return ""
}

func lit(e ast.Expr) string {
	if b, ok := e.(*ast.BasicLit); ok && b.Kind == token.STRING {
		s, err := strconv.Unquote(b.Value)
		if err == nil {
			return s
		}
	}
	return ""
}

// iotaBlock returns the names of a const block in order with their values, for the block containing `first`.
func iotaBlock(files map[string]*ast.File, first string) (names []string, vals []int, extra map[string]int) {
	extra = map[string]int{}
	for _, f := range files {
		for _, d := range f.Decls {
			gd, ok := d.(*ast.GenDecl)
			if !ok || gd.Tok != token.CONST {
				continue
			}
			found := false
			for _, s := range gd.Specs {
				for _, n := range s.(*ast.ValueSpec).Names {
					if n.Name == first {
						found = true
					}
				}
			}
			if !found {
				continue
			}
			for i, s := range gd.Specs {
				vs := s.(*ast.ValueSpec)
				for _, n := range vs.Names {
					if len(vs.Values) == 1 {
						if b, ok := vs.Values[0].(*ast.BasicLit); ok && b.Kind == token.INT {
							v, _ := strconv.Atoi(b.Value)
							extra[n.Name] = v
							continue
						}
					}
					if n.Name == "_" {
						continue
					}
					names = append(names, n.Name)
					vals = append(vals, i)
				}
			}
			return
		}
	}
	fail("const block with %s not found", first)
	return
}

func findFunc(files map[string]*ast.File, name string) *ast.FuncDecl {
	for _, f := range files {
		for _, d := range f.Decls {
			if fd, ok := d.(*ast.FuncDecl); ok && fd.Name.Name == name {
				return fd
			}
		}
	}
	fail("function %s not found", name)
	return nil
}

func findVar(files map[string]*ast.File, name string) ast.Expr {
	for _, f := range files {
		for _, d := range f.Decls {
			gd, ok := d.(*ast.GenDecl)
			if !ok || (gd.Tok != token.VAR && gd.Tok != token.CONST) {
				continue
			}
			for _, s := range gd.Specs {
				vs := s.(*ast.ValueSpec)
				for i, n := range vs.Names {
					if n.Name == name && i < len(vs.Values) {
						return vs.Values[i]
					}
				}
			}
		}
	}
	fail("variable %s not found", name)
	return nil
}

type pair struct{ a, b string }

func mapLiteral(e ast.Expr) []pair {
	cl, ok := e.(*ast.CompositeLit)
	if !ok {
		fail("expected a map literal")
	}
	var out []pair
	for _, el := range cl.Elts {
		kv := el.(*ast.KeyValueExpr)
		k := sel(kv.Key)
		if k == "" {
			k = lit(kv.Key)
		}
		v := sel(kv.Value)
		out = append(out, pair{k, v})
	}
	return out
}

func leanStr(s string) string { return strconv.Quote(s) }

func bytesLit(s string) string {
	parts := make([]string, len(s))
	for i := 0; i < len(s); i++ {
		parts[i] = fmt.Sprint(s[i])
	}
	return "[" + strings.Join(parts, ", ") + "]"
}

// the orders in which the Lean model lists things (XjsModel/Model/*.lean)
var modelTokenOrder = []string{"ILLEGAL", "EOF", "IDENT", "INT", "FLOAT", "STRING", "RAW_STRING", "ASSIGN", "PLUS_ASSIGN", "MINUS_ASSIGN",
	"PLUS", "MINUS", "MULTIPLY", "DIVIDE", "MODULO", "EQ", "NOT_EQ", "LT", "GT", "LTE", "GTE", "AND", "OR", "NOT", "INCREMENT", "DECREMENT",
	"COMMA", "SEMICOLON", "COLON", "DOT", "LPAREN", "RPAREN", "LBRACE", "RBRACE", "LBRACKET", "RBRACKET",
	"FUNCTION", "LET", "IF", "ELSE", "WHILE", "FOR", "RETURN", "TRUE", "FALSE", "NULL"}
var modelParserLevels = []string{"LOWEST", "ASSIGNMENT", "LOGICAL_OR", "LOGICAL_AND", "EQUALITY", "COMPARISON", "SUM", "PRODUCT", "UNARY", "POSTFIX", "CALL", "MEMBER"}
var modelAstLevels = []string{"PrecedenceLowest", "PrecedenceAssignment", "PrecedenceLogicalOr", "PrecedenceLogicalAnd", "PrecedenceEquality",
	"PrecedenceComparison", "PrecedenceSum", "PrecedenceProduct", "PrecedenceUnary", "PrecedencePostfix", "PrecedenceCall", "PrecedenceMember", "PrecedenceAtomic"}
var modelPrefixFns = []string{"ParseIdentifier", "ParseIntegerLiteral", "ParseFloatLiteral", "ParseStringLiteral", "ParseMultiStringLiteral",
	"ParseBooleanLiteral", "ParseNullLiteral", "ParseUnaryExpression", "ParseGroupedExpression", "ParseArrayLiteral", "ParseObjectLiteral", "ParseFunctionExpression"}
var modelInfixFns = []string{"ParseBinaryExpression", "ParseAssignmentExpression", "ParseCompoundAssignmentExpression", "ParseCallExpression",
	"ParseMemberExpression", "ParseComputedMemberExpression", "ParsePostfixExpression"}
var modelNodes = []string{"Identifier", "IntegerLiteral", "FloatLiteral", "StringLiteral", "MultiStringLiteral", "BooleanLiteral", "NullLiteral",
	"LetExpression", "UnaryExpression", "PostfixExpression", "GroupedExpression", "CallExpression", "MemberExpression", "AssignmentExpression",
	"CompoundAssignmentExpression", "FunctionExpression", "ArrayLiteral", "ObjectLiteral"}

func pairList(ps []pair) string {
	parts := make([]string, len(ps))
	for i, p := range ps {
		parts[i] = fmt.Sprintf("(%s, %s)", leanStr(p.a), leanStr(p.b))
	}
	return "[" + strings.Join(parts, ", ") + "]"
}

func strList(ss []string) string {
	parts := make([]string, len(ss))
	for i, s := range ss {
		parts[i] = leanStr(s)
	}
	return "[" + strings.Join(parts, ", ") + "]"
}

func natPairList(names []string, vals []int) string {
	parts := make([]string, len(names))
	for i := range names {
		parts[i] = fmt.Sprintf("(%s, %d)", leanStr(names[i]), vals[i])
	}
	return "[" + strings.Join(parts, ", ") + "]"
}

// switchCases returns, for a switch statement, (case label names, the name/lit returned by that clause or "")
func switchReturns(sw *ast.SwitchStmt) (cases []pair, def string) {
	for _, c := range sw.Body.List {
		cc := c.(*ast.CaseClause)
		ret := ""
		for _, st := range cc.Body {
			if r, ok := st.(*ast.ReturnStmt); ok && len(r.Results) == 1 {
				ret = sel(r.Results[0])
				if ret == "" {
					ret = lit(r.Results[0])
				}
				if ret == "" {
					if id, ok := r.Results[0].(*ast.Ident); ok {
						ret = id.Name
					}
				}
			}
		}
		if cc.List == nil {
			def = ret
			continue
		}
		for _, l := range cc.List {
			cases = append(cases, pair{sel(l), ret})
		}
	}
	return
}

func firstSwitch(fd *ast.FuncDecl) *ast.SwitchStmt {
	var sw *ast.SwitchStmt
	ast.Inspect(fd.Body, func(n ast.Node) bool {
		if s, ok := n.(*ast.SwitchStmt); ok && sw == nil {
			sw = s
		}
		return true
	})
	if sw == nil {
		fail("no switch in %s", fd.Name.Name)
	}
	return sw
}

func lastSwitch(fd *ast.FuncDecl) *ast.SwitchStmt {
	var sw *ast.SwitchStmt
	ast.Inspect(fd.Body, func(n ast.Node) bool {
		if s, ok := n.(*ast.SwitchStmt); ok {
			sw = s
		}
		return true
	})
	if sw == nil {
		fail("no switch in %s", fd.Name.Name)
	}
	return sw
}

// charLit: the value of a character literal ('=' → 61), -1 when e is none
func charLit(e ast.Expr) int {
	bl, ok := e.(*ast.BasicLit)
	if !ok || bl.Kind != token.CHAR {
		if ok && bl.Kind == token.INT {
			v, err := strconv.Atoi(bl.Value)
			if err == nil {
				return v
			}
		}
		return -1
	}
	r, _, _, err := strconv.UnquoteChar(bl.Value[1:len(bl.Value)-1], '\'')
	if err != nil {
		return -1
	}
	return int(r)
}

// peekTest: `l.PeekChar() == 'c'` → c, otherwise -1
func peekTest(e ast.Expr) int {
	be, ok := e.(*ast.BinaryExpr)
	if !ok || be.Op != token.EQL {
		return -1
	}
	ce, ok := be.X.(*ast.CallExpr)
	if !ok || !strings.HasSuffix(sel(ce.Fun), "PeekChar") {
		return -1
	}
	return charLit(be.Y)
}

// lexerDispatch walks `switch l.CurrentChar` of baseNextToken: for every case with a character literal, and every path
// through its if / else-if chain on `l.PeekChar() == 'c'`, the token constant handed to l.NewToken:
// (first character, look-ahead character or 0, token constant)
func lexerDispatch(fd *ast.FuncDecl) (out [][3]string) {
	sw := firstSwitch(fd)
	if s := sel(sw.Tag); !strings.HasSuffix(s, "CurrentChar") {
		fail("first switch of baseNextToken is not on l.CurrentChar: %q", s)
	}
	var walk func(c int, peek int, stmts []ast.Stmt)
	walk = func(c int, peek int, stmts []ast.Stmt) {
		for _, st := range stmts {
			switch x := st.(type) {
			case *ast.AssignStmt:
				if len(x.Rhs) == 1 {
					if ce, ok := x.Rhs[0].(*ast.CallExpr); ok && strings.HasSuffix(sel(ce.Fun), "NewToken") && len(ce.Args) >= 1 {
						out = append(out, [3]string{fmt.Sprint(c), fmt.Sprint(peek), strings.TrimPrefix(sel(ce.Args[0]), "token.")})
					}
				}
			case *ast.IfStmt:
				p := peekTest(x.Cond)
				if p < 0 {
					continue // a test of something else (end of input): not part of the operator dispatch
				}
				walk(c, p, x.Body.List)
				switch e := x.Else.(type) {
				case *ast.BlockStmt:
					walk(c, 0, e.List)
				case *ast.IfStmt:
					walk(c, 0, []ast.Stmt{e})
				}
			}
		}
	}
	for _, cl := range sw.Body.List {
		cc := cl.(*ast.CaseClause)
		for _, l := range cc.List {
			if c := charLit(l); c > 0 {
				walk(c, 0, cc.Body)
			}
		}
	}
	return
}

func main() {
	repo := "/repo"
	if len(os.Args) > 1 {
		repo = os.Args[1]
	}
	tok := parseDir(filepath.Join(repo, "token"))
	par := parseDir(filepath.Join(repo, "parser"))
	as := parseDir(filepath.Join(repo, "ast"))
	sm := parseDir(filepath.Join(repo, "sourcemap"))
	lx := parseDir(filepath.Join(repo, "lexer"))
	comp := parseDir(filepath.Join(repo, "compiler"))
	dbg := parseDir(filepath.Join(repo, "debug"))

	var b strings.Builder
	w := func(format string, a ...any) { fmt.Fprintf(&b, format+"\n", a...) }
	w("/- GENERATED by /verif/harness/cmd/extract from /repo's working tree on every run. Do not edit.")
	w("   Strings are byte lists and token types / levels are their Go numeric values, so that the kernel can")
	w("   evaluate the comparisons in XjsModel/Props/TableObligations.lean. -/")
	w("-- extraction_mode: syntactic")
	w("namespace Xjs.Gen")
	w("")

	// token constants: values in the model's constructor order
	names, vals, extra := iotaBlock(tok, "ILLEGAL")
	tokVal := map[string]int{}
	for i, n := range names {
		tokVal[n] = vals[i]
	}
	tv := func(n string) int {
		v, ok := tokVal[n]
		if !ok {
			fail("unknown token constant %q", n)
		}
		return v
	}
	var ordered []string
	for _, n := range modelTokenOrder {
		ordered = append(ordered, fmt.Sprint(tv(n)))
	}
	w("-- token.Type constants %s in this order", strings.Join(modelTokenOrder, " "))
	w("def tokenNumbers : List Nat := [%s]", strings.Join(ordered, ", "))
	w("def tokenConstCount : Nat := %d", len(names))
	w("def dynamicTokensStart : Nat := %d", extra["DYNAMIC_TOKENS_START"])
	// Type.String()
	var strFn *ast.FuncDecl
	for _, f := range tok {
		for _, d := range f.Decls {
			if fd, ok := d.(*ast.FuncDecl); ok && fd.Name.Name == "String" && fd.Recv != nil && sel(fd.Recv.List[0].Type) == "Type" {
				strFn = fd
			}
		}
	}
	if strFn == nil {
		fail("Type.String not found")
	}
	cases, _ := switchReturns(firstSwitch(strFn))
	var ts []string
	for _, c := range cases {
		ts = append(ts, fmt.Sprintf("(%d, %s)", tv(c.a), bytesLit(c.b)))
	}
	w("def typeStrings : List (Nat × List Nat) := [%s]", strings.Join(ts, ", "))
	// Keywords
	var kws []string
	kwl := mapLiteral(findVar(tok, "Keywords"))
	sort.Slice(kwl, func(i, j int) bool { return kwl[i].a < kwl[j].a })
	for _, k := range kwl {
		kws = append(kws, fmt.Sprintf("(%s, %d)", bytesLit(k.a), tv(k.b)))
	}
	w("def keywords : List (List Nat × Nat) := [%s]  -- sorted by keyword", strings.Join(kws, ", "))
	w("")

	// parser levels and precedences
	pn, pv, _ := iotaBlock(par, "LOWEST")
	lvl := map[string]int{}
	for i, n := range pn {
		lvl[n] = pv[i]
	}
	var lv []string
	for _, n := range modelParserLevels {
		v, ok := lvl[n]
		if !ok {
			fail("parser level %s missing", n)
		}
		lv = append(lv, fmt.Sprint(v))
	}
	w("-- %s", strings.Join(modelParserLevels, " "))
	w("def parserLevels : List Nat := [%s]", strings.Join(lv, ", "))
	w("def parserLevelCount : Nat := %d", len(pn))
	natPairs := func(ps []pair, left func(string) int, right func(string) int) string {
		var out []string
		type np struct{ a, b int }
		var l []np
		for _, p := range ps {
			l = append(l, np{left(p.a), right(p.b)})
		}
		sort.Slice(l, func(i, j int) bool { return l[i].a < l[j].a })
		for _, x := range l {
			out = append(out, fmt.Sprintf("(%d, %d)", x.a, x.b))
		}
		return "[" + strings.Join(out, ", ") + "]"
	}
	lvOf := func(n string) int {
		v, ok := lvl[n]
		if !ok {
			fail("unknown parser level %q", n)
		}
		return v
	}
	w("def precedences : List (Nat × Nat) := %s  -- sorted by token", natPairs(mapLiteral(findVar(par, "precedences")), tv, lvOf))
	// prefix / infix function maps in newWithOptions
	nwo := findFunc(par, "newWithOptions")
	var prefix, infix []pair
	ast.Inspect(nwo.Body, func(n ast.Node) bool {
		as, ok := n.(*ast.AssignStmt)
		if !ok || len(as.Lhs) != 1 || len(as.Rhs) != 1 {
			return true
		}
		ix, ok := as.Lhs[0].(*ast.IndexExpr)
		if !ok {
			return true
		}
		switch sel(ix.X) {
		case "prefixParseFns":
			prefix = append(prefix, pair{sel(ix.Index), sel(as.Rhs[0])})
		case "infixParseFns":
			infix = append(infix, pair{sel(ix.Index), sel(as.Rhs[0])})
		}
		return true
	})
	idx := func(list []string, what string) func(string) int {
		return func(n string) int {
			for i, x := range list {
				if x == n {
					return i
				}
			}
			fail("unknown %s function %q", what, n)
			return -1
		}
	}
	w("-- prefix function index: %s", strings.Join(modelPrefixFns, " "))
	w("def prefixFns : List (Nat × Nat) := %s", natPairs(prefix, tv, idx(modelPrefixFns, "prefix")))
	w("-- infix function index: %s", strings.Join(modelInfixFns, " "))
	w("def infixFns : List (Nat × Nat) := %s", natPairs(infix, tv, idx(modelInfixFns, "infix")))
	// seeds in NewBuilder
	nb := findFunc(par, "NewBuilder")
	seeds := map[string][]string{}
	infixFromPrecedences := false
	ast.Inspect(nb.Body, func(n ast.Node) bool {
		switch v := n.(type) {
		case *ast.AssignStmt:
			if len(v.Lhs) == 1 && len(v.Rhs) == 1 {
				if cl, ok := v.Rhs[0].(*ast.CompositeLit); ok {
					name := sel(v.Lhs[0])
					for _, el := range cl.Elts {
						if kv, ok := el.(*ast.KeyValueExpr); ok && sel(kv.Value) == "true" {
							seeds[name] = append(seeds[name], sel(kv.Key))
						}
					}
				}
			}
		case *ast.RangeStmt:
			if sel(v.X) == "precedences" {
				infixFromPrecedences = true
			}
		}
		return true
	})
	natList := func(ns []string) string {
		var l []int
		for _, n := range ns {
			l = append(l, tv(n))
		}
		sort.Ints(l)
		var out []string
		for _, x := range l {
			out = append(out, fmt.Sprint(x))
		}
		return "[" + strings.Join(out, ", ") + "]"
	}
	w("def seedPrefix : List Nat := %s", natList(seeds["registeredPrefixOps"]))
	w("def seedPostfix : List Nat := %s", natList(seeds["registeredPostfixOps"]))
	w("def seedInfixIsPrecedenceKeys : Bool := %v", infixFromPrecedences)
	// shouldInsertSemicolon: clauses of the final switch that return false
	sis := findFunc(par, "shouldInsertSemicolon")
	sc, _ := switchReturns(lastSwitch(sis))
	var asiFalse []string
	for _, c := range sc {
		if c.b == "false" {
			asiFalse = append(asiFalse, c.a)
		}
	}
	w("def asiReturnsFalse : List Nat := %s", natList(asiFalse))
	w("")

	// ast precedence
	an, av, _ := iotaBlock(as, "PrecedenceLowest")
	alvl := map[string]int{}
	for i, n := range an {
		alvl[n] = av[i]
	}
	alOf := func(n string) int {
		v, ok := alvl[n]
		if !ok {
			fail("unknown ast precedence %q", n)
		}
		return v
	}
	var al []string
	for _, n := range modelAstLevels {
		al = append(al, fmt.Sprint(alOf(n)))
	}
	w("-- %s", strings.Join(modelAstLevels, " "))
	w("def astLevels : List Nat := [%s]", strings.Join(al, ", "))
	w("def astLevelCount : Nat := %d", len(an))
	oc, od := switchReturns(firstSwitch(findFunc(as, "operatorPrecedence")))
	w("def operatorPrecedence : List (Nat × Nat) := %s  -- sorted by token", natPairs(oc, tv, alOf))
	w("def operatorPrecedenceDefault : Nat := %d", alOf(od))
	// Precedence() methods
	np := map[string]string{}
	for _, f := range as {
		for _, d := range f.Decls {
			fd, ok := d.(*ast.FuncDecl)
			if !ok || fd.Name.Name != "Precedence" || fd.Recv == nil {
				continue
			}
			recv := fd.Recv.List[0].Type
			if st, ok := recv.(*ast.StarExpr); ok {
				recv = st.X
			}
			ret := ""
			for _, st := range fd.Body.List {
				if r, ok := st.(*ast.ReturnStmt); ok && len(r.Results) == 1 {
					switch v := r.Results[0].(type) {
					case *ast.Ident:
						ret = v.Name
					case *ast.CallExpr:
						ret = sel(v.Fun) + "()"
					}
				}
			}
			np[sel(recv)] = ret
		}
	}
	var npl []string
	for _, n := range modelNodes {
		r, ok := np[n]
		if !ok {
			fail("node %s has no Precedence()", n)
		}
		npl = append(npl, fmt.Sprint(alOf(r)))
	}
	w("-- Precedence() of %s", strings.Join(modelNodes, " "))
	w("def nodePrecedence : List Nat := [%s]", strings.Join(npl, ", "))
	w("def nodePrecedenceCount : Nat := %d", len(np))
	w("def binaryUsesOperatorPrecedence : Bool := %v", np["BinaryExpression"] == "operatorPrecedence()")
	w("")

	// lexer: the operator / delimiter dispatch of baseNextToken
	{
		var parts []string
		for _, e := range lexerDispatch(findFunc(lx, "baseNextToken")) {
			parts = append(parts, fmt.Sprintf("(%s, %s, %d)", e[0], e[1], tv(e[2])))
		}
		sort.Strings(parts)
		w("-- baseNextToken: (first character, look-ahead character or 0, token constant handed to NewToken)")
		w("def lexerDispatch : List (Nat × Nat × Nat) := [%s]", strings.Join(parts, ", "))
		w("")
	}

	// sourcemap
	w("def base64Chars : List Nat := %s", bytesLit(lit(findVar(sm, "base64Chars"))))
	version := -1
	ast.Inspect(findFunc(sm, "SourceMap").Body, func(n ast.Node) bool {
		if kv, ok := n.(*ast.KeyValueExpr); ok && sel(kv.Key) == "Version" {
			if bl, ok := kv.Value.(*ast.BasicLit); ok {
				version, _ = strconv.Atoi(bl.Value)
			}
		}
		return true
	})
	w("def sourceMapVersion : Nat := %d", version)
	w("")

	// package-level variables and syntactic write sites to them
	var globals, written []string
	pkgs := map[string]map[string]*ast.File{"token": tok, "parser": par, "ast": as, "sourcemap": sm, "lexer": lx, "compiler": comp, "debug": dbg}
	pkgNames := []string{}
	for k := range pkgs {
		pkgNames = append(pkgNames, k)
	}
	sort.Strings(pkgNames)
	for _, pk := range pkgNames {
		files := pkgs[pk]
		gl := map[string]bool{}
		for _, f := range files {
			for _, d := range f.Decls {
				if gd, ok := d.(*ast.GenDecl); ok && gd.Tok == token.VAR {
					for _, s := range gd.Specs {
						for _, n := range s.(*ast.ValueSpec).Names {
							gl[n.Name] = true
							globals = append(globals, pk+"."+n.Name)
						}
					}
				}
			}
		}
		root := func(e ast.Expr) string {
			for {
				switch v := e.(type) {
				case *ast.IndexExpr:
					e = v.X
				case *ast.SelectorExpr:
					e = v.X
				case *ast.StarExpr:
					e = v.X
				case *ast.ParenExpr:
					e = v.X
				case *ast.Ident:
					return v.Name
				default:
					return ""
				}
			}
		}
		for fname, f := range files {
			for _, d := range f.Decls {
				fd, ok := d.(*ast.FuncDecl)
				if !ok || fd.Body == nil {
					continue
				}
				// names shadowed by parameters / locals are not tracked precisely: a local named like a global
				// would be reported as a write — a false "written", never a missed one.
				ast.Inspect(fd.Body, func(n ast.Node) bool {
					report := func(e ast.Expr, how string) {
						if r := root(e); gl[r] {
							if id, ok := e.(*ast.Ident); ok && id.Obj != nil && id.Obj.Kind == ast.Var && id.Obj.Decl != nil {
								if _, isSpec := id.Obj.Decl.(*ast.ValueSpec); !isSpec {
									return // a local
								}
							}
							written = append(written, fmt.Sprintf("%s.%s %s in %s:%s", pk, r, how, fname, fd.Name.Name))
						}
					}
					switch v := n.(type) {
					case *ast.AssignStmt:
						if v.Tok != token.DEFINE {
							for _, l := range v.Lhs {
								report(l, "assigned")
							}
						}
					case *ast.IncDecStmt:
						report(v.X, "inc/dec")
					case *ast.UnaryExpr:
						if v.Op == token.AND {
							report(v.X, "address-taken")
						}
					case *ast.CallExpr:
						fn := sel(v.Fun)
						if (fn == "delete" || fn == "clear") && len(v.Args) > 0 {
							report(v.Args[0], fn)
						}
						if fn == "Copy" && len(v.Args) > 0 { // maps.Copy(dst, src) / copy-like helpers
							report(v.Args[0], "maps.Copy destination")
						}
						if fn == "copy" && len(v.Args) > 0 {
							report(v.Args[0], "copy destination")
						}
					}
					return true
				})
			}
		}
	}
	sort.Strings(globals)
	sort.Strings(written)
	for _, g := range globals {
		w("-- package-level variable: %s", g)
	}
	for _, g := range written {
		w("-- WRITTEN: %s", g)
	}
	w("def globalsCount : Nat := %d", len(globals))
	w("def globalsWrittenCount : Nat := %d", len(written))
	w("")
	w("end Xjs.Gen")
	fmt.Print(b.String())
}
