package main

import (
	"fmt"
	"os"
	"strconv"

	"github.com/xjslang/xjs/compiler"
	"github.com/xjslang/xjs/lexer"
	"github.com/xjslang/xjs/parser"
)

func main() {
	src := os.Args[1]
	if len(os.Args) > 2 {
		u, err := strconv.Unquote(`"` + os.Args[2] + `"`)
		if err != nil {
			panic(err)
		}
		src = u
	}
	l := lexer.NewBuilder().Build(src)
	for i := 0; i < 40; i++ {
		t := l.NextToken()
		fmt.Printf("%v nl=%v c=%q\n", t, t.AfterNewline, t.LeadingComments)
		if t.Type == 1 && i > 0 {
			t = l.NextToken()
			fmt.Printf("again %v\n", t)
			break
		}
	}
	p := parser.NewBuilder(lexer.NewBuilder()).Build(src)
	prog, err := p.ParseProgram()
	fmt.Printf("err=%v n=%d\n", err, len(prog.Statements))
	for _, s := range prog.Statements {
		fmt.Printf("  %T %v\n", s, s)
	}
	if err == nil {
		fmt.Printf("compact: %q\n", compiler.New().Compile(prog).Code)
		fmt.Printf("pretty : %q\n", compiler.New().WithPrettyPrint().Compile(prog).Code)
	}
}
