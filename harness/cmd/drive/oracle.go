package main

// Property-level oracles on the real implementation. They do not involve the Lean model:
// they are used to find and replay concrete failing inputs, and to replay known findings.

import (
	"bufio"
	"encoding/json"
	"fmt"
	"math/rand"
	"os"
	"sync"
	"time"
)

type oracleCtx struct {
	pid      string
	seed     int64
	tier     string
	r        *rand.Rand
	deadline time.Time
	inputs   []string // op lines / recorded inputs to examine first
	out      *bufio.Writer
	cases    int
	distinct map[string]bool
	nviol    map[string]int
	extra    map[string]int
}

func (c *oracleCtx) thorough() bool { return c.tier == "thorough" }
func (c *oracleCtx) expired() bool  { return time.Now().After(c.deadline) }

// n picks the number of generated cases for the tier
func (c *oracleCtx) n(quick, thorough int) int {
	if c.thorough() {
		return thorough
	}
	if c.tier == "replay" {
		return 0
	}
	return quick
}

func (c *oracleCtx) count(key string) {
	c.cases++
	if len(key) > 0 {
		c.distinct[key] = true
	}
}

func (c *oracleCtx) bump(k string) { c.extra[k]++ }

// violation reports a failing input; at most a few per class are written out
func (c *oracleCtx) violation(class, what string, input map[string]any) {
	c.nviol[class]++
	if c.nviol[class] > 3 {
		return
	}
	rec := map[string]any{"kind": "violation", "property": c.pid, "class": class, "what": what, "input": input}
	b, _ := json.Marshal(rec)
	fmt.Fprintln(c.out, string(b))
	c.out.Flush()
}

func (c *oracleCtx) finish() {
	stats := map[string]any{"cases": c.cases, "distinct": len(c.distinct)}
	for k, v := range c.extra {
		stats[k] = v
	}
	for k, v := range c.nviol {
		stats["violations:"+k] = v
	}
	b, _ := json.Marshal(map[string]any{"kind": "stat", "stats": stats})
	fmt.Fprintln(c.out, string(b))
	c.out.Flush()
}

var oracles = map[string]func(*oracleCtx){}

func runOracle(args []string) {
	// oracle <ID> <seed> <tier> [--budget s] [--inputs -]
	c := &oracleCtx{pid: args[0], seed: int64(atoi(args[1])), tier: args[2], distinct: map[string]bool{}, nviol: map[string]int{}, extra: map[string]int{}}
	budget := 240
	if c.thorough() {
		budget = 1500
	}
	for i := 3; i < len(args); i++ {
		switch args[i] {
		case "--budget":
			budget = atoi(args[i+1])
			i++
		case "--inputs":
			sc := bufio.NewScanner(os.Stdin)
			sc.Buffer(make([]byte, 1<<20), 1<<26)
			for sc.Scan() {
				if sc.Text() != "" {
					c.inputs = append(c.inputs, sc.Text())
				}
			}
			i++
		}
	}
	c.r = rand.New(rand.NewSource(c.seed*7919 + 17))
	c.deadline = time.Now().Add(time.Duration(budget) * time.Second)
	c.out = bufio.NewWriter(os.Stdout)
	processPrelude()
	startWatchdog(c)
	preludeCanary(c)
	f, ok := oracles[c.pid]
	if ok {
		f(c)
	}
	c.finish()
}

// watchdog: the inputs of the guarded calls that are running (innermost last). When the innermost one has not returned
// for wdLimit, the code under test hangs on it: the input is reported (class "hang") and the process ends — a parser
// that loops would otherwise hold the whole oracle until the driver's time limit, with no input to show.
type wdEntry struct {
	input map[string]any
	since time.Time
}

var (
	wdMu    sync.Mutex
	wdStack []wdEntry
)

const wdLimit = 120 * time.Second

func startWatchdog(c *oracleCtx) {
	go func() {
		for {
			time.Sleep(time.Second)
			if time.Now().After(c.deadline.Add(90 * time.Second)) {
				// the oracle is far beyond its budget (code under test that is slow on every input): what was found has
				// been written out already, stop here
				st, _ := json.Marshal(map[string]any{"kind": "stat", "stats": map[string]any{"cases": c.cases, "stopped-beyond-budget": 1}})
				fmt.Fprintln(os.Stdout, string(st))
				os.Exit(0)
			}
			wdMu.Lock()
			if n := len(wdStack); n > 0 && time.Since(wdStack[n-1].since) > wdLimit {
				rec := map[string]any{"kind": "violation", "property": c.pid, "class": "hang",
					"what": fmt.Sprintf("the code under test did not return within %v on this input; the oracle stops here", wdLimit), "input": wdStack[n-1].input}
				b, _ := json.Marshal(rec)
				fmt.Fprintln(os.Stdout, string(b))
				st, _ := json.Marshal(map[string]any{"kind": "stat", "stats": map[string]any{"cases": c.cases, "stopped-by-watchdog": 1}})
				fmt.Fprintln(os.Stdout, string(st))
				os.Exit(0)
			}
			wdMu.Unlock()
		}
	}()
}

// preludeCanary: after the process prelude (other builders with operators on `!`, `%` and dynamic tokens were built and
// used) a fresh plain parser must still read plain programs that use those tokens: no hang, no error. Checked for the
// properties that a valid program which no longer parses violates as worded (behaviour, JavaScript parse, print → parse,
// custom operators stay with their builder, totality, isolation).
func preludeCanary(c *oracleCtx) {
	switch c.pid {
	case "C01", "C02", "C03", "C05", "C11", "C14":
	default:
		return
	}
	for _, src := range []string{"let done = false\n!done\n", "x = 5 % 3\ny = !x\n", "f(a) % 2\n", "if (!a) { b = c % d }\n"} {
		input := map[string]any{"src": hexOf(src), "text": src, "canary": true,
			"history": "other lexer / parser builders (postfix operators on `!` and `%`, operators on registered tokens) were built and used earlier in this process"}
		type res struct {
			errs string
			pan  string
		}
		ch := make(chan res, 1)
		go func() {
			defer func() {
				if r := recover(); r != nil {
					ch <- res{pan: fmt.Sprint(r)}
				}
			}()
			_, errs := oaParse(src)
			if len(errs) > 0 {
				ch <- res{errs: oaErrText(errs)}
			} else {
				ch <- res{}
			}
		}()
		select {
		case r := <-ch:
			c.count("canary:" + src)
			if r.pan != "" {
				c.violation("prelude-pollutes", "after other builders were used, a fresh plain parser panics on a valid program: "+r.pan, input)
				return
			}
			if r.errs != "" {
				c.violation("prelude-pollutes", "after other builders were used, a fresh plain parser rejects a valid program: "+r.errs, input)
				return
			}
		case <-time.After(5 * time.Second):
			c.violation("prelude-pollutes", "after other builders were used, a fresh plain parser does not return on a valid program (5 s)", input)
			return
		}
	}
}

// guard runs f, turning a panic into a violation of the given class
func guard(c *oracleCtx, class string, input map[string]any, f func()) {
	wdMu.Lock()
	wdStack = append(wdStack, wdEntry{input: input, since: time.Now()})
	wdMu.Unlock()
	defer func() {
		wdMu.Lock()
		wdStack = wdStack[:len(wdStack)-1]
		wdMu.Unlock()
	}()
	defer func() {
		if r := recover(); r != nil {
			c.violation(class, fmt.Sprintf("panic: %v", r), input)
		}
	}()
	f()
}

// recordedInput extracts the input map of a recorded violation (replay mode), or nil
func recordedInput(line string) map[string]any {
	var rec map[string]any
	if json.Unmarshal([]byte(line), &rec) != nil {
		return nil
	}
	if in, ok := rec["input"].(map[string]any); ok {
		return in
	}
	return nil
}
