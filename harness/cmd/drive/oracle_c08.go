package main

// C08 "Source map segments link identical lexemes".
//
// Accepted programs (jsgen programs in random layouts, plus composed programs with multi-line
// literals, adjacent sign operators, two-character operators, non-ASCII text, comments and CRLF line
// ends) are compiled by the real xjs with a source map. The `mappings` string is decoded by the
// decoder written from the specification (internal/oracle) and cross-checked, position by position,
// with the go-sourcemap consumer (a disagreement of the two gives no verdict). Generated code and
// source are cut into lexemes by a scanner of this file (identifier/keyword, number, string,
// backtick string, longest-match punctuator; // comments and white space skipped). Checked:
//
//   source side   every segment has a source position inside the source, on the first byte of a
//                 lexeme; a segment has a name exactly if that lexeme is an identifier, and the name
//                 is that identifier; name indices are in range, names are distinct and all used;
//   order         segments are ordered by generated position (line, column), non-decreasing;
//   sequence      the identifiers of the generated code, in order, are the names of the named
//                 segments, in order;
//   generated side every segment lies inside the generated code (line < number of lines, column <
//                 length of the line) on the first byte of a lexeme, and that lexeme is the lexeme at
//                 the source position (strings: both are strings, the printer re-quotes; backtick
//                 strings with a backslash: both are backtick strings); every identifier of the
//                 generated code starts at a segment that carries it as its name.
//
// Units: 0-based lines and byte columns on both sides. Lines of the source end at LF (the lexer's
// unit, CR is white space), lines of the generated code end at LF, CR LF or CR (the mapper's unit).
//
// KNOWN CLASSES (decided from the configuration / the source text alone)
//
//   pretty-map   cfg "pm:2020:1", source "let a = 1;\nlet b = a;\n"
//                PRETTY configurations: pending white space, indentation, comments and the final trim
//                bypass the mapper, so the generated positions are those of the compact output. Only the
//                checks "generated side" fail; "source side", "order" and "sequence" hold in pretty mode
//                too and are checked there with class "". The main generators run the generated-side
//                checks in compact configurations only.
//   string-requote   cfg "cm", source "x = 'a\"b' + y;"
//   backtick-escape  cfg "cm", source "x = `a\\`b` + y;"
//                The literal classes of C07: the generated code of such a source contains a broken literal
//                and cannot be cut into lexemes, so the generated-side checks fail behind the literal.
//                The map itself is as good as for any other source; the generators avoid such sources.
//
// A lone CR in the source (white space for the lexer, a line end for the mapper when it is copied
// into the generated code inside a literal) and a literal closed by the end of input satisfy all
// checks under the units above.
// No further deviation is known in compact mode: `+=`/`-=`, two-character operators, `else` (no
// segment), printer-made parentheses (no segment) all satisfy the checks.

import (
	"encoding/json"
	"fmt"
	"regexp"
	"strings"

	"github.com/xjslang/xjs/lexer"
	"github.com/xjslang/xjs/parser"
	"github.com/xjslang/xjs/sourcemap"

	"xjsverif/internal/jsgen"
	"xjsverif/internal/oracle"
)

func init() { oracles["C08"] = oracleC08 }

const clsPrettyMap = "pretty-map"

// ---------- lexemes ----------

type c08Tok struct {
	kind string // word num str tpl punct
	text string
	off  int
}

var c08Keywords = map[string]bool{"function": true, "let": true, "if": true, "else": true, "while": true, "for": true, "return": true, "true": true, "false": true, "null": true}

func c08IsDigit(c byte) bool { return '0' <= c && c <= '9' }

// c08Scan cuts text into lexemes by the ECMAScript rules of the subset; ok is false when a string
// or backtick string is not closed.
func c08Scan(text string) (toks []c08Tok, ok bool) {
	ok = true
	i := 0
	for i < len(text) {
		ch := text[i]
		switch {
		case ch == ' ' || ch == '\t' || ch == '\n' || ch == '\r':
			i++
		case ch == '/' && i+1 < len(text) && text[i+1] == '/':
			for i < len(text) && text[i] != '\n' {
				i++
			}
		case ch == '"' || ch == '\'' || ch == '`':
			j := i + 1
			closed := false
			for j < len(text) {
				if text[j] == '\\' {
					j += 2
					continue
				}
				if text[j] == ch {
					closed = true
					j++
					break
				}
				j++
			}
			if j > len(text) {
				j = len(text)
			}
			if !closed {
				ok = false
			}
			kind := "str"
			if ch == '`' {
				kind = "tpl"
			}
			toks = append(toks, c08Tok{kind, text[i:j], i})
			i = j
		case c08IsDigit(ch):
			j := i + 1
			if ch == '0' && j < len(text) && strings.IndexByte("xXbBoO", text[j]) >= 0 {
				j++
				for j < len(text) && oaIsWord(text[j]) {
					j++
				}
			} else {
				for j < len(text) && c08IsDigit(text[j]) {
					j++
				}
				if j+1 < len(text) && text[j] == '.' && c08IsDigit(text[j+1]) {
					j++
					for j < len(text) && c08IsDigit(text[j]) {
						j++
					}
				}
				if j < len(text) && (text[j] == 'e' || text[j] == 'E') {
					k := j + 1
					if k < len(text) && (text[k] == '+' || text[k] == '-') {
						k++
					}
					if k < len(text) && c08IsDigit(text[k]) {
						for k < len(text) && c08IsDigit(text[k]) {
							k++
						}
						j = k
					}
				}
			}
			toks = append(toks, c08Tok{"num", text[i:j], i})
			i = j
		case oaIsWord(ch):
			j := i
			for j < len(text) && oaIsWord(text[j]) {
				j++
			}
			toks = append(toks, c08Tok{"word", text[i:j], i})
			i = j
		default:
			n := 1
			for _, p := range oaPunct2 {
				if strings.HasPrefix(text[i:], p) {
					n = 2
				}
			}
			toks = append(toks, c08Tok{"punct", text[i : i+n], i})
			i += n
		}
	}
	return
}

func (t c08Tok) isIdent() bool { return t.kind == "word" && !c08Keywords[t.text] }

// c08SameLexeme: the generated lexeme g is the source lexeme s, quote style aside.
func c08SameLexeme(g, s c08Tok) bool {
	if g.kind != s.kind {
		return false
	}
	switch g.kind {
	case "str":
		return true
	case "tpl":
		return g.text == s.text || strings.IndexByte(s.text, '\\') >= 0
	}
	return g.text == s.text
}

// c08Lines indexes the lines of a text. cr: CR LF and a lone CR end a line too.
type c08Lines struct{ start, end []int }

func c08LinesOf(text string, cr bool) c08Lines {
	l := c08Lines{start: []int{0}}
	for i := 0; i < len(text); i++ {
		switch {
		case text[i] == '\n':
			l.end = append(l.end, i)
			l.start = append(l.start, i+1)
		case cr && text[i] == '\r':
			l.end = append(l.end, i)
			if i+1 < len(text) && text[i+1] == '\n' {
				i++
			}
			l.start = append(l.start, i+1)
		}
	}
	l.end = append(l.end, len(text))
	return l
}

// offset of (line, col), or -1 when the position is not on a byte of that line
func (l c08Lines) offset(line, col int) int {
	if line < 0 || line >= len(l.start) || col < 0 || l.start[line]+col >= l.end[line] {
		return -1
	}
	return l.start[line] + col
}

// ---------- classes ----------

// c08SourceClass: the known class of a source text whose generated code cannot be cut into lexemes.
func c08SourceClass(src string) string {
	for _, t := range oaScan(src) {
		switch {
		case t.kind == "str" && litRequote(t.text):
			return clsRequote
		case !fixedBacktick && t.kind == "tpl" && strings.Contains(t.text, "\\`"):
			return clsBacktickEsc
		}
	}
	return ""
}

func c08WithMap(cfg string) string {
	f := strings.SplitN(cfg, ":", 2)
	if strings.Contains(f[0], "m") {
		return cfg
	}
	f[0] += "m"
	return strings.Join(f, ":")
}

// ---------- the check ----------

// c08Check compiles src under cfg (a configuration with source map) and checks the map. steer: a
// source of a known class is skipped, and in pretty configurations the generated-side checks
// (class pretty-map) are left out.
// c08Warm: the next checks reuse a Compiler that has already compiled something
var c08Warm bool

// c08Prev: the map of the previous plain compilation and what it said when it was handed out
type c08PrevMap struct {
	sm       *sourcemap.SourceMap
	snapshot string
	src, cfg string
}

var c08Prev c08PrevMap

func c08MapString(sm *sourcemap.SourceMap) string {
	return fmt.Sprintf("version=%d names=%q mappings=%s", sm.Version, sm.Names, sm.Mappings)
}

// c08BlockPlugin: the next checks parse with a lexer plugin that consumes block comments
var c08BlockPlugin bool

// c08DupStmt: the first statement node of the parsed program is listed a second time at the end (a tree edited by a
// plugin: one node in two places); each occurrence in the generated code is linked to the one place in the source
var c08DupStmt bool

var c08BlockAtLineEnd = regexp.MustCompile(`\*/[ \t]*(\r|\n|//|$)`)

// c08BlankBlocks replaces every `/* … */` by blanks, keeping line breaks: offsets, lines and columns stay
func c08BlankBlocks(src string) string {
	b := []byte(src)
	for i := 0; i+1 < len(b); i++ {
		switch {
		case b[i] == '"' || b[i] == '\'' || b[i] == '`': // skip literals
			q := b[i]
			for i++; i < len(b) && b[i] != q; i++ {
				if b[i] == '\\' {
					i++
				}
			}
		case b[i] == '/' && b[i+1] == '/':
			for i < len(b) && b[i] != '\n' {
				i++
			}
		case b[i] == '/' && b[i+1] == '*':
			j := i
			for j+1 < len(b) && !(b[j] == '*' && b[j+1] == '/' && j > i+1) {
				j++
			}
			end := j + 2
			if end > len(b) {
				end = len(b)
			}
			for k := i; k < end; k++ {
				if b[k] != '\n' {
					b[k] = ' '
				}
			}
			i = end - 1
		}
	}
	return string(b)
}

func c08Check(c *oracleCtx, src, cfg string, steer bool) {
	cfg = c08WithMap(cfg)
	input := map[string]any{"src": hexOf(src), "text": src, "cfg": cfg}
	srcCls := c08SourceClass(src)
	if srcCls != "" && steer {
		c.bump("steered-away:" + srcCls)
		return
	}
	pretty := oaCfgIsPretty(cfg)
	genSide := true
	if pretty && steer {
		genSide = false
		c.bump("steered-away:" + clsPrettyMap)
	}
	blockPlugin := c08BlockPlugin
	if blockPlugin {
		input["lexer-plugin"] = "block-comments"
	}
	dupStmt := c08DupStmt
	if dupStmt {
		input["tree-edit"] = "first statement node listed again at the end"
	}
	parsedSrc := src
	warmUsed := c08Warm || blockPlugin || dupStmt
	guard(c, "", input, func() {
		prog, errs := oaParse(src)
		if blockPlugin {
			// the lexer gets a plugin that consumes `/* … */` itself; for the oracle's own scanner the comments are blanked
			// out, which moves no token
			lb := lexer.NewBuilder()
			lb.UseTokenInterceptor(blockCommentPlugin)
			p := parser.NewBuilder(lb).Build(src)
			prog, _ = p.ParseProgram()
			errs = p.Errors()
			src = c08BlankBlocks(src)
		}
		if len(errs) > 0 {
			c.bump("parse-error")
			if dbgB {
				fmt.Printf("REJECTED %q: %s\n", src, oaErrText(errs))
			}
			return
		}
		if dupStmt && len(prog.Statements) > 0 {
			prog.Statements = append(prog.Statements, prog.Statements[0])
		}
		comp := compilerOf(cfg)
		if c08Warm {
			// history: the same Compiler object has compiled another program before (a map belongs to one compilation)
			if warm, werrs := oaParse("let warm = up(1)\nwarm++\n"); len(werrs) == 0 {
				comp.Compile(warm)
				// … and then the program itself once (its identifiers have been seen before, at other name indexes)
				comp.Compile(prog)
				input["warm"] = true
				input["history"] = "the same Compiler compiled `let warm = up(1)⏎warm++` and then this program first"
			}
		}
		res := comp.Compile(prog)
		code := res.Code
		input["output"] = oaClip(code, 400)
		// a map that was handed out earlier is not touched by later compilations
		if c08Prev.sm != nil {
			if now := c08MapString(c08Prev.sm); now != c08Prev.snapshot {
				in2 := map[string]any{"src": c08Prev.src, "text": unhex(c08Prev.src), "cfg": c08Prev.cfg, "then": hexOf(src), "then-cfg": cfg}
				c08Prev.sm = nil
				c.violation("", "the source map of an earlier compilation changed when another program was compiled afterwards: it was "+oaClip(c08Prev.snapshot, 200)+", it is now "+oaClip(now, 200), in2)
				return
			}
		}
		if res.SourceMap != nil && !warmUsed {
			c08Prev = c08PrevMap{sm: res.SourceMap, snapshot: c08MapString(res.SourceMap), src: hexOf(parsedSrc), cfg: cfg}
		}
		// class of a failure of a position-independent check / of a generated-side check
		fail := func(what string) { c.violation(srcCls, what, input) }
		genCls := srcCls
		if genCls == "" && pretty {
			genCls = clsPrettyMap
		}
		failGen := func(what string) { c.violation(genCls, what, input) }
		sm := res.SourceMap
		if sm == nil {
			fail("no source map although one was requested")
			return
		}
		input["mappings"] = oaClip(sm.Mappings, 300)
		if sm.Version != 3 {
			fail(fmt.Sprintf("version is %d", sm.Version))
		}
		segs, err := oracle.DecodeMappings(sm.Mappings)
		if err != nil {
			fail(fmt.Sprintf("mappings cannot be decoded: %v", err))
			return
		}
		c.bump("maps")
		// the second decoder
		if len(segs) > 0 {
			doc, _ := json.Marshal(map[string]any{"version": 3, "sources": []string{"in.js"}, "names": append([]string{}, sm.Names...), "mappings": sm.Mappings})
			at := map[[2]int]int{}
			for _, s := range segs {
				at[[2]int{s.GenLine, s.GenCol}]++
			}
			step := 1 + len(segs)/24
			for i := c.r.Intn(step); i < len(segs); i += step {
				s := segs[i]
				if s.Source < 0 || s.SrcLine == 0 && s.SrcCol == 0 || at[[2]int{s.GenLine, s.GenCol}] > 1 {
					continue // the consumer drops segments to 0:0 and cannot tell segments at one position apart
				}
				sl, sc, name, ok := oracle.DecodeWithConsumer(doc, s.GenLine, s.GenCol)
				want := ""
				if s.HasName && s.Name >= 0 && s.Name < len(sm.Names) {
					want = sm.Names[s.Name]
				}
				// a dropped segment with a name leaves its name to the next segment the consumer keeps
				stale := false
				for j := i - 1; j >= 0 && segs[j].SrcLine == 0 && segs[j].SrcCol == 0; j-- {
					stale = stale || segs[j].HasName
				}
				if stale && !s.HasName {
					name = ""
				}
				if !ok || sl != s.SrcLine || sc != s.SrcCol || name != want {
					c.bump("oracle-skip:decoders-disagree")
					if dbgB {
						fmt.Printf("DISAGREE %q %v: consumer %d:%d %q %v\n", sm.Mappings, s, sl, sc, name, ok)
					}
					return
				}
			}
		}

		srcToks, _ := c08Scan(src)
		srcAt := map[int]c08Tok{}
		for _, t := range srcToks {
			srcAt[t.off] = t
		}
		genToks, genOK := c08Scan(code)
		genAt := map[int]c08Tok{}
		for _, t := range genToks {
			genAt[t.off] = t
		}
		srcLines, genLines := c08LinesOf(src, false), c08LinesOf(code, true)

		// names: distinct, all used
		seenName := map[string]bool{}
		for _, n := range sm.Names {
			if seenName[n] {
				fail(fmt.Sprintf("name %q is listed twice in names", n))
				return
			}
			seenName[n] = true
		}
		used := make([]bool, len(sm.Names))

		var named []string
		covered := map[int]string{} // generated offset -> name of a named segment starting there
		for i, s := range segs {
			desc := fmt.Sprintf("segment %d (%v)", i, s)
			// order
			if i > 0 && (s.GenLine < segs[i-1].GenLine || s.GenLine == segs[i-1].GenLine && s.GenCol < segs[i-1].GenCol) {
				fail(desc + " lies before its predecessor in the generated code")
				return
			}
			// source side
			if s.Source != 0 {
				fail(desc + " has no source position / a source index other than 0")
				return
			}
			so := srcLines.offset(s.SrcLine, s.SrcCol)
			if so < 0 {
				fail(desc + " points outside the source")
				return
			}
			st, isStart := srcAt[so]
			if !isStart {
				fail(fmt.Sprintf("%s points into the source at %q, which is not the start of a lexeme", desc, oaClip(src[so:], 20)))
				return
			}
			name := ""
			if s.HasName {
				if s.Name < 0 || s.Name >= len(sm.Names) {
					fail(fmt.Sprintf("%s has name index %d, names has %d entries", desc, s.Name, len(sm.Names)))
					return
				}
				name = sm.Names[s.Name]
				used[s.Name] = true
				named = append(named, name)
				if !st.isIdent() || st.text != name {
					fail(fmt.Sprintf("%s carries the name %q but points to the source lexeme %q", desc, name, oaClip(st.text, 30)))
					return
				}
			} else if st.isIdent() {
				fail(fmt.Sprintf("%s points to the identifier %q but carries no name", desc, st.text))
				return
			}
			// generated side
			if !genSide {
				continue
			}
			g := genLines.offset(s.GenLine, s.GenCol)
			if g < 0 {
				failGen(fmt.Sprintf("%s lies outside the generated code (%d lines)", desc, len(genLines.start)))
				return
			}
			gt, isStart := genAt[g]
			if !isStart {
				failGen(fmt.Sprintf("%s: generated position is at %q, not the start of a lexeme; the source lexeme is %q", desc, oaClip(code[g:], 20), oaClip(st.text, 30)))
				return
			}
			if !c08SameLexeme(gt, st) {
				failGen(fmt.Sprintf("%s links the generated lexeme %q to the source lexeme %q", desc, oaClip(gt.text, 30), oaClip(st.text, 30)))
				return
			}
			if s.HasName {
				covered[g] = name
			}
		}
		for i, u := range used {
			if !u {
				fail(fmt.Sprintf("name %q is not used by any segment", sm.Names[i]))
				return
			}
		}
		if !genOK {
			failGen("the generated code ends inside a string")
			return
		}
		// sequence
		var idents []string
		for _, t := range genToks {
			if t.isIdent() {
				idents = append(idents, t.text)
			}
		}
		if a, b := strings.Join(idents, " "), strings.Join(named, " "); a != b {
			fail(fmt.Sprintf("identifiers of the generated code [%s] differ from the names of the named segments [%s]", oaClip(a, 200), oaClip(b, 200)))
			return
		}
		// every identifier is covered
		if genSide {
			for _, t := range genToks {
				if !t.isIdent() {
					continue
				}
				if n, ok := covered[t.off]; !ok || n != t.text {
					failGen(fmt.Sprintf("identifier %q at generated offset %d is not the start of a segment named %q (found %q)", t.text, t.off, t.text, n))
					return
				}
			}
		}
	})
}

// ---------- generators ----------

var c08Snippets = []string{
	"x = 1 .toString();", "y = 42 .toFixed(n) + 7 .valueOf();", "z = [3 .k, 10 .m(4 .n)];", "w = 0x1f.toString(2) + 1.5.toFixed(1);",
	"n = i + ++j - --k;", "a = b - -c;", "a = - -b;", "d = e - --f;", "g = -h - -1;", "m = !-n;", "r = 1 - -2 - - -3;",
	"s = `line1\n  line2\n\nline4` + t;", "f(`a\nb\nc`, d);", "let m = `x\n\n\ny`; g(m);", "w = `one\ntwo`;", "h(`\n\n\n`)(z);", "e = `t1 ${a}\n\n  t2` + `u`;",
	"q = \"a\\\nb\" + r;", "q2 = 'c\\\n\\\nd'; q3 = q2;",
	"u = \"h\xc3\xa9llo w\xc3\xb6rld\" + v; w = u;", "z = '\xe4\xb8\xad\xe6\x96\x87' + \"\xf0\x9f\x98\x80\" + z;", "c = `\xc3\xbc\n\xe2\x82\xac` + c;",
	"o = {k: 1, \"s\": two, 3: x, f: function(p) { return p; }};", "arr = [a, b[c], d.e.f(g), [h]];",
	"if (a == b && c != d || e <= f) { g += 1; } else h -= 2;", "if (x) y; else if (z) w; else { v; }",
	"for (let i = 0; i < n; i++) { t = t + i; }", "for (;;) { p--; }", "while (p >= q) p--;", "while (!done) { ++count; count += 2; }",
	"function fn(a, b) { return a * b % 2; }", "v = function named(z) { return !z; };", "function outer() { function inner(x) { return x; } return inner; }",
	"x = 0x1F + 1e3 + 2.5 + 007 + 0b11;", "y = 'single' + \"dbl\";", "k = (a + b) * (c - d) / e;", "t = a > b == c < d;", "j = true && false || null;",
	"obj.prop.deep = other[idx][0];", "call(a)(b)(c);", "i++; j--;", "{ let inner = 1; { inner = 2; } }", "return_ = iff + elsee + lets;",
}

var c08Comments = []string{"// plain comment\n", "// caf\xc3\xa9 \xe2\x82\xac\n", "//\n", "// x = `not code`; \"str\"\n", "  // indented\n"}

// c08Compose joins random snippets with random separators, indentation and comments.
func c08Compose(c *oracleCtx) string {
	r := c.r
	var sb strings.Builder
	for i, n := 0, 1+r.Intn(5); i < n; i++ {
		switch r.Intn(8) {
		case 0:
			sb.WriteString(c08Comments[r.Intn(len(c08Comments))])
		case 1:
			sb.WriteString("\n")
		}
		sb.WriteString([]string{"", "", "  ", "\t", "    "}[r.Intn(5)])
		sb.WriteString(c08Snippets[r.Intn(len(c08Snippets))])
		sb.WriteString([]string{"\n", "\n", " ", "\n\n", "  \n", " // tail\n"}[r.Intn(6)])
	}
	s := sb.String()
	switch r.Intn(16) {
	case 0, 1:
		s = strings.ReplaceAll(s, "\n", "\r\n")
	case 2:
		s = strings.ReplaceAll(s, "\n", "\r")
	}
	return s
}

func c08PrettyCfg(c *oracleCtx) string {
	return "pm:" + oaIndentsAll[c.r.Intn(len(oaIndentsAll))] + ":" + []string{"1", "0"}[c.r.Intn(2)]
}

func oracleC08(c *oracleCtx) {
	for _, in := range c.inputs {
		if m := recordedInput(in); m != nil {
			if s := oaStr(m, "src"); s != "" {
				func() {
					defer func() { _ = recover() }()
					src, cfg := unhex(s), oaStr(m, "cfg")
					if cfg == "" {
						cfg = "cm"
					}
					c.count(cfg + "|" + src)
					if w, ok := m["warm"].(bool); ok && w {
						c08Warm = true
						defer func() { c08Warm = false }()
					}
					if oaStr(m, "lexer-plugin") != "" {
						c08BlockPlugin = true
						defer func() { c08BlockPlugin = false }()
					}
					if oaStr(m, "tree-edit") != "" {
						c08DupStmt = true
						defer func() { c08DupStmt = false }()
					}
					if then := oaStr(m, "then"); then != "" {
						c08Prev = c08PrevMap{}
						c08Check(c, src, cfg, false)
						tc := oaStr(m, "then-cfg")
						if tc == "" {
							tc = "cm"
						}
						c08Check(c, unhex(then), tc, false)
						return
					}
					c08Check(c, src, cfg, false)
				}()
			}
			continue
		}
		if src, cfg, _, ok := oaInputSource(in); ok && src != "" {
			if cfg == "" {
				cfg = "cm"
			}
			c.count(cfg + "|" + src)
			c08Check(c, src, cfg, false)
			if oaCfgIsPretty(cfg) {
				c08Check(c, src, "cm", false)
			}
		}
	}
	if c.tier == "replay" {
		return
	}

	one := func(src string) {
		c.count(src)
		c08Warm = c.r.Intn(3) == 0
		defer func() { c08Warm = false }()
		c08Check(c, src, "cm", true)
		if c.r.Intn(4) == 0 {
			c08DupStmt = true
			c08Check(c, src, "cm", true)
			c08DupStmt = false
		}
		if c.r.Intn(4) == 0 && !strings.ContainsAny(src, "`\"'/") {
			// the same program with block comments that a lexer plugin consumes
			// (the plugin hands over right behind the comment and its blanks: a comment at the end of a line would leave the
			// line break to the lexer as a token, so such layouts are left out)
			if bsrc := strings.ReplaceAll(src, " ", []string{" /* c */ ", " /* a\n   b */ ", " /**/"}[c.r.Intn(3)]); !c08BlockAtLineEnd.MatchString(bsrc) {
				c08BlockPlugin = true
				c08Check(c, bsrc, "cm", true)
				c08BlockPlugin = false
			}
		}
		if c.r.Intn(3) == 0 {
			c08Check(c, src, c08PrettyCfg(c), true)
		}
	}
	// every snippet alone, then composed programs
	for _, s := range c08Snippets {
		one(s)
		one("{\n  " + s + "\n}\n")
	}
	n := c.n(1500, 60000)
	for i := 0; i < n && !c.expired(); i++ {
		one(c08Compose(c))
	}
	// jsgen programs in random layouts
	n = c.n(2500, 120000)
	for i := 0; i < n && !c.expired(); i++ {
		tree := jsgen.GenProgram(c.r, jsgen.GenOptions{MaxDepth: 1 + c.r.Intn(4), MaxStmts: 1 + c.r.Intn(6), Executable: c.r.Intn(4) == 0})
		src, ok := oaRenderAvoiding(c.r, tree, oaRichLayout(c.r), func(s string) bool { return c08SourceClass(s) != "" })
		if !ok {
			c.bump("steered-away")
			continue
		}
		if c.r.Intn(12) == 0 {
			src = strings.ReplaceAll(src, "\n", "\r\n")
		}
		one(src)
	}

	// witnesses: pretty-map (the full check in pretty configurations), then the source classes
	for _, w := range [][2]string{
		{"let a = 1;\nlet b = a;\n", "pm:2020:1"},
		{"function f(x) {\n  // note\n  return x;\n}\nf(1);\n", "pm:09:0"},
		{"x = 'a\"b' + y;", "cm"},
		{"x = `a\\`b` + y;", "cm"},
		{"y = 1; x = \"abc", "cm"},
		{"a = `p\rq` + b;\nc = a;", "cm"},
	} {
		c.count(w[1] + "|" + w[0])
		c08Check(c, w[0], w[1], false)
	}
}
