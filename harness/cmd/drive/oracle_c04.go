package main

// C04 "Plugin interception is transparent, ordered and re-entrant"

import (
	"fmt"
	"math/rand"
	"strings"

	"github.com/xjslang/xjs/ast"
	"github.com/xjslang/xjs/token"
)

func init() { oracles["C04"] = oracleC04 }

type c04Result struct {
	tree, errs string
	hasErr     bool
	compact    string
	pretty     string
}

func c04Summarise(o parseOutcome) c04Result {
	r := c04Result{tree: stmtListStr(o.prog.Statements), errs: errsStrB(o.errs), hasErr: o.err != nil}
	if len(o.errs) == 0 && o.err == nil {
		func() {
			defer func() {
				if x := recover(); x != nil {
					r.compact = fmt.Sprintf("panic: %v", x)
				}
			}()
			r.compact = compilerOf("c").Compile(o.prog).Code
			r.pretty = compilerOf("p:2020:1").Compile(o.prog).Code
		}()
	}
	return r
}

func parseLineOf(su parseSetup, src string) string {
	st := make([]string, len(su.stmtI))
	for i, x := range su.stmtI {
		st[i] = fmt.Sprint(x)
	}
	var ops []string
	for _, o := range su.ops {
		if o.role == "i" {
			ops = append(ops, fmt.Sprintf("i:%s:%d", hexOf(o.lit), o.prec))
		} else {
			ops = append(ops, o.role+":"+hexOf(o.lit))
		}
	}
	fl := su.flags
	if fl == "" {
		fl = "-"
	}
	return fmt.Sprintf("PARSE %s %d %s %s %s %s", fl, su.tokI, listStr(st), listStr(su.exprI), listStr(ops), hexOf(src))
}

// splitRuns splits events into maximal runs of equal (kind, token fields)
func splitRuns(trace []string) [][]ctxEvent {
	var runs [][]ctxEvent
	var prevKey string
	for _, s := range trace {
		e := parseEvent(s)
		key := string(e.kind) + s[strings.IndexByte(s, '@'):]
		if key != prevKey || len(runs) == 0 {
			runs = append(runs, nil)
			prevKey = key
		}
		runs[len(runs)-1] = append(runs[len(runs)-1], e)
	}
	return runs
}

func checkC04(c *oracleCtx, su parseSetup, src string) {
	line := parseLineOf(su, src)
	input := map[string]any{"line": line, "text": src}
	guard(c, "panic", input, func() {
		base := runParse(parseSetup{flags: su.flags, ops: su.ops, install: su.install}, src)
		with := runParse(su, src)
		b, w := c04Summarise(base), c04Summarise(with)
		// (a) transparency
		switch {
		case b.tree != w.tree:
			c.violation("transparency-tree", "tree differs from the run without interceptors "+firstDiff(b.tree, w.tree), input)
			return
		case b.errs != w.errs || b.hasErr != w.hasErr:
			c.violation("transparency-errors", fmt.Sprintf("errors differ: without [%s] err=%v, with [%s] err=%v", errsTextB(base.errs), b.hasErr, errsTextB(with.errs), w.hasErr), input)
			return
		case b.compact != w.compact || b.pretty != w.pretty:
			c.violation("transparency-output", "compiled output differs "+firstDiff(b.compact+"\x00"+b.pretty, w.compact+"\x00"+w.pretty), input)
			return
		}
		if base.ctx != with.ctx || base.inFn != with.inFn {
			c.violation("transparency-context", "final context differs", input)
			return
		}
		// one builder, several parsers: the second and third parser built from the same builder behave like the first
		for _, k := range []int{1, 2} {
			su2 := su
			su2.rebuild = k
			again := runParse(su2, src)
			a := c04Summarise(again)
			if a.tree != w.tree || a.errs != w.errs || strings.Join(again.trace, ",") != strings.Join(with.trace, ",") ||
				strings.Join(again.tokTrace, ",") != strings.Join(with.tokTrace, ",") {
				c.violation("rebuild-differs", fmt.Sprintf("parser number %d built from the same builder behaves differently (tree, errors or interceptor order) %s", k+1,
					firstDiff(w.tree+"|"+strings.Join(with.trace, ","), a.tree+"|"+strings.Join(again.trace, ","))), input)
				return
			}
		}
		// (d) a single re-entrant interceptor
		re := runParse(parseSetup{flags: su.flags, ops: su.ops, install: su.install, exprI: []string{"r0"}}, src)
		if t := stmtListStr(re.prog.Statements); t != b.tree || errsStrB(re.errs) != b.errs {
			c.violation("reentrant-differs", "one re-entrant interceptor changes the result "+firstDiff(b.tree+errsStrB(base.errs), t+errsStrB(re.errs)), input)
			return
		}
		// (b) order
		var effExpr []int
		for _, spec := range su.exprI {
			effExpr = append(effExpr, atoi(spec[1:]))
			if spec[0] == 'r' {
				break
			}
		}
		counts := map[string]int{}
		stmtEvents := map[string]int{} // position -> number of complete observer rounds
		exprEvents := map[string]int{}
		stmtType := map[string]int{}
		for _, run := range splitRuns(with.trace) {
			want := su.stmtI
			if run[0].kind == 'E' {
				want = effExpr
			}
			if len(want) == 0 || len(run)%len(want) != 0 {
				c.violation("order", fmt.Sprintf("a step at %d:%d has %d %c-events for %d observers", run[0].line, run[0].co, len(run), run[0].kind, len(want)), input)
				return
			}
			for i, e := range run {
				if e.id != want[i%len(want)] {
					c.violation("order", fmt.Sprintf("step at %d:%d: %c-event %d comes from observer %d, installation order wants %d", e.line, e.co, e.kind, i, e.id, want[i%len(want)]), input)
					return
				}
				counts[fmt.Sprintf("%c%d", e.kind, e.id)]++
			}
			if run[0].kind == 'S' {
				k := fmt.Sprintf("%d:%d", run[0].line, run[0].co)
				stmtEvents[k] += len(run) / len(want)
				stmtType[k] = run[0].typ
			} else {
				exprEvents[fmt.Sprintf("%d:%d", run[0].line, run[0].co)] += len(run) / len(want)
			}
		}
		for gi, ids := range [][]int{su.stmtI, effExpr} {
			kind := "SE"[gi : gi+1]
			for i := range ids {
				if counts[fmt.Sprintf("%s%d", kind, ids[i])] != counts[fmt.Sprintf("%s%d", kind, ids[0])] {
					c.violation("order", fmt.Sprintf("observer %s%d fired %d times, observer %s%d %d times", kind, ids[i], counts[fmt.Sprintf("%s%d", kind, ids[i])], kind, ids[0], counts[fmt.Sprintf("%s%d", kind, ids[0])]), input)
					return
				}
			}
		}
		// later expression interceptors never fire after a re-entrant one
		for i, spec := range su.exprI {
			if i >= len(effExpr) && counts["E"+spec[1:]] > 0 && !containsInt(effExpr, atoi(spec[1:])) {
				c.violation("order", "interceptor "+spec+" behind a re-entrant interceptor fired", input)
				return
			}
		}
		// statement events sit on the first token of let/function/return/if/while/for/block nodes
		if len(su.stmtI) > 0 {
			bad := ""
			v := &astVisitor{}
			v.stmt = func(s ast.Statement, _ []string) {
				if _, isES := s.(*ast.ExpressionStatement); isES || bad != "" {
					return
				}
				t, ok := stmtFirstTok(s)
				if !ok {
					return
				}
				k := posKey(t.Start)
				if stmtEvents[k] != 1 {
					bad = fmt.Sprintf("%T at %s has %d statement events per observer", s, k, stmtEvents[k])
				} else if stmtType[k] != int(t.Type) {
					bad = fmt.Sprintf("%T at %s: event token type %d, node token type %d", s, k, stmtType[k], int(t.Type))
				}
			}
			v.program(with.prog)
			if bad != "" {
				c.violation("statement-event-token", bad, input)
				return
			}
		}
		// every expression parse step is announced: one round of the observers per expression slot of the tree (operand of a
		// prefix or binary operator, argument, element, key, value, property, index, condition, parenthesised expression,
		// initialiser, expression statement), on the slot's first token. Error-free parses with observers only.
		onlyObservers := len(su.exprI) > 0
		for _, spec := range su.exprI {
			if spec[0] != 'o' {
				onlyObservers = false
			}
		}
		if onlyObservers && len(with.errs) == 0 {
			slots := exprSlots(with.prog)
			for k, n := range slots {
				if exprEvents[k] != n {
					c.violation("expression-step-unannounced", fmt.Sprintf("%d expression(s) of the tree start at %s as an operand / argument / property / …, the observers were run %d time(s) there", n, k, exprEvents[k]), input)
					return
				}
			}
			for k, n := range exprEvents {
				if slots[k] == 0 {
					c.violation("expression-step-unannounced", fmt.Sprintf("the observers were run %d time(s) at %s where no expression slot of the tree starts", n, k), input)
					return
				}
			}
		}
		// (c) token observers
		if su.tokI > 0 {
			if msg := checkTokTrace(su, src, with.tokTrace); msg != "" {
				c.violation("token-observer", msg, input)
				return
			}
		}
	})
}

// exprSlots counts, per start position, the expression slots of the tree: the places where the grammar asks for an
// expression (everything but the left operand of a binary / postfix / call / member / assignment node, which the
// operator loop hands over). Written from the grammar, not from the parser.
func exprSlots(p *ast.Program) map[string]int {
	m := map[string]int{}
	var expr func(e ast.Expression, slot bool)
	var stmt func(s ast.Statement)
	expr = func(e ast.Expression, slot bool) {
		if isNilB(e) {
			return
		}
		if slot {
			if t, ok := leftmostTok(e); ok {
				m[posKey(t.Start)]++
			}
		}
		switch n := e.(type) {
		case *ast.BinaryExpression:
			expr(n.Left, false)
			expr(n.Right, true)
		case *ast.UnaryExpression:
			expr(n.Right, true)
		case *ast.PostfixExpression:
			expr(n.Left, false)
		case *ast.GroupedExpression:
			expr(n.Expression, true)
		case *ast.CallExpression:
			expr(n.Function, false)
			for _, a := range n.Arguments {
				expr(a, true)
			}
		case *ast.MemberExpression:
			expr(n.Object, false)
			expr(n.Property, true)
		case *ast.AssignmentExpression:
			expr(n.Left, false)
			expr(n.Value, true)
		case *ast.CompoundAssignmentExpression:
			expr(n.Left, false)
			expr(n.Value, true)
		case *ast.LetExpression:
			expr(n.Value, true)
		case *ast.FunctionExpression:
			if n.Body != nil {
				stmt(n.Body)
			}
		case *ast.ArrayLiteral:
			for _, x := range n.Elements {
				expr(x, true)
			}
		case *ast.ObjectLiteral:
			for _, pr := range n.Properties {
				expr(pr.Key, true)
				expr(pr.Value, true)
			}
		}
	}
	stmt = func(s ast.Statement) {
		if isNilB(s) {
			return
		}
		switch n := s.(type) {
		case *ast.ExpressionStatement:
			expr(n.Expression, true)
		case *ast.LetStatement:
			expr(n.Value, true)
		case *ast.ReturnStatement:
			expr(n.ReturnValue, true)
		case *ast.FunctionDeclaration:
			if n.Body != nil {
				stmt(n.Body)
			}
		case *ast.BlockStatement:
			for _, x := range n.Statements {
				stmt(x)
			}
		case *ast.IfStatement:
			expr(n.Condition, true)
			stmt(n.ThenBranch)
			stmt(n.ElseBranch)
		case *ast.WhileStatement:
			expr(n.Condition, true)
			stmt(n.Body)
		case *ast.ForStatement:
			if _, isLet := n.Init.(*ast.LetExpression); isLet {
				expr(n.Init, false) // `let` in a for head is read by the statement, its value is the slot
			} else {
				expr(n.Init, true)
			}
			expr(n.Condition, true)
			expr(n.Update, true)
			stmt(n.Body)
		}
	}
	for _, s := range p.Statements {
		stmt(s)
	}
	return m
}

func containsInt(l []int, x int) bool {
	for _, y := range l {
		if x == y {
			return true
		}
	}
	return false
}

func checkTokTrace(su parseSetup, src string, tt []string) string {
	k := su.tokI
	if len(tt)%k != 0 {
		return fmt.Sprintf("%d token events for %d observers", len(tt), k)
	}
	toks := lexAllB(src)
	starts := lineOffsets(src)
	dyn := map[string]bool{}
	for _, o := range su.ops {
		dyn[o.lit] = true
	}
	for i := 0; i < len(tt); i += k {
		at := strings.IndexByte(tt[i], '@')
		for j := 0; j < k; j++ {
			e := tt[i+j]
			a2 := strings.IndexByte(e, '@')
			if atoi(e[:a2]) != j || e[a2:] != tt[i][at:] {
				return fmt.Sprintf("token request %d: event %d is %q, expected observer %d with fields %q", i/k, j, e, j, tt[i][at:])
			}
		}
		f := strings.Split(tt[i][at+1:], ":")
		typ, sl, sc, ll, lc, ch := atoi(f[0]), atoi(f[1]), atoi(f[2]), atoi(f[3]), atoi(f[4]), atoi(f[5])
		if sl != ll || sc != lc {
			return fmt.Sprintf("token request %d: lexer stood at %d:%d when asked, the token starts at %d:%d", i/k, ll, lc, sl, sc)
		}
		idx := i / k
		if idx >= len(toks) {
			idx = len(toks) - 1 // further requests give EOF again
		}
		ref := toks[idx]
		refType := int(ref.Type)
		if ref.Type == token.ILLEGAL && dyn[ref.Literal] {
			if typ < int(token.DYNAMIC_TOKENS_START) {
				return fmt.Sprintf("token request %d: dynamic token %q not retyped (type %d)", i/k, ref.Literal, typ)
			}
			refType = typ
		}
		if refType != typ || ref.Start.Line != sl || ref.Start.Column != sc {
			return fmt.Sprintf("token request %d returned type %d at %d:%d, a fresh lexer gives %v", i/k, typ, sl, sc, ref)
		}
		want := 0
		if sl < len(starts) {
			if off := starts[sl] + sc; off < len(src) {
				want = int(src[off])
			}
		}
		if typ == int(token.EOF) {
			want = 0
		}
		if ch != want {
			return fmt.Sprintf("token request %d: current char %d when asked, first byte of the lexeme is %d", i/k, ch, want)
		}
	}
	if len(tt)/k < len(toks) {
		return fmt.Sprintf("%d token requests observed, the source has %d tokens", len(tt)/k, len(toks))
	}
	return ""
}

func randC04Setup(r *rand.Rand) parseSetup {
	su := parseSetup{flags: strings.ReplaceAll(modeFlags[r.Intn(4)], "-", "")}
	if r.Intn(2) == 0 {
		su.flags += "i"
		su.install = true
	}
	total := r.Intn(9)
	ns, ne := 0, 0
	for i := 0; i < total; i++ {
		switch r.Intn(7) {
		case 0:
			su.tokI++
		case 1, 2, 3:
			su.stmtI = append(su.stmtI, ns)
			ns++
		default:
			kind := "o"
			if r.Intn(4) == 0 {
				kind = "r"
			}
			su.exprI = append(su.exprI, fmt.Sprintf("%s%d", kind, ne))
			ne++
		}
	}
	return su
}

func oracleC04(c *oracleCtx) {
	for _, in := range readInputsB(c) {
		switch in.kind {
		case "PARSE":
			checkC04(c, in.setup, in.src)
			c.count(in.line)
		case "rec":
			if l := recStr(in.rec, "line"); strings.HasPrefix(l, "PARSE ") {
				f := strings.Split(l, " ")
				if len(f) == 7 {
					checkC04(c, parseSetupOf(f[1], f[2], f[3], f[4], f[5]), unhex(f[6]))
					c.count(l)
				}
			}
		}
	}
	if c.tier != "replay" {
		// characters at the edge of the lexer's classes between the tokens, seen by token observers
		for _, src := range []string{"a\u00a0+\u00a0b", "let x\u00a0= 1\u00a0", "f(a,\u00a0\u00a0b)\n\u00a0c", "a\x0c+ b\x0b", "x =\t1\r\n\ufeffy", "a \u2028 b", "é + ü"} {
			for _, tokI := range []int{1, 2, 3} {
				su := parseSetup{tokI: tokI, stmtI: []int{0}, exprI: []string{"o0"}}
				checkC04(c, su, src)
				c.count(parseLineOf(su, src))
			}
		}
	}
	n := c.n(3000, 100000)
	for i := 0; i < n && !c.expired(); i++ {
		su := randC04Setup(c.r)
		var src string
		switch c.r.Intn(10) {
		case 0, 1, 2, 3:
			src = randProgramText(c.r)
		case 4:
			src = nestedTemplate(c.r, 1+c.r.Intn(3))
		case 5, 6:
			src = randProgramText(c.r)
			for k, m := 0, 1+c.r.Intn(3); k < m; k++ {
				src = mutate(c.r, src)
			}
		case 7:
			src = randFragments(c.r, 1+c.r.Intn(14))
		case 8:
			src = randBytes(c.r, c.r.Intn(30))
		default:
			su.ops = parseOps(randCustomOps(c.r))
			src = customOpSources[c.r.Intn(len(customOpSources))]
			if c.r.Intn(3) == 0 {
				src = mutate(c.r, src)
			}
		}
		if len(src) > 4000 {
			src = src[:4000]
		}
		checkC04(c, su, src)
		c.count(parseLineOf(su, src))
	}
}
