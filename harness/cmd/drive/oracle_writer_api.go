package main

// The exported CodeWriter methods are what plugin nodes print with. A node that writes its text rune by rune with
// WriteRune, or in pieces with WriteString, must get the text it wrote: these checks compile a hand-made node and
// compare with the text written in one piece (model-free; used by C07 for literals and by C08 for positions).

import (
	"fmt"
	"strings"

	"github.com/xjslang/xjs/ast"
)

// textNode prints a fixed text: mode 0 one WriteString, mode 1 one WriteRune per rune, mode 2 WriteString per rune
type textNode struct {
	text string
	mode int
}

func (n *textNode) Precedence() int { return 100 }
func (n *textNode) WriteTo(cw *ast.CodeWriter) {
	switch n.mode {
	case 1:
		for _, r := range n.text {
			cw.WriteRune(r)
		}
	case 2:
		for _, r := range n.text {
			cw.WriteString(string(r))
		}
	default:
		cw.WriteString(n.text)
	}
}

var writerAPITexts = []string{"\"abc\"", "\"Łukasz\"", "'héllo wörld'", "\"日本語\"", "\"\U0001F600 ok\"", "\"a b c\"", "\" ÿĀ߿ࠀ￿\"", "`x\ny`", "\"tab\\there\""}

// checkWriterAPI: under every configuration the three ways of writing give the same code (and the same map)
func checkWriterAPI(c *oracleCtx, class string, texts []string) {
	for _, t := range texts {
		for _, cfg := range []string{"c", "cm", "p:2020:1", "pm:09:0"} {
			input := map[string]any{"writer-api-text": hexOf(t), "text": t, "cfg": cfg}
			guard(c, class, input, func() {
				var outs []string
				for mode := 0; mode < 3; mode++ {
					prog := &ast.Program{Statements: []ast.Statement{
						&ast.ExpressionStatement{Expression: &ast.AssignmentExpression{Left: &ast.Identifier{Value: "x"}, Value: &textNode{text: t, mode: mode}}},
						&ast.ExpressionStatement{Expression: &ast.Identifier{Value: "y"}},
					}}
					outs = append(outs, compileStr(cfg, prog))
				}
				c.count(cfg + "|" + t)
				codeOf := func(o string) string { return strings.SplitN(o, ";", 2)[0] }
				for mode := 1; mode < 3; mode++ {
					// (WriteRune advances the generated column by one per rune, WriteString by bytes: for text outside ASCII the
					// maps of the two differ on the unchanged tree; only the code is compared for the rune-wise node)
					if mode == 1 && codeOf(outs[mode]) == codeOf(outs[0]) {
						continue
					}
					if outs[mode] != outs[0] {
						how := []string{"", "rune by rune with WriteRune", "piece by piece with WriteString"}[mode]
						c.violation(class, fmt.Sprintf("a node that writes %q %s gets %s, written in one piece it gets %s", t, how,
							oaClip(strings.TrimPrefix(outs[mode], "code="), 200), oaClip(strings.TrimPrefix(outs[0], "code="), 200)), input)
						return
					}
				}
			})
		}
	}
}
