package main

// C14 "Instances are isolated and results deterministic, also under concurrency".
//
// A JOB is a builder configuration (modes, registered token types with custom prefix / infix /
// postfix operators, token / statement / expression interceptors, installed directly or through
// plugins), a source text and a list of compiler configurations. Its RESULT is everything the
// real code lets one observe: the outcome of every registration call, the token list of a lexer
// built from the job's lexer builder, the tree with all stored tokens, the errors, the interceptor
// trace, the final parsing context, and for every compiler configuration the code and the
// version / names / mappings of the source map.
//
// A SCENARIO is a list of jobs plus a schedule seed. It is judged by the real code alone:
//   reference   every job alone: fresh builder, fresh compilers, one after the other;
//   again       all jobs again on fresh builders in other orders (a job may not depend on which
//               other builders were created and used before it);
//   nested      a job run from inside a statement interceptor of another job's parser;
//   shared      one builder per configuration builds the parsers of all jobs of that configuration
//               (parsers built first, parsed later, in random order);
//   incremental operators registered one by one on one builder (their token types all declared
//               first), parsers built in between: each equals a fresh builder with the operators
//               registered so far, also when it is parsed only after the later registrations;
//   compile     one compiler per configuration shared by all trees, the same tree compiled
//               repeatedly in random configuration order; the tree (full S-expression with all
//               tokens) is snapshotted before and after;
//   concurrent  the jobs on 2..16 goroutines: fresh builders, Build on shared builders, shared
//               trees compiled by distinct compilers;
//   sentinels   a fixed list of jobs whose results were recorded when the process started is run
//               again after every scenario (leaks through package-level state).
// Every result must equal the reference result of its job. Per tree, moreover:
//   map         Code with WithSourceMap equals Code without, in every configuration;
//   debug       debug.ToString of the program, of every statement and of every expression node
//               equals the compact compilation of that node (with and without source map).
//
// The concurrent part uses sync.WaitGroup only, every goroutine writes to its own result slot, the
// interceptors of shared builders keep their traces per parser in a sync.Map: the section is
// itself free of races, so the harness can be built with -race and a report then concerns xjs.
// Once a violation has been seen the concurrent stage is skipped (a leak through a package-level
// map could otherwise end the process with an unrecoverable "concurrent map read and map write").
//
// KNOWN CLASSES
//   none. (No input class is known on which the unchanged tree violates C14; every failure is
//   reported with class "".)

import (
	"fmt"
	"math/rand"
	"strings"
	"sync"
	"sync/atomic"
	"time"

	"github.com/xjslang/xjs/ast"
	"github.com/xjslang/xjs/compiler"
	"github.com/xjslang/xjs/debug"
	"github.com/xjslang/xjs/lexer"
	"github.com/xjslang/xjs/parser"
	"github.com/xjslang/xjs/token"
	"xjsverif/internal/jsgen"
	"xjsverif/internal/treegen"
)

func init() { oracles["C14"] = oracleC14 }

// ---------- jobs ----------

type c14Job struct {
	su   parseSetup
	f    [5]string // flags, token interceptors, statement interceptors, expression interceptors, operators
	src  string
	cfgs []string
	pre  []string // token types declared before the operators are registered (incremental stage only)
}

func (j c14Job) spec() string { return strings.Join(j.f[:], " ") }

func (j c14Job) line() string {
	return "JOB " + j.spec() + " " + hexOf(j.src) + " " + strings.Join(j.cfgs, ",")
}

func c14MakeJob(flags, tokI, stmtI, exprI, ops, src string, cfgs []string) c14Job {
	return c14Job{su: parseSetupOf(flags, tokI, stmtI, exprI, ops), f: [5]string{flags, tokI, stmtI, exprI, ops}, src: src, cfgs: cfgs}
}

func c14ParseJob(line string) (j c14Job, ok bool) {
	defer func() {
		if recover() != nil {
			ok = false
		}
	}()
	f := strings.Split(line, " ")
	if len(f) != 8 || f[0] != "JOB" {
		return j, false
	}
	return c14MakeJob(f[1], f[2], f[3], f[4], f[5], unhex(f[6]), strings.Split(f[7], ",")), true
}

func (j c14Job) withOps(ops []customOp) c14Job {
	var l []string
	for _, o := range ops {
		if o.role == "i" {
			l = append(l, fmt.Sprintf("i:%s:%d", hexOf(o.lit), o.prec))
		} else {
			l = append(l, o.role+":"+hexOf(o.lit))
		}
	}
	out := c14MakeJob(j.f[0], j.f[1], j.f[2], j.f[3], listStr(l), j.src, j.cfgs)
	out.pre = j.pre
	return out
}

// ---------- builders ----------

type c14Sink struct {
	trace []string
	hook  func() // run once, at the first statement event
}

type c14Builder struct {
	lb    *lexer.Builder
	pb    *parser.Builder
	dyn   map[string]token.Type // written while the builder is set up only
	reg   []string              // outcome of every registration call
	sinks sync.Map              // *parser.Parser -> *c14Sink
}

// declare registers a token type; the builder's token interceptor then gives that type to the
// (otherwise illegal) character.
func (b *c14Builder) declare(lit string) token.Type {
	id := b.lb.RegisterTokenType(lit)
	b.dyn[lit] = id
	return id
}

func (b *c14Builder) register(op customOp) {
	id := b.declare(op.lit)
	var err error
	switch op.role {
	case "p":
		err = b.pb.RegisterPrefixOperator(id, genericPrefix)
	case "i":
		err = b.pb.RegisterInfixOperator(id, op.prec, genericInfix)
	case "s":
		err = b.pb.RegisterPostfixOperator(id, genericPostfix)
	}
	out := fmt.Sprintf("%s:%d:ok", op.role, int(id))
	if err != nil {
		out = fmt.Sprintf("%s:%d:%s", op.role, int(id), hexOf(err.Error()))
	}
	b.reg = append(b.reg, out)
}

// c14NewBuilder sets a builder up; the custom operators are registered by the caller.
func c14NewBuilder(su parseSetup) *c14Builder {
	b := &c14Builder{lb: lexer.NewBuilder(), dyn: map[string]token.Type{}}
	b.pb = parser.NewBuilder(b.lb)
	b.lb.UseTokenInterceptor(func(l *lexer.Lexer, next func() token.Token) token.Token {
		t := next()
		if t.Type == token.ILLEGAL {
			if id, ok := b.dyn[t.Literal]; ok {
				t.Type = id
			}
		}
		return t
	})
	for k := 0; k < su.tokI; k++ {
		suffix := fmt.Sprintf("_%d", k)
		b.lb.UseTokenInterceptor(func(l *lexer.Lexer, next func() token.Token) token.Token {
			t := next()
			if t.Type == token.IDENT && strings.HasPrefix(t.Literal, "q") {
				t.Literal += suffix
			}
			return t
		})
	}
	event := func(kind string, id int, p *parser.Parser) {
		if v, ok := b.sinks.Load(p); ok {
			s := v.(*c14Sink)
			s.trace = append(s.trace, eventStr(kind, id, p))
			if kind == "S" && s.hook != nil {
				h := s.hook
				s.hook = nil
				h()
			}
		}
	}
	install := func(f func(*parser.Builder)) {
		if su.install {
			b.pb.Install(f)
		} else {
			f(b.pb)
		}
	}
	for _, id := range su.stmtI {
		id := id
		install(func(pb *parser.Builder) {
			pb.UseStatementInterceptor(func(p *parser.Parser, next func() ast.Statement) ast.Statement {
				event("S", id, p)
				return next()
			})
		})
	}
	for _, spec := range su.exprI {
		id, re := atoi(spec[1:]), spec[0] == 'r'
		install(func(pb *parser.Builder) {
			pb.UseExpressionInterceptor(func(p *parser.Parser, next func() ast.Expression) ast.Expression {
				event("E", id, p)
				if re {
					return p.ParseRemainingExpression(p.ParsePrefixExpression())
				}
				return next()
			})
		})
	}
	if strings.Contains(su.flags, "t") {
		b.pb.WithTolerantMode(true)
	}
	if strings.Contains(su.flags, "s") {
		b.pb.WithSmartSemicolon(true)
	}
	return b
}

func c14BuilderOf(job c14Job) *c14Builder {
	b := c14NewBuilder(job.su)
	for _, lit := range job.pre {
		b.declare(lit)
	}
	for _, op := range job.su.ops {
		b.register(op)
	}
	return b
}

// c14Pending is a parser that has been built but not run yet.
type c14Pending struct {
	b    *c14Builder
	p    *parser.Parser
	reg  string
	toks string
}

func (b *c14Builder) build(src string) *c14Pending {
	l := b.lb.Build(src)
	var toks []string
	for i := 0; i <= len(src)+2; i++ {
		t := l.NextToken()
		toks = append(toks, tokStr(t))
		if t.Type == token.EOF {
			break
		}
	}
	return &c14Pending{b: b, p: b.pb.Build(src), reg: listStr(b.reg), toks: strings.Join(toks, " ")}
}

type c14Parsed struct {
	head string // everything observable about the parse
	prog *ast.Program
	ok   bool // no error: the tree can be compiled
}

func (pd *c14Pending) finish(hook func()) c14Parsed {
	sink := &c14Sink{hook: hook}
	pd.b.sinks.Store(pd.p, sink)
	defer pd.b.sinks.Delete(pd.p)
	prog, err := pd.p.ParseProgram()
	errs := pd.p.Errors()
	head := fmt.Sprintf("reg=%s;toks=%s;tree=%s;err=%d;errs=%s;trace=%s;ctx=%d;infn=%d", pd.reg, pd.toks, stmtListStr(prog.Statements),
		b2i(err != nil), errsStrB(errs), listStr(sink.trace), ctxNat(pd.p.CurrentContext()), b2i(pd.p.IsInFunction()))
	return c14Parsed{head: head, prog: prog, ok: err == nil && len(errs) == 0}
}

func c14CompileWith(comp *compiler.Compiler, prog *ast.Program) string {
	res := comp.Compile(prog)
	if res.SourceMap == nil {
		return "code=" + hexOf(res.Code)
	}
	names := make([]string, len(res.SourceMap.Names))
	for i, n := range res.SourceMap.Names {
		names[i] = hexOf(n)
	}
	return fmt.Sprintf("code=%s;version=%d;names=%s;mappings=%s", hexOf(res.Code), res.SourceMap.Version, listStr(names), res.SourceMap.Mappings)
}

// c14CompilerAlt builds the same configuration with the options applied in the other order.
func c14CompilerAlt(cfg string) *compiler.Compiler {
	f := strings.Split(cfg, ":")
	c := compiler.New()
	if strings.Contains(f[0], "m") {
		c = c.WithSourceMap()
	}
	if len(f) == 3 {
		indent := unhex(f[1])
		c = c.WithPrettyPrint(compiler.WithSemi(f[2] == "1"), func(o *compiler.PrettyPrintOptions) { o.IndentString = indent })
	}
	return c
}

type c14Result struct {
	head string
	outs []string // per configuration of the job; nil when the tree has errors
	prog *ast.Program
	ok   bool
}

func (r c14Result) String() string {
	if !r.ok {
		return r.head
	}
	return r.head + "\n" + strings.Join(r.outs, "\n")
}

// c14Diverged: some run of the code under test did not come back; its goroutine still spins, the
// oracle reports the violation and stops generating.
var c14Diverged atomic.Bool

const c14Timeout = 10 * time.Second

// c14Protect runs f with panic recovery and a time limit.
func c14Protect(f func() c14Result) c14Result {
	ch := make(chan c14Result, 1)
	go func() {
		defer func() {
			if r := recover(); r != nil {
				ch <- c14Result{head: fmt.Sprintf("panic: %v", r)}
			}
		}()
		ch <- f()
	}()
	timer := time.NewTimer(c14Timeout)
	defer timer.Stop()
	select {
	case res := <-ch:
		return res
	case <-timer.C:
		c14Diverged.Store(true)
		return c14Result{head: fmt.Sprintf("diverged: no result within %v", c14Timeout)}
	}
}

func c14Compile(job c14Job, pr c14Parsed, comp func(cfg string) *compiler.Compiler) c14Result {
	res := c14Result{head: pr.head, prog: pr.prog, ok: pr.ok}
	if pr.ok {
		for _, cfg := range job.cfgs {
			res.outs = append(res.outs, cfg+": "+c14CompileWith(comp(cfg), pr.prog))
		}
	}
	return res
}

// c14Fresh runs the job alone: fresh builder, fresh compilers.
func c14Fresh(job c14Job, hook func()) c14Result {
	return c14Protect(func() c14Result {
		return c14Compile(job, c14BuilderOf(job).build(job.src).finish(hook), compilerOf)
	})
}

// ---------- per-tree checks ----------

var c14MapGrid = []string{"c", "p:2020:1", "p:09:0", "p:-:1", "p:20202020:0", "p:20:1", "p:09:1", "p:2020:0"}

// c14Tree checks source-map independence and the debug string on one tree. It reports whether all held.
func c14Tree(c *oracleCtx, prog *ast.Program, cfgs []string, input map[string]any) bool {
	good := true
	fail := func(what string) {
		good = false
		in := map[string]any{}
		for k, v := range input {
			in[k] = v
		}
		c.violation("", what, in)
	}
	defer func() {
		if r := recover(); r != nil {
			fail(fmt.Sprintf("panic: %v", r))
		}
	}()
	before := stmtListStr(prog.Statements)
	for _, cfg := range cfgs {
		base := strings.Replace(cfg, "m", "", 1)
		f := strings.SplitN(base, ":", 2)
		with := f[0] + "m"
		if len(f) == 2 {
			with += ":" + f[1]
		}
		c.bump("map-pairs")
		plain, mapped := compilerOf(base).Compile(prog), compilerOf(with).Compile(prog)
		if mapped.SourceMap == nil || plain.SourceMap != nil {
			fail(base + ": a source map is present without being requested or absent although requested")
		}
		if plain.Code != mapped.Code {
			fail(fmt.Sprintf("%s: requesting a source map changes the code: %s", base, firstDiff(plain.Code, mapped.Code)))
			break
		}
		if again := compilerOf(base).Compile(prog).Code; again != plain.Code {
			fail(fmt.Sprintf("%s: compiling again after a source-mapped compilation changes the code: %s", base, firstDiff(plain.Code, again)))
			break
		}
	}
	// debug string form
	node := func(kind string, n ast.Node) bool {
		c.bump("debug-nodes")
		p := &ast.Program{Statements: []ast.Statement{n}}
		s := debug.ToString(n)
		if want := compiler.New().Compile(p).Code; s != want {
			fail(fmt.Sprintf("debug.ToString of %s gives %q, its compact compilation %q", kind, oaClip(s, 200), oaClip(want, 200)))
			return false
		}
		if want := compiler.New().WithSourceMap().Compile(p).Code; s != want {
			fail(fmt.Sprintf("debug.ToString of %s gives %q, its compact compilation with source map %q", kind, oaClip(s, 200), oaClip(want, 200)))
			return false
		}
		return true
	}
	if s, want := debug.ToString(prog), compiler.New().Compile(prog).Code; s != want {
		fail(fmt.Sprintf("debug.ToString of the program gives %q, its compact compilation %q", oaClip(s, 200), oaClip(want, 200)))
	}
	budget, stop := 150, false
	v := &astVisitor{}
	v.stmt = func(s ast.Statement, _ []string) {
		if budget--; budget >= 0 && !stop && !node("a statement", s) {
			stop = true
		}
	}
	v.expr = func(e ast.Expression, _ []string) {
		if budget--; budget >= 0 && !stop && !node("an expression", e) {
			stop = true
		}
	}
	v.program(prog)
	if after := stmtListStr(prog.Statements); after != before {
		fail("compiling modified the tree: " + firstDiff(before, after))
	}
	return good
}

// ---------- scenarios ----------

type c14Scenario struct {
	jobs  []c14Job
	sched int64
	gor   int
}

var c14Leaked bool // a violation was seen: no concurrent stages any more

var c14SentinelJobs = []c14Job{
	c14MakeJob("-", "0", "-", "-", "-", "a + b * c - d / e % f == g && h || !i; x = y++ + --z; f(a)[b].c = -1;", []string{"c", "p:2020:1", "cm"}),
	c14MakeJob("-", "0", "-", "-", "i:"+hexOf("^")+":8", "let r = a ^ b + c * d ^ e;", []string{"c", "pm:09:0"}),
	c14MakeJob("-", "1", "0", "o0", "p:"+hexOf("~"), "~a.b + ~q; f(~c);", []string{"c", "p:-:1"}),
	c14MakeJob("ts", "0", "-", "-", "-", "a\n(b)\n[c]\nlet d = 1 let e", []string{"c"}),
	c14MakeJob("i", "0", "0,1", "r0", "p:"+hexOf("~")+",i:"+hexOf("#")+":3,s:"+hexOf("@"), "~a # b@ # c; a @ ;", []string{"c", "cm", "p:2020:0"}),
	c14MakeJob("-", "0", "-", "-", "i:"+hexOf("?")+":12,i:"+hexOf("\\")+":2", "x = a ? b \\ c ? d;", []string{"c"}),
	c14MakeJob("-", "0", "-", "-", "s:"+hexOf("@"), "let v = user@; a@@ + b@;", []string{"c", "p:2020:1"}),
}

var c14SentinelRef []string

// c14Sentinels runs the fixed jobs and compares with what they gave when the process started
// (the first call records that, and then runs them once more at once).
func c14Sentinels(c *oracleCtx, input map[string]any, when string) bool {
	good := true
	if c14SentinelRef == nil {
		for _, job := range c14SentinelJobs {
			got := c14Fresh(job, nil).String()
			c.bump("runs")
			c14SentinelRef = append(c14SentinelRef, got)
			if strings.HasPrefix(got, "panic") || strings.HasPrefix(got, "diverged") {
				c.violation("", "sentinel job: "+got, map[string]any{"jobs": []string{job.line()}, "sched": 0, "gor": 0})
				good = false
			}
		}
		when = "at the start"
	}
	for i, job := range c14SentinelJobs {
		if c14Diverged.Load() {
			return false
		}
		got := c14Fresh(job, nil).String()
		c.bump("runs")
		if got != c14SentinelRef[i] {
			in := map[string]any{"stage": "sentinels " + when, "sentinel": job.line()}
			for k, v := range input {
				in[k] = v
			}
			c.violation("", fmt.Sprintf("the fixed job %d (%q) no longer gives what it gave when the process started: %s", i, job.src, firstDiff(c14SentinelRef[i], got)), in)
			good = false
		}
	}
	return good
}

func c14Lines(jobs []c14Job) []string {
	out := make([]string, len(jobs))
	for i, j := range jobs {
		out[i] = j.line()
	}
	return out
}

func c14RunScenario(c *oracleCtx, sc c14Scenario) {
	n := len(sc.jobs)
	input := map[string]any{"jobs": c14Lines(sc.jobs), "sched": sc.sched, "gor": sc.gor}
	r := rand.New(rand.NewSource(sc.sched))
	good := true
	fail := func(stage string, job int, what string) {
		good = false
		c14Leaked = true
		in := map[string]any{"stage": stage, "job": job}
		for k, v := range input {
			in[k] = v
		}
		if job >= 0 {
			in["text"] = sc.jobs[job].src
			in["builder"] = sc.jobs[job].spec()
		}
		c.violation("", stage+": "+what, in)
	}
	if !c14Sentinels(c, input, "before") {
		good, c14Leaked = false, true
	}
	if c14Diverged.Load() {
		return
	}

	// reference: every job alone
	ref := make([]c14Result, n)
	refS := make([]string, n)
	snap := make([]string, n)
	for i, job := range sc.jobs {
		c.count(job.line())
		c.bump("runs")
		ref[i] = c14Fresh(job, nil)
		refS[i] = ref[i].String()
		if strings.HasPrefix(ref[i].head, "panic") || strings.HasPrefix(ref[i].head, "diverged") {
			fail("reference", i, ref[i].head)
			return
		}
		snap[i] = stmtListStr(ref[i].prog.Statements)
	}
	expect := func(stage string, i int, got string) bool {
		c.bump("runs")
		if got != refS[i] {
			fail(stage, i, "the result differs from the result of the job run alone: "+firstDiff(refS[i], got))
			return false
		}
		return true
	}

	// again: fresh builders, other orders
	orders := [][]int{r.Perm(n), r.Perm(n)}
	rev := make([]int, n)
	for i := range rev {
		rev[i] = n - 1 - i
	}
	orders = append(orders, rev)
	for _, order := range orders {
		for _, i := range order {
			if !good || !expect("again", i, c14Fresh(sc.jobs[i], nil).String()) {
				break
			}
		}
	}

	// nested: a whole job from inside a statement interceptor of another job's parser
	for i, job := range sc.jobs {
		if len(job.su.stmtI) == 0 || !good {
			continue
		}
		k := r.Intn(n)
		inner, ran := "", false
		outer := c14Fresh(job, func() {
			inner, ran = c14Fresh(sc.jobs[k], nil).String(), true
		}).String()
		expect("nested (outer)", i, outer)
		if ran {
			expect("nested (inner)", k, inner)
		}
	}

	// shared builders: parsers built first, run later
	bySpec := map[string]*c14Builder{}
	specOrder := r.Perm(n)
	for _, i := range specOrder {
		if s := sc.jobs[i].spec(); bySpec[s] == nil {
			bySpec[s] = c14BuilderOf(sc.jobs[i])
		}
	}
	for round := 0; round < 2 && good; round++ {
		var pend []*c14Pending
		var which []int
		for _, i := range r.Perm(n) {
			for rep := 0; rep <= r.Intn(2); rep++ {
				i := i
				pd := (*c14Pending)(nil)
				res := c14Protect(func() c14Result {
					pd = bySpec[sc.jobs[i].spec()].build(sc.jobs[i].src)
					return c14Result{}
				})
				if pd == nil {
					fail("shared builder", i, res.head)
					continue
				}
				pend, which = append(pend, pd), append(which, i)
			}
		}
		for _, k := range r.Perm(len(pend)) {
			i, pd := which[k], pend[k]
			got := c14Protect(func() c14Result { return c14Compile(sc.jobs[i], pd.finish(nil), compilerOf) })
			if !expect("shared builder", i, got.String()) {
				break
			}
		}
	}

	// incremental registration on one builder
	for i, job := range sc.jobs {
		if len(job.su.ops) == 0 || !good || r.Intn(2) == 0 {
			continue
		}
		b := c14NewBuilder(job.su)
		for _, op := range job.su.ops { // all token types first: every parser of this stage sees the same tokens
			job.pre = append(job.pre, op.lit)
			b.declare(op.lit)
		}
		var pend []*c14Pending
		var want []string
		defer0 := r.Intn(2) == 0
		res := c14Protect(func() c14Result {
			for k := 0; k <= len(job.su.ops); k++ {
				if k > 0 {
					b.register(job.su.ops[k-1])
				}
				prefix := job.withOps(job.su.ops[:k])
				want = append(want, c14Fresh(prefix, nil).String())
				pend = append(pend, b.build(job.src))
				if !defer0 {
					got := c14Compile(prefix, pend[k].finish(nil), compilerOf).String()
					c.bump("runs")
					if got != want[k] {
						fail("incremental", i, fmt.Sprintf("with the first %d operator(s) registered the shared builder's parser differs from a fresh builder's: %s", k, firstDiff(want[k], got)))
					}
				}
			}
			if defer0 {
				for _, k := range r.Perm(len(pend)) {
					got := c14Compile(job, pend[k].finish(nil), compilerOf).String()
					c.bump("runs")
					if got != want[k] {
						fail("incremental", i, fmt.Sprintf("the parser built when %d operator(s) were registered and run after the later registrations differs from a fresh builder's: %s", k, firstDiff(want[k], got)))
					}
				}
			}
			return c14Result{}
		})
		if res.head != "" {
			fail("incremental", i, res.head)
		}
	}

	// shared compilers, repeated compilation of the same tree in random configuration order
	comps := map[string]*compiler.Compiler{}
	for _, job := range sc.jobs {
		for _, cfg := range job.cfgs {
			if comps[cfg] == nil {
				if r.Intn(2) == 0 {
					comps[cfg] = compilerOf(cfg)
				} else {
					comps[cfg] = c14CompilerAlt(cfg)
				}
			}
		}
	}
	for _, i := range r.Perm(n) {
		if !ref[i].ok || !good {
			continue
		}
		job := sc.jobs[i]
		res := c14Protect(func() c14Result {
			for k := 0; k < 2*len(job.cfgs)+1; k++ {
				ci := r.Intn(len(job.cfgs))
				got := job.cfgs[ci] + ": " + c14CompileWith(comps[job.cfgs[ci]], ref[i].prog)
				c.bump("compilations")
				if got != ref[i].outs[ci] {
					fail("shared compiler", i, "compiling the tree again gives another result: "+firstDiff(ref[i].outs[ci], got))
					break
				}
			}
			return c14Result{}
		})
		if res.head != "" {
			fail("shared compiler", i, res.head)
		}
		if after := stmtListStr(ref[i].prog.Statements); after != snap[i] {
			fail("shared compiler", i, "compiling modified the tree: "+firstDiff(snap[i], after))
		}
	}

	// per tree: source map independence, debug string
	for i := range sc.jobs {
		if ref[i].ok && good {
			cfgs := append([]string{"c"}, sc.jobs[i].cfgs...)
			cfgs = append(cfgs, c14MapGrid[r.Intn(len(c14MapGrid))])
			if c.thorough() {
				cfgs = append(cfgs, c14MapGrid...)
			}
			in := map[string]any{"stage": "tree", "job": i, "text": sc.jobs[i].src}
			for k, v := range input {
				in[k] = v
			}
			if !c14Tree(c, ref[i].prog, cfgs, in) {
				good, c14Leaked = false, true
			}
		}
	}

	// concurrent
	if good && !c14Leaked && sc.gor >= 2 {
		c14Concurrent(c, sc, r, bySpec, ref, refS, snap, fail)
	}

	if !c14Diverged.Load() {
		c14Sentinels(c, input, "after")
	}
}

type c14Work struct {
	job  int
	mode int // 0 fresh builder, 1 Build on the shared builder, 2 compile the shared reference tree
	got  string
}

func c14Concurrent(c *oracleCtx, sc c14Scenario, r *rand.Rand, bySpec map[string]*c14Builder, ref []c14Result, refS []string, snap []string,
	fail func(stage string, job int, what string)) {
	n := len(sc.jobs)
	var work []*c14Work
	for len(work) < 3*sc.gor || len(work) < 3*n {
		for _, i := range r.Perm(n) {
			mode := r.Intn(3)
			if mode == 2 && !ref[i].ok {
				mode = 0
			}
			work = append(work, &c14Work{job: i, mode: mode})
		}
	}
	seeds := make([]int64, sc.gor)
	for g := range seeds {
		seeds[g] = r.Int63()
	}
	var wg sync.WaitGroup
	for g := 0; g < sc.gor; g++ {
		wg.Add(1)
		go func(g int) {
			defer wg.Done()
			lr := rand.New(rand.NewSource(seeds[g]))
			for k := g; k < len(work); k += sc.gor {
				w := work[k]
				job := sc.jobs[w.job]
				switch w.mode {
				case 0:
					w.got = c14Fresh(job, nil).String()
				case 1:
					w.got = c14Protect(func() c14Result {
						return c14Compile(job, bySpec[job.spec()].build(job.src).finish(nil), compilerOf)
					}).String()
				case 2:
					// the shared tree, compiled by compilers of this goroutine in its own order
					outs := make([]string, len(job.cfgs))
					res := c14Protect(func() c14Result {
						for _, ci := range lr.Perm(len(job.cfgs)) {
							outs[ci] = job.cfgs[ci] + ": " + c14CompileWith(compilerOf(job.cfgs[ci]), ref[w.job].prog)
						}
						return c14Result{}
					})
					w.got = ref[w.job].head + "\n" + strings.Join(outs, "\n")
					if res.head != "" {
						w.got = res.head
					}
				}
			}
		}(g)
	}
	wg.Wait()
	for _, w := range work {
		c.bump("concurrent-runs")
		if w.got != refS[w.job] {
			stage := []string{"concurrent (fresh builder)", "concurrent (shared builder)", "concurrent (shared tree)"}[w.mode]
			fail(fmt.Sprintf("%s on %d goroutines", stage, sc.gor), w.job, "the result differs from the result of the job run alone: "+firstDiff(refS[w.job], w.got))
			break
		}
	}
	for i := range sc.jobs {
		if after := stmtListStr(ref[i].prog.Statements); after != snap[i] {
			fail("concurrent (shared tree)", i, "compiling modified the tree: "+firstDiff(snap[i], after))
		}
	}
}

// ---------- generators ----------

// c14SignExpr writes expressions full of sign operators next to brackets.
func c14SignExpr(r *rand.Rand, d int) string {
	atom := func() string { return []string{"a", "b", "i", "j", "x.y", "f(1)", "1", "2.5", "q"}[r.Intn(9)] }
	if d <= 0 {
		return atom()
	}
	sub := func() string { return c14SignExpr(r, d-1) }
	lv := func() string { return []string{"i", "j", "x.y", "a[0]"}[r.Intn(4)] }
	switch r.Intn(14) {
	case 0:
		return sub() + " - (-" + sub() + ")"
	case 1:
		return sub() + " + (++" + lv() + ")"
	case 2:
		return sub() + " - (--" + lv() + ")"
	case 3:
		return "-(-" + sub() + ")"
	case 4:
		return "-(--" + lv() + ")"
	case 5:
		return sub() + " - [-" + sub() + "][0]"
	case 6:
		return sub() + " - -" + atom()
	case 7:
		return sub() + " + ++" + lv()
	case 8:
		return "(" + sub() + ")"
	case 9:
		return "f(-" + sub() + ", " + sub() + ")"
	case 10:
		return lv() + "++ + (++" + lv() + ")"
	case 11:
		return sub() + " - (-" + sub() + " - " + sub() + ")"
	case 12:
		return "!(-" + sub() + ")"
	}
	return sub() + []string{" - ", " + ", " * "}[r.Intn(3)] + sub()
}

func c14SignProgram(r *rand.Rand) string {
	var sb strings.Builder
	for i, n := 0, 1+r.Intn(3); i < n; i++ {
		e := c14SignExpr(r, 1+r.Intn(3))
		switch r.Intn(4) {
		case 0:
			sb.WriteString("let v" + fmt.Sprint(i) + " = " + e + ";\n")
		case 1:
			sb.WriteString("function g" + fmt.Sprint(i) + "(a, b) { return " + e + " }\n")
		case 2:
			sb.WriteString("total = " + e + ";\n")
		default:
			sb.WriteString("if (" + e + ") { x = " + c14SignExpr(r, 1) + "; }\n")
		}
	}
	return sb.String()
}

// c14OpSource writes a text that uses the given custom operators.
func c14OpSource(r *rand.Rand, ops []customOp) string {
	var sb strings.Builder
	operand := func() string { return []string{"a", "b.c", "f(x)", "1", "q", "(a + b)", "arr[0]"}[r.Intn(7)] }
	for i, n := 0, 1+r.Intn(3); i < n; i++ {
		e := operand()
		for k, m := 0, 1+r.Intn(4); k < m; k++ {
			if len(ops) == 0 {
				break
			}
			op := ops[r.Intn(len(ops))]
			switch op.role {
			case "p":
				e = op.lit + e
			case "s":
				e = e + op.lit
			default:
				e = e + " " + op.lit + " " + operand()
			}
			if r.Intn(4) == 0 {
				e += []string{" + ", " * ", " == ", " && "}[r.Intn(4)] + operand()
			}
		}
		sb.WriteString([]string{"", "x = ", "let v = ", "return_(", "if (c) "}[r.Intn(5)])
		sb.WriteString(e)
		if strings.Count(sb.String(), "(") > strings.Count(sb.String(), ")") {
			sb.WriteString(")")
		}
		sb.WriteString([]string{";", ";\n", "\n"}[r.Intn(3)])
	}
	return sb.String()
}

func c14OpsField(ops []customOp) string {
	var l []string
	for _, o := range ops {
		if o.role == "i" {
			l = append(l, fmt.Sprintf("i:%s:%d", hexOf(o.lit), o.prec))
		} else {
			l = append(l, o.role+":"+hexOf(o.lit))
		}
	}
	return listStr(l)
}

// c14RandOps draws operators; kind 0 mixed, 1 postfix only, 2 prefix only, 3 infix only.
func c14RandOps(r *rand.Rand, kind int) []customOp {
	var ops []customOp
	used := map[string]bool{}
	for i, n := 0, 1+r.Intn(3); i < n; i++ {
		lit := dynLits[r.Intn(len(dynLits))]
		role := []string{"p", "i", "s"}[r.Intn(3)]
		switch kind {
		case 1:
			role = "s"
		case 2:
			role = "p"
		case 3:
			role = "i"
		}
		if used[role+lit] && r.Intn(6) > 0 { // now and then a duplicate registration (refused by the builder)
			continue
		}
		used[role+lit] = true
		op := customOp{role: role, lit: lit}
		if role == "i" {
			op.prec = 1 + r.Intn(13)
		}
		ops = append(ops, op)
	}
	return ops
}

func c14RandCfgs(r *rand.Rand) []string {
	cfgs := oaSample(r, allCompileCfgs, 1+r.Intn(3))
	out := append([]string{}, cfgs...)
	if r.Intn(2) == 0 {
		out = append(out, []string{"c", "cm"}[r.Intn(2)])
	}
	seen := map[string]bool{}
	var uniq []string
	for _, c := range out {
		if !seen[c] {
			seen[c] = true
			uniq = append(uniq, c)
		}
	}
	return uniq
}

type c14Spec struct {
	f   [5]string
	ops []customOp
}

func c14RandSpec(r *rand.Rand) c14Spec {
	flags := parseFlags[r.Intn(len(parseFlags))]
	tokI, st, ex := "0", "-", "-"
	if r.Intn(3) == 0 {
		tokI, st, ex = randInterceptors(r)
	}
	var ops []customOp
	if r.Intn(5) < 3 {
		ops = c14RandOps(r, r.Intn(4))
	}
	return c14Spec{f: [5]string{flags, tokI, st, ex, c14OpsField(ops)}, ops: ops}
}

func c14RandSource(r *rand.Rand, sp c14Spec) string {
	if len(sp.ops) > 0 && r.Intn(4) > 0 {
		if r.Intn(3) == 0 {
			return customOpSources[r.Intn(len(customOpSources))]
		}
		return c14OpSource(r, sp.ops)
	}
	switch r.Intn(10) {
	case 0, 1, 2:
		return randProgramText(r)
	case 3, 4:
		return c14SignProgram(r)
	case 5:
		return nestedTemplate(r, 1+r.Intn(3))
	case 6:
		src := randProgramText(r)
		for k, m := 0, 1+r.Intn(2); k < m; k++ {
			src = mutate(r, src)
		}
		return src
	case 7:
		return customOpSources[r.Intn(len(customOpSources))]
	case 8:
		rows := c15Rows(r, jsgen.GenProgram(r, jsgen.GenOptions{MaxDepth: 2, MaxStmts: 3}))
		src, _ := c15Decorate(r, rows, 2, true)
		return src
	}
	return "let q1 = qq + " + c14SignExpr(r, 2) + ";\n" + randProgramText(r)
}

func c14RandScenario(r *rand.Rand, maxGor int) c14Scenario {
	nspec := 2 + r.Intn(3)
	specs := make([]c14Spec, nspec)
	for i := range specs {
		specs[i] = c14RandSpec(r)
	}
	// often: one configuration with infix operators in front of one with postfix operators only
	if r.Intn(2) == 0 {
		specs[0] = c14Spec{f: [5]string{"-", "0", "-", "-", ""}, ops: c14RandOps(r, 3)}
		specs[0].f[4] = c14OpsField(specs[0].ops)
		specs[nspec-1] = c14Spec{f: [5]string{"-", "0", "-", "-", ""}, ops: c14RandOps(r, 1)}
		specs[nspec-1].f[4] = c14OpsField(specs[nspec-1].ops)
	}
	var jobs []c14Job
	for _, sp := range specs {
		for k, m := 0, 1+r.Intn(3); k < m; k++ {
			jobs = append(jobs, c14MakeJob(sp.f[0], sp.f[1], sp.f[2], sp.f[3], sp.f[4], c14RandSource(r, sp), c14RandCfgs(r)))
		}
	}
	gor := []int{2, 3, 4, 8, 16}[r.Intn(5)]
	if gor > maxGor {
		gor = maxGor
	}
	return c14Scenario{jobs: jobs, sched: r.Int63n(1 << 40), gor: gor}
}

// ---------- driver ----------

var c14DefaultCfgs = []string{"c", "cm", "p:2020:1", "pm:09:0"}

// c14Directed: histories in which a leak through package-level state shows.
func c14Directed() []c14Scenario {
	hx := hexOf
	plain := func(src string) c14Job { return c14MakeJob("-", "0", "-", "-", "-", src, c14DefaultCfgs) }
	ops := func(ops, src string) c14Job {
		return c14MakeJob("-", "0", "-", "-", ops, src, []string{"c", "p:2020:1"})
	}
	return []c14Scenario{
		{gor: 4, sched: 1, jobs: []c14Job{
			ops("i:"+hx("^")+":8", "let area = r ^ 2 * 3;"),
			plain("a + b * c; f(x)(y); o.p[q];"),
			ops("s:"+hx("?"), "let v = user?;"),
			ops("i:"+hx("^")+":8", "x = a ^ b ^ c;"),
			ops("p:"+hx("~"), "~a + ~b.c;"),
			ops("i:"+hx("#")+":3,i:"+hx("^")+":9", "a # b ^ c # d;"),
			plain("a ? b; c @ d; e ^ f;"),
		}},
		{gor: 2, sched: 2, jobs: []c14Job{
			ops("i:"+hx("@")+":8,i:"+hx("#")+":5", "a @ b # c @ d;"),
			ops("s:"+hx("@")+",s:"+hx("#"), "a@ + b#; c@#;"),
			ops("p:"+hx("@")+",s:"+hx("#"), "@a#; @ @b;"),
			ops("i:"+hx("@")+":8,i:"+hx("#")+":5", "x = a # b @ c;"),
			c14MakeJob("t", "0", "-", "-", "s:"+hx("~"), "a~ b~\nc~~", []string{"c"}),
			c14MakeJob("si", "1", "0", "o0,r1", "i:"+hx("~")+":13", "q ~ b\n(c) ~ d;", []string{"c", "cm"}),
		}},
		{gor: 8, sched: 3, jobs: []c14Job{
			plain("let d = a - (-b);\nlet n = -(-x);\ntotal = f(1) + (++i) - (--j);\nfunction g(a, b) { return a - (-b) }\n"),
			plain("x = a - [-1][0] + (+1);\ny = i++ + (++j) - (--k) - -m;\n"),
			plain("if (a) { b; } else { c; }\nwhile (x) y--;\nfor (let i = 0; i < 3; i++) { f(i); }\n// trailing\n"),
			c14MakeJob("-", "2", "0,1", "o0,o1", "-", "function f(a) { return function() { return a + qa; }; }\nf(1)();\n", c14DefaultCfgs),
		}},
	}
}

func c14Replay(c *oracleCtx, m map[string]any) bool {
	raw, ok := m["jobs"].([]any)
	if !ok {
		return false
	}
	var sc c14Scenario
	for _, x := range raw {
		s, _ := x.(string)
		j, ok := c14ParseJob(s)
		if !ok {
			return false
		}
		sc.jobs = append(sc.jobs, j)
	}
	if len(sc.jobs) == 0 {
		return false
	}
	sc.sched, sc.gor = int64(recInt(m, "sched")), recInt(m, "gor")
	if f, ok := m["sched"].(float64); ok {
		sc.sched = int64(f)
	}
	c14RunScenario(c, sc)
	return true
}

func oracleC14(c *oracleCtx) {
	maxGor := 16
	for _, in := range readInputsB(c) {
		switch in.kind {
		case "PARSE":
			f := strings.Split(in.line, " ")
			c14RunScenario(c, c14Scenario{jobs: []c14Job{c14MakeJob(f[1], f[2], f[3], f[4], f[5], in.src, c14DefaultCfgs)}, sched: 1, gor: 2})
		case "PRINT":
			c.count(in.line)
			if prog, errs := oaParse(in.src); len(errs) == 0 {
				c14Tree(c, prog, []string{"c", in.cfg}, map[string]any{"src": hexOf(in.src), "text": in.src, "cfg": in.cfg})
			}
		case "PRINTT":
			c.count(in.line)
			guard(c, "", map[string]any{"tree": in.sexp, "cfg": in.cfg}, func() {
				c14Tree(c, parseProgramSexp(in.sexp), []string{"c", in.cfg}, map[string]any{"tree": in.sexp, "cfg": in.cfg})
			})
		case "BUILD":
			oaBuildHistory(c, "builder-history", in.line)
			c.count(in.line)
		case "rec":
			if h := recStr(in.rec, "history"); h != "" {
				oaBuildHistory(c, "builder-history", h)
				c.count(in.line)
				continue
			}
			if c14Replay(c, in.rec) {
				continue
			}
			cfgs := c14MapGrid
			if in.cfg != "" {
				cfgs = []string{"c", in.cfg}
			}
			if t := recStr(in.rec, "tree"); t != "" {
				c.count(in.line)
				guard(c, "", in.rec, func() { c14Tree(c, parseProgramSexp(t), cfgs, map[string]any{"tree": t, "cfg": in.cfg}) })
			} else if _, ok := in.rec["src"]; ok {
				c.count(in.line)
				if prog, errs := oaParse(in.src); len(errs) == 0 {
					c14Tree(c, prog, cfgs, map[string]any{"src": hexOf(in.src), "text": in.src, "cfg": in.cfg})
				}
			}
		}
	}
	if c.tier == "replay" {
		return
	}

	// parsers built from one builder do not depend on the builds made before them
	oaModeHistories(c, "builder-history", c.n(300, 6000))
	for _, sc := range c14Directed() {
		if !c14Diverged.Load() {
			c14RunScenario(c, sc)
		}
	}

	n := c.n(250, 12000)
	for i := 0; i < n && !c.expired() && !c14Diverged.Load(); i++ {
		c14RunScenario(c, c14RandScenario(c.r, maxGor))
		c.bump("scenarios")
	}

	// programmatic trees: source map independence, debug string, repeated compilation
	n = c.n(1500, 60000)
	for i := 0; i < n && !c.expired(); i++ {
		var p *ast.Program
		if i%3 == 0 {
			p = treegen.ExprProgram(treegen.ExprAt(3, c.r.Intn(treegen.CountExprs(3))))
		} else {
			p = treegen.RandomProgram(c.r, 1+c.r.Intn(4), 1+c.r.Intn(3))
		}
		sexp := stmtListStr(p.Statements)
		c.count(sexp)
		cfg := c14MapGrid[c.r.Intn(len(c14MapGrid))]
		c14Tree(c, p, []string{"c", cfg}, map[string]any{"tree": sexp, "cfg": cfg})
	}
}
