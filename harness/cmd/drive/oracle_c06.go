package main

// C06 "Pretty printing changes layout only, and is stable".
//
// For accepted programs (jsgen texts with comments, blank lines and multi-line layouts) and the
// option grid indent x semicolons:
//   (a) the pretty output parses to the same shape as the compact output;
//   (b) formatting the formatted output again reproduces it byte for byte;
//   (c) two indent options differ only in leading white space, and by the same number of units;
//   (d) semicolons on/off differ only in statement-terminating semicolons.

import (
	"fmt"
	"strings"

	"github.com/xjslang/xjs/ast"
	"xjsverif/internal/jsgen"
	"xjsverif/internal/treegen"
)

func init() { oracles["C06"] = oracleC06 }

// c06Class decides the known class of (source, tree, configuration) for re-parsing the output.
func c06Class(src, cfg string, prog *ast.Program) string {
	switch {
	case srcStringRequote(src):
		return clsRequote
	case srcBacktickEscape(src):
		return clsBacktickEsc
	case oaCfgIsPretty(cfg) && srcTrimInLiteral(src):
		return clsTrim
	case oaCfgNoSemi(cfg) && treeNoSemiHazard(prog):
		return clsNoSemi
	}
	return ""
}

func c06StripLead(s string) string {
	lines := strings.Split(s, "\n")
	for i, l := range lines {
		lines[i] = strings.TrimLeft(l, " \t")
	}
	return strings.Join(lines, "\n")
}

// c06SameDepths: line by line the leading white space is the same number of indent units,
// optionally followed by one space (the writer's pending space after a pending line break,
// e.g. before a += that starts a line).
func c06SameDepths(a, ia, b, ib string) (bool, string) {
	la, lb := strings.Split(a, "\n"), strings.Split(b, "\n")
	if len(la) != len(lb) {
		return false, "different number of lines"
	}
	for i := range la {
		ca, cb := strings.TrimLeft(la[i], " \t"), strings.TrimLeft(lb[i], " \t")
		if ca == "" && cb == "" {
			continue // white-space-only line: trailing spaces are trimmed, tabs are not
		}
		wa, wb := la[i][:len(la[i])-len(ca)], lb[i][:len(lb[i])-len(cb)]
		ok := false
		for _, rem := range []string{"", " "} {
			if !strings.HasSuffix(wa, rem) {
				continue
			}
			body := wa[:len(wa)-len(rem)]
			if len(body)%len(ia) != 0 || body != strings.Repeat(ia, len(body)/len(ia)) {
				continue
			}
			if wb == strings.Repeat(ib, len(body)/len(ia))+rem {
				ok = true
			}
		}
		if !ok {
			return false, fmt.Sprintf("line %d: leading white space %q under %q but %q under %q", i, wa, ia, wb, ib)
		}
	}
	return true, ""
}

// c06SemiOnly: off is on with some statement-terminating semicolons (last thing on their line
// except for a comment, or directly before else) deleted.
func c06SemiOnly(on, off string) (bool, string) {
	i, j := 0, 0
	for i < len(on) {
		if j < len(off) && on[i] == off[j] {
			i++
			j++
			continue
		}
		if on[i] != ';' {
			return false, fmt.Sprintf("outputs differ at byte %d/%d by something else than a semicolon: %q vs %q", i, j, oaClip(on[i:], 30), oaClip(off[min(j, len(off)):], 30))
		}
		rest := on[i+1:]
		if k := strings.IndexByte(rest, '\n'); k >= 0 {
			rest = rest[:k]
		}
		if rest != "" && !strings.HasPrefix(rest, " //") && rest != " else" && !strings.HasPrefix(rest, " else ") {
			return false, fmt.Sprintf("a semicolon inside a line is missing: %q", oaClip(on[i:], 30))
		}
		i++
	}
	if j != len(off) {
		return false, "output without semicolons is longer"
	}
	return true, ""
}

func c06Check(c *oracleCtx, src string, indents []string, steer bool) {
	base := map[string]any{"src": hexOf(src), "text": src}
	guard(c, "panic", base, func() {
		prog, errs := oaParse(src)
		if len(errs) > 0 {
			c.bump("parse-error")
			return
		}
		inp := func(cfg string, out string) map[string]any {
			return map[string]any{"src": hexOf(src), "text": src, "cfg": cfg, "indents": strings.Join(indents, ","), "output": oaClip(out, 600)}
		}
		compact := oaCompile("c", prog)
		cprog, cerrs := oaParse(compact)
		if len(cerrs) > 0 {
			cls := c06Class(src, "c", prog)
			if cls == "" {
				cls = "reparse-error"
			}
			if !(steer && cls != "reparse-error") {
				c.violation(cls, "compact output does not parse: "+oaErrText(cerrs), inp("c", compact))
			}
			return
		}
		cshape := treegen.Shape(cprog)
		outs := map[string]string{}
		for _, in := range indents {
			for _, semi := range []string{"1", "0"} {
				cfg := "p:" + in + ":" + semi
				out := oaCompile(cfg, prog)
				outs[cfg] = out
				// asking for a source map as well does not change the formatted text (and so none of the checks below)
				if withMap := oaCompile("pm"+cfg[1:], prog); withMap != out {
					i := inp(cfg, out)
					i["with-source-map"] = oaClip(withMap, 600)
					c.violation("map-changes-format", "the formatted output differs when a source map is requested too: "+firstDiff(out, withMap), i)
					continue
				}
				// the indentation option and the semicolon option are independent: their order in the call is irrelevant
				if alt := compilerOfOrder(cfg, !compilerSemiFirst(cfg)).Compile(prog).Code; alt != out {
					i := inp(cfg, out)
					i["other-order"] = oaClip(alt, 600)
					c.violation("option-order", "WithPrettyPrint(indent option, WithSemi) and WithPrettyPrint(WithSemi, indent option) give different output: an indentation option changes more than leading white space", i)
					continue
				}
				// a Compiler that was configured differently before and is configured again behaves like a fresh one
				if rc := compilerReconfigured(cfg); rc != nil {
					if alt := rc.Compile(prog).Code; alt != out {
						i := inp(cfg, out)
						i["reconfigured"] = oaClip(alt, 600)
						i["history"] = "compiler.New().WithPrettyPrint(WithSemi(<the other value>), WithTabs()), then WithPrettyPrint(<only the options of this configuration that differ from the defaults>)"
						c.violation("reconfigured-differs", "a Compiler configured a second time formats differently from a fresh Compiler with the same options: "+firstDiff(out, alt), i)
						continue
					}
				}
				cls := c06Class(src, cfg, prog)
				if cls != "" && steer {
					c.bump("steered-away:" + cls)
					continue
				}
				c.bump("outputs")
				name := func(sym string) string {
					if cls != "" {
						return cls
					}
					return sym
				}
				// (a)
				pprog, perrs := oaParse(out)
				if len(perrs) > 0 {
					c.violation(name("reparse-error"), "pretty output does not parse: "+oaErrText(perrs), inp(cfg, out))
					continue
				}
				if got := treegen.Shape(pprog); got != cshape {
					c.violation(name("tree-mismatch"), "pretty vs compact: "+c02Diff(cshape, got), inp(cfg, out))
					continue
				}
				// (b)
				if again := oaCompile(cfg, pprog); again != out {
					c.violation(name("not-idempotent"), fmt.Sprintf("formatting again gives %q", oaClip(again, 400)), inp(cfg, out))
				}
			}
		}
		multi := srcHasMultiLineLiteral(src)
		for _, semi := range []string{"1", "0"} {
			// (c) against the first indent option
			cfg0 := "p:" + indents[0] + ":" + semi
			for _, in := range indents[1:] {
				cfg := "p:" + in + ":" + semi
				if c06StripLead(outs[cfg0]) != c06StripLead(outs[cfg]) {
					c.violation("indent-changes-more", fmt.Sprintf("%s and %s differ in more than leading white space", cfg0, cfg), inp(cfg, outs[cfg]))
					continue
				}
				if multi {
					continue // lines of a literal keep their own leading white space
				}
				if ok, why := c06SameDepths(outs[cfg0], oaCfgIndent(cfg0), outs[cfg], oaCfgIndent(cfg)); !ok {
					c.violation("indent-depth", fmt.Sprintf("%s vs %s: %s", cfg0, cfg, why), inp(cfg, outs[cfg]))
				}
			}
		}
		// (d)
		for _, in := range indents {
			on, off := outs["p:"+in+":1"], outs["p:"+in+":0"]
			if ok, why := c06SemiOnly(on, off); !ok {
				i := inp("p:"+in+":0", off)
				i["with-semicolons"] = oaClip(on, 600)
				c.violation("semi-changes-more", why, i)
			}
		}
	})
}

func c06Indents(c *oracleCtx) []string {
	if c.thorough() {
		return oaIndentsAll
	}
	// tab and two spaces always, plus two others
	return append([]string{"09", "2020"}, oaSample(c.r, []string{"-", "20", "202020", "20202020", "2020202020", "202020202020", "20202020202020", "2020202020202020"}, 2)...)
}

func oracleC06(c *oracleCtx) {
	for _, in := range c.inputs {
		if m := recordedInput(in); m != nil {
			if s := oaStr(m, "src"); s != "" {
				indents := []string{"09", "2020"}
				if is := oaStr(m, "indents"); is != "" {
					indents = strings.Split(is, ",")
				}
				c06Check(c, unhex(s), indents, false)
				c.count(s)
			}
			continue
		}
		if src, cfg, _, ok := oaInputSource(in); ok && src != "" {
			indents := []string{"09", "2020"}
			if f := strings.Split(cfg, ":"); len(f) == 3 && f[1] != "09" && f[1] != "2020" {
				indents = append(indents, f[1])
			}
			c06Check(c, src, indents, false)
			c.count(src)
		}
	}

	// directed: literals spanning lines whose lines end in white space other than a space, or consist of it — the
	// output clean-up removes trailing spaces only (that much is the known class); tabs, CR and indentation-like
	// runs inside a literal belong to the literal
	if c.tier != "replay" {
		for _, src := range []string{
			"let h = `name\tqty\t\n-----`;\n",
			"function table() {\n  let header = `name\tqty\t\n-----`;\n\n  return header;\n}\nlet out = table();\n",
			"let s = `a\t\n\tb\t\n\t\t`;\n",
			"if (a) {\n  x = `one\t\n\t\ntwo`;\n}\n",
			"let q = \"a\t\\\nb\";\n",
			"f(`\t\n`, `x\r\ny`);\n",
			// runs of blank lines in front of comments (the same tree is compiled under every option set)
			"a = 1;\n\n\n// c\nb = 2;\n",
			"function f() {\n  a();\n\n\n\n  // one\n  // two\n\n\n  b();\n\n\n  // three\n}\n",
			"// head\n\n\n// second\nx = 1;\n\n\n\n// third\n\n// fourth\ny = 2;\n",
			"s = `a\n\n\nb`;\n\n\nt = `\n\n\n\n`;\n",
		} {
			c.count(src)
			c06Check(c, src, []string{"09", "2020", "20", "-"}, true)
		}
	}
	n := c.n(1200, 40000)
	for i := 0; i < n && !c.expired(); i++ {
		tree := jsgen.GenProgram(c.r, jsgen.GenOptions{MaxDepth: 1 + c.r.Intn(4), MaxStmts: 1 + c.r.Intn(6), Executable: c.r.Intn(3) == 0})
		l := randLayout(c.r)
		if c.r.Intn(3) > 0 {
			l.Comments, l.Newlines = true, true
		}
		src, ok := oaRenderAvoiding(c.r, tree, l, func(s string) bool { return srcStringRequote(s) || srcBacktickEscape(s) })
		if !ok {
			c.bump("steered-away")
			continue
		}
		c.count(src)
		c06Check(c, src, c06Indents(c), true)
	}

	if c.tier == "replay" {
		return
	}
	c06Witnesses(c)
}

func c06Witnesses(c *oracleCtx) {
	two := []string{"09", "2020"}
	for _, src := range []string{
		// semicolons left out
		"if (a) b; else c;\n",
		"if (a) b; else { c; }\nwhile (x) if (a) y; else z;\n",
		"a = b;\n(c).d;\n",
		"a = b;\n[c].d;\n",
		"let a = b;\n-c;\n",
		"a;\n++b;\n",
		"a;\n--b;\n",
		"a = b;\n`c`.d;\n",
		"function f() {\n  return;\n  a;\n}\n",
		"function f() {\n  if (a) return;\n  let b;\n}\n",
		// trimming inside literals
		"x = `a  \n  b`;\n",
		"f(`\n \n`, 1);\n",
		"x = \"a \\\n b\";\ny = `p \nq`;\n",
		// literals that do not survive printing at all
		"x = 'a\"b';\n",
		"x = \"\\x0a\";\n",
		"x = `a\\`b`;\n",
	} {
		c.count(src)
		c06Check(c, src, two, false)
	}
	made := map[string]int{}
	for i := 0; i < 3000 && !c.expired() && (made[clsNoSemi] < 15 || made[clsTrim] < 8); i++ {
		tree := jsgen.GenProgram(c.r, jsgen.GenOptions{MaxDepth: 1 + c.r.Intn(3), MaxStmts: 1 + c.r.Intn(4)})
		src := jsgen.Render(tree, c.r, jsgen.Layout{Newlines: true})
		prog, errs := oaParse(src)
		if len(errs) > 0 || srcStringRequote(src) || srcBacktickEscape(src) {
			continue
		}
		cls := c06Class(src, "p:2020:0", prog)
		if cls == "" || made[cls] >= 15 {
			continue
		}
		made[cls]++
		c.count(src)
		c06Check(c, src, two, false)
	}
}
