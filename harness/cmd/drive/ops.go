package main

// Execution of protocol ops against the real xjs implementation.

import (
	"fmt"
	"strings"
	"time"

	"github.com/xjslang/xjs/ast"
	"github.com/xjslang/xjs/compiler"
	"github.com/xjslang/xjs/lexer"
	"github.com/xjslang/xjs/parser"
	"github.com/xjslang/xjs/sourcemap"
	"github.com/xjslang/xjs/token"
)

func listStr(l []string) string {
	if len(l) == 0 {
		return "-"
	}
	return strings.Join(l, ",")
}

// ---------- LEX ----------

// Lexer plugins written against the exported lexer API only (CurrentChar, PeekChar, ReadChar, NewToken, NewTokenAt):
//
//	newTokenPlugin     builds the tokens for the characters @ # ^ ~ ? itself, exactly as the built-in lexer
//	                   would (an ILLEGAL one-character token) — so a lexer with it is the lexer
//	                   without it;
//	blockCommentPlugin skips `/* … */` and the blanks behind it before handing over to the next stage (the model's
//	                   driver does the same on its side).
func newTokenPlugin(l *lexer.Lexer, next func() token.Token) token.Token {
	switch ch := l.CurrentChar; ch {
	case '@', '#', '^', '~', '?':
		tok := l.NewToken(token.ILLEGAL, string(ch))
		l.ReadChar()
		return tok
	}
	return next()
}

func blockCommentPlugin(l *lexer.Lexer, next func() token.Token) token.Token {
	for l.CurrentChar == '/' && l.PeekChar() == '*' {
		l.ReadChar()
		l.ReadChar()
		for l.CurrentChar != 0 && !(l.CurrentChar == '*' && l.PeekChar() == '/') {
			l.ReadChar()
		}
		if l.CurrentChar != 0 {
			l.ReadChar()
			l.ReadChar()
		}
		for l.CurrentChar == ' ' || l.CurrentChar == '\t' {
			l.ReadChar()
		}
	}
	return next()
}

// doLex: extra = 100*plugin + number of extra requests after the end (plugin 0 none, 1 newTokenPlugin, 2 blockCommentPlugin)
func doLex(src string, extra int) string {
	var items []string
	var pre string
	plugin := extra / 100
	extra %= 100
	lb := lexer.NewBuilder()
	switch plugin {
	case 1:
		lb.UseTokenInterceptor(newTokenPlugin)
	case 2:
		lb.UseTokenInterceptor(blockCommentPlugin)
	}
	// a pass-through token interceptor records where the lexer stands when the token is produced
	lb.UseTokenInterceptor(func(l *lexer.Lexer, next func() token.Token) token.Token {
		pre = fmt.Sprintf("%d:%d:%d", l.Line, l.Column, l.CurrentChar)
		return next()
	})
	l := lb.Build(src)
	limit := len(src) + 2 + extra
	for i := 0; i < limit; i++ {
		t := l.NextToken()
		items = append(items, tokStr(t)+"|"+pre)
		if t.Type == token.EOF {
			if extra == 0 {
				break
			}
			extra--
		}
	}
	return strings.Join(items, " ")
}

// ---------- PARSE ----------

type customOp struct {
	role string // p, i, s
	lit  string
	prec int
}

func parseOps(s string) []customOp {
	if s == "-" {
		return nil
	}
	var ops []customOp
	for _, item := range strings.Split(s, ",") {
		f := strings.Split(item, ":")
		op := customOp{role: f[0], lit: unhex(f[1])}
		if f[0] == "i" {
			op.prec = atoi(f[2])
		}
		ops = append(ops, op)
	}
	return ops
}

func genericPrefix(tok token.Token, right func() ast.Expression) ast.Expression {
	return &ast.UnaryExpression{Token: tok, Operator: tok.Literal, Right: right()}
}
func genericInfix(tok token.Token, left ast.Expression, right func() ast.Expression) ast.Expression {
	return &ast.BinaryExpression{Token: tok, Left: left, Operator: tok.Literal, Right: right()}
}
func genericPostfix(tok token.Token, left ast.Expression) ast.Expression {
	return &ast.PostfixExpression{Token: tok, Left: left, Operator: tok.Literal}
}

type parseSetup struct {
	flags     string
	tokI      int
	stmtI     []int
	exprI     []string // o<id> / r<id>
	ops       []customOp
	install   bool                  // install through plugins
	rebuild   int                   // number of parsers built (and run) from the same builder before the one that is observed
	nested    string                // a snippet that a statement interceptor parses with a second parser built from the same builder, mid-parse
	queryAt   func(token.Type) bool // nil: the observers query the context at every step; else only at these current tokens
	pluginCtx bool                  // the first statement interceptor is also a plugin that keeps a context of its own on the stack while a `while` statement is parsed
}

type parseOutcome struct {
	prog     *ast.Program
	err      error
	errs     []parser.ParserError
	trace    []string
	tokTrace []string
	ctx      int
	inFn     bool
}

func ctxNat(c parser.ContextType) int { return int(c) }

func eventStr(kind string, id int, p *parser.Parser) string {
	t := p.CurrentToken
	return fmt.Sprintf("%s%d@%d:%d:%d:%d:%d", kind, id, int(t.Type), t.Start.Line, t.Start.Column, b2i(p.IsInFunction()), ctxNat(p.CurrentContext()))
}

func runParse(su parseSetup, src string) parseOutcome {
	var out parseOutcome
	lb := lexer.NewBuilder()
	dyn := map[string]token.Type{}
	pb := parser.NewBuilder(lb)
	if len(su.ops) > 0 {
		lb.UseTokenInterceptor(func(l *lexer.Lexer, next func() token.Token) token.Token {
			t := next()
			if t.Type == token.ILLEGAL {
				if id, ok := dyn[t.Literal]; ok {
					t.Type = id
				}
			}
			return t
		})
	}
	for _, op := range su.ops {
		id := lb.RegisterTokenType(op.lit)
		dyn[op.lit] = id
		switch op.role {
		case "p":
			_ = pb.RegisterPrefixOperator(id, genericPrefix)
		case "i":
			_ = pb.RegisterInfixOperator(id, op.prec, genericInfix)
		case "s":
			_ = pb.RegisterPostfixOperator(id, genericPostfix)
		}
	}
	for k := 0; k < su.tokI; k++ {
		id := k
		lb.UseTokenInterceptor(func(l *lexer.Lexer, next func() token.Token) token.Token {
			line, col, ch := l.Line, l.Column, l.CurrentChar
			t := next()
			out.tokTrace = append(out.tokTrace, fmt.Sprintf("%d@%d:%d:%d:%d:%d:%d", id, int(t.Type), t.Start.Line, t.Start.Column, line, col, ch))
			return t
		})
	}
	inNested := false
	addStmt := func(id int) func(*parser.Builder) {
		return func(b *parser.Builder) {
			b.UseStatementInterceptor(func(p *parser.Parser, next func() ast.Statement) ast.Statement {
				if inNested {
					return next()
				}
				if su.nested != "" && id == 0 {
					// a plugin that parses an embedded snippet with a parser of its own, built from the same builder,
					// while the outer parser is in the middle of its input
					inNested = true
					inner := pb.Build(su.nested)
					_, _ = inner.ParseProgram()
					inNested = false
				}
				if su.queryAt == nil || su.queryAt(p.CurrentToken.Type) {
					out.trace = append(out.trace, eventStr("S", id, p))
				}
				if su.pluginCtx && id == 0 && p.CurrentToken.Type == token.WHILE {
					// PushContext / PopContext are exported for plugins that introduce constructs of their own
					p.PushContext(parser.ContextType(40))
					defer p.PopContext()
				}
				return next()
			})
		}
	}
	addExpr := func(spec string) func(*parser.Builder) {
		id := atoi(spec[1:])
		re := spec[0] == 'r'
		return func(b *parser.Builder) {
			b.UseExpressionInterceptor(func(p *parser.Parser, next func() ast.Expression) ast.Expression {
				if inNested {
					return next()
				}
				if su.queryAt == nil || su.queryAt(p.CurrentToken.Type) {
					out.trace = append(out.trace, eventStr("E", id, p))
				}
				if re {
					left := p.ParsePrefixExpression()
					return p.ParseRemainingExpression(left)
				}
				return next()
			})
		}
	}
	for _, id := range su.stmtI {
		if su.install {
			pb.Install(addStmt(id))
		} else {
			addStmt(id)(pb)
		}
	}
	for _, spec := range su.exprI {
		if su.install {
			pb.Install(addExpr(spec))
		} else {
			addExpr(spec)(pb)
		}
	}
	if strings.Contains(su.flags, "t") {
		pb.WithTolerantMode(true)
	}
	if strings.Contains(su.flags, "s") {
		pb.WithSmartSemicolon(true)
	}
	for k := 0; k < su.rebuild; k++ { // one builder builds many independent parsers
		q := pb.Build(src)
		_, _ = q.ParseProgram()
		out.trace, out.tokTrace = nil, nil
	}
	p := pb.Build(src)
	out.prog, out.err = p.ParseProgram()
	out.errs = p.Errors()
	out.ctx = ctxNat(p.CurrentContext())
	out.inFn = p.IsInFunction()
	return out
}

func errStr(e parser.ParserError) string {
	return fmt.Sprintf("%s@%d:%d:%d:%d", hexOf(e.Message), e.Range.Start.Line, e.Range.Start.Column, e.Range.End.Line, e.Range.End.Column)
}

func parseSetupOf(flags, tokI, stmtI, exprI, ops string) parseSetup {
	su := parseSetup{flags: flags, tokI: atoi(tokI), ops: parseOps(ops), install: strings.Contains(flags, "i")}
	if stmtI != "-" {
		for _, x := range strings.Split(stmtI, ",") {
			su.stmtI = append(su.stmtI, atoi(x))
		}
	}
	if exprI != "-" {
		su.exprI = strings.Split(exprI, ",")
	}
	return su
}

func doParse(flags, tokI, stmtI, exprI, ops, src string) string {
	su := parseSetupOf(flags, tokI, stmtI, exprI, ops)
	o := runParse(su, unhex(src))
	errs := make([]string, len(o.errs))
	for i, e := range o.errs {
		errs[i] = errStr(e)
	}
	return fmt.Sprintf("tree=%s;err=%d;errs=%s;trace=%s;toktrace=%s;ctx=%d;infn=%d",
		stmtListStr(o.prog.Statements), b2i(o.err != nil), listStr(errs), listStr(o.trace), listStr(o.tokTrace), o.ctx, b2i(o.inFn))
}

// ---------- PRINT ----------

func compilerOf(cfg string) *compiler.Compiler {
	f := strings.Split(cfg, ":")
	return compilerOfOrder(cfg, len(f) == 3 && (len(unhex(f[1]))+len(f[2]))%2 == 0)
}

func compilerSemiFirst(cfg string) bool {
	f := strings.Split(cfg, ":")
	return len(f) == 3 && (len(unhex(f[1]))+len(f[2]))%2 == 0
}

func compilerOfOrder(cfg string, semiFirst bool) *compiler.Compiler {
	f := strings.Split(cfg, ":")
	c := compiler.New()
	if len(f) == 3 {
		indent := unhex(f[1])
		// the options are given through the public option functions where one exists for this indent unit, and in
		// either order (the order is a function of the configuration, so a replay makes the same calls)
		var ind compiler.PrettyPrintOption
		switch {
		case indent == "\t":
			ind = compiler.WithTabs()
		case strings.Trim(indent, " ") == "":
			ind = compiler.WithSpaces(len(indent))
		default:
			ind = func(o *compiler.PrettyPrintOptions) { o.IndentString = indent }
		}
		semi := compiler.WithSemi(f[2] == "1")
		if semiFirst {
			c = c.WithPrettyPrint(semi, ind)
		} else {
			c = c.WithPrettyPrint(ind, semi)
		}
	}
	if strings.Contains(f[0], "m") {
		c = c.WithSourceMap()
	}
	return c
}

// compilerReconfigured: a Compiler that was first set up with the opposite pretty-printing options and then configured
// again by a call that names only the options of cfg that differ from the defaults (two spaces, semicolons); nil when cfg
// is no pretty configuration. Every WithPrettyPrint call starts from the defaults, so the result must behave like a
// fresh compiler with cfg.
func compilerReconfigured(cfg string) *compiler.Compiler {
	f := strings.Split(cfg, ":")
	if len(f) != 3 {
		return nil
	}
	indent := unhex(f[1])
	c := compiler.New().WithPrettyPrint(compiler.WithSemi(f[2] != "1"), compiler.WithTabs())
	var opts []compiler.PrettyPrintOption
	if indent != "  " {
		switch {
		case indent == "\t":
			opts = append(opts, compiler.WithTabs())
		case strings.Trim(indent, " ") == "" && indent != "":
			opts = append(opts, compiler.WithSpaces(len(indent)))
		default:
			opts = append(opts, func(o *compiler.PrettyPrintOptions) { o.IndentString = indent })
		}
	}
	if f[2] != "1" {
		opts = append(opts, compiler.WithSemi(false))
	}
	c = c.WithPrettyPrint(opts...)
	if strings.Contains(f[0], "m") {
		c = c.WithSourceMap()
	}
	return c
}

func compileStr(cfg string, prog *ast.Program) string {
	res := compilerOf(cfg).Compile(prog)
	if strings.Count(cfg, ":") == 2 {
		// the pretty-printing options are independent settings: giving them in the other order is the same configuration
		if other := compilerOfOrder(cfg, !compilerSemiFirst(cfg)).Compile(prog); other.Code != res.Code {
			return "code=" + hexOf(res.Code) + ";option-order-changes-output=" + hexOf(other.Code)
		}
	}
	if res.SourceMap == nil {
		return "code=" + hexOf(res.Code)
	}
	names := make([]string, len(res.SourceMap.Names))
	for i, n := range res.SourceMap.Names {
		names[i] = hexOf(n)
	}
	return fmt.Sprintf("code=%s;version=%d;names=%s;mappings=%s", hexOf(res.Code), res.SourceMap.Version, listStr(names), res.SourceMap.Mappings)
}

func doPrint(cfg, src string) string {
	p := parser.NewBuilder(lexer.NewBuilder()).Build(unhex(src))
	prog, err := p.ParseProgram()
	if err != nil {
		return "perr"
	}
	return compileStr(cfg, prog)
}

func doPrintTree(cfg, sexp string) string {
	prog := parseProgramSexp(sexp)
	return compileStr(cfg, prog)
}

// ---------- SMAP ----------

func runSmap(ops []string) *sourcemap.SourceMap {
	m := sourcemap.New()
	// a second recorder is alive and in use at the same time: recorders are independent of each other
	other := sourcemap.New()
	for i, op := range ops {
		other.AddNamedMapping(1000+i, 7*i, "other")
		other.AdvanceString("xy\n")
		f := strings.Split(op, ":")
		switch f[0] {
		case "m":
			m.AddMapping(atoi(f[1]), atoi(f[2]))
		case "n":
			m.AddNamedMapping(atoi(f[1]), atoi(f[2]), unhex(f[3]))
		case "c":
			m.AdvanceColumn(atoi(f[1]))
		case "s":
			m.AdvanceString(unhex(f[1]))
		case "l":
			m.AdvanceLine()
		case "q":
			// an intermediate snapshot: asking for the map must not change what is recorded
			// (not an operation of the model, whose map is a function of the recorder's state)
			_ = m.SourceMap()
		}
	}
	_ = other.SourceMap()
	// … and a third one is created and filled after everything has been recorded, before the map is asked for
	late := sourcemap.New()
	for i := 0; i < len(ops)+2; i++ {
		late.AddMapping(2000+i, 3*i)
		late.AdvanceColumn(2)
	}
	_ = late.SourceMap()
	return m.SourceMap()
}

func doSmap(ops []string) string {
	sm := runSmap(ops)
	names := make([]string, len(sm.Names))
	for i, n := range sm.Names {
		names[i] = hexOf(n)
	}
	return fmt.Sprintf("version=%d;names=%s;mappings=%s", sm.Version, listStr(names), sm.Mappings)
}

// ---------- BUILD ----------

func doBuild(ops []string) string { return strings.Join(doBuildOuts(ops), " ") }

func doBuildOuts(ops []string) []string {
	lb := lexer.NewBuilder()
	pb := parser.NewBuilder(lb)
	dyn := map[string]token.Type{}
	lb.UseTokenInterceptor(func(l *lexer.Lexer, next func() token.Token) token.Token {
		t := next()
		if t.Type == token.ILLEGAL {
			if id, ok := dyn[t.Literal]; ok {
				t.Type = id
			}
		}
		return t
	})
	var outs []string
	okErr := func(err error) string {
		if err != nil {
			return "err"
		}
		return "ok"
	}
	for _, item := range ops {
		f := strings.Split(item, ":")
		switch f[0] {
		case "T":
			name := unhex(f[1])
			id := lb.RegisterTokenType(name)
			dyn[name] = id
			outs = append(outs, fmt.Sprint(int(id)))
		case "P":
			outs = append(outs, okErr(pb.RegisterPrefixOperator(token.Type(atoi(f[1])), genericPrefix)))
		case "I":
			outs = append(outs, okErr(pb.RegisterInfixOperator(token.Type(atoi(f[1])), atoi(f[2]), genericInfix)))
		case "S":
			outs = append(outs, okErr(pb.RegisterPostfixOperator(token.Type(atoi(f[1])), genericPostfix)))
		case "M":
			if f[1] == "t" {
				pb.WithTolerantMode(f[2] == "1")
			} else {
				pb.WithSmartSemicolon(f[2] == "1")
			}
			outs = append(outs, "ok")
		case "B":
			p := pb.Build(unhex(f[1]))
			prog, _ := p.ParseProgram()
			errs := []string{}
			for _, e := range p.Errors() {
				errs = append(errs, errStr(e))
			}
			outs = append(outs, stmtListStr(prog.Statements)+"/"+listStr(errs))
		default:
			outs = append(outs, "badop")
		}
	}
	return outs
}

// ---------- dispatch ----------

func step(line string) string {
	f := strings.Split(line, " ")
	switch {
	case f[0] == "LEX" && len(f) == 3:
		return doLex(unhex(f[1]), atoi(f[2]))
	case f[0] == "PARSE" && len(f) == 7:
		return doParse(f[1], f[2], f[3], f[4], f[5], f[6])
	case f[0] == "PRINT" && len(f) == 3:
		return doPrint(f[1], f[2])
	case f[0] == "PRINTT" && len(f) >= 3:
		return doPrintTree(f[1], strings.Join(f[2:], " "))
	case f[0] == "SMAP":
		return doSmap(f[1:])
	case f[0] == "BUILD":
		return doBuild(f[1:])
	case f[0] == "SV" && len(f) == 4:
		return f[3] // the engine's answer was computed by the generator (specification validation, no xjs code involved)
	}
	return "bad-op"
}

// safeStep runs one op with panic recovery and a time limit (a diverging op is reported, not waited for).
var divergedOps int

func safeStep(line string) string {
	if divergedOps >= 6 {
		// the code under test does not terminate on this kind of op: do not wait another 5 s for each of them
		return "diverge"
	}
	ch := make(chan string, 1)
	go func() {
		defer func() {
			if r := recover(); r != nil {
				ch <- "panic"
			}
		}()
		ch <- step(line)
	}()
	select {
	case r := <-ch:
		return r
	case <-time.After(5 * time.Second):
		divergedOps++
		return "diverge"
	}
}
