package main

// C15 "The pretty printer keeps statement-level comments; compact output has none".
//
// Subset programs (jsgen trees) are laid out by a renderer of this file that puts every statement,
// every opening line of a block or function body and every closing brace on a row of its own, so
// that the places between two rows are exactly the statement-list boundaries (top level, nested
// blocks, function bodies - also of function expressions inside call arguments, object and array
// literals -, empty bodies, before closing braces, before the end of the input). Rows are then
// decorated with // comments (own line and trailing; a unique marker plus arbitrary printable
// text) and runs of blank lines. Source and real pretty output are both split by a small scanner
// of this file (c15Scan; it shares nothing with xjs) into code tokens and, for every place between
// two code tokens, the list of blank lines / own-line comments / trailing comments found there.
//
// Checked for every pretty configuration:
//   (1) the code tokens of the output are those of the source (optional statement semicolons aside);
//   (2) in front of every code token, and in front of the end, the output has exactly the comments
//       the source has there: same text (trailing spaces aside), same order, own-line / trailing
//       as in the source, and a blank line between two of these items iff the source has one or
//       more there (the unchanged printer keeps the exact number of blank lines; the weaker reading
//       is the one judged, an exact-count difference is only counted);
//   (3) every marker occurs exactly once in the output;
//   (4) the output with its comments deleted equals the pretty output of the source with its
//       comments deleted (a comment's text never alters the code around it);
// and for compact output: no marker occurs in it and it equals the compact output of the source
// with its comments deleted.
//
// KNOWN CLASSES (membership is decided from the source text alone, see c15Class)
//   comment-before-eof   witness "a;\n// end\n"       a comment after the last top-level statement (before the end of
//                                                      the input) is dropped: the trivia of the EOF token is not stored in the tree
//   empty-comment        witness "a;\n//\nb;\n"       a comment without text ("//", "//   ") is replayed as a blank line
//                                                      (own line) or dropped (trailing): it cannot be told from a line break
//   bare-cr              witness "a; // x\rb;\nc;\n"  a CR without LF does not end a comment for xjs although it ends the
//                                                      line (and the comment) in JavaScript: the code after it is swallowed

import (
	"fmt"
	"math/rand"
	"os"
	"strings"

	"github.com/xjslang/xjs/ast"
	"xjsverif/internal/jsgen"
)

func init() { oracles["C15"] = oracleC15 }

const (
	clsCommentEOF   = "comment-before-eof"
	clsEmptyComment = "empty-comment"
)

// ---------- independent scanner ----------

type c15Item struct {
	kind       byte   // 'B' blank line, 'C' comment on a line of its own, 'T' comment trailing code
	text       string // comment text after the two slashes, as written
	start, end int    // comment: from the slashes to the line end (exclusive); blank line: the whole line
}

type c15Tok struct {
	text  string
	str   bool      // quoted string literal
	eof   bool      // pseudo token for the end of the text
	off   int       // byte offset
	items []c15Item // what stands between the previous code token and this one
	semi  bool      // a statement-terminating ';' directly follows the previous token
}

var c15Punct2 = []string{"++", "--", "==", "!=", "<=", ">=", "&&", "||", "+=", "-="}

func c15IsWord(ch byte) bool {
	return ch == '_' || ch == '$' || '0' <= ch && ch <= '9' || 'a' <= ch && ch <= 'z' || 'A' <= ch && ch <= 'Z'
}

// c15Scan splits text into code tokens. Line terminators are LF, CR LF and CR (as in ECMAScript);
// comments are // comments only; a ';' that is not inside the parentheses of a for header ends a
// statement and is treated as layout (printers may add or omit it).
func c15Scan(src string) []c15Tok {
	var out []c15Tok
	var stack []byte
	i := 0
	content := false // the current line holds code
	for {
		var items []c15Item
		semi, first := false, true
		hadComment := false
		lineStart := i
		if len(out) > 0 {
			lineStart = -1
		}
	gap:
		for i < len(src) {
			ch := src[i]
			switch {
			case ch == ' ' || ch == '\t':
				i++
			case ch == ';' && (len(stack) == 0 || stack[len(stack)-1] != '('):
				if first {
					semi = true
				}
				content = true
				i++
			case ch == '\n' || ch == '\r':
				w := 1
				if ch == '\r' && i+1 < len(src) && src[i+1] == '\n' {
					w = 2
				}
				if !content && !hadComment {
					items = append(items, c15Item{kind: 'B', start: lineStart, end: i + w})
				}
				i += w
				lineStart, content, hadComment, first = i, false, false, false
			case ch == '/' && i+1 < len(src) && src[i+1] == '/':
				j := i + 2
				for j < len(src) && src[j] != '\n' && src[j] != '\r' {
					j++
				}
				k := byte('C')
				if content {
					k = 'T'
				}
				items = append(items, c15Item{kind: k, text: src[i+2 : j], start: i, end: j})
				hadComment, first = true, false
				i = j
			default:
				break gap
			}
		}
		if i >= len(src) {
			out = append(out, c15Tok{eof: true, off: i, items: items, semi: semi})
			return out
		}
		t := c15Tok{off: i, items: items, semi: semi}
		ch := src[i]
		j := i + 1
		switch {
		case ch == '"' || ch == '\'' || ch == '`':
			for j < len(src) {
				if src[j] == '\\' {
					j += 2
					continue
				}
				if src[j] == ch {
					j++
					break
				}
				j++
			}
			if j > len(src) {
				j = len(src)
			}
			t.str = ch != '`'
		case '0' <= ch && ch <= '9':
			hex := strings.HasPrefix(src[i:], "0x") || strings.HasPrefix(src[i:], "0X")
			for j < len(src) && (c15IsWord(src[j]) || src[j] == '.' && j+1 < len(src) && '0' <= src[j+1] && src[j+1] <= '9' ||
				(src[j] == '+' || src[j] == '-') && (src[j-1] == 'e' || src[j-1] == 'E') && !hex) {
				j++
			}
		case c15IsWord(ch):
			for j < len(src) && c15IsWord(src[j]) {
				j++
			}
		default:
			for _, p := range c15Punct2 {
				if strings.HasPrefix(src[i:], p) {
					j = i + 2
				}
			}
			switch ch {
			case '(', '[', '{':
				stack = append(stack, ch)
			case ')', ']', '}':
				if len(stack) > 0 {
					stack = stack[:len(stack)-1]
				}
			}
		}
		t.text = src[i:j]
		out = append(out, t)
		i, content = j, true
	}
}

// c15Strip deletes the comments: a trailing comment with the blanks in front of it, an own-line
// comment with its whole line.
func c15Strip(src string, toks []c15Tok) string {
	var b strings.Builder
	pos := 0
	for _, t := range toks {
		for _, it := range t.items {
			if it.kind == 'B' {
				continue
			}
			s, e := it.start, it.end
			for s > 0 && (src[s-1] == ' ' || src[s-1] == '\t') {
				s--
			}
			if it.kind == 'C' {
				if e+1 < len(src) && src[e] == '\r' && src[e+1] == '\n' {
					e += 2
				} else if e < len(src) {
					e++
				}
			}
			if s < pos {
				s = pos
			}
			b.WriteString(src[pos:s])
			pos = e
		}
	}
	b.WriteString(src[pos:])
	return b.String()
}

// c15Norm gives the comparable form of what stands in front of a token: comments with their kind
// and text (trailing spaces aside), runs of blank lines as one entry. Blank lines at the very
// start and the very end of a text do not count.
func c15Norm(items []c15Item, first, last bool) []string {
	var out []string
	for _, it := range items {
		switch it.kind {
		case 'B':
			if len(out) > 0 && out[len(out)-1] == "blank" || first && len(out) == 0 {
				continue
			}
			out = append(out, "blank")
		case 'C':
			out = append(out, "own-line //"+strings.TrimRight(it.text, " "))
		case 'T':
			out = append(out, "trailing //"+strings.TrimRight(it.text, " "))
		}
	}
	for last && len(out) > 0 && out[len(out)-1] == "blank" {
		out = out[:len(out)-1]
	}
	return out
}

func c15Blanks(items []c15Item) int {
	n := 0
	for _, it := range items {
		if it.kind == 'B' {
			n++
		}
	}
	return n
}

func c15HasComment(items []c15Item) bool {
	for _, it := range items {
		if it.kind != 'B' {
			return true
		}
	}
	return false
}

// c15SameTokens compares two token lists; string literals are compared without their quotes.
func c15SameTokens(a, b []c15Tok) (bool, string) {
	for i := 0; i < len(a) && i < len(b); i++ {
		x, y := a[i], b[i]
		same := x.text == y.text && x.eof == y.eof
		if x.str && y.str && len(x.text) >= 2 && len(y.text) >= 2 {
			same = x.text[1:len(x.text)-1] == y.text[1:len(y.text)-1]
		}
		if !same {
			return false, fmt.Sprintf("code token %d is %q in the source and %q in the output", i, oaClip(x.text, 40), oaClip(y.text, 40))
		}
	}
	if len(a) != len(b) {
		return false, fmt.Sprintf("%d code tokens in the source, %d in the output", len(a)-1, len(b)-1)
	}
	return true, ""
}

// ---------- classes ----------

// c15Class decides the known class of a source text from the text alone.
func c15Class(src string, toks []c15Tok) string {
	if oaHasBareCR(src) {
		return clsBareCR
	}
	for _, t := range toks {
		for _, it := range t.items {
			if it.kind != 'B' && strings.TrimRight(it.text, " ") == "" {
				return clsEmptyComment
			}
		}
	}
	if c15HasComment(toks[len(toks)-1].items) {
		return clsCommentEOF
	}
	return ""
}

// c15InScope: every comment of the text stands at a place that the scanner can tell to be a
// statement-list boundary without knowing the grammar: the start of the text, or directly after a
// statement-terminating semicolon and not in front of `else`. (Texts of this file's generator are
// in scope by construction.)
func c15InScope(toks []c15Tok) bool {
	for i, t := range toks {
		if c15HasComment(t.items) && i > 0 && (!t.semi || t.text == "else") {
			return false
		}
	}
	return true
}

// ---------- the check ----------

var c15PrettyCfgs = []string{"p:2020:1", "p:09:1", "p:-:1", "p:20:0", "p:20202020:0", "p:09:0", "p:2020:0", "p:2020202020202020:1"}

// c15Mark delimits the marker ids of generated comments; the random comment text never contains it.
const c15Mark = "\u00a4"

func c15Markers(toks []c15Tok) []string {
	var out []string
	for _, t := range toks {
		for _, it := range t.items {
			if it.kind == 'B' {
				continue
			}
			if a := strings.Index(it.text, c15Mark); a >= 0 {
				if b := strings.Index(it.text[a+len(c15Mark):], c15Mark); b >= 0 {
					out = append(out, it.text[a:a+b+2*len(c15Mark)])
				}
			}
		}
	}
	return out
}

func c15CRLF(s string) string { return strings.ReplaceAll(s, "\r\n", "\n") }

// c15Check judges one decorated source under the given pretty configurations and compact.
// trusted: all comments are known to stand at statement-list boundaries.
func c15Check(c *oracleCtx, src string, cfgs []string, trusted, steer bool) {
	base := map[string]any{"src": hexOf(src), "text": src, "cfgs": strings.Join(cfgs, ",")}
	if trusted {
		base["scope"] = "all"
	}
	guard(c, "", base, func() {
		stoks := c15Scan(src)
		if !trusted && !c15InScope(stoks) {
			c.bump("out-of-scope-comment")
			return
		}
		cls := c15Class(src, stoks)
		if cls != "" && steer {
			c.bump("steered-away:" + cls)
			return
		}
		prog, errs := oaParse(src)
		if len(errs) > 0 {
			c.bump("parse-error")
			if dbgB {
				fmt.Fprintf(os.Stderr, "C15 parse error %q: %s\n", src, oaErrText(errs))
			}
			return
		}
		plain := c15Strip(src, stoks)
		pprog, perrs := oaParse(plain)
		if len(perrs) > 0 {
			if cls == "" {
				c.bump("skipped:comment-free-text-rejected")
				return
			}
			pprog = nil
		}
		markers := c15Markers(stoks)
		ncomments := 0
		for _, t := range stoks {
			for _, it := range t.items {
				if it.kind != 'B' {
					ncomments++
				}
			}
		}
		c.extra["comments"] += ncomments
		fail := func(cfg, what, out string) {
			in := map[string]any{"src": hexOf(src), "text": src, "cfg": cfg, "cfgs": cfg, "output": oaClip(out, 800)}
			if trusted {
				in["scope"] = "all"
			}
			c.violation(cls, cfg+": "+what, in)
		}

		// compact
		compact := oaCompile("c", prog)
		for _, m := range markers {
			if strings.Contains(compact, m) {
				fail("c", "compact output contains the comment text "+m, compact)
				break
			}
		}
		if pprog != nil {
			if want := oaCompile("c", pprog); want != compact {
				fail("c", "compact output differs from the compact output of the comment-free text: "+firstDiff(compact, want), compact)
			}
		} else {
			fail("c", "the text without its comments does not parse: "+oaErrText(perrs), compact)
		}

		for _, cfg := range cfgs {
			if !oaCfgIsPretty(cfg) {
				continue
			}
			c.bump("pretty-outputs")
			out := oaCompile(cfg, prog)
			otoks := c15Scan(out)
			// (1) code tokens
			if ok, why := c15SameTokens(stoks, otoks); !ok {
				if pprog != nil {
					// is the printer at fault without any comment? then this is not about comments
					if ok0, _ := c15SameTokens(c15Scan(plain), c15Scan(oaCompile(cfg, pprog))); !ok0 {
						c.bump("skipped:base-tokens-differ")
						continue
					}
				}
				fail(cfg, "the comments change the code: "+why, out)
				continue
			}
			// (2) inventory, order, anchors, own-line/trailing, blank-line separation
			bad := false
			for g := range stoks {
				if !trusted && g > 0 && (!stoks[g].semi || stoks[g].text == "else") {
					if c15HasComment(otoks[g].items) {
						fail(cfg, fmt.Sprintf("a comment appears in front of code token %d %q where the source has none", g, otoks[g].text), out)
						bad = true
						break
					}
					continue
				}
				first, last := g == 0, stoks[g].eof
				want, got := c15Norm(stoks[g].items, first, last), c15Norm(otoks[g].items, first, last)
				if strings.Join(want, "\x00") != strings.Join(got, "\x00") {
					anchor := fmt.Sprintf("code token %d %q", g, oaClip(stoks[g].text, 30))
					if last {
						anchor = "the end of the text"
					}
					fail(cfg, fmt.Sprintf("in front of %s the source has %q, the output has %q", anchor, want, got), out)
					bad = true
					break
				}
				if len(want) > 0 && c15Blanks(stoks[g].items) != c15Blanks(otoks[g].items) && !first && !last {
					c.bump("blank-line-count-changed")
				}
			}
			if bad {
				continue
			}
			// (3) exactly once
			for _, m := range markers {
				if n := strings.Count(out, m); n != 1 {
					fail(cfg, fmt.Sprintf("the comment %s occurs %d times in the output", m, n), out)
					bad = true
					break
				}
			}
			if bad || pprog == nil {
				continue
			}
			// (4) code independence, byte for byte
			want := oaCompile(cfg, pprog)
			if got := strings.TrimSpace(c15CRLF(c15Strip(out, otoks))); got != c15CRLF(want) {
				fail(cfg, "the output without its comments differs from the output of the comment-free text: "+firstDiff(got, want), out)
			}
		}
	})
}

// c15Open: the text, placed in two blocks that the input leaves open, is read by the tolerant parser without error, and
// the comments in front of the end of the input — which now stand in front of the place where the innermost block
// would close — are printed exactly as when the two closing braces are written.
func c15Open(c *oracleCtx, body string, cfgs []string) {
	if !strings.HasSuffix(body, "\n") || strings.Contains(body, "\r") {
		return
	}
	open := "function w() {\nif (q) {\n" + body
	closed := open + "}}\n"
	input := map[string]any{"open": true, "src": hexOf(body), "text": open, "cfgs": strings.Join(cfgs, ",")}
	guard(c, "", input, func() {
		if c15Class(closed, c15Scan(closed)) != "" {
			return
		}
		cp, cerrs := oaParse(closed)
		if len(cerrs) > 0 {
			return
		}
		t := parseB("t", open)
		c.bump("open-blocks")
		if len(t.errs) > 0 {
			c.violation("", "tolerant mode reports an error for blocks left open at the end of the input: "+oaErrText(t.errs), input)
			return
		}
		for _, cfg := range append([]string{"c"}, cfgs...) {
			want, got := oaCompile(cfg, cp), oaCompile(cfg, t.prog)
			if want != got {
				in2 := map[string]any{"open": true, "src": hexOf(body), "text": open, "cfgs": cfg, "cfg": cfg, "output": oaClip(got, 800), "output-with-braces-written": oaClip(want, 800)}
				c.violation("", cfg+": the text with its two blocks left open is printed differently from the same text with the closing braces written: "+firstDiff(want, got), in2)
				return
			}
		}
	})
}

// ---------- row renderer ----------

type c15Rend struct {
	r      *rand.Rand
	l      jsgen.Layout
	asi    bool
	indent string
	nfn    int
	fns    map[string]*jsgen.Node
}

func c15Leftmost(n *jsgen.Node) *jsgen.Node {
	for {
		switch n.Kind {
		case "bin", "asg", "post", "call", "mem", "idx":
			n = n.Kids[0]
		default:
			return n
		}
	}
}

// subst copies an expression or simple statement, function expressions replaced by placeholders.
func (p *c15Rend) subst(n *jsgen.Node) *jsgen.Node {
	if n == nil {
		return nil
	}
	if n.Kind == "fn" {
		p.nfn++
		name := fmt.Sprintf("ZZFN%dZZ", p.nfn)
		p.fns[name] = n
		return &jsgen.Node{Kind: "id", Text: name}
	}
	cp := &jsgen.Node{Kind: n.Kind, Op: n.Op, Text: n.Text}
	for _, k := range n.Kids {
		cp.Kids = append(cp.Kids, p.subst(k))
	}
	return cp
}

func (p *c15Rend) funcHead(n *jsgen.Node) string {
	s := "function"
	if n.Kids[0] != nil {
		s += " " + n.Kids[0].Text
	}
	var ps []string
	for _, k := range n.Kids[1 : len(n.Kids)-1] {
		ps = append(ps, k.Text)
	}
	return s + "(" + strings.Join(ps, ", ") + ") {"
}

func (p *c15Rend) funcRows(n *jsgen.Node, depth int) []string {
	rows := []string{p.funcHead(n)}
	rows = append(rows, p.list(n.Kids[len(n.Kids)-1].Kids, depth+1, false)...)
	return append(rows, "}")
}

// c15Join appends rows b to rows a, the first row of b continuing the last row of a.
func c15Join(a, b []string) []string {
	a[len(a)-1] += b[0]
	return append(a, b[1:]...)
}

// expand renders a placeholder-carrying text into rows.
func (p *c15Rend) expand(text string, depth int) []string {
	rows := []string{""}
	for {
		i := strings.Index(text, "ZZFN")
		if i < 0 {
			break
		}
		j := i + 4 + strings.Index(text[i+4:], "ZZ") + 2
		rows[len(rows)-1] += text[:i]
		rows = c15Join(rows, p.funcRows(p.fns[text[i:j]], depth))
		text = text[j:]
	}
	rows[len(rows)-1] += text
	return rows
}

func (p *c15Rend) text(n *jsgen.Node) string {
	return strings.TrimRight(jsgen.Render(p.subst(n), p.r, p.l), "\n")
}

func (p *c15Rend) expr(n *jsgen.Node, depth int) []string {
	if n == nil {
		return []string{""}
	}
	return p.expand(p.text(n), depth)
}

func (p *c15Rend) body(n *jsgen.Node, depth int) []string {
	return p.stmt(n, depth)
}

func (p *c15Rend) stmt(n *jsgen.Node, depth int) []string {
	switch n.Kind {
	case "fd":
		return p.funcRows(n, depth)
	case "block":
		rows := []string{"{"}
		rows = append(rows, p.list(n.Kids, depth+1, false)...)
		return append(rows, "}")
	case "if":
		rows := c15Join([]string{"if ("}, p.expr(n.Kids[0], depth))
		rows = c15Join(c15Join(rows, []string{") "}), p.body(n.Kids[1], depth))
		if n.Kids[2] != nil {
			rows = c15Join(c15Join(rows, []string{" else "}), p.body(n.Kids[2], depth))
		}
		return rows
	case "while":
		rows := c15Join([]string{"while ("}, p.expr(n.Kids[0], depth))
		return c15Join(c15Join(rows, []string{") "}), p.body(n.Kids[1], depth))
	case "for":
		rows := []string{"for ("}
		for i := 0; i < 3; i++ {
			if i > 0 {
				rows = c15Join(rows, []string{"; "})
			}
			rows = c15Join(rows, p.expr(n.Kids[i], depth))
		}
		return c15Join(c15Join(rows, []string{") "}), p.body(n.Kids[3], depth))
	case "es":
		if c15Leftmost(n.Kids[0]).Kind == "fn" {
			return c15Join(c15Join([]string{"("}, p.expr(n.Kids[0], depth)), []string{");"})
		}
	}
	return p.expand(p.text(n), depth) // let, ret, es: jsgen writes the statement with its semicolon
}

func c15Simple(n *jsgen.Node) bool { return n.Kind == "let" || n.Kind == "ret" || n.Kind == "es" }

// list renders a statement list; top: the list is the program.
func (p *c15Rend) list(ss []*jsgen.Node, depth int, top bool) []string {
	parts := make([][]string, len(ss))
	for i, s := range ss {
		parts[i] = p.stmt(s, depth)
	}
	var rows []string
	for i, part := range parts {
		last := &part[len(part)-1]
		if p.asi && c15Simple(ss[i]) && strings.HasSuffix(*last, ";") && p.r.Intn(2) == 0 {
			bare := strings.TrimRight(strings.TrimSuffix(*last, ";"), " \t")
			safe := bare != "return" || i+1 == len(parts) // xjs reads `return` + line break + expression as one statement
			if i+1 < len(parts) {
				next := strings.TrimLeft(parts[i+1][0], " \t")
				if next == "" || strings.IndexByte("([+-/`", next[0]) >= 0 {
					safe = false
				}
			}
			if safe {
				*last = bare
			}
		}
		for _, row := range part {
			rows = append(rows, strings.Repeat(p.indent, depth)+row)
		}
	}
	return rows
}

// c15Rows lays a program out in rows.
func c15Rows(r *rand.Rand, tree *jsgen.Node) []string {
	p := &c15Rend{r: r, fns: map[string]*jsgen.Node{}, asi: r.Intn(3) == 0,
		l:      jsgen.Layout{RedundantParens: r.Intn(3) == 0, SingleQuotes: r.Intn(4) == 0, Compact: r.Intn(4) == 0},
		indent: []string{"", "  ", "    ", "\t", " "}[r.Intn(5)]}
	return p.list(tree.Kids, 0, true)
}

// ---------- decoration ----------

var c15Snippets = []string{
	"", " ", " plain words", " x = \"a\" + 'b';", " if (a) { b(); } else { c; }", " // nested // slashes", "// no space", "/", " */ /* block */",
	" %d %s %v %", " 100%", " %!d(MISSING) %%", " back\\slash \\n \\", " `tick` ${x}", " \"unclosed", " 'q", " }", " { ( [", " ) ] }", " let x = 1; // t",
	" return", " function f() {", " é 日本 ü", "\tтаб\t", " a\tb", " <!-- -->", " ;;;", " @#$^&*~|?:.,<>", " 0x1F 1e9 .5", " TODO(me): fix", " https://example.org/a?b=c&d=%20",
	// last bytes that a byte-wise trim could take for white space (…A0, …85), and characters that share a prefix with U+2028 / U+2029
	" déjà", " Š", " Ơ", " \U0001F620", " x\u00a0", " caf\u00e9 \u2013 x = 0", " \u2026", " it\u2019s", " \u0085", " a\u2003b",
}

func c15CommentText(r *rand.Rand, id int) string {
	var b strings.Builder
	part := func() {
		switch r.Intn(3) {
		case 0:
			b.WriteString(c15Snippets[r.Intn(len(c15Snippets))])
		case 1:
			for i, n := 0, r.Intn(14); i < n; i++ {
				b.WriteByte(byte(0x20 + r.Intn(0x7f-0x20)))
			}
		}
	}
	part()
	b.WriteString(c15Mark + fmt.Sprint(id) + c15Mark)
	part()
	switch r.Intn(5) {
	case 0:
		b.WriteString(strings.Repeat(" ", 1+r.Intn(4))) // trailing spaces
	case 1:
		b.WriteString("\t")
	}
	return b.String()
}

// c15Decorate builds the decorated text. eofComments: comments may also be put before the end.
func c15Decorate(r *rand.Rand, rows []string, density int, eofComments bool) (src string, wantPlain string) {
	id := 0
	var b, pl strings.Builder
	ws := func() string { return []string{"", "", " ", "  ", "\t", "    "}[r.Intn(6)] }
	emit := func(atEnd bool) {
		// own lines between two rows (or before the first / after the last)
		if r.Intn(density) != 0 {
			return
		}
		for k, n := 0, 1+r.Intn(4); k < n; k++ {
			switch r.Intn(5) {
			case 0, 1:
				blank := []string{"", "", " ", "\t", "  \t "}[r.Intn(5)]
				b.WriteString(blank + "\n")
				pl.WriteString(blank + "\n")
			default:
				if atEnd && !eofComments {
					continue
				}
				id++
				b.WriteString(ws() + "//" + c15CommentText(r, id) + "\n")
			}
		}
	}
	emit(false)
	for i, row := range rows {
		b.WriteString(row)
		pl.WriteString(row)
		if r.Intn(density+1) == 0 && (i+1 < len(rows) || eofComments) {
			id++
			b.WriteString([]string{" ", "", "  ", "\t"}[r.Intn(4)] + "//" + c15CommentText(r, id))
		}
		b.WriteString("\n")
		pl.WriteString("\n")
		emit(i+1 == len(rows))
	}
	return b.String(), pl.String()
}

// ---------- driver ----------

func c15Cfgs(c *oracleCtx) []string {
	if c.thorough() {
		return c15PrettyCfgs
	}
	return append([]string{"p:2020:1"}, oaSample(c.r, c15PrettyCfgs[1:], 2)...)
}

func oracleC15(c *oracleCtx) {
	for _, in := range readInputsB(c) {
		switch in.kind {
		case "PRINT":
			c.count(in.line)
			c15Check(c, in.src, []string{"p:2020:1", in.cfg}, false, false)
		case "rec":
			if ps := recStr(in.rec, "plugin-src"); ps != "" {
				c.count(in.line)
				checkPluginTokens(c, unhex(ps), map[string]any{"plugin-src": ps, "text": unhex(ps)})
				continue
			}
			if b, isOpen := in.rec["open"].(bool); isOpen && b {
				cfgs := []string{"p:2020:1"}
				if s := recStr(in.rec, "cfgs"); s != "" {
					cfgs = strings.Split(s, ",")
				}
				c.count(in.line)
				c15Open(c, in.src, cfgs)
				continue
			}
			if _, ok := in.rec["src"]; ok {
				cfgs := []string{"p:2020:1"}
				if s := recStr(in.rec, "cfgs"); s != "" {
					cfgs = strings.Split(s, ",")
				} else if in.cfg != "" {
					cfgs = []string{in.cfg}
				}
				c.count(in.line)
				c15Check(c, in.src, cfgs, recStr(in.rec, "scope") == "all", false)
			}
		}
	}
	if c.tier == "replay" {
		return
	}

	// hand-written placements
	for _, s := range c15Fixed {
		c.count(s)
		c15Check(c, s, c15PrettyCfgs, true, true)
	}

	n := c.n(5000, 150000)
	for i := 0; i < n && !c.expired(); i++ {
		o := jsgen.GenOptions{MaxDepth: 1 + c.r.Intn(3), MaxStmts: 1 + c.r.Intn(5), Executable: c.r.Intn(6) == 0}
		tree := jsgen.GenProgram(c.r, o)
		rows := c15Rows(c.r, tree)
		eof := c.r.Intn(12) == 0
		src, plain := c15Decorate(c.r, rows, 1+c.r.Intn(4), eof)
		if srcStringRequote(src) || srcBacktickEscape(src) || srcTrimInLiteral(src) {
			c.bump("steered-away:literal-classes")
			continue
		}
		if c.r.Intn(10) == 0 {
			src, plain = strings.ReplaceAll(src, "\n", "\r\n"), strings.ReplaceAll(plain, "\n", "\r\n")
			c.bump("crlf")
		}
		// self check of the scanner: deleting the comments gives the text that was decorated
		if got := c15Strip(src, c15Scan(src)); got != plain {
			c.bump("skipped:scanner-selfcheck")
			if dbgB {
				fmt.Fprintf(os.Stderr, "C15 selfcheck %q\n got %q\nwant %q\n", src, got, plain)
			}
			continue
		}
		c.count(src)
		if dbgB && i < 8 {
			fmt.Fprintf(os.Stderr, "C15 sample\n%s\n-- pretty\n%s\n", src, oaCompile("p:2020:1", func() *ast.Program { p, _ := oaParse(src); return p }()))
		}
		c15Check(c, src, c15Cfgs(c), true, true)
		if i%4 == 0 {
			c15Open(c, src, c15Cfgs(c))
		}
	}
	for _, s := range []string{"a()\n// c\n", "a()\n\n// c1\n// c2\n\n", "b() // t\n", "{\n  a()\n}\n// after\n", "x = 1\n"} {
		c15Open(c, s, c15PrettyCfgs)
	}

	// tokens built by a lexer plugin through the exported NewToken carry the comments in front of them like any token
	for _, s := range []string{"a()\n// c\n@ b\n", "// first\n\n# x\n// second\n~ y // t\n? z\n", "{\n  a\n  // inner\n  ^ b\n}\n"} {
		c.count(s)
		checkPluginTokens(c, s, map[string]any{"plugin-src": hexOf(s), "text": s})
	}

	// the known classes, always replayed
	for _, s := range c15Witnesses {
		c.count(s)
		c15Check(c, s, []string{"p:2020:1", "p:09:0"}, true, false)
	}
}

var c15Fixed = []string{
	"// ¤1¤ first\na;\n",
	"\n\n// ¤1¤ first after blank lines\n\na;\n",
	"a; // ¤1¤ trailing\nb;\n",
	"a;\n// ¤1¤ own line\nb;\n",
	"a;\n\n// ¤1¤\n\n\n// ¤2¤\nb; // ¤3¤\n\n\n\nc;\n",
	"function f() { // ¤1¤ after the brace\n  // ¤2¤ before the first\n  a; // ¤3¤\n  // ¤4¤ before the closing brace\n}\ng();\n",
	"function f() {\n  // ¤1¤ only a comment\n}\nfunction g() { // ¤2¤ trailing the brace of an empty body\n}\nh();\n",
	"function f() {\n\n  // ¤1¤\n\n}\nh();\n",
	"if (a) {\n  // ¤1¤\n  b;\n  // ¤2¤\n} else {\n  // ¤3¤\n  c; // ¤4¤\n}\nd;\n",
	"if (a) { // ¤1¤\n} else { // ¤2¤\n}\nwhile (x) { // ¤3¤\n  // ¤4¤\n}\nfor (;;) {\n  // ¤5¤\n}\nd;\n",
	"{\n  {\n    {\n      // ¤1¤ deep\n    }\n    // ¤2¤\n  }\n  // ¤3¤\n}\nd;\n",
	"x = function() {\n  // ¤1¤\n  a;\n  // ¤2¤\n};\nf(function() {\n  // ¤3¤\n}, [function(p) { // ¤4¤\n  return p; // ¤5¤\n}], {k: function() {\n  // ¤6¤\n}});\nd;\n",
	"a // ¤1¤ no semicolon\nb\n// ¤2¤\nc\n",
	"a; // ¤1¤ %d %s 100% %\nb; // ¤2¤ \"quoted\" 'single' `tick`\n// ¤3¤ // nested // slashes\n// ¤4¤ */ /* \\ \\n\nc; // ¤5¤ trailing spaces    \n// ¤6¤ let x = 1; if (y) { z(); }\nd;\n",
	"let v = 1; // ¤1¤\nreturn_(v); // ¤2¤\nfunction f(a, b) { // ¤3¤\n  return a + b; // ¤4¤\n} // ¤5¤ after a declaration\nwhile (v) v--; // ¤6¤\nif (v) a; else b; // ¤7¤\nd;\n",
	"a;\r\n// ¤1¤ crlf\r\nb; // ¤2¤\r\n\r\nc;\r\n",
}

var c15Witnesses = []string{
	"a;\n// ¤1¤ end\n", "a; // ¤1¤ end", "a;\n\n// ¤1¤\n\n// ¤2¤\n", "// ¤1¤ only a comment\n", "function f() {\n}\n// ¤1¤ end\n",
	"a;\n//\nb;\n", "a; //\nb;\n", "a;\n//   \nb;\n", "{\n  //\n}\n",
	"a; // ¤1¤ x\rb;\nc;\n", "a;\n// ¤1¤ x\rb;\nc;\n",
}
