package main

// processPrelude: before anything is checked, OTHER objects of the same process are created and used — lexer builders
// that register token types (also with word-like names), parser builders with operators on built-in and dynamic
// tokens, compilers with and without source maps. Builders, parsers, compilers and recorders are independent of each
// other, so this changes nothing; it runs at the start of every oracle run, every replay and every correspondence run.
import (
	"time"

	"github.com/xjslang/xjs/compiler"
	"github.com/xjslang/xjs/lexer"
	"github.com/xjslang/xjs/parser"
	"github.com/xjslang/xjs/sourcemap"
	"github.com/xjslang/xjs/token"
)

// preludeWords are identifier spellings that other builders register as token type names
var preludeWords = []string{"pow", "PI", "unless", "mod", "typeof", "of"}

func processPrelude() {
	done := make(chan struct{})
	go func() {
		defer close(done)
		defer func() { _ = recover() }()
		for _, setup := range []func(*lexer.Builder, *parser.Builder){
			func(lb *lexer.Builder, pb *parser.Builder) {
				for _, w := range preludeWords {
					lb.RegisterTokenType(w)
				}
			},
			func(lb *lexer.Builder, pb *parser.Builder) { _ = pb.RegisterPostfixOperator(token.NOT, genericPostfix) },
			func(lb *lexer.Builder, pb *parser.Builder) {
				_ = pb.RegisterPostfixOperator(token.MODULO, genericPostfix)
			},
			func(lb *lexer.Builder, pb *parser.Builder) {
				_ = pb.RegisterInfixOperator(lb.RegisterTokenType("^"), 9, genericInfix)
				_ = pb.RegisterPrefixOperator(lb.RegisterTokenType("~"), genericPrefix)
			},
			func(lb *lexer.Builder, pb *parser.Builder) {
				_ = pb.RegisterInfixOperator(lb.RegisterTokenType("@"), 3, genericInfix)
			},
		} {
			lb := lexer.NewBuilder()
			pb := parser.NewBuilder(lb)
			setup(lb, pb)
			for _, src := range []string{"a! + b", "x = 1 % 2", "let pow = PI", "f(a)"} {
				p := pb.Build(src)
				prog, _ := p.ParseProgram()
				if prog != nil && len(p.Errors()) == 0 {
					_ = compiler.New().WithSourceMap().Compile(prog)
					_ = compiler.New().WithPrettyPrint().Compile(prog)
				}
			}
		}
		m := sourcemap.New()
		m.AddNamedMapping(3, 4, "prelude")
		m.AdvanceString("abc\ndef")
		m.AddMapping(5, 6)
		_ = m.SourceMap()
	}()
	select {
	case <-done:
	case <-time.After(5 * time.Second):
	}
}
