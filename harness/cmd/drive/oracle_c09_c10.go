package main

import (
	"fmt"
	"regexp"
	"strings"

	"github.com/xjslang/xjs/lexer"
	"github.com/xjslang/xjs/token"
	"xjsverif/internal/oracle"
)

func init() {
	oracles["C09"] = oracleC09
	oracles["C10"] = oracleC10
}

// ---------- C09: decode the real map with an independent decoder, compare with what was recorded ----------

type absMapping struct {
	gl, gc, sl, sc int
	name           string
	hasName        bool
}

// expectedMappings replays the op list with an independent position tracker written from the property text:
// \n, \r\n and \r are each one line break.
func expectedMappings(ops []string) (maps []absMapping, names []string) {
	line, col := 0, 0
	seen := map[string]bool{}
	for _, op := range ops {
		f := strings.Split(op, ":")
		switch f[0] {
		case "m":
			maps = append(maps, absMapping{gl: line, gc: col, sl: atoi(f[1]), sc: atoi(f[2])})
		case "n":
			name := unhex(f[3])
			if !seen[name] {
				seen[name] = true
				names = append(names, name)
			}
			maps = append(maps, absMapping{gl: line, gc: col, sl: atoi(f[1]), sc: atoi(f[2]), name: name, hasName: true})
		case "c":
			col += atoi(f[1])
		case "s":
			s := unhex(f[1])
			s = strings.ReplaceAll(s, "\r\n", "\n")
			s = strings.ReplaceAll(s, "\r", "\n")
			if i := strings.LastIndexByte(s, '\n'); i >= 0 {
				line += strings.Count(s, "\n")
				col = len(s) - i - 1
			} else {
				col += len(s)
			}
		case "l":
			line++
			col = 0
		}
	}
	return
}

func checkSmapLine(c *oracleCtx, line string) {
	ops := strings.Split(line, " ")[1:]
	input := map[string]any{"ops": line}
	guard(c, "panic", input, func() {
		sm := runSmap(ops)
		exp, names := expectedMappings(ops)
		if sm.Version != 3 {
			c.violation("version", fmt.Sprintf("version=%d", sm.Version), input)
		}
		if strings.Join(sm.Names, "\x01") != strings.Join(names, "\x01") {
			c.violation("names", fmt.Sprintf("names=%q want %q", sm.Names, names), input)
			return
		}
		segs, err := oracle.DecodeMappings(sm.Mappings)
		if err != nil {
			// the independent decoder refuses negative running values; those arise only from negative inputs
			neg := false
			for _, m := range exp {
				if m.gc < 0 || m.sl < 0 || m.sc < 0 {
					neg = true
				}
			}
			if neg {
				c.bump("skipped-negative")
				return
			}
			c.violation("undecodable", fmt.Sprintf("mappings %q: %v", sm.Mappings, err), input)
			return
		}
		if len(segs) != len(exp) {
			c.violation("segment-count", fmt.Sprintf("decoded %d segments, recorded %d; mappings=%q", len(segs), len(exp), sm.Mappings), input)
			return
		}
		for i, s := range segs {
			e := exp[i]
			ok := s.GenLine == e.gl && s.GenCol == e.gc && s.SrcLine == e.sl && s.SrcCol == e.sc && s.Source == 0 && s.HasName == e.hasName
			if ok && e.hasName {
				ok = s.Name >= 0 && s.Name < len(sm.Names) && sm.Names[s.Name] == e.name
			}
			if !ok {
				c.violation("segment", fmt.Sprintf("segment %d decodes to %+v, recorded %+v; mappings=%q", i, s, e, sm.Mappings), input)
				return
			}
		}
	})
}

func oracleC09(c *oracleCtx) {
	for _, in := range c.inputs {
		if strings.HasPrefix(in, "SMAP") {
			checkSmapLine(c, in)
			c.count(in)
		} else if m := recordedInput(in); m != nil {
			if s, ok := m["ops"].(string); ok {
				checkSmapLine(c, s)
				c.count(s)
			}
		}
	}
	n := c.n(3000, 200000)
	rng := c.n(1<<11, 1<<20)
	for v := -rng; v <= rng && !c.expired(); v++ {
		l := fmt.Sprintf("SMAP m:%d:%d", v, rng-v)
		if v < 0 {
			l = fmt.Sprintf("SMAP m:0:0 m:%d:%d c:3 m:0:0", -v, -v)
		}
		checkSmapLine(c, l)
		c.count(l)
	}
	for i := 0; i < n && !c.expired(); i++ {
		l := genSmapLine(c.r)
		checkSmapLine(c, l)
		c.count(l)
	}
}

// ---------- C10: the token stream must tile the source ----------

var gapRe = regexp.MustCompile(`^(?:[ \t\r\n]|//[^\n\x00]*)*$`)

var gapBlockRe = regexp.MustCompile(`^(?:[ \t\r\n]|//[^\n\x00]*|/\*[^*\x00]*\*+(?:[^/*\x00][^*\x00]*\*+)*/|/\*(?:[^*\x00]|\*+[^/*\x00])*\**$)*$`)

// tilingPlugin: 0 the plain lexer; 1 a plugin that builds some tokens through the exported NewToken (the token stream
// must be that of the plain lexer); 2 a plugin that consumes block comments itself (they count as gap text)
var tilingPlugin int

func checkTilingPlugins(c *oracleCtx, src string, extra int) {
	for _, p := range []int{1, 2} {
		tilingPlugin = p
		checkTiling(c, src, extra)
	}
	tilingPlugin = 0
}

// checkPluginTokens: a lexer plugin that builds the token for @ # ^ ~ ? with the exported NewToken, exactly as the
// lexer itself does, changes nothing: positions, after-newline flag and leading comments included
func checkPluginTokens(c *oracleCtx, src string, input map[string]any) {
	guard(c, "panic", input, func() {
		lb := lexer.NewBuilder()
		lb.UseTokenInterceptor(newTokenPlugin)
		a, b := lexer.NewBuilder().Build(src), lb.Build(src)
		for i := 0; i <= len(src)+2; i++ {
			x, y := a.NextToken(), b.NextToken()
			if fmt.Sprintf("%#v", x) != fmt.Sprintf("%#v", y) {
				c.violation("plugin-token", fmt.Sprintf("token %d: a plugin that builds the token with NewToken as the lexer does gets %#v, the lexer alone gives %#v", i, y, x), input)
				return
			}
			if x.Type == token.EOF {
				return
			}
		}
	})
}

func checkTiling(c *oracleCtx, src string, extra int) {
	input := map[string]any{"src": hexOf(src), "text": src}
	plugin := tilingPlugin
	gapRe := gapRe
	lb := lexer.NewBuilder()
	switch plugin {
	case 1:
		input["plugin"] = 1
		lb.UseTokenInterceptor(newTokenPlugin)
	case 2:
		input["plugin"] = 2
		lb.UseTokenInterceptor(blockCommentPlugin)
		gapRe = gapBlockRe
	}
	if plugin == 1 {
		checkPluginTokens(c, src, input)
		return
	}
	guard(c, "panic", input, func() {
		l := lb.Build(src)
		var toks []token.Token
		limit := len(src) + 2
		for i := 0; ; i++ {
			if i > limit {
				c.violation("no-eof", "no EOF token after len+2 tokens", input)
				return
			}
			t := l.NextToken()
			toks = append(toks, t)
			if t.Type == token.EOF {
				break
			}
		}
		// line start offsets
		starts := []int{0}
		for i := 0; i < len(src); i++ {
			if src[i] == '\n' {
				starts = append(starts, i+1)
			}
		}
		off := func(p token.Position) int {
			if p.Line < 0 || p.Line >= len(starts) || p.Column < 0 {
				return -1
			}
			o := starts[p.Line] + p.Column
			if o > len(src) || (p.Line+1 < len(starts) && o >= starts[p.Line+1]) {
				return -1
			}
			return o
		}
		prevEnd := 0
		for i, t := range toks {
			so := off(t.Start)
			eo := off(t.End)
			if so < 0 || eo < 0 {
				c.violation("position-outside", fmt.Sprintf("token %d %v has a position outside the source", i, t), input)
				return
			}
			if so < prevEnd {
				c.violation("overlap", fmt.Sprintf("token %d %v starts at offset %d before the previous token's end %d", i, t, so, prevEnd), input)
				return
			}
			gap := src[prevEnd:so]
			if !gapRe.MatchString(gap) {
				c.violation("gap", fmt.Sprintf("bytes %q between tokens %d and %d are neither whitespace nor comment", gap, i-1, i), input)
				return
			}
			if strings.Contains(gap, "\n") != t.AfterNewline && !(plugin == 2 && strings.Contains(gap, "/*")) {
				c.violation("after-newline", fmt.Sprintf("token %d %v: AfterNewline=%v but gap is %q", i, t, t.AfterNewline, gap), input)
				return
			}
			var spanEnd int
			unterminatedLit := token.Type(-1)
			if t.Type == token.ILLEGAL && so < len(src) && (src[so] == '"' || src[so] == '\'' || src[so] == '`') {
				unterminatedLit = token.ILLEGAL // closing delimiter not found (fix cc74d65)
			}
			switch t.Type {
			case token.EOF:
				if so != len(src) || eo != len(src) {
					c.violation("eof-position", fmt.Sprintf("EOF at offset %d..%d, source length %d", so, eo, len(src)), input)
					return
				}
				spanEnd = so
			case token.STRING, token.RAW_STRING, unterminatedLit:
				q := src[so]
				if t.Type == token.ILLEGAL {
					// an unterminated literal: it must run to the end of the input (or to a NUL byte)
					if eo < len(src) && src[eo] != 0 {
						c.violation("string-end", fmt.Sprintf("token %d %v: an unterminated literal must end at the end of the input", i, t), input)
						return
					}
				} else if (t.Type == token.RAW_STRING) != (q == '`') || (t.Type == token.STRING && q != '"' && q != '\'') {
					c.violation("string-start", fmt.Sprintf("token %d %v does not start on a quote", i, t), input)
					return
				}
				if eo < so || (eo == so && len(src) > so+1 && eo != len(src)) && src[eo] != q {
					c.violation("string-end", fmt.Sprintf("token %d %v ends before it starts", i, t), input)
					return
				}
				if eo < len(src) {
					if src[eo] != q && src[eo] != 0 {
						c.violation("string-end", fmt.Sprintf("token %d %v: End is on %q, neither the closing delimiter nor the end of input", i, t, src[eo]), input)
						return
					}
					spanEnd = eo + 1
				} else {
					spanEnd = eo
				}
			case token.IDENT, token.INT, token.FLOAT, token.FUNCTION, token.LET, token.IF, token.ELSE, token.WHILE, token.FOR, token.RETURN, token.TRUE, token.FALSE, token.NULL:
				spanEnd = so + len(t.Literal)
				if spanEnd > len(src) || src[so:spanEnd] != t.Literal {
					c.violation("literal-slice", fmt.Sprintf("token %d %v does not carry the source slice %q", i, t, src[so:min(spanEnd, len(src))]), input)
					return
				}
				if eo != spanEnd {
					c.violation("end-position", fmt.Sprintf("token %d %v: End offset %d, expected %d", i, t, eo, spanEnd), input)
					return
				}
				want, isKw := token.Keywords[t.Literal]
				if (isKw && t.Type != want) || (!isKw && t.Type != token.IDENT && t.Type != token.INT && t.Type != token.FLOAT) {
					c.violation("keyword-class", fmt.Sprintf("token %d %v misclassified", i, t), input)
					return
				}
			default: // operators, delimiters, ILLEGAL: one or two source bytes, End on the last byte
				n := len(t.Literal)
				if t.Type == token.ILLEGAL {
					n = 1
				}
				spanEnd = so + n
				if spanEnd > len(src) || (t.Type != token.ILLEGAL && src[so:spanEnd] != t.Literal) {
					c.violation("literal-slice", fmt.Sprintf("token %d %v does not match the source", i, t), input)
					return
				}
				if eo != spanEnd-1 {
					c.violation("end-position", fmt.Sprintf("token %d %v: End offset %d, expected %d", i, t, eo, spanEnd-1), input)
					return
				}
			}
			prevEnd = spanEnd
		}
		// EOF however often requested
		last := toks[len(toks)-1]
		for k := 0; k < extra; k++ {
			t := l.NextToken()
			if t.Type != token.EOF || t.Start != last.Start || t.End != last.End {
				c.violation("eof-again", fmt.Sprintf("request %d after EOF returned %v, first EOF was %v", k+1, t, last), input)
				return
			}
		}
	})
}

func oracleC10(c *oracleCtx) {
	for _, in := range c.inputs {
		if f := strings.Split(in, " "); f[0] == "LEX" && len(f) == 3 {
			checkTiling(c, unhex(f[1]), 3)
			c.count(in)
		} else if m := recordedInput(in); m != nil {
			if s, ok := m["src"].(string); ok {
				tilingPlugin = recInt(m, "plugin")
				checkTiling(c, unhex(s), 3)
				tilingPlugin = 0
				c.count(s)
			}
		}
	}
	for _, f := range lexFragments {
		checkTiling(c, f, 2)
		checkTilingPlugins(c, f, 2)
		c.count(f)
	}
	for _, f := range []string{"a @ b", "// c\n@ a\n\n# b // t\n~", "x ? y ^ z", "a /* c */ b", "/* x */let y = 1 /* z\nw */  + 2 // t\n/* q */\n3",
		"a /* unterminated", "/**/ /**/x", "a/*c*/\n(b)", "f(/* 1 */a, /* 2 */ b) /* 3 */"} {
		checkTilingPlugins(c, f, 2)
		c.count(f)
	}
	for a := 0; a < 256; a++ {
		checkTiling(c, string([]byte{byte(a)}), 1)
		c.count(fmt.Sprint(a))
	}
	if c.thorough() {
		for a := 0; a < 256 && !c.expired(); a++ {
			for b := 0; b < 256; b++ {
				s := string([]byte{byte(a), byte(b)})
				checkTiling(c, s, 0)
				c.count(s)
			}
		}
	}
	n := c.n(6000, 400000)
	for i := 0; i < n && !c.expired(); i++ {
		var s string
		switch c.r.Intn(4) {
		case 0:
			s = randBytes(c.r, c.r.Intn(30))
		case 1:
			s = randProgramText(c.r)
			if c.r.Intn(2) == 0 {
				s = mutate(c.r, s)
			}
		default:
			s = randFragments(c.r, 1+c.r.Intn(14))
		}
		if c.r.Intn(12) == 0 {
			s = "\ufeff" + s
		}
		checkTiling(c, s, c.r.Intn(4))
		if i%3 == 0 {
			if c.r.Intn(2) == 0 {
				s = strings.ReplaceAll(s, " ", []string{" /* c */ ", "/**/", " /* a\nb */"}[c.r.Intn(3)])
			}
			checkTilingPlugins(c, s, c.r.Intn(4))
		}
		c.count(s)
	}
}
