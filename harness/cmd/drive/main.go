package main

import (
	"bufio"
	"fmt"
	"os"
	"runtime/debug"
)

func main() {
	debug.SetMaxStack(256 << 20) // runaway recursion in a mutated parser fails fast
	if len(os.Args) < 2 {
		fmt.Fprintln(os.Stderr, "usage: drive run|gen|oracle ...")
		os.Exit(2)
	}
	switch os.Args[1] {
	case "run":
		processPrelude()
		in := bufio.NewReaderSize(os.Stdin, 1<<20)
		out := bufio.NewWriterSize(os.Stdout, 1<<20)
		defer out.Flush()
		sc := bufio.NewScanner(in)
		sc.Buffer(make([]byte, 1<<20), 1<<26)
		for sc.Scan() {
			fmt.Fprintln(out, safeStep(sc.Text()))
			out.Flush() // a crash must not lose the results already produced
		}
	default:
		if !extraCommand(os.Args[1], os.Args[2:]) {
			fmt.Fprintln(os.Stderr, "unknown command", os.Args[1])
			os.Exit(2)
		}
	}
}
