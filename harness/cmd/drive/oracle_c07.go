package main

// C07 "Literal values survive transpilation".
//
// For every literal L the programs `x = L;`, `{ { x = L; } }` (so that pretty printing indents the
// statement) and, for a third of the literals, `x = [0, L][1];` are compiled by the real xjs
// (compact and pretty, both always; further pretty options and source-map configurations at
// random). The VALUE of x after running the source program and after running the emitted program in
// goja must be identical: the UTF-16 code units for strings and backtick strings, the IEEE bits
// (Object.is) for numbers; a numeric token must also be emitted with the same text. Without goja:
// the emitted program is valid UTF-8 when the source is, the emitted literal is a well-formed
// literal by the ECMAScript lexical rules (no raw line terminator, no unescaped delimiter inside)
// and nothing but the rest of the statement (`;`, `}`, white space) follows it.
//
// goja is only an evaluator here and never gives a verdict where its answer is not usable (counted
// as oracle-skip:*): a Go panic inside goja (e.g. on "\u{10FFFF}", which it mis-lexes); a source
// program that does not leave a string/number in x (a text that is no ECMAScript literal, such as
// a raw line break in "..." or invalid UTF-8); an octal escape \4x..\7x followed by an octal digit,
// which goja reads as a three-digit escape against the grammar (c07GojaOctalQuirk).
//
// KNOWN CLASSES (decided from the literal text and the configuration alone; witnesses are
// replayed on every run and are expected to fail with exactly these class names)
//
//   string-requote   "\x22"         a quoted string with an escape \xHH / \uHHHH / \u{..} whose code
//                                   point is 0A, 0D, 22 or 5C, or \xHH with HH >= 80, or \u / \u{} in
//                                   D800-DFFF, or a raw " inside '...': the lexer decodes the escape
//                                   and the printer re-quotes with "..." without escaping again
//                                   (predicate litRequote)
//   octal-escape-merge "\7\x35"     (found by this oracle) a quoted string in which a legacy octal escape
//                                   \0 ... \377 that is shorter than its longest form is directly followed
//                                   by an escape \xHH / \uHHHH / \u{..} of a digit 0-7: the decoded raw digit
//                                   extends the octal escape ("\75" is "=", "\0\x35" becomes "\05")
//                                   (predicate c07OctalMerge)
//   backtick-escape  `a\`b`         a backtick string in which a backslash directly precedes a
//                                   backtick (escaped backtick, or escaped backslash before the
//                                   closing backtick): the lexer drops that backslash / reads on
//   trim-in-literal  `a  <LF>b`     PRETTY configurations only: a literal spanning several lines one of
//                                   which ends in a space; the final clean-up of the pretty printer
//                                   trims trailing spaces of every output line (predicate
//                                   srcTrimInLiteral)
//
// Literals the xjs parser rejects are not "accepted programs" and are only counted.

import (
	"fmt"
	"math"
	"os"
	"strings"
	"unicode/utf8"

	"github.com/dop251/goja"
)

func init() { oracles["C07"] = oracleC07 }

// ---------- classes ----------

// c07BacktickEsc: a backtick string in which a backslash is directly followed by a backtick. This is
// the only place where the lexer's reading of a backtick string differs from ECMAScript's.
func c07BacktickEsc(lit string) bool {
	return len(lit) > 0 && lit[0] == '`' && strings.Contains(lit, "\\`")
}

// clsOctalMerge is a class found by this oracle (see KNOWN CLASSES).
const clsOctalMerge = "octal-escape-merge"

// c07DigitEscape: s starts with an escape \xHH, \uHHHH or \u{H..H} (at most six digits, longer ones
// are not decoded by the lexer) whose code point is one of the digits 0-7.
func c07DigitEscape(s string) bool {
	octal := func(v int, ok bool) bool { return ok && v >= '0' && v <= '7' }
	switch {
	case strings.HasPrefix(s, `\x`) && len(s) >= 4:
		return octal(oaHexVal(s[2:4]))
	case strings.HasPrefix(s, `\u{`):
		j := strings.IndexByte(s, '}')
		return j > 3 && j <= 9 && octal(oaHexVal(s[3:j]))
	case strings.HasPrefix(s, `\u`) && len(s) >= 6:
		return octal(oaHexVal(s[2:6]))
	}
	return false
}

// c07OctalMerge: a quoted string in which a legacy octal escape (\0 ... \377) that is shorter than
// the longest form ECMAScript allows for its first digit is directly followed by an escape of a
// digit 0-7: the lexer decodes that escape to the raw digit, which then extends the octal escape.
func c07OctalMerge(lit string) bool {
	if len(lit) < 2 || (lit[0] != '"' && lit[0] != '\'') {
		return false
	}
	isOct := func(c byte) bool { return '0' <= c && c <= '7' }
	for i := 1; i+1 < len(lit); i++ {
		if lit[i] != '\\' {
			continue
		}
		i++
		if !isOct(lit[i]) {
			continue
		}
		room := 2
		if lit[i] >= '4' {
			room = 1
		}
		for room > 0 && i+1 < len(lit) && isOct(lit[i+1]) {
			i++
			room--
		}
		if room > 0 && c07DigitEscape(lit[i+1:]) {
			return true
		}
	}
	return false
}

func c07Class(lit, cfg string) string {
	switch {
	case litRequote(lit):
		return clsRequote
	case !fixedRequote && c07OctalMerge(lit): // repaired by e587178 as well (a decoded digit stays escaped)
		return clsOctalMerge
	case !fixedBacktick && c07BacktickEsc(lit):
		return clsBacktickEsc
	case oaCfgIsPretty(cfg) && srcTrimInLiteral("x = "+lit+";"):
		return clsTrim
	}
	return ""
}

// ---------- the evaluator (goja) ----------

type c07Eval struct {
	vm   *goja.Runtime
	runs int
}

const (
	c07Value    = iota // the program ran and x holds a string or a number: key describes it
	c07JSError         // goja reports an error (syntax error, exception) or x is neither string nor number
	c07Unusable        // goja panicked
)

// run executes prog in sloppy mode with x undefined, a = "A", b = 7 and describes x afterwards.
func (e *c07Eval) run(prog string) (kind int, key string) {
	if e.vm == nil || e.runs > 4000 {
		e.vm, e.runs = goja.New(), 0
	}
	e.runs++
	defer func() {
		if r := recover(); r != nil {
			kind, key = c07Unusable, fmt.Sprint("goja panic: ", r)
			e.vm = nil
		}
	}()
	vm := e.vm
	_ = vm.Set("x", goja.Undefined())
	_ = vm.Set("a", "A")
	_ = vm.Set("b", 7)
	if _, err := vm.RunString(prog); err != nil {
		e.vm = nil
		return c07JSError, oaClip(err.Error(), 120)
	}
	v := vm.Get("x")
	switch t := v.(type) {
	case goja.String:
		var sb strings.Builder
		sb.WriteString("string[")
		for i, n := 0, t.Length(); i < n; i++ {
			if i > 0 {
				sb.WriteByte(' ')
			}
			fmt.Fprintf(&sb, "%04X", t.CharAt(i))
		}
		sb.WriteByte(']')
		return c07Value, sb.String()
	}
	if v != nil {
		switch n := v.Export().(type) {
		case int64:
			return c07Value, fmt.Sprintf("number[%016x %v]", math.Float64bits(float64(n)), float64(n))
		case float64:
			return c07Value, fmt.Sprintf("number[%016x %v]", math.Float64bits(n), n)
		}
	}
	return c07JSError, fmt.Sprintf("x is %v", v)
}

// c07GojaOctalQuirk: the text contains a legacy octal escape \4x ... \7x followed by a third octal
// digit. ECMAScript ends such an escape after two digits ("\471" is "'1"); goja reads three (and
// yields U+0139), so its answer is not usable.
func c07GojaOctalQuirk(s string) bool {
	for i := 0; i+1 < len(s); i++ {
		if s[i] != '\\' {
			continue
		}
		i++
		if s[i] >= '4' && s[i] <= '7' && i+2 < len(s) && s[i+1] >= '0' && s[i+1] <= '7' && s[i+2] >= '0' && s[i+2] <= '7' {
			return true
		}
	}
	return false
}

// ---------- ECMAScript literal scanner (for the structural checks) ----------

// c07ScanLiteral scans the literal starting at s[i] by the ECMAScript lexical rules and returns the
// offset just after it, or a description of why it is malformed.
func c07ScanLiteral(s string, i int) (end int, bad string) {
	if i >= len(s) {
		return i, "no literal"
	}
	q := s[i]
	switch {
	case q == '"' || q == '\'' || q == '`':
		for j := i + 1; j < len(s); j++ {
			switch c := s[j]; {
			case c == '\\':
				j++
				if j+1 < len(s) && s[j] == '\r' && s[j+1] == '\n' {
					j++ // a line continuation may end in CR LF
				}
			case c == q:
				return j + 1, ""
			case (c == '\n' || c == '\r') && q != '`':
				return j, "raw line terminator inside the quoted string"
			}
		}
		return len(s), "literal is not closed"
	case '0' <= q && q <= '9':
		j := i
		for j < len(s) && (oaIsWord(s[j]) || s[j] == '.' || (s[j] == '+' || s[j] == '-') && (s[j-1] == 'e' || s[j-1] == 'E') && !strings.HasPrefix(s[i:], "0x") && !strings.HasPrefix(s[i:], "0X")) {
			j++
		}
		return j, ""
	}
	return i, fmt.Sprintf("starts with %q", q)
}

func c07LitKind(lit string) string {
	switch {
	case lit == "":
		return ""
	case lit[0] == '"' || lit[0] == '\'':
		return "str"
	case lit[0] == '`':
		return "tpl"
	}
	return "num"
}

// ---------- the check ----------

// c07Program builds the program around the literal: 0 plain statement, 1 inside nested blocks,
// 2 as an element of an array literal (selected again by an index).
func c07Program(lit string, variant int) string {
	switch variant {
	case 1:
		return "{\n  {\n    x = " + lit + ";\n  }\n}\n"
	case 2:
		return "x = [0, " + lit + "][1];"
	case 3: // the literal as the object of a property access (needed by seeded/C07-m6)
		return "x = " + lit + " .valueOf();"
	}
	return "x = " + lit + ";"
}

var c07Cfgs = []string{"c", "p:2020:1"}
var c07MoreCfgs = []string{"cm", "p:09:0", "p:-:1", "pm:20202020:0", "p:20:1", "pm:09:1"}

type c07Run struct {
	c    *oracleCtx
	ev   *c07Eval
	seen map[string]bool
}

// check examines one literal in one variant under one configuration. steer: literals of a known
// class are only counted.
func (k *c07Run) check(lit string, variant int, cfg string, steer bool) {
	c := k.c
	cls := c07Class(lit, cfg)
	if cls != "" && steer {
		c.bump("steered-away:" + cls)
		return
	}
	src := c07Program(lit, variant)
	input := map[string]any{"lit": hexOf(lit), "text": lit, "variant": variant, "cfg": cfg, "src": hexOf(src)}
	guard(c, "", input, func() {
		prog, errs := oaParse(src)
		if len(errs) > 0 {
			c.bump("not-accepted")
			if dbgB && variant == 0 && cfg == "c" {
				fmt.Fprintf(os.Stderr, "REJECTED %q\n", lit)
			}
			return
		}
		out := oaCompile(cfg, prog)
		input["output"] = oaClip(out, 300)
		fail := func(what string) { c.violation(cls, what, input) }
		c.bump("checked")

		// the source value
		sk, want := k.ev.run(src)
		if sk == c07Unusable {
			c.bump("oracle-skip:goja-panic-on-source")
		} else if sk == c07JSError {
			c.bump("oracle-skip:source-not-evaluable")
		}
		if dbgB && sk != c07Value && variant == 0 && cfg == "c" {
			fmt.Fprintf(os.Stderr, "SKIP %q: %s\n", lit, want)
		}
		if sk == c07Value {
			switch c07LitKind(lit) {
			case "num":
				if !strings.HasPrefix(want, "number[") {
					sk = c07JSError
				}
			default:
				if !strings.HasPrefix(want, "string[") {
					sk = c07JSError
				}
			}
		}

		// structure of the output, without goja
		structural := false
		if sk == c07Value {
			if utf8.ValidString(src) && !utf8.ValidString(out) {
				fail("the emitted program is not valid UTF-8")
				structural = true
			}
			before, after := byte('='), ";} \n\t"
			if variant == 2 {
				before, after = ',', "][1;} \n\t"
			}
			if variant == 3 {
				after = " .valueOf();}\n\t"
			}
			eq := strings.IndexByte(out, before)
			if eq < 0 || !strings.HasPrefix(strings.TrimLeft(out, "{ \n\t"), "x") {
				fail("the emitted program does not have the shape x = <literal>")
				return
			}
			at := eq + 1
			for at < len(out) && out[at] == ' ' {
				at++
			}
			end, bad := c07ScanLiteral(out, at)
			switch {
			case bad != "":
				fail("emitted literal malformed: " + bad)
				structural = true
			case strings.Trim(out[end:], after) != "" && !(variant == 3 && strings.HasSuffix(out[at:end], ".valueOf") && strings.Trim(out[end:], "();} \n\t") == ""):
				fail(fmt.Sprintf("emitted literal %q is followed by %q (delimiter inside the literal not escaped)", oaClip(out[at:end], 80), oaClip(out[end:], 40)))
				structural = true
			default:
				em := out[at:end]
				if variant == 3 { // the scanner takes `.valueOf` behind a radix-prefixed literal for part of the number
					em = strings.TrimSuffix(em, ".valueOf")
				}
				sq, eq2 := c07LitKind(lit), c07LitKind(em)
				if sq != eq2 {
					fail(fmt.Sprintf("a %s literal is emitted as %q", sq, oaClip(em, 80)))
					structural = true
				} else if sq == "num" && em != lit {
					fail(fmt.Sprintf("numeric token %s is emitted as %s", lit, em))
					structural = true
				}
			}
		}
		if sk != c07Value {
			return
		}

		// the emitted value
		if c07GojaOctalQuirk(src) || c07GojaOctalQuirk(out) {
			c.bump("oracle-skip:goja-octal-quirk")
			return
		}
		ek, got := k.ev.run(out)
		switch {
		case ek == c07Unusable:
			c.bump("oracle-skip:goja-panic-on-output")
		case ek == c07JSError:
			if !structural {
				fail("the emitted program does not evaluate: " + got + "; the source gives " + oaClip(want, 120))
			}
		case got != want:
			if !structural {
				fail(fmt.Sprintf("value changed: source %s, emitted %s", oaClip(want, 200), oaClip(got, 200)))
			}
		}
	})
}

// lit checks a literal in both variants under the standard configurations (plus extra ones).
func (k *c07Run) lit(lit string, steer bool, extra ...string) {
	k.c.count(lit)
	variants := 2
	if len(lit)%3 == 0 {
		variants = 3
	}
	for variant := 0; variant < variants; variant++ {
		for _, cfg := range c07Cfgs {
			k.check(lit, variant, cfg, steer)
		}
		for _, cfg := range extra {
			k.check(lit, variant, cfg, steer)
		}
	}
	if c07LitKind(lit) == "num" || len(lit)%5 == 0 {
		for _, cfg := range c07Cfgs {
			k.check(lit, 3, cfg, steer)
		}
	}
	// the other way to text: debug.ToString
	k.check(lit, 0, "dbg", steer)
	// the literal as a property key: it names the same property before and after
	if len(lit)%2 == 0 || c07LitKind(lit) == "num" {
		k.keyCheck(lit, c07Cfgs[len(lit)%len(c07Cfgs)], steer)
	}
}

// keyCheck: `{<lit>: 1}` has the same single key in the source and in the emitted program
func (k *c07Run) keyCheck(lit string, cfg string, steer bool) {
	c := k.c
	if strings.HasPrefix(lit, "`") {
		return // a template literal is no property key
	}
	cls := c07Class(lit, cfg)
	if cls != "" && steer {
		return
	}
	src := "x = Object.keys({" + lit + ": 1})[0];"
	input := map[string]any{"lit": hexOf(lit), "text": lit, "variant": "key", "cfg": cfg, "src": hexOf(src)}
	guard(c, "", input, func() {
		prog, errs := oaParse(src)
		if len(errs) > 0 {
			return
		}
		out := oaCompile(cfg, prog)
		input["output"] = oaClip(out, 300)
		sk, want := k.ev.run(src)
		if sk != c07Value || !strings.HasPrefix(want, "string[") || c07GojaOctalQuirk(src) || c07GojaOctalQuirk(out) {
			return
		}
		c.bump("keys-checked")
		ek, got := k.ev.run(out)
		switch {
		case ek == c07Unusable:
		case ek == c07JSError:
			c.violation(cls, "with the literal as a property key the emitted program does not evaluate: "+got+"; the source gives "+oaClip(want, 120), input)
		case got != want:
			c.violation(cls, fmt.Sprintf("property key changed: source %s, emitted %s", oaClip(want, 200), oaClip(got, 200)), input)
		}
	})
}

func (k *c07Run) extraCfg() []string {
	if k.c.r.Intn(4) != 0 {
		return nil
	}
	return []string{c07MoreCfgs[k.c.r.Intn(len(c07MoreCfgs))]}
}

// ---------- generators ----------

func c07Quote(q byte, body string) string { return string(q) + body + string(q) }

// c07U builds a text from code points; c07E writes a four-digit unicode escape
func c07U(cps ...int) string {
	var sb strings.Builder
	for _, cp := range cps {
		sb.WriteRune(rune(cp))
	}
	return sb.String()
}

func c07E(hex4 string) string { return "\\u" + hex4 }

const c07Hex = "0123456789abcdefABCDEF"

func (k *c07Run) hexDigits(v, width int, upper bool) string {
	s := fmt.Sprintf("%0*x", width, v)
	if upper {
		s = strings.ToUpper(s)
	}
	return s
}

var c07Plain = []string{"a", "b", "Z", "0", "9", " ", "  ", "!", "#", "$", "%", "&", "(", ")", "*", "+", ",", "-", ".", "/", ":", ";", "<", "=", ">", "?", "@", "[", "]", "^", "_", "{", "}", "|", "~", "\t", "x41", "u00" + "41", "n", "//", "/*", "${a}"}
var c07Simple = []string{`\n`, `\t`, `\r`, `\b`, `\f`, `\v`, `\0`, `\\`, `\'`, `\"`, "\\`"}
var c07Identity = []string{`\d`, `\/`, `\a`, `\q`, `\-`, `\ `, `\$`, `\e`, `\c`, `\(`, `\8`, `\9`, `\~`, `\z`, `\N`, `\U`, `\X`}
var c07Octal = []string{`\1`, `\7`, `\12`, `\101`, `\377`, `\400`, `\08`, `\00`, `\18`, `\0\x38`, `\0\x39`, `\7\x38`, `\377\x31`, `\47\x31`, `\8\x31`, `\0\x61`, `\0` + "\\u00" + `39`, `\1\u{38}`, `\x31\x32`, `\x30`}
var c07Cont = []string{"\\\n", "\\\r\n", "\\\r", "\\" + c07U(0x2028), "\\" + c07U(0x2029)}
var c07NonASCII = []string{c07U(0xe9), c07U(0xdf), c07U(0xf1), c07U(0x3a9), c07U(0x436), c07U(0x4e2d), c07U(0x65e5, 0x672c), c07U(0x20ac), c07U(0x1f600), c07U(0x1d4b3), c07U(0x2028), c07U(0x85), c07U(0x2029), c07U(0xa0), c07U(0xfeff), c07U(0x200b), c07U(0xffff), c07U(0x10ffff), c07U(0x80), c07U(0x7ff), c07U(0x800), c07U(0x65, 0x301)}

// piece gives one random element of a quoted string body
func (k *c07Run) piece() string {
	r := k.c.r
	switch w := r.Intn(100); {
	case w < 30:
		return c07Plain[r.Intn(len(c07Plain))]
	case w < 42:
		return c07Simple[r.Intn(len(c07Simple))]
	case w < 50:
		return c07Identity[r.Intn(len(c07Identity))]
	case w < 54:
		return c07Octal[r.Intn(len(c07Octal))]
	case w < 60:
		return c07Cont[r.Intn(len(c07Cont))]
	case w < 70:
		return c07NonASCII[r.Intn(len(c07NonASCII))]
	case w < 78:
		return `\x` + k.hexDigits(r.Intn(128), 2, r.Intn(2) == 0)
	case w < 80:
		return `\x` + k.hexDigits(r.Intn(256), 2, r.Intn(2) == 0)
	case w < 90:
		return `\u` + k.hexDigits(k.codeUnit(), 4, r.Intn(2) == 0)
	case w < 97:
		return k.braced(k.codePoint())
	case w < 98:
		return "'"
	case w < 99:
		return "\""
	}
	return string(rune(0x20 + r.Intn(0x5f)))
}

func (k *c07Run) codeUnit() int {
	r := k.c.r
	switch r.Intn(6) {
	case 0:
		return r.Intn(0x80)
	case 1:
		return 0x80 + r.Intn(0x780)
	case 2:
		return []int{0x0a, 0x0d, 0x22, 0x27, 0x5c, 0x60, 0x2028, 0x2029, 0xfeff, 0xd7ff, 0xe000, 0xffff, 0xfffe, 0xd800, 0xdfff, 0x7f, 0x80, 0x7ff, 0x800, 0}[r.Intn(20)]
	}
	return r.Intn(0x10000)
}

func (k *c07Run) codePoint() int {
	r := k.c.r
	switch r.Intn(5) {
	case 0:
		return k.codeUnit()
	case 1:
		return 0x10000 + r.Intn(0x100000)
	case 2:
		return []int{0x10000, 0x10ffff, 0x10fffe, 0x1f600, 0xffff, 0x1ffff, 0x20000, 0xfffff, 0x100000}[r.Intn(9)]
	}
	return r.Intn(0x110000)
}

// braced writes \u{...} with a random number of leading zeros and random digit case
func (k *c07Run) braced(v int) string {
	r := k.c.r
	s := fmt.Sprintf("%x", v)
	if r.Intn(2) == 0 {
		s = strings.ToUpper(s)
	}
	if r.Intn(3) == 0 {
		s = strings.Repeat("0", r.Intn(4)) + s
	}
	return `\u{` + s + `}`
}

func (k *c07Run) quoteChar() byte {
	if k.c.r.Intn(2) == 0 {
		return '\''
	}
	return '"'
}

var c07TplPieces = []string{"a", "b", "xyz", "0", " ", "  ", "\t", "\n", "\n\n", " \n", "   \n", "\t\n", "\n  ", "\r\n", "\\`", "\\\\", "\\\\\\`", `\n`, `\t`, `\$`, `\{`, "${a}", "${a+b}", "${b*2}", "$", "{", "}", "$a", "\"", "'", c07E("0041"), `\x41`, `\u{1F600}`, `\0`, "\\\n", c07U(0xe9), c07U(0x4e2d), c07U(0x1f600), c07U(0x2028), "//", "/*", ";", "x = 1;"}

func (k *c07Run) tplBody(n int) string {
	var sb strings.Builder
	for i := 0; i < n; i++ {
		sb.WriteString(c07TplPieces[k.c.r.Intn(len(c07TplPieces))])
	}
	return sb.String()
}

func (k *c07Run) digits(n int, set string) string {
	b := make([]byte, n)
	for i := range b {
		b[i] = set[k.c.r.Intn(len(set))]
	}
	return string(b)
}

// number gives a numeric literal of a random shape with random digits
func (k *c07Run) number() string {
	r := k.c.r
	dec := "0123456789"
	nz := func() string { return string(dec[1+r.Intn(9)]) }
	switch r.Intn(16) {
	case 0:
		return nz() + k.digits(r.Intn(9), dec)
	case 1: // big integers around and beyond 2^53
		return []string{"9007199254740991", "9007199254740992", "9007199254740993", "18446744073709551615", "18446744073709551616"}[r.Intn(5)]
	case 2:
		return nz() + k.digits(15+r.Intn(5), dec)
	case 3: // leading zeros: legacy octal or decimal
		return "0" + k.digits(1+r.Intn(6), "01234567")
	case 4:
		return "0" + k.digits(1+r.Intn(6), dec)
	case 5:
		return []string{"0x", "0X"}[r.Intn(2)] + k.digits(1+r.Intn(14), c07Hex)
	case 6:
		return []string{"0b", "0B"}[r.Intn(2)] + k.digits(1+r.Intn(60), "01")
	case 7:
		return []string{"0o", "0O"}[r.Intn(2)] + k.digits(1+r.Intn(20), "01234567")
	case 8:
		return k.digits(1+r.Intn(4), dec) + "." + k.digits(1+r.Intn(18), dec)
	case 9:
		return nz() + k.digits(r.Intn(3), dec) + []string{"e", "E"}[r.Intn(2)] + k.digits(1+r.Intn(3), dec)
	case 10:
		return nz() + []string{"e+", "E+", "e-", "E-"}[r.Intn(4)] + k.digits(1+r.Intn(3), dec)
	case 11:
		return nz() + "." + k.digits(1+r.Intn(6), dec) + []string{"e", "E", "e-", "E+", "e+", "E-"}[r.Intn(6)] + k.digits(1+r.Intn(3), dec)
	case 12:
		return "0." + k.digits(r.Intn(8), "0") + k.digits(1+r.Intn(17), dec)
	case 13:
		return nz() + ".0" + k.digits(r.Intn(3), "0")
	case 14:
		return "0" + []string{"e0", "E5", ".0", ".0e1", "e-1"}[r.Intn(5)]
	}
	return nz() + k.digits(r.Intn(3), dec) + "e" + []string{"21", "22", "308", "309", "400", "-323", "-324", "-325", "-400"}[r.Intn(9)]
}

var c07FixedNumbers = []string{"0", "7", "42", "007", "0777", "08", "09", "089", "00", "0x1F", "0XaB", "0xdeadBEEF", "0x0", "0b101", "0B11", "0b0", "0o17", "0O7", "0o0",
	"1e5", "1E+5", "1e-5", "2.5e-3", "1.0", "0.0", "0.5", "10.50", "9007199254740993", "123456789012345678901234567890", "1e21", "1e400", "5e-324", "1e-400",
	"1.7976931348623157e308", "1.7976931348623159e308", "0.1", "0.30000000000000004", "4.35", "0.000001", "0.0000001", "1e0", "0e0", "0x7fffffffffffffff", "0xffffffffffffffffff",
	"0b11111111111111111111111111111111111111111111111111111", "0o777777777777777777777", "2147483648", "4294967296",
	// shapes that are no ECMAScript literals or that the parser rejects: counted only
	"1e", "0x", "0b", "0o", "0b102", "1_000", "10n", "1.", "000.5", "1e+", "0xg"}

// ---------- the oracle ----------

func oracleC07(c *oracleCtx) {
	k := &c07Run{c: c, ev: &c07Eval{}, seen: map[string]bool{}}

	// recorded inputs and op lines
	for _, in := range c.inputs {
		if m := recordedInput(in); m != nil {
			if h := oaStr(m, "writer-api-text"); h != "" {
				checkWriterAPI(c, "writer-api", []string{unhex(h)})
				continue
			}
			if h := oaStr(m, "lit"); h != "" {
				func() {
					defer func() { _ = recover() }()
					lit := unhex(h)
					c.count(lit)
					cfg := oaStr(m, "cfg")
					if cfg == "" {
						k.lit(lit, false)
						return
					}
					if v, ok := m["variant"].(string); ok && v == "key" {
						k.keyCheck(lit, cfg, false)
						return
					}
					k.check(lit, recInt(m, "variant"), cfg, false)
				}()
			}
			continue
		}
		if src, cfg, _, ok := oaInputSource(in); ok && src != "" {
			for _, t := range oaScan(src) {
				if (t.kind == "str" || t.kind == "tpl" || t.kind == "num") && !t.open && !k.seen[t.text] {
					k.seen[t.text] = true
					if cfg != "" && cfg != "c" && cfg != "p:2020:1" {
						k.lit(t.text, false, cfg)
					} else {
						k.lit(t.text, false)
					}
				}
			}
		}
	}
	if c.tier == "replay" {
		return
	}

	r := c.r
	quotes := []byte{'"', '\''}

	// quoted property keys that look like names or numbers: `{"10": 1}` and `{10: 1}` name the same property, but a bare
	// number names the property of its canonical text — beyond 2^53, with leading zeros, exponents, radix prefixes, signs
	for _, body := range []string{"name", "a1", "$", "_x", "if", "10", "0", "007", "010", "9007199254740991", "9007199254740993", "1234567890123456789",
		"1000000000000000000000", "123456789012345678901234567890", "1e3", "1E21", "0x10", "0b11", "1.50", ".5", "5.", "-1", "+1", "1_000", " 1", "1 ", "Infinity", "NaN",
		"a-b", "a b", "", "\u0031", "\x31\x30", "ßx", "日本"} {
		for _, q := range quotes {
			for _, cfg := range []string{"c", "p:2020:1", "p:09:0", "pm:20202020:1"} {
				k.keyCheck(c07Quote(q, body), cfg, false)
			}
		}
	}

	// every \xHH, both quote styles, both digit cases; alone and between text
	for v := 0; v < 256 && !c.expired(); v++ {
		for _, q := range quotes {
			for _, up := range []bool{false, true} {
				e := `\x` + k.hexDigits(v, 2, up)
				k.lit(c07Quote(q, e), true)
				if v%8 == int(q)%8 {
					k.lit(c07Quote(q, "a"+e+"n"), true)
				}
			}
		}
	}
	// \uHHHH: all of them (thorough) or a stride plus the boundaries
	stride := c.n(53, 1)
	off := r.Intn(stride)
	for v := 0; v < 0x10000 && !c.expired(); v++ {
		edge := v < 0x100 || v >= 0xd7f0 && v < 0xd810 || v >= 0xdbf0 && v < 0xdc10 || v >= 0xdff0 && v < 0xe010 || v >= 0x2020 && v < 0x2030 || v >= 0xfff0 || v == 0xfeff
		if !edge && v%stride != off {
			continue
		}
		q := quotes[(v/stride+v)%2]
		k.lit(c07Quote(q, `\u`+k.hexDigits(v, 4, v%3 == 0)), true)
		if edge {
			k.lit(c07Quote(quotes[0]+quotes[1]-q, `\u`+k.hexDigits(v, 4, v%3 != 0)), true)
		}
	}
	// \u{H..H}
	for _, v := range []int{0, 1, 9, 0x0a, 0x0d, 0x22, 0x27, 0x5c, 0x60, 0x41, 0x7f, 0x80, 0xff, 0x100, 0x7ff, 0x800, 0x2028, 0x2029, 0xd7ff, 0xd800, 0xdbff, 0xdc00, 0xdfff, 0xe000, 0xfeff, 0xfffe, 0xffff, 0x10000, 0x1f600, 0xfffff, 0x100000, 0x10fffe, 0x10ffff, 0x110000, 0xffffff} {
		for _, q := range quotes {
			k.lit(c07Quote(q, fmt.Sprintf(`\u{%x}`, v)), true)
			k.lit(c07Quote(q, fmt.Sprintf(`\u{%06X}`, v)), true)
			k.lit(c07Quote(q, fmt.Sprintf(`a\u{000%X}b`, v)), true)
		}
	}
	for i, n := 0, c.n(700, 60000); i < n && !c.expired(); i++ {
		k.lit(c07Quote(k.quoteChar(), k.braced(k.codePoint())), true)
	}
	// every ASCII byte raw and backslash-escaped (and every other byte too), both quote styles
	for v := 0; v < 256 && !c.expired(); v++ {
		for _, q := range quotes {
			k.lit(c07Quote(q, string([]byte{byte(v)})), true)
			k.lit(c07Quote(q, string([]byte{'\\', byte(v)})), true)
			k.lit(c07Quote(q, string([]byte{'a', byte(v), 'b'})), true)
			k.lit(c07Quote(q, string([]byte{'a', '\\', byte(v), '1'})), true)
		}
	}
	// non-ASCII text, line continuations, octal and identity escapes
	for _, set := range [][]string{c07NonASCII, c07Cont, c07Octal, c07Identity, c07Simple} {
		for _, p := range set {
			for _, q := range quotes {
				k.lit(c07Quote(q, p), true, "p:09:0")
				k.lit(c07Quote(q, "a "+p+" b"), true)
				k.lit(c07Quote(q, p+p), true)
			}
		}
	}
	// literals printed by a plugin node through the exported writer methods
	checkWriterAPI(c, "writer-api", writerAPITexts)
	// pairs: what one element denotes must not depend on its neighbour (an escape followed by a digit or a letter that
	// would extend it, with or without a value-less line continuation in between)
	heads := []string{`\0`, `\1`, `\12`, `\x5c`, `\\`, `\u005C`, `\u{5c}`, `\x0`, `\u00`, `\u{4`, `\`}
	tails := []string{"0", "1", "7", "8", "n", "x41", "u0041", "u{41}", "\"", "'", `\x31`, `\u0037`, `\u{37}`, "}", "\n"}
	for _, h := range heads {
		for _, t := range tails {
			for _, mid := range []string{"", "\\\n", "\\\r\n", "\\\n\\\n"} {
				for _, q := range quotes {
					if strings.Contains(t, string(q)) || t == "\n" && mid == "" && h == `\` {
						continue
					}
					k.lit(c07Quote(q, h+mid+t), true)
					k.lit(c07Quote(q, "a"+h+mid+t+"b"), true)
				}
			}
		}
	}
	// random concatenations
	for i, n := 0, c.n(3500, 400000); i < n && !c.expired(); i++ {
		lit := ""
		for try := 0; try < 6; try++ {
			var sb strings.Builder
			q := k.quoteChar()
			for j, m := 0, 1+r.Intn(7); j < m; j++ {
				p := k.piece()
				if len(p) == 1 && p[0] == q {
					p = "\\" + p
				}
				sb.WriteString(p)
			}
			lit = c07Quote(q, sb.String())
			if c07Class(lit, "c") == "" {
				break
			}
		}
		k.lit(lit, true, k.extraCfg()...)
	}
	// backtick strings
	for _, body := range []string{"", "a", "a\nb", "a\n\nb", "\n", "\na\n", "a \nb", "a  \n  b", "  \n", "a\n   \nb", "a\t\nb", "a\r\nb", "a \r\nb", "a\\`b", "\\`", "a\\\\", "\\\\", "\\\\`", "a\\\\\\`b",
		"${a}", "a${a}b", "${a+b}", "$", "${", "$a", "{a}", `\n`, `a\tb`, c07E("0041"), `\x41`, `\u{1F600}`, `\0`, "a\\\nb", "\"", "'", "\"'", c07U(0xe9, 0x4e2d, 0x1f600), "a" + c07U(0x2028) + "b", "line1\nline2  \nline3\n", "col1   \ncol2 \n  col3", "x = 1; // c\ny"} {
		k.lit("`"+body+"`", true, "p:09:0", "cm")
	}
	for i, n := 0, c.n(2500, 200000); i < n && !c.expired(); i++ {
		lit := ""
		for try := 0; try < 4; try++ {
			if lit = "`" + k.tplBody(1+r.Intn(6)) + "`"; c07Class(lit, "c") == "" {
				break
			}
		}
		k.lit(lit, true, k.extraCfg()...)
	}
	// numeric literals
	for _, s := range c07FixedNumbers {
		k.lit(s, true, "p:09:0", "cm")
	}
	for i, n := 0, c.n(2500, 200000); i < n && !c.expired(); i++ {
		k.lit(k.number(), true, k.extraCfg()...)
	}

	c07Witnesses(k)
}

// c07Witnesses replays the witnesses of the known classes (they fail on the current tree).
func c07Witnesses(k *c07Run) {
	for _, lit := range []string{
		// string-requote
		`"\x22"`, `"\x0a"`, `"\x0D"`, `"\x5cn"`, `"\xe9"`, `"` + c07E("000a") + `"`, `"` + c07E("0022") + `"`, `"` + c07E("005c") + `"`, `"` + c07E("d83d") + c07E("de00") + `"`, `"\u{a}"`, `"\u{22}"`, `"\u{D800}"`, `'a"b'`, `'\x22'`,
		// octal-escape-merge
		`"\7\x35"`, `"\0\x35"`, `'\12\u{31}'`, `"\1` + c07E("0030") + `"`,
		// backtick-escape
		"`a\\`b`", "`\\``", "`a\\\\`",
	} {
		k.lit(lit, false)
	}
	// trim-in-literal (pretty configurations only)
	for _, lit := range []string{"`a  \n  b`", "`a\n   \nb`", "`col1   \ncol2 \n  col3`"} {
		k.c.count(lit)
		for variant := 0; variant < 2; variant++ {
			k.check(lit, variant, "p:2020:1", false)
			k.check(lit, variant, "p:09:0", false)
		}
	}
}
