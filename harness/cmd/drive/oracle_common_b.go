package main

// Helpers shared by the oracles C04 C05 C08 C11 C13 C14 C15 C16.

import (
	"fmt"
	"math/rand"
	"os"
	"reflect"
	"strings"

	"github.com/xjslang/xjs/ast"
	"github.com/xjslang/xjs/lexer"
	"github.com/xjslang/xjs/parser"
	"github.com/xjslang/xjs/token"
	"xjsverif/internal/jsgen"
)

// lexAllB lexes src with a fresh plain lexer; the EOF token is included.
func lexAllB(src string) []token.Token {
	l := lexer.NewBuilder().Build(src)
	var toks []token.Token
	for i := 0; i <= len(src)+2; i++ {
		t := l.NextToken()
		toks = append(toks, t)
		if t.Type == token.EOF {
			break
		}
	}
	return toks
}

type plainParse struct {
	prog *ast.Program
	err  error
	errs []parser.ParserError
	p    *parser.Parser
}

// parseB parses with a plain builder; flags may contain t (tolerant) and s (smart semicolons).
func parseB(flags, src string) plainParse {
	pb := parser.NewBuilder(lexer.NewBuilder())
	if strings.Contains(flags, "t") {
		pb.WithTolerantMode(true)
	}
	if strings.Contains(flags, "s") {
		pb.WithSmartSemicolon(true)
	}
	p := pb.Build(src)
	prog, err := p.ParseProgram()
	return plainParse{prog: prog, err: err, errs: p.Errors(), p: p}
}

func errsStrB(errs []parser.ParserError) string {
	parts := make([]string, len(errs))
	for i, e := range errs {
		parts[i] = errStr(e)
	}
	return listStr(parts)
}

func errsTextB(errs []parser.ParserError) string {
	parts := make([]string, len(errs))
	for i, e := range errs {
		parts[i] = fmt.Sprintf("%s@%d:%d", e.Message, e.Range.Start.Line, e.Range.Start.Column)
	}
	return strings.Join(parts, "; ")
}

// hasBareCR: the input uses CR not followed by LF
func hasBareCR(s string) bool {
	for i := 0; i < len(s); i++ {
		if s[i] == '\r' && (i+1 >= len(s) || s[i+1] != '\n') {
			return true
		}
	}
	return false
}

// opLineInput is what an op line or a recorded input contributes to an oracle
type opLineInput struct {
	kind  string // PARSE PRINT PRINTT BUILD rec
	src   string
	flags string
	cfg   string
	setup parseSetup
	sexp  string
	line  string
	rec   map[string]any
}

func readInputsB(c *oracleCtx) []opLineInput {
	var out []opLineInput
	for _, in := range c.inputs {
		func() {
			defer func() { _ = recover() }()
			f := strings.Split(in, " ")
			switch {
			case f[0] == "PARSE" && len(f) == 7:
				out = append(out, opLineInput{kind: "PARSE", src: unhex(f[6]), flags: f[1], setup: parseSetupOf(f[1], f[2], f[3], f[4], f[5]), line: in})
			case f[0] == "PRINT" && len(f) == 3:
				out = append(out, opLineInput{kind: "PRINT", cfg: f[1], src: unhex(f[2]), line: in})
			case f[0] == "PRINTT" && len(f) >= 3:
				out = append(out, opLineInput{kind: "PRINTT", cfg: f[1], sexp: strings.Join(f[2:], " "), line: in})
			case f[0] == "BUILD":
				out = append(out, opLineInput{kind: "BUILD", line: in})
			default:
				if m := recordedInput(in); m != nil {
					o := opLineInput{kind: "rec", rec: m, line: in}
					if s, ok := m["src"].(string); ok {
						o.src = unhex(s)
					}
					if s, ok := m["flags"].(string); ok {
						o.flags = s
					}
					if s, ok := m["cfg"].(string); ok {
						o.cfg = s
					}
					out = append(out, o)
				}
			}
		}()
	}
	return out
}

func recStr(m map[string]any, k string) string {
	if s, ok := m[k].(string); ok {
		return s
	}
	return ""
}

func recInt(m map[string]any, k string) int {
	switch v := m[k].(type) {
	case float64:
		return int(v)
	case int:
		return v
	}
	return 0
}

func srcInput(src string) map[string]any {
	return map[string]any{"src": hexOf(src), "text": src}
}

// modeFlags are the four mode combinations
var modeFlags = []string{"-", "t", "s", "ts"}

// allCompileCfgs: {compact, pretty x indent {tab,"",2,4 spaces} x semi{on,off}} x {map, no map}
var allCompileCfgs = func() []string {
	var out []string
	for _, m := range []string{"", "m"} {
		out = append(out, "c"+m)
		for _, ind := range []string{"09", "-", "2020", "20202020"} {
			for _, semi := range []string{"1", "0"} {
				out = append(out, "p"+m+":"+ind+":"+semi)
			}
		}
	}
	return out
}()

// isNilB: nil interface or typed-nil pointer
func isNilB(x any) bool {
	if x == nil {
		return true
	}
	v := reflect.ValueOf(x)
	switch v.Kind() {
	case reflect.Ptr, reflect.Map, reflect.Slice, reflect.Func, reflect.Interface:
		return v.IsNil()
	}
	return false
}

// astVisitor walks an xjs AST; nil children are skipped. Callbacks may be nil.
type astVisitor struct {
	stmt     func(s ast.Statement, depthPath []string)
	expr     func(e ast.Expression, depthPath []string)
	stmtList func(owner string, ss []ast.Statement)
	// enter/leave of constructs that change the parsing context
	enterBlock func(b *ast.BlockStatement)
	leaveBlock func(b *ast.BlockStatement)
	enterFn    func(body *ast.BlockStatement)
	leaveFn    func(body *ast.BlockStatement)
}

func (v *astVisitor) program(p *ast.Program) {
	if v.stmtList != nil {
		v.stmtList("program", p.Statements)
	}
	for _, s := range p.Statements {
		v.walkStmt(s)
	}
}

// block walks a block; a function body is not reported through the stmt callback
func (v *astVisitor) block(b *ast.BlockStatement, isBody bool) {
	if b == nil {
		return
	}
	if v.stmt != nil && !isBody {
		v.stmt(b, nil)
	}
	if v.enterBlock != nil {
		v.enterBlock(b)
	}
	if v.stmtList != nil {
		v.stmtList("block", b.Statements)
	}
	for _, s := range b.Statements {
		v.walkStmt(s)
	}
	if v.leaveBlock != nil {
		v.leaveBlock(b)
	}
}

func (v *astVisitor) fnBody(b *ast.BlockStatement) {
	if b == nil {
		return
	}
	if v.enterFn != nil {
		v.enterFn(b)
	}
	v.block(b, true)
	if v.leaveFn != nil {
		v.leaveFn(b)
	}
}

func (v *astVisitor) walkStmt(s ast.Statement) {
	if isNilB(s) {
		return
	}
	if b, ok := s.(*ast.BlockStatement); ok {
		v.block(b, false)
		return
	}
	if v.stmt != nil {
		v.stmt(s, nil)
	}
	switch n := s.(type) {
	case *ast.LetStatement:
		if n.Name != nil {
			v.walkExpr(n.Name)
		}
		v.walkExpr(n.Value)
	case *ast.ReturnStatement:
		v.walkExpr(n.ReturnValue)
	case *ast.ExpressionStatement:
		v.walkExpr(n.Expression)
	case *ast.FunctionDeclaration:
		if n.Name != nil {
			v.walkExpr(n.Name)
		}
		for _, p := range n.Parameters {
			if p != nil {
				v.walkExpr(p)
			}
		}
		v.fnBody(n.Body)
	case *ast.IfStatement:
		v.walkExpr(n.Condition)
		v.walkStmt(n.ThenBranch)
		v.walkStmt(n.ElseBranch)
	case *ast.WhileStatement:
		v.walkExpr(n.Condition)
		v.walkStmt(n.Body)
	case *ast.ForStatement:
		v.walkExpr(n.Init)
		v.walkExpr(n.Condition)
		v.walkExpr(n.Update)
		v.walkStmt(n.Body)
	}
}

func (v *astVisitor) walkExpr(e ast.Expression) {
	if isNilB(e) {
		return
	}
	if v.expr != nil {
		v.expr(e, nil)
	}
	switch n := e.(type) {
	case *ast.LetExpression:
		if n.Name != nil {
			v.walkExpr(n.Name)
		}
		v.walkExpr(n.Value)
	case *ast.BinaryExpression:
		v.walkExpr(n.Left)
		v.walkExpr(n.Right)
	case *ast.UnaryExpression:
		v.walkExpr(n.Right)
	case *ast.PostfixExpression:
		v.walkExpr(n.Left)
	case *ast.GroupedExpression:
		v.walkExpr(n.Expression)
	case *ast.CallExpression:
		v.walkExpr(n.Function)
		for _, a := range n.Arguments {
			v.walkExpr(a)
		}
	case *ast.MemberExpression:
		v.walkExpr(n.Object)
		v.walkExpr(n.Property)
	case *ast.AssignmentExpression:
		v.walkExpr(n.Left)
		v.walkExpr(n.Value)
	case *ast.CompoundAssignmentExpression:
		v.walkExpr(n.Left)
		v.walkExpr(n.Value)
	case *ast.FunctionExpression:
		if n.Name != nil {
			v.walkExpr(n.Name)
		}
		for _, p := range n.Parameters {
			if p != nil {
				v.walkExpr(p)
			}
		}
		v.fnBody(n.Body)
	case *ast.ArrayLiteral:
		for _, a := range n.Elements {
			v.walkExpr(a)
		}
	case *ast.ObjectLiteral:
		for _, p := range n.Properties {
			v.walkExpr(p.Key)
			v.walkExpr(p.Value)
		}
	}
}

// randValidText: a jsgen program in a random layout
func randValidText(r *rand.Rand, depth, stmts int, l jsgen.Layout) (string, *jsgen.Node) {
	o := jsgen.GenOptions{MaxDepth: 1 + r.Intn(depth), MaxStmts: 1 + r.Intn(stmts), Executable: r.Intn(5) == 0}
	n := jsgen.GenProgram(r, o)
	return jsgen.Render(n, r, l), n
}

func shortB(s string, n int) string {
	if len(s) > n {
		return s[:n] + "..."
	}
	return s
}

// firstDiff gives a short description of where two strings start to differ
func firstDiff(a, b string) string {
	i := 0
	for i < len(a) && i < len(b) && a[i] == b[i] {
		i++
	}
	lo := max(0, i-30)
	return fmt.Sprintf("at byte %d: %q vs %q", i, shortB(a[lo:], 90), shortB(b[lo:], 90))
}

// posKey of a token start
func posKey(p token.Position) string { return fmt.Sprintf("%d:%d", p.Line, p.Column) }

// dbgB enables diagnostics on stderr (XJS_ORACLE_DEBUG=1)
var dbgB = os.Getenv("XJS_ORACLE_DEBUG") != ""
