package main

// Histories on one parser.Builder (model-free): a parser built after any sequence of registrations, mode switches and
// earlier builds must be the parser a fresh builder gives on which the same registrations and mode switches were made
// without the earlier builds. Used by the oracles of the properties that speak about modes (C13), isolation (C14)
// and registration (C05) to turn a broken BUILD correspondence into a concrete failing history.

import (
	"fmt"
	"strings"
)

var historySources = []string{"let x = 1 let y = 2", "f\n(g)", "a = b\n[c].d", "if (a) { b", "a = 1 b = 2", "x = a\n(b)(c)\n", "a + b"}

// oaBuildHistory checks one BUILD op line; returns false when it found a violation
func oaBuildHistory(c *oracleCtx, class, line string) bool {
	ops := strings.Split(line, " ")
	if len(ops) < 2 || ops[0] != "BUILD" {
		return true
	}
	ops = ops[1:]
	ok := true
	guard(c, class, map[string]any{"history": line}, func() {
		outs := doBuildOuts(ops)
		var setup []string
		for i, op := range ops {
			if !strings.HasPrefix(op, "B:") {
				setup = append(setup, op)
				continue
			}
			fresh := doBuildOuts(append(append([]string{}, setup...), op))
			if got, want := outs[i], fresh[len(fresh)-1]; got != want {
				ok = false
				c.violation(class, fmt.Sprintf("build #%d of the history (source %q) gives %s, a fresh builder with the same registrations and modes gives %s",
					i, unhex(op[2:]), oaClip(got, 300), oaClip(want, 300)), map[string]any{"history": line})
				return
			}
		}
	})
	return ok
}

// oaModeHistories generates build / mode-switch histories
func oaModeHistories(c *oracleCtx, class string, n int) {
	for i := 0; i < n && !c.expired(); i++ {
		var ops []string
		for k, m := 0, 2+c.r.Intn(6); k < m; k++ {
			switch c.r.Intn(3) {
			case 0:
				ops = append(ops, fmt.Sprintf("M:%s:%d", []string{"t", "s"}[c.r.Intn(2)], c.r.Intn(2)))
			default:
				ops = append(ops, "B:"+hexOf(historySources[c.r.Intn(len(historySources))]))
			}
		}
		ops = append(ops, "B:"+hexOf(historySources[c.r.Intn(len(historySources))]))
		line := "BUILD " + strings.Join(ops, " ")
		c.count(line)
		oaBuildHistory(c, class, line)
	}
}
