package main

// C02 "The subset is parsed exactly as JavaScript parses it".
//
// Specification trees T (jsgen) are rendered by the independent unparser in several layouts;
// xjs must parse every rendering without error into a tree whose canonical form equals
// Canon(T). goja's parser cross-checks the unparser: a rendering goja does not read as T is
// unusable. All renderings of one T must give the same xjs tree.

import (
	"fmt"
	"math/rand"
	"strings"

	"xjsverif/internal/jsgen"
)

func init() { oracles["C02"] = oracleC02 }

// c02Class decides the known class of a source text for the parser oracle.
func c02Class(src string) string {
	switch {
	case oaHasBareCR(src):
		return clsBareCR
	case !fixedRestricted && srcRestrictedProduction(src):
		return clsRestricted
	case srcBacktickEscape(src):
		return clsBacktickEsc
	}
	return ""
}

func c02Diff(want, got string) string {
	i := 0
	for i < len(want) && i < len(got) && want[i] == got[i] {
		i++
	}
	lo := i - 40
	if lo < 0 {
		lo = 0
	}
	return fmt.Sprintf("first difference at %d: want ...%s | got ...%s", i, oaClip(want[lo:], 100), oaClip(got[lo:], 100))
}

func c02Goja(src string) (canon string, err error) {
	defer func() {
		if r := recover(); r != nil {
			err = fmt.Errorf("goja panic: %v", r)
		}
	}()
	return jsgen.CanonGoja(src)
}

// c02CheckText checks one text against the expected canonical tree (want == "" : take goja's
// reading of the text as the expectation). It returns the xjs canonical tree ("" if unusable).
func c02CheckText(c *oracleCtx, src, want, origin string) string {
	input := map[string]any{"src": hexOf(src), "text": src, "origin": origin}
	if want != "" {
		input["want"] = want
	}
	res := ""
	guard(c, "panic", input, func() {
		gj, err := c02Goja(src)
		if err != nil || (want != "" && gj != want) {
			c.bump("oracle-disagree")
			return
		}
		if want == "" {
			want = gj
		}
		cls := c02Class(src)
		prog, errs := oaParse(src)
		if len(errs) > 0 {
			if cls == "" {
				cls = "valid-program-rejected"
			}
			c.violation(cls, "goja reads the text as the expected tree, xjs reports "+oaErrText(errs), input)
			return
		}
		got := jsgen.CanonXjs(prog)
		res = got
		if got != want {
			if cls == "" {
				cls = "tree-mismatch"
			}
			c.violation(cls, c02Diff(want, got), input)
		}
	})
	return res
}

func c02Tree(r *rand.Rand) *jsgen.Node {
	return jsgen.GenProgram(r, jsgen.GenOptions{MaxDepth: 1 + r.Intn(4), MaxStmts: 1 + r.Intn(5), Executable: r.Intn(4) == 0})
}

func oracleC02(c *oracleCtx) {
	for _, in := range c.inputs {
		if m := recordedInput(in); m != nil {
			if s := oaStr(m, "src"); s != "" {
				c02CheckText(c, unhex(s), oaStr(m, "want"), "replay")
				c.count(s)
			}
			continue
		}
		if src, _, _, ok := oaInputSource(in); ok && src != "" {
			// an arbitrary text: usable only if goja reads it as a program of the subset
			c02CheckText(c, src, "", "op")
			c.count(src)
		}
	}

	layouts := 3
	if c.thorough() {
		layouts = 6
	}
	n := c.n(1500, 60000)
	for i := 0; i < n && !c.expired(); i++ {
		tree := c02Tree(c.r)
		want := jsgen.Canon(tree)
		c.count(want)
		first, firstSrc := "", ""
		for k := 0; k < layouts; k++ {
			l := randLayout(c.r)
			if k == 0 {
				l = jsgen.Layout{Newlines: true, Comments: true, ASI: true, RedundantParens: c.r.Intn(2) == 0, SingleQuotes: true}
			}
			src, ok := oaRenderAvoiding(c.r, tree, l, func(s string) bool { return c02Class(s) != "" })
			if !ok {
				c.bump("steered-away")
				continue
			}
			if k%3 == 2 && !strings.ContainsAny(src, "`") { // the same layout with Windows line endings (CR LF is one line terminator; not inside template literals, whose value it would change)
				src = strings.ReplaceAll(src, "\n", "\r\n")
			}
			got := c02CheckText(c, src, want, "gen")
			c.bump("texts")
			if got == "" {
				continue
			}
			if first == "" {
				first, firstSrc = got, src
			} else if got != first {
				c.violation("layout-dependent", c02Diff(first, got), map[string]any{"src": hexOf(src), "text": src, "other": firstSrc, "want": want, "origin": "gen"})
			}
		}
	}

	if c.tier == "replay" {
		return
	}
	// ---- identifiers that other builders of this process registered as token type names (see processPrelude) ----
	for _, t := range []string{
		"function pow(b, e) { return b }\nlet PI = 3\nlet unless = pow(PI, mod)\n",
		"pow = PI * mod + unless.of\n", "x = {pow: 1, PI: 2}.pow + typeof\n", "if (mod) { unless(PI) } else pow++\n",
	} {
		c02CheckText(c, t, "", "prelude-words")
		c.count(t)
	}
	// ---- long and deep programs: what was parsed before, and how much, does not matter ----
	units := []string{"if (a) { b() }\n", "while (c) { d-- }\n", "{ e = 1 }\n", "for (;;) { f() }\n", "function g() { return 1 }\n", "x = [1, 2]\n",
		"if (a) b(); else { c() }\n", "y = {k: (1 + 2) * 3}\n", "z = function() { { } }\n"}
	sizes := []int{300, 900}
	if c.thorough() {
		sizes = append(sizes, 3000, 8000)
	}
	for _, n := range sizes {
		var sb strings.Builder
		for i := 0; i < n; i++ {
			sb.WriteString(units[c.r.Intn(len(units))])
		}
		c02CheckText(c, sb.String(), "", "long")
		c.count(fmt.Sprintf("long-%d", n))
		for _, u := range units[:4] { // one kind of statement repeated
			c02CheckText(c, strings.Repeat(u, n), "", "long")
		}
	}
	for _, d := range []int{60, 150} {
		c02CheckText(c, "x = "+strings.Repeat("(", d)+"a"+strings.Repeat(")", d)+"\n", "", "deep")
		c02CheckText(c, "x = "+strings.Repeat("[", d)+"a"+strings.Repeat("]", d)+"\n", "", "deep")
		c02CheckText(c, strings.Repeat("{ ", d)+"a"+strings.Repeat(" }", d)+"\n", "", "deep")
		c02CheckText(c, strings.Repeat("if (a) { ", d)+"b"+strings.Repeat(" }", d)+"\n", "", "deep")
		c02CheckText(c, "x = "+strings.Repeat("f(", d)+"a"+strings.Repeat(")", d)+"\n", "", "deep")
		c02CheckText(c, "x = "+strings.Repeat("!-", d)+"a\n", "", "deep")
		c.count(fmt.Sprintf("deep-%d", d))
	}
	// ---- witnesses of the known classes ----
	c02Witnesses(c)
}

func c02Witnesses(c *oracleCtx) {
	fixed := []struct{ src, want string }{
		// restricted production after return
		{"function f() {\n  return\n  1\n}\n", ""},
		{"function f(a) {\n  if (a) return\n  a = 2\n}\n", ""},
		// … whatever the next line starts with (a sign, a bracket, a prefix operator), also behind a comment
		{"function f(x) {\n  return\n  -x\n}\n", ""},
		{"function f(x) {\n  return // nothing\n  -x\n}\n", ""},
		{"function f(x) {\n  return\n  !x\n}\n", ""},
		{"function f(x) {\n  return\n  (x)\n}\n", ""},
		{"function f(x) {\n  return\n  [x]\n}\n", ""},
		{"function f(x) {\n  return\n  ++x\n}\n", ""},
		{"function f(x) {\n  return\n  --x\n}\n", ""},
		{"function f(x) {\n  if (x) return\n  -x\n  return x\n}\n", ""},
		// comments never change the tree, whatever characters they contain (en dash, curly quotes, ellipsis, bullet,
		// no-break space, line / paragraph separator neighbours U+2027, U+202A)
		{"let x = 1 // was 0 \u2013 x = 0\nlet y = 2\n", ""},
		{"a = 1 // it\u2019s \u2026 \u2022 b = 3\nb = 2\n", ""},
		{"a = 1 // \u2027 c()\nb = 2 // \u202a d()\n", ""},
		{"a = 1 // caf\u00e9\u00a0\u00e0 e()\nb = 2\n", ""},
		// line break before ++ / --
		{"a\n++\nb\n", ""},
		{"x = y\n--z\n", ""},
		// bare CR as line break
		{"a = 1\rb = 2\r", ""},
		{"let x = 1 // c\rx = 2\n", ""},
	}
	for _, w := range fixed {
		c02CheckText(c, w.src, w.want, "witness")
		c.count(w.src)
	}
	// generated witnesses: bare returns followed by ASI line breaks; LF replaced by CR
	made := map[string]int{}
	for i := 0; i < 4000 && !c.expired() && ((!fixedRestricted && made[clsRestricted] < 15) || made[clsBareCR] < 15); i++ {
		tree := c02Tree(c.r)
		want := jsgen.Canon(tree)
		src := jsgen.Render(tree, c.r, jsgen.Layout{ASI: true, Newlines: c.r.Intn(2) == 0})
		switch cls := c02Class(src); {
		case cls == clsRestricted:
			if made[cls] < 15 {
				made[cls]++
				c02CheckText(c, src, want, "witness")
				c.count(src)
			}
		case cls == "" && made[clsBareCR] < 15 && !strings.ContainsAny(src, "`") && strings.Count(src, "\n") > 1:
			made[clsBareCR]++
			cr := strings.ReplaceAll(src, "\n", "\r")
			c02CheckText(c, cr, want, "witness")
			c.count(cr)
		}
	}
}
