package main

// C11 "Parsing is total and its result obeys the error contract"

import (
	"fmt"
	"strings"
	"time"

	"github.com/xjslang/xjs/ast"
	"github.com/xjslang/xjs/lexer"
	"github.com/xjslang/xjs/parser"
	"github.com/xjslang/xjs/token"
)

func init() { oracles["C11"] = oracleC11 }

// nilInLists reports the first statement list holding a nil entry or typed-nil pointer
func nilInLists(p *ast.Program) string {
	bad := ""
	v := &astVisitor{}
	v.stmtList = func(owner string, ss []ast.Statement) {
		for i, s := range ss {
			if bad != "" {
				return
			}
			if s == nil {
				bad = fmt.Sprintf("%s statement list entry %d is nil", owner, i)
			} else if isNilB(s) {
				bad = fmt.Sprintf("%s statement list entry %d is a typed nil %T", owner, i, s)
			}
		}
	}
	v.program(p)
	return bad
}

// missingChild reports the first mandatory child that is absent
func missingChild(p *ast.Program) string {
	bad := ""
	miss := func(node any, field string) {
		if bad == "" {
			bad = fmt.Sprintf("%T.%s is nil", node, field)
		}
	}
	need := func(node any, field string, child any) {
		if isNilB(child) {
			miss(node, field)
		}
	}
	v := &astVisitor{}
	v.stmt = func(s ast.Statement, _ []string) {
		switch n := s.(type) {
		case *ast.LetStatement:
			need(n, "Name", n.Name)
		case *ast.FunctionDeclaration:
			need(n, "Name", n.Name)
			need(n, "Body", n.Body)
			for _, p := range n.Parameters {
				need(n, "Parameters[i]", p)
			}
		case *ast.IfStatement:
			need(n, "Condition", n.Condition)
			need(n, "ThenBranch", n.ThenBranch)
		case *ast.WhileStatement:
			need(n, "Condition", n.Condition)
			need(n, "Body", n.Body)
		case *ast.ForStatement:
			need(n, "Body", n.Body)
		case *ast.ExpressionStatement:
			need(n, "Expression", n.Expression)
		}
	}
	v.expr = func(e ast.Expression, _ []string) {
		switch n := e.(type) {
		case *ast.LetExpression:
			need(n, "Name", n.Name)
		case *ast.BinaryExpression:
			need(n, "Left", n.Left)
			need(n, "Right", n.Right)
		case *ast.UnaryExpression:
			need(n, "Right", n.Right)
		case *ast.PostfixExpression:
			need(n, "Left", n.Left)
		case *ast.GroupedExpression:
			need(n, "Expression", n.Expression)
		case *ast.CallExpression:
			need(n, "Function", n.Function)
			for _, a := range n.Arguments {
				need(n, "Arguments[i]", a)
			}
		case *ast.MemberExpression:
			need(n, "Object", n.Object)
			need(n, "Property", n.Property)
		case *ast.AssignmentExpression:
			need(n, "Left", n.Left)
			need(n, "Value", n.Value)
		case *ast.CompoundAssignmentExpression:
			need(n, "Left", n.Left)
			need(n, "Value", n.Value)
		case *ast.FunctionExpression:
			need(n, "Body", n.Body)
			for _, p := range n.Parameters {
				need(n, "Parameters[i]", p)
			}
		case *ast.ArrayLiteral:
			for _, a := range n.Elements {
				need(n, "Elements[i]", a)
			}
		case *ast.ObjectLiteral:
			for _, pr := range n.Properties {
				need(n, "Properties[i].Key", pr.Key)
				need(n, "Properties[i].Value", pr.Value)
			}
		}
	}
	v.program(p)
	return bad
}

type c11Result struct {
	panicked any
	prog     *ast.Program
	err      error
	errs     []parser.ParserError
}

// c11Timeouts: parses that did not come back (their goroutines cannot be stopped; after a few the oracle stops parsing)
var c11Timeouts int

// c11Prelude: other builders of the same process register operators — also on built-in token types — and build and use
// parsers, before the parsers under test are made from fresh builders. Parsers are independent of each other, so this
// changes nothing; it runs in every tier and in replay, and is part of every reported input.
const c11PreludeText = "earlier in the process: builders with RegisterPostfixOperator(NOT), RegisterPrefixOperator(ASSIGN), RegisterInfixOperator(dynamic `^`, 7), RegisterInfixOperator(MODULO-like dynamic `%`, 13) built and ran parsers"

func c11Prelude() {
	defer func() { _ = recover() }()
	done := make(chan struct{})
	go func() {
		defer close(done)
		defer func() { _ = recover() }()
		for _, setup := range []func(*lexer.Builder, *parser.Builder){
			func(lb *lexer.Builder, pb *parser.Builder) { _ = pb.RegisterPostfixOperator(token.NOT, genericPostfix) },
			func(lb *lexer.Builder, pb *parser.Builder) {
				_ = pb.RegisterPrefixOperator(token.ASSIGN, genericPrefix)
			},
			func(lb *lexer.Builder, pb *parser.Builder) {
				_ = pb.RegisterInfixOperator(lb.RegisterTokenType("^"), 7, genericInfix)
				_ = pb.RegisterInfixOperator(lb.RegisterTokenType("%"), 13, genericInfix)
				_ = pb.RegisterPostfixOperator(lb.RegisterTokenType("@"), genericPostfix)
				_ = pb.RegisterPrefixOperator(lb.RegisterTokenType("~"), genericPrefix)
			},
		} {
			lb := lexer.NewBuilder()
			pb := parser.NewBuilder(lb)
			setup(lb, pb)
			for _, src := range []string{"a! + b", "x = 1", "a ^ b", "f(a)"} {
				p := pb.Build(src)
				_, _ = p.ParseProgram()
			}
		}
	}()
	select {
	case <-done:
	case <-time.After(5 * time.Second):
	}
}

// c11Ops: operators registered (through the public API, on dynamic token types) on the builder of the parser under test
var c11Ops []customOp

func c11OpsStr(ops []customOp) string {
	var l []string
	for _, o := range ops {
		if o.role == "i" {
			l = append(l, fmt.Sprintf("i:%s:%d", hexOf(o.lit), o.prec))
		} else {
			l = append(l, o.role+":"+hexOf(o.lit))
		}
	}
	return strings.Join(l, ",")
}

func checkC11(c *oracleCtx, flags, src string) {
	if c11Timeouts >= 3 {
		return
	}
	input := map[string]any{"src": hexOf(src), "text": src, "flags": flags, "history": c11PreludeText}
	ops := c11Ops
	if len(ops) > 0 {
		input["ops"] = c11OpsStr(ops)
	}
	ch := make(chan c11Result, 1)
	go func() {
		var res c11Result
		defer func() {
			if r := recover(); r != nil {
				res.panicked = r
			}
			ch <- res
		}()
		if len(ops) > 0 {
			o := runParse(parseSetup{flags: strings.ReplaceAll(flags, "-", ""), ops: ops}, src)
			res.prog, res.err, res.errs = o.prog, o.err, o.errs
			return
		}
		pp := parseB(flags, src)
		res.prog, res.err, res.errs = pp.prog, pp.err, pp.errs
	}()
	var res c11Result
	tm := time.NewTimer(3 * time.Second)
	select {
	case res = <-ch:
		tm.Stop()
	case <-tm.C:
		c11Timeouts++
		c.violation("timeout", "parse did not return within 3 s", input)
		return
	}
	if res.panicked != nil {
		c.violation("panic", fmt.Sprintf("parse panicked: %v", res.panicked), input)
		return
	}
	guard(c, "checker-panic", input, func() {
		if (res.err != nil) != (len(res.errs) > 0) {
			c.violation("error-contract", fmt.Sprintf("returned error %v but %d recorded errors", res.err, len(res.errs)), input)
			return
		}
		if res.prog == nil {
			c.violation("nil-program", "ParseProgram returned a nil program", input)
			return
		}
		if bad := nilInLists(res.prog); bad != "" {
			c.violation("nil-statement", bad, input)
			return
		}
		toks := lexAllB(src)
		for i, e := range res.errs {
			found := false
			for _, t := range toks {
				if t.Start == e.Range.Start && t.End == e.Range.End {
					found = true
					break
				}
			}
			if !found {
				c.violation("error-range", fmt.Sprintf("error %d %q has range %v-%v which is no token's (Start,End)", i, e.Message, e.Range.Start, e.Range.End), input)
				return
			}
		}
		if len(res.errs) > 0 {
			c.bump("with-errors")
			return
		}
		c.bump("error-free")
		if bad := missingChild(res.prog); bad != "" {
			c.violation("missing-child", "no errors reported but "+bad, input)
			return
		}
		for _, cfg := range allCompileCfgs {
			failed := false
			func() {
				defer func() {
					if r := recover(); r != nil {
						failed = true
						in2 := map[string]any{"src": hexOf(src), "text": src, "flags": flags, "cfg": cfg}
						c.violation("compile-panic", fmt.Sprintf("compiling under %s panicked: %v", cfg, r), in2)
					}
				}()
				_ = compilerOf(cfg).Compile(res.prog)
			}()
			if failed {
				return
			}
		}
	})
}

func oracleC11(c *oracleCtx) {
	c11Prelude()
	for _, in := range readInputsB(c) {
		switch in.kind {
		case "PARSE", "PRINT":
			for _, fl := range modeFlags {
				checkC11(c, fl, in.src)
			}
			c.count(in.line)
		case "rec":
			if _, ok := in.rec["src"]; ok {
				if o := recStr(in.rec, "ops"); o != "" {
					c11Ops = parseOps(o)
				}
				checkC11(c, orDash(in.flags), in.src)
				c11Ops = nil
				c.count(in.line)
			}
		}
	}
	if c.tier == "replay" {
		return
	}
	for _, f := range lexFragments {
		for _, fl := range modeFlags {
			checkC11(c, fl, f)
		}
		c.count(f)
	}
	fixed := []string{"let = 5", "let", "let x =", "function", "function f(", "function f(a", "function f(a,", "function f() {", "if", "if (", "if (a", "if (a)", "if (a) b else",
		"while (a)", "for (", "for (;;", "for (;;)", "for (let", "for (let x = ;;) a", "{", "{ a", "{ a; ", "}", "a.", "a[", "a[b", "f(", "f(a,", "[", "[a,", "({", "({a", "({a:", "({a:1,", "x = ",
		"a +", "!", "-", "++", "a ++ ++", "return", "return ;", "else", "a b", "1 2", "089", "1e", "0x", "a ? b", "a.(c)", "x = \"abc", "`abc", "a\x00b", "(", "((((((((((", "[[[[[[[[[[", "{{{{{{{{{{",
		"a = = b", "let let", "function function", "f(,)", "[,]", "({,})", "a.b.", "a..b", ";", ";;", "a;;b", "\n", "//c", "//c\n", "a //c", "function(){}", "function(){}()", "{}", "{}{}", "if(a){}else{}else{}",
		// a lone `;` where one statement is expected
		"if (a);", "if (a) ; else b()", "if (a) b; else ;", "while (c);", "for (;;);", "if (a) ;;", "function f() { ; }", ";;;", "{ ; }", "if (a) { ; } else ;",
		// an operand followed by a prefix operator on the next line / without separator
		"a\n!b", "f(a !b)", "a\n-b", "a\n~b", "a !", "a\n!", "x = a\n!b\n"}
	for _, f := range fixed {
		for _, fl := range modeFlags {
			checkC11(c, fl, f)
		}
		c.count(f)
	}
	// deep nesting (every configuration must print it): blocks, ifs, function bodies, parentheses, arrays, calls, objects
	for _, d := range []int{33, 70, 140} {
		for _, f := range []string{
			strings.Repeat("{ ", d) + "a" + strings.Repeat(" }", d),
			strings.Repeat("if (a) { ", d) + "b" + strings.Repeat(" }", d),
			strings.Repeat("function f() { ", d) + "return 1" + strings.Repeat(" }", d),
			"x = " + strings.Repeat("(", d) + "a" + strings.Repeat(")", d),
			"x = " + strings.Repeat("[", d) + "a" + strings.Repeat("]", d),
			"x = " + strings.Repeat("f(", d) + "a" + strings.Repeat(")", d),
			"x = " + strings.Repeat("{k: ", d) + "1" + strings.Repeat("}", d),
			"x = " + strings.Repeat("function() { return ", d) + "1" + strings.Repeat(" }", d),
			strings.Repeat("while (a) { for (;;) { ", d/2) + "b" + strings.Repeat(" } }", d/2),
		} {
			for _, fl := range modeFlags {
				checkC11(c, fl, f)
			}
			c.count(fmt.Sprintf("deep-%d|%s", d, f[:12]))
		}
	}
	// numeric forms that do not parse as numbers: every error is on a token
	for _, f := range []string{"let x = 0128;", "08", "09.5", "00009", "0787 + 1", "x = 0x;", "y = 0b2", "z = 0o8", "1e", "1e+", "9223372036854775808", "0x10000000000000000", "1e999", "0.0.0", "1__2", "1.e3", "089.1e"} {
		for _, fl := range modeFlags {
			checkC11(c, fl, f)
		}
		c.count(f)
	}
	// registered operators (a prefix, an infix and a postfix one, alone and together) in and out of place
	for _, cfg := range []string{"p:7e", "i:5e:7", "s:40", "p:7e,i:5e:7,s:40", "p:7e,i:7e:5", "i:5e:13,s:40"} {
		c11Ops = parseOps(cfg)
		for _, f := range append([]string{"a ~ b", "a\n~b", "x = a ~", "~", "~ ~ a", "a ^", "^ a", "a ^ ^ b", "a @ @", "a @ b", "@ a", "f(a ~ b, c)", "let v = a\n~ v", "a ^ b ~ c @ d",
			"if (a ~) b", "[a ~ b]", "{k: a ~ b}", "a ~= b", "a @\n@", "x = ~"}, customOpSources...) {
			for _, fl := range modeFlags {
				checkC11(c, fl, f)
			}
			c.count(cfg + "|" + f)
		}
	}
	c11Ops = nil
	// truncations at every byte of some programs
	nt := c.n(12, 400)
	for i := 0; i < nt && !c.expired(); i++ {
		s := randProgramText(c.r)
		if len(s) > 400 {
			s = s[:400]
		}
		for k := 0; k <= len(s) && !c.expired(); k++ {
			for _, fl := range modeFlags {
				checkC11(c, fl, s[:k])
			}
			c.count(s[:k])
		}
	}
	n := c.n(4000, 200000)
	for i := 0; i < n && !c.expired(); i++ {
		var s string
		switch c.r.Intn(8) {
		case 0:
			s = randBytes(c.r, c.r.Intn(40))
		case 1, 2:
			s = randFragments(c.r, 1+c.r.Intn(16))
		case 3:
			s = randProgramText(c.r)
		case 4:
			s = nestedTemplate(c.r, 1+c.r.Intn(3))
			s = mutate(c.r, s)
		default:
			s = randProgramText(c.r)
			for k, m := 0, 1+c.r.Intn(3); k < m; k++ {
				s = mutate(c.r, s)
			}
		}
		if len(s) > 3000 {
			s = s[:3000]
		}
		for _, fl := range modeFlags {
			checkC11(c, fl, s)
		}
		c.count(s)
	}
}

var _ = strings.Join
