package main

// C01 "Transpilation preserves program behaviour".
//
// Executable programs (jsgen) are rendered in random layouts, parsed by xjs, compiled under a
// grid of printer configurations, and both the source text and every output are run by goja
// (console.log trace + completion kind). The source is its own reference semantics.

import (
	"fmt"
	"strings"

	"xjsverif/internal/jsgen"
	"xjsverif/internal/oracle"
)

func init() { oracles["C01"] = oracleC01 }

var c01Grid = oaGrid(oaIndentsSmall, true) // 2 + 6*2*2 = 26 configurations

func c01Usable(b oracle.Behaviour, err error) bool {
	return err == nil && b.Completion != oracle.CompletionTimeout && b.Completion != "panic" && b.Completion != "SyntaxError"
}

// c01Check tests one source text under the given configurations. generated: the text comes from
// the executable-program generator, so a parse error of xjs is a finding.
func c01Check(c *oracleCtx, src string, cfgs []string, generated bool) {
	base := map[string]any{"src": hexOf(src), "text": src, "generated": generated}
	guard(c, "panic", base, func() {
		sb, err := oracle.Behave(src)
		if !c01Usable(sb, err) {
			c.bump("source-unusable")
			return
		}
		prog, errs := oaParse(src)
		if len(errs) > 0 {
			if !generated {
				c.bump("parse-error")
				return
			}
			cls := oaSourceClass(src, "c", nil)
			if cls == "" {
				cls = "valid-program-rejected"
			}
			c.violation(cls, fmt.Sprintf("goja runs the program (%s), xjs reports %s", sb.String(), oaErrText(errs)), base)
			return
		}
		// a plugin in the parse path that handles every expression through the exported two-step API (parse the operand,
		// then the rest) is a different route to the same program
		if re := runParse(parseSetup{exprI: []string{"r0"}}, src); len(re.errs) > 0 || oaCompile("c", re.prog) != oaCompile("c", prog) {
			in2 := map[string]any{"src": hexOf(src), "text": src, "generated": generated, "interceptor": "re-entrant"}
			what := "with a re-entrant expression interceptor installed the program is rejected: " + oaErrText(re.errs)
			if len(re.errs) == 0 {
				what = "with a re-entrant expression interceptor installed the compiled program differs: " + firstDiff(oaCompile("c", prog), oaCompile("c", re.prog))
			}
			c.violation("interceptor-changes-program", what, in2)
			return
		}
		seen := map[string]bool{}
		for _, cfg := range cfgs {
			input := map[string]any{"src": hexOf(src), "text": src, "cfg": cfg, "generated": generated}
			guard(c, "panic", input, func() {
				out := oaCompile(cfg, prog)
				if seen[out] { // same code as under an earlier configuration
					return
				}
				seen[out] = true
				if codeHasHTMLCommentOpener(out) && !codeHasHTMLCommentOpener(src) {
					input["output"] = oaClip(out, 600)
					c.violation("html-comment-opener", "the output contains `<!--`, which a JavaScript script reads as a comment opener; the source does not", input)
					return
				}
				ob, oerr := oracle.Behave(out)
				c.bump("runs")
				if oerr == nil && sb.Equal(ob) {
					return
				}
				cls := oaSourceClass(src, cfg, prog)
				if cls == "" {
					cls = "behaviour-differs"
				}
				what := fmt.Sprintf("source: %s; output: %s", sb.String(), ob.String())
				if oerr != nil {
					what += fmt.Sprintf(" (%v)", oerr)
				}
				input["output"] = oaClip(out, 600)
				c.violation(cls, what, input)
			})
		}
	})
}

// c01Cfgs keeps the configurations under which the text is outside the known classes.
func c01Cfgs(c *oracleCtx, src string, cfgs []string) []string {
	prog, errs := oaParse(src)
	if len(errs) > 0 {
		prog = nil
	}
	var keep []string
	for _, cfg := range cfgs {
		if cls := oaSourceClass(src, cfg, prog); cls != "" {
			c.bump("steered-away:" + cls)
			continue
		}
		keep = append(keep, cfg)
	}
	return keep
}

func oracleC01(c *oracleCtx) {

	// directed sources: a sign operator directly followed by a sign-starting prefix operator, also through
	// higher-precedence operators on the left spine (needed by seeded/C01-m1); every value is printed
	for _, src := range c01SignSources() {
		c01Check(c, src, c01Cfgs(c, src, []string{"c", "cm", "p:2020:1", "p:09:0"}), false)
		c.count(src)
	}
	// directed sources: every kind of literal as the object of a member access / call (decimal integers need care:
	// `1.toString()` is not JavaScript) — the defect repaired by the "fix: integer literal before a dot" commit
	for _, src := range c01LiteralObjectSources() {
		c01Check(c, src, c01Cfgs(c, src, []string{"c", "p:2020:1", "p:09:0"}), true)
		c.count(src)
	}
	// directed sources: escapes denoting the code points at the UTF-8 length boundaries (needed by seeded/C01-m3)
	for _, src := range c01EscapeSources() {
		c01Check(c, src, c01Cfgs(c, src, []string{"c", "p:2020:1"}), false)
		c.count(src)
	}
	// directed sources: template literals — every escape but the backtick's own travels as written; `${…}` is live,
	// `\${…}` is text; an escaped backslash in front of an escaped backtick
	for _, src := range []string{
		"let price = 5\nconsole.log(`write ${price} here`)\nconsole.log(`write \\${price} here`)\nconsole.log(`write \\\\${price} here`)\nconsole.log(`a\\$b`, `$`, `$$`, `\\$`)\n",
		"console.log(`C:\\\\\\`dir\\``.length)\nconsole.log(`a\\\\\\`b`)\nconsole.log(`\\\\`.length, `\\``.length, `\\\\\\``.length)\n",
		"let s = `a\\\\\\`.length;//`\nconsole.log(s)\n",
		"console.log(`\\n\\t\\x41\\u0041\\u{41}`, `line\\\ncontinued`)\n",
		"console.log(`a\n\n\nb`.length, `\n\n\n\n`.length)\nfunction f() {\n  return `x\n\n\n\n  y\n\n`\n}\nconsole.log(f().length, f())\n",
		"let t = `one\n\ntwo\n\n\nthree`\n\n\n\nconsole.log(t.split(\"\\n\").length)\n",
	} {
		c01Check(c, src, c01Cfgs(c, src, []string{"c", "p:2020:1", "p:09:0"}), false)
		c.count(src)
	}
	// directed sources: an empty statement as the body of a loop or a branch (JavaScript has it; if xjs accepts it, it
	// must keep it)
	for _, src := range []string{
		"let i = 0\nwhile (i++ < 3);\nconsole.log(i)\n",
		"if (false); else console.log(1)\nconsole.log(2)\n",
		"let k = 0\nfor (let j = 0; j < 2; j++);\nconsole.log(k)\n",
		"if (true);\nconsole.log(3)\n",
		";;console.log(4);;\n",
		"function f() { ; return 5 }\nconsole.log(f())\n",
	} {
		c01Check(c, src, c01Cfgs(c, src, []string{"c", "p:2020:1", "p:09:0"}), false)
		c.count(src)
	}
	for _, in := range c.inputs {
		if m := recordedInput(in); m != nil {
			if s := oaStr(m, "src"); s != "" {
				cfgs := c01Grid
				if cfg := oaStr(m, "cfg"); cfg != "" {
					cfgs = []string{cfg}
				}
				g, _ := m["generated"].(bool)
				c01Check(c, unhex(s), cfgs, g)
				c.count(s)
			}
			continue
		}
		if src, cfg, _, ok := oaInputSource(in); ok && src != "" {
			cfgs := []string{"c", "p:2020:1", "p:09:0"}
			if cfg != "" {
				cfgs = []string{cfg}
			}
			c01Check(c, src, cfgs, false)
			c.count(src)
		}
	}

	n := c.n(250, 15000)
	for i := 0; i < n && !c.expired(); i++ {
		tree := jsgen.GenProgram(c.r, jsgen.GenOptions{MaxDepth: 1 + c.r.Intn(4), MaxStmts: 1 + c.r.Intn(5), Executable: true})
		l := oaRichLayout(c.r)
		src, ok := oaRenderAvoiding(c.r, tree, l, func(s string) bool { return oaSourceClass(s, "c", nil) != "" })
		if !ok {
			c.bump("steered-away")
			continue
		}
		cfgs := c01Grid
		if !c.thorough() {
			cfgs = append([]string{"c"}, oaSample(c.r, c01Grid[2:], 5)...)
		}
		c.count(src)
		c01Check(c, src, c01Cfgs(c, src, cfgs), true)
	}

	if c.tier == "replay" {
		return
	}
	c01Witnesses(c)
}

// c01SignSources: executable programs around adjacent sign operators.
func c01SignSources() []string {
	var out []string
	firsts := []string{"-b", "++b", "--b", "!b", "- -b", "- --b"}
	his := []string{"*", "/", "%"}
	for _, s := range []string{"+", "-"} {
		for _, f := range firsts {
			exprs := []string{"a " + s + " " + f, "x " + s + " y " + s + " " + f}
			for _, h1 := range his {
				exprs = append(exprs, "a "+s+" "+f+" "+h1+" c")
				for _, h2 := range his {
					exprs = append(exprs, "a "+s+" "+f+" "+h1+" c "+h2+" d")
				}
			}
			for _, e := range exprs {
				out = append(out, "let a = 7\nlet b = 3\nlet c = 2\nlet d = 5\nlet x = 11\nlet y = 4\nconsole.log("+e+")\nconsole.log(a, b)\n")
			}
		}
	}
	for _, rel := range []string{"<", ">", "<=", "=="} {
		out = append(out, "let a = 7\nlet b = 3\nconsole.log(a "+rel+" !--b)\nconsole.log(a "+rel+" !- -b, b)\n")
	}
	return out
}

// c01LiteralObjectSources: literals of every lexical form in object / callee-adjacent positions.
func c01LiteralObjectSources() []string {
	lits := []string{"1", "10", "0", "255", "1.5", "0.5", "1e3", "2E2", "0x1f", "0XFF", "0b101", "0o17", "\"ab\"", "'cd'", "`ef`", "true", "null"}
	var out []string
	for i := 0; i < len(lits); i += 4 {
		j := i + 4
		if j > len(lits) {
			j = len(lits)
		}
		src := ""
		for _, l := range lits[i:j] {
			if l == "null" {
				src += "console.log([" + l + "].length, (" + l + ") == " + l + ")\n"
				continue
			}
			src += "console.log(" + l + " .toString(), (" + l + ").toString().length, " + l + " [\"toString\"]().length, [" + l + " .toString()][0], 2 * " + l + " .toString().length)\n"
		}
		out = append(out, src)
	}
	return out
}

// c01EscapeSources: programs printing the code units of strings written with \x, \u and \u{} escapes at every
// boundary of the UTF-8 encoding and of the surrogate range.
func c01EscapeSources() []string {
	cps := []int{0x00, 0x01, 0x1f, 0x20, 0x7e, 0x7f, 0x80, 0xff, 0x100, 0x7ff, 0x800, 0xfff, 0x1000, 0xd7ff, 0xe000, 0xfffd, 0xfffe, 0xffff,
		0x10000, 0x10001, 0xffff0, 0x10ffff,
		// code points that must stay escaped (or be escaped again) in the re-quoted literal, in every escape form
		0x0a, 0x0d, 0x22, 0x27, 0x5c, 0x60, 0x24, 0x30, 0x37, 0x39, 0x6e, 0x75, 0x78, 0x2028, 0x2029}
	var out []string
	var all []string
	for _, cp := range cps {
		var forms []string
		if cp <= 0xff {
			forms = append(forms, fmt.Sprintf("\\x%02x", cp))
		}
		if cp <= 0xffff {
			forms = append(forms, fmt.Sprintf("\\u%04x", cp), fmt.Sprintf("\\u%04X", cp))
		}
		forms = append(forms, fmt.Sprintf("\\u{%x}", cp), fmt.Sprintf("\\u{%06X}", cp))
		for _, f := range forms {
			all = append(all, "\"a"+f+"b\"")
			if cp < 0x80 {
				// after a backslash-denoting escape and after \0 the next character decides what the text means
				all = append(all, "'a"+f+"b'", "\"\\0"+f+"\"", "\"\\x5c"+f+"\"", "\""+f+"n\"")
			}
		}
	}
	show := "function show(s) {\n  let r = []\n  for (let i = 0; i < s.length; i = i + 1) { r.push(s.charCodeAt(i)) }\n  console.log(r.join(\",\"))\n}\n"
	for i := 0; i < len(all); i += 8 {
		j := i + 8
		if j > len(all) {
			j = len(all)
		}
		src := show
		for _, lit := range all[i:j] {
			src += "show(" + lit + ")\n"
		}
		out = append(out, src)
	}
	return out
}

func c01Witnesses(c *oracleCtx) {
	type w struct {
		src  string
		cfgs []string
	}
	all := []string{"c", "p:2020:1"}
	ws := []w{
		// restricted productions
		{"function f() {\n  return\n  1\n}\nconsole.log(f())\n", all},
		{"let a = 1\nlet b = 5\na\n++\nb\nconsole.log(a, b)\n", all},
		// string re-quoting
		{"console.log('a\"b')\n", all},
		{"console.log(\"\\x22\".length)\n", all},
		{"console.log(\"a\\x0ab\")\n", all},
		{"console.log(\"\\xe9\".length, \"\\u005cn\".length)\n", all},
		{"console.log(\"\\ud83d\\ude00\".length)\n", all},
		// backtick with backslash
		{"console.log(`a\\`b`)\n", all},
		{"console.log(`a\\\\`.length)\n", all},
		// pretty printer trims inside literals
		{"console.log(`a  \n  b`.length)\n", []string{"p:2020:1", "p:09:0"}},
		{"console.log(\"a \\\n b\".length)\n", []string{"p:2020:1"}},
		// semicolons left out
		{"let a = 1\nif (a) console.log(1); else console.log(2)\n", []string{"p:2020:0"}},
		{"let a = [1]\nlet b = a;\n[2].length\nconsole.log(b)\n", []string{"p:2020:0"}},
		{"let a = 1\nlet b = a;\n(console.log)(b)\n", []string{"p:09:0"}},
		{"let a = 1\nlet b = a;\n-a\nconsole.log(b)\n", []string{"p:09:0"}},
		{"let a = 1\nlet b = a;\n++a\nconsole.log(a, b)\n", []string{"p:20:0"}},
		{"let a = 'x'\nlet b = a;\n`t`.length\nconsole.log(b)\n", []string{"p:-:0"}},
		{"function f(a) {\n  if (a) { return; }\n  return;\n  a = 2\n}\nconsole.log(f(0))\n", []string{"p:2020:0"}},
		{"function f(a) {\n  return;\n  console.log(a)\n}\nconsole.log(f(3))\n", []string{"p:2020:0"}},
	}
	for _, x := range ws {
		c01Check(c, x.src, x.cfgs, true)
		c.count(x.src)
	}
	// generated witnesses: executable programs that fall into a known class
	made := map[string]int{}
	for i := 0; i < 3000 && !c.expired(); i++ {
		tree := jsgen.GenProgram(c.r, jsgen.GenOptions{MaxDepth: 1 + c.r.Intn(3), MaxStmts: 1 + c.r.Intn(4), Executable: true})
		src := jsgen.Render(tree, c.r, jsgen.Layout{Newlines: true, ASI: true, SingleQuotes: true})
		prog, errs := oaParse(src)
		if len(errs) > 0 {
			continue
		}
		for _, cfg := range []string{"c", "p:2020:1", "p:2020:0"} {
			cls := oaSourceClass(src, cfg, prog)
			if cls == "" || made[cls] >= 12 {
				continue
			}
			made[cls]++
			c01Check(c, src, []string{cfg}, true)
			c.count(src + cfg)
			break
		}
		done := true
		for _, k := range []string{clsRestricted, clsRequote, clsTrim, clsNoSemi} {
			if made[k] < 12 {
				done = false
			}
		}
		if done {
			break
		}
	}
}

var _ = strings.Join
