package main

import (
	"bufio"
	"fmt"
	"math/rand"
	"os"
)

func extraCommand(name string, args []string) bool {
	switch name {
	case "oracle":
		runOracle(args)
		return true
	case "gen":
		// gen <stream> <seed> <n> [thorough]
		stream := args[0]
		seed := int64(atoi(args[1]))
		n := atoi(args[2])
		thorough := len(args) > 3 && args[3] == "thorough"
		r := rand.New(rand.NewSource(seed))
		out := bufio.NewWriterSize(os.Stdout, 1<<20)
		defer out.Flush()
		emit := func(s string) { fmt.Fprintln(out, s) }
		switch stream {
		case "lex":
			genLex(r, n, thorough, emit)
		case "smap":
			rng := 1 << 11
			if thorough {
				rng = 1 << 20
			}
			genSmap(r, n, rng, emit)
		case "build":
			genBuild(r, n, emit)
		default:
			return genMore(stream, r, n, thorough, emit)
		}
		return true
	}
	return false
}
