package main

func extraCommand(name string, args []string) bool { return false }
