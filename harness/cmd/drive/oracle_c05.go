package main

// C05 "Custom operators and token types integrate consistently".
//
// Model-free oracle on the real parser/lexer builders, two parts.
//
// (a) GROUPING. Builders get registered infix operators at levels 1..13 (several at once), registered
//     prefix and registered postfix operators (dynamic token types; a lexer token interceptor retags
//     ILLEGAL characters such as @ # ^ ~ and a few identifier spellings such as `mod`). Flat
//     operator/operand token sequences mixing the built-in binary operators, assignment, built-in
//     prefix/postfix operators, call, member and index suffixes with the registered operators are
//     parsed by xjs and by a reference written here from the property text alone: textbook
//     precedence climbing over the flat token list with the documented binding powers
//     (LOWEST=1 ASSIGNMENT=2 LOGICAL_OR=3 LOGICAL_AND=4 EQUALITY=5 COMPARISON=6 SUM=7 PRODUCT=8 UNARY=9
//     POSTFIX=10 CALL=11 MEMBER=12; binary operators left-associative with the right operand parsed at
//     their own level; assignment right-associative; prefix operand at UNARY; registered postfix = a
//     suffix of CALL level). Both trees are printed as S-expressions and compared.
//     A second check needs no reference at all: every registered infix operator of a level that has
//     built-in operators (3..8) is replaced by a built-in operator of that level, every registered
//     prefix operator by `!`, every registered postfix operator by the call suffix `( )`; the same
//     builder must parse both texts to the same skeleton ("exactly like a built-in of that level").
//     Exhaustive in every tier but replay: every level 1..13 x every built-in binary/assignment
//     operator as left and as right neighbour x prefix/postfix/call/member/index neighbours, every
//     pair of levels for two registered operators; random longer mixes beyond.
//
// (b) BOOKKEEPING. Random (and systematic) histories, with repeats, of RegisterTokenType(name) (names
//     include keyword spellings, the empty string, repeats) and Register{Prefix,Infix,Postfix}Operator
//     on built-in and dynamic token ids, all on one builder. A shadow table kept here (seeded from the
//     property text) says which (role, token) pairs exist. Checked after every step: ids are stable per
//     name, distinct across names, >= 1000 and no built-in type; a registration is refused if and only
//     if its (role, token) exists; a refused registration leaves the builder unchanged and a successful
//     one changes nothing but the new operator: a probe corpus is parsed with a parser built before and
//     after the step and must parse identically (after a success: the probes that do not contain the
//     token). A freshly registered operator on a dynamic token must also work on a one-operator text.
//     Every run starts with a fixed prelude of independent builders (postfix only, prefix only, infix
//     only, all three) that build parsers, so that state leaking between builders through package
//     level tables is visible to the first history and in replay.
//
// KNOWN CLASSES
//   none. On the unchanged tree no input inside the property's wording fails.
//
// EXCLUDED COMBINATIONS (outside the property's wording; never reported, counted as steered-away:<name>)
//   postfix-shadows-infix  witness ops `i:3f:7,s:3f` text `a ? b`: one token registered both as infix
//                          and as postfix operator (or postfix on a built-in infix token). The postfix
//                          registration is a fresh (role, token) and succeeds, and the postfix parser
//                          then replaces the infix parser of the token. The property speaks about a
//                          token that already has *that* role; no built-in token has both roles.
//                          The registrations themselves are still exercised in part (b).
//   operator-on-eof        witness history `P:1`: an operator on the end-of-input token never consumes
//                          input, the parser does not terminate (prefix: unbounded recursion).
// Combinations that were looked at and are kept in because the unchanged code is consistent with the
// Pratt rule "like a left-associative operator of that level":
//   level 1 (= LOWEST, the floor of the climbing loop): the operator never binds, the text is rejected;
//   level 2 next to = += -=: `a @ b = c` is `(a @ b) = c`, `a = b @ c` is `a = (b @ c)`;
//   levels 9, 10, 11, 12 next to prefix operators and suffixes of the same level (ties group to the left);
//   level 13 above MEMBER: `a . p @ c` is `a . (p @ c)` (`.` parses its right side at MEMBER).

import (
	"fmt"
	"math/rand"
	"os"
	"strings"
	"time"

	"github.com/xjslang/xjs/ast"
	"github.com/xjslang/xjs/lexer"
	"github.com/xjslang/xjs/parser"
	"github.com/xjslang/xjs/token"
)

func init() { oracles["C05"] = oracleC05 }

// ---------- the documented levels (from the property text, not from the parser's table) ----------

const (
	c05Lowest     = 1
	c05Assignment = 2
	c05Unary      = 9
	c05Postfix    = 10
	c05Call       = 11
	c05Member     = 12
)

var c05BinaryList = []string{"||", "&&", "==", "!=", "<", ">", "<=", ">=", "+", "-", "*", "/", "%"}
var c05BinaryLevel = map[string]int{"||": 3, "&&": 4, "==": 5, "!=": 5, "<": 6, ">": 6, "<=": 6, ">=": 6, "+": 7, "-": 7, "*": 8, "/": 8, "%": 8}
var c05AssignList = []string{"=", "+=", "-="}
var c05PrefixList = []string{"!", "-", "++", "--"}

// a built-in left-associative operator of each level that has one
var c05Representative = map[int]string{3: "||", 4: "&&", 5: "==", 6: "<", 7: "+", 8: "*"}

// spellings usable for registered operators: characters the lexer reports as ILLEGAL, and identifiers
const c05CharLits = "@#^~?&|\\"

var c05Keywords = map[string]bool{"function": true, "let": true, "if": true, "else": true, "while": true, "for": true, "return": true, "true": true, "false": true, "null": true}

func c05IsWord(s string) bool {
	if s == "" || s[0] >= '0' && s[0] <= '9' {
		return false
	}
	for i := 0; i < len(s); i++ {
		if !oaIsWord(s[i]) {
			return false
		}
	}
	return true
}

func c05IsInt(s string) bool {
	if s == "" {
		return false
	}
	for i := 0; i < len(s); i++ {
		if s[i] < '0' || s[i] > '9' {
			return false
		}
	}
	return true
}

// c05UsableLit: the spelling can be turned into a dynamic token by the retagging interceptor
func c05UsableLit(s string) bool {
	if len(s) == 1 && strings.Contains(c05CharLits, s) {
		return true
	}
	return c05IsWord(s) && !c05Keywords[s]
}

// ---------- the operator language of one configuration ----------

type c05Lang struct {
	infix   map[string]int // left-associative binary operators and their level
	assign  map[string]bool
	prefix  map[string]bool
	postfix map[string]int // suffix operators without operand and their level
	regI    map[string]int
	regP    map[string]bool
	regS    map[string]bool
}

func c05LangOf(ops []customOp) *c05Lang {
	L := &c05Lang{infix: map[string]int{}, assign: map[string]bool{}, prefix: map[string]bool{}, postfix: map[string]int{},
		regI: map[string]int{}, regP: map[string]bool{}, regS: map[string]bool{}}
	for k, v := range c05BinaryLevel {
		L.infix[k] = v
	}
	for _, a := range c05AssignList {
		L.assign[a] = true
	}
	for _, p := range c05PrefixList {
		L.prefix[p] = true
	}
	L.postfix["++"], L.postfix["--"] = c05Postfix, c05Postfix
	for _, op := range ops {
		switch op.role {
		case "i":
			L.infix[op.lit], L.regI[op.lit] = op.prec, op.prec
		case "p":
			L.prefix[op.lit], L.regP[op.lit] = true, true
		case "s":
			L.postfix[op.lit], L.regS[op.lit] = c05Call, true
		}
	}
	return L
}

func (L *c05Lang) isOperator(t string) bool {
	_, i := L.infix[t]
	_, s := L.postfix[t]
	return i || s || L.assign[t] || L.prefix[t]
}

func (L *c05Lang) isLeaf(t string) bool {
	return (c05IsInt(t) || c05IsWord(t) && !c05Keywords[t]) && !L.isOperator(t)
}

// c05CfgExcluded names the excluded combination the configuration falls in ("" = none);
// bad-config: not a configuration this oracle can install (spelling not usable, repeated role).
func c05CfgExcluded(ops []customOp) string {
	seen := map[string]bool{}
	for _, op := range ops {
		if !c05UsableLit(op.lit) || seen[op.role+op.lit] || op.role == "i" && (op.prec < 1 || op.prec > 13) {
			return "bad-config"
		}
		seen[op.role+op.lit] = true
	}
	for _, op := range ops {
		if op.role == "s" && seen["i"+op.lit] {
			return "postfix-shadows-infix"
		}
	}
	return ""
}

func c05OpsStr(ops []customOp) string {
	var l []string
	for _, o := range ops {
		if o.role == "i" {
			l = append(l, fmt.Sprintf("i:%s:%d", hexOf(o.lit), o.prec))
		} else {
			l = append(l, o.role+":"+hexOf(o.lit))
		}
	}
	return listStr(l)
}

// ---------- scanner of the flat token sequences (own, a few lines) ----------

var c05Two = []string{"++", "--", "==", "!=", "<=", ">=", "&&", "||", "+=", "-="}

// c05Scan splits a one-line expression text into tokens; ok=false when the text is outside the
// sublanguage of this oracle (line breaks, strings, comments, braces, keywords, several statements).
func c05Scan(src string) (toks []string, ok bool) {
	i := 0
	for i < len(src) {
		ch := src[i]
		switch {
		case ch == ' ' || ch == '\t':
			i++
		case ch >= '0' && ch <= '9':
			j := i
			for j < len(src) && src[j] >= '0' && src[j] <= '9' {
				j++
			}
			// plain decimal integers only (no float, exponent, radix prefix, legacy octal, overflow)
			if j < len(src) && (src[j] == '.' || oaIsWord(src[j])) || j-i > 9 || j-i > 1 && src[i] == '0' {
				return nil, false
			}
			toks = append(toks, src[i:j])
			i = j
		case oaIsWord(ch):
			j := i
			for j < len(src) && oaIsWord(src[j]) {
				j++
			}
			if c05Keywords[src[i:j]] {
				return nil, false
			}
			toks = append(toks, src[i:j])
			i = j
		default:
			two := ""
			for _, t := range c05Two {
				if strings.HasPrefix(src[i:], t) {
					two = t
				}
			}
			switch {
			case strings.HasPrefix(src[i:], "//"):
				return nil, false
			case two != "":
				// single & and | next to each other would be read as one && / || token
				toks = append(toks, two)
				i += 2
			case strings.IndexByte("+-*/%<>=!().,[];", ch) >= 0 || strings.IndexByte(c05CharLits, ch) >= 0:
				toks = append(toks, string(ch))
				i++
			default:
				return nil, false
			}
		}
	}
	for k, t := range toks {
		if t == ";" && k != len(toks)-1 {
			return nil, false
		}
	}
	return toks, len(toks) > 0
}

// ---------- the reference: textbook precedence climbing over the token list ----------

type c05Node struct {
	kind string // leaf bin asg pre post sfx call mem idx grp arr
	op   string
	at   int // index of the operator (or leaf) token
	kids []*c05Node
}

func (n *c05Node) str(skel bool) string {
	var ks []string
	for _, k := range n.kids {
		ks = append(ks, k.str(skel))
	}
	head := n.kind
	switch n.kind {
	case "leaf":
		return n.op
	case "bin", "asg":
		if !skel {
			head = n.op
		}
	case "pre":
		if !skel {
			head = "pre:" + n.op
		}
	case "post", "sfx":
		if !skel {
			head = "post:" + n.op
		}
	case "call":
		if skel && len(n.kids) == 1 {
			head = "sfx"
		}
	}
	return "(" + head + " " + strings.Join(ks, " ") + ")"
}

type c05Ref struct {
	toks []string
	pos  int
	L    *c05Lang
}

type c05RefError string

func (p *c05Ref) peek() string {
	if p.pos < len(p.toks) {
		return p.toks[p.pos]
	}
	return ""
}

func (p *c05Ref) expect(t string) {
	if p.peek() != t {
		panic(c05RefError(fmt.Sprintf("%q expected at token %d, found %q", t, p.pos, p.peek())))
	}
	p.pos++
}

// leftPower: the binding power of a token standing where an operator is expected (0 = none)
func (p *c05Ref) leftPower(t string) int {
	switch {
	case t == "(":
		return c05Call
	case t == "." || t == "[":
		return c05Member
	case p.L.assign[t]:
		return c05Assignment
	}
	if l, ok := p.L.postfix[t]; ok {
		return l
	}
	if l, ok := p.L.infix[t]; ok {
		return l
	}
	return 0
}

func (p *c05Ref) list(end string) []*c05Node {
	var out []*c05Node
	if p.peek() == end {
		p.pos++
		return out
	}
	for {
		out = append(out, p.expr(c05Lowest))
		if p.peek() == "," {
			p.pos++
			continue
		}
		p.expect(end)
		return out
	}
}

func (p *c05Ref) primary() *c05Node {
	t, at := p.peek(), p.pos
	if t == "" {
		panic(c05RefError("operand expected at end of input"))
	}
	p.pos++
	switch {
	case p.L.prefix[t]:
		return &c05Node{kind: "pre", op: t, at: at, kids: []*c05Node{p.expr(c05Unary)}}
	case t == "(":
		e := p.expr(c05Lowest)
		p.expect(")")
		return &c05Node{kind: "grp", at: at, kids: []*c05Node{e}}
	case t == "[":
		return &c05Node{kind: "arr", at: at, kids: p.list("]")}
	case p.L.isLeaf(t):
		return &c05Node{kind: "leaf", op: t, at: at}
	}
	panic(c05RefError(fmt.Sprintf("operand expected at token %d, found %q", at, t)))
}

// expr parses an operand and then every operator whose binding power exceeds min.
func (p *c05Ref) expr(min int) *c05Node {
	left := p.primary()
	for {
		t, at := p.peek(), p.pos
		if t == "" || t == ";" {
			return left
		}
		lp := p.leftPower(t)
		if lp <= min {
			return left
		}
		p.pos++
		_, isPostfix := p.L.postfix[t]
		switch {
		case t == "(":
			left = &c05Node{kind: "call", at: at, kids: append([]*c05Node{left}, p.list(")")...)}
		case t == ".":
			left = &c05Node{kind: "mem", at: at, kids: []*c05Node{left, p.expr(c05Member)}}
		case t == "[":
			ix := p.expr(c05Lowest)
			p.expect("]")
			left = &c05Node{kind: "idx", at: at, kids: []*c05Node{left, ix}}
		case p.L.assign[t]: // right-associative: the right side is a whole expression
			left = &c05Node{kind: "asg", op: t, at: at, kids: []*c05Node{left, p.expr(c05Lowest)}}
		case isPostfix:
			kind := "post"
			if p.L.regS[t] {
				kind = "sfx"
			}
			left = &c05Node{kind: kind, op: t, at: at, kids: []*c05Node{left}}
		default: // left-associative: the right operand is parsed at the operator's own level
			left = &c05Node{kind: "bin", op: t, at: at, kids: []*c05Node{left, p.expr(lp)}}
		}
	}
}

// c05Reference parses the whole token list as one expression statement; why != "" = rejected.
func c05Reference(toks []string, L *c05Lang) (tree *c05Node, why string) {
	defer func() {
		if r := recover(); r != nil {
			if e, ok := r.(c05RefError); ok {
				tree, why = nil, string(e)
				return
			}
			panic(r)
		}
	}()
	p := &c05Ref{toks: toks, L: L}
	tree = p.expr(c05Lowest)
	if p.peek() == ";" {
		p.pos++
	}
	if p.pos != len(toks) {
		return nil, fmt.Sprintf("the expression ends before token %d %q", p.pos, p.peek())
	}
	return tree, ""
}

// c05Substitute replaces registered operators by built-in ones of the same level/kind; n = how many.
func c05Substitute(toks []string, tree *c05Node, L *c05Lang) (out []string, n int) {
	repl := map[int][]string{}
	var walk func(*c05Node)
	walk = func(x *c05Node) {
		switch x.kind {
		case "bin":
			if lvl, ok := L.regI[x.op]; ok && c05Representative[lvl] != "" {
				repl[x.at] = []string{c05Representative[lvl]}
			}
		case "pre":
			if L.regP[x.op] {
				repl[x.at] = []string{"!"}
			}
		case "sfx":
			repl[x.at] = []string{"(", ")"}
		}
		for _, k := range x.kids {
			walk(k)
		}
	}
	walk(tree)
	for i, t := range toks {
		if r, ok := repl[i]; ok {
			out = append(out, r...)
			n++
		} else {
			out = append(out, t)
		}
	}
	return out, n
}

// ---------- the real implementation ----------

// c05Sexp prints the xjs tree in the format of c05Node.str.
func c05Sexp(e ast.Expression, skel bool) string {
	if isNilB(e) {
		return "<nil>"
	}
	list := func(head string, es ...ast.Expression) string {
		parts := make([]string, len(es))
		for i, x := range es {
			parts[i] = c05Sexp(x, skel)
		}
		return "(" + head + " " + strings.Join(parts, " ") + ")"
	}
	pick := func(full, sk string) string {
		if skel {
			return sk
		}
		return full
	}
	switch n := e.(type) {
	case *ast.Identifier:
		return n.Value
	case *ast.IntegerLiteral:
		return n.Token.Literal
	case *ast.BinaryExpression:
		return list(pick(n.Operator, "bin"), n.Left, n.Right)
	case *ast.AssignmentExpression:
		return list(pick("=", "asg"), n.Left, n.Value)
	case *ast.CompoundAssignmentExpression:
		return list(pick(n.Operator+"=", "asg"), n.Left, n.Value)
	case *ast.UnaryExpression:
		return list(pick("pre:"+n.Operator, "pre"), n.Right)
	case *ast.PostfixExpression:
		sk := "sfx"
		if n.Operator == "++" || n.Operator == "--" {
			sk = "post"
		}
		return list(pick("post:"+n.Operator, sk), n.Left)
	case *ast.CallExpression:
		head := "call"
		if skel && len(n.Arguments) == 0 {
			head = "sfx"
		}
		return list(head, append([]ast.Expression{n.Function}, n.Arguments...)...)
	case *ast.MemberExpression:
		if n.Computed {
			return list("idx", n.Object, n.Property)
		}
		return list("mem", n.Object, n.Property)
	case *ast.GroupedExpression:
		return list("grp", n.Expression)
	case *ast.ArrayLiteral:
		return list("arr", n.Elements...)
	}
	return fmt.Sprintf("<%T>", e)
}

// c05Retag turns ILLEGAL characters and identifiers that spell a registered operator into its token type.
func c05Retag(lb *lexer.Builder, dyn map[string]token.Type) {
	lb.UseTokenInterceptor(func(l *lexer.Lexer, next func() token.Token) token.Token {
		t := next()
		if t.Type == token.ILLEGAL || t.Type == token.IDENT {
			if id, ok := dyn[t.Literal]; ok {
				t.Type = id
			}
		}
		return t
	})
}

func c05IsBuiltinType(id token.Type) bool { return id >= token.ILLEGAL && id <= token.NULL }

// c05Builder installs the configuration on a fresh builder through the public API; problem != "" when
// a registration that is fresh by construction is refused or a token id is not a dynamic one.
func c05Builder(ops []customOp) (pb *parser.Builder, problem string) {
	lb := lexer.NewBuilder()
	pb = parser.NewBuilder(lb)
	dyn := map[string]token.Type{}
	c05Retag(lb, dyn)
	for _, op := range ops {
		id := lb.RegisterTokenType("op " + op.lit)
		if id < token.DYNAMIC_TOKENS_START || c05IsBuiltinType(id) {
			return nil, fmt.Sprintf("RegisterTokenType(%q) = %d on a fresh builder is not a dynamic id", "op "+op.lit, int(id))
		}
		if old, ok := dyn[op.lit]; ok && old != id {
			return nil, fmt.Sprintf("RegisterTokenType(%q) = %d, earlier %d", "op "+op.lit, int(id), int(old))
		}
		dyn[op.lit] = id
		var err error
		switch op.role {
		case "p":
			err = pb.RegisterPrefixOperator(id, genericPrefix)
		case "i":
			err = pb.RegisterInfixOperator(id, op.prec, genericInfix)
		case "s":
			err = pb.RegisterPostfixOperator(id, genericPostfix)
		}
		if err != nil {
			return nil, fmt.Sprintf("registration %s of %q (token %d) on a builder without that (role, token) is refused: %v", op.role, op.lit, int(id), err)
		}
	}
	return pb, ""
}

type c05Parsed struct {
	full, skel string
	errs       []parser.ParserError
	shape      string // != "": error-free but not exactly one expression statement
}

func c05Parse(pb *parser.Builder, src string) c05Parsed {
	p := pb.Build(src)
	prog, _ := p.ParseProgram()
	out := c05Parsed{errs: p.Errors()}
	if len(out.errs) > 0 {
		return out
	}
	if len(prog.Statements) != 1 {
		out.shape = fmt.Sprintf("%d statements", len(prog.Statements))
		return out
	}
	es, ok := prog.Statements[0].(*ast.ExpressionStatement)
	if !ok || es == nil {
		out.shape = fmt.Sprintf("statement is a %T", prog.Statements[0])
		return out
	}
	out.full, out.skel = c05Sexp(es.Expression, false), c05Sexp(es.Expression, true)
	return out
}

// ---------- running one case ----------

// c05Hung: a case did not come back. Its goroutine cannot be stopped, so the oracle reports it and stops.
var c05Hung bool

const c05Patience = 20 * time.Second

// c05Run runs one case with panic recovery and a time limit (a case takes well under a millisecond).
func c05Run(c *oracleCtx, input map[string]any, f func()) {
	if c05Hung {
		return
	}
	done := make(chan struct{})
	go func() {
		defer close(done)
		guard(c, "", input, f)
	}()
	t := time.NewTimer(c05Patience)
	defer t.Stop()
	select {
	case <-done:
	case <-t.C:
		c05Hung = true
		c.violation("", fmt.Sprintf("the parser does not come back within %v (operators installed through the public API, end-of-input token untouched)", c05Patience), input)
	}
}

// ---------- (a) the grouping check ----------

// c05CheckGroup: lenient = the text comes from an op line of another stream (possibly corrupted):
// only texts the reference accepts are judged.
func c05CheckGroup(c *oracleCtx, ops []customOp, src string, lenient bool) {
	input := map[string]any{"mode": "group", "ops": c05OpsStr(ops), "src": hexOf(src), "text": src}
	c05Run(c, input, func() {
		if ex := c05CfgExcluded(ops); ex != "" {
			c.bump("steered-away:" + ex)
			return
		}
		L := c05LangOf(ops)
		toks, ok := c05Scan(src)
		if !ok {
			c.bump("input-outside-sublanguage")
			return
		}
		ref, why := c05Reference(toks, L)
		if why != "" && lenient {
			c.bump("input-ill-formed")
			return
		}
		pb, problem := c05Builder(ops)
		if problem != "" {
			c.violation("", "grouping: "+problem, input)
			return
		}
		got := c05Parse(pb, src)
		if why != "" {
			c.bump("rejections-compared")
			if len(got.errs) == 0 {
				c.violation("", fmt.Sprintf("grouping: precedence climbing rejects the text (%s) but xjs accepts it as %s %s", why, got.full, got.shape), input)
			}
			return
		}
		want := ref.str(false)
		input["expected"] = want
		switch {
		case len(got.errs) > 0:
			c.violation("", "grouping: xjs rejects the text ("+oaErrText(got.errs)+"), precedence climbing gives "+want, input)
			return
		case got.shape != "":
			c.violation("", "grouping: xjs returns "+got.shape+", precedence climbing gives "+want, input)
			return
		case got.full != want:
			input["got"] = got.full
			c.violation("", "grouping: xjs groups as "+got.full+", a left-associative operator of that level groups as "+want, input)
			return
		}
		c.bump("trees-compared")

		// the same text with built-in operators of the same level/kind in place of the registered ones
		vtoks, n := c05Substitute(toks, ref, L)
		if n == 0 {
			return
		}
		vsrc := strings.Join(vtoks, " ")
		input["builtin-variant"] = vsrc
		v := c05Parse(pb, vsrc)
		switch {
		case len(v.errs) > 0 || v.shape != "":
			c.violation("", "grouping: with built-in operators in place of the registered ones xjs rejects the text ("+oaErrText(v.errs)+" "+v.shape+")", input)
		case v.skel != got.skel:
			c.violation("", "grouping: registered operators group as "+got.skel+", built-in operators of the same level in their place as "+v.skel, input)
		default:
			c.bump("substitutions-compared")
		}

		// layout: a registered infix operator as the first token of a line, with and without smart semicolons, is read
		// like the built-in operator of its level in the same place
		var regText, biText []string
		breaks := 0
		binAt := map[int]bool{} // positions where the reference reads the token as a binary operator
		var walkBin func(*c05Node)
		walkBin = func(x *c05Node) {
			if x.kind == "bin" {
				binAt[x.at] = true
			}
			for _, k := range x.kids {
				walkBin(k)
			}
		}
		walkBin(ref)
		for i, t := range toks {
			lvl, isReg := L.regI[t]
			if isReg && binAt[i] && c05Representative[lvl] != "" {
				regText = append(regText, "\n"+t)
				biText = append(biText, "\n"+c05Representative[lvl])
				breaks++
			} else {
				regText = append(regText, t)
				biText = append(biText, t)
			}
		}
		// at any level: a line break in front of a registered binary operator is as insignificant as in front of a built-in
		// one — the text with every registered binary operator first on its line groups like the one-line text
		{
			var lines []string
			n := 0
			for i, t := range toks {
				if _, isReg := L.regI[t]; isReg && binAt[i] {
					lines = append(lines, "\n"+t)
					n++
				} else {
					lines = append(lines, t)
				}
			}
			if n > 0 {
				lsrc := strings.Join(lines, " ")
				for _, smart := range []bool{false, true} {
					pb.WithSmartSemicolon(smart)
					one, many := c05Parse(pb, src), c05Parse(pb, lsrc)
					if (len(one.errs) > 0) != (len(many.errs) > 0) || one.shape != many.shape || one.skel != many.skel {
						in2 := map[string]any{}
						for k, v := range input {
							in2[k] = v
						}
						in2["line-start-text"], in2["smart"] = lsrc, smart
						c.violation("", fmt.Sprintf("layout: on one line the text groups as %s %s (%s); with the registered operators first on their lines (smart semicolons %v) as %s %s (%s)",
							one.skel, one.shape, oaErrText(one.errs), smart, many.skel, many.shape, oaErrText(many.errs)), in2)
						pb.WithSmartSemicolon(false)
						return
					}
					c.bump("one-line-vs-line-start")
				}
				pb.WithSmartSemicolon(false)
			}
		}
		if breaks == 0 {
			return
		}
		rsrc, bsrc := strings.Join(regText, " "), strings.Join(biText, " ")
		for _, smart := range []bool{false, true} {
			pb.WithSmartSemicolon(smart)
			r, b := c05Parse(pb, rsrc), c05Parse(pb, bsrc)
			if (len(r.errs) > 0) != (len(b.errs) > 0) || r.shape != b.shape || r.skel != b.skel {
				in2 := map[string]any{}
				for k, v := range input {
					in2[k] = v
				}
				in2["line-start-text"], in2["builtin-variant"], in2["smart"] = rsrc, bsrc, smart
				c.violation("", fmt.Sprintf("layout: with the operator at the start of a line (smart semicolons %v) the registered operators give %s %s (%s), built-in operators of the same level in their place %s %s (%s)",
					smart, r.skel, r.shape, oaErrText(r.errs), b.skel, b.shape, oaErrText(b.errs)), in2)
				break
			}
			c.bump("line-start-layouts-compared")
		}
		pb.WithSmartSemicolon(false)
	})
}

func c05Exhaustive(c *oracleCtx) {
	run := func(ops []customOp, src string) {
		if c05Hung {
			return
		}
		c.count(c05OpsStr(ops) + "|" + src)
		c05CheckGroup(c, ops, src, false)
	}
	neighbours := append(append([]string{}, c05BinaryList...), c05AssignList...)
	suffixes := []string{"++", "--", "#", ". p", "[ i ]", "( x )", "( )", "( x , y )"}
	for lvl := 1; lvl <= 13 && !c.expired(); lvl++ {
		ops := []customOp{{role: "i", lit: "@", prec: lvl}, {role: "p", lit: "~"}, {role: "s", lit: "#"}}
		for _, op := range neighbours {
			run(ops, "a "+op+" b @ c")
			run(ops, "a @ b "+op+" c")
			run(ops, "a "+op+" b @ c "+op+" d")
			run(ops, "a @ b "+op+" c @ d")
		}
		for _, pre := range append(append([]string{}, c05PrefixList...), "~") {
			run(ops, pre+" a @ b")
			run(ops, "a @ "+pre+" b")
			run(ops, pre+" a @ "+pre+" b @ c")
		}
		for _, suf := range suffixes {
			run(ops, "a @ b "+suf)
			run(ops, "a "+suf+" @ b")
			run(ops, "a @ b "+suf+" @ c "+suf)
			run(ops, "~ a @ b "+suf)
		}
		for _, s := range []string{"a @ b", "a @ b @ c", "a @ b @ c @ d", "( a @ b ) @ c", "a @ ( b @ c )", "f ( a @ b , c @ d )", "a [ i @ j ]",
			"[ a @ b , c ]", "a @ b ;", "a . p @ b . q", "a = b @ c = d", "x = a @ b", "- a @ b ++", "! a @ b ( x ) . p", "a @ 1 + 2"} {
			run(ops, s)
		}
	}
	// registered prefix and postfix operators next to every built-in operator
	ops := []customOp{{role: "p", lit: "~"}, {role: "s", lit: "#"}, {role: "p", lit: "typeof"}, {role: "s", lit: "?"}}
	for _, op := range neighbours {
		for _, s := range []string{"~ a OP b", "a OP ~ b", "a OP b #", "a # OP b", "~ a # OP ~ b #", "typeof a OP b ?", "a ? OP typeof b"} {
			run(ops, strings.ReplaceAll(s, "OP", op))
		}
	}
	for _, pre := range append(append([]string{}, c05PrefixList...), "~", "typeof") {
		for _, suf := range append(append([]string{}, suffixes...), "?") {
			run(ops, pre+" a "+suf)
			run(ops, pre+" a "+suf+" #")
			run(ops, pre+" ~ a # "+suf)
			run(ops, "~ "+pre+" a "+suf+" "+suf)
		}
	}
	// two registered infix operators at every pair of levels
	for l1 := 1; l1 <= 13 && !c.expired(); l1++ {
		for l2 := 1; l2 <= 13; l2++ {
			ops := []customOp{{role: "i", lit: "@", prec: l1}, {role: "i", lit: "mod", prec: l2}, {role: "p", lit: "~"}, {role: "s", lit: "#"}}
			run(ops, "a @ b mod c")
			run(ops, "a mod b @ c")
			run(ops, "a @ b mod c @ d mod e")
			run(ops, "~ a @ b # mod ~ c #")
		}
	}
	// one spelling as prefix and as infix operator (like the built-in -), as prefix and as postfix (like ++)
	for lvl := 1; lvl <= 13; lvl++ {
		ops := []customOp{{role: "i", lit: "^", prec: lvl}, {role: "p", lit: "^"}, {role: "p", lit: "?"}, {role: "s", lit: "?"}}
		for _, s := range []string{"^ a ^ ^ b", "a ^ ^ b ^ c", "? a ?", "? a ^ b ?", "a ? ^ ^ ? b ? ?", "a + ^ b * c ^ d"} {
			run(ops, s)
		}
	}
}

// ---------- random configurations and token sequences ----------

func c05RandOps(c *oracleCtx) []customOp {
	r := c.r
	var ops []customOp
	used := map[string]bool{}
	infixLits := []string{"@", "^", "&", "|", "?", "\\", "mod", "xor"}
	for i, n := 0, 1+r.Intn(4); i < n; i++ {
		lit := infixLits[r.Intn(len(infixLits))]
		if used["i"+lit] {
			continue
		}
		used["i"+lit] = true
		ops = append(ops, customOp{role: "i", lit: lit, prec: 1 + r.Intn(13)})
	}
	prefixLits := []string{"~", "typeof", "void", "^", "@", "#"}
	for i, n := 0, r.Intn(3); i < n; i++ {
		lit := prefixLits[r.Intn(len(prefixLits))]
		if used["p"+lit] {
			continue
		}
		used["p"+lit] = true
		ops = append(ops, customOp{role: "p", lit: lit})
	}
	postfixLits := []string{"#", "?", "~", "@", "xor"}
	for i, n := 0, r.Intn(3); i < n; i++ {
		lit := postfixLits[r.Intn(len(postfixLits))]
		if used["s"+lit] {
			continue
		}
		if used["i"+lit] {
			c.bump("steered-away:postfix-shadows-infix")
			continue
		}
		used["s"+lit] = true
		ops = append(ops, customOp{role: "s", lit: lit})
	}
	r.Shuffle(len(ops), func(i, j int) { ops[i], ops[j] = ops[j], ops[i] })
	return ops
}

type c05Gen struct {
	r       *rand.Rand
	toks    []string
	names   int
	binary  []string // candidates for the operator position, registered ones repeated
	prefix  []string
	postfix []string
	budget  int
}

func c05NewGen(r *rand.Rand, ops []customOp) *c05Gen {
	g := &c05Gen{r: r, budget: 4 + r.Intn(22)}
	g.binary = append(g.binary, c05BinaryList...)
	g.binary = append(g.binary, c05AssignList...)
	g.prefix = append(g.prefix, c05PrefixList...)
	g.postfix = append(g.postfix, "++", "--")
	for _, op := range ops {
		switch op.role {
		case "i":
			for k := 0; k < 6; k++ {
				g.binary = append(g.binary, op.lit)
			}
		case "p":
			g.prefix = append(g.prefix, op.lit, op.lit)
		case "s":
			g.postfix = append(g.postfix, op.lit, op.lit)
		}
	}
	return g
}

func (g *c05Gen) emit(ts ...string) {
	g.toks = append(g.toks, ts...)
	g.budget -= len(ts)
}

func (g *c05Gen) name() string {
	g.names++
	if g.names <= 26 {
		return string(rune('a' + g.names - 1))
	}
	return fmt.Sprintf("v%d", g.names)
}

func (g *c05Gen) operand(depth int) {
	r := g.r
	for k, n := 0, []int{0, 0, 0, 0, 1, 1, 2}[r.Intn(7)]; k < n; k++ {
		g.emit(g.prefix[r.Intn(len(g.prefix))])
	}
	isInt := false
	switch k := r.Intn(12); {
	case k == 0:
		g.emit(fmt.Sprint(r.Intn(100)))
		isInt = true
	case k == 1 && depth > 0 && g.budget > 4:
		g.emit("(")
		g.expr(depth - 1)
		g.emit(")")
	default:
		g.emit(g.name())
	}
	for k, n := 0, []int{0, 0, 0, 1, 1, 2, 3}[r.Intn(7)]; k < n; k++ {
		switch s := r.Intn(8); {
		case s <= 2:
			g.emit(g.postfix[r.Intn(len(g.postfix))])
		case s == 3 || s == 4:
			if isInt && k == 0 {
				g.emit("++")
				continue
			}
			g.emit(".", g.name())
		case s == 5 && depth > 0 && g.budget > 3:
			g.emit("[")
			g.expr(depth - 1)
			g.emit("]")
		case s == 6 && depth > 0 && g.budget > 3:
			g.emit("(")
			for a, m := 0, r.Intn(3); a < m; a++ {
				if a > 0 {
					g.emit(",")
				}
				g.expr(depth - 1)
			}
			g.emit(")")
		default:
			g.emit("(", ")")
		}
	}
}

func (g *c05Gen) expr(depth int) {
	g.operand(depth)
	for g.budget > 0 && g.r.Intn(5) > 0 {
		g.emit(g.binary[g.r.Intn(len(g.binary))])
		g.operand(depth)
	}
}

func c05RandText(r *rand.Rand, ops []customOp) string {
	g := c05NewGen(r, ops)
	g.expr(2)
	if r.Intn(6) == 0 {
		g.emit(";")
	}
	return strings.Join(g.toks, " ")
}

// ---------- (b) registration histories ----------

// the (role, token) pairs of the built-in language, from the property text
var c05SeedPrefix = []token.Type{token.IDENT, token.INT, token.FLOAT, token.STRING, token.RAW_STRING, token.TRUE, token.FALSE, token.NULL,
	token.NOT, token.MINUS, token.INCREMENT, token.DECREMENT, token.LPAREN, token.LBRACKET, token.LBRACE, token.FUNCTION}
var c05SeedInfix = []token.Type{token.ASSIGN, token.PLUS_ASSIGN, token.MINUS_ASSIGN, token.OR, token.AND, token.EQ, token.NOT_EQ,
	token.LT, token.GT, token.LTE, token.GTE, token.PLUS, token.MINUS, token.MULTIPLY, token.DIVIDE, token.MODULO,
	token.INCREMENT, token.DECREMENT, token.LPAREN, token.DOT, token.LBRACKET}
var c05SeedPostfix = []token.Type{token.INCREMENT, token.DECREMENT}

// spellings handed to dynamic ids in a history, in allocation order
var c05HistLits = []string{"@", "#", "^", "~", "mod"}

var c05Probes = func() []string {
	out := []string{
		"a + b * c", "a = b || c && d", "f(x).y[z]++", "-a * !b", "let v = 1; v += 2", "if (a) { b; } else c;",
		"function f(p, q) { return p - q; }", "x = [1, 2, {k: null}]", "for (let i = 0; i < n; i++) { s -= i; }", "while (true) x--;",
		"a == b != c <= d >= e < f > g", "a / b % c", "(a, b)", "a b", "x = \"s\" + `t`", "++a.b", "a.b.c(d)(e)[f]", "1.5 + 0x10",
		")", "a +", "= a", "a $ b : c", "x = function() { return false; };", "a\n(b)\n[c]",
	}
	for _, l := range c05HistLits {
		for _, s := range []string{"a L b", "L a", "a L", "a L b + c", "a * b L c", "a L b || c", "a == b L c", "- a L b", "a L b ++", "L a . p",
			"a . p L", "a = b L c", "a L L", "L L a", "f ( a L b , L c )", "a L b L c"} {
			out = append(out, strings.ReplaceAll(s, "L", l))
		}
	}
	return out
}()

type c05Hist struct {
	lb      *lexer.Builder
	pb      *parser.Builder
	dyn     map[string]token.Type // spelling -> id, read by the retagging interceptor
	litOf   map[token.Type]string
	names   map[string]token.Type
	owner   map[token.Type]string
	roles   map[string]bool // shadow bookkeeping: "P:<id>" "I:<id>" "S:<id>"
	nextLit int
	use     []bool // probes in use, nil = all
}

func c05NewHist() *c05Hist {
	h := &c05Hist{lb: lexer.NewBuilder(), dyn: map[string]token.Type{}, litOf: map[token.Type]string{}, names: map[string]token.Type{},
		owner: map[token.Type]string{}, roles: map[string]bool{}}
	h.pb = parser.NewBuilder(h.lb)
	c05Retag(h.lb, h.dyn)
	for _, t := range c05SeedPrefix {
		h.roles[fmt.Sprintf("P:%d", int(t))] = true
	}
	for _, t := range c05SeedInfix {
		h.roles[fmt.Sprintf("I:%d", int(t))] = true
	}
	for _, t := range c05SeedPostfix {
		h.roles[fmt.Sprintf("S:%d", int(t))] = true
	}
	return h
}

// giveLit chooses the spelling of a newly allocated id: its name if that is one of the spellings, else the next free one
func (h *c05Hist) giveLit(id token.Type, name string) {
	lit := ""
	for _, l := range c05HistLits {
		if l == name {
			if _, taken := h.dyn[l]; !taken {
				lit = l
			}
		}
	}
	for lit == "" && h.nextLit < len(c05HistLits) {
		if _, taken := h.dyn[c05HistLits[h.nextLit]]; !taken {
			lit = c05HistLits[h.nextLit]
		}
		h.nextLit++
	}
	if lit != "" {
		h.dyn[lit], h.litOf[id] = id, lit
	}
}

func (h *c05Hist) parseOne(src string) string {
	p := h.pb.Build(src)
	prog, _ := p.ParseProgram()
	return stmtListStr(prog.Statements) + "/" + errsStrB(p.Errors())
}

// parseProbes parses the probes in use (all of them when use is nil); the others stay "".
func (h *c05Hist) parseProbes() []string {
	out := make([]string, len(c05Probes))
	for i, s := range c05Probes {
		if h.use == nil || h.use[i] {
			out[i] = h.parseOne(s)
		}
	}
	return out
}

// c05ProbeSubset: about two fifths of the corpus, a function of the history text alone (replay uses
// the whole corpus, which can only find more).
func c05ProbeSubset(hist []string) []bool {
	var seed int64 = 1469598103
	for _, b := range []byte(strings.Join(hist, " ")) {
		seed = seed*1099511 + int64(b)
	}
	r := rand.New(rand.NewSource(seed))
	use := make([]bool, len(c05Probes))
	for i := range use {
		use[i] = r.Intn(5) < 2
	}
	return use
}

// contains: the probe, as the builder's lexer reads it now, has a token of the type (EOF included)
func (h *c05Hist) contains(src string, id token.Type) bool {
	l := h.lb.Build(src)
	for i := 0; i <= len(src)+2; i++ {
		t := l.NextToken()
		if t.Type == id {
			return true
		}
		if t.Type == token.EOF {
			break
		}
	}
	return false
}

// c05ValidItems keeps the well-formed steps of a history given from outside (B: steps of BUILD lines are dropped).
func c05ValidItems(items []string) []string {
	isNum := func(s string) bool { return c05IsInt(s) && len(s) < 9 }
	isHex := func(s string) bool {
		if s == "-" {
			return true
		}
		for i := 0; i < len(s); i++ {
			if !strings.ContainsRune("0123456789abcdef", rune(s[i])) {
				return false
			}
		}
		return len(s)%2 == 0 && s != ""
	}
	var out []string
	for _, it := range items {
		f := strings.Split(it, ":")
		switch {
		case f[0] == "T" && len(f) == 2 && isHex(f[1]),
			(f[0] == "P" || f[0] == "S") && len(f) == 2 && isNum(f[1]),
			f[0] == "I" && len(f) == 3 && isNum(f[1]) && isNum(f[2]) && atoi(f[2]) >= 1 && atoi(f[2]) <= 13:
			out = append(out, it)
		}
	}
	return out
}

func c05ItemText(item string) string {
	f := strings.Split(item, ":")
	switch {
	case f[0] == "T" && len(f) == 2:
		return fmt.Sprintf("RegisterTokenType(%q)", unhex(f[1]))
	case f[0] == "P" && len(f) == 2:
		return "RegisterPrefixOperator(" + f[1] + ")"
	case f[0] == "I" && len(f) == 3:
		return "RegisterInfixOperator(" + f[1] + ", " + f[2] + ")"
	case f[0] == "S" && len(f) == 2:
		return "RegisterPostfixOperator(" + f[1] + ")"
	}
	return item
}

// c05CheckHistory: sampled = judge with a sample of the probe corpus (random histories) instead of all of it.
func c05CheckHistory(c *oracleCtx, hist []string, sampled bool) {
	input := map[string]any{"mode": "hist", "history": strings.Join(hist, " ")}
	c05Run(c, input, func() {
		h := c05NewHist()
		if sampled {
			h.use = c05ProbeSubset(hist)
		}
		cur := h.parseProbes()
		for step, item := range hist {
			f := strings.Split(item, ":")
			fail := func(msg string) {
				input["step"] = step
				c.violation("", fmt.Sprintf("bookkeeping: step %d %s: %s", step, c05ItemText(item), msg), input)
			}
			// same: the probes (all, or those without the token) parse as before the step
			same := func(after []string, except token.Type, all bool, what string) bool {
				for i, s := range c05Probes {
					if after[i] == cur[i] || !all && h.contains(s, except) {
						continue
					}
					input["probe"] = s
					fail(what + fmt.Sprintf(": probe %q parsed as %s before and as %s after", s, oaClip(cur[i], 300), oaClip(after[i], 300)))
					return false
				}
				return true
			}
			switch {
			case f[0] == "T" && len(f) == 2:
				name := unhex(f[1])
				id := h.lb.RegisterTokenType(name)
				fresh := false
				if prev, seen := h.names[name]; seen {
					if prev != id {
						fail(fmt.Sprintf("returns %d, for the same name it returned %d before", int(id), int(prev)))
						return
					}
				} else {
					if id < token.DYNAMIC_TOKENS_START || c05IsBuiltinType(id) {
						fail(fmt.Sprintf("returns %d (%s), which is not a dynamic id (>= 1000, no built-in token type)", int(id), id))
						return
					}
					if other, taken := h.owner[id]; taken {
						fail(fmt.Sprintf("returns %d, the id of the other name %q", int(id), other))
						return
					}
					h.names[name], h.owner[id] = id, name
					h.giveLit(id, name)
					fresh = true
				}
				after := h.parseProbes()
				if !same(after, id, !fresh, "registering a token type changed the parser") {
					return
				}
				cur = after
				c.bump("token-type-steps")
			case (f[0] == "P" || f[0] == "S") && len(f) == 2 || f[0] == "I" && len(f) == 3:
				id := token.Type(atoi(f[1]))
				if id == token.EOF {
					c.bump("steered-away:operator-on-eof")
					continue
				}
				key := f[0] + ":" + f[1]
				exists := h.roles[key]
				var err error
				switch f[0] {
				case "P":
					err = h.pb.RegisterPrefixOperator(id, genericPrefix)
				case "I":
					err = h.pb.RegisterInfixOperator(id, atoi(f[2]), genericInfix)
				case "S":
					err = h.pb.RegisterPostfixOperator(id, genericPostfix)
				}
				if exists && err == nil {
					fail("the token already has that role (built-in or registered earlier) but the registration is accepted")
					return
				}
				if !exists && err != nil {
					fail("no operator of that role exists for the token, but the registration is refused: " + err.Error())
					return
				}
				after := h.parseProbes()
				if err != nil {
					c.bump("refused-steps")
					if !same(after, id, true, "a refused registration changed the parser") {
						return
					}
				} else {
					c.bump("accepted-steps")
					if !same(after, id, false, "a registration changed the parsing of a text without the new operator's token") {
						return
					}
					h.roles[key] = true
					// the new operator works (dynamic tokens that have a spelling)
					if lit := h.litOf[id]; lit != "" {
						src, want := "", ""
						switch {
						case f[0] == "P":
							src, want = lit+" x", "(pre:"+lit+" x)"
						case f[0] == "S":
							src, want = "x "+lit, "(post:"+lit+" x)"
						case atoi(f[2]) >= c05Assignment && atoi(f[2]) <= 13 && !h.roles["S:"+f[1]]:
							src, want = "x "+lit+" y", "("+lit+" x y)"
						}
						if src != "" {
							got := c05Parse(h.pb, src)
							if len(got.errs) > 0 || got.full != want {
								input["probe"] = src
								fail(fmt.Sprintf("accepted, but %q parses as %s %s (%s), expected %s", src, got.full, got.shape, oaErrText(got.errs), want))
								return
							}
							c.bump("new-operator-works")
						}
					}
				}
				cur = after
			}
		}
	})
}

// c05Prelude: independent builders that build parsers before anything else is judged. Every one is
// new, so each of its registrations is the first of its (role, token) and must be accepted.
func c05Prelude(c *oracleCtx) {
	for _, roles := range []string{"s", "i", "p", "pis"} {
		input := map[string]any{"mode": "prelude", "builder": roles}
		c05Run(c, input, func() {
			lb := lexer.NewBuilder()
			pb := parser.NewBuilder(lb)
			dyn := map[string]token.Type{}
			c05Retag(lb, dyn)
			for k, lit := range []string{"@", "#", "^", "~"} {
				id := lb.RegisterTokenType(lit)
				dyn[lit] = id
				var err error
				role := roles[k%len(roles)]
				switch role {
				case 's':
					err = pb.RegisterPostfixOperator(id, genericPostfix)
				case 'p':
					err = pb.RegisterPrefixOperator(id, genericPrefix)
				case 'i':
					err = pb.RegisterInfixOperator(id, 7, genericInfix)
				}
				if err != nil {
					c.violation("", fmt.Sprintf("bookkeeping: a new builder (after other builders have built parsers) refuses its first registration %c of token %d %q: %v", role, int(id), lit, err), input)
					return
				}
			}
			for _, src := range []string{"a @", "# a", "a ^ b", "a + b"} {
				_, _ = pb.Build(src).ParseProgram()
			}
		})
	}
}

var c05Names = []string{"pow", "typeof", "null", "let", "function", "", "return", "true", "if", "PI", "Let", "@", "#", "^", "~", "mod",
	"await", "else", "false", "while", "for", " ", "null ", "NULL"}

func c05RandHistory(r *rand.Rand) []string {
	var hist []string
	allocated := 0 // number of distinct names so far = number of ids a correct builder has handed out
	seenName := map[string]bool{}
	for i, n := 0, 1+r.Intn(16); i < n; i++ {
		if len(hist) > 0 && r.Intn(4) == 0 {
			hist = append(hist, hist[r.Intn(len(hist))]) // repeat an earlier step verbatim
			continue
		}
		if r.Intn(3) == 0 {
			name := c05Names[r.Intn(len(c05Names))]
			if !seenName[name] {
				seenName[name] = true
				allocated++
			}
			hist = append(hist, "T:"+hexOf(name))
			continue
		}
		var id int
		switch k := r.Intn(20); {
		case k < 10 && allocated > 0:
			id = 1000 + r.Intn(allocated)
		case k < 17:
			id = r.Intn(int(token.NULL) + 1)
			if id == int(token.EOF) {
				id = int(token.SEMICOLON)
			}
		default:
			id = 1000 + allocated + r.Intn(3) // not handed out yet
		}
		switch r.Intn(3) {
		case 0:
			hist = append(hist, fmt.Sprintf("P:%d", id))
		case 1:
			hist = append(hist, fmt.Sprintf("I:%d:%d", id, 1+r.Intn(13)))
		default:
			hist = append(hist, fmt.Sprintf("S:%d", id))
		}
	}
	return hist
}

func c05SystematicHistories(c *oracleCtx) {
	run := func(hist ...string) {
		if c05Hung {
			return
		}
		c.count("H " + strings.Join(hist, " "))
		c05CheckHistory(c, hist, false)
	}
	roleOp := func(role string, id int) string {
		if role == "I" {
			return fmt.Sprintf("I:%d:%d", id, 1+(id*7)%13)
		}
		return fmt.Sprintf("%s:%d", role, id)
	}
	// every built-in token type x every role, once and repeated
	for t := 0; t <= int(token.NULL); t++ {
		if t == int(token.EOF) {
			continue
		}
		for _, role := range []string{"P", "I", "S"} {
			run(roleOp(role, t), roleOp(role, t))
		}
	}
	// a dynamic token: every pair of roles, each repeated; token types registered around them
	for _, r1 := range []string{"P", "I", "S"} {
		for _, r2 := range []string{"P", "I", "S"} {
			run("T:"+hexOf("pow"), roleOp(r1, 1000), "T:"+hexOf("pow"), roleOp(r2, 1000), "T:"+hexOf("null"), roleOp(r1, 1000), roleOp(r2, 1001), roleOp(r2, 1000), roleOp(r2, 1001))
		}
	}
	// an infix operator at every level, registered again at every other level
	for l1 := 1; l1 <= 13; l1++ {
		for _, l2 := range []int{1, 2, 7, 9, 10, 11, 13} {
			run("T:"+hexOf("@"), fmt.Sprintf("I:1000:%d", l1), fmt.Sprintf("I:1000:%d", l2), fmt.Sprintf("I:%d:%d", int(token.PLUS), l2))
		}
	}
	// names: keyword spellings, the empty string, repeats
	var names []string
	for _, n := range c05Names {
		names = append(names, "T:"+hexOf(n))
	}
	run(append(append([]string{}, names...), names...)...)
	for _, n := range []string{"null", "true", "false", "function", "let", "if", "else", "while", "for", "return", ""} {
		run("T:"+hexOf(n), "P:1000", "I:1000:7", "S:1000", "T:"+hexOf(n), "P:1000")
	}
}

// ---------- the oracle ----------

func oracleC05(c *oracleCtx) {
	c05Prelude(c)
	for _, in := range readInputsB(c) {
		switch in.kind {
		case "PARSE":
			if len(in.setup.ops) == 0 {
				c.bump("input-without-registered-operator")
				continue
			}
			c05CheckGroup(c, in.setup.ops, in.src, true)
			c.count(in.line)
		case "BUILD":
			c05CheckHistory(c, c05ValidItems(strings.Split(in.line, " ")[1:]), false)
			c.count(in.line)
		case "rec":
			switch {
			case recStr(in.rec, "mode") == "hist" || recStr(in.rec, "history") != "":
				c05CheckHistory(c, c05ValidItems(strings.Fields(recStr(in.rec, "history"))), false)
				c.count(in.line)
			case recStr(in.rec, "src") != "":
				var ops []customOp
				ok := true
				func() {
					defer func() {
						if recover() != nil {
							ok = false
						}
					}()
					ops = parseOps(orDash(recStr(in.rec, "ops")))
				}()
				if ok {
					c05CheckGroup(c, ops, in.src, recStr(in.rec, "mode") != "group")
					c.count(in.line)
				}
			}
		}
	}
	if c.tier == "replay" || c05Hung {
		return
	}

	t0 := time.Now()
	lap := func(what string) {
		if dbgB {
			fmt.Fprintf(os.Stderr, "C05 %s: %v (cases %d)\n", what, time.Since(t0), c.cases)
		}
		t0 = time.Now()
	}
	c05Exhaustive(c)
	lap("exhaustive grouping")
	c05SystematicHistories(c)
	lap("systematic histories")

	n := c.n(40000, 800000)
	for i := 0; i < n && !c.expired() && !c05Hung; i++ {
		ops := c05RandOps(c)
		src := c05RandText(c.r, ops)
		c.count(c05OpsStr(ops) + "|" + src)
		c05CheckGroup(c, ops, src, false)
	}
	lap("random grouping")
	n = c.n(1200, 40000)
	for i := 0; i < n && !c.expired() && !c05Hung; i++ {
		hist := c05RandHistory(c.r)
		c.count("H " + strings.Join(hist, " "))
		c05CheckHistory(c, hist, true)
	}
	lap("random histories")
}
