package main

// C16 "Parsing-context queries reflect the real nesting"

import (
	"fmt"
	"math/rand"
	"os"
	"strings"

	"github.com/xjslang/xjs/ast"
	"github.com/xjslang/xjs/token"
)

func init() { oracles["C16"] = oracleC16 }

type ctxAnswer struct {
	inFn bool
	ctx  int // 0 global, 1 function, 2 block
}

// leftmostTok gives the first token of an expression as the parser met it
func leftmostTok(e ast.Expression) (token.Token, bool) {
	for !isNilB(e) {
		switch n := e.(type) {
		case *ast.BinaryExpression:
			e = n.Left
		case *ast.PostfixExpression:
			e = n.Left
		case *ast.CallExpression:
			e = n.Function
		case *ast.MemberExpression:
			e = n.Object
		case *ast.AssignmentExpression:
			e = n.Left
		case *ast.CompoundAssignmentExpression:
			e = n.Left
		case *ast.Identifier:
			return n.Token, true
		case *ast.IntegerLiteral:
			return n.Token, true
		case *ast.FloatLiteral:
			return n.Token, true
		case *ast.StringLiteral:
			return n.Token, true
		case *ast.MultiStringLiteral:
			return n.Token, true
		case *ast.BooleanLiteral:
			return n.Token, true
		case *ast.NullLiteral:
			return n.Token, true
		case *ast.LetExpression:
			return n.Token, true
		case *ast.UnaryExpression:
			return n.Token, true
		case *ast.GroupedExpression:
			return n.Token, true
		case *ast.FunctionExpression:
			return n.Token, true
		case *ast.ArrayLiteral:
			return n.Token, true
		case *ast.ObjectLiteral:
			return n.Token, true
		default:
			return token.Token{}, false
		}
	}
	return token.Token{}, false
}

func stmtFirstTok(s ast.Statement) (token.Token, bool) {
	switch n := s.(type) {
	case *ast.LetStatement:
		return n.Token, true
	case *ast.ReturnStatement:
		return n.Token, true
	case *ast.FunctionDeclaration:
		return n.Token, true
	case *ast.BlockStatement:
		return n.Token, true
	case *ast.IfStatement:
		return n.Token, true
	case *ast.WhileStatement:
		return n.Token, true
	case *ast.ForStatement:
		return n.Token, true
	case *ast.ExpressionStatement:
		return leftmostTok(n.Expression)
	}
	return token.Token{}, false
}

// contextOracle computes, from the returned tree, the expected answers at the first token of every
// statement and expression node. conflict is set when two nodes starting on the same token disagree
// (cannot happen for trees built by the parser).
func contextOracle(p *ast.Program) (exp map[string]ctxAnswer, stmtStarts map[string]bool, conflict string) {
	exp = map[string]ctxAnswer{}
	stmtStarts = map[string]bool{}
	var stack []int
	cur := func() ctxAnswer {
		a := ctxAnswer{}
		for _, x := range stack {
			if x == 1 {
				a.inFn = true
			}
			a.ctx = x
		}
		return a
	}
	put := func(t token.Token) {
		k := posKey(t.Start)
		a := cur()
		if old, ok := exp[k]; ok && old != a {
			conflict = fmt.Sprintf("position %s has two expected answers %+v and %+v", k, old, a)
		}
		exp[k] = a
	}
	v := &astVisitor{}
	v.stmt = func(s ast.Statement, _ []string) {
		if t, ok := stmtFirstTok(s); ok {
			put(t)
			stmtStarts[posKey(t.Start)] = true
		}
	}
	v.expr = func(e ast.Expression, _ []string) {
		if t, ok := leftmostTok(e); ok {
			put(t)
		}
	}
	v.enterFn = func(*ast.BlockStatement) { stack = append(stack, 1) }
	v.leaveFn = func(*ast.BlockStatement) { stack = stack[:len(stack)-1] }
	v.enterBlock = func(*ast.BlockStatement) { stack = append(stack, 2) }
	v.leaveBlock = func(*ast.BlockStatement) { stack = stack[:len(stack)-1] }
	v.program(p)
	return
}

var c16QueryFilters = []string{"return", "literal", "function", "let-or-ident"}

func c16QueryFilter(name string) func(token.Type) bool {
	switch name {
	case "return":
		return func(t token.Type) bool { return t == token.RETURN }
	case "literal":
		return func(t token.Type) bool {
			return t == token.INT || t == token.STRING || t == token.FLOAT || t == token.TRUE || t == token.NULL
		}
	case "function":
		return func(t token.Type) bool { return t == token.FUNCTION }
	}
	return func(t token.Type) bool { return t == token.LET || t == token.IDENT }
}

type ctxEvent struct {
	kind     byte
	id       int
	typ      int
	line, co int
	inFn     bool
	ctx      int
}

func parseEvent(s string) ctxEvent {
	at := strings.IndexByte(s, '@')
	f := strings.Split(s[at+1:], ":")
	return ctxEvent{kind: s[0], id: atoi(s[1:at]), typ: atoi(f[0]), line: atoi(f[1]), co: atoi(f[2]), inFn: f[3] == "1", ctx: atoi(f[4])}
}

func checkC16(c *oracleCtx, flags string, ops []customOp, src string, wantValid bool) {
	input := map[string]any{"src": hexOf(src), "text": src, "flags": flags}
	if len(ops) > 0 {
		var l []string
		for _, o := range ops {
			if o.role == "i" {
				l = append(l, fmt.Sprintf("i:%s:%d", hexOf(o.lit), o.prec))
			} else {
				l = append(l, o.role+":"+hexOf(o.lit))
			}
		}
		input["ops"] = strings.Join(l, ",")
	}
	guard(c, "panic", input, func() {
		su := parseSetup{flags: flags, stmtI: []int{0}, exprI: []string{"o0"}, ops: ops, install: strings.Contains(flags, "i")}
		o := runParse(su, src)
		if o.ctx != 0 || o.inFn {
			c.violation("final-context", fmt.Sprintf("after parsing: CurrentContext=%d IsInFunction=%v", o.ctx, o.inFn), input)
			return
		}
		if len(o.errs) > 0 {
			if wantValid {
				c.bump("generated-program-rejected")
				if dbgB {
					fmt.Fprintf(os.Stderr, "REJ %q %s\n", src, errsTextB(o.errs))
				}
			}
			return
		}
		c.bump("error-free")
		exp, stmtStarts, conflict := contextOracle(o.prog)
		if conflict != "" {
			c.violation("oracle-conflict", conflict, input)
			return
		}
		seenStmt := map[string]bool{}
		for _, es := range o.trace {
			e := parseEvent(es)
			k := fmt.Sprintf("%d:%d", e.line, e.co)
			want, ok := exp[k]
			if !ok {
				c.violation("event-without-node", fmt.Sprintf("event %s: no statement/expression of the returned tree starts at %s", es, k), input)
				return
			}
			if e.kind == 'S' {
				seenStmt[k] = true
			}
			if want.inFn != e.inFn || want.ctx != e.ctx {
				c.violation("context-mismatch", fmt.Sprintf("event %s at %s: IsInFunction=%v CurrentContext=%d, tree nesting says %v/%d", es, k, e.inFn, e.ctx, want.inFn, want.ctx), input)
				return
			}
		}
		for k := range stmtStarts {
			if !seenStmt[k] {
				c.violation("statement-without-event", "statement starting at "+k+" produced no statement-observer event", input)
				return
			}
		}
		// an observer that asks only now and then (a linter asking at `return`, at literals, at `function`) gets the answers
		// the always-asking observer got at those steps: an answer does not depend on which questions were asked before
		for _, name := range c16QueryFilters {
			f := c16QueryFilter(name)
			su3 := su
			su3.queryAt = f
			o3 := runParse(su3, src)
			var want []string
			for _, es := range o.trace {
				if f(token.Type(parseEvent(es).typ)) {
					want = append(want, es)
				}
			}
			if strings.Join(o3.trace, ",") != strings.Join(want, ",") {
				in2 := map[string]any{}
				for k, v := range input {
					in2[k] = v
				}
				in2["query_only_at"] = name
				c.violation("sparse-queries", "an observer asking only at "+name+" tokens gets other answers than one asking at every step: "+
					firstDiff(strings.Join(want, ","), strings.Join(o3.trace, ",")), in2)
				return
			}
		}
		// a plugin that keeps a context value of its own on the stack around `while` statements (PushContext / PopContext are
		// exported for that) does not change whether a token is inside a function
		if strings.Contains(src, "while") {
			su5 := su
			su5.pluginCtx = true
			o5 := runParse(su5, src)
			bad := ""
			if o5.ctx != 0 || o5.inFn {
				bad = fmt.Sprintf("after parsing: CurrentContext=%d IsInFunction=%v", o5.ctx, o5.inFn)
			} else if len(o5.trace) != len(o.trace) {
				bad = fmt.Sprintf("%d events instead of %d", len(o5.trace), len(o.trace))
			} else {
				for i := range o.trace {
					a, b := parseEvent(o.trace[i]), parseEvent(o5.trace[i])
					if a.kind != b.kind || a.line != b.line || a.co != b.co || a.inFn != b.inFn {
						bad = fmt.Sprintf("event %s becomes %s", o.trace[i], o5.trace[i])
						break
					}
				}
			}
			if bad != "" {
				in2 := map[string]any{}
				for k, v := range input {
					in2[k] = v
				}
				in2["plugin"] = "a statement interceptor pushes ContextType(40) around every while statement"
				c.violation("plugin-context", "with a plugin context on the stack the answers about function nesting change: "+bad, in2)
				return
			}
		}
		// a second parser built from the same builder and used while this one is mid-parse (a plugin parsing an embedded
		// snippet) must not disturb this parser's context answers
		for _, snippet := range []string{"if (q) { function h() { { q; } } }", "{ { { q; } } }", "function k() { return function() { q; }; }"} {
			su2 := su
			su2.nested = snippet
			o2 := runParse(su2, src)
			if o2.ctx != 0 || o2.inFn || strings.Join(o2.trace, ",") != strings.Join(o.trace, ",") {
				c.violation("nested-parser-disturbs", "with a second parser from the same builder parsing `"+snippet+"` inside a statement interceptor, the context answers of the outer parser change "+
					firstDiff(strings.Join(o.trace, ","), strings.Join(o2.trace, ",")), input)
				return
			}
		}
	})
}

// nestedTemplate builds deeply nested valid text out of blocks, declarations and function expressions in
// call arguments, object/array literals and conditions.
func nestedTemplate(r *rand.Rand, depth int) string {
	id := func() string { return []string{"a", "b", "c", "x", "y", "f", "g"}[r.Intn(7)] }
	var stmt func(d int, inFn bool) string
	var expr func(d int) string
	fn := func(d int) string {
		name := ""
		if r.Intn(2) == 0 {
			name = " " + id()
		}
		return "function" + name + "(" + []string{"", "p", "p, q"}[r.Intn(3)] + ") { " + stmt(d-1, true) + " " + stmt(d-1, true) + " }"
	}
	expr = func(d int) string {
		if d <= 0 {
			return []string{id(), "1", "\"s\"", "null", "true"}[r.Intn(5)]
		}
		switch r.Intn(9) {
		case 0:
			return fn(d)
		case 1:
			return id() + "(" + expr(d-1) + ", " + fn(d) + ")"
		case 2:
			return "{k: " + expr(d-1) + ", m: " + fn(d) + "}"
		case 3:
			return "[" + expr(d-1) + ", " + fn(d) + "]"
		case 4:
			return "(" + fn(d) + ")(" + expr(d-1) + ")"
		case 5:
			return expr(d-1) + " + " + expr(d-1)
		case 6:
			return id() + "." + id() + "[" + expr(d-1) + "]"
		case 7:
			return "!" + expr(d-1)
		}
		return id() + " = " + expr(d-1)
	}
	stmt = func(d int, inFn bool) string {
		if d <= 0 {
			if inFn && r.Intn(3) == 0 {
				return "return " + expr(0) + ";"
			}
			return id() + " = " + expr(0) + ";"
		}
		switch r.Intn(11) {
		case 0:
			return "{ " + stmt(d-1, inFn) + " " + stmt(d-1, inFn) + " }"
		case 1:
			return "function " + id() + "(p) { " + stmt(d-1, true) + " " + stmt(d-1, true) + " }"
		case 2:
			return "if (" + expr(d-1) + ") { " + stmt(d-1, inFn) + " } else " + stmt(d-1, inFn)
		case 3:
			return "while (" + expr(d-1) + ") " + stmt(d-1, inFn)
		case 4:
			return "for (let i = " + expr(d-1) + "; " + expr(d-1) + "; i++) { " + stmt(d-1, inFn) + " }"
		case 5:
			return "let " + id() + " = " + expr(d) + ";"
		case 6:
			if inFn {
				return "return " + expr(d) + ";"
			}
			return "{ { " + stmt(d-1, inFn) + " } }"
		case 7:
			return "if (" + fn(d) + "(1)) " + stmt(d-1, inFn)
		case 8:
			return "{ }"
		}
		return id() + "(" + expr(d) + ");"
	}
	var sb strings.Builder
	for i, n := 0, 1+r.Intn(3); i < n; i++ {
		sb.WriteString(stmt(depth, false))
		sb.WriteString([]string{"\n", " ", "\n\n"}[r.Intn(3)])
	}
	return sb.String()
}

func oracleC16(c *oracleCtx) {
	for _, in := range readInputsB(c) {
		switch in.kind {
		case "PARSE":
			fl := strings.ReplaceAll(in.flags, "-", "")
			checkC16(c, fl, in.setup.ops, in.src, false)
			c.count(in.line)
		case "PRINT":
			checkC16(c, "", nil, in.src, false)
			c.count(in.line)
		case "rec":
			if _, ok := in.rec["src"]; ok {
				checkC16(c, in.flags, parseOps(orDash(recStr(in.rec, "ops"))), in.src, false)
				c.count(in.line)
			}
		}
	}
	if c.tier == "replay" {
		return
	}
	fixed := []string{
		"function f() { a; }", "{ a; }", "{ function f() { { a; } } }", "x = function() { return function() { y; }; };",
		"f(function() { a; }, { k: function() { b; } }, [function() { c; }]);", "if (function() { return 1; }()) { a; }",
		"function f(a) { if (a) { while (a) { for (;;) { return { k: function g() { { a; } } }; } } } }",
		"{ } { { } } function f() { }", "let v = function() { }; v;",
		"function f() { { 1; } }\n{ { 2; } }\nfunction g() { { return 3; } }\n{ { 4; } }", "{ { 1; } }\nfunction f() { { 2; } }\nx = function() { { 3; } };\n{ { 4; } }",
		"if (a) { if (b) { return 1; } }\nfunction f() { return 2; }\nwhile (c) { return 3; }",
		"function f() { while (a) { b; return c; } while (d) e; }\nwhile (g) { function h() { while (i) { j; } } k; }", "x = function() { while (a) b(function() { while (c) d; }); };", "while (a) function_call(function() { return a; });",
	}
	for _, s := range fixed {
		for _, fl := range modeFlags {
			checkC16(c, strings.ReplaceAll(fl, "-", ""), nil, s, true)
			c.count(fl + s)
		}
	}
	n := c.n(4000, 150000)
	for i := 0; i < n && !c.expired(); i++ {
		fl := strings.ReplaceAll(modeFlags[c.r.Intn(4)], "-", "")
		if c.r.Intn(3) == 0 {
			fl += "i"
		}
		var src string
		valid := false
		var ops []customOp
		switch c.r.Intn(10) {
		case 0, 1, 2:
			src, valid = randProgramText(c.r), true
		case 3, 4, 5:
			src, valid = nestedTemplate(c.r, 1+c.r.Intn(4)), true
		case 6, 7:
			src = randProgramText(c.r)
			if c.r.Intn(2) == 0 {
				src = nestedTemplate(c.r, 1+c.r.Intn(3))
			}
			for k, m := 0, 1+c.r.Intn(3); k < m; k++ {
				src = mutate(c.r, src)
			}
		case 8:
			if c.r.Intn(2) == 0 {
				src = randBytes(c.r, c.r.Intn(40))
			} else {
				src = randFragments(c.r, 1+c.r.Intn(14))
			}
		default:
			ops = parseOps(randCustomOps(c.r))
			src = customOpSources[c.r.Intn(len(customOpSources))]
			if c.r.Intn(2) == 0 {
				src = "function f() { { " + src + " } }"
			}
		}
		if strings.Contains(fl, "s") {
			valid = false // smart semicolons may legitimately reject line-initial ( [
		}
		checkC16(c, fl, ops, src, valid)
		c.count(fl + "|" + src)
	}
}

func orDash(s string) string {
	if s == "" {
		return "-"
	}
	return s
}
