package main

// Helpers shared by the oracles C01, C02, C03, C06, C07 and C12: access to the real xjs
// parser/printer, an independent source scanner, and the predicates that decide whether an
// INPUT belongs to one of the known defect classes of the current tree. Every predicate looks
// at the input (source text, or the tree handed to the printer, plus the printer configuration),
// never at the symptom.

import (
	"fmt"
	"github.com/xjslang/xjs/debug"
	"math/rand"
	"reflect"
	"strings"

	"github.com/xjslang/xjs/ast"
	"github.com/xjslang/xjs/lexer"
	"github.com/xjslang/xjs/parser"
	"github.com/xjslang/xjs/token"
	"xjsverif/internal/jsgen"
	"xjsverif/internal/treegen"
)

// names of the known defect classes
const (
	clsRestricted   = "restricted-production"
	clsRequote      = "string-requote"
	clsBacktickEsc  = "backtick-escape"
	clsTrim         = "trim-in-literal"
	clsNoSemi       = "nosemi-hazard"
	clsStmtStart    = "stmt-start-object-or-function"
	clsDanglingElse = "dangling-else"
	clsBareCR       = "bare-cr"
	clsUnterminated = "unterminated-literal"
	clsOveraccept   = "static-overaccept"
)

// ---------- the real implementation ----------

// oaParse parses src with the default (strict) xjs parser.
func oaParse(src string) (*ast.Program, []parser.ParserError) {
	p := parser.NewBuilder(lexer.NewBuilder()).Build(src)
	prog, _ := p.ParseProgram()
	return prog, p.Errors()
}

// oaCompile: the text xjs produces for the tree under a configuration; "dbg" = the debug.ToString entry point
func oaCompile(cfg string, prog *ast.Program) string {
	if cfg == "dbg" {
		return debug.ToString(prog)
	}
	return compilerOf(cfg).Compile(prog).Code
}

func oaErrText(errs []parser.ParserError) string {
	if len(errs) == 0 {
		return "no error"
	}
	e := errs[0]
	return fmt.Sprintf("%d error(s), first: %q at %d:%d", len(errs), e.Message, e.Range.Start.Line, e.Range.Start.Column)
}

// ---------- printer configurations ----------

// indent units of the grid as hex: tab, empty, 1, 2, 4, 8 spaces
var oaIndentsSmall = []string{"09", "-", "20", "2020", "20202020", "2020202020202020"}

// tab, and 0..8 spaces
var oaIndentsAll = []string{"09", "-", "20", "2020", "202020", "20202020", "2020202020", "202020202020", "20202020202020", "2020202020202020"}

func oaCfgIsPretty(cfg string) bool { return strings.HasPrefix(cfg, "p") }
func oaCfgNoSemi(cfg string) bool   { return oaCfgIsPretty(cfg) && strings.HasSuffix(cfg, ":0") }

// oaCfgIndent gives the effective indent unit of a pretty configuration
func oaCfgIndent(cfg string) string {
	f := strings.Split(cfg, ":")
	if len(f) != 3 {
		return ""
	}
	s := unhex(f[1])
	if s == "" {
		return "  " // the writer falls back to two spaces
	}
	return s
}

// oaGrid lists compact and pretty x indents x semicolons, each with and without source map.
func oaGrid(indents []string, withMaps bool) []string {
	cfgs := []string{"c"}
	if withMaps {
		cfgs = append(cfgs, "cm")
	}
	for _, in := range indents {
		for _, semi := range []string{"1", "0"} {
			cfgs = append(cfgs, "p:"+in+":"+semi)
			if withMaps {
				cfgs = append(cfgs, "pm:"+in+":"+semi)
			}
		}
	}
	return cfgs
}

func oaSample(r *rand.Rand, xs []string, k int) []string {
	if k >= len(xs) {
		return xs
	}
	out := make([]string, 0, k)
	for _, i := range r.Perm(len(xs))[:k] {
		out = append(out, xs[i])
	}
	return out
}

// ---------- independent scanner of source text (used only by class predicates) ----------

type oaTok struct {
	kind     string // "word", "num", "str", "tpl", "punct"
	text     string // full source text of the token
	off      int
	nlBefore bool // an LF stands between the previous token and this one
	open     bool // str/tpl: the end of input was reached before the closing delimiter
}

var oaPunct2 = []string{"++", "--", "==", "!=", "<=", ">=", "&&", "||", "+=", "-="}

func oaIsWord(c byte) bool {
	return c == '_' || c == '$' || '0' <= c && c <= '9' || 'a' <= c && c <= 'z' || 'A' <= c && c <= 'Z'
}

// oaScan splits src into tokens the way ECMAScript does for the subset (no regular expressions,
// // comments only). Line breaks: LF only (CR is reported by oaHasBareCR).
func oaScan(src string) []oaTok {
	var out []oaTok
	i, nl := 0, false
	for i < len(src) {
		c := src[i]
		switch {
		case c == '\n':
			nl = true
			i++
		case c == ' ' || c == '\t' || c == '\r':
			i++
		case c == '/' && i+1 < len(src) && src[i+1] == '/':
			for i < len(src) && src[i] != '\n' {
				i++
			}
		case c == '"' || c == '\'' || c == '`':
			j := i + 1
			closed := false
			for j < len(src) {
				if src[j] == '\\' {
					j += 2
					continue
				}
				if src[j] == c {
					closed = true
					j++
					break
				}
				j++
			}
			if j > len(src) {
				j = len(src)
			}
			kind := "str"
			if c == '`' {
				kind = "tpl"
			}
			out = append(out, oaTok{kind: kind, text: src[i:j], off: i, nlBefore: nl, open: !closed})
			i, nl = j, false
		case '0' <= c && c <= '9':
			j := i
			for j < len(src) && (oaIsWord(src[j]) || src[j] == '.' && j+1 < len(src) && '0' <= src[j+1] && src[j+1] <= '9' ||
				(src[j] == '+' || src[j] == '-') && (src[j-1] == 'e' || src[j-1] == 'E') && !strings.HasPrefix(src[i:], "0x") && !strings.HasPrefix(src[i:], "0X")) {
				j++
			}
			out = append(out, oaTok{kind: "num", text: src[i:j], off: i, nlBefore: nl})
			i, nl = j, false
		case oaIsWord(c):
			j := i
			for j < len(src) && oaIsWord(src[j]) {
				j++
			}
			out = append(out, oaTok{kind: "word", text: src[i:j], off: i, nlBefore: nl})
			i, nl = j, false
		default:
			n := 1
			for _, p := range oaPunct2 {
				if strings.HasPrefix(src[i:], p) {
					n = 2
				}
			}
			out = append(out, oaTok{kind: "punct", text: src[i : i+n], off: i, nlBefore: nl})
			i, nl = i+n, false
		}
	}
	return out
}

// ---------- class predicates on source text ----------

// srcRestrictedProduction: a line break directly after a `return` whose statement (as xjs reads
// it) continues on the next line, or directly before a ++/-- that follows an operand.
func srcRestrictedProduction(src string) bool {
	ts := oaScan(src)
	for i, t := range ts {
		if i == 0 || !t.nlBefore {
			continue
		}
		p := ts[i-1]
		if p.kind == "word" && p.text == "return" && t.text != ";" && t.text != "}" {
			return true
		}
		if t.kind == "punct" && (t.text == "++" || t.text == "--") {
			switch {
			case p.kind == "num", p.kind == "str", p.kind == "tpl", p.text == ")", p.text == "]":
				return true
			case p.kind == "word":
				switch p.text {
				case "return", "else", "let", "function", "if", "while", "for":
				default:
					return true
				}
			}
		}
	}
	return false
}

func oaHexVal(s string) (int, bool) {
	if s == "" {
		return 0, false
	}
	v := 0
	for i := 0; i < len(s); i++ {
		c := s[i]
		switch {
		case '0' <= c && c <= '9':
			v = v*16 + int(c-'0')
		case 'a' <= c && c <= 'f':
			v = v*16 + int(c-'a') + 10
		case 'A' <= c && c <= 'F':
			v = v*16 + int(c-'A') + 10
		default:
			return 0, false
		}
		if v > 0x7fffffff>>4 {
			return 0, false
		}
	}
	return v, true
}

// litRequote decides the class "string-requote" for one quoted string literal (with its quotes):
// single-quoted with a raw double quote; or a \xHH, \uHHHH or \u{...} escape whose code point is
// LF, CR, the double quote or the backslash; or \xHH >= 0x80; or a \u escape in D800-DFFF.
// Defect classes that have been repaired in /repo: their predicates answer false, so inputs of those classes
// are generated, checked and reported like any other input (a failure there is a new violation).
const (
	fixedRequote      = true
	fixedBacktick     = true
	fixedRestricted   = true // repaired by the "fix: restricted productions" commit (f7f7cd3)
	fixedUnterminated = true // repaired by the "fix: an unterminated string or backtick literal is an illegal token" commit
)

func litRequote(lit string) bool {
	if fixedRequote {
		return false // repaired in /repo by e587178 ("fix: string escapes that cannot be re-quoted stay escaped"): checked like any other literal
	}
	if len(lit) < 2 || (lit[0] != '"' && lit[0] != '\'') {
		return false
	}
	body := lit[1:]
	if lit[len(lit)-1] == lit[0] {
		body = lit[1 : len(lit)-1]
	}
	special := func(v int) bool { return v == 0x0a || v == 0x0d || v == 0x22 || v == 0x5c }
	for i := 0; i < len(body); i++ {
		c := body[i]
		if c == '"' && lit[0] == '\'' {
			return true
		}
		if c != '\\' || i+1 >= len(body) {
			continue
		}
		i++
		switch body[i] {
		case 'x':
			if i+3 <= len(body) {
				if v, ok := oaHexVal(body[i+1 : i+3]); ok {
					if special(v) || v >= 0x80 {
						return true
					}
					i += 2
				}
			}
		case 'u':
			if i+1 < len(body) && body[i+1] == '{' {
				if j := strings.IndexByte(body[i:], '}'); j > 2 {
					if v, ok := oaHexVal(body[i+2 : i+j]); ok {
						if special(v) || v >= 0xd800 && v <= 0xdfff {
							return true
						}
						i += j
					}
				}
			} else if i+5 <= len(body) {
				if v, ok := oaHexVal(body[i+1 : i+5]); ok {
					if special(v) || v >= 0xd800 && v <= 0xdfff {
						return true
					}
					i += 4
				}
			}
		}
	}
	return false
}

func srcStringRequote(src string) bool {
	for _, t := range oaScan(src) {
		if t.kind == "str" && litRequote(t.text) {
			return true
		}
	}
	return false
}

// srcBacktickEscape: a backtick string containing a backslash.
func srcBacktickEscape(src string) bool {
	if fixedBacktick {
		return false // repaired in /repo by a100784 ("fix: backtick strings keep escaped backticks and backslashes")
	}
	for _, t := range oaScan(src) {
		if t.kind == "tpl" && strings.IndexByte(t.text, '\\') >= 0 {
			return true
		}
	}
	return false
}

// litMultiLine: a backtick string with a line break, or a string with a line continuation.
func litMultiLine(t oaTok) bool {
	if t.kind == "tpl" {
		return strings.IndexByte(t.text, '\n') >= 0
	}
	return t.kind == "str" && strings.Contains(t.text, "\\\n")
}

func srcHasMultiLineLiteral(src string) bool {
	for _, t := range oaScan(src) {
		if litMultiLine(t) {
			return true
		}
	}
	return false
}

// srcTrimInLiteral: a literal that spans several lines one of which ends in a space, or that
// starts/ends the program text with white space (the pretty printer trims trailing spaces of
// every output line and the blank edges of the whole output). Relevant for pretty output only.
func srcTrimInLiteral(src string) bool {
	for _, t := range oaScan(src) {
		if !litMultiLine(t) {
			continue
		}
		if strings.Contains(t.text, " \n") {
			return true
		}
	}
	return false
}

// oaHasBareCR: a carriage return that is not followed by LF.
func oaHasBareCR(src string) bool {
	for i := 0; i < len(src); i++ {
		if src[i] == '\r' && (i+1 == len(src) || src[i+1] != '\n') {
			return true
		}
	}
	return false
}

// srcUnterminatedLiteral: the text ends inside a string or backtick literal.
func srcUnterminatedLiteral(src string) bool {
	if fixedUnterminated {
		return false
	}
	for _, t := range oaScan(src) {
		if t.open {
			return true
		}
	}
	return false
}

// clsAsiBacktick: a backtick literal is the first token of a line and the token before it can end an
// expression (identifier, literal, `)`, `]`, `}`). ECMAScript never inserts a semicolon there (the template
// continues the expression as a tagged template, which the subset does not have); xjs starts a new statement.
const clsAsiBacktick = "asi-before-backtick"

func srcAsiBeforeBacktick(src string) bool {
	toks := oaScan(src)
	for i, t := range toks {
		if i == 0 || t.kind != "tpl" || !t.nlBefore {
			continue
		}
		p := toks[i-1]
		switch p.kind {
		case "word", "num", "str", "tpl":
			return true
		case "punct":
			if p.text == ")" || p.text == "]" || p.text == "}" {
				return true
			}
		}
	}
	return false
}

// codeHasHTMLCommentOpener: the punctuators `<`, `!`, `--` directly adjacent outside literals: in a script `<!--` opens
// an HTML-like comment (ECMA-262 Annex B.1.1). goja does not implement those comments, so this is checked on the text.
func codeHasHTMLCommentOpener(code string) bool {
	toks := oaScan(code)
	for i := 0; i+2 < len(toks); i++ {
		a, b, d := toks[i], toks[i+1], toks[i+2]
		if a.kind == "punct" && a.text == "<" && b.kind == "punct" && b.text == "!" && d.kind == "punct" && d.text == "--" &&
			b.off == a.off+1 && d.off == b.off+1 {
			return true
		}
	}
	return false
}

// oaSourceClass names the first known class the source text (to be printed under cfg) falls in,
// or "". tree may be nil; it is the xjs tree of the source and is needed for the no-semi hazards.
func oaSourceClass(src, cfg string, tree *ast.Program) string {
	switch {
	case oaHasBareCR(src):
		return clsBareCR
	case !fixedRestricted && srcRestrictedProduction(src):
		return clsRestricted
	case srcStringRequote(src):
		return clsRequote
	case srcBacktickEscape(src):
		return clsBacktickEsc
	case oaCfgIsPretty(cfg) && srcTrimInLiteral(src):
		return clsTrim
	case oaCfgNoSemi(cfg) && tree != nil && treeNoSemiHazard(tree):
		return clsNoSemi
	}
	return ""
}

// ---------- class predicates on trees ----------

func oaNil(n interface{}) bool {
	if n == nil {
		return true
	}
	v := reflect.ValueOf(n)
	return v.Kind() == reflect.Ptr && v.IsNil()
}

// oaWalk visits every statement and expression of the program.
func oaWalk(p *ast.Program, fe func(ast.Expression), fs func(ast.Statement)) {
	var stmt func(ast.Statement)
	var expr func(ast.Expression)
	expr = func(e ast.Expression) {
		if oaNil(e) {
			return
		}
		if fe != nil {
			fe(e)
		}
		switch n := e.(type) {
		case *ast.GroupedExpression:
			expr(n.Expression)
		case *ast.LetExpression:
			expr(n.Value)
		case *ast.BinaryExpression:
			expr(n.Left)
			expr(n.Right)
		case *ast.UnaryExpression:
			expr(n.Right)
		case *ast.PostfixExpression:
			expr(n.Left)
		case *ast.CallExpression:
			expr(n.Function)
			for _, a := range n.Arguments {
				expr(a)
			}
		case *ast.MemberExpression:
			expr(n.Object)
			expr(n.Property)
		case *ast.AssignmentExpression:
			expr(n.Left)
			expr(n.Value)
		case *ast.CompoundAssignmentExpression:
			expr(n.Left)
			expr(n.Value)
		case *ast.FunctionExpression:
			if n.Body != nil {
				stmt(n.Body)
			}
		case *ast.ArrayLiteral:
			for _, el := range n.Elements {
				expr(el)
			}
		case *ast.ObjectLiteral:
			for _, pr := range n.Properties {
				expr(pr.Key)
				expr(pr.Value)
			}
		}
	}
	stmt = func(s ast.Statement) {
		if oaNil(s) {
			return
		}
		if fs != nil {
			fs(s)
		}
		switch n := s.(type) {
		case *ast.LetStatement:
			expr(n.Value)
		case *ast.ReturnStatement:
			expr(n.ReturnValue)
		case *ast.ExpressionStatement:
			expr(n.Expression)
		case *ast.FunctionDeclaration:
			if n.Body != nil {
				stmt(n.Body)
			}
		case *ast.BlockStatement:
			for _, c := range n.Statements {
				stmt(c)
			}
		case *ast.IfStatement:
			expr(n.Condition)
			stmt(n.ThenBranch)
			stmt(n.ElseBranch)
		case *ast.WhileStatement:
			expr(n.Condition)
			stmt(n.Body)
		case *ast.ForStatement:
			expr(n.Init)
			expr(n.Condition)
			expr(n.Update)
			stmt(n.Body)
		}
	}
	for _, s := range p.Statements {
		stmt(s)
	}
}

// oaStatementLists calls f for every statement list (program, blocks, function bodies).
func oaStatementLists(p *ast.Program, f func([]ast.Statement)) {
	f(p.Statements)
	oaWalk(p, nil, func(s ast.Statement) {
		if b, ok := s.(*ast.BlockStatement); ok {
			f(b.Statements)
		}
	})
}

// treeStmtStart: an ExpressionStatement whose expression begins with an object literal or a
// function expression (the printer emits no parentheses).
func treeStmtStart(p *ast.Program) bool {
	found := false
	oaWalk(p, nil, func(s ast.Statement) {
		if es, ok := s.(*ast.ExpressionStatement); ok && !oaNil(es.Expression) && treegen.BadStatementStart(es.Expression) {
			found = true
		}
	})
	return found
}

// oaEndsWithOpenIf: the statement, printed, ends in an if without else that no brace closes.
func oaEndsWithOpenIf(s ast.Statement) bool {
	for {
		switch n := s.(type) {
		case *ast.IfStatement:
			if oaNil(n.ElseBranch) {
				return true
			}
			s = n.ElseBranch
		case *ast.WhileStatement:
			s = n.Body
		case *ast.ForStatement:
			s = n.Body
		default:
			return false
		}
	}
}

// treeDanglingElse: an if with an else branch whose brace-less then-branch ends in an else-less if.
func treeDanglingElse(p *ast.Program) bool {
	found := false
	oaWalk(p, nil, func(s ast.Statement) {
		if n, ok := s.(*ast.IfStatement); ok && !oaNil(n.ElseBranch) && oaEndsWithOpenIf(n.ThenBranch) {
			found = true
		}
	})
	return found
}

// oaLastSimple follows brace-less bodies down to the statement whose text ends s.
func oaLastSimple(s ast.Statement) ast.Statement {
	for {
		switch n := s.(type) {
		case *ast.IfStatement:
			if oaNil(n.ElseBranch) {
				s = n.ThenBranch
			} else {
				s = n.ElseBranch
			}
		case *ast.WhileStatement:
			s = n.Body
		case *ast.ForStatement:
			s = n.Body
		default:
			return s
		}
	}
}

// oaEndsOpen: printed without optional semicolons the statement ends with an expression or a
// bare keyword, not with a closing brace of a block.
func oaEndsOpen(s ast.Statement) bool {
	switch oaLastSimple(s).(type) {
	case *ast.LetStatement, *ast.ReturnStatement, *ast.ExpressionStatement:
		return true
	}
	return false
}

// oaFirstChar gives the first character of the statement's text.
func oaFirstChar(s ast.Statement) byte {
	if oaNil(s) {
		return 0
	}
	code := oaCompile("c", &ast.Program{Statements: []ast.Statement{s}})
	if code == "" {
		return 0
	}
	return code[0]
}

// oaStartsWithUpdate: the statement's text starts with `++` or `--`
func oaStartsWithUpdate(s ast.Statement) bool {
	if oaNil(s) {
		return false
	}
	code := oaCompile("c", &ast.Program{Statements: []ast.Statement{s}})
	return strings.HasPrefix(code, "++") || strings.HasPrefix(code, "--")
}

// treeNoSemiHazard decides the class "nosemi-hazard" for a tree printed without semicolons:
// (a) an if with else whose then-branch is not a block (more precisely: ends open);
// (b) a statement that starts with ( [ - + / or a backtick and follows a statement that ends open;
// (c) a return without value, ending its statement, followed by another statement.
func treeNoSemiHazard(p *ast.Program) bool {
	found := false
	oaWalk(p, nil, func(s ast.Statement) {
		if n, ok := s.(*ast.IfStatement); ok && !oaNil(n.ElseBranch) && oaEndsOpen(n.ThenBranch) {
			found = true
		}
	})
	if found {
		return true
	}
	oaStatementLists(p, func(ss []ast.Statement) {
		for i := 0; i+1 < len(ss); i++ {
			if !oaEndsOpen(ss[i]) {
				continue
			}
			if strings.IndexByte("([-+/`", oaFirstChar(ss[i+1])) >= 0 && !(fixedRestricted && oaStartsWithUpdate(ss[i+1])) {
				found = true // (`++` / `--` first on a line is a prefix operator of the new statement: restricted production)
			}
			if r, ok := oaLastSimple(ss[i]).(*ast.ReturnStatement); ok && oaNil(r.ReturnValue) {
				found = true
			}
		}
	})
	return found
}

// ---------- generators ----------

// oaRenderAvoiding renders the tree in random layouts until the text is outside the known
// source classes (for the given configurations); ok=false if that fails.
func oaRenderAvoiding(r *rand.Rand, tree *jsgen.Node, l jsgen.Layout, bad func(string) bool) (string, bool) {
	for try := 0; try < 4; try++ {
		src := jsgen.Render(tree, r, l)
		if !bad(src) {
			return src, true
		}
		switch try {
		case 0:
			l.SingleQuotes = false
		case 1:
			l.ASI = false
		default:
			l.Newlines = false
		}
	}
	return "", false
}

func oaRichLayout(r *rand.Rand) jsgen.Layout {
	l := randLayout(r)
	if r.Intn(2) == 0 {
		l.Comments, l.Newlines = true, true
	}
	return l
}

// oaInputSource extracts a program text from a protocol op line (PARSE / PRINT / LEX), or a
// tree from a PRINTT line.
func oaInputSource(line string) (src string, cfg string, tree *ast.Program, ok bool) {
	f := strings.Split(line, " ")
	defer func() {
		if recover() != nil {
			ok = false
		}
	}()
	switch {
	case f[0] == "PARSE" && len(f) == 7:
		if f[5] != "-" || f[2] != "0" && f[2] != "-" {
			return "", "", nil, false // custom operators / interceptors: not the default parser
		}
		return unhex(f[6]), "", nil, true
	case f[0] == "PRINT" && len(f) == 3:
		return unhex(f[2]), f[1], nil, true
	case f[0] == "LEX" && len(f) == 3:
		return unhex(f[1]), "", nil, true
	case f[0] == "PRINTT" && len(f) >= 3:
		return "", f[1], parseProgramSexp(strings.Join(f[2:], " ")), true
	}
	return "", "", nil, false
}

func oaStr(m map[string]any, k string) string {
	s, _ := m[k].(string)
	return s
}

func oaClip(s string, n int) string {
	if len(s) > n {
		return s[:n] + "..."
	}
	return s
}

var _ = token.EOF
