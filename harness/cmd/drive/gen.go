package main

// Generators of protocol op lines. Every random choice derives from one seeded PRNG.

import (
	"fmt"
	"math/rand"
	"strings"
)

var lexFragments = []string{
	"a", "b", "foo", "_x1", "$y", "let", "function", "if", "else", "while", "for", "return", "true", "false", "null",
	"lettuce", "iff", "0", "1", "42", "007", "089", "1.5", "1.", ".5", "1.5.2", "1e3", "1E+2", "2.5e-3", "1e", "1e+", "1e999", "9223372036854775807",
	"9223372036854775808", "0x", "0x1F", "0XaB", "0xg", "0b", "0b101", "0b12", "0o", "0o17", "0o8", "0B1", "0O7",
	"=", "==", "===", "!", "!=", "<", "<=", ">", ">=", "&", "&&", "|", "||", "+", "++", "+=", "-", "--", "-=", "*", "/", "%",
	",", ";", ":", ".", "(", ")", "{", "}", "[", "]", "^", "~", "@", "#", "?", "\\",
	"\"abc\"", "'abc'", "\"a'b\"", "'a\"b'", "\"\"", "''", "\"a\\nb\"", "\"\\x41\"", "\"\\x4\"", "\"\\x4g\"", "\"\\xzz\"", "\"\\u0041\"", "\"\\u004\"",
	"\"\\u00\"", "\"\\u{41}\"", "\"\\u{1F600}\"", "\"\\u{110000}\"", "\"\\u{}\"", "\"\\u{1234567}\"", "\"\\u{12\"", "\"\\u{zz}\"", "\"\\\"\"", "'\\''",
	"\"\\\n\"", "\"abc", "'abc", "\"abc\\", "\"\\u", "\"\\x", "\"\\u{", "\"\\u{1", "`raw`", "`a\\`b`", "`multi\nline`", "`unterminated", "`a\\\\`", "``",
	"// comment\n", "// trailing", "//\n", "// a // b\n", "//x  \n", "/", "/ /", "/* c */", "/*", "*/",
	"// comment\r\n", "x // c\r\ny", "//\r\n", "a // b\r\n(c)", "return // c\r\n1", "a\r\n++b", "`a\r\nb`", "\"a\\\r\nb\"",
	" ", "  ", "\t", "\n", "\n\n", "\r", "\r\n", "\x00", "\x80", "\xe9", "\xff", "é", "日本", "\u2028",
	// escapes inside backtick literals other than the backtick's own; a byte order mark
	"`a\\${b}`", "`\\$`", "`\\\\\\``", "`\\\\${x}`", "`\\n\\\\`", "`$`", "`${a}`", "\ufeff", "\ufefflet x",
	// a no-break space (two bytes, neither is white space for the lexer); form feed, vertical tab; words other builders register
	"\u00a0", "a\u00a0b", "\u00a0\u00a0x\u00a0", "\x0c", "a\x0cb", "\x0b", "a = 1\x0c\x0bb", "pow", "PI", "unless", "mod",
}

func randBytes(r *rand.Rand, n int) string {
	const alpha = "ab1 \n\t\r\"'`\\/=+-!<>&|.;:,(){}[]x0ue{}*%_$\x00\x7f\x80\xc3\xa9\xff"
	b := make([]byte, n)
	for i := range b {
		if r.Intn(8) == 0 {
			b[i] = byte(r.Intn(256))
		} else {
			b[i] = alpha[r.Intn(len(alpha))]
		}
	}
	return string(b)
}

func randFragments(r *rand.Rand, n int) string {
	var sb strings.Builder
	for i := 0; i < n; i++ {
		sb.WriteString(lexFragments[r.Intn(len(lexFragments))])
		switch r.Intn(4) {
		case 0:
			sb.WriteByte(' ')
		case 1:
			if r.Intn(4) == 0 {
				sb.WriteByte('\n')
			}
		}
	}
	return sb.String()
}

func genLex(r *rand.Rand, n int, exhaustive bool, emit func(string)) {
	if exhaustive {
		emit("LEX - 3")
		for a := 0; a < 256; a++ {
			emit(fmt.Sprintf("LEX %s 1", hexOf(string([]byte{byte(a)}))))
		}
		for a := 0; a < 256; a++ {
			for b := 0; b < 256; b++ {
				emit(fmt.Sprintf("LEX %s 0", hexOf(string([]byte{byte(a), byte(b)}))))
			}
		}
	}
	for _, f := range lexFragments {
		emit(fmt.Sprintf("LEX %s 2", hexOf(f)))
	}
	// the same lexer with a plugin in front (see doLex): 1xx a plugin that builds tokens through the exported NewToken,
	// 2xx a plugin that consumes `/* … */` itself before handing over
	for _, f := range []string{"a @ b", "// c\n@ a\n\n# b // t\n~", "x ? y ^ z", "@", "a /* c */ b", "/* x */let y = 1 /* z\nw */  + 2 // t\n/* q */\n3",
		"a /* unterminated", "/**/ /**/x", "a/*c*/\n(b)", "f(/* 1 */a, /* 2 */ b) /* 3 */", "/* é */ \"s\" /*\n\n*/ `t`"} {
		emit(fmt.Sprintf("LEX %s 101", hexOf(f)))
		emit(fmt.Sprintf("LEX %s 201", hexOf(f)))
	}
	for i := 0; i < n; i++ {
		var s string
		switch r.Intn(3) {
		case 0:
			s = randBytes(r, r.Intn(24))
		default:
			s = randFragments(r, 1+r.Intn(12))
		}
		if r.Intn(6) == 0 { // Windows line endings
			s = strings.ReplaceAll(s, "\n", "\r\n")
		}
		if r.Intn(12) == 0 { // a byte order mark in front
			s = "\ufeff" + s
		}
		plugin := 0
		switch r.Intn(8) {
		case 0:
			plugin = 100
		case 1:
			plugin = 200
			if r.Intn(2) == 0 { // put block comments between the fragments
				s = strings.ReplaceAll(s, " ", []string{" /* c */ ", "/**/", " /* a\nb */"}[r.Intn(3)])
			}
		}
		emit(fmt.Sprintf("LEX %s %d", hexOf(s), plugin+r.Intn(4)))
	}
}

var smapNames = []string{"a", "b", "foo", "x", "", "naïve", "a b", "\x00", "日本"}
var smapStrings = []string{"", "a", "abc", "\n", "\r", "\r\n", "\n\r", "a\nb", "a\r\nb\rc\n", "\r\r\n\n", "x\r", "\r\nx", "é\n", "  \t"}

var smapAllowNeg = true

func smapInt(r *rand.Rand) int {
	k := r.Intn(10)
	if !smapAllowNeg && (k == 0 || k == 3) {
		k = 5
	}
	switch k {
	case 0:
		return -r.Intn(100)
	case 1:
		return r.Intn(1 << 20)
	case 2:
		return int(r.Int63n(1 << 31))
	case 3:
		return -int(r.Int63n(1 << 31))
	default:
		return r.Intn(60)
	}
}

func genSmapLine(r *rand.Rand) string {
	smapAllowNeg = r.Intn(8) == 0 // most histories use non-negative positions only
	n := r.Intn(30)
	ops := make([]string, 0, n)
	for i := 0; i < n; i++ {
		switch r.Intn(10) {
		case 9:
			ops = append(ops, "q")
		case 0, 1, 2:
			ops = append(ops, fmt.Sprintf("m:%d:%d", smapInt(r), smapInt(r)))
		case 3, 4:
			ops = append(ops, fmt.Sprintf("n:%d:%d:%s", smapInt(r), smapInt(r), hexOf(smapNames[r.Intn(len(smapNames))])))
		case 5:
			k := r.Intn(12)
			if smapAllowNeg && r.Intn(6) == 0 {
				k = -r.Intn(5)
			}
			ops = append(ops, fmt.Sprintf("c:%d", k))
		case 6, 7:
			s := smapStrings[r.Intn(len(smapStrings))]
			if r.Intn(3) == 0 {
				s += smapStrings[r.Intn(len(smapStrings))]
			}
			ops = append(ops, "s:"+hexOf(s))
		case 8:
			ops = append(ops, "l")
		}
	}
	// make the final generated position observable
	ops = append(ops, "m:0:0")
	return "SMAP " + strings.Join(ops, " ")
}

func genSmap(r *rand.Rand, n int, vlqRange int, emit func(string)) {
	emit("SMAP")
	// VLQ codec: one mapping whose source line is the value (its delta from 0 is the value itself)
	for v := -vlqRange; v <= vlqRange; v++ {
		emit(fmt.Sprintf("SMAP m:%d:0", v))
	}
	for _, v := range []int{1 << 20, -(1 << 20), 1<<31 - 1, -(1 << 31), 1 << 31, 1<<40 + 12345, 1 << 61} {
		emit(fmt.Sprintf("SMAP m:%d:%d", v, -v))
	}
	for i := 0; i < 200; i++ {
		emit(fmt.Sprintf("SMAP m:%d:%d", smapInt(r)*977, smapInt(r)))
	}
	for i := 0; i < n; i++ {
		emit(genSmapLine(r))
	}
}

// built-in token type numbers that are interesting for registration histories
var buildTypes = []int{2, 3, 7, 8, 10, 11, 12, 15, 21, 23, 24, 25, 26, 29, 30, 32, 34, 36, 37, 45, 0}
var dynLits = []string{"^", "~", "@", "#", "?", "\\"}
var buildSources = []string{"a ^ b + c", "a + b ^ c * d", "~a.b", "a@", "a # b # c", "a ^ b ~ c", "x = a ? b", "a + b", "a++ + b", "-a * b", "a ^ (b @)", "f(a ^ b, ~c)", "a = b ^ c", "a ^ b == c ^ d", "a.b ^ c[d]", "!a ^ b",
	// sources on which the parser modes differ
	"let x = 1 let y = 2", "f\n(g)", "a = b\n[c].d", "if (a) { b", "x = a ^ b\n(c)", "a b"}

func genBuildLine(r *rand.Rand) string {
	n := 1 + r.Intn(14)
	var ops []string
	ids := []int{}
	for i := 0; i < n; i++ {
		pick := func() int {
			if len(ids) > 0 && r.Intn(3) != 0 {
				return ids[r.Intn(len(ids))]
			}
			return buildTypes[r.Intn(len(buildTypes))]
		}
		switch r.Intn(9) {
		case 8:
			// a mode switched on the same builder, possibly after parsers have been built from it
			ops = append(ops, fmt.Sprintf("M:%s:%d", []string{"t", "s"}[r.Intn(2)], r.Intn(2)))
		case 0, 1:
			lit := dynLits[r.Intn(len(dynLits))]
			ops = append(ops, "T:"+hexOf(lit))
			// ids are handed out in first-registration order starting at 1000; track what we expect loosely
			found := false
			for range ids {
			}
			_ = found
			ids = append(ids, 1000+r.Intn(len(ids)+1))
		case 2:
			ops = append(ops, fmt.Sprintf("P:%d", pick()))
		case 3, 4:
			ops = append(ops, fmt.Sprintf("I:%d:%d", pick(), 1+r.Intn(13)))
		case 5:
			ops = append(ops, fmt.Sprintf("S:%d", pick()))
		default:
			ops = append(ops, "B:"+hexOf(buildSources[r.Intn(len(buildSources))]))
		}
	}
	ops = append(ops, "B:"+hexOf(buildSources[r.Intn(len(buildSources))]))
	return "BUILD " + strings.Join(ops, " ")
}

func genBuild(r *rand.Rand, n int, emit func(string)) {
	emit("BUILD B:" + hexOf("a + b"))
	// build, switch a mode, build again (and back)
	for _, src := range []string{"let x = 1 let y = 2", "f\n(g)", "if (a) { b"} {
		h := hexOf(src)
		emit("BUILD B:" + h + " M:t:1 B:" + h + " M:t:0 B:" + h)
		emit("BUILD B:" + h + " M:s:1 B:" + h + " M:s:0 B:" + h)
		emit("BUILD M:t:1 M:s:1 B:" + h + " M:t:0 B:" + h + " M:s:0 B:" + h)
	}
	for i := 0; i < n; i++ {
		emit(genBuildLine(r))
	}
}
