package main

import (
	"fmt"
	"github.com/dop251/goja"
	"github.com/xjslang/xjs/ast"
	"math/rand"
	"strings"

	"xjsverif/internal/jsgen"
	"xjsverif/internal/treegen"
)

func randLayout(r *rand.Rand) jsgen.Layout {
	return jsgen.Layout{
		Newlines: r.Intn(2) == 0, Comments: r.Intn(3) == 0, ASI: r.Intn(2) == 0,
		RedundantParens: r.Intn(3) == 0, SingleQuotes: r.Intn(2) == 0, Compact: r.Intn(3) == 0,
	}
}

func randProgramText(r *rand.Rand) string {
	o := jsgen.GenOptions{MaxDepth: 1 + r.Intn(4), MaxStmts: 1 + r.Intn(5), Executable: r.Intn(4) == 0}
	return jsgen.Render(jsgen.GenProgram(r, o), r, randLayout(r))
}

// mutate applies a random token/byte level corruption
func mutate(r *rand.Rand, s string) string {
	if len(s) == 0 {
		return randFragments(r, 3)
	}
	i := r.Intn(len(s))
	j := i + r.Intn(min(8, len(s)-i)+1)
	switch r.Intn(7) {
	case 0: // delete a range
		return s[:i] + s[j:]
	case 1: // duplicate a range
		return s[:j] + s[i:j] + s[j:]
	case 2: // truncate
		return s[:i]
	case 3: // insert a fragment
		return s[:i] + lexFragments[r.Intn(len(lexFragments))] + s[i:]
	case 4: // replace a byte
		return s[:i] + string("(){}[];,.=+-\"'`\n "[r.Intn(17)]) + s[min(i+1, len(s)):]
	case 5: // swap two ranges
		k := r.Intn(len(s))
		if k < j {
			return s
		}
		l := k + r.Intn(min(8, len(s)-k)+1)
		return s[:i] + s[k:l] + s[j:k] + s[i:j] + s[l:]
	default:
		return s[:i] + randBytes(r, 1+r.Intn(3)) + s[j:]
	}
}

var parseFlags = []string{"-", "-", "t", "s", "ts", "i", "ti", "si", "tsi"}

func randInterceptors(r *rand.Rand) (string, string, string) {
	if r.Intn(2) == 0 {
		return "0", "-", "-"
	}
	tokI := r.Intn(3)
	var st, ex []string
	for i, n := 0, r.Intn(4); i < n; i++ {
		st = append(st, fmt.Sprint(i))
	}
	for i, n := 0, r.Intn(5); i < n; i++ {
		k := "o"
		if r.Intn(3) == 0 {
			k = "r"
		}
		ex = append(ex, fmt.Sprintf("%s%d", k, i))
	}
	return fmt.Sprint(tokI), listStr(st), listStr(ex)
}

var customOpSources = []string{"a ^ b + c", "a + b ^ c * d", "~a.b", "a@", "a # b # c", "a ^ b ~ c", "x = a ? b", "a ^ b == c ^ d",
	"a.b ^ c[d]", "!a ^ b", "a ^ -b", "a ^ b++", "~a ^ b", "a@ ^ b", "a ^ b @", "f(a ^ b, ~c)", "a = b ^ c", "a || b ^ c && d", "a ^ b ^ c", "~ ~a", "a@@", "a ^\nb", "a\n^ b", "a\n@"}

func randCustomOps(r *rand.Rand) string {
	var ops []string
	used := map[string]bool{}
	for i, n := 0, 1+r.Intn(3); i < n; i++ {
		lit := dynLits[r.Intn(len(dynLits))]
		role := []string{"p", "i", "s"}[r.Intn(3)]
		if used[role+lit] {
			continue
		}
		used[role+lit] = true
		if role == "i" {
			ops = append(ops, fmt.Sprintf("i:%s:%d", hexOf(lit), 1+r.Intn(13)))
		} else {
			ops = append(ops, role+":"+hexOf(lit))
		}
	}
	return listStr(ops)
}

func genParse(r *rand.Rand, n int, emit func(string)) {
	for i := 0; i < n; i++ {
		flags := parseFlags[r.Intn(len(parseFlags))]
		tokI, st, ex := randInterceptors(r)
		ops := "-"
		var src string
		switch r.Intn(10) {
		case 0, 1, 2, 3:
			src = randProgramText(r)
		case 4, 5, 6:
			src = randProgramText(r)
			for k, m := 0, 1+r.Intn(3); k < m; k++ {
				src = mutate(r, src)
			}
		case 7:
			src = randFragments(r, 1+r.Intn(14))
		case 8:
			src = randBytes(r, r.Intn(30))
		default:
			ops = randCustomOps(r)
			src = customOpSources[r.Intn(len(customOpSources))]
			if r.Intn(3) == 0 {
				src = mutate(r, src)
			}
		}
		if r.Intn(6) == 0 { // Windows line endings
			src = strings.ReplaceAll(src, "\n", "\r\n")
		}
		emit(fmt.Sprintf("PARSE %s %s %s %s %s %s", flags, tokI, st, ex, ops, hexOf(src)))
	}
}

var indents = []string{"09", "-", "20", "2020", "202020", "20202020", "2020202020", "202020202020", "20202020202020", "2020202020202020"}

func randPrintCfg(r *rand.Rand) string {
	m := ""
	if r.Intn(2) == 0 {
		m = "m"
	}
	if r.Intn(3) == 0 {
		return "c" + m
	}
	return fmt.Sprintf("p%s:%s:%d", m, indents[r.Intn(len(indents))], r.Intn(2))
}

func genPrint(r *rand.Rand, n int, emit func(string)) {
	for i := 0; i < n; i++ {
		o := jsgen.GenOptions{MaxDepth: 1 + r.Intn(4), MaxStmts: 1 + r.Intn(6), Executable: r.Intn(3) == 0}
		l := randLayout(r)
		if r.Intn(2) == 0 {
			l.Comments = true
			l.Newlines = true
		}
		src := jsgen.Render(jsgen.GenProgram(r, o), r, l)
		// the same program in several configurations
		for k := 0; k < 3; k++ {
			emit(fmt.Sprintf("PRINT %s %s", randPrintCfg(r), hexOf(src)))
		}
	}
}

func genPrintTree(r *rand.Rand, n int, thorough bool, emit func(string)) {
	cfgs := []string{"c", "p:2020:1", "pm:09:0", "cm"}
	emitTree := func(s string) {
		for _, c := range cfgs {
			emit("PRINTT " + c + " " + s)
		}
	}
	// every parent/child operator pair and side: exhaustive up to depth 2, sampled per class at depth 3
	for i, c := 0, treegen.CountExprs(2); i < c; i++ {
		emitTree(stmtListStr(treegen.ExprProgram(treegen.ExprAt(2, i)).Statements))
	}
	// directed families (see internal/treegen/families.go)
	for _, e := range treegen.SignAdjacency() {
		emitTree(stmtListStr(treegen.ExprProgram(e).Statements))
	}
	for i, e := range treegen.UpdateOverAny() {
		if thorough || i%3 == int(r.Int63()%3) {
			emit("PRINTT " + cfgs[i%len(cfgs)] + " " + stmtListStr(treegen.ExprProgram(e).Statements))
		}
	}
	per := 40
	if thorough {
		per = 4000
	}
	for _, cr := range treegen.ClassRanges(3) {
		size := cr.End - cr.Start
		for k := 0; k < per && k < size; k++ {
			idx := cr.Start + r.Intn(size)
			emitTree(stmtListStr(treegen.ExprProgram(treegen.ExprAt(3, idx)).Statements))
		}
	}
	for i := 0; i < n; i++ {
		// one tree in six: operator nodes whose tokens have no text (assembled by hand: Operator field and token type only)
		treegen.BlankOperatorLiterals = i%6 == 5
		p := treegen.RandomProgram(r, 1+r.Intn(4), 1+r.Intn(4))
		treegen.BlankOperatorLiterals = false
		emit("PRINTT " + randPrintCfg(r) + " " + stmtListStr(p.Statements))
		if i%9 == 0 && len(p.Statements) > 0 {
			// a node in two places: the first statement listed again at the end
			emit("PRINTT cm " + stmtListStr(append(append([]ast.Statement{}, p.Statements...), p.Statements[0])))
		}
	}
	treegen.BlankOperatorLiterals = true
	for _, e := range treegen.SignAdjacency() {
		emit("PRINTT c " + stmtListStr(treegen.ExprProgram(e).Statements))
	}
	for _, op := range []string{"+=", "-="} {
		emitTree(stmtListStr(treegen.Program(treegen.While(treegen.Ident("a"), treegen.Block(treegen.ExprStmt(treegen.Compound(op, treegen.Member(treegen.Ident("cart"), "total"), treegen.Call(treegen.Ident("price"), treegen.Ident("item"))))))).Statements))
	}
	treegen.BlankOperatorLiterals = false
}

func genMore(stream string, r *rand.Rand, n int, thorough bool, emit func(string)) bool {
	switch stream {
	case "parse":
		genParse(r, n, emit)
	case "print":
		genPrint(r, n, emit)
	case "printt":
		genPrintTree(r, n, thorough, emit)
	case "sv":
		genSV(r, n, emit)
	default:
		return false
	}
	return true
}

var _ = strings.Join

// genSV: bodies of string literals built from the escape forms of the StringValue specification
// (XjsModel/Spec/StringValue.lean), each with the UTF-16 code units a JavaScript engine (goja) computes for the
// literal. Lines on which the engine panics are not emitted. The model driver evaluates the specification on the
// same body; the two answers are compared (validation of the trusted specification, no xjs code involved).
func genSV(r *rand.Rand, n int, emit func(string)) {
	hex := "0123456789abcdefABCDEF"
	hx := func(k int) string {
		b := make([]byte, k)
		for i := range b {
			b[i] = hex[r.Intn(len(hex))]
		}
		return string(b)
	}
	raws := []string{"a", "Z", " ", "7", "0", "é", "€", "😀", "\u2028", "/", "x", "u", "{", "}", "\t"}
	for i := 0; i < n; i++ {
		d := byte('"')
		if r.Intn(2) == 0 {
			d = '\''
		}
		var sb strings.Builder
		k := 1 + r.Intn(7)
		for j := 0; j < k; j++ {
			switch r.Intn(14) {
			case 0, 1, 2:
				s := raws[r.Intn(len(raws))]
				if s == "\\u2028" {
					s = "\u2028"
				}
				if s == "\\t" {
					s = "\t"
				}
				sb.WriteString(s)
			case 3:
				if d == '"' {
					sb.WriteByte('\'')
				} else {
					sb.WriteByte('"')
				}
			case 4:
				sb.WriteString("\\" + string("bfnrtv"[r.Intn(6)]))
			case 5:
				sb.WriteString("\\" + string("'\"\\aceghijklmopqswyzAZ_$ /-"[r.Intn(27)]))
			case 6:
				sb.WriteString("\\x" + hx(2))
			case 7:
				sb.WriteString("\\u" + hx(4))
			case 8:
				v := []int{0x41, 0xe9, 0x7ff, 0x800, 0xffff, 0x10000, 0x1f600, 0x10fffe, 0xd800, 0xdfff, 0x22, 0x5c, 0x0a, 0x35}[r.Intn(14)]
				if r.Intn(3) == 0 {
					v = r.Intn(0x10fff0)
				}
				f := "%x"
				if r.Intn(2) == 0 {
					f = "%X"
				}
				s := fmt.Sprintf(f, v)
				for len(s) < 6 && r.Intn(3) == 0 {
					s = "0" + s
				}
				sb.WriteString("\\u{" + s + "}")
			case 9:
				sb.WriteString("\\\n")
			case 10:
				sb.WriteString("\\\r\n")
			case 11:
				sb.WriteString("\\\r")
			case 12:
				sb.WriteString("\\0")
			case 13:
				sb.WriteString("\\0" + string("a\\ x"[r.Intn(4)]))
			}
		}
		body := sb.String()
		want, ok := svEngine(d, body)
		if !ok {
			continue
		}
		emit(fmt.Sprintf("SV %d %s %s", d, hexOf(body), want))
	}
}

// svEngine evaluates the literal in goja: "units=c1.c2..." or "none" (SyntaxError); ok=false when the engine panics.
func svEngine(d byte, body string) (res string, ok bool) {
	defer func() {
		if recover() != nil {
			res, ok = "", false
		}
	}()
	vm := goja.New()
	lit := string(d) + body + string(d)
	v, err := vm.RunString("(function(){var s=" + lit + ";var r=[];for(var i=0;i<s.length;i++){r.push(s.charCodeAt(i))}return r.join('.')})()")
	if err != nil {
		return "none", true
	}
	return "units=" + v.String(), true
}
