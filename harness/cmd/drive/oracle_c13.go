package main

// C13 "Parser modes differ only where documented"

import (
	"fmt"
	"strings"

	"github.com/xjslang/xjs/ast"
	"github.com/xjslang/xjs/lexer"
	"github.com/xjslang/xjs/parser"
	"github.com/xjslang/xjs/token"
	"xjsverif/internal/jsgen"
	"xjsverif/internal/treegen"
)

func init() { oracles["C13"] = oracleC13 }

// (a) strict accepts => tolerant identical
func c13Strict(c *oracleCtx, src string) {
	for _, smart := range []string{"", "s"} {
		input := map[string]any{"kind": "a", "src": hexOf(src), "text": src, "flags": smart}
		guard(c, "panic", input, func() {
			st := parseB(smart, src)
			if len(st.errs) > 0 || st.err != nil {
				c.bump("a-strict-rejects")
				return
			}
			c.bump("a-strict-accepts")
			to := parseB(smart+"t", src)
			if len(to.errs) > 0 || to.err != nil {
				c.violation("tolerant-rejects-strict-accepted", "strict mode accepts, tolerant reports: "+errsTextB(to.errs), input)
				return
			}
			a, b := stmtListStr(st.prog.Statements), stmtListStr(to.prog.Statements)
			if a != b {
				c.violation("tolerant-tree-differs", "strict and tolerant trees differ "+firstDiff(a, b), input)
			}
		})
	}
}

// c13Plugin: (a) with a parser-level plugin in place — an expression interceptor that gives a meaning to `#` (a token the
// lexer reports as ILLEGAL): `#x` is a prefix operator. What strict mode accepts with the plugin, tolerant mode reads the same.
func c13Plugin(c *oracleCtx, src string) {
	parse := func(flags string) plainParse {
		pb := parser.NewBuilder(lexer.NewBuilder())
		pb.UseExpressionInterceptor(func(p *parser.Parser, next func() ast.Expression) ast.Expression {
			if p.CurrentToken.Type == token.ILLEGAL && p.CurrentToken.Literal == "#" {
				tok := p.CurrentToken
				p.NextToken()
				return &ast.UnaryExpression{Token: tok, Operator: "#", Right: p.ParseExpressionWithPrecedence(parser.UNARY)}
			}
			return next()
		})
		if strings.Contains(flags, "t") {
			pb.WithTolerantMode(true)
		}
		if strings.Contains(flags, "s") {
			pb.WithSmartSemicolon(true)
		}
		p := pb.Build(src)
		prog, err := p.ParseProgram()
		return plainParse{prog: prog, err: err, errs: p.Errors(), p: p}
	}
	for _, smart := range []string{"", "s"} {
		input := map[string]any{"kind": "plugin", "src": hexOf(src), "text": src, "flags": smart, "plugin": "an expression interceptor reads `#x` as a prefix operator"}
		guard(c, "panic", input, func() {
			st := parse(smart)
			if len(st.errs) > 0 || st.err != nil {
				return
			}
			c.bump("a-plugin-accepts")
			to := parse(smart + "t")
			if len(to.errs) > 0 || to.err != nil {
				c.violation("tolerant-rejects-strict-accepted", "with the plugin strict mode accepts, tolerant reports: "+errsTextB(to.errs), input)
				return
			}
			if a, b := stmtListStr(st.prog.Statements), stmtListStr(to.prog.Statements); a != b {
				c.violation("tolerant-tree-differs", "with the plugin strict and tolerant trees differ "+firstDiff(a, b), input)
			}
		})
	}
}

// c13DropPlugin: (a) with a statement interceptor that parses `debugger` (an identifier for the lexer), an optional `;`
// behind it, and returns nil — the statement is dropped from the tree
func c13DropPlugin(c *oracleCtx, src string) {
	parse := func(flags string) plainParse {
		pb := parser.NewBuilder(lexer.NewBuilder())
		pb.UseStatementInterceptor(func(p *parser.Parser, next func() ast.Statement) ast.Statement {
			if p.CurrentToken.Type == token.IDENT && p.CurrentToken.Literal == "debugger" {
				if p.PeekToken.Type == token.SEMICOLON {
					p.NextToken()
				}
				return nil
			}
			return next()
		})
		if strings.Contains(flags, "t") {
			pb.WithTolerantMode(true)
		}
		if strings.Contains(flags, "s") {
			pb.WithSmartSemicolon(true)
		}
		p := pb.Build(src)
		prog, err := p.ParseProgram()
		return plainParse{prog: prog, err: err, errs: p.Errors(), p: p}
	}
	for _, smart := range []string{"", "s"} {
		input := map[string]any{"kind": "drop-plugin", "src": hexOf(src), "text": src, "flags": smart, "plugin": "a statement interceptor consumes `debugger` `;`? and returns nil"}
		guard(c, "panic", input, func() {
			st := parse(smart)
			if len(st.errs) > 0 || st.err != nil {
				c.bump("a-drop-plugin-strict-rejects")
				return
			}
			c.bump("a-drop-plugin-accepts")
			to := parse(smart + "t")
			if len(to.errs) > 0 || to.err != nil {
				c.violation("tolerant-rejects-strict-accepted", "with the plugin strict mode accepts, tolerant reports: "+errsTextB(to.errs), input)
				return
			}
			if a, b := stmtListStr(st.prog.Statements), stmtListStr(to.prog.Statements); a != b {
				c.violation("tolerant-tree-differs", "with the plugin strict and tolerant trees differ "+firstDiff(a, b), input)
			}
		})
	}
}

// lineInitialCallOrIndex: some ( or [ token is the first token on a line
func lineInitialCallOrIndex(src string) bool {
	// decided on the text, not on the lexer's after-newline flag: the token is the first thing on its line
	starts := lineOffsets(src)
	for _, t := range lexAllB(src) {
		if t.Type != token.LPAREN && t.Type != token.LBRACKET {
			continue
		}
		if t.Start.Line < 0 || t.Start.Line >= len(starts) {
			return true
		}
		off := starts[t.Start.Line] + t.Start.Column
		if off > len(src) || off < starts[t.Start.Line] {
			return true
		}
		if strings.Trim(src[starts[t.Start.Line]:off], " \t\r") == "" && t.Start.Line > 0 {
			return true
		}
	}
	return false
}

// (c) smart vs default on sources without a line-initial ( or [
func c13Smart(c *oracleCtx, src string) {
	if lineInitialCallOrIndex(src) {
		c.bump("c-skipped-line-initial")
		return
	}
	for _, tol := range []string{"", "t"} {
		input := map[string]any{"kind": "c", "src": hexOf(src), "text": src, "flags": tol}
		guard(c, "panic", input, func() {
			d := parseB(tol, src)
			s := parseB(tol+"s", src)
			c.bump("c-compared")
			if (d.err != nil) != (s.err != nil) || errsStrB(d.errs) != errsStrB(s.errs) {
				c.violation("smart-errors-differ", fmt.Sprintf("default errors [%s], smart errors [%s]", errsTextB(d.errs), errsTextB(s.errs)), input)
				return
			}
			a, b := stmtListStr(d.prog.Statements), stmtListStr(s.prog.Statements)
			if a != b {
				c.violation("smart-tree-differs", "default and smart trees differ "+firstDiff(a, b), input)
			}
		})
	}
}

var infixStart = map[token.Type]bool{
	token.ASSIGN: true, token.PLUS_ASSIGN: true, token.MINUS_ASSIGN: true, token.OR: true, token.AND: true, token.EQ: true, token.NOT_EQ: true,
	token.LT: true, token.GT: true, token.LTE: true, token.GTE: true, token.PLUS: true, token.MINUS: true, token.MULTIPLY: true, token.DIVIDE: true,
	token.MODULO: true, token.INCREMENT: true, token.DECREMENT: true, token.LPAREN: true, token.DOT: true, token.LBRACKET: true,
}

func lineOffsets(src string) []int {
	starts := []int{0}
	for i := 0; i < len(src); i++ {
		if src[i] == '\n' {
			starts = append(starts, i+1)
		}
	}
	return starts
}

func offOf(starts []int, p token.Position) int { return starts[p.Line] + p.Column }

// prefixStatementsEqual: the top-level statements of orig that end before byte offset cut appear unchanged
// (same S-expression, tokens included) at the front of got.
func completeBefore(orig *ast.Program, origSrc string, cut int) int {
	// number of top-level statements whose successor starts at or before cut
	starts := lineOffsets(origSrc)
	n := 0
	for i := 1; i < len(orig.Statements); i++ {
		t, ok := stmtFirstTok(orig.Statements[i])
		if !ok {
			break
		}
		if offOf(starts, t.Start) <= cut {
			n = i
		} else {
			break
		}
	}
	return n
}

// (b) check: modified text (join or truncation at byte cut of orig) parsed in tolerant mode
func c13Tolerant(c *oracleCtx, kind, orig, mod string, cut int) {
	input := map[string]any{"kind": kind, "src": hexOf(mod), "text": mod, "orig": hexOf(orig), "cut": cut}
	guard(c, "panic", input, func() {
		st := parseB("", orig)
		if len(st.errs) > 0 {
			c.bump("b-original-rejected")
			return
		}
		to := parseB("t", mod)
		c.bump("b-" + kind)
		if len(to.errs) > 0 || to.err != nil {
			c.violation("tolerant-"+kind+"-rejected", "tolerant mode reports: "+errsTextB(to.errs), input)
			return
		}
		n := completeBefore(st.prog, orig, cut)
		if len(to.prog.Statements) < n {
			c.violation("tolerant-"+kind+"-lost-statement", fmt.Sprintf("%d complete statements precede the change, tolerant tree has %d statements", n, len(to.prog.Statements)), input)
			return
		}
		a, b := stmtListStr(st.prog.Statements[:n]), stmtListStr(to.prog.Statements[:n])
		if a != b {
			c.violation("tolerant-"+kind+"-lost-statement", "statements before the change differ "+firstDiff(a, b), input)
			return
		}
		// the whole program keeps its shape (positions and closing tokens aside)
		if x, y := treegen.Shape(st.prog), treegen.Shape(to.prog); x != y {
			c.violation("tolerant-"+kind+"-shape", "tolerant tree of the modified text differs in shape from the original's "+firstDiff(x, y), input)
		}
	})
}

// joinPoints: byte ranges [from,to) of ";\n" separators in a plain rendering that can be replaced by a space
func joinPoints(plain string) [][2]int {
	toks := lexAllB(plain)
	starts := lineOffsets(plain)
	var out [][2]int
	for i := 1; i+1 < len(toks); i++ {
		t := toks[i]
		if t.Type != token.SEMICOLON || !toks[i+1].AfterNewline {
			continue
		}
		nx := toks[i+1]
		if nx.Type == token.EOF || nx.Type == token.RBRACE || nx.Type == token.ELSE || infixStart[nx.Type] {
			continue
		}
		if toks[i-1].Type == token.RETURN {
			continue
		}
		out = append(out, [2]int{offOf(starts, t.Start), offOf(starts, nx.Start)})
	}
	return out
}

// trailingBraces: start offsets of the run of } tokens that ends the text
func trailingBraces(src string) []int {
	toks := lexAllB(src)
	starts := lineOffsets(src)
	var out []int
	for i := len(toks) - 2; i >= 0 && toks[i].Type == token.RBRACE; i-- {
		out = append(out, offOf(starts, toks[i].Start))
	}
	return out // last brace first
}

// (d)
func c13SmartLines(c *oracleCtx, smartText, defaultText string) {
	input := map[string]any{"kind": "d", "src": hexOf(smartText), "text": smartText, "orig": hexOf(defaultText)}
	guard(c, "panic", input, func() {
		d := parseB("", defaultText)
		if len(d.errs) > 0 {
			c.bump("d-reference-rejected")
			return
		}
		s := parseB("s", smartText)
		c.bump("d-compared")
		if len(s.errs) > 0 || s.err != nil {
			c.violation("smart-lines-rejected", "smart mode reports: "+errsTextB(s.errs), input)
			return
		}
		if x, y := treegen.Shape(d.prog), treegen.Shape(s.prog); x != y {
			c.violation("smart-lines-tree", "smart tree differs from the default tree of the text with semicolons "+firstDiff(x, y), input)
			return
		}
		if x, y := jsgen.CanonXjs(d.prog), jsgen.CanonXjs(s.prog); x != y {
			c.violation("smart-lines-tree", "smart tree differs (canonical form) "+firstDiff(x, y), input)
		}
	})
}

var c13LineStarts = []string{"(function() { a; })()", "(function g(p) { return p; })(1)", "[1, 2].k", "[a, b][0] = c", "(a + b).k", "(a)", "[]", "(x = 1)", "[[1]]", "((a))(b)", "(a)[b](c)",
	"[function() { a; }]", "(a || b)(c)"}

func oracleC13(c *oracleCtx) {
	for _, in := range readInputsB(c) {
		switch in.kind {
		case "PARSE", "PRINT":
			c13Strict(c, in.src)
			c13Smart(c, in.src)
			c.count(in.line)
		case "BUILD":
			oaBuildHistory(c, "mode-after-build", in.line)
			c.count(in.line)
		case "rec":
			if h := recStr(in.rec, "history"); h != "" {
				oaBuildHistory(c, "mode-after-build", h)
				c.count(in.line)
				continue
			}
			switch recStr(in.rec, "kind") {
			case "a":
				c13Strict(c, in.src)
			case "c":
				c13Smart(c, in.src)
			case "plugin":
				c13Plugin(c, in.src)
			case "drop-plugin":
				c13DropPlugin(c, in.src)
			case "join", "truncate":
				c13Tolerant(c, recStr(in.rec, "kind"), unhex(recStr(in.rec, "orig")), in.src, recInt(in.rec, "cut"))
			case "d":
				c13SmartLines(c, in.src, unhex(recStr(in.rec, "orig")))
			default:
				continue
			}
			c.count(in.line)
		}
	}
	if c.tier == "replay" {
		return
	}
	for _, s := range []string{"a = 1 b = 2", "a = 1\nb = 2", "let x = 1 let y = 2", "function f() { return 1 return 2 }", "a\n(b)", "a\n[b]", "a(b)\n(c)", "f(a\n(b))", "x = [1\n[0]]",
		// a token that spans lines: what follows it on its last line is not at the start of a line
		"let c = `ab\ncd`[1]", "x = `a\nb`(1)", "r = f(`a\nb`)[0]", "y = `a\r\nb`[0](2)", "z = \"a\\\nb\"[0]", "let c = `ab\ncd`\n[1]"} {
		c13Strict(c, s)
		c13Smart(c, s)
		c.count(s)
	}
	for _, s := range []string{"let n = #items + 1", "f(#a, #b)\n#c", "x = #y\n#z.k", "if (#a) { b = #c }", "# # a", "a = b #"} {
		c13Plugin(c, s)
		c.count(s)
	}
	// the modes are options of the builder: switched after a parser was built, they hold for the next parser
	oaModeHistories(c, "mode-after-build", c.n(300, 6000))
	c13Tolerant(c, "join", "a = 1;\nb = 2;\n", "a = 1 b = 2;\n", 5)
	c13Tolerant(c, "truncate", "function f() {\na = 1;\n}\n", "function f() {\na = 1;\n", 22)
	// the statement before the missing separator ends in a token that spans lines
	c13Tolerant(c, "join", "let s = `first\nsecond`;\nlet y = 2;\n", "let s = `first\nsecond` let y = 2;\n", 22)
	c13Tolerant(c, "join", "x = \"a\\\nb\";\ny = 1;\n", "x = \"a\\\nb\" y = 1;\n", 10)
	c13Tolerant(c, "join", "f(`a\n\nb`);\ng();\n", "f(`a\n\nb`) g();\n", 10)
	c13SmartLines(c, "a = 1\n(b)(c)\n[d].k\n", "a = 1\n;(b)(c)\n;[d].k\n")
	c13SmartLines(c, "setup() // prepare\r\n(function() { a; })()\r\n[d].k // x\r\n", "setup() // prepare\r\n;(function() { a; })()\r\n;[d].k // x\r\n")
	c13SmartLines(c, "total = a + b\n(function() { a; })()\nn = -a\n[b].k\n", "total = a + b\n;(function() { a; })()\nn = -a\n;[b].k\n")
	// … inside the body of a function expression that itself stands inside brackets (call argument, IIFE, array element, index)
	for _, w := range [][2]string{{"run(", ")"}, {"(", ")()"}, {"x = [", "]"}, {"t[", "]"}, {"f(a, [", "])"}, {"o = {k: ", "}"}, {"y = (1 + ", ")"}} {
		for _, body := range [][2]string{
			{"log(1)\n  (a || b)()\n", "log(1)\n  ;(a || b)()\n"},
			{"n = m\n  [1, 2].k\n  (g)()\n", "n = m\n  ;[1, 2].k\n  ;(g)()\n"},
			{"if (c) { p = q\n (r)() }\n  s()\n  [u]\n", "if (c) { p = q\n ;(r)() }\n  s()\n  ;[u]\n"},
		} {
			c13SmartLines(c, w[0]+"function() {\n  "+body[0]+"}"+w[1]+"\n", w[0]+"function() {\n  "+body[1]+"}"+w[1]+"\n")
		}
	}
	// (a) with a statement-level plugin that consumes a whole statement and returns nothing for it (the supported way
	// of dropping a statement): what strict mode reads with it, tolerant mode reads the same
	for _, s := range []string{"debugger; x = 1\ny = 2", "debugger\nx = 1", "function f(a) { debugger; return a + 1 }", "a = 1; debugger; b = 2; debugger; c = 3",
		"if (a) { debugger; b() } else { debugger; c() }\nd()", "debugger; debugger; x\n", "while (a) { debugger; a-- }", "x = function() { debugger; return 1 }"} {
		c13DropPlugin(c, s)
	}
	n := c.n(3000, 120000)
	for i := 0; i < n && !c.expired(); i++ {
		switch c.r.Intn(10) {
		case 0, 1, 2: // (a) and (c) on valid programs in all layouts
			s := randProgramText(c.r)
			c13Strict(c, s)
			c13Smart(c, s)
			c.count(s)
		case 3, 4: // malformed ones
			s := randProgramText(c.r)
			for k, m := 0, 1+c.r.Intn(2); k < m; k++ {
				s = mutate(c.r, s)
			}
			if c.r.Intn(6) == 0 {
				s = randFragments(c.r, 1+c.r.Intn(10))
			}
			c13Strict(c, s)
			c13Smart(c, s)
			c.count(s)
		case 5, 6: // (b) join
			o := jsgen.GenOptions{MaxDepth: 1 + c.r.Intn(3), MaxStmts: 2 + c.r.Intn(4), Executable: c.r.Intn(3) == 0}
			plain := jsgen.Plain(jsgen.GenProgram(c.r, o))
			jp := joinPoints(plain)
			if len(jp) == 0 {
				c.bump("b-no-join-point")
				continue
			}
			p := jp[c.r.Intn(len(jp))]
			mod := plain[:p[0]] + " " + plain[p[1]:]
			c13Tolerant(c, "join", plain, mod, p[0])
			c.count(mod)
		case 7: // (b) truncation before trailing braces
			o := jsgen.GenOptions{MaxDepth: 1 + c.r.Intn(3), MaxStmts: 1 + c.r.Intn(4), Executable: c.r.Intn(3) == 0}
			var plain string
			var tb []int
			for try := 0; try < 20 && len(tb) == 0; try++ {
				plain = jsgen.Plain(jsgen.GenProgram(c.r, o))
				tb = trailingBraces(plain)
				o.Executable = false
			}
			if len(tb) == 0 {
				c.bump("b-no-trailing-brace")
				continue
			}
			cut := tb[c.r.Intn(len(tb))]
			mod := plain[:cut]
			if c.r.Intn(2) == 0 {
				mod = strings.TrimRight(mod, " \n")
			}
			c13Tolerant(c, "truncate", plain, mod, cut)
			c.count(mod)
		default: // (d)
			o := jsgen.GenOptions{MaxDepth: 1 + c.r.Intn(3), MaxStmts: 2 + c.r.Intn(5)}
			prog := jsgen.GenProgram(c.r, o)
			var sm, df strings.Builder
			prevSimple := false
			eol, cmt := "\n", ""
			if c.r.Intn(3) == 0 { // Windows line endings
				eol = "\r\n"
			}
			if c.r.Intn(3) == 0 { // a trailing comment on every line
				cmt = " // note"
			}
			for k, st := range prog.Kids {
				var txt string
				if c.r.Intn(3) == 0 {
					txt = c13LineStarts[c.r.Intn(len(c13LineStarts))] + ";"
				} else {
					txt = strings.TrimRight(jsgen.Render(st, c.r, jsgen.Layout{Compact: true, SingleQuotes: c.r.Intn(2) == 0}), "\n ")
				}
				simple := strings.HasSuffix(txt, ";")
				txt = strings.TrimSuffix(txt, ";")
				if strings.Contains(txt, "\n") { // a template literal with a line break: keep statements on one line
					txt = "a"
					simple = true
				}
				if k > 0 {
					sm.WriteString(cmt + eol)
					df.WriteString(cmt + eol)
					if prevSimple && (txt[0] == '(' || txt[0] == '[') {
						df.WriteString(";")
					}
				}
				sm.WriteString(txt)
				df.WriteString(txt)
				prevSimple = simple
			}
			sm.WriteString(cmt + eol)
			df.WriteString(cmt + eol)
			c13SmartLines(c, sm.String(), df.String())
			c.count(sm.String())
		}
	}
}
