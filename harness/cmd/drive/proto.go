package main

// Text formats shared with the Lean driver (/verif/lean/Driver/Main.lean).

import (
	"encoding/hex"
	"fmt"
	"strconv"
	"strings"

	"github.com/xjslang/xjs/ast"
	"github.com/xjslang/xjs/token"
)

func hexOf(s string) string {
	if s == "" {
		return "-"
	}
	return hex.EncodeToString([]byte(s))
}

func unhex(s string) string {
	if s == "-" {
		return ""
	}
	b, err := hex.DecodeString(s)
	if err != nil {
		panic("bad hex " + s)
	}
	return string(b)
}

func commentsOf(cs []string) string {
	if len(cs) == 0 {
		return "~"
	}
	parts := make([]string, len(cs))
	for i, c := range cs {
		parts[i] = hexOf(c)
	}
	return strings.Join(parts, ",")
}

func parseComments(s string) []string {
	if s == "~" {
		return nil
	}
	parts := strings.Split(s, ",")
	out := make([]string, len(parts))
	for i, p := range parts {
		out[i] = unhex(p)
	}
	return out
}

func b2i(b bool) int {
	if b {
		return 1
	}
	return 0
}

func tokStr(t token.Token) string {
	return fmt.Sprintf("%d:%s:%d:%d:%d:%d:%d:%s", int(t.Type), hexOf(t.Literal), t.Start.Line, t.Start.Column,
		t.End.Line, t.End.Column, b2i(t.AfterNewline), commentsOf(t.LeadingComments))
}

func atoi(s string) int {
	n, err := strconv.Atoi(s)
	if err != nil {
		panic("bad int " + s)
	}
	return n
}

func parseTok(s string) token.Token {
	f := strings.Split(s, ":")
	if len(f) != 8 {
		panic("bad token " + s)
	}
	return token.Token{
		Type: token.Type(atoi(f[0])), Literal: unhex(f[1]),
		Start:        token.Position{Line: atoi(f[2]), Column: atoi(f[3])},
		End:          token.Position{Line: atoi(f[4]), Column: atoi(f[5])},
		AfterNewline: f[6] == "1", LeadingComments: parseComments(f[7]),
	}
}

func identStr(i *ast.Identifier) string {
	if i == nil {
		return "_"
	}
	return "<" + tokStr(i.Token) + " " + hexOf(i.Value) + ">"
}

func paramsStr(ps []*ast.Identifier) string {
	parts := make([]string, len(ps))
	for i, p := range ps {
		parts[i] = identStr(p)
	}
	return "[" + strings.Join(parts, " ") + "]"
}

func exprListStr(es []ast.Expression) string {
	parts := make([]string, len(es))
	for i, e := range es {
		parts[i] = exprStr(e)
	}
	return "[" + strings.Join(parts, " ") + "]"
}

func blockStr(b *ast.BlockStatement) string {
	if b == nil {
		return "_"
	}
	return fmt.Sprintf("(blk %s %s %s)", tokStr(b.Token), tokStr(b.RBrace), stmtListStr(b.Statements))
}

func exprStr(e ast.Expression) string {
	if e == nil {
		return "_"
	}
	switch v := e.(type) {
	case *ast.Identifier:
		if v == nil {
			return "_"
		}
		return "(id " + identStr(v) + ")"
	case *ast.IntegerLiteral:
		if v == nil {
			return "_"
		}
		return "(int " + tokStr(v.Token) + ")"
	case *ast.FloatLiteral:
		if v == nil {
			return "_"
		}
		return "(flt " + tokStr(v.Token) + ")"
	case *ast.StringLiteral:
		if v == nil {
			return "_"
		}
		return "(str " + tokStr(v.Token) + " " + hexOf(v.Value) + ")"
	case *ast.MultiStringLiteral:
		if v == nil {
			return "_"
		}
		return "(raw " + tokStr(v.Token) + " " + hexOf(v.Value) + ")"
	case *ast.BooleanLiteral:
		if v == nil {
			return "_"
		}
		return fmt.Sprintf("(bool %s %d)", tokStr(v.Token), b2i(v.Value))
	case *ast.NullLiteral:
		if v == nil {
			return "_"
		}
		return "(null " + tokStr(v.Token) + ")"
	case *ast.LetExpression:
		if v == nil {
			return "_"
		}
		return fmt.Sprintf("(lete %s %s %s)", tokStr(v.Token), identStr(v.Name), exprStr(v.Value))
	case *ast.BinaryExpression:
		if v == nil {
			return "_"
		}
		return fmt.Sprintf("(bin %s %s %s %s)", tokStr(v.Token), hexOf(v.Operator), exprStr(v.Left), exprStr(v.Right))
	case *ast.UnaryExpression:
		if v == nil {
			return "_"
		}
		return fmt.Sprintf("(un %s %s %s)", tokStr(v.Token), hexOf(v.Operator), exprStr(v.Right))
	case *ast.PostfixExpression:
		if v == nil {
			return "_"
		}
		return fmt.Sprintf("(post %s %s %s)", tokStr(v.Token), hexOf(v.Operator), exprStr(v.Left))
	case *ast.GroupedExpression:
		if v == nil {
			return "_"
		}
		return fmt.Sprintf("(grp %s %s %s)", tokStr(v.Token), tokStr(v.RParen), exprStr(v.Expression))
	case *ast.CallExpression:
		if v == nil {
			return "_"
		}
		return fmt.Sprintf("(call %s %s %s)", tokStr(v.Token), exprStr(v.Function), exprListStr(v.Arguments))
	case *ast.MemberExpression:
		if v == nil {
			return "_"
		}
		return fmt.Sprintf("(mem %s %d %s %s)", tokStr(v.Token), b2i(v.Computed), exprStr(v.Object), exprStr(v.Property))
	case *ast.AssignmentExpression:
		if v == nil {
			return "_"
		}
		return fmt.Sprintf("(asg %s %s %s)", tokStr(v.Token), exprStr(v.Left), exprStr(v.Value))
	case *ast.CompoundAssignmentExpression:
		if v == nil {
			return "_"
		}
		return fmt.Sprintf("(casg %s %s %s %s)", tokStr(v.Token), hexOf(v.Operator), exprStr(v.Left), exprStr(v.Value))
	case *ast.FunctionExpression:
		if v == nil {
			return "_"
		}
		return fmt.Sprintf("(fn %s %s %s %s)", tokStr(v.Token), identStr(v.Name), paramsStr(v.Parameters), blockStr(v.Body))
	case *ast.ArrayLiteral:
		if v == nil {
			return "_"
		}
		return fmt.Sprintf("(arr %s %s %s)", tokStr(v.Token), tokStr(v.RBracket), exprListStr(v.Elements))
	case *ast.ObjectLiteral:
		if v == nil {
			return "_"
		}
		parts := make([]string, 0, 2*len(v.Properties))
		for _, p := range v.Properties {
			parts = append(parts, exprStr(p.Key), exprStr(p.Value))
		}
		return fmt.Sprintf("(obj %s %s [%s])", tokStr(v.Token), tokStr(v.RBrace), strings.Join(parts, " "))
	}
	return fmt.Sprintf("(unknown-expr %T)", e)
}

func stmtStr(s ast.Statement) string {
	if s == nil {
		return "_"
	}
	switch v := s.(type) {
	case *ast.LetStatement:
		if v == nil {
			return "nilptr"
		}
		return fmt.Sprintf("(let %s %s %s)", tokStr(v.Token), identStr(v.Name), exprStr(v.Value))
	case *ast.ReturnStatement:
		if v == nil {
			return "nilptr"
		}
		return fmt.Sprintf("(ret %s %s)", tokStr(v.Token), exprStr(v.ReturnValue))
	case *ast.ExpressionStatement:
		if v == nil {
			return "nilptr"
		}
		return "(es " + exprStr(v.Expression) + ")"
	case *ast.FunctionDeclaration:
		if v == nil {
			return "nilptr"
		}
		return fmt.Sprintf("(fd %s %s %s %s)", tokStr(v.Token), identStr(v.Name), paramsStr(v.Parameters), blockStr(v.Body))
	case *ast.BlockStatement:
		if v == nil {
			return "nilptr"
		}
		return blockStr(v)
	case *ast.IfStatement:
		if v == nil {
			return "nilptr"
		}
		return fmt.Sprintf("(if %s %s %s %s)", tokStr(v.Token), exprStr(v.Condition), stmtStr(v.ThenBranch), stmtStr(v.ElseBranch))
	case *ast.WhileStatement:
		if v == nil {
			return "nilptr"
		}
		return fmt.Sprintf("(wh %s %s %s)", tokStr(v.Token), exprStr(v.Condition), stmtStr(v.Body))
	case *ast.ForStatement:
		if v == nil {
			return "nilptr"
		}
		return fmt.Sprintf("(for %s %s %s %s %s)", tokStr(v.Token), exprStr(v.Init), exprStr(v.Condition), exprStr(v.Update), stmtStr(v.Body))
	}
	return fmt.Sprintf("(unknown-stmt %T)", s)
}

func stmtListStr(ss []ast.Statement) string {
	parts := make([]string, len(ss))
	for i, s := range ss {
		parts[i] = stmtStr(s)
	}
	return "[" + strings.Join(parts, " ") + "]"
}

// ---------- S-expression reader (programmatic trees) ----------

func lexSexp(s string) []string {
	var out []string
	cur := strings.Builder{}
	flush := func() {
		if cur.Len() > 0 {
			out = append(out, cur.String())
			cur.Reset()
		}
	}
	for _, c := range s {
		switch c {
		case ' ':
			flush()
		case '(', ')', '[', ']', '<', '>':
			flush()
			out = append(out, string(c))
		default:
			cur.WriteRune(c)
		}
	}
	flush()
	return out
}

type sexpReader struct {
	toks []string
	pos  int
}

func (r *sexpReader) peek() string {
	if r.pos < len(r.toks) {
		return r.toks[r.pos]
	}
	return ""
}
func (r *sexpReader) next() string {
	t := r.peek()
	r.pos++
	return t
}
func (r *sexpReader) expect(s string) {
	if t := r.next(); t != s {
		panic(fmt.Sprintf("sexp: expected %q got %q at %d", s, t, r.pos))
	}
}

func (r *sexpReader) ident() *ast.Identifier {
	if r.peek() == "_" {
		r.next()
		return nil
	}
	r.expect("<")
	t := parseTok(r.next())
	v := unhex(r.next())
	r.expect(">")
	return &ast.Identifier{Token: t, Value: v}
}

func (r *sexpReader) params() []*ast.Identifier {
	r.expect("[")
	ps := []*ast.Identifier{}
	for r.peek() != "]" {
		ps = append(ps, r.ident())
	}
	r.expect("]")
	return ps
}

func (r *sexpReader) exprList() []ast.Expression {
	r.expect("[")
	es := []ast.Expression{}
	for r.peek() != "]" {
		es = append(es, r.expr())
	}
	r.expect("]")
	return es
}

func (r *sexpReader) block() *ast.BlockStatement {
	if r.peek() == "_" {
		r.next()
		return nil
	}
	s := r.stmt()
	b, ok := s.(*ast.BlockStatement)
	if !ok {
		panic("sexp: function body must be a block")
	}
	return b
}

func (r *sexpReader) expr() ast.Expression {
	if r.peek() == "_" {
		r.next()
		return nil
	}
	r.expect("(")
	kind := r.next()
	var e ast.Expression
	switch kind {
	case "id":
		e = r.ident()
	case "int":
		e = &ast.IntegerLiteral{Token: parseTok(r.next())}
	case "flt":
		e = &ast.FloatLiteral{Token: parseTok(r.next())}
	case "str":
		t := parseTok(r.next())
		e = &ast.StringLiteral{Token: t, Value: unhex(r.next())}
	case "raw":
		t := parseTok(r.next())
		e = &ast.MultiStringLiteral{Token: t, Value: unhex(r.next())}
	case "bool":
		t := parseTok(r.next())
		e = &ast.BooleanLiteral{Token: t, Value: r.next() == "1"}
	case "null":
		e = &ast.NullLiteral{Token: parseTok(r.next())}
	case "lete":
		t := parseTok(r.next())
		n := r.ident()
		e = &ast.LetExpression{Token: t, Name: n, Value: r.expr()}
	case "bin":
		t := parseTok(r.next())
		op := unhex(r.next())
		l := r.expr()
		e = &ast.BinaryExpression{Token: t, Operator: op, Left: l, Right: r.expr()}
	case "un":
		t := parseTok(r.next())
		op := unhex(r.next())
		e = &ast.UnaryExpression{Token: t, Operator: op, Right: r.expr()}
	case "post":
		t := parseTok(r.next())
		op := unhex(r.next())
		e = &ast.PostfixExpression{Token: t, Operator: op, Left: r.expr()}
	case "grp":
		t := parseTok(r.next())
		rp := parseTok(r.next())
		e = &ast.GroupedExpression{Token: t, RParen: rp, Expression: r.expr()}
	case "call":
		t := parseTok(r.next())
		f := r.expr()
		e = &ast.CallExpression{Token: t, Function: f, Arguments: r.exprList()}
	case "mem":
		t := parseTok(r.next())
		c := r.next() == "1"
		o := r.expr()
		e = &ast.MemberExpression{Token: t, Computed: c, Object: o, Property: r.expr()}
	case "asg":
		t := parseTok(r.next())
		l := r.expr()
		e = &ast.AssignmentExpression{Token: t, Left: l, Value: r.expr()}
	case "casg":
		t := parseTok(r.next())
		op := unhex(r.next())
		l := r.expr()
		e = &ast.CompoundAssignmentExpression{Token: t, Operator: op, Left: l, Value: r.expr()}
	case "fn":
		t := parseTok(r.next())
		n := r.ident()
		ps := r.params()
		e = &ast.FunctionExpression{Token: t, Name: n, Parameters: ps, Body: r.block()}
	case "arr":
		t := parseTok(r.next())
		rb := parseTok(r.next())
		e = &ast.ArrayLiteral{Token: t, RBracket: rb, Elements: r.exprList()}
	case "obj":
		t := parseTok(r.next())
		rb := parseTok(r.next())
		kv := r.exprList()
		props := []ast.ObjectProperty{}
		for i := 0; i+1 < len(kv); i += 2 {
			props = append(props, ast.ObjectProperty{Key: kv[i], Value: kv[i+1]})
		}
		e = &ast.ObjectLiteral{Token: t, RBrace: rb, Properties: props}
	default:
		panic("sexp: unknown expr kind " + kind)
	}
	r.expect(")")
	return e
}

func (r *sexpReader) stmtList() []ast.Statement {
	r.expect("[")
	ss := []ast.Statement{}
	for r.peek() != "]" {
		ss = append(ss, r.stmt())
	}
	r.expect("]")
	return ss
}

func (r *sexpReader) stmt() ast.Statement {
	if r.peek() == "_" {
		r.next()
		return nil
	}
	r.expect("(")
	kind := r.next()
	var s ast.Statement
	switch kind {
	case "let":
		t := parseTok(r.next())
		n := r.ident()
		s = &ast.LetStatement{Token: t, Name: n, Value: r.expr()}
	case "ret":
		t := parseTok(r.next())
		s = &ast.ReturnStatement{Token: t, ReturnValue: r.expr()}
	case "es":
		s = &ast.ExpressionStatement{Expression: r.expr()}
	case "fd":
		t := parseTok(r.next())
		n := r.ident()
		ps := r.params()
		s = &ast.FunctionDeclaration{Token: t, Name: n, Parameters: ps, Body: r.block()}
	case "blk":
		t := parseTok(r.next())
		rb := parseTok(r.next())
		s = &ast.BlockStatement{Token: t, RBrace: rb, Statements: r.stmtList()}
	case "if":
		t := parseTok(r.next())
		c := r.expr()
		a := r.stmt()
		s = &ast.IfStatement{Token: t, Condition: c, ThenBranch: a, ElseBranch: r.stmt()}
	case "wh":
		t := parseTok(r.next())
		c := r.expr()
		s = &ast.WhileStatement{Token: t, Condition: c, Body: r.stmt()}
	case "for":
		t := parseTok(r.next())
		i := r.expr()
		c := r.expr()
		u := r.expr()
		s = &ast.ForStatement{Token: t, Init: i, Condition: c, Update: u, Body: r.stmt()}
	default:
		panic("sexp: unknown stmt kind " + kind)
	}
	r.expect(")")
	return s
}

func parseProgramSexp(s string) *ast.Program {
	r := &sexpReader{toks: lexSexp(s)}
	ss := r.stmtList()
	if r.pos != len(r.toks) {
		panic("sexp: trailing tokens")
	}
	return &ast.Program{Statements: ss}
}
