package main

// C12 "Strict mode never silently accepts malformed programs".
//
// Valid programs (jsgen) are corrupted (token deleted, two statements fused, text truncated);
// only corruptions that goja's parser rejects are kept. The default (strict) xjs parser must
// report at least one error, and the first reported error must not lie before the start of the
// last intact token.

import (
	"fmt"
	"regexp"
	"strings"

	"github.com/xjslang/xjs/ast"
	"github.com/xjslang/xjs/token"
	"xjsverif/internal/jsgen"
)

func init() { oracles["C12"] = oracleC12 }

var c12Decimal = regexp.MustCompile(`^[0-9]+$`)

func c12Ungroup(e ast.Expression) ast.Expression {
	for {
		g, ok := e.(*ast.GroupedExpression)
		if !ok || oaNil(g) {
			return e
		}
		e = g.Expression
	}
}

func c12IsTarget(e ast.Expression) bool {
	switch c12Ungroup(e).(type) {
	case *ast.Identifier, *ast.MemberExpression:
		return true
	}
	return false
}

// treeStaticOveraccept decides the class "static-overaccept" on the tree xjs built for an
// accepted text: a check that ECMAScript makes while parsing is missing in xjs.
//   - member access `.` followed by something that is not an identifier;
//   - an integer literal directly followed by `.name` (ECMAScript reads `1.` as the number);
//   - object literal key that is not an identifier, string or number;
//   - function parameter that is not an identifier;
//   - target of = += -= ++ -- that is not an identifier or member access;
//   - `let` as the brace-less body of if / else / while / for.
func treeStaticOveraccept(p *ast.Program) string {
	why := ""
	set := func(s string) {
		if why == "" {
			why = s
		}
	}
	params := func(ps []*ast.Identifier) {
		for _, id := range ps {
			if id == nil || id.Token.Type != token.IDENT {
				set("function parameter is not an identifier")
			}
		}
	}
	body := func(s ast.Statement) {
		if _, ok := s.(*ast.LetStatement); ok {
			set("let as a brace-less body")
		}
	}
	oaWalk(p, func(e ast.Expression) {
		switch n := e.(type) {
		case *ast.MemberExpression:
			if n.Computed {
				return
			}
			if _, ok := n.Property.(*ast.Identifier); !ok {
				set("member access followed by a non-identifier")
			}
			if lit, ok := n.Object.(*ast.IntegerLiteral); ok && lit != nil && c12Decimal.MatchString(lit.Token.Literal) &&
				lit.Token.End == n.Token.Start {
				set("number literal directly followed by .name")
			}
		case *ast.ObjectLiteral:
			for _, pr := range n.Properties {
				switch pr.Key.(type) {
				case *ast.Identifier, *ast.StringLiteral, *ast.IntegerLiteral, *ast.FloatLiteral:
				default:
					set("object literal key is not an identifier, string or number")
				}
			}
		case *ast.FunctionExpression:
			params(n.Parameters)
		case *ast.AssignmentExpression:
			if !c12IsTarget(n.Left) {
				set("assignment target is not an identifier or member access")
			}
		case *ast.CompoundAssignmentExpression:
			if !c12IsTarget(n.Left) {
				set("assignment target is not an identifier or member access")
			}
		case *ast.UnaryExpression:
			if (n.Operator == "++" || n.Operator == "--") && !c12IsTarget(n.Right) {
				set("++/-- operand is not an identifier or member access")
			}
		case *ast.PostfixExpression:
			if !c12IsTarget(n.Left) {
				set("++/-- operand is not an identifier or member access")
			}
		}
	}, func(s ast.Statement) {
		switch n := s.(type) {
		case *ast.FunctionDeclaration:
			params(n.Parameters)
		case *ast.IfStatement:
			body(n.ThenBranch)
			body(n.ElseBranch)
		case *ast.WhileStatement:
			body(n.Body)
		case *ast.ForStatement:
			body(n.Body)
		}
	})
	return why
}

// clsPostfixCallee is a class found by this oracle (not known beforehand).
const clsPostfixCallee = "postfix-as-callee-or-object"

// treePostfixCallee: a postfix ++/-- expression, not parenthesised, directly followed by a call
// `(`, an index `[` or a `.` (e.g. `a++ (b)`, `a-- [0]`): ECMAScript rejects that (an update
// expression is not a member/call expression), xjs builds call(postfix(a), b).
func treePostfixCallee(p *ast.Program) bool {
	found := false
	oaWalk(p, func(e ast.Expression) {
		switch n := e.(type) {
		case *ast.CallExpression:
			if _, ok := n.Function.(*ast.PostfixExpression); ok {
				found = true
			}
		case *ast.MemberExpression:
			if _, ok := n.Object.(*ast.PostfixExpression); ok {
				found = true
			}
		}
	}, nil)
	return found
}

func c12GojaRejects(src string) (rej bool) {
	defer func() {
		if recover() != nil {
			rej = false // goja itself failed: the text is unusable
		}
	}()
	return jsgen.GojaRejects(src)
}

// c12Check tests one corrupted text. line/col: start of the last intact token (-1: none).
func c12Check(c *oracleCtx, text, kind string, line, col int) {
	input := map[string]any{"src": hexOf(text), "text": text, "kind": kind, "intactLine": line, "intactCol": col}
	guard(c, "panic", input, func() {
		if !c12GojaRejects(text) {
			c.bump("goja-accepts")
			return
		}
		prog, errs := oaParse(text)
		if len(errs) == 0 {
			cls, what := "silently-accepted", "goja rejects the text, xjs reports no error"
			if srcUnterminatedLiteral(text) {
				cls = clsUnterminated
			} else if why := treeStaticOveraccept(prog); why != "" {
				cls, what = clsOveraccept, what+" ("+why+")"
			} else if srcAsiBeforeBacktick(text) {
				cls, what = clsAsiBacktick, what+" (a line starts with a backtick literal after a complete expression: ECMAScript continues the expression)"
			} else if treePostfixCallee(prog) {
				cls, what = clsPostfixCallee, what+" (call or member access on an unparenthesised postfix expression)"
			}
			c.violation(cls, what, input)
			return
		}
		if line < 0 {
			return
		}
		p := errs[0].Range.Start
		if p.Line < line || p.Line == line && p.Column < col {
			c.violation("error-too-early", fmt.Sprintf("first error %q at %d:%d lies before the last intact token at %d:%d", errs[0].Message, p.Line, p.Column, line, col), input)
		}
	})
}

func oracleC12(c *oracleCtx) {
	for _, in := range c.inputs {
		if m := recordedInput(in); m != nil {
			if s := oaStr(m, "src"); s != "" {
				line, col := -1, -1
				if v, ok := m["intactLine"].(float64); ok {
					line = int(v)
				}
				if v, ok := m["intactCol"].(float64); ok {
					col = int(v)
				}
				c12Check(c, unhex(s), oaStr(m, "kind"), line, col)
				c.count(s)
			}
			continue
		}
		if src, _, _, ok := oaInputSource(in); ok && src != "" {
			c12Check(c, src, "op", -1, -1) // any text goja rejects must be rejected by xjs
			c.count(src)
		}
	}

	n := c.n(150, 6000)
	for i := 0; i < n && !c.expired(); i++ {
		tree := jsgen.GenProgram(c.r, jsgen.GenOptions{MaxDepth: 1 + c.r.Intn(4), MaxStmts: 1 + c.r.Intn(5), Executable: c.r.Intn(4) == 0})
		// the uncorrupted plain text must be accepted by both, otherwise the program is unusable
		plain := jsgen.Plain(tree)
		if _, errs := oaParse(plain); len(errs) > 0 || c12GojaRejects(plain) {
			c.bump("unusable-program")
			continue
		}
		var cs []jsgen.Corruption
		guard(c, "panic", map[string]any{"text": plain}, func() { cs = jsgen.Corruptions(tree, c.r) })
		if len(cs) > 400 {
			// keep every kind represented: shuffle, then cut
			c.r.Shuffle(len(cs), func(a, b int) { cs[a], cs[b] = cs[b], cs[a] })
			cs = cs[:400]
		}
		for _, k := range cs {
			c.count(k.Text)
			c.bump(k.Kind)
			c12Check(c, k.Text, k.Kind, k.IntactLine, k.IntactCol)
		}
	}

	if c.tier == "replay" {
		return
	}
	// ---- directed corruptions in layouts the generator seldom makes: heads and literals that span lines ----
	for _, t := range []string{
		"for (let i = 0\n i < 10;\n i++) { a() }", "for (let i = 0;\n i < 10\n i++) { a() }", "for (i = 0\n;i < 3\ni++) a()",
		"for (let i = 0; i < 3) { a() }", "for (; i < 3) a()", "for (;) a()", "for (let i = 0 i < 3; i++) a()",
		"let s = `a\nb` let t = 2", "x = `a\nb` y = 1", "let q = \"a\\\nb\" let r = 2", "s = `a\n\nb`\n`c`",
		"let f = function (n) { return n } let p = 1", "let o = { x: 1 } total = 3", "x = [1] y = 2", "f(a) g(b)",
		"f(1, , 3)", "f(, b)", "g(a,, b)", "[1, , 2](x) y", "if (a) { b } else else c", "while (a) { } }", "function f( { }",
		"a = 1 b = 2", "return 1 2", "let x = 1 let y = 2",
	} {
		c.count(t)
		c12Check(c, t, "directed", -1, -1)
	}
	// ---- witnesses of the known classes ----
	for _, w := range []struct {
		text      string
		line, col int
	}{
		{"x = \"abc", 0, 2},
		{"f(1);\nx = `ab\nc", 1, 2},
		{"a.(c);", 0, 1},
		{"a.1;", 0, 1},
		{"x = {a + b: 1};", 0, 4},
		{"function f(1, +) {\n}", 0, 9},
		{"function f(a, , b) {\n}", 0, 12},
		{"a + b = c;", 0, 4},
		{"f() = 1;", 0, 2},
		{"++1;", -1, -1},
		{"1.x;", -1, -1},
		{"if (a) let x = 1;", 0, 5},
		{"while (a) let x;", 0, 8},
		{"a++ (b);", 0, 1},
		{"x = a-- [0];", 0, 5},
	} {
		c.count(w.text)
		c12Check(c, w.text, "witness", w.line, w.col)
	}
}

var _ = strings.Join
