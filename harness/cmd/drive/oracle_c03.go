package main

// C03 "Printed code parses back to the tree it was printed from".
//
// Programmatic trees (treegen: exhaustive up to depth 2, per-class samples of depth 3, random
// programs) and parser-produced trees are printed compact and pretty (with semicolons; printing
// without semicolons belongs to C06), the text is parsed again and the shapes are compared.
// Fixed point: compiling the re-parsed tree reproduces the text byte for byte.

import (
	"fmt"

	"github.com/xjslang/xjs/ast"
	"github.com/xjslang/xjs/token"
	"xjsverif/internal/jsgen"
	"xjsverif/internal/treegen"
)

func init() { oracles["C03"] = oracleC03 }

var c03Cfgs = []string{"c", "p:2020:1"}

// clsParenIndent is a class found by this oracle (not known beforehand): see treeParenAroundFunction.
const clsParenIndent = "printer-paren-function-indent"

// c03TreeClass decides the known class of a programmatic tree printed under cfg.
func c03TreeClass(p *ast.Program, cfg string) string {
	switch {
	case treeStmtStart(p):
		return clsStmtStart
	case treeDanglingElse(p):
		return clsDanglingElse
	case oaCfgIsPretty(cfg) && treeParenAroundFunction(p):
		return clsParenIndent
	}
	return ""
}

func exprHasFunction(e ast.Expression) bool {
	found := false
	oaWalk(&ast.Program{Statements: []ast.Statement{&ast.ExpressionStatement{Expression: e}}}, func(x ast.Expression) {
		if _, ok := x.(*ast.FunctionExpression); ok {
			found = true
		}
	}, nil)
	return found
}

// treeParenAroundFunction: an operand that is not a grouping node, binds looser than its parent
// requires (so the printer itself writes parentheses around it) and contains a function
// expression. The printer's own parentheses do not indent, the grouping node that the re-parse
// creates for them does, so the pretty-printed text is not a fixed point (indentation of the
// function body changes); the tree shape is preserved.
func treeParenAroundFunction(p *ast.Program) bool {
	found := false
	oaWalk(p, func(e ast.Expression) {
		var operand ast.Expression
		switch n := e.(type) {
		case *ast.BinaryExpression:
			if !oaNil(n.Left) && n.Left.Precedence() < n.Precedence() && exprHasFunction(n.Left) {
				found = true
			}
			if !oaNil(n.Right) && n.Right.Precedence() <= n.Precedence() {
				operand = n.Right
			}
		case *ast.UnaryExpression:
			if !oaNil(n.Right) && n.Right.Precedence() < ast.PrecedenceUnary {
				operand = n.Right
			}
		case *ast.PostfixExpression:
			if !oaNil(n.Left) && n.Left.Precedence() < ast.PrecedencePostfix {
				operand = n.Left
			}
		}
		if operand != nil && exprHasFunction(operand) {
			found = true
		}
	}, nil)
	return found
}

// c03Check prints tree under cfg and checks re-parse and fixed point. cls is the known class of
// the input ("" if none); src is the text the tree was parsed from, if any.
func c03Check(c *oracleCtx, tree *ast.Program, cfg, cls string, input map[string]any) {
	guard(c, "panic", input, func() {
		code := oaCompile(cfg, tree)
		fail := func(sym, what string) {
			k := cls
			if k == "" {
				k = sym
			}
			input["output"] = oaClip(code, 600)
			c.violation(k, what, input)
		}
		re, errs := oaParse(code)
		if len(errs) > 0 {
			fail("reparse-error", "printed text does not parse: "+oaErrText(errs))
			return
		}
		if want, got := treegen.Shape(tree), treegen.Shape(re); want != got {
			fail("tree-mismatch", c02Diff(want, got))
			return
		}
		// the other parser modes read the printed text the same way (the printer's layout never relies on the default mode)
		modes := []string{"t"}
		if !lineInitialCallOrIndex(code) { // a comment kept inside an expression can put a `(` first on a line: smart mode reads that differently by design
			modes = []string{"s", "t", "ts"}
		}
		for _, fl := range modes {
			m := parseB(fl, code)
			if len(m.errs) > 0 {
				fail("reparse-error", "printed text does not parse in mode "+fl+": "+oaErrText(m.errs))
				return
			}
			if got := treegen.Shape(m.prog); got != treegen.Shape(re) {
				fail("tree-mismatch", "in parser mode "+fl+" the printed text reads differently: "+c02Diff(treegen.Shape(re), got))
				return
			}
		}
		if codeHasHTMLCommentOpener(code) {
			fail("html-comment-opener", "the printed text contains `<!--`, which a JavaScript script reads as a comment opener")
			return
		}
		if again := oaCompile(cfg, re); again != code {
			fail("not-a-fixed-point", fmt.Sprintf("compiling the re-parsed tree gives %q", oaClip(again, 300)))
		}
	})
}

func c03Programmatic(c *oracleCtx, tree *ast.Program, cfgs []string, steer bool) {
	sexp := stmtListStr(tree.Statements)
	c.count(sexp)
	for _, cfg := range cfgs {
		cls := c03TreeClass(tree, cfg)
		if cls != "" && steer {
			c.bump("steered-away:" + cls)
			continue
		}
		c03Check(c, tree, cfg, cls, map[string]any{"tree": sexp, "cfg": cfg})
	}
}

// c03Parsed checks a parser-produced tree.
func c03Parsed(c *oracleCtx, src string, cfgs []string, steer bool) {
	prog, errs := oaParse(src)
	if len(errs) > 0 {
		c.bump("parse-error")
		return
	}
	for _, cfg := range cfgs {
		cls := ""
		switch {
		case srcStringRequote(src):
			cls = clsRequote
		case srcBacktickEscape(src):
			cls = clsBacktickEsc
		case oaCfgIsPretty(cfg) && srcTrimInLiteral(src):
			cls = clsTrim
		case oaCfgNoSemi(cfg) && treeNoSemiHazard(prog):
			cls = clsNoSemi
		}
		if cls != "" && steer {
			c.bump("steered-away:" + cls)
			continue
		}
		c03Check(c, prog, cfg, cls, map[string]any{"src": hexOf(src), "text": src, "cfg": cfg})
	}
}

// c03EditAfterPrint: `x = p <op1> q <op2> r` is parsed and compiled once; then the operator of the inner binary node
// is replaced in place (token type, literal and Operator) by one of another level, and the tree is compiled again. The
// text must parse back to the edited tree — what a node answered when it was printed the first time must not stick.
func c03EditAfterPrint(c *oracleCtx) {
	ops := []struct {
		text string
		ty   token.Type
	}{{"+", token.PLUS}, {"*", token.MULTIPLY}, {"<", token.LT}, {"==", token.EQ}, {"&&", token.AND}, {"||", token.OR}, {"-", token.MINUS}, {"%", token.MODULO}}
	for _, first := range ops {
		for _, outer := range ops {
			for _, second := range ops {
				if first.ty == second.ty {
					continue
				}
				src := "x = p " + first.text + " q " + outer.text + " r"
				input := map[string]any{"src": hexOf(src), "text": src, "edit": "after a first Compile the inner operator " + first.text + " is replaced in place by " + second.text}
				guard(c, "panic", input, func() {
					prog, errs := oaParse(src)
					if len(errs) > 0 || len(prog.Statements) != 1 {
						return
					}
					es, ok := prog.Statements[0].(*ast.ExpressionStatement)
					if !ok {
						return
					}
					as, ok := es.Expression.(*ast.AssignmentExpression)
					if !ok {
						return
					}
					top, ok := as.Value.(*ast.BinaryExpression)
					if !ok {
						return
					}
					inner, ok := top.Left.(*ast.BinaryExpression)
					if !ok {
						if inner, ok = top.Right.(*ast.BinaryExpression); !ok {
							return
						}
					}
					for _, cfg := range c03Cfgs {
						_ = oaCompile(cfg, prog) // the first print
					}
					_ = inner.Precedence()
					inner.Token.Type, inner.Token.Literal, inner.Operator = second.ty, second.text, second.text
					want := treegen.Shape(prog)
					c.count(src + "|" + second.text)
					for _, cfg := range c03Cfgs {
						out := oaCompile(cfg, prog)
						back, berrs := oaParse(out)
						if len(berrs) > 0 {
							input["cfg"], input["output"] = cfg, oaClip(out, 300)
							c.violation("reparse-error", "the text of the edited tree does not parse: "+oaErrText(berrs), input)
							return
						}
						if got := treegen.Shape(back); got != treegen.Shape(prog) {
							input["cfg"], input["output"] = cfg, oaClip(out, 300)
							c.violation("tree-mismatch", "the edited tree "+want+" is printed as text that parses to another tree: "+firstDiff(treegen.Shape(prog), got), input)
							return
						}
					}
				})
			}
		}
	}
}

func oracleC03(c *oracleCtx) {
	for _, in := range c.inputs {
		if m := recordedInput(in); m != nil {
			cfgs := c03Cfgs
			if cfg := oaStr(m, "cfg"); cfg != "" {
				cfgs = []string{cfg}
			}
			if oaStr(m, "edit") != "" {
				c03EditAfterPrint(c) // the whole (small) family: the recorded one is among them
			} else if t := oaStr(m, "tree"); t != "" {
				guard(c, "panic", m, func() { c03Programmatic(c, parseProgramSexp(t), cfgs, false) })
			} else if s := oaStr(m, "src"); s != "" {
				c.count(s)
				c03Parsed(c, unhex(s), cfgs, false)
			}
			continue
		}
		if src, cfg, tree, ok := oaInputSource(in); ok {
			cfgs := c03Cfgs
			if cfg != "" && !oaCfgNoSemi(cfg) {
				cfgs = []string{cfg}
			}
			if tree != nil {
				c03Programmatic(c, tree, cfgs, false)
			} else if src != "" {
				c.count(src)
				c03Parsed(c, src, cfgs, false)
			}
		}
	}
	if c.tier == "replay" {
		return
	}

	// a tree that was printed before and is edited in place afterwards prints like a fresh tree of that shape
	c03EditAfterPrint(c)

	// exhaustive: every operator applied to leaves
	for i, n := 0, treegen.CountExprs(2); i < n && !c.expired(); i++ {
		c03Programmatic(c, treegen.ExprProgram(treegen.ExprAt(2, i)), c03Cfgs, true)
	}
	// every parent/child operator pair on every side, sampled per class
	per := c.n(60, 6000)
	for _, cr := range treegen.ClassRanges(3) {
		size := cr.End - cr.Start
		for k := 0; k < per && k < size && !c.expired(); k++ {
			idx := cr.Start + c.r.Intn(size)
			if per >= size {
				idx = cr.Start + k
			}
			c03Programmatic(c, treegen.ExprProgram(treegen.ExprAt(3, idx)), c03Cfgs, true)
		}
	}
	// random programs over all node types
	semiCfgs := []string{}
	for _, in := range oaIndentsAll {
		semiCfgs = append(semiCfgs, "p:"+in+":1", "pm:"+in+":1")
	}
	n := c.n(3000, 200000)
	for i := 0; i < n && !c.expired(); i++ {
		treegen.BlankOperatorLiterals = i%5 == 4 // operator nodes assembled by hand: no token text
		p := treegen.RandomProgram(c.r, 1+c.r.Intn(5), 1+c.r.Intn(4))
		treegen.BlankOperatorLiterals = false
		cfgs := c03Cfgs
		if c.r.Intn(4) == 0 {
			cfgs = []string{"c", semiCfgs[c.r.Intn(len(semiCfgs))]}
		}
		c03Programmatic(c, p, cfgs, true)
	}
	// parser-produced trees
	n = c.n(1500, 60000)
	for i := 0; i < n && !c.expired(); i++ {
		tree := jsgen.GenProgram(c.r, jsgen.GenOptions{MaxDepth: 1 + c.r.Intn(4), MaxStmts: 1 + c.r.Intn(5), Executable: c.r.Intn(4) == 0})
		src, ok := oaRenderAvoiding(c.r, tree, oaRichLayout(c.r), func(s string) bool { return srcStringRequote(s) || srcBacktickEscape(s) })
		if !ok {
			c.bump("steered-away")
			continue
		}
		c.count(src)
		c03Parsed(c, src, c03Cfgs, true)
	}

	// directed families (see internal/treegen/families.go)
	for _, e := range treegen.SignAdjacency() {
		c03Programmatic(c, treegen.ExprProgram(e), c03Cfgs, true)
	}
	for i, e := range treegen.UpdateOverAny() {
		if c.thorough() || i%2 == int(c.seed%2) {
			c03Programmatic(c, treegen.ExprProgram(e), c03Cfgs, true)
		}
	}

	// directed sources: escapes (in all three forms) that denote a quote, a backslash, a line terminator or a digit
	// (needed by seeded/C03-m5), and literals as objects of member accesses
	for _, src := range c03EscapeSources() {
		c.count(src)
		c03Parsed(c, src, c03Cfgs, true)
	}

	c03Witnesses(c)
}

func c03EscapeSources() []string {
	bodies := []string{`\u0022`, `{\u0022a\u0022: 1}`, `C:\u005C`, `\u005Cu0041`, `\x22`, `\x5c`, `\x5Cn`, `\u{22}`, `\u{5C}`, `\u{5c}x41`,
		`\u000A`, `\x0a`, `\u{a}`, `\u000D`, `\x0D`, `\u{D}`, `\0\u0037`, `\0\x37`, `\0\u{37}`, `a\u0027b`, `\x27`, `\u{27}`, `\u0030`, `\x39`,
		`\u2028`, `\u{2029}`, `\uD83D\uDE00`, `\u{1F600}`, `\xe9`, `\u00e9`}
	var out []string
	for i := 0; i < len(bodies); i += 5 {
		j := i + 5
		if j > len(bodies) {
			j = len(bodies)
		}
		src := ""
		for k, b := range bodies[i:j] {
			src += fmt.Sprintf("let d%d = \"%s\";\nlet s%d = '%s';\n", k, b, k, b)
		}
		out = append(out, src)
	}
	out = append(out, "let a = `x\\`y`;\nlet b = `\\\\`;\nlet c = 'p\"q';\nlet d = \"p'q\";\n",
		"let e = `a\\\\\\`b`;\nlet f = `\\${x}`;\nlet g = `\\\\${x}`;\nlet h = `\\$`;\nlet i = `C:\\\\\\`dir\\``;\nlet j = `${a}$`;\n",
		"let n = 1 .toString();\nlet m = 0x1f.toString(2);\nlet k = 1.5.toFixed(1);\nlet j = [2 .valueOf()];\n")
	return out
}

func c03Witnesses(c *oracleCtx) {
	id := treegen.Ident
	one := treegen.Int("1")
	blk := treegen.Block
	es := func(e ast.Expression) ast.Statement { return treegen.ExprStmt(e) }
	for _, p := range []*ast.Program{
		// statement starts with an object literal / function expression
		treegen.ExprProgram(treegen.Object()),
		treegen.ExprProgram(treegen.Bin("+", treegen.Object(treegen.Prop(id("a"), one)), id("b"))),
		treegen.ExprProgram(treegen.Func("", nil, blk())),
		treegen.ExprProgram(treegen.Call(treegen.Func("f", nil, blk()))),
		treegen.ExprProgram(treegen.Member(treegen.Object(), "a")),
		treegen.ExprProgram(treegen.Assign(treegen.Index(treegen.Object(), one), id("b"))),
		treegen.Program(treegen.If(id("a"), es(treegen.Postfix("++", treegen.Member(treegen.Object(), "a"))), nil)),
		// printer-made parentheses around a function expression (pretty output only)
		treegen.ExprProgram(treegen.Bin("*", id("a"), treegen.Bin("+", id("b"), treegen.Func("", nil, blk(es(id("c"))))))),
		// a token that spans lines right after `return` / before a postfix operator / before a call
		treegen.Program(treegen.FuncDecl("g", nil, blk(treegen.Return(treegen.RawStr("a\nb"))))),
		treegen.Program(treegen.FuncDecl("g", nil, blk(treegen.Return(treegen.Bin("+", treegen.RawStr("a\nb"), one))))),
		treegen.Program(treegen.FuncDecl("g", nil, blk(treegen.Return(treegen.Member(treegen.RawStr("a\n\nb"), "length"))))),
		treegen.ExprProgram(treegen.Postfix("++", treegen.Index(treegen.RawStr("a\nb"), one))),
		treegen.ExprProgram(treegen.Call(treegen.Index(treegen.RawStr("a\nb"), one), id("c"))),
		treegen.Program(es(treegen.Assign(id("x"), id("a"))), es(treegen.Prefix("++", id("b")))),
		treegen.Program(es(treegen.Assign(id("x"), id("a"))), es(treegen.Prefix("--", id("b"))), es(treegen.Prefix("!", id("c")))),
		// dangling else
		treegen.Program(treegen.If(id("a"), treegen.If(id("b"), es(id("c")), nil), es(id("a")))),
		treegen.Program(treegen.If(id("a"), treegen.While(id("b"), treegen.If(id("c"), es(one), nil)), es(id("a")))),
		treegen.Program(treegen.If(id("a"), treegen.For(nil, nil, nil, treegen.If(id("c"), blk(), nil)), blk())),
		treegen.Program(treegen.If(id("a"), treegen.If(id("b"), blk(), treegen.If(id("c"), blk(), nil)), blk())),
	} {
		c03Programmatic(c, p, append(append([]string{}, c03Cfgs...), "p:09:0"), false)
	}
	made := map[string]int{}
	for i := 0; i < 20000 && !c.expired() && (made[clsStmtStart] < 10 || made[clsDanglingElse] < 10 || made[clsParenIndent] < 10); i++ {
		var p *ast.Program
		if i%2 == 0 {
			p = treegen.RandomProgram(c.r, 2+c.r.Intn(3), 1+c.r.Intn(3))
		} else {
			p = treegen.ExprProgram(treegen.ExprAt(3, c.r.Intn(treegen.CountExprs(3))))
		}
		if cls := c03TreeClass(p, "p:2020:1"); cls != "" && made[cls] < 10 {
			made[cls]++
			c03Programmatic(c, p, c03Cfgs, false)
		}
	}
	// parser-produced trees in the literal classes
	for _, src := range []string{
		"x = 'a\"b';\n", "x = \"\\x22\";\n", "x = \"\\u000a\";\n", "f(\"\\x5c\", 1);\n",
		"x = `a\\`b`;\n", "x = `a\\\\`;\n",
	} {
		c.count(src)
		c03Parsed(c, src, c03Cfgs, false)
	}
	for _, src := range []string{"x = `a  \n  b`;\n", "x = \"a \\\n b\";\nf(`\n \n`);\n"} {
		c.count(src)
		c03Parsed(c, src, []string{"p:2020:1"}, false)
	}
}
