module xjsverif

go 1.23.0

require (
	github.com/dop251/goja v0.0.0-20250630131328-58d95d85e994
	github.com/go-sourcemap/sourcemap v2.1.3+incompatible
	github.com/xjslang/xjs v0.0.0
)

require (
	github.com/davecgh/go-spew v1.1.1 // indirect
	github.com/dlclark/regexp2 v1.11.4 // indirect
	github.com/google/pprof v0.0.0-20230207041349-798e818bf904 // indirect
	golang.org/x/text v0.3.8 // indirect
)

replace github.com/xjslang/xjs => /repo
