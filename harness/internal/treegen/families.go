package treegen

import "github.com/xjslang/xjs/ast"

// Directed families of programmatic trees that the depth-bounded enumeration does not reach or only samples.
// They exist because seeded changes (seeded/C03-m1, seeded/C01-m1) needed exactly these shapes:
//
//   UpdateOverAny:  ++ / -- (prefix and postfix) over ARBITRARY operands — the enumeration restricts update
//                   operands to assignment targets, C03 quantifies over arbitrary operands.
//   SignAdjacency:  a sign operator directly followed by an operand whose first token is a sign-starting
//                   prefix operator, reached through 0..2 higher-precedence binary operators on the left spine
//                   (`a - -b * c`, `a + ++b / c % d`).

// UpdateOverAny returns ++/-- applied, as prefix and as postfix, to every expression of depth <= 2.
func UpdateOverAny() []ast.Expression {
	var out []ast.Expression
	n := CountExprs(2)
	for i := 0; i < n; i++ {
		for _, op := range []string{"++", "--"} {
			out = append(out, Postfix(op, ExprAt(2, i)), Prefix(op, ExprAt(2, i)))
		}
	}
	return out
}

// SignAdjacency returns the sign-adjacency shapes.
func SignAdjacency() []ast.Expression {
	var out []ast.Expression
	signs := []string{"+", "-"}
	firsts := []func() ast.Expression{
		func() ast.Expression { return Prefix("-", Ident("b")) },
		func() ast.Expression { return Prefix("++", Ident("b")) },
		func() ast.Expression { return Prefix("--", Ident("b")) },
		func() ast.Expression { return Prefix("!", Ident("b")) },
		func() ast.Expression { return Prefix("-", Prefix("-", Ident("b"))) },
		func() ast.Expression { return Prefix("-", Prefix("--", Ident("b"))) },
	}
	his := []string{"*", "/", "%"}
	for _, s := range signs {
		for _, f := range firsts {
			// directly
			out = append(out, Bin(s, Ident("a"), f()))
			// through one and two higher-precedence operators on the left spine
			for _, h1 := range his {
				out = append(out, Bin(s, Ident("a"), Bin(h1, f(), Ident("c"))))
				for _, h2 := range his {
					out = append(out, Bin(s, Ident("a"), Bin(h2, Bin(h1, f(), Ident("c")), Ident("d"))))
				}
			}
			// same-level chain on the left of the parent: (x s y) s f
			out = append(out, Bin(s, Bin(s, Ident("x"), Ident("y")), f()))
		}
	}
	// `<` / `<=`-free relational operators directly followed by `!--x`: `<!--` is a comment opener in scripts
	for _, rel := range []string{"<", ">", "<=", "==", "*"} {
		out = append(out, Bin(rel, Ident("a"), Prefix("!", Prefix("--", Ident("b")))))
		out = append(out, Bin(rel, Ident("a"), Prefix("!", Prefix("-", Prefix("-", Ident("b"))))))
	}
	// a prefix sign over the same shapes
	for _, f := range firsts {
		out = append(out, Prefix("-", f()))
	}
	return out
}
