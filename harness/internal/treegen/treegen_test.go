package treegen

import (
	"fmt"
	"math/rand"
	"os"
	"sort"
	"strconv"
	"strings"
	"testing"

	"github.com/xjslang/xjs/ast"
	"github.com/xjslang/xjs/compiler"
	"github.com/xjslang/xjs/lexer"
	"github.com/xjslang/xjs/parser"
)

// ---- print-and-parse machinery ----

// printMode is one way of turning a tree into text.
type printMode struct {
	name  string
	print func(p *ast.Program) string
}

var (
	compactMode = printMode{"compact", func(p *ast.Program) string { return compiler.New().Compile(p).Code }}
	prettyMode  = printMode{"pretty", func(p *ast.Program) string { return compiler.New().WithPrettyPrint().Compile(p).Code }}
	// Not part of the required checks: pretty printing with optional semicolons left out.
	noSemiMode = printMode{"pretty-nosemi", func(p *ast.Program) string {
		return compiler.New().WithPrettyPrint(compiler.WithSemi(false)).Compile(p).Code
	}}
	stdModes = []printMode{compactMode, prettyMode}
)

func printTree(p *ast.Program, m printMode) (code string, err error) {
	defer func() {
		if r := recover(); r != nil {
			err = fmt.Errorf("printer panic: %v", r)
		}
	}()
	return m.print(p), nil
}

func parseText(code string) (p *ast.Program, err error) {
	defer func() {
		if r := recover(); r != nil {
			err = fmt.Errorf("parser panic: %v", r)
		}
	}()
	return parser.NewBuilder(lexer.NewBuilder()).Build(code).ParseProgram()
}

// outcome of one tree in one print mode.
type outcome struct {
	mode string
	code string
	kind string // "ok", "parse-error", "shape-mismatch", "print-panic"
	got  string // error text or the shape that came back
}

func roundTrip(p *ast.Program, want string, m printMode) outcome {
	code, err := printTree(p, m)
	if err != nil {
		return outcome{mode: m.name, kind: "print-panic", got: err.Error()}
	}
	re, err := parseText(code)
	if err != nil {
		return outcome{mode: m.name, code: code, kind: "parse-error", got: err.Error()}
	}
	if got := Shape(re); got != want {
		return outcome{mode: m.name, code: code, kind: "shape-mismatch", got: got}
	}
	return outcome{mode: m.name, code: code, kind: "ok"}
}

type finding struct {
	cause    string
	skeleton string
	shape    string
	outcomes []outcome
	count    int // trees with the same cause+skeleton
}

// findings groups failing trees by (cause, skeleton) and keeps the smallest example of each.
type findings struct {
	modes    []printMode
	trees    int
	failing  int
	tokenBad int
	byKey    map[string]*finding
	byCause  map[string]int
}

func newFindings(modes ...printMode) *findings {
	if len(modes) == 0 {
		modes = stdModes
	}
	return &findings{modes: modes, byKey: map[string]*finding{}, byCause: map[string]int{}}
}

// check prints and re-parses p in every mode and records what went wrong, if anything.
// It fails the test only for defects of this package (wrong tokens in generated trees).
func (fs *findings) check(t *testing.T, p *ast.Program) {
	t.Helper()
	fs.trees++
	want := Shape(p)
	outs := make([]outcome, len(fs.modes))
	allOK := true
	label := ""
	for i, m := range fs.modes {
		outs[i] = roundTrip(p, want, m)
		allOK = allOK && outs[i].kind == "ok"
		if i > 0 {
			label += ", "
		}
		label += m.name + ": " + outs[i].kind
	}
	if allOK {
		// The tree survived: it must then also carry exactly the tokens the parser stores.
		re, _ := parseText(outs[0].code)
		if a, b := ShapeTokens(p), ShapeTokens(re); a != b {
			fs.tokenBad++
			if fs.tokenBad <= 5 {
				t.Errorf("generated tree carries tokens the parser would not store:\n code   %s\n built  %s\n parsed %s", outs[0].code, a, b)
			}
		}
		return
	}
	fs.failing++
	cause := classify(p, len(fs.modes) == 1 && fs.modes[0].name == noSemiMode.name) + " [" + label + "]"
	fs.byCause[cause]++
	sk := Skeleton(p)
	key := cause + "\x00" + sk
	f := fs.byKey[key]
	if f == nil {
		f = &finding{cause: cause, skeleton: sk}
		fs.byKey[key] = f
	}
	f.count++
	if f.shape == "" || len(want) < len(f.shape) {
		f.shape, f.outcomes = want, outs
	}
}

func oneLine(s string) string {
	s = strings.ReplaceAll(s, "\n", "⏎")
	if len(s) > 300 {
		s = s[:300] + "…"
	}
	return s
}

func (o outcome) String() string {
	if o.kind == "ok" {
		return fmt.Sprintf("%-13s ok             %s", o.mode, oneLine(o.code))
	}
	return fmt.Sprintf("%-13s %-14s %s\n%32s-> %s", o.mode, o.kind, oneLine(o.code), "", oneLine(o.got))
}

// report logs, per cause, the number of failing trees and the smallest distinct examples.
func (fs *findings) report(t *testing.T, title string, perCause int) {
	t.Helper()
	t.Logf("%s: %d trees, %d do not survive print-and-parse, %d distinct (cause, skeleton) groups",
		title, fs.trees, fs.failing, len(fs.byKey))
	causes := make([]string, 0, len(fs.byCause))
	for c := range fs.byCause {
		causes = append(causes, c)
	}
	sort.Strings(causes)
	for _, cause := range causes {
		var list []*finding
		for _, f := range fs.byKey {
			if f.cause == cause {
				list = append(list, f)
			}
		}
		sort.Slice(list, func(i, j int) bool {
			if len(list[i].shape) != len(list[j].shape) {
				return len(list[i].shape) < len(list[j].shape)
			}
			return list[i].shape < list[j].shape
		})
		t.Logf("  cause %q: %d trees, %d skeletons", cause, fs.byCause[cause], len(list))
		for i, f := range list {
			if i == perCause {
				t.Logf("    ... %d more skeletons", len(list)-perCause)
				break
			}
			msg := fmt.Sprintf("    tree %s   (x%d)", f.shape, f.count)
			for _, o := range f.outcomes {
				msg += "\n        " + o.String()
			}
			t.Log(msg)
		}
	}
}

// ---- cause classification of xjs findings (for the report only) ----

// walkExprs calls f for every expression node of the program, with its parent node (nil for
// an expression held directly by a statement) and the statement holding it.
func walkProgram(p *ast.Program, fe func(e ast.Expression), fs func(s ast.Statement)) {
	var stmt func(s ast.Statement)
	var expr func(e ast.Expression)
	expr = func(e ast.Expression) {
		if isNilNode(e) {
			return
		}
		fe(e)
		switch n := e.(type) {
		case *ast.GroupedExpression:
			expr(n.Expression)
		case *ast.LetExpression:
			expr(n.Value)
		case *ast.BinaryExpression:
			expr(n.Left)
			expr(n.Right)
		case *ast.UnaryExpression:
			expr(n.Right)
		case *ast.PostfixExpression:
			expr(n.Left)
		case *ast.CallExpression:
			expr(n.Function)
			for _, a := range n.Arguments {
				expr(a)
			}
		case *ast.MemberExpression:
			expr(n.Object)
			expr(n.Property)
		case *ast.AssignmentExpression:
			expr(n.Left)
			expr(n.Value)
		case *ast.CompoundAssignmentExpression:
			expr(n.Left)
			expr(n.Value)
		case *ast.FunctionExpression:
			stmt(n.Body)
		case *ast.ArrayLiteral:
			for _, el := range n.Elements {
				expr(el)
			}
		case *ast.ObjectLiteral:
			for _, pr := range n.Properties {
				expr(pr.Key)
				expr(pr.Value)
			}
		}
	}
	stmt = func(s ast.Statement) {
		if isNilNode(s) {
			return
		}
		fs(s)
		switch n := s.(type) {
		case *ast.LetStatement:
			expr(n.Value)
		case *ast.ReturnStatement:
			expr(n.ReturnValue)
		case *ast.ExpressionStatement:
			expr(n.Expression)
		case *ast.FunctionDeclaration:
			stmt(n.Body)
		case *ast.BlockStatement:
			for _, c := range n.Statements {
				stmt(c)
			}
		case *ast.IfStatement:
			expr(n.Condition)
			stmt(n.ThenBranch)
			stmt(n.ElseBranch)
		case *ast.WhileStatement:
			expr(n.Condition)
			stmt(n.Body)
		case *ast.ForStatement:
			expr(n.Init)
			expr(n.Condition)
			expr(n.Update)
			stmt(n.Body)
		}
	}
	for _, s := range p.Statements {
		stmt(s)
	}
}

func isAssignment(e ast.Expression) bool {
	switch e.(type) {
	case *ast.AssignmentExpression, *ast.CompoundAssignmentExpression:
		return true
	}
	return false
}

// endsWithOpenIf reports whether statement s, printed, ends with an if that has no else and is
// not closed by a brace, so that a following `else` would attach to it.
func endsWithOpenIf(s ast.Statement) bool {
	for {
		switch n := s.(type) {
		case *ast.IfStatement:
			if isNilNode(n.ElseBranch) {
				return true
			}
			s = n.ElseBranch
		case *ast.WhileStatement:
			s = n.Body
		case *ast.ForStatement:
			s = n.Body
		default:
			return false
		}
	}
}

// endsOpen reports whether statement s, printed without optional semicolons, ends with an
// expression (not with a closing brace), so that the text after it can continue that expression.
func endsOpen(s ast.Statement) bool {
	for {
		switch n := s.(type) {
		case *ast.LetStatement, *ast.ReturnStatement, *ast.ExpressionStatement:
			return true
		case *ast.IfStatement:
			if isNilNode(n.ElseBranch) {
				s = n.ThenBranch
			} else {
				s = n.ElseBranch
			}
		case *ast.WhileStatement:
			s = n.Body
		case *ast.ForStatement:
			s = n.Body
		default:
			return false
		}
	}
}

// lastSimple follows brace-less bodies down to the statement whose text ends s.
func lastSimple(s ast.Statement) ast.Statement {
	for {
		switch n := s.(type) {
		case *ast.IfStatement:
			if isNilNode(n.ElseBranch) {
				s = n.ThenBranch
			} else {
				s = n.ElseBranch
			}
		case *ast.WhileStatement:
			s = n.Body
		case *ast.ForStatement:
			s = n.Body
		default:
			return s
		}
	}
}

// startsLikeContinuation reports whether statement s, printed, starts with a token that the xjs
// parser does not accept as the start of a new statement after a line break: ( [ { - ++ --.
func startsLikeContinuation(s ast.Statement) bool {
	code, err := printTree(Program(s), compactMode)
	return err == nil && code != "" && strings.ContainsRune("([{-+", rune(code[0]))
}

// classify names the known causes of a failure that apply to p. The causes were identified by
// reading the failing examples; "unexplained" collects whatever none of them accounts for.
// noSemi adds the causes that only exist when optional semicolons are not printed.
func classify(p *ast.Program, noSemi bool) string {
	var causes []string
	add := func(c string) {
		for _, x := range causes {
			if x == c {
				return
			}
		}
		causes = append(causes, c)
	}
	list := func(stmts []ast.Statement) {
		for i := 0; noSemi && i+1 < len(stmts); i++ {
			if endsOpen(stmts[i]) && startsLikeContinuation(stmts[i+1]) {
				add("D: no-semi: next line starts with ( [ { - ++ -- and is read as a continuation")
			}
			if r, ok := lastSimple(stmts[i]).(*ast.ReturnStatement); ok && isNilNode(r.ReturnValue) {
				add("E: no-semi: bare return swallows the next line as its value")
			}
		}
	}
	list(p.Statements)
	walkProgram(p, func(e ast.Expression) {
	}, func(s ast.Statement) {
		switch n := s.(type) {
		case *ast.ExpressionStatement:
			if BadStatementStart(n.Expression) {
				add("A: expression statement starts with { or function")
			}
		case *ast.IfStatement:
			if !isNilNode(n.ElseBranch) && endsWithOpenIf(n.ThenBranch) {
				add("B: dangling else")
			}
			if noSemi && !isNilNode(n.ElseBranch) && endsOpen(n.ThenBranch) {
				add("C: no-semi: brace-less statement directly before else")
			}
		case *ast.BlockStatement:
			list(n.Statements)
		}
	})
	if len(causes) == 0 {
		return "unexplained"
	}
	sort.Strings(causes)
	return strings.Join(causes, " + ")
}

// ---- test 1: findings about xjs ----

func TestRoundTripExhaustiveDepth2(t *testing.T) {
	fs := newFindings()
	EnumerateExprs(2, func(p *ast.Program) bool { // depth <= 2: includes the depth-1 trees
		fs.check(t, p)
		return true
	})
	fs.report(t, "exhaustive depth<=2", 12)
}

func TestRoundTripSampledDepth3(t *testing.T) {
	perClass := 30000
	if testing.Short() {
		perClass = 1500
	}
	fs := newFindings()
	for _, cr := range ClassRanges(3) {
		size := cr.End - cr.Start
		step := size / perClass
		if step < 1 {
			step = 1
		}
		// An odd step that is not a multiple of 561 walks through all residues of the
		// right-most operand instead of repeating the same one.
		for step > 1 && (step%2 == 0 || step%3 == 0 || step%11 == 0 || step%17 == 0) {
			step++
		}
		for i := cr.Start; i < cr.End; i += step {
			fs.check(t, ExprProgram(ExprAt(3, i)))
		}
	}
	fs.report(t, "sampled depth 3 (every class evenly)", 12)
}

func TestRoundTripRandomPrograms(t *testing.T) {
	n := 5000
	if v, err := strconv.Atoi(os.Getenv("TREEGEN_RANDOM_PROGRAMS")); err == nil && v > 0 {
		n = v // for longer exploratory runs
	}
	fs := newFindings()
	r := rand.New(rand.NewSource(20260929))
	for i := 0; i < n; i++ {
		depth := 2 + i%4     // 2..5
		stmts := 1 + (i/4)%4 // 1..4
		fs.check(t, RandomProgram(r, depth, stmts))
	}
	fs.report(t, fmt.Sprintf("%d random programs", n), 12)
}

// Hand-built trees for the cases RandomProgram avoids by construction (function expression at the
// start of an expression statement) so that the report shows what happens to them.
func TestRoundTripStatementStartExamples(t *testing.T) {
	fs := newFindings()
	for _, e := range []ast.Expression{
		Func("", nil, Block()),
		Func("f", nil, Block()),
		Bin("-", Func("f", nil, Block()), Int("1")),
		Bin("+", Func("f", nil, Block()), Int("1")),
		Assign(Member(Ident("a"), "b"), Func("", nil, Block())), // fine: not at the left edge
		Bin("-", Object(), Int("1")),
		Bin("*", Object(Prop(Ident("a"), Int("1"))), Int("1")),
	} {
		fs.check(t, ExprProgram(e))
	}
	fs.report(t, "hand-built statement-start examples", 12)
}

// Extra, not part of the required checks: the same 5000 programs printed with
// WithPrettyPrint(WithSemi(false)), where statement separation relies on the parser's
// newline-based semicolon insertion.
func TestRoundTripRandomProgramsNoSemicolons(t *testing.T) {
	fs := newFindings(noSemiMode)
	r := rand.New(rand.NewSource(20260929))
	for i := 0; i < 5000; i++ {
		depth := 2 + i%4
		stmts := 1 + (i/4)%4
		fs.check(t, RandomProgram(r, depth, stmts))
	}
	fs.report(t, "5000 random programs, pretty print without semicolons", 6)
}

// ---- test 2: sanity of this package ----

// groupAll returns the number of wrappers added after wrapping, in place, every sub-expression
// accepted by pick in a GroupedExpression.
func groupAll(p *ast.Program, pick func() bool) int {
	added := 0
	var wrapStmt func(s ast.Statement)
	var wrap func(e ast.Expression) ast.Expression
	wrapList := func(es []ast.Expression) {
		for i := range es {
			es[i] = wrap(es[i])
		}
	}
	wrap = func(e ast.Expression) ast.Expression {
		if isNilNode(e) {
			return e
		}
		switch n := e.(type) {
		case *ast.GroupedExpression:
			n.Expression = wrap(n.Expression)
		case *ast.LetExpression:
			n.Value = wrap(n.Value)
			return e // `(let a = 1)` is not an expression; keep the let itself bare
		case *ast.BinaryExpression:
			n.Left, n.Right = wrap(n.Left), wrap(n.Right)
		case *ast.UnaryExpression:
			n.Right = wrap(n.Right)
		case *ast.PostfixExpression:
			n.Left = wrap(n.Left)
		case *ast.CallExpression:
			n.Function = wrap(n.Function)
			wrapList(n.Arguments)
		case *ast.MemberExpression:
			n.Object = wrap(n.Object)
			n.Property = wrap(n.Property)
		case *ast.AssignmentExpression:
			n.Left, n.Value = wrap(n.Left), wrap(n.Value)
		case *ast.CompoundAssignmentExpression:
			n.Left, n.Value = wrap(n.Left), wrap(n.Value)
		case *ast.FunctionExpression:
			wrapStmt(n.Body)
		case *ast.ArrayLiteral:
			wrapList(n.Elements)
		case *ast.ObjectLiteral:
			for i := range n.Properties {
				n.Properties[i].Key = wrap(n.Properties[i].Key)
				n.Properties[i].Value = wrap(n.Properties[i].Value)
			}
		}
		if pick() {
			added++
			return Group(e)
		}
		return e
	}
	wrapStmt = func(s ast.Statement) {
		if isNilNode(s) {
			return
		}
		switch n := s.(type) {
		case *ast.LetStatement:
			n.Value = wrap(n.Value)
		case *ast.ReturnStatement:
			n.ReturnValue = wrap(n.ReturnValue)
		case *ast.ExpressionStatement:
			n.Expression = wrap(n.Expression)
		case *ast.FunctionDeclaration:
			wrapStmt(n.Body)
		case *ast.BlockStatement:
			for _, c := range n.Statements {
				wrapStmt(c)
			}
		case *ast.IfStatement:
			n.Condition = wrap(n.Condition)
			wrapStmt(n.ThenBranch)
			wrapStmt(n.ElseBranch)
		case *ast.WhileStatement:
			n.Condition = wrap(n.Condition)
			wrapStmt(n.Body)
		case *ast.ForStatement:
			n.Init, n.Condition, n.Update = wrap(n.Init), wrap(n.Condition), wrap(n.Update)
			wrapStmt(n.Body)
		}
	}
	for _, s := range p.Statements {
		wrapStmt(s)
	}
	return added
}

func TestShapeIgnoresGrouping(t *testing.T) {
	// hand-made
	e := Bin("*", Bin("+", Ident("a"), Int("1")), Prefix("-", Ident("b")))
	g := Group(Bin("*", Group(Group(Bin("+", Group(Ident("a")), Int("1")))), Prefix("-", Group(Ident("b")))))
	const want = `(bin * (bin + (id a) (int 1)) (pre - (id b)))`
	if ShapeExpr(e) != want || ShapeExpr(g) != want {
		t.Errorf("ShapeExpr:\n plain   %s\n grouped %s\n want    %s", ShapeExpr(e), ShapeExpr(g), want)
	}
	if Shape(ExprProgram(g)) != "(program (expr "+want+"))" {
		t.Errorf("Shape(program) = %s", Shape(ExprProgram(g)))
	}
	// but it is sensitive to everything else
	distinct := map[string]string{}
	for name, x := range map[string]ast.Expression{
		"a+b":     Bin("+", Ident("a"), Ident("b")),
		"b+a":     Bin("+", Ident("b"), Ident("a")),
		"a-b":     Bin("-", Ident("a"), Ident("b")),
		"a.b":     Member(Ident("a"), "b"),
		"a[b]":    Index(Ident("a"), Ident("b")),
		`a["b"]`:  Index(Ident("a"), Str("b")),
		"a=b":     Assign(Ident("a"), Ident("b")),
		"a+=b":    Compound("+=", Ident("a"), Ident("b")),
		"a-=b":    Compound("-=", Ident("a"), Ident("b")),
		"++a":     Prefix("++", Ident("a")),
		"a++":     Postfix("++", Ident("a")),
		"a(b)":    Call(Ident("a"), Ident("b")),
		"[b]":     Array(Ident("b")),
		"1":       Int("1"),
		"1.0":     Float("1.0"),
		`"1"`:     Str("1"),
		"`1`":     RawStr("1"),
		"{a:b}":   Object(Prop(Ident("a"), Ident("b"))),
		`{"a":b}`: Object(Prop(Str("a"), Ident("b"))),
	} {
		s := ShapeExpr(x)
		if other, dup := distinct[s]; dup {
			t.Errorf("%s and %s have the same shape %s", name, other, s)
		}
		distinct[s] = name
	}

	// every depth<=2 tree and random programs: wrap everything, and wrap at random
	r := rand.New(rand.NewSource(7))
	check := func(mk func() *ast.Program) {
		plain := mk()
		want := Shape(plain)
		all := mk()
		n := groupAll(all, func() bool { return true })
		if Shape(all) != want {
			t.Errorf("grouping every sub-expression changed the shape:\n %s\n %s", want, Shape(all))
		}
		if n > 0 {
			code1, _ := printTree(plain, compactMode)
			code2, _ := printTree(all, compactMode)
			if code1 == code2 {
				t.Errorf("groupAll did not change the tree: %s", code1)
			}
		}
		some := mk()
		groupAll(some, func() bool { return r.Intn(3) == 0 })
		if Shape(some) != want {
			t.Errorf("grouping some sub-expressions changed the shape:\n %s\n %s", want, Shape(some))
		}
	}
	for i := 0; i < CountExprs(2); i++ {
		i := i
		check(func() *ast.Program { return ExprProgram(ExprAt(2, i)) })
	}
	for i := 0; i < 300; i++ {
		seed := int64(i)
		check(func() *ast.Program { return RandomProgram(rand.New(rand.NewSource(seed)), 4, 3) })
	}
}

func TestCountMatchesEnumeration(t *testing.T) {
	want := map[int]int{1: 5, 2: 561}
	for d := 1; d <= 2; d++ {
		n := 0
		seen := map[string]bool{}
		EnumerateExprs(d, func(p *ast.Program) bool {
			if len(p.Statements) != 1 {
				t.Fatalf("not a single statement program")
			}
			es, ok := p.Statements[0].(*ast.ExpressionStatement)
			if !ok {
				t.Fatalf("not an expression statement: %T", p.Statements[0])
			}
			// Shape erases grouping, so use the printed text + shape for distinctness.
			code, _ := printTree(p, compactMode)
			key := code + " " + Shape(p)
			if seen[key] {
				t.Errorf("depth %d: duplicate tree %s", d, key)
			}
			seen[key] = true
			if got := ShapeExpr(ExprAt(d, n)); got != ShapeExpr(es.Expression) {
				t.Errorf("depth %d: ExprAt(%d) = %s but enumeration gave %s", d, n, got, ShapeExpr(es.Expression))
			}
			n++
			return true
		})
		if n != CountExprs(d) || n != want[d] {
			t.Errorf("depth %d: %d callbacks, CountExprs = %d, documented %d", d, n, CountExprs(d), want[d])
		}
	}
	if got := CountExprs(3); got != 42356656 {
		t.Errorf("CountExprs(3) = %d; update the documentation in enum.go", got)
	}
	if CountExprs(0) != 0 || CountExprs(4) != -1 {
		t.Errorf("CountExprs(0) = %d, CountExprs(4) = %d", CountExprs(0), CountExprs(4))
	}
	// stopping early
	n := 0
	EnumerateExprs(3, func(*ast.Program) bool { n++; return n < 1000 })
	if n != 1000 {
		t.Errorf("enumeration did not stop when asked: %d", n)
	}
	// class ranges tile [0, count) and ExprAt is defined on all of it, nil outside
	for d := 1; d <= 3; d++ {
		off := 0
		for _, cr := range ClassRanges(d) {
			if cr.Start != off || cr.End < cr.Start {
				t.Errorf("depth %d: class %s range [%d,%d) does not start at %d", d, cr.Name, cr.Start, cr.End, off)
			}
			off = cr.End
			if cr.End > cr.Start && (ExprAt(d, cr.Start) == nil || ExprAt(d, cr.End-1) == nil) {
				t.Errorf("depth %d: class %s: ExprAt is nil inside the range", d, cr.Name)
			}
		}
		if off != CountExprs(d) {
			t.Errorf("depth %d: classes cover %d, count %d", d, off, CountExprs(d))
		}
		if ExprAt(d, -1) != nil || ExprAt(d, off) != nil {
			t.Errorf("depth %d: ExprAt out of range is not nil", d)
		}
	}
}

// Every operator pair and side must actually occur at depth 3: check a few trees the enumeration
// is meant to contain, by looking their printed form up in the corresponding class sample.
func TestDepth3ContainsPairs(t *testing.T) {
	want := map[string]bool{
		"(bin * (assign (id a) (id a)) (id a))":        false, // assignment under *
		"(bin * (id a) (assign (id a) (id a)))":        false,
		"(pre - (pre - (id a)))":                       false, // unary in unary
		"(pre ! (bin || (id a) (id a)))":               false,
		"(bin - (id a) (pre -- (id a)))":               false,
		"(assign (member (id a) (id a)) (id a))":       false,
		"(post ++ (index (id a) (id a)))":              false,
		"(call (member (id a) (id a)))":                false,
		"(bin + (object) (id a))":                      false,
		"(index (call (id a)) (assign (id a) (id a)))": false,
	}
	n2 := CountExprs(2)
	remaining := len(want)
	visit := func(i int) {
		s := ShapeExpr(ExprAt(3, i))
		if done, ok := want[s]; ok && !done {
			want[s] = true
			remaining--
		}
	}
	for _, cr := range ClassRanges(3) {
		size := cr.End - cr.Start
		if size <= 200000 {
			for i := cr.Start; i < cr.End; i++ {
				visit(i)
			}
			continue
		}
		// Huge classes end in two operands drawn from E(2): look only at the trees where one
		// of the two is the first element of E(2), the leaf `a`.
		for k := 0; k*n2 < size; k++ {
			base := cr.Start + k*n2
			visit(base)
			if k%n2 == 0 {
				for r := 1; r < n2 && base+r < cr.End; r++ {
					visit(base + r)
				}
			}
		}
	}
	if remaining < 0 {
		t.Fatal("unreachable")
	}
	for s, found := range want {
		if !found {
			t.Errorf("depth-3 enumeration scan did not meet %s", s)
		}
	}
}

func TestRandomProgramDeterministicAndConstrained(t *testing.T) {
	kinds := map[string]int{}
	for seed := int64(0); seed < 400; seed++ {
		a := RandomProgram(rand.New(rand.NewSource(seed)), 5, 4)
		b := RandomProgram(rand.New(rand.NewSource(seed)), 5, 4)
		if ShapeTokens(a) != ShapeTokens(b) {
			t.Fatalf("seed %d: not deterministic", seed)
		}
		if len(a.Statements) < 1 || len(a.Statements) > 4 {
			t.Errorf("seed %d: %d statements", seed, len(a.Statements))
		}
		bodyOK := func(where string, s ast.Statement) {
			switch s.(type) {
			case *ast.LetStatement, *ast.FunctionDeclaration:
				t.Errorf("seed %d: declaration as brace-less body of %s", seed, where)
			}
		}
		calleeOK := func(where string, e ast.Expression) {
			switch e.(type) {
			case *ast.Identifier, *ast.CallExpression, *ast.MemberExpression:
			default:
				t.Errorf("seed %d: %s is a %T", seed, where, e)
			}
		}
		targetOK := func(where string, e ast.Expression) {
			switch e.(type) {
			case *ast.Identifier, *ast.MemberExpression:
			default:
				t.Errorf("seed %d: %s is a %T", seed, where, e)
			}
		}
		walkProgram(a, func(e ast.Expression) {
			kinds[fmt.Sprintf("%T", e)]++
			switch n := e.(type) {
			case *ast.CallExpression:
				calleeOK("callee", n.Function)
			case *ast.MemberExpression:
				calleeOK("member object", n.Object)
				if _, ok := n.Property.(*ast.Identifier); !n.Computed && !ok {
					t.Errorf("seed %d: non-computed property is a %T", seed, n.Property)
				}
			case *ast.AssignmentExpression:
				targetOK("assignment target", n.Left)
			case *ast.CompoundAssignmentExpression:
				targetOK("compound assignment target", n.Left)
			case *ast.PostfixExpression:
				targetOK("postfix operand", n.Left)
			case *ast.UnaryExpression:
				if n.Operator == "++" || n.Operator == "--" {
					targetOK("prefix ++/-- operand", n.Right)
				}
			case *ast.ObjectLiteral:
				for _, pr := range n.Properties {
					switch pr.Key.(type) {
					case *ast.Identifier, *ast.StringLiteral:
					default:
						t.Errorf("seed %d: object key is a %T", seed, pr.Key)
					}
				}
			}
		}, func(s ast.Statement) {
			kinds[fmt.Sprintf("%T", s)]++
			switch n := s.(type) {
			case *ast.ExpressionStatement:
				if BadStatementStart(n.Expression) {
					t.Errorf("seed %d: expression statement starts with { or function: %s", seed, ShapeStmt(s))
				}
			case *ast.IfStatement:
				bodyOK("if", n.ThenBranch)
				bodyOK("else", n.ElseBranch)
			case *ast.WhileStatement:
				bodyOK("while", n.Body)
			case *ast.ForStatement:
				bodyOK("for", n.Body)
			}
		})
		// return only inside functions
		var noReturn func(s ast.Statement)
		noReturn = func(s ast.Statement) {
			switch n := s.(type) {
			case *ast.ReturnStatement:
				t.Errorf("seed %d: return outside a function", seed)
			case *ast.BlockStatement:
				for _, c := range n.Statements {
					noReturn(c)
				}
			case *ast.IfStatement:
				noReturn(n.ThenBranch)
				if !isNilNode(n.ElseBranch) {
					noReturn(n.ElseBranch)
				}
			case *ast.WhileStatement:
				noReturn(n.Body)
			case *ast.ForStatement:
				noReturn(n.Body)
			}
		}
		for _, s := range a.Statements {
			noReturn(s)
		}
	}
	for _, k := range []string{
		"*ast.LetStatement", "*ast.ReturnStatement", "*ast.ExpressionStatement", "*ast.FunctionDeclaration",
		"*ast.BlockStatement", "*ast.IfStatement", "*ast.WhileStatement", "*ast.ForStatement",
		"*ast.Identifier", "*ast.IntegerLiteral", "*ast.FloatLiteral", "*ast.StringLiteral", "*ast.MultiStringLiteral",
		"*ast.BooleanLiteral", "*ast.NullLiteral", "*ast.LetExpression", "*ast.BinaryExpression", "*ast.UnaryExpression",
		"*ast.PostfixExpression", "*ast.GroupedExpression", "*ast.CallExpression", "*ast.MemberExpression",
		"*ast.AssignmentExpression", "*ast.CompoundAssignmentExpression", "*ast.FunctionExpression",
		"*ast.ArrayLiteral", "*ast.ObjectLiteral",
	} {
		if kinds[k] == 0 {
			t.Errorf("random programs never contain %s", k)
		}
	}
}
