package treegen

import (
	"fmt"
	"reflect"
	"strconv"
	"strings"

	"github.com/xjslang/xjs/ast"
	"github.com/xjslang/xjs/token"
)

// Shape is a position/comment-free canonical S-expression of an xjs AST in which
// *ast.GroupedExpression nodes are erased (replaced by their inner expression).
//
// It includes node kinds, operator strings (the Operator field for binary / prefix / postfix /
// compound assignment), identifier names (Value), literal token texts (int, float), string values
// (Value, Go-quoted), the boolean Value, the Computed flag of member accesses (as the kinds
// "member" vs "index") and child order. It does not include token types, positions, AfterNewline
// or comments. Absent optional children (no initialiser, no else, anonymous function, empty
// for-clause) are written "_"; nil pointers met where a node is required are written "<nil>"
// so that a damaged tree coming back from the parser never compares equal to a complete one.
//
// Grammar:
//
//	(program S...)
//	S: (let NAME E|_) (return E|_) (expr E) (funcdecl NAME (params NAME...) BLOCK) (block S...)
//	   (if E S S|_) (while E S) (for E|_ E|_ E|_ S)
//	E: (id NAME) (int TEXT) (float TEXT) (str "..") (raw "..") (bool true|false) (null)
//	   (letexpr NAME E|_) (bin OP E E) (pre OP E) (post OP E) (call E E...) (member E E) (index E E)
//	   (assign E E) (compound OP E E) (func NAME|_ (params NAME...) BLOCK) (array E...)
//	   (object (prop E E)...)
func Shape(p *ast.Program) string {
	s := shaper{}
	s.program(p)
	return s.sb.String()
}

// ShapeExpr is Shape for a single expression.
func ShapeExpr(e ast.Expression) string {
	s := shaper{}
	s.expr(e)
	return s.sb.String()
}

// ShapeStmt is Shape for a single statement.
func ShapeStmt(st ast.Statement) string {
	s := shaper{}
	s.stmt(st)
	return s.sb.String()
}

// ShapeTokens is Shape with, in addition, the main token of every node written as
// <type-number:literal> right after the node kind (closing tokens such as RBrace / RParen /
// RBracket are not included: the parser leaves RBrace zero for an empty object literal).
// It is used to check that generated trees carry the tokens the parser would have stored:
// for a tree that survives print-and-parse, ShapeTokens(original) == ShapeTokens(reparsed).
func ShapeTokens(p *ast.Program) string {
	s := shaper{tokens: true}
	s.program(p)
	return s.sb.String()
}

// Skeleton is Shape with every identifier reduced to "id" (names to NAME) and every literal to
// "lit", e.g. (bin + id (pre - lit)). Useful to group failing examples by structure.
func Skeleton(p *ast.Program) string {
	s := shaper{abstract: true}
	s.program(p)
	return s.sb.String()
}

type shaper struct {
	sb       strings.Builder
	tokens   bool
	abstract bool
}

func (s *shaper) open(kind string, t *token.Token) {
	s.sb.WriteByte('(')
	s.sb.WriteString(kind)
	if s.tokens && t != nil {
		fmt.Fprintf(&s.sb, "<%d:%s>", int(t.Type), t.Literal)
	}
}

func (s *shaper) word(w string) {
	s.sb.WriteByte(' ')
	s.sb.WriteString(w)
}

func (s *shaper) close() { s.sb.WriteByte(')') }

func isNilNode(n interface{}) bool {
	if n == nil {
		return true
	}
	v := reflect.ValueOf(n)
	return v.Kind() == reflect.Ptr && v.IsNil()
}

func (s *shaper) leaf(kind string, t *token.Token, text string) {
	if s.abstract {
		if kind != "id" {
			kind = "lit"
		}
		s.sb.WriteString(kind)
		return
	}
	s.open(kind, t)
	if text != "" {
		s.word(text)
	}
	s.close()
}

func (s *shaper) name(id *ast.Identifier) {
	s.sb.WriteByte(' ')
	switch {
	case id == nil:
		s.sb.WriteString("<nil>")
	case s.abstract:
		s.sb.WriteString("NAME")
	default:
		s.sb.WriteString(id.Value)
	}
}

func (s *shaper) optName(id *ast.Identifier) {
	if id == nil {
		s.word("_")
		return
	}
	s.name(id)
}

func (s *shaper) params(ps []*ast.Identifier) {
	s.sb.WriteString(" (params")
	for _, p := range ps {
		s.name(p)
	}
	s.sb.WriteByte(')')
}

func (s *shaper) program(p *ast.Program) {
	if p == nil {
		s.sb.WriteString("<nil>")
		return
	}
	s.sb.WriteString("(program")
	for _, st := range p.Statements {
		s.sb.WriteByte(' ')
		s.stmt(st)
	}
	s.close()
}

// child writes " " + expression (required child).
func (s *shaper) child(e ast.Expression) {
	s.sb.WriteByte(' ')
	s.expr(e)
}

// opt writes " " + expression, or " _" when absent.
func (s *shaper) opt(e ast.Expression) {
	if isNilNode(e) {
		s.word("_")
		return
	}
	s.child(e)
}

func (s *shaper) body(b *ast.BlockStatement) {
	s.sb.WriteByte(' ')
	if b == nil {
		s.sb.WriteString("<nil>")
		return
	}
	s.stmt(b)
}

func (s *shaper) stmt(st ast.Statement) {
	if isNilNode(st) {
		s.sb.WriteString("<nil>")
		return
	}
	switch n := st.(type) {
	case *ast.LetStatement:
		s.open("let", &n.Token)
		s.name(n.Name)
		s.opt(n.Value)
		s.close()
	case *ast.ReturnStatement:
		s.open("return", &n.Token)
		s.opt(n.ReturnValue)
		s.close()
	case *ast.ExpressionStatement:
		s.open("expr", nil)
		s.child(n.Expression)
		s.close()
	case *ast.FunctionDeclaration:
		s.open("funcdecl", &n.Token)
		s.name(n.Name)
		s.params(n.Parameters)
		s.body(n.Body)
		s.close()
	case *ast.BlockStatement:
		s.open("block", &n.Token)
		for _, c := range n.Statements {
			s.sb.WriteByte(' ')
			s.stmt(c)
		}
		s.close()
	case *ast.IfStatement:
		s.open("if", &n.Token)
		s.child(n.Condition)
		s.sb.WriteByte(' ')
		s.stmt(n.ThenBranch)
		if isNilNode(n.ElseBranch) {
			s.word("_")
		} else {
			s.sb.WriteByte(' ')
			s.stmt(n.ElseBranch)
		}
		s.close()
	case *ast.WhileStatement:
		s.open("while", &n.Token)
		s.child(n.Condition)
		s.sb.WriteByte(' ')
		s.stmt(n.Body)
		s.close()
	case *ast.ForStatement:
		s.open("for", &n.Token)
		s.opt(n.Init)
		s.opt(n.Condition)
		s.opt(n.Update)
		s.sb.WriteByte(' ')
		s.stmt(n.Body)
		s.close()
	default:
		// An expression used where a statement is expected (ast.Statement is just ast.Node).
		if e, ok := st.(ast.Expression); ok {
			s.expr(e)
			return
		}
		fmt.Fprintf(&s.sb, "(unknown %T)", st)
	}
}

func (s *shaper) expr(e ast.Expression) {
	if isNilNode(e) {
		s.sb.WriteString("<nil>")
		return
	}
	switch n := e.(type) {
	case *ast.GroupedExpression:
		s.expr(n.Expression) // erased
	case *ast.Identifier:
		s.leaf("id", &n.Token, n.Value)
	case *ast.IntegerLiteral:
		s.leaf("int", &n.Token, n.Token.Literal)
	case *ast.FloatLiteral:
		s.leaf("float", &n.Token, n.Token.Literal)
	case *ast.StringLiteral:
		s.leaf("str", &n.Token, strconv.Quote(n.Value))
	case *ast.MultiStringLiteral:
		s.leaf("raw", &n.Token, strconv.Quote(n.Value))
	case *ast.BooleanLiteral:
		s.leaf("bool", &n.Token, strconv.FormatBool(n.Value))
	case *ast.NullLiteral:
		s.leaf("null", &n.Token, "")
	case *ast.LetExpression:
		s.open("letexpr", &n.Token)
		s.name(n.Name)
		s.opt(n.Value)
		s.close()
	case *ast.BinaryExpression:
		s.open("bin", &n.Token)
		s.word(n.Operator)
		s.child(n.Left)
		s.child(n.Right)
		s.close()
	case *ast.UnaryExpression:
		s.open("pre", &n.Token)
		s.word(n.Operator)
		s.child(n.Right)
		s.close()
	case *ast.PostfixExpression:
		s.open("post", &n.Token)
		s.word(n.Operator)
		s.child(n.Left)
		s.close()
	case *ast.CallExpression:
		s.open("call", &n.Token)
		s.child(n.Function)
		for _, a := range n.Arguments {
			s.child(a)
		}
		s.close()
	case *ast.MemberExpression:
		if n.Computed {
			s.open("index", &n.Token)
		} else {
			s.open("member", &n.Token)
		}
		s.child(n.Object)
		s.child(n.Property)
		s.close()
	case *ast.AssignmentExpression:
		s.open("assign", &n.Token)
		s.child(n.Left)
		s.child(n.Value)
		s.close()
	case *ast.CompoundAssignmentExpression:
		s.open("compound", &n.Token)
		s.word(n.Operator)
		s.child(n.Left)
		s.child(n.Value)
		s.close()
	case *ast.FunctionExpression:
		s.open("func", &n.Token)
		s.optName(n.Name)
		s.params(n.Parameters)
		s.body(n.Body)
		s.close()
	case *ast.ArrayLiteral:
		s.open("array", &n.Token)
		for _, el := range n.Elements {
			s.child(el)
		}
		s.close()
	case *ast.ObjectLiteral:
		s.open("object", &n.Token)
		for _, p := range n.Properties {
			s.sb.WriteString(" (prop")
			s.child(p.Key)
			s.child(p.Value)
			s.sb.WriteByte(')')
		}
		s.close()
	default:
		fmt.Fprintf(&s.sb, "(unknown %T)", e)
	}
}
