// Package treegen builds *programmatic* xjs syntax trees: *ast.Program values assembled directly
// from the struct types of github.com/xjslang/xjs/ast, not produced by the parser. They are meant
// for testing that printing a tree and parsing the printed text gives back the same tree.
//
// Every token stored in a node is what the xjs parser would store for that construct (type and
// literal), all positions are zero, AfterNewline is false and there are no comments.
//
// The package is deterministic and keeps no global mutable state: enumeration depends only on
// its arguments, RandomProgram only on the *rand.Rand it is given. Every tree returned is made
// of fresh nodes; no node is shared between trees or inside a tree.
package treegen

import (
	"github.com/xjslang/xjs/ast"
	"github.com/xjslang/xjs/token"
)

func tok(t token.Type, lit string) token.Token { return token.Token{Type: t, Literal: lit} }

// BlankOperatorLiterals: while set, the tokens of operator nodes (binary, prefix, postfix, assignment, compound
// assignment) are built with an empty Literal — a node assembled by a plugin that fills in the Operator field and the
// token type but not the token text. The printer writes operators from the Operator field.
var BlankOperatorLiterals bool

func opTok(t token.Type, lit string) token.Token {
	if BlankOperatorLiterals {
		return token.Token{Type: t}
	}
	return token.Token{Type: t, Literal: lit}
}

// binaryTokens lists every binary operator of xjs, lowest precedence first.
var binaryTokens = [...]struct {
	typ token.Type
	lit string
}{
	{token.OR, "||"}, {token.AND, "&&"},
	{token.EQ, "=="}, {token.NOT_EQ, "!="},
	{token.LT, "<"}, {token.GT, ">"}, {token.LTE, "<="}, {token.GTE, ">="},
	{token.PLUS, "+"}, {token.MINUS, "-"},
	{token.MULTIPLY, "*"}, {token.DIVIDE, "/"}, {token.MODULO, "%"},
}

// BinaryOperators returns the 13 binary operator texts, lowest precedence first.
func BinaryOperators() []string {
	ops := make([]string, len(binaryTokens))
	for i, b := range binaryTokens {
		ops[i] = b.lit
	}
	return ops
}

func binaryToken(op string) token.Token {
	for _, b := range binaryTokens {
		if b.lit == op {
			return opTok(b.typ, b.lit)
		}
	}
	panic("treegen: unknown binary operator " + op)
}

func prefixToken(op string) token.Token {
	switch op {
	case "!":
		return opTok(token.NOT, "!")
	case "-":
		return opTok(token.MINUS, "-")
	case "++":
		return opTok(token.INCREMENT, "++")
	case "--":
		return opTok(token.DECREMENT, "--")
	}
	panic("treegen: unknown prefix operator " + op)
}

func postfixToken(op string) token.Token {
	switch op {
	case "++":
		return opTok(token.INCREMENT, "++")
	case "--":
		return opTok(token.DECREMENT, "--")
	}
	panic("treegen: unknown postfix operator " + op)
}

// ---- expression constructors (exported so that callers can hand-build regression trees) ----

// Ident builds an identifier: Value = name, Token{IDENT, name}.
func Ident(name string) *ast.Identifier {
	return &ast.Identifier{Token: tok(token.IDENT, name), Value: name}
}

// Int builds an integer literal with the given token text, e.g. "1".
func Int(text string) *ast.IntegerLiteral {
	return &ast.IntegerLiteral{Token: tok(token.INT, text)}
}

// Float builds a float literal with the given token text, e.g. "1.5".
func Float(text string) *ast.FloatLiteral {
	return &ast.FloatLiteral{Token: tok(token.FLOAT, text)}
}

// Str builds a double-quoted string literal; raw is the text between the quotes and is stored
// in both Value and Token.Literal, as the lexer does. Use letters only.
func Str(raw string) *ast.StringLiteral {
	return &ast.StringLiteral{Token: tok(token.STRING, raw), Value: raw}
}

// RawStr builds a backtick string literal.
func RawStr(raw string) *ast.MultiStringLiteral {
	return &ast.MultiStringLiteral{Token: tok(token.RAW_STRING, raw), Value: raw}
}

// Bool builds true / false.
func Bool(v bool) *ast.BooleanLiteral {
	if v {
		return &ast.BooleanLiteral{Token: tok(token.TRUE, "true"), Value: true}
	}
	return &ast.BooleanLiteral{Token: tok(token.FALSE, "false"), Value: false}
}

// Null builds the null literal.
func Null() *ast.NullLiteral { return &ast.NullLiteral{Token: tok(token.NULL, "null")} }

// Bin builds a binary expression; op is one of BinaryOperators().
func Bin(op string, l, r ast.Expression) *ast.BinaryExpression {
	return &ast.BinaryExpression{Token: binaryToken(op), Left: l, Operator: op, Right: r}
}

// Prefix builds a prefix expression; op is one of ! - ++ --.
func Prefix(op string, r ast.Expression) *ast.UnaryExpression {
	return &ast.UnaryExpression{Token: prefixToken(op), Operator: op, Right: r}
}

// Postfix builds a postfix expression; op is ++ or --.
func Postfix(op string, l ast.Expression) *ast.PostfixExpression {
	return &ast.PostfixExpression{Token: postfixToken(op), Left: l, Operator: op}
}

// Assign builds `l = v`.
func Assign(l, v ast.Expression) *ast.AssignmentExpression {
	return &ast.AssignmentExpression{Token: opTok(token.ASSIGN, "="), Left: l, Value: v}
}

// Compound builds `l += v` (op "+=") or `l -= v` (op "-="). As in the parser, the node's
// Operator field is "+" or "-" while its Token is the full += / -= token.
func Compound(op string, l, v ast.Expression) *ast.CompoundAssignmentExpression {
	switch op {
	case "+=":
		return &ast.CompoundAssignmentExpression{Token: opTok(token.PLUS_ASSIGN, "+="), Left: l, Operator: "+", Value: v}
	case "-=":
		return &ast.CompoundAssignmentExpression{Token: opTok(token.MINUS_ASSIGN, "-="), Left: l, Operator: "-", Value: v}
	}
	panic("treegen: unknown compound assignment " + op)
}

// Call builds `fn(args...)`; Arguments is a non-nil empty slice for no arguments, as in the parser.
func Call(fn ast.Expression, args ...ast.Expression) *ast.CallExpression {
	if args == nil {
		args = []ast.Expression{}
	}
	return &ast.CallExpression{Token: tok(token.LPAREN, "("), Function: fn, Arguments: args}
}

// Member builds the non-computed access `obj.prop`.
func Member(obj ast.Expression, prop string) *ast.MemberExpression {
	return &ast.MemberExpression{Token: tok(token.DOT, "."), Object: obj, Property: Ident(prop), Computed: false}
}

// Index builds the computed access `obj[e]`.
func Index(obj, e ast.Expression) *ast.MemberExpression {
	return &ast.MemberExpression{Token: tok(token.LBRACKET, "["), Object: obj, Property: e, Computed: true}
}

// Array builds `[elems...]`.
func Array(elems ...ast.Expression) *ast.ArrayLiteral {
	if elems == nil {
		elems = []ast.Expression{}
	}
	return &ast.ArrayLiteral{Token: tok(token.LBRACKET, "["), Elements: elems, RBracket: tok(token.RBRACKET, "]")}
}

// Prop builds one object property; key must be an *ast.Identifier or *ast.StringLiteral.
func Prop(key, value ast.Expression) ast.ObjectProperty {
	return ast.ObjectProperty{Key: key, Value: value}
}

// Object builds `{props...}`.
func Object(props ...ast.ObjectProperty) *ast.ObjectLiteral {
	if props == nil {
		props = []ast.ObjectProperty{}
	}
	return &ast.ObjectLiteral{Token: tok(token.LBRACE, "{"), Properties: props, RBrace: tok(token.RBRACE, "}")}
}

// Group builds `(e)`.
func Group(e ast.Expression) *ast.GroupedExpression {
	return &ast.GroupedExpression{Token: tok(token.LPAREN, "("), Expression: e, RParen: tok(token.RPAREN, ")")}
}

// Func builds a function expression; name may be "" for an anonymous function.
func Func(name string, params []string, body *ast.BlockStatement) *ast.FunctionExpression {
	fe := &ast.FunctionExpression{Token: tok(token.FUNCTION, "function"), Parameters: idents(params), Body: body}
	if name != "" {
		fe.Name = Ident(name)
	}
	return fe
}

// LetExpr builds the `let name = value` initialiser of a for statement; value may be nil.
func LetExpr(name string, value ast.Expression) *ast.LetExpression {
	return &ast.LetExpression{Token: tok(token.LET, "let"), Name: Ident(name), Value: value}
}

func idents(names []string) []*ast.Identifier {
	ids := make([]*ast.Identifier, len(names))
	for i, n := range names {
		ids[i] = Ident(n)
	}
	return ids
}

// ---- statement constructors ----

// Program wraps statements.
func Program(stmts ...ast.Statement) *ast.Program {
	if stmts == nil {
		stmts = []ast.Statement{}
	}
	return &ast.Program{Statements: stmts}
}

// ExprStmt builds an expression statement.
func ExprStmt(e ast.Expression) *ast.ExpressionStatement {
	return &ast.ExpressionStatement{Expression: e}
}

// ExprProgram is a program made of the single expression statement e.
func ExprProgram(e ast.Expression) *ast.Program { return Program(ExprStmt(e)) }

// Let builds `let name = value;`; value may be nil.
func Let(name string, value ast.Expression) *ast.LetStatement {
	return &ast.LetStatement{Token: tok(token.LET, "let"), Name: Ident(name), Value: value}
}

// Return builds `return value;`; value may be nil.
func Return(value ast.Expression) *ast.ReturnStatement {
	return &ast.ReturnStatement{Token: tok(token.RETURN, "return"), ReturnValue: value}
}

// Block builds `{ stmts... }`.
func Block(stmts ...ast.Statement) *ast.BlockStatement {
	if stmts == nil {
		stmts = []ast.Statement{}
	}
	return &ast.BlockStatement{Token: tok(token.LBRACE, "{"), Statements: stmts, RBrace: tok(token.RBRACE, "}")}
}

// FuncDecl builds `function name(params) body`.
func FuncDecl(name string, params []string, body *ast.BlockStatement) *ast.FunctionDeclaration {
	return &ast.FunctionDeclaration{Token: tok(token.FUNCTION, "function"), Name: Ident(name), Parameters: idents(params), Body: body}
}

// If builds an if statement; els may be nil.
func If(cond ast.Expression, then, els ast.Statement) *ast.IfStatement {
	return &ast.IfStatement{Token: tok(token.IF, "if"), Condition: cond, ThenBranch: then, ElseBranch: els}
}

// While builds a while statement.
func While(cond ast.Expression, body ast.Statement) *ast.WhileStatement {
	return &ast.WhileStatement{Token: tok(token.WHILE, "while"), Condition: cond, Body: body}
}

// For builds a for statement; init, cond and update may each be nil.
func For(init, cond, update ast.Expression, body ast.Statement) *ast.ForStatement {
	return &ast.ForStatement{Token: tok(token.FOR, "for"), Init: init, Condition: cond, Update: update, Body: body}
}
