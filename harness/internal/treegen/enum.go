package treegen

import (
	"math"

	"github.com/xjslang/xjs/ast"
)

// Exhaustive enumeration of expression trees.
//
// Depth: a leaf has depth 1, an operator node has depth 1 + max depth of its children (the
// property name of `a.b` and the key of an object property do not count as children). So
//
//	depth 1 = the 5 leaves                                   a b c 1 "s"
//	depth 2 = every operator applied to leaves               a+b  f(a,1)  -c  [a,b] ...
//	depth 3 = every parent/child operator pair on every side (a=b)*c  a*(b=c)  - -a  !(a||b) ...
//
// E(d), the trees of depth <= d, is built from X = E(d-1) (n = |X| trees), its sub-set
// C = callees(d-1) (identifier, call, member/index; c trees) and T = targets(d-1) (identifier,
// member/index; t trees). E(d) is, in this order (this is also the enumeration order, each class
// in lexicographic order of its listed components, left-most component most significant):
//
//	 0. leaves            a b c 1 "s"                                     5
//	 1. binary            op in || && == != < > <= >= + - * / %, l in X, r in X      13*n*n
//	 2. assignment        op in = += -=, target in T, value in X          3*t*n
//	 3. prefix ! -        op, operand in X                                2*n
//	 4. prefix ++ --      op, operand in T                                2*t
//	 5. postfix ++ --     op, operand in T                                2*t
//	 6. call, 0 args      callee in C                                     c
//	 7. call, 1 arg       callee in C, arg in X                           c*n
//	 8. call, 2 args      callee in C, args in X                          c*n*n
//	 9. member  o.p       object in C, p in a b c                         3*c
//	10. index   o[e]      object in C, e in X                             c*n
//	11. array literal     [] ; [x] ; [x,y]  with x, y in X                1 + n + n*n
//	12. object literal    {} ; {a: x} ; {"s": x}  with x in X             1 + 2*n
//	13. grouped           (x) with x in X                                 n
//
// Every operand slot ranges over ALL of X (low-precedence child under a high-precedence parent,
// unary inside unary, assignment inside a binary operator, grouped anywhere...) except the three
// structural constraints: callee / member object in C, assignment targets and ++ -- operands in
// T, non-computed property is an identifier.
//
// Counts (CountExprs):
//
//	depth 1:          5   (c = 3,   t = 3)
//	depth 2:        561   (c = 120, t = 27)
//	depth 3: 42 356 656   (dominated by 2-argument calls: 120*561*561 = 37 766 520;
//	                       binary 13*561*561 = 4 091 373)
//	depth 4: does not fit in an int64; CountExprs returns -1 and EnumerateExprs does nothing.
//
// Depth 3 is too large to print-and-parse exhaustively in a unit test; use ExprAt with a stride
// (or EnumerateExprs and return false after a limit) to sample it evenly. ClassRanges tells
// which index ranges hold which class, so that a caller can sample each class separately rather
// than spend 89% of an even sample on 2-argument calls.

const enumLeafCount = 5

func enumLeaf(i int) ast.Expression {
	switch i {
	case 0:
		return Ident("a")
	case 1:
		return Ident("b")
	case 2:
		return Ident("c")
	case 3:
		return Int("1")
	default:
		return Str("s")
	}
}

var enumProps = [...]string{"a", "b", "c"}

// sizes of the sets at one depth.
type enumSizes struct {
	n       int // |E(d)|
	c       int // callees: identifiers + calls + members
	t       int // targets: identifiers + members
	calls   int // classes 6..8
	members int // classes 9..10
	ok      bool
}

const enumIdents = 3

// enumTable returns sizes for depth 0..depth (index 0 unused). ok=false from the first depth
// that overflows.
func enumTable(depth int) []enumSizes {
	tab := make([]enumSizes, depth+1)
	if depth < 1 {
		return tab
	}
	tab[1] = enumSizes{n: enumLeafCount, c: enumIdents, t: enumIdents, ok: true}
	for d := 2; d <= depth; d++ {
		p := tab[d-1]
		if !p.ok {
			break
		}
		n, c, t := float64(p.n), float64(p.c), float64(p.t)
		total := 5 + 13*n*n + 3*t*n + 2*n + 2*t + 2*t + c + c*n + c*n*n + 3*c + c*n + 1 + n + n*n + 1 + 2*n + n
		if total > math.MaxInt64/4 {
			break
		}
		s := enumSizes{ok: true}
		s.calls = p.c + p.c*p.n + p.c*p.n*p.n
		s.members = 3*p.c + p.c*p.n
		s.c = enumIdents + s.calls + s.members
		s.t = enumIdents + s.members
		s.n = 0
		for _, r := range classSizes(p) {
			s.n += r
		}
		tab[d] = s
	}
	return tab
}

// classSizes gives the size of each of the 14 classes of E(d) given the sizes p of depth d-1.
func classSizes(p enumSizes) [14]int {
	n, c, t := p.n, p.c, p.t
	return [14]int{
		enumLeafCount,
		len(binaryTokens) * n * n,
		3 * t * n,
		2 * n,
		2 * t,
		2 * t,
		c,
		c * n,
		c * n * n,
		3 * c,
		c * n,
		1 + n + n*n,
		1 + 2*n,
		n,
	}
}

var classNames = [14]string{
	"leaf", "binary", "assignment", "prefix ! -", "prefix ++ --", "postfix ++ --",
	"call/0", "call/1", "call/2", "member", "index", "array", "object", "grouped",
}

// ClassRange is a half-open index range [Start, End) of ExprAt(depth, ·) holding one class.
type ClassRange struct {
	Name       string
	Start, End int
}

// ClassRanges returns the 14 classes of E(depth) with their index ranges, in enumeration order.
// For depth 1 only the leaf class is non-empty. Returns nil if depth < 1 or the count overflows.
func ClassRanges(depth int) []ClassRange {
	tab := enumTable(depth)
	if depth < 1 || !tab[depth].ok {
		return nil
	}
	out := make([]ClassRange, 0, 14)
	if depth == 1 {
		return append(out, ClassRange{classNames[0], 0, enumLeafCount})
	}
	off := 0
	for i, sz := range classSizes(tab[depth-1]) {
		out = append(out, ClassRange{classNames[i], off, off + sz})
		off += sz
	}
	return out
}

// CountExprs is the number of trees EnumerateExprs(depth, ·) produces: 5, 561, 42356656 for depth
// 1, 2, 3; 0 for depth < 1; -1 when the number does not fit (depth >= 4).
func CountExprs(depth int) int {
	if depth < 1 {
		return 0
	}
	tab := enumTable(depth)
	if !tab[depth].ok {
		return -1
	}
	return tab[depth].n
}

// ExprAt returns the i-th tree (0-based) of the enumeration of depth `depth`, built from fresh
// nodes, or nil if i is out of range. It costs O(size of the tree), so sampling
// ExprAt(3, k*stride) is cheap.
func ExprAt(depth, i int) ast.Expression {
	if depth < 1 {
		return nil
	}
	tab := enumTable(depth)
	if !tab[depth].ok || i < 0 || i >= tab[depth].n {
		return nil
	}
	return enumExpr(tab, depth, i)
}

// EnumerateExprs calls f for each expression tree of depth <= depth, wrapped as a program with
// one ExpressionStatement, in the deterministic order described above. f returns false to stop.
// Note that, unlike RandomProgram, the enumeration does not avoid statements whose expression
// starts with an object literal (e.g. `{}`, `{a:1}+b`): those are valid programmatic trees, but
// the xjs printer does not parenthesise them.
func EnumerateExprs(depth int, f func(p *ast.Program) bool) {
	n := CountExprs(depth)
	if n <= 0 {
		return
	}
	tab := enumTable(depth)
	for i := 0; i < n; i++ {
		if !f(ExprProgram(enumExpr(tab, depth, i))) {
			return
		}
	}
}

func enumExpr(tab []enumSizes, d, i int) ast.Expression {
	if d == 1 {
		return enumLeaf(i)
	}
	p := tab[d-1]
	n, t := p.n, p.t
	sizes := classSizes(p)
	class := 0
	for i >= sizes[class] {
		i -= sizes[class]
		class++
	}
	x := func(j int) ast.Expression { return enumExpr(tab, d-1, j) }
	switch class {
	case 0:
		return enumLeaf(i)
	case 1:
		op := binaryTokens[i/(n*n)].lit
		return Bin(op, x(i/n%n), x(i%n))
	case 2:
		op, rest := i/(t*n), i%(t*n)
		target, value := enumTarget(tab, d-1, rest/n), x(rest%n)
		switch op {
		case 0:
			return Assign(target, value)
		case 1:
			return Compound("+=", target, value)
		default:
			return Compound("-=", target, value)
		}
	case 3:
		return Prefix([...]string{"!", "-"}[i/n], x(i%n))
	case 4:
		return Prefix([...]string{"++", "--"}[i/t], enumTarget(tab, d-1, i%t))
	case 5:
		return Postfix([...]string{"++", "--"}[i/t], enumTarget(tab, d-1, i%t))
	case 6, 7, 8:
		off := 0
		for k := 6; k < class; k++ {
			off += sizes[k]
		}
		return enumCall(tab, d, off+i)
	case 9, 10:
		off := 0
		if class == 10 {
			off = sizes[9]
		}
		return enumMember(tab, d, off+i)
	case 11:
		switch {
		case i == 0:
			return Array()
		case i < 1+n:
			return Array(x(i - 1))
		default:
			i -= 1 + n
			return Array(x(i/n), x(i%n))
		}
	case 12:
		switch {
		case i == 0:
			return Object()
		case i < 1+n:
			return Object(Prop(Ident("a"), x(i-1)))
		default:
			return Object(Prop(Str("s"), x(i-1-n)))
		}
	default:
		return Group(x(i))
	}
}

// enumCall returns the i-th call expression of depth <= d (d >= 2): classes 6, 7, 8.
func enumCall(tab []enumSizes, d, i int) ast.Expression {
	p := tab[d-1]
	n, c := p.n, p.c
	x := func(j int) ast.Expression { return enumExpr(tab, d-1, j) }
	switch {
	case i < c:
		return Call(enumCallee(tab, d-1, i))
	case i < c+c*n:
		i -= c
		return Call(enumCallee(tab, d-1, i/n), x(i%n))
	default:
		i -= c + c*n
		return Call(enumCallee(tab, d-1, i/(n*n)), x(i/n%n), x(i%n))
	}
}

// enumMember returns the i-th member / index expression of depth <= d (d >= 2): classes 9, 10.
func enumMember(tab []enumSizes, d, i int) ast.Expression {
	p := tab[d-1]
	n, c := p.n, p.c
	if i < 3*c {
		return Member(enumCallee(tab, d-1, i/3), enumProps[i%3])
	}
	i -= 3 * c
	return Index(enumCallee(tab, d-1, i/n), enumExpr(tab, d-1, i%n))
}

// enumCallee returns the i-th callee of depth <= d: identifiers, then calls, then members.
func enumCallee(tab []enumSizes, d, i int) ast.Expression {
	if i < enumIdents {
		return enumLeaf(i)
	}
	i -= enumIdents
	if i < tab[d].calls {
		return enumCall(tab, d, i)
	}
	return enumMember(tab, d, i-tab[d].calls)
}

// enumTarget returns the i-th assignment target of depth <= d: identifiers, then members.
func enumTarget(tab []enumSizes, d, i int) ast.Expression {
	if i < enumIdents {
		return enumLeaf(i)
	}
	return enumMember(tab, d, i-enumIdents)
}
