package treegen

import (
	"math/rand"

	"github.com/xjslang/xjs/ast"
)

// RandomProgram builds a random program over all core xjs node types, using only r as a source
// of randomness (same seed, same tree).
//
// Statements: let (with or without initialiser), function declaration, return (only inside
// function bodies, with or without value), if / if-else (also else-if chains), while, for (init:
// let-expression, plain expression or empty; condition / update possibly empty), block,
// expression statement. Expressions: everything EnumerateExprs uses plus function expressions
// (anonymous or named), float literals, booleans, null and backtick strings.
//
// maxDepth bounds both the nesting of statements and the depth of every expression (a leaf has
// depth 1); the program has between 1 and maxStmts top-level statements. Values < 1 are read as 1.
//
// Constraints respected (they describe what the xjs parser can produce / the printer supports):
//   - the callee of a call and the object of a member access are an identifier, a call or a
//     member access;
//   - assignment targets (= += -=) and the operands of prefix/postfix ++ -- are an identifier
//     or a member access;
//   - the property of a non-computed member access is an identifier; object keys are identifiers
//     or string literals;
//   - an ExpressionStatement's expression does not begin, at its left edge (looking through the
//     left child of binary / postfix / call / member / assignment nodes), with a function
//     expression or an object literal: such a candidate is re-drawn, and after 8 failures wrapped
//     in a GroupedExpression;
//   - `let` statements and function declarations are never the direct (brace-less) body of
//     if / else / while / for.
//
// NOT avoided on purpose, because they are legitimate trees: the "dangling else" shape
// if (a) <if without else> else s, empty blocks, grouped expressions anywhere, assignments
// and low-precedence operators in any operand slot.
func RandomProgram(r *rand.Rand, maxDepth int, maxStmts int) *ast.Program {
	if maxDepth < 1 {
		maxDepth = 1
	}
	if maxStmts < 1 {
		maxStmts = 1
	}
	g := &gen{r: r}
	n := 1 + r.Intn(maxStmts)
	return Program(g.stmts(n, maxDepth, false)...)
}

// RandomExpr builds a random expression of depth <= maxDepth under the same constraints.
func RandomExpr(r *rand.Rand, maxDepth int) ast.Expression {
	if maxDepth < 1 {
		maxDepth = 1
	}
	g := &gen{r: r}
	return g.expr(maxDepth)
}

type gen struct{ r *rand.Rand }

// pick returns an index drawn with the given weights.
func (g *gen) pick(weights ...int) int {
	total := 0
	for _, w := range weights {
		total += w
	}
	k := g.r.Intn(total)
	for i, w := range weights {
		if k < w {
			return i
		}
		k -= w
	}
	return len(weights) - 1
}

func (g *gen) oneOf(names ...string) string { return names[g.r.Intn(len(names))] }

func (g *gen) varName() string { return g.oneOf("a", "b", "c") }

func (g *gen) params() []string {
	all := []string{"a", "b", "c"}
	return all[:g.r.Intn(3)]
}

func (g *gen) stmts(n, depth int, inFunc bool) []ast.Statement {
	out := make([]ast.Statement, 0, n)
	for i := 0; i < n; i++ {
		out = append(out, g.stmt(depth, inFunc, true))
	}
	return out
}

func (g *gen) block(depth int, inFunc bool, maxN int) *ast.BlockStatement {
	n := g.r.Intn(maxN + 1)
	if depth < 1 {
		n = 0
	}
	return Block(g.stmts(n, depth, inFunc)...)
}

// body is the body of if / else / while / for: a block, or a brace-less statement that is not
// a declaration.
func (g *gen) body(depth int, inFunc bool) ast.Statement {
	if depth < 1 {
		return Block()
	}
	if g.r.Intn(2) == 0 {
		return g.block(depth, inFunc, 2)
	}
	return g.stmt(depth, inFunc, false)
}

func (g *gen) stmt(depth int, inFunc, declOK bool) ast.Statement {
	w := struct{ expr, let, ret, iff, while, forr, block, fn int }{expr: 30}
	if declOK {
		w.let = 15
	}
	if inFunc {
		w.ret = 12
	}
	if depth > 1 {
		w.iff, w.while, w.forr, w.block = 12, 6, 9, 4
		if declOK {
			w.fn = 7
		}
	}
	switch g.pick(w.expr, w.let, w.ret, w.iff, w.while, w.forr, w.block, w.fn) {
	case 0:
		return ExprStmt(g.stmtExpr(depth))
	case 1:
		if g.r.Intn(4) == 0 {
			return Let(g.varName(), nil)
		}
		return Let(g.varName(), g.expr(depth))
	case 2:
		if g.r.Intn(4) == 0 {
			return Return(nil)
		}
		return Return(g.expr(depth))
	case 3:
		cond := g.expr(depth - 1)
		then := g.body(depth-1, inFunc)
		switch g.pick(5, 3, 2) {
		case 0:
			return If(cond, then, nil)
		case 1:
			return If(cond, then, g.body(depth-1, inFunc))
		default: // else-if chain
			return If(cond, then, If(g.expr(depth-1), g.body(depth-1, inFunc), g.optBody(depth-1, inFunc)))
		}
	case 4:
		return While(g.expr(depth-1), g.body(depth-1, inFunc))
	case 5:
		var init, cond, update ast.Expression
		switch g.pick(6, 1, 2, 1) {
		case 0:
			init = LetExpr(g.varName(), g.expr(depth-1))
		case 1:
			init = LetExpr(g.varName(), nil)
		case 2:
			init = g.expr(depth - 1)
		}
		if g.r.Intn(5) != 0 {
			cond = g.expr(depth - 1)
		}
		if g.r.Intn(5) != 0 {
			update = g.expr(depth - 1)
		}
		return For(init, cond, update, g.body(depth-1, inFunc))
	case 6:
		return g.block(depth-1, inFunc, 3)
	default:
		return FuncDecl(g.oneOf("f", "g", "h"), g.params(), g.block(depth-1, true, 3))
	}
}

func (g *gen) optBody(depth int, inFunc bool) ast.Statement {
	if g.r.Intn(2) == 0 {
		return nil
	}
	return g.body(depth, inFunc)
}

// stmtExpr draws an expression usable as an expression statement.
func (g *gen) stmtExpr(depth int) ast.Expression {
	var e ast.Expression
	for try := 0; try < 8; try++ {
		e = g.expr(depth)
		if !BadStatementStart(e) {
			return e
		}
	}
	return Group(e)
}

// BadStatementStart reports whether e, printed as an expression statement, would start with
// `function` or `{`: its left edge (through the left child of binary, postfix, call, member and
// assignment nodes) is a function expression or an object literal.
func BadStatementStart(e ast.Expression) bool {
	for {
		switch n := e.(type) {
		case *ast.FunctionExpression, *ast.ObjectLiteral:
			return true
		case *ast.BinaryExpression:
			e = n.Left
		case *ast.PostfixExpression:
			e = n.Left
		case *ast.CallExpression:
			e = n.Function
		case *ast.MemberExpression:
			e = n.Object
		case *ast.AssignmentExpression:
			e = n.Left
		case *ast.CompoundAssignmentExpression:
			e = n.Left
		default:
			return false
		}
	}
}

func (g *gen) leaf() ast.Expression {
	switch g.pick(50, 14, 7, 10, 5, 8, 6) {
	case 0:
		return Ident(g.varName())
	case 1:
		return Int(g.oneOf("1", "0", "2", "10"))
	case 2:
		return Float(g.oneOf("1.5", "0.25"))
	case 3:
		return Str(g.oneOf("s", "abc"))
	case 4:
		return RawStr(g.oneOf("r", "raw", "r", "a\nb", "a`b", "a\\\\`b", "\\$x", "$", "\\\\"))
	case 5:
		return Bool(g.r.Intn(2) == 0)
	default:
		return Null()
	}
}

func (g *gen) expr(depth int) ast.Expression {
	if depth <= 1 || g.r.Intn(100) < 22 {
		return g.leaf()
	}
	d := depth - 1
	switch g.pick(30, 9, 10, 5, 10, 6, 5, 5, 5, 6, 4) {
	case 0:
		return Bin(binaryTokens[g.r.Intn(len(binaryTokens))].lit, g.expr(d), g.expr(d))
	case 1:
		switch g.r.Intn(3) {
		case 0:
			return Assign(g.target(d), g.expr(d))
		case 1:
			return Compound("+=", g.target(d), g.expr(d))
		default:
			return Compound("-=", g.target(d), g.expr(d))
		}
	case 2:
		switch g.r.Intn(4) {
		case 0:
			return Prefix("!", g.expr(d))
		case 1:
			return Prefix("-", g.expr(d))
		case 2:
			return Prefix("++", g.target(d))
		default:
			return Prefix("--", g.target(d))
		}
	case 3:
		return Postfix(g.oneOf("++", "--"), g.target(d))
	case 4:
		n := g.r.Intn(3)
		args := make([]ast.Expression, 0, n)
		callee := g.callee(d)
		for i := 0; i < n; i++ {
			args = append(args, g.expr(d))
		}
		return Call(callee, args...)
	case 5:
		return Member(g.callee(d), g.varName())
	case 6:
		return Index(g.callee(d), g.expr(d))
	case 7:
		n := g.r.Intn(4)
		elems := make([]ast.Expression, 0, n)
		for i := 0; i < n; i++ {
			elems = append(elems, g.expr(d))
		}
		return Array(elems...)
	case 8:
		n := g.r.Intn(3)
		props := make([]ast.ObjectProperty, 0, n)
		for i := 0; i < n; i++ {
			var key ast.Expression
			if g.r.Intn(2) == 0 {
				key = Ident(g.varName())
			} else {
				key = Str(g.oneOf("s", "k"))
			}
			props = append(props, Prop(key, g.expr(d)))
		}
		return Object(props...)
	case 9:
		return Group(g.expr(d))
	default:
		name := ""
		if g.r.Intn(3) == 0 {
			name = g.oneOf("f", "g")
		}
		return Func(name, g.params(), g.block(d, true, 2))
	}
}

// callee draws an identifier, a call or a member access of depth <= depth.
func (g *gen) callee(depth int) ast.Expression {
	if depth <= 1 {
		return Ident(g.oneOf("a", "b", "c", "f"))
	}
	d := depth - 1
	switch g.pick(5, 2, 2, 1) {
	case 0:
		return Ident(g.oneOf("a", "b", "c", "f"))
	case 1:
		n := g.r.Intn(3)
		args := make([]ast.Expression, 0, n)
		callee := g.callee(d)
		for i := 0; i < n; i++ {
			args = append(args, g.expr(d))
		}
		return Call(callee, args...)
	case 2:
		return Member(g.callee(d), g.varName())
	default:
		return Index(g.callee(d), g.expr(d))
	}
}

// target draws an identifier or a member access of depth <= depth.
func (g *gen) target(depth int) ast.Expression {
	if depth <= 1 || g.r.Intn(10) < 6 {
		return Ident(g.varName())
	}
	d := depth - 1
	if g.r.Intn(2) == 0 {
		return Member(g.callee(d), g.varName())
	}
	return Index(g.callee(d), g.expr(d))
}
