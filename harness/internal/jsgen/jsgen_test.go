package jsgen

import (
	"fmt"
	"math/rand"
	"sort"
	"strings"
	"testing"
	"time"

	"github.com/dop251/goja"
	"github.com/xjslang/xjs/lexer"
	"github.com/xjslang/xjs/parser"
)

func randLayout(r *rand.Rand) Layout {
	return Layout{
		Newlines:        r.Intn(2) == 0,
		Comments:        r.Intn(3) == 0,
		ASI:             r.Intn(2) == 0,
		RedundantParens: r.Intn(3) == 0,
		SingleQuotes:    r.Intn(2) == 0,
		Compact:         r.Intn(3) == 0,
	}
}

func genTree(seed int64) *Node {
	r := rand.New(rand.NewSource(seed))
	return GenProgram(r, GenOptions{MaxDepth: 2 + int(seed%3), MaxStmts: 3 + int(seed%4), Executable: seed%2 == 1})
}

// layouts returns the layouts tried for every tree: the fixed corner cases plus random ones.
func layouts(r *rand.Rand) []Layout {
	ls := []Layout{
		{},
		{Compact: true},
		{Newlines: true, Comments: true, ASI: true, RedundantParens: true, SingleQuotes: true},
		{ASI: true, Compact: true},
	}
	for i := 0; i < 3; i++ {
		ls = append(ls, randLayout(r))
	}
	return ls
}

// diffAt shows both canonical strings around their first difference.
func diffAt(want, got string) string {
	i := 0
	for i < len(want) && i < len(got) && want[i] == got[i] {
		i++
	}
	lo := i - 30
	if lo < 0 {
		lo = 0
	}
	ctx := func(s string) string {
		hi := i + 40
		if hi > len(s) {
			hi = len(s)
		}
		if lo > len(s) {
			return ""
		}
		return s[lo:hi]
	}
	return "want …" + ctx(want) + "… got …" + ctx(got) + "…          "
}

// xjsParse parses src with xjs and returns the canonical tree or the error class.
func xjsParse(src string) (canon, errClass string) {
	prog, err := parser.NewBuilder(lexer.NewBuilder()).Build(src).ParseProgram()
	if err != nil {
		msg := err.Error()
		if i := strings.Index(msg, "errors: "); i >= 0 {
			msg = msg[i+8:]
		}
		if i := strings.Index(msg, " {{"); i >= 0 { // drop the position
			msg = msg[:i]
		}
		return "", "error " + msg
	}
	return CanonXjs(prog), ""
}

// TestRoundTrip validates the unparser against goja (must agree exactly) on 3000
// trees x 7 layouts and counts disagreements of xjs (findings, not failures).
func TestRoundTrip(t *testing.T) {
	const trees = 3000
	classes := map[string]int{}
	texts, fails := 0, 0
	for seed := int64(0); seed < trees && fails < 5; seed++ {
		tree := genTree(seed)
		want := Canon(tree)
		lr := rand.New(rand.NewSource(seed*7919 + 1))
		for li, l := range layouts(lr) {
			src := Render(tree, lr, l)
			texts++
			if strings.ContainsRune(src, '\r') {
				t.Fatalf("seed %d: CR in output", seed)
			}
			got, err := CanonGoja(src)
			if err != nil || got != want {
				fails++
				t.Errorf("seed %d layout %d %+v\n--- src\n%s\n--- %s\n--- err %v", seed, li, l, src, diffAt(want, got), err)
				break
			}
			xgot, cls := xjsParse(src)
			switch {
			case cls != "":
				classes[cls]++
			case xgot != want:
				classes["different tree"]++
			default:
				classes["agrees"]++
			}
		}
	}
	t.Logf("texts=%d, xjs verdicts: %v", texts, classes)
}

func hasBareReturn(n *Node) bool {
	if n == nil {
		return false
	}
	if n.Kind == "ret" && n.Kids[0] == nil {
		return true
	}
	for _, k := range n.Kids {
		if hasBareReturn(k) {
			return true
		}
	}
	return false
}

// TestXjsFindings hunts, on small trees, for the smallest input of every class of
// disagreement between xjs and (goja == specification tree). It only logs.
func TestXjsFindings(t *testing.T) {
	type ex struct{ src, want, got string }
	best := map[string]ex{}
	count := map[string]int{}
	for seed := int64(0); seed < 30000; seed++ {
		r := rand.New(rand.NewSource(seed + 1000000))
		tree := GenProgram(r, GenOptions{MaxDepth: 1 + int(seed%3), MaxStmts: 1 + int(seed%4)})
		want := Canon(tree)
		for i := 0; i < 3; i++ {
			l := randLayout(r)
			src := Render(tree, r, l)
			if g, err := CanonGoja(src); err != nil || g != want {
				t.Fatalf("unparser bug on seed %d:\n%s\n%s err %v", seed, src, diffAt(want, g), err)
			}
			got, cls := xjsParse(src)
			if cls == "" {
				if got == want {
					continue
				}
				d := diffAt(want, got)
				cls = "different tree: " + d[strings.Index(d, "got"):][:20]
			}
			if l.ASI && hasBareReturn(tree) {
				// known: xjs ignores the restricted production return<LF>operand;
				// one bucket, so that it does not mask the other classes
				cls = "known: line break after operand-less return"
			}
			count[cls]++
			if e, ok := best[cls]; !ok || len(src) < len(e.src) {
				best[cls] = ex{src, want, got}
			}
		}
	}
	keys := make([]string, 0, len(best))
	for k := range best {
		keys = append(keys, k)
	}
	sort.Slice(keys, func(i, j int) bool { return len(best[keys[i]].src) < len(best[keys[j]].src) })
	if len(keys) > 40 {
		keys = keys[:40]
	}
	for _, k := range keys {
		e := best[k]
		t.Logf("[%s] x%d\n--- src\n%s--- want\n%s\n--- xjs\n%s", k, count[k], e.src, e.want, e.got)
	}
}

func TestCorruptions(t *testing.T) {
	total := 0
	kinds := map[string]int{}
	for seed := int64(0); seed < 100; seed++ {
		tree := genTree(seed)
		text, toks := plain(tree)
		if g, err := CanonGoja(text); err != nil || g != Canon(tree) {
			t.Fatalf("seed %d: plain rendering does not round-trip: %v\n%s", seed, err, text)
		}
		lines := strings.Split(text, "\n")
		starts := map[[2]int]string{}
		for _, pt := range toks {
			starts[[2]int{pt.line, pt.col}] = pt.s
			if !strings.HasPrefix(lines[pt.line][pt.col:], strings.SplitN(pt.s, "\n", 2)[0]) {
				t.Fatalf("seed %d: token %q not at %d:%d", seed, pt.s, pt.line, pt.col)
			}
		}
		for _, c := range Corruptions(tree, rand.New(rand.NewSource(seed))) {
			total++
			kinds[c.Kind]++
			if !GojaRejects(c.Text) {
				t.Fatalf("seed %d: goja accepts %s corruption:\n%s", seed, c.Kind, c.Text)
			}
			if c.IntactLine < 0 {
				if c.IntactCol != -1 {
					t.Fatalf("bad sentinel %+v", c)
				}
				continue
			}
			tok, ok := starts[[2]int{c.IntactLine, c.IntactCol}]
			if !ok {
				t.Fatalf("seed %d: intact position %d:%d is not a token start", seed, c.IntactLine, c.IntactCol)
			}
			// the intact token must be present, at the same place, in the corrupted text
			cl := strings.Split(c.Text, "\n")
			if c.IntactLine >= len(cl) || !strings.HasPrefix(cl[c.IntactLine][c.IntactCol:], strings.SplitN(tok, "\n", 2)[0]) {
				t.Fatalf("seed %d: %s: intact token %q missing at %d:%d in\n%s", seed, c.Kind, tok, c.IntactLine, c.IntactCol, c.Text)
			}
		}
	}
	t.Logf("corruptions=%d %v", total, kinds)
	for _, k := range []string{"delete-token", "fuse-statements", "truncate"} {
		if kinds[k] == 0 {
			t.Errorf("no %s corruption produced", k)
		}
	}
}

// run executes src in goja with a console.log that records its arguments.
func run(src string) (out string, err error) {
	vm := goja.New()
	var b strings.Builder
	console := vm.NewObject()
	_ = console.Set("log", func(c goja.FunctionCall) goja.Value {
		for i, a := range c.Arguments {
			if i > 0 {
				b.WriteByte(' ')
			}
			if _, isFn := goja.AssertFunction(a); isFn {
				b.WriteString("<<function>>")
			}
			js, e := vm.RunString(`(function(v) { return JSON.stringify(v, function(k, x) {
				if (typeof x === "function") return "<<function>>";
				if (x === undefined) return "undefined";
				if (typeof x === "number" && !isFinite(x)) return String(x);
				return x; }); })`)
			if e != nil {
				panic(e)
			}
			f, _ := goja.AssertFunction(js)
			v, e := f(goja.Undefined(), a)
			if e != nil {
				b.WriteString("<<unserialisable: " + e.Error() + ">>")
			} else {
				b.WriteString(fmt.Sprint(a.ExportType()) + ":" + v.String())
			}
		}
		b.WriteByte('\n')
		return goja.Undefined()
	})
	_ = vm.Set("console", console)
	timer := time.AfterFunc(3*time.Second, func() { vm.Interrupt("timeout") })
	defer timer.Stop()
	_, err = vm.RunString(src)
	return b.String(), err
}

// TestExecutable checks the promises of executable mode by running the programs.
func TestExecutable(t *testing.T) {
	throwers, logged := 0, 0
	var maxOut int
	for seed := int64(1); seed < 1600; seed += 2 {
		tree := genTree(seed)
		src := Plain(tree)
		out, err := run(src)
		if strings.Contains(out, "<<") {
			t.Fatalf("seed %d logs a function or cyclic value:\n%s\n%s", seed, src, out)
		}
		if len(out) > maxOut {
			maxOut = len(out)
		}
		if out != "" {
			logged++
		}
		out2, err2 := run(Render(tree, rand.New(rand.NewSource(seed)), Layout{Newlines: true, ASI: true, RedundantParens: true, Compact: true}))
		if out2 != out || (err == nil) != (err2 == nil) {
			t.Fatalf("seed %d: output depends on layout or run:\n%s", seed, src)
		}
		if err == nil {
			continue
		}
		if _, ok := err.(*goja.InterruptedError); ok {
			t.Fatalf("seed %d does not terminate:\n%s", seed, src)
		}
		msg := err.Error()
		if !strings.Contains(msg, "TypeError") && !strings.Contains(msg, "ReferenceError") {
			t.Fatalf("seed %d throws %v:\n%s", seed, err, src)
		}
		// only the deliberate last statement may throw
		cut := &Node{Kind: "prog", Kids: tree.Kids[:len(tree.Kids)-1]}
		out3, err3 := run(Plain(cut))
		if err3 != nil || out3 != out {
			t.Fatalf("seed %d throws before its last statement: %v\n%s", seed, err, src)
		}
		throwers++
	}
	t.Logf("programs=800 logging=%d deliberate throwers=%d largest output=%d bytes", logged, throwers, maxOut)
	if throwers == 0 || logged < 790 {
		t.Errorf("unexpected proportions")
	}
}
