// Package jsgen is a grammar-directed generator of programs of the xjs JavaScript
// subset. Programs are produced as specification trees (Node), rendered to text in
// many layouts by an unparser that shares no code with xjs, and compared through
// canonical S-expressions obtained from three sources: the specification tree, the
// xjs AST and the AST of goja's parser.
package jsgen

import (
	"strconv"
	"strings"
)

// Node is a specification tree node (no positions, no parentheses nodes).
//
// Children per kind (an absent optional child is nil):
//
//	prog   statements...
//	let    [id, init|nil]                 let statement
//	lete   [id, init|nil]                 let in a for-init
//	fd     [id, param ids..., block]      function declaration
//	fn     [id|nil, param ids..., block]  function expression
//	ret    [expr|nil]
//	if     [cond, then, else|nil]
//	while  [cond, body]
//	for    [init|nil, cond|nil, update|nil, body]
//	block  statements...
//	es     [expr]                         expression statement
//	bin    [left, right]   Op in || && == != < > <= >= + - * / %
//	asg    [target, value] Op in = += -=  (target: id, mem or idx)
//	un     [operand]       Op in ! - ++ --  (++/--: operand id, mem or idx)
//	post   [operand]       Op in ++ --      (operand id, mem or idx)
//	call   [callee, args...]
//	mem    [object, id]                   object.name
//	idx    [object, expr]                 object[expr]
//	arr    elements...
//	obj    key1, value1, key2, value2...  keys are id, str, int or float nodes
//	id int float str tpl bool null        leaves, payload in Text
//
// Text: identifier name; number literal source text; for "str" the string VALUE
// (printable ASCII, newline, tab); for "tpl" the raw text between the backticks;
// "true"/"false" for bool.
//
// Trees handed to Render must respect two structural rules that cannot be repaired
// with parentheses: a let/fd is never the direct body of if/while/for, and the
// then-branch of an if that has an else must not end in an else-less if (dangling
// else). GenProgram guarantees both.
type Node struct {
	Kind string
	Op   string
	Text string
	Kids []*Node
}

func nd(kind string, kids ...*Node) *Node { return &Node{Kind: kind, Kids: kids} }
func ndOp(kind, op string, kids ...*Node) *Node {
	return &Node{Kind: kind, Op: op, Kids: kids}
}
func leaf(kind, text string) *Node { return &Node{Kind: kind, Text: text} }
func ident(name string) *Node      { return leaf("id", name) }
func intLit(v int) *Node           { return leaf("int", strconv.Itoa(v)) }
func strLit(v string) *Node        { return leaf("str", v) }
func es(e *Node) *Node             { return nd("es", e) }
func bin(op string, l, r *Node) *Node {
	return ndOp("bin", op, l, r)
}
func call(f *Node, args ...*Node) *Node {
	return nd("call", append([]*Node{f}, args...)...)
}
func mem(o *Node, name string) *Node { return nd("mem", o, ident(name)) }

// canonNum canonicalises a number literal by numeric value.
func canonNum(text string) string {
	if v, err := strconv.ParseInt(text, 0, 64); err == nil {
		return strconv.FormatFloat(float64(v), 'g', -1, 64)
	}
	if v, err := strconv.ParseFloat(text, 64); err == nil {
		return strconv.FormatFloat(v, 'g', -1, 64)
	}
	return "bad:" + text
}

// Canon gives a canonical S-expression string of the tree.
func Canon(n *Node) string {
	var b strings.Builder
	canon(&b, n)
	return b.String()
}

func canon(b *strings.Builder, n *Node) {
	if n == nil {
		b.WriteString("_")
		return
	}
	b.WriteByte('(')
	switch n.Kind {
	case "int", "float":
		b.WriteString("num " + canonNum(n.Text))
	case "id", "bool":
		b.WriteString(n.Kind + " " + n.Text)
	case "str", "tpl":
		b.WriteString(n.Kind + " " + strconv.Quote(n.Text))
	default:
		b.WriteString(n.Kind)
		if n.Op != "" {
			b.WriteString(" " + n.Op)
		}
		for _, k := range n.Kids {
			b.WriteByte(' ')
			canon(b, k)
		}
	}
	b.WriteByte(')')
}

// endsWithOpenIf reports whether the statement, rendered without braces, ends in
// an if that has no else (so that a following else would attach to it).
func endsWithOpenIf(n *Node) bool {
	if n == nil {
		return false
	}
	switch n.Kind {
	case "if":
		if n.Kids[2] == nil {
			return true
		}
		return endsWithOpenIf(n.Kids[2])
	case "while":
		return endsWithOpenIf(n.Kids[1])
	case "for":
		return endsWithOpenIf(n.Kids[3])
	}
	return false
}

// mkIf builds an if node, wrapping the then-branch in a block when a dangling
// else would otherwise change the tree.
func mkIf(cond, then, els *Node) *Node {
	if els != nil && endsWithOpenIf(then) {
		then = nd("block", then)
	}
	return nd("if", cond, then, els)
}
