package jsgen

import "math/rand"

// Corruption is one damaged variant of a program's plain rendering.
type Corruption struct {
	Kind string // "delete-token", "fuse-statements", "truncate"
	Text string // corrupted program text
	// 0-based line and byte column of the START of the last token that is still
	// intact before the corruption point: for delete-token the token before the
	// deleted one; for fuse-statements the last token of the first statement; for
	// truncate the last complete token before the cut; -1,-1 if there is none.
	IntactLine int
	IntactCol  int
}

// ptok is a token of the plain rendering with its start position.
type ptok struct {
	tok
	off, line, col int
}

// Plain renders the program in the fixed layout used by Corruptions: one
// statement per line, explicit semicolons, double quotes, no comments.
func Plain(n *Node) string {
	s, _ := plain(n)
	return s
}

func plain(n *Node) (string, []ptok) {
	p := &rend{plain: true}
	ts := p.top(n)
	text := p.layout(ts)
	pts := make([]ptok, len(ts))
	off, line, col := 0, 0, 0
	advance := func(to int) {
		for ; off < to; off++ {
			if text[off] == '\n' {
				line, col = line+1, 0
			} else {
				col++
			}
		}
	}
	for i, t := range ts {
		// tokens appear in order; string/template tokens are matched as a whole,
		// so searching forward from the previous token's end is exact
		advance(off + indexFrom(text[off:], t.s))
		pts[i] = ptok{tok: t, off: off, line: line, col: col}
		advance(off + len(t.s))
	}
	return text, pts
}

// indexFrom finds tok at the start of s after optional layout whitespace.
func indexFrom(s, tok string) int {
	i := 0
	for i < len(s) && (s[i] == ' ' || s[i] == '\n') {
		i++
	}
	if len(s)-i < len(tok) || s[i:i+len(tok)] != tok {
		panic("jsgen: plain layout out of sync")
	}
	return i
}

// Corruptions renders the program in the plain layout and returns every
// single-token deletion, every removal of a statement separator that puts two
// statements on one line with only a space between them, and every truncation
// point inside a string literal, a backtick string, or an open bracket/paren/brace
// (after a complete token). Only corruptions that goja's parser rejects are kept.
// The plain layout involves no random choice; r is accepted for API stability.
func Corruptions(n *Node, r *rand.Rand) []Corruption {
	text, ts := plain(n)
	var out []Corruption
	add := func(kind, s string, intact int) {
		if !GojaRejects(s) {
			return
		}
		c := Corruption{Kind: kind, Text: s, IntactLine: -1, IntactCol: -1}
		if intact >= 0 {
			c.IntactLine, c.IntactCol = ts[intact].line, ts[intact].col
		}
		out = append(out, c)
	}
	end := func(i int) int { return ts[i].off + len(ts[i].s) }
	depth := 0
	for i, t := range ts {
		// delete token i; if it touched both neighbours leave a space so they do not fuse
		repl := ""
		if i > 0 && i+1 < len(ts) && end(i-1) == t.off && end(i) == ts[i+1].off {
			repl = " "
		}
		add("delete-token", text[:t.off]+repl+text[end(i):], i-1)

		// remove the separator between two statements
		if t.s == ";" && t.fl&fStmtEnd != 0 && i+1 < len(ts) && ts[i+1].s != "}" {
			add("fuse-statements", text[:t.off]+" "+text[ts[i+1].off:], i-1)
		}

		// truncation inside a literal
		if t.fl&fLit != 0 {
			for cut := t.off + 1; cut < end(i); cut++ {
				add("truncate", text[:cut], i-1)
			}
		} else {
			switch t.s {
			case "(", "[", "{":
				depth++
			case ")", "]", "}":
				depth--
			}
		}
		// truncation after a complete token inside an open bracket
		if depth > 0 {
			add("truncate", text[:end(i)], i)
		}
	}
	return out
}
