package jsgen

import (
	"fmt"
	"strconv"
	"strings"

	gast "github.com/dop251/goja/ast"
	"github.com/dop251/goja/file"
	gparser "github.com/dop251/goja/parser"
	gtoken "github.com/dop251/goja/token"
	xast "github.com/xjslang/xjs/ast"
)

// ---------- xjs ----------

// CanonXjs converts an xjs AST to the canonical string of Canon, erasing
// *ast.GroupedExpression nodes, comments and positions.
func CanonXjs(p *xast.Program) string { return Canon(FromXjs(p)) }

// FromXjs converts an xjs AST to a specification tree. Node types outside the
// subset become nodes of kind "?<Go type>".
func FromXjs(p *xast.Program) *Node {
	n := nd("prog")
	for _, s := range p.Statements {
		n.Kids = append(n.Kids, xStmt(s))
	}
	return n
}

func xIdent(i *xast.Identifier) *Node {
	if i == nil {
		return nil
	}
	return ident(i.Value)
}

func xBlock(b *xast.BlockStatement) *Node {
	if b == nil {
		return nil
	}
	n := nd("block")
	for _, s := range b.Statements {
		n.Kids = append(n.Kids, xStmt(s))
	}
	return n
}

func xFunc(kind string, name *xast.Identifier, params []*xast.Identifier, body *xast.BlockStatement) *Node {
	n := nd(kind, xIdent(name))
	for _, p := range params {
		n.Kids = append(n.Kids, xIdent(p))
	}
	n.Kids = append(n.Kids, xBlock(body))
	return n
}

func xStmt(s xast.Statement) *Node {
	switch s := s.(type) {
	case nil:
		return nil
	case *xast.LetStatement:
		return nd("let", xIdent(s.Name), xExpr(s.Value))
	case *xast.ReturnStatement:
		return nd("ret", xExpr(s.ReturnValue))
	case *xast.ExpressionStatement:
		return es(xExpr(s.Expression))
	case *xast.FunctionDeclaration:
		return xFunc("fd", s.Name, s.Parameters, s.Body)
	case *xast.BlockStatement:
		return xBlock(s)
	case *xast.IfStatement:
		return nd("if", xExpr(s.Condition), xStmt(s.ThenBranch), xStmt(s.ElseBranch))
	case *xast.WhileStatement:
		return nd("while", xExpr(s.Condition), xStmt(s.Body))
	case *xast.ForStatement:
		return nd("for", xExpr(s.Init), xExpr(s.Condition), xExpr(s.Update), xStmt(s.Body))
	}
	return nd(fmt.Sprintf("?%T", s))
}

// xjs keeps simple escapes verbatim in StringLiteral.Value; decode them.
func xUnescape(v string) string {
	if strings.IndexByte(v, '\\') < 0 {
		return v
	}
	var b strings.Builder
	for i := 0; i < len(v); i++ {
		if v[i] != '\\' || i+1 == len(v) {
			b.WriteByte(v[i])
			continue
		}
		i++
		switch v[i] {
		case 'n':
			b.WriteByte('\n')
		case 't':
			b.WriteByte('\t')
		case 'r':
			b.WriteByte('\r')
		case '\\', '"', '\'':
			b.WriteByte(v[i])
		default:
			b.WriteByte('\\')
			b.WriteByte(v[i])
		}
	}
	return b.String()
}

func xExprs(n *Node, es []xast.Expression) *Node {
	for _, e := range es {
		n.Kids = append(n.Kids, xExpr(e))
	}
	return n
}

func xExpr(e xast.Expression) *Node {
	switch e := e.(type) {
	case nil:
		return nil
	case *xast.GroupedExpression:
		return xExpr(e.Expression)
	case *xast.Identifier:
		return xIdent(e)
	case *xast.IntegerLiteral:
		return leaf("int", e.Token.Literal)
	case *xast.FloatLiteral:
		return leaf("float", e.Token.Literal)
	case *xast.StringLiteral:
		return strLit(xUnescape(e.Value))
	case *xast.MultiStringLiteral:
		// the lexer removes the backslash of an escaped backtick and nothing else: the raw text is the value with
		// every backtick escaped again
		return leaf("tpl", strings.ReplaceAll(e.Value, "`", "\\`"))
	case *xast.BooleanLiteral:
		return leaf("bool", strconv.FormatBool(e.Value))
	case *xast.NullLiteral:
		return leaf("null", "")
	case *xast.LetExpression:
		return nd("lete", xIdent(e.Name), xExpr(e.Value))
	case *xast.BinaryExpression:
		return bin(e.Operator, xExpr(e.Left), xExpr(e.Right))
	case *xast.UnaryExpression:
		return ndOp("un", e.Operator, xExpr(e.Right))
	case *xast.PostfixExpression:
		return ndOp("post", e.Operator, xExpr(e.Left))
	case *xast.AssignmentExpression:
		return ndOp("asg", "=", xExpr(e.Left), xExpr(e.Value))
	case *xast.CompoundAssignmentExpression:
		return ndOp("asg", e.Operator+"=", xExpr(e.Left), xExpr(e.Value))
	case *xast.CallExpression:
		return xExprs(nd("call", xExpr(e.Function)), e.Arguments)
	case *xast.MemberExpression:
		if e.Computed {
			return nd("idx", xExpr(e.Object), xExpr(e.Property))
		}
		return nd("mem", xExpr(e.Object), xExpr(e.Property))
	case *xast.FunctionExpression:
		return xFunc("fn", e.Name, e.Parameters, e.Body)
	case *xast.ArrayLiteral:
		return xExprs(nd("arr"), e.Elements)
	case *xast.ObjectLiteral:
		n := nd("obj")
		for _, p := range e.Properties {
			n.Kids = append(n.Kids, xExpr(p.Key), xExpr(p.Value))
		}
		return n
	}
	return nd(fmt.Sprintf("?%T", e))
}

// ---------- goja ----------

// CanonGoja parses src with goja's parser and converts the AST to the canonical
// string of Canon. It fails if goja rejects src or the program uses a construct
// outside the subset.
func CanonGoja(src string) (string, error) {
	n, err := FromGoja(src)
	if err != nil {
		return "", err
	}
	return Canon(n), nil
}

// GojaRejects reports whether goja's parser rejects src.
func GojaRejects(src string) bool {
	_, err := gparser.ParseFile(nil, "", src, 0)
	return err != nil
}

// gconv converts a goja AST; it keeps the source to repair goja's
// mis-association of relational chains.
type gconv struct{ src string }

type subsetErr string

func (e subsetErr) Error() string { return "outside subset: " + string(e) }

// FromGoja parses src with goja and converts the AST to a specification tree.
func FromGoja(src string) (n *Node, err error) {
	prog, err := gparser.ParseFile(nil, "", src, 0)
	if err != nil {
		return nil, err
	}
	defer func() {
		if r := recover(); r != nil {
			if se, ok := r.(subsetErr); ok {
				n, err = nil, se
				return
			}
			panic(r)
		}
	}()
	c := &gconv{src: src}
	n = nd("prog")
	for _, s := range prog.Body {
		n.Kids = append(n.Kids, c.gStmt(s))
	}
	return n, nil
}

func gFail(v interface{}) { panic(subsetErr(fmt.Sprintf("%T", v))) }

func (c *gconv) gBlock(b *gast.BlockStatement) *Node {
	n := nd("block")
	for _, s := range b.List {
		n.Kids = append(n.Kids, c.gStmt(s))
	}
	return n
}

func (c *gconv) gLet(kind string, d *gast.LexicalDeclaration) *Node {
	if d.Token != gtoken.LET || len(d.List) != 1 {
		gFail(d)
	}
	id, ok := d.List[0].Target.(*gast.Identifier)
	if !ok {
		gFail(d.List[0].Target)
	}
	return nd(kind, ident(id.Name.String()), c.gExpr(d.List[0].Initializer))
}

func (c *gconv) gFunc(kind string, f *gast.FunctionLiteral) *Node {
	if f.Async || f.Generator || f.ParameterList.Rest != nil {
		gFail(f)
	}
	n := nd(kind, nil)
	if f.Name != nil {
		n.Kids[0] = ident(f.Name.Name.String())
	}
	for _, b := range f.ParameterList.List {
		id, ok := b.Target.(*gast.Identifier)
		if !ok || b.Initializer != nil {
			gFail(b)
		}
		n.Kids = append(n.Kids, ident(id.Name.String()))
	}
	n.Kids = append(n.Kids, c.gBlock(f.Body))
	return n
}

func (c *gconv) gStmt(s gast.Statement) *Node {
	switch s := s.(type) {
	case nil:
		return nil
	case *gast.ExpressionStatement:
		return es(c.gExpr(s.Expression))
	case *gast.LexicalDeclaration:
		return c.gLet("let", s)
	case *gast.FunctionDeclaration:
		return c.gFunc("fd", s.Function)
	case *gast.ReturnStatement:
		return nd("ret", c.gExpr(s.Argument))
	case *gast.BlockStatement:
		return c.gBlock(s)
	case *gast.IfStatement:
		return nd("if", c.gExpr(s.Test), c.gStmt(s.Consequent), c.gStmt(s.Alternate))
	case *gast.WhileStatement:
		return nd("while", c.gExpr(s.Test), c.gStmt(s.Body))
	case *gast.ForStatement:
		var init *Node
		switch i := s.Initializer.(type) {
		case nil:
		case *gast.ForLoopInitializerExpression:
			init = c.gExpr(i.Expression)
		case *gast.ForLoopInitializerLexicalDecl:
			init = c.gLet("lete", &i.LexicalDeclaration)
		default:
			gFail(i)
		}
		return nd("for", init, c.gExpr(s.Test), c.gExpr(s.Update), c.gStmt(s.Body))
	}
	gFail(s)
	return nil
}

var gBinOps = map[gtoken.Token]bool{gtoken.LOGICAL_OR: true, gtoken.LOGICAL_AND: true, gtoken.EQUAL: true,
	gtoken.NOT_EQUAL: true, gtoken.LESS: true, gtoken.GREATER: true, gtoken.LESS_OR_EQUAL: true,
	gtoken.GREATER_OR_EQUAL: true, gtoken.PLUS: true, gtoken.MINUS: true, gtoken.MULTIPLY: true,
	gtoken.SLASH: true, gtoken.REMAINDER: true}

var gRel = map[gtoken.Token]bool{gtoken.LESS: true, gtoken.GREATER: true, gtoken.LESS_OR_EQUAL: true,
	gtoken.GREATER_OR_EQUAL: true}

// parenAfterOp reports whether a '(' follows operator op in the source between
// the end of the left operand and the start of the right operand (1-based goja
// indexes), ignoring // comments. The slice holds only ')', layout, op and '('.
func (c *gconv) parenAfterOp(from, to file.Idx, op string) bool {
	lo, hi := int(from)-1, int(to)-1
	if lo < 0 || hi > len(c.src) || lo > hi {
		return true // positions unusable: leave goja's tree alone
	}
	var b strings.Builder
	for _, line := range strings.SplitAfter(c.src[lo:hi], "\n") {
		if i := strings.Index(line, "//"); i >= 0 {
			line = line[:i]
		}
		b.WriteString(line)
	}
	s := b.String()
	if i := strings.LastIndex(s, op); i >= 0 {
		s = s[i:]
	}
	return strings.Contains(s, "(")
}

func gNum(n *gast.NumberLiteral) *Node {
	var v float64
	switch x := n.Value.(type) {
	case int64:
		v = float64(x)
	case float64:
		v = x
	default:
		gFail(n.Value)
	}
	return leaf("float", strconv.FormatFloat(v, 'g', -1, 64))
}

func (c *gconv) gExprs(n *Node, es []gast.Expression) *Node {
	for _, e := range es {
		if e == nil {
			gFail("array hole")
		}
		n.Kids = append(n.Kids, c.gExpr(e))
	}
	return n
}

func (c *gconv) gExpr(e gast.Expression) *Node {
	switch e := e.(type) {
	case nil:
		return nil
	case *gast.Identifier:
		return ident(e.Name.String())
	case *gast.NumberLiteral:
		return gNum(e)
	case *gast.StringLiteral:
		return strLit(e.Value.String())
	case *gast.TemplateLiteral:
		if e.Tag != nil || len(e.Expressions) != 0 || len(e.Elements) != 1 {
			gFail(e)
		}
		return leaf("tpl", e.Elements[0].Literal)
	case *gast.BooleanLiteral:
		return leaf("bool", strconv.FormatBool(e.Value))
	case *gast.NullLiteral:
		return leaf("null", "")
	case *gast.BinaryExpression:
		if !gBinOps[e.Operator] {
			gFail("operator " + e.Operator.String())
		}
		if !gRel[e.Operator] {
			return bin(e.Operator.String(), c.gExpr(e.Left), c.gExpr(e.Right))
		}
		// goja parses a < b < c as a < (b < c). Walk down the right spine while the
		// right operand is provably unparenthesised and rebuild left-associatively.
		n := c.gExpr(e.Left)
		for {
			r, ok := e.Right.(*gast.BinaryExpression)
			if !ok || !gRel[r.Operator] || c.parenAfterOp(e.Left.Idx1(), r.Idx0(), e.Operator.String()) {
				return bin(e.Operator.String(), n, c.gExpr(e.Right))
			}
			n = bin(e.Operator.String(), n, c.gExpr(r.Left))
			e = r
		}
	case *gast.UnaryExpression:
		switch e.Operator {
		case gtoken.INCREMENT, gtoken.DECREMENT:
			if e.Postfix {
				return ndOp("post", e.Operator.String(), c.gExpr(e.Operand))
			}
		case gtoken.NOT, gtoken.MINUS:
		default:
			gFail("operator " + e.Operator.String())
		}
		return ndOp("un", e.Operator.String(), c.gExpr(e.Operand))
	case *gast.AssignExpression:
		op := "="
		switch e.Operator {
		case gtoken.ASSIGN:
		case gtoken.PLUS:
			op = "+="
		case gtoken.MINUS:
			op = "-="
		default:
			gFail("assignment operator " + e.Operator.String())
		}
		return ndOp("asg", op, c.gExpr(e.Left), c.gExpr(e.Right))
	case *gast.CallExpression:
		return c.gExprs(nd("call", c.gExpr(e.Callee)), e.ArgumentList)
	case *gast.DotExpression:
		return mem(c.gExpr(e.Left), e.Identifier.Name.String())
	case *gast.BracketExpression:
		return nd("idx", c.gExpr(e.Left), c.gExpr(e.Member))
	case *gast.FunctionLiteral:
		return c.gFunc("fn", e)
	case *gast.ArrayLiteral:
		return c.gExprs(nd("arr"), e.Value)
	case *gast.ObjectLiteral:
		n := nd("obj")
		for _, p := range e.Value {
			kv, ok := p.(*gast.PropertyKeyed)
			if !ok || kv.Kind != gast.PropertyKindValue || kv.Computed {
				gFail(p)
			}
			var key *Node
			switch k := kv.Key.(type) {
			case *gast.StringLiteral:
				// goja turns identifier keys into string literals; the source text tells them apart
				if strings.HasPrefix(k.Literal, `"`) || strings.HasPrefix(k.Literal, "'") {
					key = strLit(k.Value.String())
				} else {
					key = ident(k.Value.String())
				}
			case *gast.NumberLiteral:
				key = gNum(k)
			default:
				gFail(k)
			}
			n.Kids = append(n.Kids, key, c.gExpr(kv.Value))
		}
		return n
	}
	gFail(e)
	return nil
}
