package jsgen

import (
	"math/rand"
	"strconv"
)

// GenOptions bounds the generator.
type GenOptions struct {
	MaxDepth   int  // expression depth (default 4)
	MaxStmts   int  // statements per list (default 5)
	Executable bool // terminating, deterministic, self-contained program that logs through console.log
}

// GenProgram generates one program tree. It is deterministic given r.
func GenProgram(r *rand.Rand, o GenOptions) *Node {
	if o.MaxDepth <= 0 {
		o.MaxDepth = 4
	}
	if o.MaxStmts <= 0 {
		o.MaxStmts = 5
	}
	if o.Executable {
		return genExec(r, o)
	}
	g := &gen{r: r, o: o}
	n := 1 + r.Intn(o.MaxStmts)
	p := nd("prog")
	for i := 0; i < n; i++ {
		p.Kids = append(p.Kids, g.stmt(0, true))
	}
	return p
}

var idPool = []string{"a", "b", "c", "x", "y", "z", "foo", "bar", "baz", "obj", "arr", "i", "j", "n",
	"_", "$", "_tmp", "$el", "a1", "x2", "camelCase", "snake_case", "$$", "__", "undefined", "NaN", "console"}
var propPool = []string{"k", "key", "val", "length", "p", "q", "name", "_a", "$b", "x1", "log", "push"}

const strPunct = " !#%&()*+,-./:;<=>?@[]^_{|}~$"

type gen struct {
	r        *rand.Rand
	o        GenOptions
	seq      int
	declared []string
	fnDepth  int
	size     int // expression nodes generated so far (growth cap)
}

const sizeCap = 350

func pick(r *rand.Rand, xs ...string) string { return xs[r.Intn(len(xs))] }

func (g *gen) fresh(prefix string) *Node {
	g.seq++
	name := prefix + strconv.Itoa(g.seq)
	g.declared = append(g.declared, name)
	return ident(name)
}

func (g *gen) ref() *Node {
	if len(g.declared) > 0 && g.r.Intn(2) == 0 {
		return ident(g.declared[g.r.Intn(len(g.declared))])
	}
	return ident(idPool[g.r.Intn(len(idPool))])
}

func genInt(r *rand.Rand) *Node {
	switch r.Intn(12) {
	case 0:
		return leaf("int", pick(r, "0x", "0X")+strconv.FormatInt(int64(r.Intn(1<<16)), 16))
	case 1:
		return leaf("int", pick(r, "0x", "0X")+pick(r, "fF", "Ab", "DEAD", "c0de", "7fffffff"))
	case 2:
		return leaf("int", pick(r, "0b", "0B")+strconv.FormatInt(int64(r.Intn(64)), 2))
	case 3:
		return leaf("int", pick(r, "0o", "0O")+strconv.FormatInt(int64(r.Intn(512)), 8))
	case 4:
		return leaf("int", pick(r, "2147483647", "2147483648", "4294967296", "9007199254740991", "9007199254740993", "1000000"))
	case 5:
		return leaf("int", "0")
	default:
		return intLit(r.Intn(100))
	}
}

func genFloat(r *rand.Rand) *Node {
	return leaf("float", pick(r, "1.5", "0.25", "10.0", "3.14159", "0.1", "1e3", "2.5e-3", "1E5", "1e+2",
		"7e0", "12.50", "0.5e1", "6.02e23", "1e-7", "123.456e2", "0.0"))
}

func genStrValue(r *rand.Rand) string {
	n := r.Intn(9)
	b := make([]byte, 0, n)
	for i := 0; i < n; i++ {
		switch w := r.Intn(40); {
		case w < 18:
			b = append(b, byte('a'+r.Intn(26)))
		case w < 22:
			b = append(b, byte('A'+r.Intn(26)))
		case w < 26:
			b = append(b, byte('0'+r.Intn(10)))
		case w < 29:
			b = append(b, ' ')
		case w < 31:
			b = append(b, '"')
		case w < 33:
			b = append(b, '\'')
		case w < 34:
			b = append(b, '\\')
		case w < 35:
			b = append(b, '\n')
		case w < 36:
			b = append(b, '\t')
		case w < 37:
			b = append(b, '`')
		default:
			b = append(b, strPunct[r.Intn(len(strPunct))])
		}
	}
	return string(b)
}

func genTplValue(r *rand.Rand) string {
	const punct = " !#%&()*+,-./:;<=>?@[]^_{|}~\"'"
	n := r.Intn(9)
	b := make([]byte, 0, n)
	for i := 0; i < n; i++ {
		switch w := r.Intn(30); {
		case w < 16:
			b = append(b, byte('a'+r.Intn(26)))
		case w < 20:
			b = append(b, byte('0'+r.Intn(10)))
		case w < 23:
			b = append(b, ' ')
		case w < 24:
			b = append(b, '\n')
		case w < 25:
			b = append(b, '\t')
		default:
			b = append(b, punct[r.Intn(len(punct))])
		}
		if r.Intn(14) == 0 {
			// escapes (raw text): an escaped backtick, backslash, dollar sign; a dollar sign that opens nothing
			b = append(b, []string{"\\`", "\\\\", "\\$", "$", "\\n", "\\\\\\`", "\\${", "$ {", "\\\\\\${"}[r.Intn(9)]...)
		}
	}
	// no live substitution: a `{` directly after an unescaped `$` is moved away
	out := make([]byte, 0, len(b)+2)
	esc := false
	for i := 0; i < len(b); i++ {
		out = append(out, b[i])
		if esc {
			esc = false
			continue
		}
		if b[i] == '\\' {
			esc = true
		} else if b[i] == '$' && i+1 < len(b) && b[i+1] == '{' {
			out = append(out, ' ')
		}
	}
	return string(out)
}

func (g *gen) atom() *Node {
	switch w := g.r.Intn(20); {
	case w < 7:
		return g.ref()
	case w < 11:
		return genInt(g.r)
	case w < 13:
		return genFloat(g.r)
	case w < 16:
		return strLit(genStrValue(g.r))
	case w < 17:
		return leaf("tpl", genTplValue(g.r))
	case w < 19:
		return leaf("bool", pick(g.r, "true", "false"))
	}
	return leaf("null", "")
}

var binOps = []string{"||", "&&", "==", "!=", "<", ">", "<=", ">=", "+", "-", "*", "/", "%"}

// lval generates an assignment / update target: identifier or member access.
func (g *gen) lval(d int) *Node {
	if d <= 0 {
		return g.ref()
	}
	switch g.r.Intn(5) {
	case 0, 1:
		return g.ref()
	case 2, 3:
		return mem(g.expr(d-1), propPool[g.r.Intn(len(propPool))])
	}
	return nd("idx", g.expr(d-1), g.expr(d-1))
}

func (g *gen) objKey() *Node {
	switch g.r.Intn(6) {
	case 0:
		return strLit(genStrValue(g.r))
	case 1:
		return genInt(g.r)
	case 2:
		return genFloat(g.r)
	}
	return ident(propPool[g.r.Intn(len(propPool))])
}

func (g *gen) fnExpr(level int) *Node {
	var name *Node
	if g.r.Intn(3) == 0 {
		name = g.fresh("g")
	}
	return g.fnRest("fn", name, level)
}

func (g *gen) fnRest(kind string, name *Node, level int) *Node {
	f := nd(kind, name)
	for i := g.r.Intn(4); i > 0; i-- {
		f.Kids = append(f.Kids, g.fresh("p"))
	}
	g.fnDepth++
	f.Kids = append(f.Kids, g.block(level+1, 0))
	g.fnDepth--
	return f
}

func (g *gen) expr(d int) *Node {
	g.size++
	if d <= 0 || g.size > sizeCap {
		return g.atom()
	}
	r := g.r
	switch w := r.Intn(100); {
	case w < 18:
		return g.atom()
	case w < 40:
		return bin(binOps[r.Intn(len(binOps))], g.expr(d-1), g.expr(d-1))
	case w < 48:
		return ndOp("asg", pick(r, "=", "=", "+=", "-="), g.lval(d-1), g.expr(d-1))
	case w < 56:
		op := pick(r, "!", "-", "-", "++", "--")
		if op == "++" || op == "--" {
			return ndOp("un", op, g.lval(d-1))
		}
		return ndOp("un", op, g.expr(d-1))
	case w < 61:
		return ndOp("post", pick(r, "++", "--"), g.lval(d-1))
	case w < 71:
		c := call(g.expr(d - 1))
		for i := r.Intn(4); i > 0; i-- {
			c.Kids = append(c.Kids, g.expr(d-1))
		}
		return c
	case w < 79:
		return mem(g.expr(d-1), propPool[r.Intn(len(propPool))])
	case w < 85:
		return nd("idx", g.expr(d-1), g.expr(d-1))
	case w < 89:
		return g.fnExpr(2)
	case w < 94:
		a := nd("arr")
		for i := r.Intn(4); i > 0; i-- {
			a.Kids = append(a.Kids, g.expr(d-1))
		}
		return a
	}
	o := nd("obj")
	for i := r.Intn(4); i > 0; i-- {
		o.Kids = append(o.Kids, g.objKey(), g.expr(d-1))
	}
	return o
}

// startExpr generates an expression whose rendering starts with a token that is
// interesting at the start of a statement: ( [ - ++ -- ! ` { function, string.
func (g *gen) startExpr(d int) *Node {
	r := g.r
	var head *Node
	switch r.Intn(9) {
	case 0:
		head = g.fnExpr(2)
	case 1:
		head = nd("obj", g.objKey(), g.expr(d-1))
	case 2:
		head = nd("arr", g.expr(d-1), g.expr(d-1))
	case 3:
		return ndOp("un", "-", g.expr(d-1))
	case 4:
		return ndOp("un", pick(r, "++", "--"), g.lval(d-1))
	case 5:
		head = leaf("tpl", genTplValue(r))
	case 6:
		head = bin(binOps[r.Intn(len(binOps))], g.expr(d-1), g.expr(d-1)) // needs ( ) as callee/object
	case 7:
		head = strLit(genStrValue(r))
	default:
		return ndOp("un", "!", g.expr(d-1))
	}
	switch r.Intn(4) {
	case 0:
		return call(head, g.expr(d-1))
	case 1:
		return mem(head, propPool[r.Intn(len(propPool))])
	case 2:
		return ndOp("asg", "=", nd("idx", head, g.expr(d-1)), g.expr(d-1))
	}
	return head
}

func (g *gen) block(level, min int) *Node {
	b := nd("block")
	n := min + g.r.Intn(g.o.MaxStmts+1-min)
	if level >= 3 && n > 2 {
		n = 2
	}
	for i := 0; i < n; i++ {
		b.Kids = append(b.Kids, g.stmt(level, true))
	}
	return b
}

// body generates the body of if/while/for: a block or a single non-declaration statement.
func (g *gen) body(level int) *Node {
	if g.r.Intn(5) < 2 {
		return g.block(level+1, 0)
	}
	return g.stmt(level+1, false)
}

func (g *gen) stmt(level int, inList bool) *Node {
	r, d := g.r, g.o.MaxDepth
	for {
		w := r.Intn(100)
		if level >= 3 && w >= 48 && w < 90 {
			w = 20 // deep nesting: only simple statements
		}
		switch {
		case w < 18:
			if !inList {
				continue
			}
			var init *Node
			if r.Intn(5) > 0 {
				init = g.expr(d)
			}
			return nd("let", g.fresh("v"), init)
		case w < 38:
			return es(g.expr(d))
		case w < 48:
			return es(g.startExpr(d))
		case w < 60:
			var els *Node
			cond, then := g.expr(d-1), g.body(level)
			if r.Intn(2) == 0 {
				els = g.body(level)
			}
			return mkIf(cond, then, els)
		case w < 66:
			return nd("while", g.expr(d-1), g.body(level))
		case w < 76:
			f := nd("for", nil, nil, nil, nil)
			switch r.Intn(4) {
			case 0:
			case 1:
				f.Kids[0] = g.expr(d - 1)
			default:
				var init *Node
				if r.Intn(4) > 0 {
					init = g.expr(d - 1)
				}
				f.Kids[0] = nd("lete", g.fresh("i"), init)
			}
			if r.Intn(4) > 0 {
				f.Kids[1] = g.expr(d - 1)
			}
			if r.Intn(4) > 0 {
				f.Kids[2] = g.expr(d - 1)
			}
			f.Kids[3] = g.body(level)
			return f
		case w < 81:
			return g.block(level+1, 0)
		case w < 90:
			if !inList {
				continue
			}
			return g.fnRest("fd", g.fresh("f"), level)
		default:
			if g.fnDepth == 0 {
				continue
			}
			if r.Intn(4) == 0 {
				return nd("ret", nil)
			}
			return nd("ret", g.expr(d))
		}
	}
}
