package jsgen

import (
	"math/rand"
	"strings"
)

// Layout options drive the unparser's random choices.
type Layout struct {
	Newlines        bool // line breaks at any gap where ECMAScript allows one without changing the parse
	Comments        bool // // comments (random printable ASCII) in such gaps, always followed by a line break
	ASI             bool // statements separated by a line break instead of ';' where ASI makes that safe
	RedundantParens bool // extra parentheses around sub-expressions
	SingleQuotes    bool // '...' instead of "..." for some string literals
	Compact         bool // minimal spacing where safe
}

// Render unparses the tree. The tree is first turned into a token stream carrying
// layout constraints (restricted productions, ASI line breaks), then laid out.
// Line breaks are LF only.
//
// Two concessions to defects of the goja parser, which serves as the oracle:
// no line break is ever put before a statement's ';' (goja then reports a
// spurious empty statement after let/return), and chains of < > <= >= are left
// unparenthesised only in the shape CanonGoja can repair (see binToks).
func Render(n *Node, r *rand.Rand, l Layout) string {
	p := &rend{r: r, l: l}
	return p.layout(p.top(n))
}

type tok struct {
	s  string
	fl uint16
}

const (
	fNoBreak   uint16 = 1 << iota // no line terminator (hence no comment) may precede this token
	fNeedBreak                    // a line terminator must precede this token (ASI)
	fTight                        // conventionally no space before this token
	fStmtEnd                      // token ends a statement: ';' or '}' of a block / declaration
	fBlockOpen                    // '{' of a block or function body
	fLit                          // string or template literal (opaque text)
)

type rend struct {
	r     *rand.Rand
	l     Layout
	plain bool // fixed layout used by Corruptions: no random choices at all
}

func (p *rend) chance(n int) bool { return !p.plain && p.r.Intn(n) == 0 }

func tight(ts []tok) []tok {
	if len(ts) > 0 {
		ts[0].fl |= fTight
	}
	return ts
}

func (p *rend) top(n *Node) []tok {
	switch n.Kind {
	case "prog":
		return p.list(n.Kids, follow{kind: folEOF})
	case "let", "fd", "ret", "if", "while", "for", "block", "es":
		ts, _ := p.stmt(n, follow{kind: folEOF})
		return ts
	}
	return p.expr(n, 0, false)
}

// ---------- expressions ----------

var binPrec = map[string]int{"||": 2, "&&": 3, "==": 4, "!=": 4, "<": 5, ">": 5, "<=": 5, ">=": 5,
	"+": 6, "-": 6, "*": 7, "/": 7, "%": 7}

func prec(n *Node) int {
	switch n.Kind {
	case "asg", "lete":
		return 1
	case "bin":
		return binPrec[n.Op]
	case "un":
		return 8
	case "post":
		return 9
	case "call", "mem", "idx":
		return 10
	}
	return 11
}

// leftmost returns the node whose first token starts the rendering of n
// (ignoring parentheses that precedence may force).
func leftmost(n *Node) *Node {
	for {
		switch n.Kind {
		case "bin", "asg", "post", "call", "mem", "idx":
			n = n.Kids[0]
		default:
			return n
		}
	}
}

func paren(ts []tok) []tok {
	out := make([]tok, 0, len(ts)+2)
	out = append(out, tok{s: "("})
	out = append(out, tight(ts)...)
	return append(out, tok{s: ")", fl: fTight})
}

// expr renders n where an operand of precedence >= min is required. edge is true
// while n sits at the left edge of an expression statement, where the text must
// not begin with '{' or 'function'.
func (p *rend) expr(n *Node, min int, edge bool) []tok {
	if n.Kind == "lete" {
		return p.letToks(n) // a declaration: can never be parenthesised
	}
	wrap := prec(n) < min
	if !wrap && edge && (n.Kind == "obj" || n.Kind == "fn") {
		wrap = true
	}
	if !wrap && p.l.RedundantParens && p.chance(7) {
		wrap = true
	}
	if wrap {
		inner := p.expr1(n, false)
		if p.l.RedundantParens && p.chance(6) {
			inner = paren(inner)
		}
		return paren(inner)
	}
	return p.expr1(n, edge)
}

func (p *rend) commaList(kids []*Node) []tok {
	var ts []tok
	for i, k := range kids {
		if i > 0 {
			ts = append(ts, tok{s: ",", fl: fTight})
			ts = append(ts, p.expr(k, 1, false)...)
		} else {
			ts = append(ts, tight(p.expr(k, 1, false))...)
		}
	}
	return ts
}

func (p *rend) expr1(n *Node, edge bool) []tok {
	switch n.Kind {
	case "id", "int", "float", "bool":
		return []tok{{s: n.Text}}
	case "null":
		return []tok{{s: "null"}}
	case "str":
		return []tok{{s: p.strLit(n.Text), fl: fLit}}
	case "tpl":
		return []tok{{s: "`" + n.Text + "`", fl: fLit}}
	case "bin":
		ts, _ := p.binToks(n, edge)
		return ts
	case "asg":
		ts := p.expr(n.Kids[0], 10, edge)
		ts = append(ts, tok{s: n.Op})
		return append(ts, p.expr(n.Kids[1], 1, false)...)
	case "un":
		min := 8
		if n.Op == "++" || n.Op == "--" {
			min = 10
		}
		return append([]tok{{s: n.Op}}, tight(p.expr(n.Kids[0], min, false))...)
	case "post":
		ts := p.expr(n.Kids[0], 10, edge)
		return append(ts, tok{s: n.Op, fl: fTight | fNoBreak})
	case "call":
		ts := p.expr(n.Kids[0], 10, edge)
		ts = append(ts, tok{s: "(", fl: fTight})
		ts = append(ts, p.commaList(n.Kids[1:])...)
		return append(ts, tok{s: ")", fl: fTight})
	case "mem":
		var ts []tok
		if k := n.Kids[0].Kind; k == "int" || k == "float" {
			ts = paren(p.expr1(n.Kids[0], false)) // 1.x would lex as a number
		} else {
			ts = p.expr(n.Kids[0], 10, edge)
		}
		return append(ts, tok{s: ".", fl: fTight}, tok{s: n.Kids[1].Text, fl: fTight})
	case "idx":
		ts := p.expr(n.Kids[0], 10, edge)
		ts = append(ts, tok{s: "[", fl: fTight})
		ts = append(ts, tight(p.expr(n.Kids[1], 1, false))...)
		return append(ts, tok{s: "]", fl: fTight})
	case "arr":
		ts := []tok{{s: "["}}
		ts = append(ts, p.commaList(n.Kids)...)
		return append(ts, tok{s: "]", fl: fTight})
	case "obj":
		ts := []tok{{s: "{"}}
		for i := 0; i+1 < len(n.Kids); i += 2 {
			if i > 0 {
				ts = append(ts, tok{s: ",", fl: fTight})
			}
			k := n.Kids[i]
			if k.Kind == "str" {
				ts = append(ts, tok{s: p.strLit(k.Text), fl: fLit})
			} else {
				ts = append(ts, tok{s: k.Text})
			}
			ts = append(ts, tok{s: ":", fl: fTight})
			ts = append(ts, p.expr(n.Kids[i+1], 1, false)...)
		}
		return append(ts, tok{s: "}"})
	case "fn":
		return p.fun(n, false)
	case "lete":
		return p.letToks(n)
	}
	panic("jsgen: cannot render expression kind " + n.Kind)
}

func isRel(n *Node) bool { return n.Kind == "bin" && binPrec[n.Op] == 5 }

// binToks renders a binary expression; rparen reports that the right operand's
// text starts with '('.
//
// goja's parser associates chains of < > <= >= to the right (a defect: a < b < c
// becomes a < (b < c)). CanonGoja repairs such a tree only when it can prove from
// the source that the right operand was not parenthesised, i.e. when no '(' stands
// between the first operator and the middle operand. So a left-nested relational
// operand stays unparenthesised (a chain) only if its own right operand does not
// start with '('; otherwise it is wrapped as a whole.
func (p *rend) binToks(n *Node, edge bool) (ts []tok, rparen bool) {
	pr := binPrec[n.Op]
	if l := n.Kids[0]; pr == 5 && isRel(l) {
		lt, rp := p.binToks(l, edge)
		if rp || p.l.RedundantParens && p.chance(5) {
			lt = paren(lt)
		}
		ts = lt
	} else {
		ts = p.expr(l, pr, edge)
	}
	ts = append(ts, tok{s: n.Op})
	rt := p.expr(n.Kids[1], pr+1, false)
	return append(ts, rt...), rt[0].s == "("
}

func (p *rend) letToks(n *Node) []tok {
	ts := []tok{{s: "let"}, {s: n.Kids[0].Text}}
	if n.Kids[1] != nil {
		ts = append(ts, tok{s: "="})
		ts = append(ts, p.expr(n.Kids[1], 1, false)...)
	}
	return ts
}

func (p *rend) fun(n *Node, decl bool) []tok {
	ts := []tok{{s: "function"}}
	if n.Kids[0] != nil {
		ts = append(ts, tok{s: n.Kids[0].Text})
	}
	ts = append(ts, tok{s: "(", fl: fTight})
	for i, prm := range n.Kids[1 : len(n.Kids)-1] {
		if i > 0 {
			ts = append(ts, tok{s: ",", fl: fTight}, tok{s: prm.Text})
		} else {
			ts = append(ts, tok{s: prm.Text, fl: fTight})
		}
	}
	ts = append(ts, tok{s: ")", fl: fTight})
	return append(ts, p.braces(n.Kids[len(n.Kids)-1].Kids, decl)...)
}

func (p *rend) braces(stmts []*Node, isStmt bool) []tok {
	ts := []tok{{s: "{", fl: fBlockOpen}}
	ts = append(ts, p.list(stmts, follow{kind: folRBrace})...)
	end := tok{s: "}"}
	if isStmt {
		end.fl = fStmtEnd
	}
	return append(ts, end)
}

func (p *rend) strLit(v string) string {
	q, other := byte('"'), byte('\'')
	if p.l.SingleQuotes && p.chance(2) {
		q, other = other, q
	}
	var b strings.Builder
	b.WriteByte(q)
	for i := 0; i < len(v); i++ {
		switch c := v[i]; {
		case c == '\\':
			b.WriteString(`\\`)
		case c == '\n':
			b.WriteString(`\n`)
		case c == '\t':
			b.WriteString(`\t`)
		case c == q, c == other && p.chance(4):
			b.WriteByte('\\')
			b.WriteByte(c)
		default:
			b.WriteByte(c)
		}
	}
	b.WriteByte(q)
	return b.String()
}

// ---------- statements ----------

const (
	folEOF = iota
	folRBrace
	folElse
	folStmt
)

// follow describes what comes after a statement; it decides whether its ';' can
// be left to automatic semicolon insertion.
type follow struct {
	kind  int
	first string // folStmt: first token of the next statement
}

// list renders a statement list back to front, so that each statement knows the
// first token of its successor.
func (p *rend) list(ss []*Node, f follow) []tok {
	parts := make([][]tok, len(ss))
	brk := make([]bool, len(ss))
	for i := len(ss) - 1; i >= 0; i-- {
		parts[i], brk[i] = p.stmt(ss[i], f)
		f = follow{kind: folStmt, first: parts[i][0].s}
	}
	var ts []tok
	for i := range parts {
		if i > 0 && brk[i-1] {
			parts[i][0].fl |= fNeedBreak
		}
		ts = append(ts, parts[i]...)
	}
	return ts
}

// term renders the end of a simple statement. brk reports that the ';' was
// omitted and the next token must be preceded by a line break.
func (p *rend) term(f follow) (ts []tok, brk bool) {
	semi := []tok{{s: ";", fl: fTight | fNoBreak | fStmtEnd}}
	if !p.l.ASI || !p.chance(2) {
		return semi, false
	}
	switch f.kind {
	case folEOF, folRBrace:
		return nil, false
	case folElse:
		return nil, true
	}
	if strings.IndexByte("([+-/`", f.first[0]) >= 0 {
		return semi, false
	}
	return nil, true
}

// stmt renders one statement. brk: the statement's final ';' was left to ASI and
// a line break must follow.
func (p *rend) stmt(n *Node, f follow) (ts []tok, brk bool) {
	switch n.Kind {
	case "let":
		ts = p.letToks(n)
	case "es":
		e := n.Kids[0]
		if k := leftmost(e).Kind; (k == "obj" || k == "fn") && p.chance(2) {
			ts = paren(p.expr1(e, false))
		} else {
			ts = p.expr(e, 0, true)
		}
	case "ret":
		ts = []tok{{s: "return"}}
		if n.Kids[0] != nil {
			op := p.expr(n.Kids[0], 0, false)
			op[0].fl |= fNoBreak
			ts = append(ts, op...)
		}
	case "fd":
		return p.fun(n, true), false
	case "block":
		return p.braces(n.Kids, true), false
	case "if":
		ts = append([]tok{{s: "if"}}, paren(p.expr(n.Kids[0], 0, false))...)
		if n.Kids[2] == nil {
			body, b := p.stmt(n.Kids[1], f)
			return append(ts, body...), b
		}
		els, b := p.stmt(n.Kids[2], f)
		body, b1 := p.stmt(n.Kids[1], follow{kind: folElse})
		ts = append(ts, body...)
		kw := tok{s: "else"}
		if b1 {
			kw.fl = fNeedBreak
		}
		return append(append(ts, kw), els...), b
	case "while":
		ts = append([]tok{{s: "while"}}, paren(p.expr(n.Kids[0], 0, false))...)
		body, b := p.stmt(n.Kids[1], f)
		return append(ts, body...), b
	case "for":
		var hd []tok
		for i := 0; i < 3; i++ {
			if i > 0 {
				hd = append(hd, tok{s: ";", fl: fTight})
			}
			if n.Kids[i] != nil {
				hd = append(hd, p.expr(n.Kids[i], 0, false)...)
			}
		}
		ts = append([]tok{{s: "for"}}, paren(hd)...)
		body, b := p.stmt(n.Kids[3], f)
		return append(ts, body...), b
	default:
		panic("jsgen: cannot render statement kind " + n.Kind)
	}
	t, b := p.term(f)
	return append(ts, t...), b
}

// ---------- layout ----------

func isWordByte(c byte) bool {
	return c == '_' || c == '$' || '0' <= c && c <= '9' || 'a' <= c && c <= 'z' || 'A' <= c && c <= 'Z'
}

// needSpace reports whether writing b directly after a would fuse or re-split tokens.
func needSpace(a, b string) bool {
	if a == "" || b == "" {
		return false
	}
	x, y := a[len(a)-1], b[0]
	switch {
	case isWordByte(x) && isWordByte(y):
		return true
	case x == '+' && y == '+', x == '-' && y == '-', x == '/' && y == '/':
		return true
	case x == '<' && y == '!', x == '-' && y == '>': // <!-- and --> comment openers
		return true
	}
	return false
}

func (p *rend) comment() string {
	n := p.r.Intn(16)
	b := make([]byte, n)
	for i := range b {
		b[i] = byte(0x20 + p.r.Intn(0x7f-0x20))
	}
	return "//" + string(b) + "\n"
}

func (p *rend) indent() string {
	return pick(p.r, "", "", "  ", "    ", "\t", " ")
}

func (p *rend) gap(prev, cur tok) string {
	canBreak := cur.fl&fNoBreak == 0
	afterStmt := prev.fl&(fStmtEnd|fBlockOpen) != 0
	if canBreak && p.l.Comments && p.chance(14) {
		return " " + p.comment() + p.indent()
	}
	if cur.fl&fNeedBreak != 0 {
		return "\n" + p.indent()
	}
	if canBreak && p.l.Newlines && p.chance(9) {
		return pick(p.r, "\n", "\n", "\n\n", " \n") + p.indent()
	}
	need := needSpace(prev.s, cur.s)
	if p.plain {
		if afterStmt {
			return "\n"
		}
		if need || cur.fl&fTight == 0 {
			return " "
		}
		return ""
	}
	if p.l.Compact {
		if need {
			return " "
		}
		return ""
	}
	if afterStmt && canBreak && !p.chance(6) {
		return "\n" + p.indent()
	}
	sp := cur.fl&fTight == 0
	if p.chance(12) {
		sp = !sp
	}
	if need || sp {
		return pick(p.r, " ", " ", " ", " ", "  ", "\t")
	}
	return ""
}

func (p *rend) layout(ts []tok) string {
	var b strings.Builder
	if p.l.Comments && p.chance(5) {
		b.WriteString(p.comment())
	} else if p.l.Newlines && p.chance(8) {
		b.WriteString("\n")
	}
	for i := range ts {
		if i > 0 {
			b.WriteString(p.gap(ts[i-1], ts[i]))
		}
		b.WriteString(ts[i].s)
	}
	if p.l.Comments && p.chance(4) {
		b.WriteString(" " + p.comment())
	} else if p.plain || !p.l.Compact || p.chance(2) {
		b.WriteString("\n")
	}
	return b.String()
}
