package jsgen

import (
	"math"
	"math/rand"
	"strconv"
)

// Executable-mode generator.
//
// Safety discipline (keeps programs terminating, exception-free and small in memory):
//   - every declared name is unique and is referenced only after its declaration;
//   - variables have a static kind. vN always holds a number (only "numeric"
//     expressions are assigned to it), vA holds any data value, vArr/vObj hold an
//     array/object of data and are never reassigned as a whole, function-valued
//     kinds are only ever called, never read as data (so never logged);
//   - member access happens only on vArr/vObj variables and on literals, so no
//     TypeError on null/undefined;
//   - loops run over a protected numeric counter with a small constant bound;
//   - recursion only through a protected counter parameter that is called with a
//     small literal from outside and with n - 1 from inside;
//   - string growth has no feedback: a vA variable is assigned only expressions
//     over vA variables declared before it, "x += e" and element stores take only
//     "short" expressions (no vA reads, no element reads, no calls), and nested
//     functions do not read outer vA variables;
//   - an estimated dynamic cost bounds calls inside loops.

const (
	vN = iota
	vA
	vArr
	vObj
	vFn   // plain function: name(args)
	vRec  // recursive function: name(smallInt, arg)
	vFobj // object of functions: name.key(args)
	vFarr // array of functions: name[i](args)
)

type xvar struct {
	name       string
	kind       int
	order      int
	fdepth     int
	prot       bool
	fnAssigned bool // assigned from inside a nested function
	arity      int  // params (vFn), element count (vArr, vFarr)
	keys       []string
	cost       float64
}

type ctx struct {
	maxOrder int  // vA variables must have order < maxOrder
	short    bool // no vA reads, no element reads, no calls
}

var anyCtx = ctx{maxOrder: math.MaxInt}

type xgen struct {
	r      *rand.Rand
	o      GenOptions
	seq    int
	scopes [][]*xvar
	fdepth int
	cost   float64 // estimated dynamic cost of the function body being generated
	mult   float64 // product of enclosing loop trip counts in that body
	budget float64
	size   int
}

var keyPool = []string{"k", "key", "val", "p", "q", "name", "_a", "$b", "n1"}

func genExec(r *rand.Rand, o GenOptions) *Node {
	g := &xgen{r: r, o: o, mult: 1, budget: 3000}
	g.push()
	p := nd("prog")
	n := 3 + r.Intn(o.MaxStmts+2)
	for i := 0; i < n; i++ {
		p.Kids = append(p.Kids, g.stmt(0)...)
	}
	p.Kids = append(p.Kids, g.logStmt())
	if r.Intn(10) == 0 {
		p.Kids = append(p.Kids, g.thrower())
	}
	return p
}

func (g *xgen) push() { g.scopes = append(g.scopes, nil) }
func (g *xgen) pop()  { g.scopes = g.scopes[:len(g.scopes)-1] }

func (g *xgen) declare(kind int, prefix string) *xvar {
	g.seq++
	v := &xvar{name: prefix + strconv.Itoa(g.seq), kind: kind, order: g.seq, fdepth: g.fdepth}
	top := len(g.scopes) - 1
	g.scopes[top] = append(g.scopes[top], v)
	return v
}

func (g *xgen) pickVar(ok func(*xvar) bool) *xvar {
	var c []*xvar
	for _, s := range g.scopes {
		for _, v := range s {
			if ok(v) {
				c = append(c, v)
			}
		}
	}
	if len(c) == 0 {
		return nil
	}
	return c[g.r.Intn(len(c))]
}

func (g *xgen) kindVar(kinds ...int) *xvar {
	return g.pickVar(func(v *xvar) bool {
		for _, k := range kinds {
			if v.kind == k {
				return true
			}
		}
		return false
	})
}

// readableA picks a vA variable that may be read under c.
func (g *xgen) readableA(c ctx) *xvar {
	if c.short {
		return nil
	}
	return g.pickVar(func(v *xvar) bool { return v.kind == vA && v.fdepth == g.fdepth && v.order < c.maxOrder })
}

func (g *xgen) literal() *Node {
	r := g.r
	switch w := r.Intn(20); {
	case w < 7:
		return intLit(r.Intn(20))
	case w < 8:
		return genInt(r)
	case w < 10:
		return genFloat(r)
	case w < 14:
		return strLit(genStrValue(r))
	case w < 15:
		return leaf("tpl", genTplValue(r))
	case w < 17:
		return leaf("bool", pick(r, "true", "false"))
	case w < 18:
		return leaf("null", "")
	case w < 19:
		return ident("undefined")
	}
	return strLit(strconv.Itoa(r.Intn(50))) // numeric string: exercises coercions
}

func (g *xgen) leaf(c ctx) *Node {
	switch g.r.Intn(6) {
	case 0, 1:
		if v := g.kindVar(vN); v != nil {
			return ident(v.name)
		}
	case 2, 3:
		if v := g.readableA(c); v != nil {
			return ident(v.name)
		}
	case 4:
		if !c.short && g.r.Intn(3) == 0 {
			if v := g.kindVar(vArr, vObj); v != nil {
				return ident(v.name)
			}
		}
	}
	return g.literal()
}

// elemRef builds arr[i] / obj.k / obj["k"]. For stores the index stays within a
// small literal range or is a protected loop counter.
func (g *xgen) elemRef(v *xvar, store bool) *Node {
	if v.kind == vObj {
		k := keyPool[g.r.Intn(len(keyPool))]
		if len(v.keys) > 0 && g.r.Intn(4) > 0 {
			k = v.keys[g.r.Intn(len(v.keys))]
		}
		if k[0] >= '0' && k[0] <= '9' { // numeric key: obj[4] or obj["4"]
			if g.r.Intn(2) == 0 {
				return nd("idx", ident(v.name), leaf("int", k))
			}
			return nd("idx", ident(v.name), strLit(k))
		}
		if g.r.Intn(3) == 0 {
			return nd("idx", ident(v.name), strLit(k))
		}
		return mem(ident(v.name), k)
	}
	var i *Node
	switch g.r.Intn(4) {
	case 0:
		if c := g.pickVar(func(v *xvar) bool { return v.kind == vN && v.prot }); c != nil {
			i = ident(c.name)
		}
	case 1:
		if !store {
			i = g.num(1, ctx{short: true})
		}
	}
	if i == nil {
		i = intLit(g.r.Intn(v.arity + 2))
	}
	return nd("idx", ident(v.name), i)
}

// assignable numeric target usable in ++/--/+=: unprotected vN, or an element.
func (g *xgen) numTarget() *Node {
	if g.r.Intn(3) == 0 {
		if v := g.kindVar(vArr, vObj); v != nil {
			return g.elemRef(v, true)
		}
	}
	v := g.pickVar(func(v *xvar) bool { return v.kind == vN && !v.prot })
	if v == nil {
		return nil
	}
	if v.fdepth < g.fdepth {
		v.fnAssigned = true
	}
	return ident(v.name)
}

// num generates an expression that always evaluates to a number.
func (g *xgen) num(d int, c ctx) *Node {
	r := g.r
	g.size++
	if d <= 0 || g.size > sizeCap {
		if v := g.kindVar(vN); v != nil && r.Intn(2) == 0 {
			return ident(v.name)
		}
		return intLit(r.Intn(20))
	}
	switch w := r.Intn(20); {
	case w < 3:
		return g.num(0, c)
	case w < 5:
		if r.Intn(2) == 0 {
			return genFloat(r)
		}
		return genInt(r)
	case w < 10:
		return bin(pick(r, "-", "*", "/", "%"), g.data(d-1, c), g.data(d-1, c))
	case w < 13:
		return bin("+", g.num(d-1, c), g.num(d-1, c))
	case w < 15:
		return ndOp("un", "-", g.data(d-1, c))
	case w < 17:
		if t := g.numTarget(); t != nil {
			if r.Intn(2) == 0 {
				return ndOp("post", pick(r, "++", "--"), t)
			}
			return ndOp("un", pick(r, "++", "--"), t)
		}
	case w < 18:
		if v := g.kindVar(vArr); v != nil {
			return mem(ident(v.name), "length")
		}
		return mem(strLit(genStrValue(r)), "length")
	case w < 19:
		if v := g.pickVar(func(v *xvar) bool { return v.kind == vN && !v.prot }); v != nil {
			if v.fdepth < g.fdepth {
				v.fnAssigned = true
			}
			return ndOp("asg", pick(r, "=", "+=", "-="), ident(v.name), g.num(d-1, c))
		}
	}
	return bin(pick(r, "-", "*"), g.num(d-1, c), g.num(d-1, c))
}

// data generates an expression evaluating to a data value (never a function).
func (g *xgen) data(d int, c ctx) *Node {
	r := g.r
	g.size++
	if d <= 0 || g.size > sizeCap {
		return g.leaf(c)
	}
	switch w := r.Intn(100); {
	case w < 20:
		return g.leaf(c)
	case w < 38:
		return g.num(d, c)
	case w < 60:
		op := pick(r, "+", "+", "+", "||", "&&", "==", "!=", "<", ">", "<=", ">=")
		l := g.data(d-1, c)
		if binPrec[op] == 5 && isRel(l) {
			// a < b < c is evaluated wrongly by goja (it parses a < (b < c)); keep
			// behavioural oracles trustworthy by not generating such chains
			op = pick(r, "==", "!=")
		}
		return bin(op, l, g.data(d-1, c))
	case w < 65:
		return ndOp("un", "!", g.data(d-1, c))
	case w < 80:
		if !c.short {
			return g.callExpr(d, c)
		}
	case w < 88:
		if !c.short {
			if v := g.kindVar(vArr, vObj); v != nil {
				return g.elemRef(v, false)
			}
		}
		switch r.Intn(3) { // member access on a literal
		case 0:
			return nd("idx", nd("arr", g.literal(), g.literal(), g.literal()), intLit(r.Intn(4)))
		case 1:
			return nd("idx", strLit(genStrValue(r)), intLit(r.Intn(4)))
		}
		k := keyPool[r.Intn(len(keyPool))]
		return mem(nd("obj", ident(k), g.data(d-1, c)), k)
	case w < 94:
		a := nd("arr")
		for i := r.Intn(4); i > 0; i-- {
			a.Kids = append(a.Kids, g.data(d-1, c))
		}
		return a
	default:
		o, _ := g.objLit(d, c)
		return o
	}
	return g.leaf(c)
}

func (g *xgen) objLit(d int, c ctx) (*Node, []string) {
	o := nd("obj")
	var keys []string
	for i := g.r.Intn(4); i > 0; i-- {
		k := keyPool[g.r.Intn(len(keyPool))]
		var kn *Node
		switch g.r.Intn(5) {
		case 0:
			kn = strLit(k)
		case 1:
			k = strconv.Itoa(g.r.Intn(5))
			kn = leaf("int", k)
		default:
			kn = ident(k)
		}
		keys = append(keys, k)
		o.Kids = append(o.Kids, kn, g.data(d-1, c))
	}
	return o, keys
}

func (g *xgen) args(n, d int, c ctx) []*Node {
	var as []*Node
	for i := 0; i < n; i++ {
		as = append(as, g.data(d-1, c))
	}
	return as
}

// callExpr generates a call of a known function, or an immediately invoked
// function expression when none is affordable.
func (g *xgen) callExpr(d int, c ctx) *Node {
	v := g.kindVar(vFn, vRec, vFobj, vFarr)
	if v == nil || g.cost+g.mult*v.cost > g.budget || g.r.Intn(8) == 0 {
		if g.fdepth >= 2 || g.mult > 9 || v == nil && g.r.Intn(2) == 0 {
			return g.leaf(c)
		}
		f, fc := g.function("fn", nil, g.r.Intn(3), false)
		g.cost += g.mult * fc
		return call(f, g.args(g.r.Intn(3), d, c)...)
	}
	g.cost += g.mult * v.cost
	nargs := v.arity
	if g.r.Intn(5) == 0 {
		nargs = g.r.Intn(4) // deliberately too few / too many arguments
	}
	switch v.kind {
	case vRec:
		return call(ident(v.name), append([]*Node{intLit(g.r.Intn(4))}, g.args(1, d, c)...)...)
	case vFobj:
		return call(mem(ident(v.name), v.keys[g.r.Intn(len(v.keys))]), g.args(nargs, d, c)...)
	case vFarr:
		return call(nd("idx", ident(v.name), intLit(g.r.Intn(v.arity))), g.args(g.r.Intn(3), d, c)...)
	}
	return call(ident(v.name), g.args(nargs, d, c)...)
}

// function generates a function declaration / expression with nparams data
// parameters. For rec the first parameter is a protected counter and the body
// follows the bounded recursion template; self is then the function's own name.
func (g *xgen) function(kind string, self *Node, nparams int, rec bool) (*Node, float64) {
	saveCost, saveMult := g.cost, g.mult
	g.cost, g.mult = 0, 1
	g.fdepth++
	g.push()
	f := nd(kind, self)
	if kind == "fn" && self == nil && g.r.Intn(4) == 0 {
		g.seq++
		f.Kids[0] = ident("g" + strconv.Itoa(g.seq))
	}
	var counter *xvar
	if rec {
		counter = g.declare(vN, "n")
		counter.prot = true
		f.Kids = append(f.Kids, ident(counter.name))
	}
	for i := 0; i < nparams; i++ {
		f.Kids = append(f.Kids, ident(g.declare(vA, "p").name))
	}
	body := nd("block")
	d := g.o.MaxDepth
	if rec {
		guard := pick(g.r, "!>", "<=", "<1")
		var cond *Node
		switch guard {
		case "!>":
			cond = ndOp("un", "!", bin(">", ident(counter.name), intLit(0)))
		case "<=":
			cond = bin("<=", ident(counter.name), intLit(0))
		default:
			cond = bin("<", ident(counter.name), intLit(1))
		}
		body.Kids = append(body.Kids, nd("if", cond, nd("ret", g.data(d-2, anyCtx)), nil))
	}
	for i := g.r.Intn(g.o.MaxStmts + 1); i > 0; i-- {
		body.Kids = append(body.Kids, g.stmt(1)...)
	}
	if rec {
		inner := call(ident(self.Text), bin("-", ident(counter.name), intLit(1)), g.data(d-2, anyCtx))
		switch g.r.Intn(3) {
		case 0:
			body.Kids = append(body.Kids, nd("ret", inner))
		case 1:
			body.Kids = append(body.Kids, nd("ret", bin(pick(g.r, "+", "*", "-"), inner, g.data(d-2, anyCtx))))
		default:
			t := g.declare(vA, "t")
			body.Kids = append(body.Kids, nd("let", ident(t.name), inner), g.logStmt(),
				nd("ret", bin("+", ident(t.name), g.literal())))
		}
	} else if g.r.Intn(6) > 0 {
		body.Kids = append(body.Kids, nd("ret", g.data(d-1, anyCtx)))
	}
	f.Kids = append(f.Kids, body)
	cost := g.cost + 2
	if rec {
		cost *= 5
	}
	g.pop()
	g.fdepth--
	g.cost, g.mult = saveCost, saveMult
	return f, cost
}

func (g *xgen) logStmt() *Node {
	c := call(mem(ident("console"), "log"))
	for i := 1 + g.r.Intn(3); i > 0; i-- {
		c.Kids = append(c.Kids, g.data(g.o.MaxDepth-1, anyCtx))
	}
	return es(c)
}

func (g *xgen) thrower() *Node {
	g.seq++
	und := "undeclared" + strconv.Itoa(g.seq)
	switch g.r.Intn(6) {
	case 0:
		return es(mem(leaf("null", ""), "x"))
	case 1:
		return es(call(ident(und), g.literal()))
	case 2:
		return es(mem(ident("undefined"), "foo"))
	case 3:
		return es(ident(und))
	case 4:
		return es(call(mem(ident("console"), "log"), call(intLit(1))))
	}
	return nd("let", ident("z"+strconv.Itoa(g.seq)), call(mem(nd("obj"), "nope"), intLit(1)))
}

// body wraps statements as the body of if/while/for: a block, or the statement
// itself when it is a single expression statement.
func (g *xgen) body(level int, n int, tail ...*Node) *Node {
	g.push()
	var ss []*Node
	for i := 0; i < n; i++ {
		ss = append(ss, g.stmt(level+1)...)
	}
	g.pop()
	ss = append(ss, tail...)
	if len(ss) == 1 && ss[0].Kind != "let" && ss[0].Kind != "fd" && g.r.Intn(2) == 0 {
		return ss[0]
	}
	return nd("block", ss...)
}

func (g *xgen) assignStmt() *Node {
	r, d := g.r, g.o.MaxDepth
	switch r.Intn(5) {
	case 0, 1: // numeric variable or element
		if t := g.numTarget(); t != nil {
			switch r.Intn(4) {
			case 0:
				return es(ndOp("post", pick(r, "++", "--"), t))
			case 1:
				return es(ndOp("un", pick(r, "++", "--"), t))
			case 2:
				return es(ndOp("asg", "-=", t, g.data(d-1, ctx{short: true})))
			}
			return es(ndOp("asg", pick(r, "=", "+="), t, g.num(d-1, ctx{short: true})))
		}
	case 2: // data variable: expression over earlier variables, or short append
		if v := g.pickVar(func(v *xvar) bool { return v.kind == vA && v.fdepth == g.fdepth }); v != nil {
			if r.Intn(3) == 0 {
				return es(ndOp("asg", "+=", ident(v.name), g.data(d-1, ctx{short: true})))
			}
			return es(ndOp("asg", "=", ident(v.name), g.data(d-1, ctx{maxOrder: v.order})))
		}
	case 3: // element store
		if v := g.kindVar(vArr, vObj); v != nil {
			return es(ndOp("asg", pick(r, "=", "=", "+="), g.elemRef(v, true), g.data(d-1, ctx{short: true})))
		}
	}
	return g.logStmt()
}

func (g *xgen) stmt(level int) []*Node {
	r, d := g.r, g.o.MaxDepth
	g.cost += g.mult
	w := r.Intn(100)
	if level >= 3 && w >= 60 {
		w = r.Intn(60)
	}
	one := func(n *Node) []*Node { return []*Node{n} }
	switch {
	case w < 20:
		return one(g.logStmt())
	case w < 28:
		init := g.num(d-1, anyCtx)
		return one(nd("let", ident(g.declare(vN, "n").name), init))
	case w < 36:
		var init *Node
		if r.Intn(6) > 0 {
			init = g.data(d, anyCtx)
		}
		return one(nd("let", ident(g.declare(vA, "x").name), init))
	case w < 41:
		a := nd("arr", g.args(1+r.Intn(4), d, anyCtx)...)
		v := g.declare(vArr, "arr")
		v.arity = len(a.Kids)
		return one(nd("let", ident(v.name), a))
	case w < 46:
		o, keys := g.objLit(d, anyCtx)
		v := g.declare(vObj, "obj")
		v.keys = keys
		return one(nd("let", ident(v.name), o))
	case w < 60:
		return one(g.assignStmt())
	case w < 68: // if
		cond := g.data(d-1, anyCtx)
		then := g.body(level, 1+r.Intn(2))
		var els *Node
		if r.Intn(2) == 0 {
			els = g.body(level, 1+r.Intn(2))
		}
		return one(mkIf(cond, then, els))
	case w < 76: // for
		if g.mult > 9 {
			return one(g.logStmt())
		}
		return g.forStmt(level)
	case w < 81: // while
		if g.mult > 9 {
			return one(g.logStmt())
		}
		return g.whileStmt(level)
	case w < 84:
		g.push()
		b := nd("block")
		for i := 1 + r.Intn(g.o.MaxStmts); i > 0; i-- {
			b.Kids = append(b.Kids, g.stmt(level+1)...)
		}
		g.pop()
		return one(b)
	case w < 94: // function-valued declarations
		if g.fdepth >= 2 {
			return one(g.logStmt())
		}
		return one(g.funcStmt())
	case w < 97:
		if g.fdepth > 0 {
			ret := nd("ret", g.data(d-1, anyCtx))
			if r.Intn(4) == 0 {
				ret.Kids[0] = nil
			}
			return one(nd("if", g.data(d-1, anyCtx), ret, nil))
		}
		fallthrough
	default: // bare expression statement (value discarded)
		return one(es(g.data(d, anyCtx)))
	}
}

func (g *xgen) funcStmt() *Node {
	r := g.r
	switch r.Intn(6) {
	case 0: // recursive declaration
		g.seq++
		name := ident("rec" + strconv.Itoa(g.seq))
		f, cost := g.function("fd", name, 1, true)
		v := g.declare(vRec, "")
		v.name, v.cost = name.Text, cost
		return f
	case 1: // function expression bound by let
		np := r.Intn(3)
		f, cost := g.function("fn", nil, np, false)
		v := g.declare(vFn, "fe")
		v.arity, v.cost = np, cost
		return nd("let", ident(v.name), f)
	case 2: // object of functions
		o := nd("obj")
		var keys []string
		var cost float64
		np := r.Intn(3)
		for i := 1 + r.Intn(2); i > 0; i-- {
			k := keyPool[r.Intn(len(keyPool))] + strconv.Itoa(i)
			f, c := g.function("fn", nil, np, false)
			cost = math.Max(cost, c)
			keys = append(keys, k)
			o.Kids = append(o.Kids, ident(k), f)
		}
		v := g.declare(vFobj, "m")
		v.keys, v.arity, v.cost = keys, np, cost
		return nd("let", ident(v.name), o)
	case 3: // array of functions
		a := nd("arr")
		var cost float64
		for i := 1 + r.Intn(2); i > 0; i-- {
			f, c := g.function("fn", nil, r.Intn(3), false)
			cost = math.Max(cost, c)
			a.Kids = append(a.Kids, f)
		}
		v := g.declare(vFarr, "fs")
		v.arity, v.cost = len(a.Kids), cost
		return nd("let", ident(v.name), a)
	}
	np := r.Intn(4)
	g.seq++
	name := ident("f" + strconv.Itoa(g.seq))
	f, cost := g.function("fd", name, np, false)
	v := g.declare(vFn, "")
	v.name, v.arity, v.cost = name.Text, np, cost
	return f
}

func (g *xgen) forStmt(level int) []*Node {
	r := g.r
	k := 1 + r.Intn(3)
	var pre []*Node
	var v *xvar
	var init *Node
	g.push()
	defer g.pop()
	down := r.Intn(4) == 0
	start := 0
	if down {
		start = k
	}
	// an existing local numeric variable that no function assigns may serve as counter
	if r.Intn(4) == 0 {
		v = g.pickVar(func(v *xvar) bool {
			return v.kind == vN && !v.prot && !v.fnAssigned && v.fdepth == g.fdepth
		})
	}
	if v != nil {
		init = ndOp("asg", "=", ident(v.name), intLit(start))
		if r.Intn(3) == 0 { // for (; ...) with the initialisation before the loop
			pre, init = []*Node{es(init)}, nil
		}
	} else {
		v = g.declare(vN, "i")
		init = nd("lete", ident(v.name), intLit(start))
	}
	i := ident(v.name)
	var cond, upd *Node
	if down {
		cond = bin(">", i, intLit(0))
		switch r.Intn(3) {
		case 0:
			upd = ndOp("post", "--", i)
		case 1:
			upd = ndOp("un", "--", i)
		default:
			upd = ndOp("asg", "-=", i, intLit(1))
		}
	} else {
		switch r.Intn(3) {
		case 0:
			cond = bin("<", i, intLit(k))
		case 1:
			cond = bin("<=", i, intLit(k-1))
		default:
			cond = bin(">", intLit(k), i)
		}
		switch r.Intn(4) {
		case 0:
			upd = ndOp("post", "++", i)
		case 1:
			upd = ndOp("un", "++", i)
		case 2:
			upd = ndOp("asg", "+=", i, intLit(1))
		default:
			upd = ndOp("asg", "=", i, bin("+", i, intLit(1)))
		}
	}
	v.prot = true
	g.mult *= float64(k)
	var body *Node
	if r.Intn(5) == 0 { // update in the body, empty update clause
		body = g.body(level, 1+r.Intn(2), es(upd))
		upd = nil
	} else {
		body = g.body(level, 1+r.Intn(2))
	}
	g.mult /= float64(k)
	v.prot = false
	return append(pre, nd("for", init, cond, upd, body))
}

func (g *xgen) whileStmt(level int) []*Node {
	r := g.r
	k := 1 + r.Intn(3)
	v := g.declare(vN, "w")
	w := ident(v.name)
	decl := nd("let", w, intLit(k))
	v.prot = true
	g.mult *= float64(k)
	defer func() { g.mult /= float64(k); v.prot = false }()
	if r.Intn(3) == 0 { // decrement inside the condition
		return []*Node{decl, nd("while", bin(">", ndOp("post", "--", w), intLit(0)), g.body(level, 1+r.Intn(2)))}
	}
	var dec *Node
	switch r.Intn(3) {
	case 0:
		dec = ndOp("post", "--", w)
	case 1:
		dec = ndOp("asg", "-=", w, intLit(1))
	default:
		dec = ndOp("asg", "=", w, bin("-", w, intLit(1)))
	}
	cond := bin(">", w, intLit(0))
	if r.Intn(3) == 0 {
		cond = bin("&&", cond, g.data(1, anyCtx))
	}
	return []*Node{decl, nd("while", cond, g.body(level, 1+r.Intn(2), es(dec)))}
}
