package oracle

import (
	"fmt"

	gsm "github.com/go-sourcemap/sourcemap"
)

// Segment is one decoded mapping segment, with every field made absolute.
// All numbers are 0-based, as in the Source Map v3 specification.
//
// A 1-field segment (generated column only, "this column maps to nothing") is returned with
// Source = SrcLine = SrcCol = -1 and HasName = false. A 5-field segment has HasName = true and
// Name = index into the "names" array; otherwise Name is -1.
type Segment struct {
	GenLine, GenCol, Source, SrcLine, SrcCol int
	HasName                                  bool
	Name                                     int
}

func (s Segment) String() string {
	if s.Source < 0 {
		return fmt.Sprintf("%d:%d->nothing", s.GenLine, s.GenCol)
	}
	if s.HasName {
		return fmt.Sprintf("%d:%d->src%d %d:%d name%d", s.GenLine, s.GenCol, s.Source, s.SrcLine, s.SrcCol, s.Name)
	}
	return fmt.Sprintf("%d:%d->src%d %d:%d", s.GenLine, s.GenCol, s.Source, s.SrcLine, s.SrcCol)
}

// base64Value maps a base64 digit to its 6-bit value, or -1.
func base64Value(c byte) int {
	switch {
	case c >= 'A' && c <= 'Z':
		return int(c - 'A')
	case c >= 'a' && c <= 'z':
		return int(c-'a') + 26
	case c >= '0' && c <= '9':
		return int(c-'0') + 52
	case c == '+':
		return 62
	case c == '/':
		return 63
	}
	return -1
}

// DecodeVLQ decodes one base64 VLQ number starting at s[i] and returns the value and the index
// just after it. Each base64 digit carries 6 bits: bit 5 (value 32) is the continuation flag,
// bits 0..4 are payload, least significant group first; in the assembled number the least
// significant bit is the sign (1 = negative) and the remaining bits are the magnitude.
func DecodeVLQ(s string, i int) (value int, next int, err error) {
	var acc uint64
	shift := uint(0)
	for {
		if i >= len(s) {
			return 0, i, fmt.Errorf("sourcemap: truncated VLQ at offset %d", i)
		}
		d := base64Value(s[i])
		if d < 0 {
			return 0, i, fmt.Errorf("sourcemap: invalid base64 digit %q at offset %d", s[i], i)
		}
		i++
		if shift > 60 {
			return 0, i, fmt.Errorf("sourcemap: VLQ too long at offset %d", i)
		}
		acc |= uint64(d&31) << shift
		shift += 5
		if d&32 == 0 {
			break
		}
	}
	mag := int(acc >> 1)
	if acc&1 == 1 {
		mag = -mag
	}
	return mag, i, nil
}

// DecodeMappings decodes the "mappings" string of a Source Map v3 document.
//
// Written from the specification: ';' ends a generated line, ',' separates segments inside a
// line; a segment has 1, 4 or 5 VLQ fields: generated column (relative to the previous segment
// of the same generated line, restarting from 0 on every line), source index, source line,
// source column, name index (each relative to the previous occurrence of that field anywhere
// earlier in the whole string, starting from 0). Empty segments (as in ",," or a trailing ',')
// are skipped. Segments with 2, 3 or more than 5 fields, bad base64 digits, truncated VLQs and
// fields that become negative are errors. Segments are returned in the order they appear.
func DecodeMappings(mappings string) ([]Segment, error) {
	segs := []Segment{}
	genLine, genCol := 0, 0
	source, srcLine, srcCol, name := 0, 0, 0, 0

	i := 0
	n := len(mappings)
	for i < n {
		switch mappings[i] {
		case ';':
			genLine++
			genCol = 0
			i++
			continue
		case ',':
			i++
			continue
		}
		// Decode the fields of one segment.
		var fields [5]int
		nf := 0
		start := i
		for i < n && mappings[i] != ',' && mappings[i] != ';' {
			v, next, err := DecodeVLQ(mappings, i)
			if err != nil {
				return segs, err
			}
			if nf == 5 {
				return segs, fmt.Errorf("sourcemap: segment at offset %d has more than 5 fields", start)
			}
			fields[nf] = v
			nf++
			i = next
		}
		seg := Segment{GenLine: genLine, Source: -1, SrcLine: -1, SrcCol: -1, Name: -1}
		switch nf {
		case 1, 4, 5:
		default:
			return segs, fmt.Errorf("sourcemap: segment at offset %d has %d fields", start, nf)
		}
		genCol += fields[0]
		if genCol < 0 {
			return segs, fmt.Errorf("sourcemap: negative generated column at offset %d", start)
		}
		seg.GenCol = genCol
		if nf >= 4 {
			source += fields[1]
			srcLine += fields[2]
			srcCol += fields[3]
			if source < 0 || srcLine < 0 || srcCol < 0 {
				return segs, fmt.Errorf("sourcemap: negative source field at offset %d", start)
			}
			seg.Source, seg.SrcLine, seg.SrcCol = source, srcLine, srcCol
		}
		if nf == 5 {
			name += fields[4]
			if name < 0 {
				return segs, fmt.Errorf("sourcemap: negative name index at offset %d", start)
			}
			seg.HasName, seg.Name = true, name
		}
		segs = append(segs, seg)
	}
	return segs, nil
}

// Lookup finds, among segs (as returned by DecodeMappings), the segment that covers the
// generated position (genLine, genCol), both 0-based: the segment of that generated line with
// the greatest GenCol <= genCol. Unlike go-sourcemap it never falls back to a previous line.
func Lookup(segs []Segment, genLine, genCol int) (Segment, bool) {
	best := -1
	for i, s := range segs {
		if s.GenLine != genLine || s.GenCol > genCol {
			continue
		}
		if best < 0 || s.GenCol >= segs[best].GenCol {
			best = i
		}
	}
	if best < 0 {
		return Segment{}, false
	}
	return segs[best], true
}

// DecodeWithConsumer looks up a generated position in a complete source map document using
// github.com/go-sourcemap/sourcemap (v2.1.3+incompatible), as an independent cross-check of
// DecodeMappings/Lookup.
//
// Conventions of THIS function: genLine, genCol, srcLine, srcCol are all 0-based, the same as
// Segment; the conversion to the library's conventions happens inside.
//
// What the library does (read from consumer.go / mappings.go in the module cache):
//   - Lines are 1-based on both sides: the parser starts with genLine = 1 and sourceLine = 1
//     and adds the VLQ deltas to those, and Consumer.Source(genLine, genColumn) compares its
//     arguments with these 1-based values. Columns are 0-based on both sides. So this function
//     passes genLine+1 and returns line-1.
//   - Lookup is a binary search for the first mapping >= (genLine, genColumn); on an inexact hit
//     it takes the previous mapping in the flat list WITHOUT checking that it is on the same
//     generated line, so a position before the first segment of a line resolves to the last
//     segment of an earlier line (Lookup above does not do that). A position before the very
//     first mapping gives ok=false. Past the last mapping of the whole map sort.Search returns
//     len, which is reported as "not found" before the fuzzy step, so the LAST segment of a map
//     only matches at its exact generated column, not at larger columns.
//   - pushValue silently DROPS every segment whose absolute source position is 1-based line 1,
//     column 0, i.e. source (0,0) in 0-based terms — the guard is meant to skip empty segments
//     but also removes real mappings to the first character of the source. Such a segment then
//     resolves to whatever precedes it.
//   - 1-field segments are not represented: they are pushed with the stale source position of
//     the previous segment.
//   - An empty "mappings" string is an error ("mappings are empty").
//   - `name` is "" when the segment has no name index.
func DecodeWithConsumer(mapJSON []byte, genLine, genCol int) (srcLine, srcCol int, name string, ok bool) {
	defer func() {
		if r := recover(); r != nil {
			srcLine, srcCol, name, ok = 0, 0, "", false
		}
	}()
	c, err := gsm.Parse("", mapJSON)
	if err != nil {
		return 0, 0, "", false
	}
	_, name, line, col, ok := c.Source(genLine+1, genCol)
	if !ok {
		return 0, 0, "", false
	}
	return line - 1, col, name, true
}
