// Package oracle provides independent reference oracles for the xjs verification harness:
//
//   - Behave: the observable behaviour (console.log trace + completion kind) of a JavaScript
//     program in a fresh goja runtime;
//   - DecodeMappings: a Source Map v3 "mappings" decoder written from the specification;
//   - DecodeWithConsumer: the same lookup done through github.com/go-sourcemap/sourcemap.
//
// The package has no global mutable state; every call builds its own runtime.
package oracle

import (
	"errors"
	"fmt"
	"strings"
	"time"

	"github.com/dop251/goja"
)

// DefaultTimeout is the hard time limit applied by Behave.
const DefaultTimeout = 2 * time.Second

// MaxCallStack is the goja call depth limit. Exceeding it is reported as Completion
// "RangeError" (what V8/SpiderMonkey throw for unbounded recursion), see BehaveWithTimeout.
const MaxCallStack = 4000

// Completion values that are not constructor names.
const (
	CompletionNormal  = "normal"
	CompletionTimeout = "timeout"
)

// Behaviour of a script in a fresh goja runtime.
type Behaviour struct {
	// Logs has one entry per console.log call: arguments formatted and joined by a space.
	Logs []string
	// Completion is "normal", or the error constructor name of the uncaught exception
	// ("TypeError", "ReferenceError", "SyntaxError", "RangeError", "Error", ...), or "timeout".
	// A thrown value that is not an object with a usable constructor name gives
	// "throw:<typeof value>" (e.g. "throw:string").
	Completion string
}

// Equal reports whether both behaviours have the same log trace and the same completion.
func (b Behaviour) Equal(o Behaviour) bool {
	if b.Completion != o.Completion || len(b.Logs) != len(o.Logs) {
		return false
	}
	for i := range b.Logs {
		if b.Logs[i] != o.Logs[i] {
			return false
		}
	}
	return true
}

// String gives a short one-line rendering for reports: completion, number of log lines, and
// the first few (truncated) log lines.
func (b Behaviour) String() string {
	const maxLines, maxLen = 4, 40
	var sb strings.Builder
	fmt.Fprintf(&sb, "%s logs=%d", b.Completion, len(b.Logs))
	if len(b.Logs) > 0 {
		sb.WriteString(" [")
		for i, l := range b.Logs {
			if i == maxLines {
				sb.WriteString(" ...")
				break
			}
			if i > 0 {
				sb.WriteString(" | ")
			}
			if len(l) > maxLen {
				l = l[:maxLen] + "..."
			}
			sb.WriteString(fmt.Sprintf("%q", l))
		}
		sb.WriteString("]")
	}
	return sb.String()
}

// formatPrelude evaluates to the argument formatter used by console.log. It captures the
// intrinsics it needs when the runtime is created, so a script that later overwrites the
// globals JSON / String / Array does not change how its own output is rendered.
//
// Rules (deterministic, never reveals function source text):
//   - undefined, null, booleans, numbers, strings, bigints, symbols: String(v)
//   - functions: the fixed text "[function]" (String(f) would be the source text)
//   - other objects (arrays, plain objects, ...): JSON.stringify(v); functions nested inside
//     are dropped / turned into null by JSON.stringify itself. If that throws (cycle, BigInt
//     member, throwing toJSON/getter) or returns undefined (toJSON returned undefined), fall
//     back to String(v) for non-arrays and to "[array N]" for arrays (String(array) joins the
//     elements with their own toString, which for a function element is its source text);
//     if String(v) throws too: "[object]".
const formatPrelude = `(function () {
  var stringify = JSON.stringify, str = String, isArray = Array.isArray;
  return function (v) {
    if (v === null || v === undefined) return str(v);
    var t = typeof v;
    if (t === "function") return "[function]";
    if (t !== "object") return str(v);
    try {
      var s = stringify(v);
      if (s !== undefined) return s;
    } catch (e) {}
    if (isArray(v)) return "[array " + v.length + "]";
    try { return str(v); } catch (e) { return "[object]"; }
  };
})()`

// Behave runs src in a fresh goja runtime with a global `console` object whose `log` records
// its arguments, under DefaultTimeout. See BehaveWithTimeout.
func Behave(src string) (Behaviour, error) {
	return BehaveWithTimeout(src, DefaultTimeout)
}

// BehaveWithTimeout is Behave with an explicit time limit (limit <= 0 means DefaultTimeout).
//
// The returned error is non-nil only for failures of the oracle itself (the prelude could not
// be installed, goja panicked with a non-JavaScript value, an unknown error type came back);
// every outcome of the script, including syntax errors and timeouts, is a Behaviour with a
// nil error. The Logs collected before an abnormal completion are kept.
//
// Completion classification:
//   - compilation fails (goja.Compile, sloppy mode): "SyntaxError", except goja's
//     *CompilerReferenceError (early "invalid assignment target" style errors), reported as
//     "ReferenceError";
//   - *goja.Exception: constructor.name of the thrown object (own/inherited `constructor`),
//     else its `name` property, else "throw:<typeof>";
//   - *goja.InterruptedError: "timeout";
//   - *goja.StackOverflowError (call depth > MaxCallStack): "RangeError".
//
// It never panics: panics raised inside goja are recovered and returned as error.
func BehaveWithTimeout(src string, limit time.Duration) (b Behaviour, err error) {
	if limit <= 0 {
		limit = DefaultTimeout
	}
	b.Logs = []string{}
	defer func() {
		if r := recover(); r != nil {
			if b.Completion == "" {
				b.Completion = "panic"
			}
			err = fmt.Errorf("oracle: goja panic: %v", r)
		}
	}()

	prog, cerr := goja.Compile("script.js", src, false)
	if cerr != nil {
		var refErr *goja.CompilerReferenceError
		if errors.As(cerr, &refErr) {
			b.Completion = "ReferenceError"
		} else {
			b.Completion = "SyntaxError"
		}
		return b, nil
	}

	vm := goja.New()
	vm.SetMaxCallStackSize(MaxCallStack)

	fv, perr := vm.RunString(formatPrelude)
	if perr != nil {
		b.Completion = "panic"
		return b, fmt.Errorf("oracle: prelude: %w", perr)
	}
	format, ok := goja.AssertFunction(fv)
	if !ok {
		b.Completion = "panic"
		return b, errors.New("oracle: prelude did not evaluate to a function")
	}

	logs := []string{}
	console := vm.NewObject()
	logFn := func(call goja.FunctionCall) goja.Value {
		parts := make([]string, len(call.Arguments))
		for i, a := range call.Arguments {
			s, ferr := format(goja.Undefined(), a)
			if ferr != nil {
				// An interrupt (timeout) or stack overflow while formatting must keep
				// propagating; anything else cannot happen (the formatter catches).
				panic(ferr)
			}
			parts[i] = s.String()
		}
		logs = append(logs, strings.Join(parts, " "))
		return goja.Undefined()
	}
	if serr := console.Set("log", logFn); serr != nil {
		b.Completion = "panic"
		return b, fmt.Errorf("oracle: console.log: %w", serr)
	}
	if serr := vm.Set("console", console); serr != nil {
		b.Completion = "panic"
		return b, fmt.Errorf("oracle: console: %w", serr)
	}

	timer := time.AfterFunc(limit, func() { vm.Interrupt("timeout") })
	_, rerr := runProgram(vm, prog)
	timer.Stop()
	vm.ClearInterrupt()

	b.Logs = logs
	if rerr == nil {
		b.Completion = CompletionNormal
		return b, nil
	}

	var (
		intr *goja.InterruptedError
		so   *goja.StackOverflowError
		exc  *goja.Exception
		pan  *panicError
	)
	switch {
	case errors.As(rerr, &pan):
		b.Completion = "panic"
		return b, rerr
	case errors.As(rerr, &intr):
		b.Completion = CompletionTimeout
	case errors.As(rerr, &so):
		b.Completion = "RangeError"
	case errors.As(rerr, &exc):
		b.Completion = exceptionName(vm, exc)
	default:
		b.Completion = "panic"
		return b, fmt.Errorf("oracle: unclassified goja error %T: %w", rerr, rerr)
	}
	return b, nil
}

type panicError struct{ v interface{} }

func (p *panicError) Error() string { return fmt.Sprintf("oracle: goja panic: %v", p.v) }

// runProgram runs prog and converts a Go panic escaping from goja into *panicError, so that the
// caller can still stop its timer and keep the logs gathered so far.
func runProgram(vm *goja.Runtime, prog *goja.Program) (v goja.Value, err error) {
	defer func() {
		if r := recover(); r != nil {
			err = &panicError{v: r}
		}
	}()
	return vm.RunProgram(prog)
}

// exceptionName gives the constructor name of a thrown value, without running the timer (the
// lookups below can only run user code through accessors, which xjs cannot define; a runaway
// accessor would still be bounded by the call-stack limit but not by time, so accessor-defining
// scripts should not be fed to this oracle).
func exceptionName(vm *goja.Runtime, exc *goja.Exception) (name string) {
	val := exc.Value()
	fallback := "throw:unknown"
	defer func() {
		if r := recover(); r != nil {
			name = fallback
		}
	}()
	if val == nil {
		return fallback
	}
	obj, isObj := val.(*goja.Object)
	if !isObj {
		switch {
		case goja.IsUndefined(val):
			return "throw:undefined"
		case goja.IsNull(val):
			return "throw:null"
		}
		switch val.ExportType().Kind().String() {
		case "string":
			return "throw:string"
		case "bool":
			return "throw:boolean"
		case "int", "int64", "float64":
			return "throw:number"
		}
		return fallback
	}
	fallback = "throw:object"
	if c, ok := obj.Get("constructor").(*goja.Object); ok && c != nil {
		if n := c.Get("name"); n != nil && !goja.IsUndefined(n) && !goja.IsNull(n) {
			if s := n.String(); s != "" {
				return s
			}
		}
	}
	if n := obj.Get("name"); n != nil && !goja.IsUndefined(n) && !goja.IsNull(n) {
		if s := n.String(); s != "" {
			return s
		}
	}
	return fallback
}
