package oracle

import (
	"fmt"
	"reflect"
	"strings"
	"testing"
	"time"
)

func mustBehave(t *testing.T, src string) Behaviour {
	t.Helper()
	b, err := Behave(src)
	if err != nil {
		t.Fatalf("Behave(%q): unexpected error %v", src, err)
	}
	return b
}

func TestConsoleLogCapture(t *testing.T) {
	b := mustBehave(t, `
		console.log("a", 1, true, null, undefined);
		console.log(1.5, -0, 1/0, 0/0);
		console.log([1,"x",[2]], {a:1,b:{c:"d"}});
		console.log(function f(secret) { return secret + 1 }, [function () { hidden }], {k: function () { hidden }});
		console.log();
		console.log("1" + 2, 1 + 2);
	`)
	want := []string{
		"a 1 true null undefined",
		"1.5 0 Infinity NaN",
		`[1,"x",[2]] {"a":1,"b":{"c":"d"}}`,
		"[function] [null] {}",
		"",
		"12 3",
	}
	if !reflect.DeepEqual(b.Logs, want) {
		t.Errorf("logs:\n got %q\nwant %q", b.Logs, want)
	}
	if b.Completion != CompletionNormal {
		t.Errorf("completion %q", b.Completion)
	}
	for _, l := range b.Logs {
		if strings.Contains(l, "secret") || strings.Contains(l, "hidden") {
			t.Errorf("function source leaked into log line %q", l)
		}
	}
}

func TestFormatFallbacks(t *testing.T) {
	b := mustBehave(t, `
		let cyc = {}; cyc.self = cyc;
		console.log(cyc);
		let arr = [function () { hidden }]; arr.push(arr);
		console.log(arr);
		console.log({toJSON: function () { return undefined }});
		JSON = null; String = null;
		console.log([1], 2);
	`)
	want := []string{"[object Object]", "[array 2]", "[object Object]", "[1] 2"}
	if !reflect.DeepEqual(b.Logs, want) || b.Completion != CompletionNormal {
		t.Errorf("got %v", b)
	}
}

func TestCompletions(t *testing.T) {
	cases := []struct {
		src, completion string
		logs            []string
	}{
		{`console.log("x"); null.x; console.log("y")`, "TypeError", []string{"x"}},
		{`let u; u.x`, "TypeError", nil},
		{`console.log(1); undeclaredName; console.log(2)`, "ReferenceError", []string{"1"}},
		{`undeclaredFn()`, "ReferenceError", nil},
		{`console.log(1); let = ;`, "SyntaxError", nil},
		{`a +`, "SyntaxError", nil},
		{`function () {}`, "SyntaxError", nil},
		{`1 = 2`, "SyntaxError", nil},
		{`throw new Error("e")`, "Error", nil},
		{`throw new RangeError("e")`, "RangeError", nil},
		{`new Array(-1)`, "RangeError", nil},
		{`function f() { return f() } f()`, "RangeError", nil},
		{`throw "str"`, "throw:string", nil},
		{`throw 1`, "throw:number", nil},
		{`throw null`, "throw:null", nil},
		{`throw {}`, "Object", nil},
		{`let x = 1; x = x + 1; console.log(x)`, "normal", []string{"2"}},
	}
	for _, c := range cases {
		b, err := Behave(c.src)
		if err != nil {
			t.Errorf("%q: error %v", c.src, err)
			continue
		}
		if b.Completion != c.completion {
			t.Errorf("%q: completion %q, want %q", c.src, b.Completion, c.completion)
		}
		if c.logs == nil {
			c.logs = []string{}
		}
		if !reflect.DeepEqual(b.Logs, c.logs) {
			t.Errorf("%q: logs %q, want %q", c.src, b.Logs, c.logs)
		}
	}
}

func TestTimeout(t *testing.T) {
	start := time.Now()
	b := mustBehave(t, `console.log("before"); while(true){}`)
	el := time.Since(start)
	if b.Completion != CompletionTimeout {
		t.Errorf("completion %q, want timeout", b.Completion)
	}
	if !reflect.DeepEqual(b.Logs, []string{"before"}) {
		t.Errorf("logs %q", b.Logs)
	}
	if el < DefaultTimeout || el > DefaultTimeout+2*time.Second {
		t.Errorf("default timeout took %v", el)
	}

	// Explicit limit; the interrupt cannot be swallowed by try/catch, and logging in the loop
	// is cut off as well.
	start = time.Now()
	b, err := BehaveWithTimeout(`while(true){ try { while(true){ console.log([1]) } } catch (e) {} }`, 100*time.Millisecond)
	if err != nil || b.Completion != CompletionTimeout {
		t.Errorf("got %v, %v", b.Completion, err)
	}
	if time.Since(start) > 2*time.Second {
		t.Errorf("short timeout took %v", time.Since(start))
	}
}

func TestFreshRuntime(t *testing.T) {
	mustBehave(t, `globalLeak = 1; console.log = null`)
	b := mustBehave(t, `console.log(typeof globalLeak)`)
	if !reflect.DeepEqual(b.Logs, []string{"undefined"}) || b.Completion != "normal" {
		t.Errorf("runtime state leaked between calls: %v", b)
	}
}

func TestEqualAndString(t *testing.T) {
	a := Behaviour{Logs: []string{"1", "2"}, Completion: "normal"}
	if !a.Equal(Behaviour{Logs: []string{"1", "2"}, Completion: "normal"}) {
		t.Error("equal behaviours reported different")
	}
	if a.Equal(Behaviour{Logs: []string{"1"}, Completion: "normal"}) ||
		a.Equal(Behaviour{Logs: []string{"1", "3"}, Completion: "normal"}) ||
		a.Equal(Behaviour{Logs: []string{"1", "2"}, Completion: "TypeError"}) {
		t.Error("different behaviours reported equal")
	}
	if !(Behaviour{Completion: "normal"}).Equal(Behaviour{Logs: []string{}, Completion: "normal"}) {
		t.Error("nil and empty logs must be equal")
	}
	if got := a.String(); got != `normal logs=2 ["1" | "2"]` {
		t.Errorf("String() = %s", got)
	}
	long := Behaviour{Completion: "timeout", Logs: []string{strings.Repeat("x", 100), "b", "c", "d", "e"}}
	if s := long.String(); len(s) > 200 || !strings.Contains(s, "logs=5") || !strings.HasSuffix(s, "...]") {
		t.Errorf("String() = %s", s)
	}
}

// ---- source maps ----

func TestDecodeVLQ(t *testing.T) {
	cases := []struct {
		s    string
		want int
	}{
		{"A", 0}, {"C", 1}, {"D", -1}, {"E", 2}, {"F", -2}, {"I", 4}, {"e", 15}, {"f", -15},
		{"gB", 16}, {"hB", -16}, {"2H", 123}, {"3H", -123}, {"+/////D", 2147483647},
	}
	for _, c := range cases {
		v, next, err := DecodeVLQ(c.s, 0)
		if err != nil || v != c.want || next != len(c.s) {
			t.Errorf("DecodeVLQ(%q) = %d, %d, %v; want %d", c.s, v, next, err, c.want)
		}
	}
	for _, bad := range []string{"g", "!", "gg", "A=" /* second call */} {
		_, next, err := DecodeVLQ(bad, 0)
		if bad == "A=" {
			_, _, err = DecodeVLQ(bad, next)
		}
		if err == nil {
			t.Errorf("DecodeVLQ(%q): expected error", bad)
		}
	}
}

func TestDecodeMappingsByHand(t *testing.T) {
	none := -1
	cases := []struct {
		in   string
		want []Segment
	}{
		{"", []Segment{}},
		{";;;", []Segment{}},
		{"AAAA", []Segment{{0, 0, 0, 0, 0, false, none}}},
		// A=0 | I=4,A,A,I=4,A=0 (named) | two line breaks | A,A,C=+1,E=+2
		{"AAAA,IAAIA;;AACE", []Segment{
			{0, 0, 0, 0, 0, false, none},
			{0, 4, 0, 0, 4, true, 0},
			{2, 0, 0, 1, 6, false, none},
		}},
		// negative deltas: D=-1; names carry on: C=+1
		{"EAAEA,GACDC", []Segment{
			{0, 2, 0, 0, 2, true, 0},
			{0, 5, 0, 1, 1, true, 1},
		}},
		// 1-field segment and empty segments
		{"AAAA,E,,CAAC,", []Segment{
			{0, 0, 0, 0, 0, false, none},
			{0, 2, none, none, none, false, none},
			{0, 3, 0, 0, 1, false, none},
		}},
		// multi-digit VLQ: gB=16, 2H=123
		{";gBA2HgB", []Segment{{1, 16, 0, 123, 16, false, none}}},
		// names are relative to the previous name anywhere, skipping unnamed segments
		{"AAAAC,CAAC,CAACC;AAAAD", []Segment{
			{0, 0, 0, 0, 0, true, 1},
			{0, 1, 0, 0, 1, false, none},
			{0, 2, 0, 0, 2, true, 2},
			{1, 0, 0, 0, 2, true, 1},
		}},
	}
	for _, c := range cases {
		in := c.in
		got, err := DecodeMappings(in)
		if err != nil {
			t.Errorf("DecodeMappings(%q): %v", in, err)
			continue
		}
		if !reflect.DeepEqual(got, c.want) {
			t.Errorf("DecodeMappings(%q):\n got %v\nwant %v", in, got, c.want)
		}
	}

	// generated column restarts per line; source fields and names carry across lines.
	// CCAAC = +1 col, +1 source, +0 line, +0 col, +1 name
	got, err := DecodeMappings("EAAEA,GACDC;CCAAC")
	want := []Segment{{0, 2, 0, 0, 2, true, 0}, {0, 5, 0, 1, 1, true, 1}, {1, 1, 1, 1, 1, true, 2}}
	if err != nil || !reflect.DeepEqual(got, want) {
		t.Errorf("multi-line: got %v, %v want %v", got, err, want)
	}

	for _, bad := range []string{"AA", "AAA", "AAAAAA", "A!AA", "AAAg", "D", "AADA", "AAAD", "EAAEA,GACDC;CCAFC", "AAAAD"} {
		if segs, err := DecodeMappings(bad); err == nil {
			t.Errorf("DecodeMappings(%q): expected an error, got %v", bad, segs)
		}
	}
}

func mapJSON(mappings string, names ...string) []byte {
	q := make([]string, len(names))
	for i, n := range names {
		q[i] = fmt.Sprintf("%q", n)
	}
	return []byte(fmt.Sprintf(`{"version":3,"file":"out.js","sources":["a.xjs","b.xjs"],"names":[%s],"mappings":%q}`,
		strings.Join(q, ","), mappings))
}

// Both decoders must agree on hand-made maps, at every generated position where the library's
// documented quirks (see DecodeWithConsumer) do not apply: positions at or after the first
// segment of their line, not after the last segment of the whole map, and segments that do not
// point at source position (0,0).
func TestDecodersAgree(t *testing.T) {
	cases := []struct {
		mappings string
		names    []string
	}{
		{"CAAC,IAAIA;;AACE", []string{"foo"}},
		{"EAAEA,GACDC;CCAAC", []string{"x", "y", "z"}},
		{"CAAC;gBA2HgB;AAAA", nil},
		{"CAACC,CAAC,CAACC;AAAAD,KAAK", []string{"n0", "n1", "n2"}},
	}
	for _, c := range cases {
		segs, err := DecodeMappings(c.mappings)
		if err != nil {
			t.Fatalf("%q: %v", c.mappings, err)
		}
		doc := mapJSON(c.mappings, c.names...)
		checked := 0
		for i, s := range segs {
			last := i == len(segs)-1
			for _, col := range []int{s.GenCol, s.GenCol + 1} {
				if last && col != s.GenCol {
					continue // library: nothing is found past the last mapping
				}
				if col != s.GenCol && !last && segs[i+1].GenLine == s.GenLine && segs[i+1].GenCol <= col {
					continue // belongs to the next segment
				}
				mine, ok := Lookup(segs, s.GenLine, col)
				if !ok || mine != s {
					t.Errorf("%q: Lookup(%d,%d) = %v, %v; want %v", c.mappings, s.GenLine, col, mine, ok, s)
				}
				l, cc, name, ok := DecodeWithConsumer(doc, s.GenLine, col)
				wantName := ""
				if s.HasName {
					wantName = c.names[s.Name]
				}
				if !ok || l != s.SrcLine || cc != s.SrcCol || name != wantName {
					t.Errorf("%q at %d:%d: consumer says %d:%d %q ok=%v; DecodeMappings says %v",
						c.mappings, s.GenLine, col, l, cc, name, ok, s)
				}
				checked++
			}
		}
		if checked < len(segs) {
			t.Errorf("%q: only %d positions checked", c.mappings, checked)
		}
	}
}

// The quirks of go-sourcemap documented on DecodeWithConsumer, pinned down so that a harness
// using it as an oracle knows where it may not be trusted.
func TestConsumerQuirks(t *testing.T) {
	// 1. a segment pointing at source (0,0) is dropped by the library.
	doc := mapJSON("AAAA,EAAE")
	if _, _, _, ok := DecodeWithConsumer(doc, 0, 0); ok {
		t.Errorf("library now keeps the mapping to source 0:0; update the documentation")
	}
	segs, _ := DecodeMappings("AAAA,EAAE")
	if s, ok := Lookup(segs, 0, 0); !ok || s.SrcLine != 0 || s.SrcCol != 0 {
		t.Errorf("own decoder lost the 0:0 mapping: %v %v", s, ok)
	}
	// 2. before the first segment of a line the library answers with the previous line's last
	// segment; Lookup says "no mapping".
	doc = mapJSON("CAAC,EAAE;EACA,EAAE")
	l, c, _, ok := DecodeWithConsumer(doc, 1, 0)
	if !ok || l != 0 || c != 3 {
		t.Errorf("expected fallback to previous line (0:3), got %d:%d ok=%v", l, c, ok)
	}
	segs, _ = DecodeMappings("CAAC,EAAE;EACA,EAAE")
	if s, ok := Lookup(segs, 1, 0); ok {
		t.Errorf("Lookup must not cross lines, got %v", s)
	}
	// 3. past the last mapping of the map the library finds nothing; Lookup extends the last
	// segment of the line.
	if _, _, _, ok := DecodeWithConsumer(doc, 1, 9); ok {
		t.Errorf("library now resolves positions past the last mapping; update the documentation")
	}
	if s, ok := Lookup(segs, 1, 9); !ok || s.SrcLine != 1 || s.SrcCol != 5 {
		t.Errorf("Lookup(1,9) = %v %v", s, ok)
	}
	// 4. empty mappings are an error for the library.
	if _, _, _, ok := DecodeWithConsumer(mapJSON(""), 0, 0); ok {
		t.Errorf("empty mappings resolved")
	}
	if _, _, _, ok := DecodeWithConsumer([]byte("not json"), 0, 0); ok {
		t.Errorf("garbage resolved")
	}
}
