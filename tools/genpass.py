#!/usr/bin/env python3
"""Authoring helper (not used by any check): prints the skeleton of a pass over the parser's mutual block with
`parseStatementI.mutual_partial_correctness`: the 22 cases with their binder names and curried induction hypotheses."""
import sys
# name, extra args before st, abstracted functions (name, arity = number of args incl. st)
FUNS = [
 ("parseStatementI", ["is"], [("pS",2),("bS",1)]),
 ("baseParseStatement", [], [("f1",1),("f2",1),("f3",1),("f4",1),("f5",1),("f6",1),("f7",1),("f8",1)]),
 ("parseExpressionStatement", [], [("pE",3)]),
 ("parseExpressionI", ["is","prec"], [("pE",3),("pR",3),("pP",1)]),
 ("parseRemaining", ["left","prec"], [("pR",3),("pI",2)]),
 ("parseInfixExpression", ["left"], [("pE",3),("pL",2)]),
 ("parseExpressionList", ["endTy"], [("pE",3),("eL",2)]),
 ("exprListLoop", ["acc"], [("pE",3),("eL",2)]),
 ("parsePrefixExpression", [], [("pE",3),("pL",2),("pFE",1),("pO",1)]),
 ("parseFunctionExpression", [], [("pB",1)]),
 ("parseBlockStatement", [], [("bL",2)]),
 ("blockLoop", ["acc"], [("pS",2),("bL",2)]),
 ("parseObjectLiteral", [], [("oL",2)]),
 ("objectLoop", ["acc"], [("pE",3),("oL",2)]),
 ("parseForStatement", [], [("pS",2),("pE",3),("pFI",1)]),
 ("parseForInit", [], [("pE",3),("pLE",1)]),
 ("parseLetExpression", [], [("pE",3)]),
 ("parseWhileStatement", [], [("pS",2),("pE",3)]),
 ("parseIfStatement", [], [("pS",2),("pE",3)]),
 ("parseReturnStatement", [], [("pE",3)]),
 ("parseFunctionStatement", [], [("pB",1)]),
 ("parseLetStatement", [], [("pE",3)]),
]
def skeleton(motive_name, extra_intro, close):
    out=[]
    for name, args, fs in FUNS:
        fn=" ".join(f for f,_ in fs); ih=" ".join("ih_"+f for f,_ in fs)
        cur="; ".join(f"replace ih_{f} := curry{n} ih_{f}" for f,n in fs)
        out.append(f"  · -- {name}\n    intro {fn} {ih} {' '.join(args)} st r h {extra_intro}\n    {cur}\n    dsimp only [{motive_name}] at {ih}\n    pdecomp h\n    all_goals {close.replace('IHS', ', '.join('ih_'+f for f,_ in fs))}")
    return "\n".join(out)
if __name__=="__main__":
    print(skeleton(sys.argv[1], sys.argv[2], sys.argv[3]))
