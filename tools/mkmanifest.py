#!/usr/bin/env python3
"""Regenerates /verif/MANIFEST.json from the table below (authoring helper; the file itself is committed)."""
import json, os
ROOT = os.path.dirname(os.path.dirname(os.path.abspath(__file__)))
NOTE = ("Trusted: Lean 4.33 kernel; axioms propext/Classical.choice/Quot.sound only (audited per theorem by #print axioms on every run; "
        "source grep for sorry/admit/axiom/native_decide/bv_decide); hand-written Lean model of the Go control flow tied to /repo by tables "
        "re-extracted from the source on every run (decide-checked table obligations) and by differential correspondence (the compiled Lean "
        "model and the real code run on the same generated op lines); Spec files trusted; Go int modelled as Int. ")
CLAIMED = {
 "C04": ("Lean theorems over all token lists, modes, tables and interceptor lists of any length: the intercepted parse (observers and re-entrant interceptors) returns the same tree, errors and cursor as the interceptor-free parse; statement interceptors and next()-calling expression interceptors run in installation order on the entry state; a re-entrant interceptor sees the entry state; the current expression precedence is restored on every exit.", "§7 C04", "Token interceptors of the lexer are not modelled in Lean (correspondence + transparency oracle only); the transparency theorem is partial correctness (if the intercepted parse returns)."),
 "C05": ("Lean theorems over all registration histories on one builder: token ids are stable per name, injective, >= 1000 (above every built-in type); a registration whose (role, token) is already present (seeded built-in or earlier) is refused and leaves the builder unchanged; accepted registrations are recorded once; operator lists never hold a token twice. Built-in seeds are a regenerated table obligation.", "§7 C05", "The grouping clause (a registered infix operator groups like a built-in of its level) is decided by the PARSE correspondence with custom operators and the model-free precedence-climbing oracle (exhaustive level x neighbour grid), not yet by theorem; partial."),
 "C06": ("Lean theorem over all trees (parsed or programmatic), both semicolon settings and any two indent units made of spaces/tabs: the pretty-printed texts are equal after deleting the leading run of spaces and tabs of every line — the indentation option changes only leading whitespace; deferred indentation is only ever pending behind a pending line feed.", "§7 C06", "The theorem is about the writer's text before the compiler's final TrimSpace/TrimRight clean-up. Same tree as compact (a), idempotence (b) and the semicolon option (d) are decided by the PRINT correspondence over the option grid and the model-free oracle (re-parse, double formatting, semicolon-only diff) with known findings nosemi-hazard and trim-in-literal; partial."),
 "C08": ("Lean theorems over all trees (compact output, no CR in written strings): every recorded mapping's generated position is the line/column (counting specification) of the prefix of the code emitted before its token; mappings are ordered by generated position; identifiers are written only together with a named mapping carrying them, and the recorded name index resolves to the identifier.", "§7 C08", "Pretty-printed output violates the property in the code itself (known finding D12, class pretty-map) and is judged by the model-free oracle (independent decoders + lexeme comparison), which also checks the source side in every configuration; the source side is not a theorem; partial."),
 "C09": ("Lean theorems over all operation histories: spec-decode(encode) = recorded absolute mappings, VLQ round trip for every Int, name interning, line-break aware position tracking, version 3.", "§7 C09", ""),
 "C10": ("Lean theorems over all byte strings: totality with a final EOF, EOF stickiness at the end position, every token starts at the line/column of the byte offset where the cursor stood, offsets are monotone and inside the source, every non-EOF token consumes input.", "§7 C10", "Tiling by trivia-only gaps and literal=slice are decided by correspondence + the model-free tiling oracle, not yet by theorem."),
 "C11": ("Lean theorems over all token lists, all modes/tables/interceptors: error value iff error list non-empty; errors only grow; every error range is the range of an input token; no statement list at any depth contains a nil entry; an error-free parse returns a complete tree (every mandatory child present, recursively) and a complete tree compiles in every configuration without dereferencing a nil child; cursor never moves backwards.", "§7 C11", "Termination of the parser for every input is NOT proved in Lean (the model's parser is a least fixed point; all theorems are 'whenever the parse returns'): divergence and panics are decided by the correspondence run (diverging/panicking ops compared) and the error-contract oracle; partial."),
 "C13": ("Lean theorems over all token lists, tables and interceptor lists: (a) where strict mode reports no error, tolerant mode returns the identical result; (c) smart-semicolon mode returns the same tree and the same errors as the default mode whenever no `(` or `[` is the first token of a line.", "§7 C13", "What tolerant mode additionally accepts (b) and the exact effect of the smart cut on line-initial ( and [ (d) are decided by the PARSE correspondence in all four modes and the model-free mode-diff oracle; partial."),
 "C14": ("Lean theorems over all trees/configurations: requesting a source map never changes the code, debug string = compact compilation, compile is a function of (cfg, tree); package tables read-only is a regenerated table obligation.", "§7 C14", "The quantifier over goroutine schedules is NOT proved (no Lean model of the Go memory model): explored by repeated/shared-builder histories against the sequential model; partial."),
 "C15": ("Lean theorem over all trees: compact output and debug string are functions of the comment-erased tree (with or without source map), so they contain no comment text and no comment alters the code.", "§7 C15", "Pretty-mode inventory clauses (each comment once, in order, before its anchor) are decided by correspondence only; partial."),
 "C16": ("Lean theorems over all token lists and configurations: context stack back at [Global] after any parse; every parse function is push/pop balanced on every exit path; interceptor events are faithful to the stack, never shallower than the caller's, and report IsInFunction inside every function body.", "§7 C16", "Equality of the observed stack with the nesting path in the returned tree is decided by correspondence + the model-free context oracle; partial."),
}
REASON_PENDING = "not claimed in this commit: the Lean theorems for this property are still being built; it will be claimed once its check is sound (see DESIGN.md §7)"
def main():
    checks = []
    for pid, (text, ref, partial) in sorted(CLAIMED.items()):
        checks.append(dict(property_id=pid, quick_cmd=f"./check {pid} quick", thorough_cmd=f"./check {pid} thorough",
            evidence_file=f"/verif/evidence/{pid}.json", replay_cmd_template=f"./check {pid} --replay {{path}}",
            engine="lean-model+correspondence",
            level_claimed=dict(category="proof", text=text, design_ref=ref),
            level_note=NOTE + partial,
            technique="Lean 4 theorems over an executable model; regenerated tables + model/implementation correspondence; model-free oracle for failing-input search"))
    ids = [f"C{i:02d}" for i in range(1, 17)]
    na = [dict(property_id=p, reason=REASON_PENDING) for p in ids if p not in CLAIMED]
    m = dict(version=1, setup_cmd="./check setup",
        hooks=dict(guard="verif", enable="no hooks: every observation point is public API; the harness builds against /repo with a `replace` directive",
                   baseline_off_cmd="cd /repo && go test -mod=mod -vet=off -count=1 -timeout 25m ./...", source_commits=[], add_only=True),
        engines=[dict(name="lean-model+correspondence", path="/verif/check", serves_properties=sorted(CLAIMED),
                      kind_free_text="Lean 4 model + theorems (lean/), Go table extractor and correspondence/oracle harness (harness/), Python driver (check)")],
        checks=checks, not_applicable=na,
        notes="See DESIGN.md. Repairs of genuine defects are `fix:` commits in /repo, listed in known_findings.json as fixed entries.")
    json.dump(m, open(os.path.join(ROOT, "MANIFEST.json"), "w"), indent=1)
if __name__ == "__main__":
    main()
