#!/bin/bash
# usage: seed_batch7.sh verify|run <Cxx> ...  — round-7 outputs /tmp/seedout7-Cxx/{m1,m2} → /verif/seeded/Cxx-m13, Cxx-m14
export GOFLAGS=-mod=mod GOPROXY=off GOSUMDB=off GOTOOLCHAIN=local
mode=$1; shift
for p in "$@"; do
  for k in 1 2; do
    src=/tmp/seedout7-$p/m$k; name=$p-m$((k+12))
    if [ "$mode" = verify ]; then
      [ -f $src/patch.diff ] || { echo "$name: no patch"; continue; }
      python3 /verif/tools/seed_verify.py $src $name 2>&1 | tail -1
    else
      [ -d /verif/seeded/$name ] && /verif/tools/seed_run.sh $name quick
    fi
  done
done
