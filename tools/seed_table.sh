#!/bin/bash
# SEED_FILTER=<regex> restricts the run to matching seed directories
# runs every stored seed against its property's quick check; one line per seed: rc, time, what broke and how it was shown
cd /verif
for d in seeded/*/; do
  [ -n "${SEED_FILTER:-}" ] && ! echo "$d" | grep -qE -- "$SEED_FILTER" && continue
  name=$(basename $d)
  pid=$(python3 -c "import json;print(json.load(open('$d/meta.json'))['property'])")
  git -C /repo status --porcelain | grep -q . && { echo "/repo not clean"; exit 9; }
  git -C /repo apply /verif/$d/patch.diff || { echo "$name patch does not apply"; continue; }
  s=$(date +%s); out=$(./check $pid quick 2>&1); rc=$?; e=$(date +%s)
  git -C /repo checkout -- . ; git -C /repo clean -fdq
  f=$(echo "$out" | grep -oE "replay=[^ ]+" | head -1 | cut -d= -f2)
  how=$(python3 - "$f" <<'PY'
import json,sys
try: d=json.load(open(sys.argv[1]))
except Exception: print("-"); sys.exit()
parts=[]
v=d.get("violation") or {}
if v: parts.append("failing input, class "+str(v.get("class")))
br=d.get("also_broken") or d.get("broken") or []
for b in br:
    w=b.get("what","?"); det=b.get("detail")
    if w=="correspondence" and isinstance(det,list) and det and isinstance(det[0],dict): w+=" ("+det[0].get("stream","")+" stream)"
    parts.append(w+" broken")
if d.get("kind")=="no-failing-input-found": parts.append("no-failing-input-found")
print("; ".join(parts))
PY
)
  echo "$name|$pid|rc=$rc|$((e-s))s|$how"
done
