#!/usr/bin/env python3
"""Authoring helper: compile each case of a generated pass file on its own (others `sorry`) to find slow/failing cases.
usage: percase.py <PassFile.lean> [timeout_s]"""
import re, subprocess, sys, os, concurrent.futures, time
src = open(sys.argv[1]).read()
tmo = int(sys.argv[2]) if len(sys.argv) > 2 else 180
i = src.index("  · -- parseStatementI")
hdr, rest = src[:i], src[i:]
end = rest.index("\nend Xjs")
cases = re.split(r"(?m)^  · -- ", rest[:end])[1:]
os.makedirs("/verif/lean/scratch/pc", exist_ok=True)
def run(k):
    name = cases[k].split("\n", 1)[0]
    body = cases[k].split("\n", 1)[1]
    txt = hdr + f"  case refine_{k+1} =>\n" + body + "\n  all_goals sorry\nend Xjs\n"
    p = f"/verif/lean/scratch/pc/c{k+1}.lean"
    open(p, "w").write(txt)
    t = time.time()
    try:
        r = subprocess.run(["lake", "env", "lean", p], cwd="/verif/lean", stdout=subprocess.PIPE, stderr=subprocess.STDOUT, text=True, timeout=tmo)
        errs = [l for l in r.stdout.split("\n") if "error" in l]
        return k + 1, name, round(time.time() - t, 1), len(errs), (errs[0][:160] if errs else "")
    except subprocess.TimeoutExpired:
        return k + 1, name, tmo, -1, "TIMEOUT"
with concurrent.futures.ThreadPoolExecutor(max_workers=12) as ex:
    for res in ex.map(run, range(len(cases))):
        print(*res, flush=True)
