#!/bin/bash
# usage: thorough_sweep.sh <seed> [tier]  — runs every check sequentially at the given seed on the current tree; one summary line per check
seed=$1; tier=${2:-thorough}
cd /verif
ids=$(python3 -c "import json;print(' '.join(c['property_id'] for c in json.load(open('MANIFEST.json'))['checks']))")
mkdir -p work/logs
for p in $ids; do s=$(date +%s); VERIF_SEED=$seed nice -n 10 ./check $p $tier > work/logs/$p.$tier.s$seed.log 2>&1; rc=$?; e=$(date +%s)
  echo "$p seed=$seed tier=$tier rc=$rc $((e-s))s $(grep -cE '^VIOLATION' work/logs/$p.$tier.s$seed.log) violation-lines"; done
