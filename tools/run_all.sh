#!/bin/bash
# runs every claimed check (quick by default) on the current tree, in parallel; prints one line per check
tier=${1:-quick}
cd /verif
ids=$(python3 -c "import json;print(' '.join(c['property_id'] for c in json.load(open('MANIFEST.json'))['checks']))")
mkdir -p work/logs
for p in $ids; do ( s=$(date +%s); ./check $p $tier > work/logs/$p.$tier.log 2>&1; rc=$?; e=$(date +%s); echo "$p rc=$rc $((e-s))s $(grep -cE '^VIOLATION' work/logs/$p.$tier.log) violation-lines $(grep -c '^KNOWN-FINDING' work/logs/$p.$tier.log) known" ) & done
wait
