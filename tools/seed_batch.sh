#!/bin/bash
# usage: seed_batch.sh <Cxx> ...  — round-2 outputs /tmp/seedout2-Cxx/{m1,m2} → /verif/seeded/Cxx-m3, Cxx-m4; verify, then run the check
export GOFLAGS=-mod=mod GOPROXY=off GOSUMDB=off GOTOOLCHAIN=local
for p in "$@"; do
  for k in 1 2; do
    src=/tmp/seedout2-$p/m$k; name=$p-m$((k+2))
    [ -f $src/patch.diff ] || { echo "$name: no patch"; continue; }
    python3 /verif/tools/seed_verify.py $src $name 2>&1 | tail -1
    [ -d /verif/seeded/$name ] && /verif/tools/seed_run.sh $name quick
  done
done
