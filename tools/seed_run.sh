#!/bin/bash
# usage: seed_run.sh <seed-name> [tier]   — applies /verif/seeded/<name>/patch.diff to /repo, runs the property's check, reverts
set -u
name=$1; tier=${2:-quick}
dir=/verif/seeded/$name
pid=$(python3 -c "import json;print(json.load(open('$dir/meta.json'))['property'])")
pid=${3:-$pid}
cd /repo && git status --porcelain | grep -q . && { echo "/repo not clean"; exit 9; }
git -C /repo apply $dir/patch.diff || { echo "patch does not apply"; exit 8; }
cd /verif
start=$(date +%s)
out=$(./check $pid $tier 2>&1); rc=$?
end=$(date +%s)
git -C /repo checkout -- . ; git -C /repo clean -fdq
echo "$name prop=$pid rc=$rc time=$((end-start))s :: $(echo "$out" | grep -E 'VIOLATION|KNOWN' | head -3 | tr '\n' ' ')"
