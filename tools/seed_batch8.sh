#!/bin/bash
# usage: seed_batch7.sh verify|run <Cxx> ...  — round-8 outputs /tmp/seed8/out-Cxx/{m1,m2} → /verif/seeded/Cxx-m15, Cxx-m16
export GOFLAGS=-mod=mod GOPROXY=off GOSUMDB=off GOTOOLCHAIN=local
mode=$1; shift
for p in "$@"; do
  for k in 1 2; do
    src=/tmp/seed8/out-$p/m$k; name=$p-m$((k+14))
    if [ "$mode" = verify ]; then
      [ -f $src/patch.diff ] || { echo "$name: no patch"; continue; }
      python3 /verif/tools/seed_verify.py $src $name 2>&1 | tail -1
    else
      [ -d /verif/seeded/$name ] && /verif/tools/seed_run.sh $name quick
    fi
  done
done
