#!/usr/bin/env python3
"""Confirm a seeded change in a scratch worktree of /repo (outside /repo and /verif), then store it under /verif/seeded/<name>/.
usage: seed_verify.py <srcdir with patch.diff demo_test.go notes.json> <name>"""
import json, os, shutil, subprocess, sys
ENV = dict(os.environ, GOFLAGS="-mod=mod", GOPROXY="off", GOSUMDB="off", GOTOOLCHAIN="local")
def sh(cmd, cwd):
    r = subprocess.run(cmd, cwd=cwd, env=ENV, shell=True, stdout=subprocess.PIPE, stderr=subprocess.STDOUT, text=True, timeout=1200)
    return r.returncode, r.stdout
def main():
    src, name = sys.argv[1], sys.argv[2]
    wt = f"/tmp/sv-{name}"
    subprocess.run(["git", "-C", "/repo", "worktree", "remove", "--force", wt], stderr=subprocess.DEVNULL)
    subprocess.run(["git", "-C", "/repo", "worktree", "add", "--detach", "-q", wt, "HEAD"], check=True)
    res = {}
    try:
        demo_dir = os.path.join(wt, "demoseed")
        os.makedirs(demo_dir)
        shutil.copy(os.path.join(src, "demo_test.go"), os.path.join(demo_dir, "demo_test.go"))
        rc, out = sh("go test -vet=off -count=1 ./demoseed/", wt); res["demo_without_patch_rc"] = rc; res["demo_without_tail"] = out[-600:]
        rc, out = sh(f"git apply {os.path.join(src, 'patch.diff')}", wt); res["apply_rc"] = rc; res["apply_out"] = out[-300:]
        rc, out = sh("go build ./... && go test -vet=off -count=1 $(go list ./... | grep -v demoseed)", wt); res["suite_with_patch_rc"] = rc; res["suite_tail"] = out[-600:]
        rc, out = sh("go test -vet=off -count=1 ./demoseed/", wt); res["demo_with_patch_rc"] = rc; res["demo_with_tail"] = out[-1200:]
    finally:
        subprocess.run(["git", "-C", "/repo", "worktree", "remove", "--force", wt])
    ok = res.get("demo_without_patch_rc") == 0 and res.get("apply_rc") == 0 and res.get("suite_with_patch_rc") == 0 and res.get("demo_with_patch_rc") not in (0, None)
    res["confirmed"] = ok
    notes = json.load(open(os.path.join(src, "notes.json")))
    if ok:
        dst = f"/verif/seeded/{name}"
        os.makedirs(dst, exist_ok=True)
        shutil.copy(os.path.join(src, "patch.diff"), dst)
        shutil.copy(os.path.join(src, "demo_test.go"), dst)
        meta = dict(property=notes.get("property"), summary=notes.get("summary"), needs=notes.get("needs"),
                    base_commit=subprocess.run(["git", "-C", "/repo", "rev-parse", "--short", "HEAD"], stdout=subprocess.PIPE, text=True).stdout.strip(),
                    confirmed_by="tools/seed_verify.py in a scratch worktree: demo passes on the unchanged tree, patch applies, `go build ./...` and the whole existing suite pass with the patch, demo fails with the patch",
                    demo_cmd="copy demo_test.go to <worktree>/demoseed/demo_test.go; go test -vet=off -count=1 ./demoseed/",
                    demo_failure_excerpt=res["demo_with_tail"][-500:])
        json.dump(meta, open(os.path.join(dst, "meta.json"), "w"), indent=1)
    print(json.dumps({k: v for k, v in res.items() if not k.endswith("tail") and k != "apply_out"}), name)
    if not ok:
        print(json.dumps(res, indent=1)[:2500])
if __name__ == "__main__":
    main()
