#!/usr/bin/env python3
"""Re-confirm a stored seeded change against the current /repo HEAD (after a fix commit moved the base): scratch worktree
outside /repo and /verif; demo passes without the patch, patch applies, build + whole suite pass with it, demo fails.
usage: seed_reverify.py <name>..."""
import json, os, shutil, subprocess, sys
ENV = dict(os.environ, GOFLAGS="-mod=mod", GOPROXY="off", GOSUMDB="off", GOTOOLCHAIN="local")
def sh(cmd, cwd):
    r = subprocess.run(cmd, cwd=cwd, env=ENV, shell=True, stdout=subprocess.PIPE, stderr=subprocess.STDOUT, text=True, timeout=1800)
    return r.returncode, r.stdout
for name in sys.argv[1:]:
    d = f"/verif/seeded/{name}"; wt = f"/tmp/sv-{name}"
    subprocess.run(["git", "-C", "/repo", "worktree", "remove", "--force", wt], stderr=subprocess.DEVNULL)
    subprocess.run(["git", "-C", "/repo", "worktree", "add", "--detach", "-q", wt, "HEAD"], check=True)
    try:
        os.makedirs(wt + "/demoseed"); shutil.copy(d + "/demo_test.go", wt + "/demoseed/demo_test.go")
        a, _ = sh("go test -vet=off -count=1 ./demoseed/", wt)
        b, _ = sh(f"git apply {d}/patch.diff", wt)
        c, o = sh("go build ./... && go test -vet=off -count=1 $(go list ./... | grep -v demoseed)", wt)
        e, out = sh("go test -vet=off -count=1 ./demoseed/", wt)
    finally:
        subprocess.run(["git", "-C", "/repo", "worktree", "remove", "--force", wt])
    ok = a == 0 and b == 0 and c == 0 and e != 0
    print(name, "demo_without", a, "apply", b, "suite", c, "demo_with", e, "CONFIRMED" if ok else "NOT CONFIRMED")
    if ok:
        m = json.load(open(d + "/meta.json"))
        m["base_commit"] = subprocess.run(["git", "-C", "/repo", "rev-parse", "--short", "HEAD"], stdout=subprocess.PIPE, text=True).stdout.strip()
        m["demo_failure_excerpt"] = out[-500:]
        json.dump(m, open(d + "/meta.json", "w"), indent=1)
