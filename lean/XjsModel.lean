import XjsModel.Model.Token
import XjsModel.Model.Lexer
import XjsModel.Model.Ast
import XjsModel.Model.Parser
import XjsModel.Model.SourceMap
import XjsModel.Model.Writer
import XjsModel.Model.Printer
import XjsModel.Model.Builder
