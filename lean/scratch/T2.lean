import XjsModel.Proofs.Lexer
open Xjs
example (c : Nat) (r : Bytes) (t : Trivia) (hw' : isWs c = false) (e47 : (c == 47) = false) : (scanTrivia (c :: r) none t) = t := by
  rw [scanTrivia.eq_def]
  simp [hw', e47]
example (r : Bytes) (t : Trivia)  : (scanTrivia (47 :: 47 :: r) none t) = scanTrivia r (some []) { t with len := t.len + 2 } := by
  rw [scanTrivia.eq_def]
  simp [isWs]
example (c : Nat) (r : Bytes) (t : Trivia) (hw : isWs c = true) (e : (c == 10) = false) : (scanTrivia (c :: r) none t) = scanTrivia r none { t with len := t.len + 1 } := by
  rw [scanTrivia.eq_def]
  simp [hw, e]
