import XjsModel.Proofs.ParserFrame
open Xjs
example (a b : Nat) (h : b = if 2 ≤ a then a - 1 else a) (h2 : 1 ≤ a) : b ≤ a ∧ 1 ≤ b := by omega
example (cfg : PCfg) (st : PS) : (match expectToken .lparen st with | (ok, s) => if !ok then some (1, s) else some (2, s.next)).isSome = true := by
  generalize hx : expectToken _ _ = x
  obtain ⟨ok, s'⟩ := x
  cases ok <;> simp
