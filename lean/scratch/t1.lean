import XjsModel.Proofs.ParserSteps
open Xjs
example (cfg : PCfg) (pE : List EI → Nat → PS → Option (Expr × PS))
   (ihE : ∀ is prec st x st', pE is prec st = some (x, st') → ∀ s0, Steps s0 st → Steps s0 st')
   (st : PS) (r : Stmt × PS)
   (h : (do
                    let x ← pE cfg.exprI LOWEST st
                    match x with
                      | (e, st) =>
                        match expectSemiASI cfg st with
                        | (ok, st) => if (!ok) = true then some (Stmt.none, st) else some (Stmt.exprS e, st)) =
                  some r) : ∀ s0, Steps s0 st → Steps s0 r.2 := by
  intro s0 hs
  pdecomp h
  all_goals dsimp only
  all_goals solve_by_elim (maxDepth := 15) [Steps.next, steps_expectSemi', steps_expectToken', Steps.refl, steps_addError]
