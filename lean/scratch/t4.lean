import XjsModel.Model.Parser
open Xjs
#check @parseStatementI.mutual_partial_correctness
