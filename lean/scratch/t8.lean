import XjsModel.Proofs.ParserFrame
open Xjs
def tk (ty : TokType) (lit : Bytes) (c : Nat) : Token := { type := ty, lit := lit, sl := 0, sc := c, el := 0, ec := c + 1 }
def demo : List Token := [tk .lbrace [123] 0, tk .ident [97] 2, tk .rbrace [125] 4, tk .eof [] 5]

set_option maxRecDepth 4000 in
example : ((parseProgram { stmtI := [⟨7⟩] } demo).map
    (fun r => (r.final.ctx, r.final.trace.map (fun e => (e.cur.type, e.inFunction, e.ctx, e.depth))))) =
    some ([.global], [(.lbrace, false, .global, 1), (.ident, false, .block, 2)]) := by
  simp [parseProgram, programLoop, parseStatementI, baseParseStatement, parseBlockStatement, blockLoop,
    parseExpressionStatement, parseExpressionI, parsePrefixExpression, parseRemaining, demo, tk, PS.init, PS.cur, PS.peek, PS.next,
    PS.push, PS.pop, PS.event, lookup, basePrefixFns, identOfCur, peekPrecedence, precOf, basePrecedences, expectSemiASI,
    shouldInsertSemicolon, PS.isInFunction, PS.currentContext, LOWEST]
