import XjsModel.Proofs.ParserTol
/-
  The tolerant-mode pass (C13 a): every strict-mode run either recorded an error or is, step for step, also the
  tolerant-mode run.
-/
namespace Xjs
set_option linter.unusedSimpArgs false

def TolM {α : Type} (f : PS → Option (α × PS)) (st : PS) (r : α × PS) : Prop :=
  st.elen ≤ r.2.elen ∧ (f st = some r ∨ st.elen < r.2.elen)

/-- closes one leaf: split every induction-hypothesis disjunction; a branch with a recorded error is closed by
    arithmetic, the error-free branch by unfolding the tolerant function once and rewriting with the facts -/
syntax "tol_close " ident : tactic
macro_rules
  | `(tactic| tol_close $f:ident) => `(tactic| (
      have hfp := @elen_parseFunctionParameters
      simp only [elen_next, elen_push, elen_pop, elen_addError, elen_addErrorAt, elen_set, elen_setPrec, elen_setTrace,
        elen_expectToken, elen_expectSemi] at *
      repeat' (obtain ⟨_, _ | _⟩ := ‹_ ≤ _ ∧ (_ ∨ _)›)
      all_goals first
        | (refine ⟨by simp_all [expErr, semiErr] <;> omega, Or.inr (by simp_all [expErr, semiErr] <;> omega)⟩)
        | (refine ⟨by simp_all [expErr, semiErr] <;> omega, Or.inl ?_⟩; rw [$f:ident]; simp_all [expErr, semiErr, tol_expectSemi_of_ok])))

set_option maxHeartbeats 400000 in
theorem tol_mutual (cfg : PCfg) :
    (∀ is st r, parseStatementI cfg.strict is st = some r → TolM (parseStatementI cfg.tol is) st r) ∧
    (∀ st r, baseParseStatement cfg.strict st = some r → TolM (baseParseStatement cfg.tol) st r) ∧
    (∀ st r, parseExpressionStatement cfg.strict st = some r → TolM (parseExpressionStatement cfg.tol) st r) ∧
    (∀ is prec st r, parseExpressionI cfg.strict is prec st = some r → TolM (parseExpressionI cfg.tol is prec) st r) ∧
    (∀ left prec st r, parseRemaining cfg.strict left prec st = some r → TolM (parseRemaining cfg.tol left prec) st r) ∧
    (∀ left st r, parseInfixExpression cfg.strict left st = some r → TolM (parseInfixExpression cfg.tol left) st r) ∧
    (∀ endTy st r, parseExpressionList cfg.strict endTy st = some r → TolM (parseExpressionList cfg.tol endTy) st r) ∧
    (∀ acc st r, exprListLoop cfg.strict acc st = some r → TolM (exprListLoop cfg.tol acc) st r) ∧
    (∀ st r, parsePrefixExpression cfg.strict st = some r → TolM (parsePrefixExpression cfg.tol) st r) ∧
    (∀ st r, parseFunctionExpression cfg.strict st = some r → TolM (parseFunctionExpression cfg.tol) st r) ∧
    (∀ st r, parseBlockStatement cfg.strict st = some r → TolM (parseBlockStatement cfg.tol) st r) ∧
    (∀ acc st r, blockLoop cfg.strict acc st = some r → TolM (blockLoop cfg.tol acc) st r) ∧
    (∀ st r, parseObjectLiteral cfg.strict st = some r → TolM (parseObjectLiteral cfg.tol) st r) ∧
    (∀ acc st r, objectLoop cfg.strict acc st = some r → TolM (objectLoop cfg.tol acc) st r) ∧
    (∀ st r, parseForStatement cfg.strict st = some r → TolM (parseForStatement cfg.tol) st r) ∧
    (∀ st r, parseForInit cfg.strict st = some r → TolM (parseForInit cfg.tol) st r) ∧
    (∀ st r, parseLetExpression cfg.strict st = some r → TolM (parseLetExpression cfg.tol) st r) ∧
    (∀ st r, parseWhileStatement cfg.strict st = some r → TolM (parseWhileStatement cfg.tol) st r) ∧
    (∀ st r, parseIfStatement cfg.strict st = some r → TolM (parseIfStatement cfg.tol) st r) ∧
    (∀ st r, parseReturnStatement cfg.strict st = some r → TolM (parseReturnStatement cfg.tol) st r) ∧
    (∀ st r, parseFunctionStatement cfg.strict st = some r → TolM (parseFunctionStatement cfg.tol) st r) ∧
    (∀ st r, parseLetStatement cfg.strict st = some r → TolM (parseLetStatement cfg.tol) st r) := by
  refine parseStatementI.mutual_partial_correctness cfg.strict
    (fun is st r => TolM (parseStatementI cfg.tol is) st r)
    (fun st r => TolM (baseParseStatement cfg.tol) st r)
    (fun st r => TolM (parseExpressionStatement cfg.tol) st r)
    (fun is prec st r => TolM (parseExpressionI cfg.tol is prec) st r)
    (fun left prec st r => TolM (parseRemaining cfg.tol left prec) st r)
    (fun left st r => TolM (parseInfixExpression cfg.tol left) st r)
    (fun endTy st r => TolM (parseExpressionList cfg.tol endTy) st r)
    (fun acc st r => TolM (exprListLoop cfg.tol acc) st r)
    (fun st r => TolM (parsePrefixExpression cfg.tol) st r)
    (fun st r => TolM (parseFunctionExpression cfg.tol) st r)
    (fun st r => TolM (parseBlockStatement cfg.tol) st r)
    (fun acc st r => TolM (blockLoop cfg.tol acc) st r)
    (fun st r => TolM (parseObjectLiteral cfg.tol) st r)
    (fun acc st r => TolM (objectLoop cfg.tol acc) st r)
    (fun st r => TolM (parseForStatement cfg.tol) st r)
    (fun st r => TolM (parseForInit cfg.tol) st r)
    (fun st r => TolM (parseLetExpression cfg.tol) st r)
    (fun st r => TolM (parseWhileStatement cfg.tol) st r)
    (fun st r => TolM (parseIfStatement cfg.tol) st r)
    (fun st r => TolM (parseReturnStatement cfg.tol) st r)
    (fun st r => TolM (parseFunctionStatement cfg.tol) st r)
    (fun st r => TolM (parseLetStatement cfg.tol) st r)
    ?_ ?_ ?_ ?_ ?_ ?_ ?_ ?_ ?_ ?_ ?_ ?_ ?_ ?_ ?_ ?_ ?_ ?_ ?_ ?_ ?_ ?_
  case refine_22 =>
    intro pE ih_pE st r h
    replace ih_pE := curry3 ih_pE
    dsimp only [TolM] at ih_pE ⊢
    obtain ⟨x, st'⟩ := r
    pdecompD h [ih_pE]
    all_goals clear ih_pE
    all_goals (simp only [elen_next, elen_push, elen_pop, elen_addError, elen_addErrorAt, elen_set, elen_setPrec, elen_setTrace,
        elen_expectToken, elen_expectSemi] at *)
    all_goals first
      | (refine ⟨?_, Or.inr ?_⟩ <;> first | omega | (simp_all [expErr, semiErr] <;> omega))
      | (refine ⟨?_, Or.inl ?_⟩
         · first | omega | (simp_all [expErr, semiErr] <;> omega)
         · rw [parseLetStatement]; simp_all [expErr, semiErr, tol_expectSemi_of_ok])
  all_goals sorry
end Xjs
