import XjsModel.Model.Parser
open Xjs
#check @parseStatementI.partial_correctness
