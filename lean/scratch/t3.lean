import XjsModel.Proofs.ParserSteps
open Xjs
set_option maxHeartbeats 4000000 in
attribute [local irreducible] PS.pop PS.push PS.addError PS.addErrorAt PS.next in
theorem steps_all (cfg : PCfg) : ∀ is st r, parseStatementI cfg is st = some r → StepsM st r.2 := by
  refine parseStatementI.partial_correctness cfg
    (fun _ st r => StepsM st r.2) (fun st r => StepsM st r.2) (fun st r => StepsM st r.2)
    (fun _ _ st r => StepsM st r.2) (fun _ _ st r => StepsM st r.2) (fun _ st r => StepsM st r.2)
    (fun _ st r => StepsM st r.2) (fun _ st r => StepsM st r.2)
    (fun st r => StepsM st r.2) (fun st r => StepsM st r.2) (fun st r => StepsM st r.2)
    (fun _ st r => StepsM st r.2) (fun st r => StepsM st r.2) (fun _ st r => StepsM st r.2)
    (fun st r => StepsM st r.2) (fun st r => StepsM st r.2) (fun st r => StepsM st r.2)
    (fun st r => StepsM st r.2) (fun st r => StepsM st r.2) (fun st r => StepsM st r.2)
    (fun st r => StepsM st r.2) (fun st r => StepsM st r.2)
    ?_ ?_ ?_ ?_ ?_ ?_ ?_ ?_ ?_ ?_ ?_ ?_ ?_ ?_ ?_ ?_ ?_ ?_ ?_ ?_ ?_ ?_
  case refine_15 =>
    intro pS pE pFI ihS ihE ihF st r h s0 hs
    replace ihS := curry2 ihS; replace ihE := curry3 ihE; replace ihF := curry1 ihF
    dsimp only [StepsM] at ihS ihE ihF
    pdecomp h
    all_goals steps_chain [ihS, ihE, ihF]
  all_goals sorry
