import XjsModel.Proofs.ParserSteps
/-
  The frame pass: every function of the parser's mutual block satisfies `Steps st r.2`
  (one pass with the partial-correctness principle of the fixed-point definition).
-/
namespace Xjs

set_option maxHeartbeats 1600000 in
attribute [local irreducible] PS.pop PS.push PS.addError PS.addErrorAt PS.next in
theorem steps_mutual (cfg : PCfg) :
    (∀ is st r, parseStatementI cfg is st = some r → StepsM st r.2) ∧
    (∀ st r, baseParseStatement cfg st = some r → StepsM st r.2) ∧
    (∀ st r, parseExpressionStatement cfg st = some r → StepsM st r.2) ∧
    (∀ is prec st r, parseExpressionI cfg is prec st = some r → StepsM st r.2) ∧
    (∀ left prec st r, parseRemaining cfg left prec st = some r → StepsM st r.2) ∧
    (∀ left st r, parseInfixExpression cfg left st = some r → StepsM st r.2) ∧
    (∀ endTy st r, parseExpressionList cfg endTy st = some r → StepsM st r.2) ∧
    (∀ acc st r, exprListLoop cfg acc st = some r → StepsM st r.2) ∧
    (∀ st r, parsePrefixExpression cfg st = some r → StepsM st r.2) ∧
    (∀ st r, parseFunctionExpression cfg st = some r → StepsM st r.2) ∧
    (∀ st r, parseBlockStatement cfg st = some r → StepsM st r.2) ∧
    (∀ acc st r, blockLoop cfg acc st = some r → StepsM st r.2) ∧
    (∀ st r, parseObjectLiteral cfg st = some r → StepsM st r.2) ∧
    (∀ acc st r, objectLoop cfg acc st = some r → StepsM st r.2) ∧
    (∀ st r, parseForStatement cfg st = some r → StepsM st r.2) ∧
    (∀ st r, parseForInit cfg st = some r → StepsM st r.2) ∧
    (∀ st r, parseLetExpression cfg st = some r → StepsM st r.2) ∧
    (∀ st r, parseWhileStatement cfg st = some r → StepsM st r.2) ∧
    (∀ st r, parseIfStatement cfg st = some r → StepsM st r.2) ∧
    (∀ st r, parseReturnStatement cfg st = some r → StepsM st r.2) ∧
    (∀ st r, parseFunctionStatement cfg st = some r → StepsM st r.2) ∧
    (∀ st r, parseLetStatement cfg st = some r → StepsM st r.2) := by
  refine parseStatementI.mutual_partial_correctness cfg
    (fun _ st r => StepsM st r.2)
    (fun st r => StepsM st r.2)
    (fun st r => StepsM st r.2)
    (fun _ _ st r => StepsM st r.2)
    (fun _ _ st r => StepsM st r.2)
    (fun _ st r => StepsM st r.2)
    (fun _ st r => StepsM st r.2)
    (fun _ st r => StepsM st r.2)
    (fun st r => StepsM st r.2)
    (fun st r => StepsM st r.2)
    (fun st r => StepsM st r.2)
    (fun _ st r => StepsM st r.2)
    (fun st r => StepsM st r.2)
    (fun _ st r => StepsM st r.2)
    (fun st r => StepsM st r.2)
    (fun st r => StepsM st r.2)
    (fun st r => StepsM st r.2)
    (fun st r => StepsM st r.2)
    (fun st r => StepsM st r.2)
    (fun st r => StepsM st r.2)
    (fun st r => StepsM st r.2)
    (fun st r => StepsM st r.2)
    ?_ ?_ ?_ ?_ ?_ ?_ ?_ ?_ ?_ ?_ ?_ ?_ ?_ ?_ ?_ ?_ ?_ ?_ ?_ ?_ ?_ ?_
  · -- parseStatementI
    intro pS bS ih_pS ih_bS is st r h s0 hs
    replace ih_pS := curry2 ih_pS; replace ih_bS := curry1 ih_bS
    dsimp only [StepsM] at ih_pS ih_bS
    pdecomp h
    · steps_chain [ih_pS, ih_bS]
    · apply ih_pS; assumption
      exact .trace _ hs
  · -- baseParseStatement
    intro f1 f2 f3 f4 f5 f6 f7 f8 ih_f1 ih_f2 ih_f3 ih_f4 ih_f5 ih_f6 ih_f7 ih_f8  st r h s0 hs
    replace ih_f1 := curry1 ih_f1; replace ih_f2 := curry1 ih_f2; replace ih_f3 := curry1 ih_f3; replace ih_f4 := curry1 ih_f4; replace ih_f5 := curry1 ih_f5; replace ih_f6 := curry1 ih_f6; replace ih_f7 := curry1 ih_f7; replace ih_f8 := curry1 ih_f8
    dsimp only [StepsM] at ih_f1 ih_f2 ih_f3 ih_f4 ih_f5 ih_f6 ih_f7 ih_f8
    obtain ⟨x, st'⟩ := r
    split at h
    all_goals steps_chain [ih_f1, ih_f2, ih_f3, ih_f4, ih_f5, ih_f6, ih_f7, ih_f8]
  · -- parseExpressionStatement
    intro pE ih_pE  st r h s0 hs
    replace ih_pE := curry3 ih_pE
    dsimp only [StepsM] at ih_pE
    pdecomp h
    all_goals steps_chain [ih_pE]
  · -- parseExpressionI
    intro pE pR pP ih_pE ih_pR ih_pP is prec st r h s0 hs
    replace ih_pE := curry3 ih_pE; replace ih_pR := curry3 ih_pR; replace ih_pP := curry1 ih_pP
    dsimp only [StepsM] at ih_pE ih_pR ih_pP
    pdecomp h
    · steps_chain [ih_pE, ih_pR, ih_pP]
    · apply steps_prec hs; steps_chain0 [ih_pE, ih_pR, ih_pP]
    · apply steps_prec hs; steps_chain0 [ih_pE, ih_pR, ih_pP]
  · -- parseRemaining
    intro pR pI ih_pR ih_pI left prec st r h s0 hs
    replace ih_pR := curry3 ih_pR; replace ih_pI := curry2 ih_pI
    dsimp only [StepsM] at ih_pR ih_pI
    pdecomp h
    all_goals steps_chain [ih_pR, ih_pI]
  · -- parseInfixExpression
    intro pE pL ih_pE ih_pL left st r h s0 hs
    replace ih_pE := curry3 ih_pE; replace ih_pL := curry2 ih_pL
    dsimp only [StepsM] at ih_pE ih_pL
    pdecomp h
    all_goals steps_chain [ih_pE, ih_pL]
  · -- parseExpressionList
    intro pE eL ih_pE ih_eL endTy st r h s0 hs
    replace ih_pE := curry3 ih_pE; replace ih_eL := curry2 ih_eL
    dsimp only [StepsM] at ih_pE ih_eL
    pdecomp h
    all_goals steps_chain [ih_pE, ih_eL]
  · -- exprListLoop
    intro pE eL ih_pE ih_eL acc st r h s0 hs
    replace ih_pE := curry3 ih_pE; replace ih_eL := curry2 ih_eL
    dsimp only [StepsM] at ih_pE ih_eL
    pdecomp h
    all_goals steps_chain [ih_pE, ih_eL]
  · -- parsePrefixExpression
    intro pE pL pFE pO ih_pE ih_pL ih_pFE ih_pO  st r h s0 hs
    replace ih_pE := curry3 ih_pE; replace ih_pL := curry2 ih_pL; replace ih_pFE := curry1 ih_pFE; replace ih_pO := curry1 ih_pO
    dsimp only [StepsM] at ih_pE ih_pL ih_pFE ih_pO
    obtain ⟨x, st'⟩ := r
    pdecomp h
    all_goals steps_chain [ih_pE, ih_pL, ih_pFE, ih_pO]
  · -- parseFunctionExpression
    intro pB ih_pB  st r h s0 hs
    replace ih_pB := curry1 ih_pB
    dsimp only [StepsM] at ih_pB
    pdecomp h
    any_goals (dsimp only; refine @steps_ctx _ ?st _ ?c ?a ?b; (case b => steps_chain0 [ih_pB]); (case a => steps_chain [ih_pB]))
    all_goals steps_chain [ih_pB]
  · -- parseBlockStatement
    intro bL ih_bL  st r h s0 hs
    replace ih_bL := curry2 ih_bL
    dsimp only [StepsM] at ih_bL
    pdecomp h
    all_goals first
      | (dsimp only; refine @steps_ctx _ ?st _ ?c ?a ?b; (case b => steps_chain0 [ih_bL]); (case a => steps_chain [ih_bL]))
      | steps_chain [ih_bL]
  · -- blockLoop
    intro pS bL ih_pS ih_bL acc st r h s0 hs
    replace ih_pS := curry2 ih_pS; replace ih_bL := curry2 ih_bL
    dsimp only [StepsM] at ih_pS ih_bL
    pdecomp h
    all_goals steps_chain [ih_pS, ih_bL]
  · -- parseObjectLiteral
    intro oL ih_oL  st r h s0 hs
    replace ih_oL := curry2 ih_oL
    dsimp only [StepsM] at ih_oL
    pdecomp h
    all_goals steps_chain [ih_oL]
  · -- objectLoop
    intro pE oL ih_pE ih_oL acc st r h s0 hs
    replace ih_pE := curry3 ih_pE; replace ih_oL := curry2 ih_oL
    dsimp only [StepsM] at ih_pE ih_oL
    pdecomp h
    all_goals steps_chain [ih_pE, ih_oL]
  · -- parseForStatement
    intro pS pE pFI ih_pS ih_pE ih_pFI  st r h s0 hs
    replace ih_pS := curry2 ih_pS; replace ih_pE := curry3 ih_pE; replace ih_pFI := curry1 ih_pFI
    dsimp only [StepsM] at ih_pS ih_pE ih_pFI
    pdecomp h
    all_goals steps_chain [ih_pS, ih_pE, ih_pFI]
  · -- parseForInit
    intro pE pLE ih_pE ih_pLE  st r h s0 hs
    replace ih_pE := curry3 ih_pE; replace ih_pLE := curry1 ih_pLE
    dsimp only [StepsM] at ih_pE ih_pLE
    pdecomp h
    all_goals steps_chain [ih_pE, ih_pLE]
  · -- parseLetExpression
    intro pE ih_pE  st r h s0 hs
    replace ih_pE := curry3 ih_pE
    dsimp only [StepsM] at ih_pE
    pdecomp h
    all_goals steps_chain [ih_pE]
  · -- parseWhileStatement
    intro pS pE ih_pS ih_pE  st r h s0 hs
    replace ih_pS := curry2 ih_pS; replace ih_pE := curry3 ih_pE
    dsimp only [StepsM] at ih_pS ih_pE
    pdecomp h
    all_goals steps_chain [ih_pS, ih_pE]
  · -- parseIfStatement
    intro pS pE ih_pS ih_pE  st r h s0 hs
    replace ih_pS := curry2 ih_pS; replace ih_pE := curry3 ih_pE
    dsimp only [StepsM] at ih_pS ih_pE
    pdecomp h
    all_goals steps_chain [ih_pS, ih_pE]
  · -- parseReturnStatement
    intro pE ih_pE  st r h s0 hs
    replace ih_pE := curry3 ih_pE
    dsimp only [StepsM] at ih_pE
    pdecomp h
    all_goals steps_chain [ih_pE]
  · -- parseFunctionStatement
    intro pB ih_pB  st r h s0 hs
    replace ih_pB := curry1 ih_pB
    dsimp only [StepsM] at ih_pB
    pdecomp h
    all_goals first
      | (dsimp only; refine @steps_ctx _ ?st _ ?c ?a ?b; (case b => steps_chain0 [ih_pB]); (case a => steps_chain [ih_pB]))
      | steps_chain [ih_pB]
  · -- parseLetStatement
    intro pE ih_pE  st r h s0 hs
    replace ih_pE := curry3 ih_pE
    dsimp only [StepsM] at ih_pE
    pdecomp h
    all_goals steps_chain [ih_pE]

end Xjs
