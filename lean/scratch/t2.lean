import XjsModel.Proofs.ParserSteps
open Xjs

attribute [local irreducible] PS.pop PS.push PS.addError PS.addErrorAt PS.next in
theorem steps_all (cfg : PCfg) : ∀ is st r, parseStatementI cfg is st = some r → StepsM st r.2 := by
  refine parseStatementI.partial_correctness cfg
    (fun _ st r => StepsM st r.2) (fun st r => StepsM st r.2) (fun st r => StepsM st r.2)
    (fun _ _ st r => StepsM st r.2) (fun _ _ st r => StepsM st r.2) (fun _ st r => StepsM st r.2)
    (fun _ st r => StepsM st r.2) (fun _ st r => StepsM st r.2)
    (fun st r => StepsM st r.2) (fun st r => StepsM st r.2) (fun st r => StepsM st r.2)
    (fun _ st r => StepsM st r.2) (fun st r => StepsM st r.2) (fun _ st r => StepsM st r.2)
    (fun st r => StepsM st r.2) (fun st r => StepsM st r.2) (fun st r => StepsM st r.2)
    (fun st r => StepsM st r.2) (fun st r => StepsM st r.2) (fun st r => StepsM st r.2)
    (fun st r => StepsM st r.2) (fun st r => StepsM st r.2)
    ?_ ?_ ?_ ?_ ?_ ?_ ?_ ?_ ?_ ?_ ?_ ?_ ?_ ?_ ?_ ?_ ?_ ?_ ?_ ?_ ?_ ?_
  · -- parseStatementI
    intro pS bS ihS ihB is st r h s0 hs
    replace ihS := curry2 ihS; replace ihB := curry1 ihB
    dsimp only [StepsM] at ihS ihB
    pdecomp h
    · steps_close
    · rename_i hx
      exact ihS _ _ _ _ hx _ (.trace _ hs)
  · -- baseParseStatement
    intro f1 f2 f3 f4 f5 f6 f7 f8 i1 i2 i3 i4 i5 i6 i7 i8 st r h s0 hs
    replace i1 := curry1 i1; replace i2 := curry1 i2; replace i3 := curry1 i3; replace i4 := curry1 i4
    replace i5 := curry1 i5; replace i6 := curry1 i6; replace i7 := curry1 i7; replace i8 := curry1 i8
    dsimp only [StepsM] at i1 i2 i3 i4 i5 i6 i7 i8
    obtain ⟨x, st'⟩ := r
    split at h <;> steps_close
  · -- parseExpressionStatement
    intro pE ihE st r h s0 hs
    replace ihE := curry3 ihE
    dsimp only [StepsM] at ihE
    pdecomp h
    all_goals steps_close
  · -- parseExpressionI
    intro pE pR pP ihE ihR ihP is prec st r h s0 hs
    replace ihE := curry3 ihE; replace ihR := curry3 ihR; replace ihP := curry1 ihP
    dsimp only [StepsM] at ihE ihR ihP
    pdecomp h
    · steps_close
    · apply steps_prec hs
      steps_close0
    · apply steps_prec hs
      steps_close0
  · -- parseRemaining
    intro pR pI ihR ihI left prec st r h s0 hs
    replace ihR := curry3 ihR; replace ihI := curry2 ihI
    dsimp only [StepsM] at ihR ihI
    pdecomp h
    all_goals steps_close
  · -- parseInfixExpression
    intro pE pL ihE ihL left st r h s0 hs
    replace ihE := curry3 ihE; replace ihL := curry2 ihL
    dsimp only [StepsM] at ihE ihL
    pdecomp h
    all_goals steps_close
  · -- parseExpressionList
    intro pE eL ihE ihL endTy st r h s0 hs
    replace ihE := curry3 ihE; replace ihL := curry2 ihL
    dsimp only [StepsM] at ihE ihL
    pdecomp h
    all_goals steps_close
  · -- exprListLoop
    intro pE eL ihE ihL acc st r h s0 hs
    replace ihE := curry3 ihE; replace ihL := curry2 ihL
    dsimp only [StepsM] at ihE ihL
    pdecomp h
    all_goals steps_close
  · -- parsePrefixExpression
    intro pE pL pFE pO ihE ihL ihF ihO st r h s0 hs
    replace ihE := curry3 ihE; replace ihL := curry2 ihL; replace ihF := curry1 ihF; replace ihO := curry1 ihO
    dsimp only [StepsM] at ihE ihL ihF ihO
    obtain ⟨x, st'⟩ := r
    pdecomp h
    all_goals steps_close
  · -- parseFunctionExpression
    intro pB ihB st r h s0 hs
    replace ihB := curry1 ihB
    dsimp only [StepsM] at ihB
    pdecomp h
    all_goals first | steps_bracket | steps_close
  · -- parseBlockStatement
    intro bL ihL st r h s0 hs
    replace ihL := curry2 ihL
    dsimp only [StepsM] at ihL
    pdecomp h
    all_goals first | steps_bracket | steps_close
  · -- blockLoop
    intro pS bL ihS ihL acc st r h s0 hs
    replace ihS := curry2 ihS; replace ihL := curry2 ihL
    dsimp only [StepsM] at ihS ihL
    pdecomp h
    all_goals first | steps_bracket | steps_close
  · -- parseObjectLiteral
    intro oL ihL st r h s0 hs
    replace ihL := curry2 ihL
    dsimp only [StepsM] at ihL
    pdecomp h
    all_goals first | steps_bracket | steps_close
  · -- objectLoop
    intro pE oL ihE ihL acc st r h s0 hs
    replace ihE := curry3 ihE; replace ihL := curry2 ihL
    dsimp only [StepsM] at ihE ihL
    pdecomp h
    all_goals first | steps_bracket | steps_close
  · -- parseForStatement
    intro pS pE pFI ihS ihE ihF st r h s0 hs
    replace ihS := curry2 ihS; replace ihE := curry3 ihE; replace ihF := curry1 ihF
    dsimp only [StepsM] at ihS ihE ihF
    pdecomp h
    all_goals first | steps_bracket | steps_close
  · -- parseForInit
    intro pE pLE ihE ihL st r h s0 hs
    replace ihE := curry3 ihE; replace ihL := curry1 ihL
    dsimp only [StepsM] at ihE ihL
    pdecomp h
    all_goals first | steps_bracket | steps_close
  · -- parseLetExpression
    intro pE ihE st r h s0 hs
    replace ihE := curry3 ihE
    dsimp only [StepsM] at ihE
    pdecomp h
    all_goals first | steps_bracket | steps_close
  · -- parseWhileStatement
    intro pS pE ihS ihE st r h s0 hs
    replace ihS := curry2 ihS; replace ihE := curry3 ihE
    dsimp only [StepsM] at ihS ihE
    pdecomp h
    all_goals first | steps_bracket | steps_close
  · -- parseIfStatement
    intro pS pE ihS ihE st r h s0 hs
    replace ihS := curry2 ihS; replace ihE := curry3 ihE
    dsimp only [StepsM] at ihS ihE
    pdecomp h
    all_goals first | steps_bracket | steps_close
  · -- parseReturnStatement
    intro pE ihE st r h s0 hs
    replace ihE := curry3 ihE
    dsimp only [StepsM] at ihE
    pdecomp h
    all_goals first | steps_bracket | steps_close
  · -- parseFunctionStatement
    intro pB ihB st r h s0 hs
    replace ihB := curry1 ihB
    dsimp only [StepsM] at ihB
    pdecomp h
    all_goals first | steps_bracket | steps_close
  · -- parseLetStatement
    intro pE ihE st r h s0 hs
    replace ihE := curry3 ihE
    dsimp only [StepsM] at ihE
    pdecomp h
    all_goals first | steps_bracket | steps_close
