import XjsModel.Proofs.ParserPlain
open Xjs
example (cfg : PCfg) (st : PS) (x : Stmt) (st' : PS) (f8 : PS → Option (Stmt × PS))
  (ih_f8 : ∀ (st : PS) (x : Stmt) (st' : PS),
    f8 st = some (x, st') → st'.curPrec = st.curPrec ∧ parseLetStatement cfg.plain st.strip = some (x, st'.strip))
  (h : f8 st = some (x, st')) (heq : st.cur.type = TokType.let_) :
  st'.curPrec = st.curPrec ∧ baseParseStatement cfg.plain st.strip = some (x, st'.strip) := by
  rw [baseParseStatement.eq_def]; simp only [strip_cur]
  trace_state
  simp only [heq]
  exact ih_f8 _ _ _ h
example (cfg : PCfg) (st : PS) (x : Stmt) (st' : PS) (f8 : PS → Option (Stmt × PS))
  (ih_f8 : ∀ (st : PS) (x : Stmt) (st' : PS),
    f8 st = some (x, st') → st'.curPrec = st.curPrec ∧ parseExpressionStatement cfg.plain st.strip = some (x, st'.strip))
  (h : f8 st = some (x, st')) (h1 : st.cur.type = TokType.let_ → False) (h2 : st.cur.type = TokType.function → False)
  (h3 : st.cur.type = TokType.return_ → False) (h4 : st.cur.type = TokType.if_ → False) (h5 : st.cur.type = TokType.while_ → False)
  (h6 : st.cur.type = TokType.for_ → False) (h7 : st.cur.type = TokType.lbrace → False) :
  st'.curPrec = st.curPrec ∧ baseParseStatement cfg.plain st.strip = some (x, st'.strip) := by
  rw [baseParseStatement.eq_def]; simp only [strip_cur]
  split <;> first | (exfalso; solve_by_elim) | exact ih_f8 _ _ _ h
