import XjsModel.Proofs.PrinterPos
open Xjs
example (cw : CW) (tok : Token) (hi : PosInv cw) : PosInv ((cw.head tok).writeString (strBytes "null")) := by
  refine PosInv.writeString ?_ _ (by first | exact NoCR_of_bnocr (by assumption) | exact NoCR_of_bnocr (by rfl))
  pos_step
