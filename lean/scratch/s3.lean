import XjsModel.Proofs.PrinterPos
open Xjs
example : bnocr (strBytes "null") = true := by decide +kernel
#print axioms Xjs.NoCR_of_bnocr
theorem t1 : bnocr (strBytes "function ") = true := by decide +kernel
#print axioms t1
