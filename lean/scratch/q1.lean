import XjsModel.Proofs.ParserTol
open Xjs
def TolM {α : Type} (f : PS → Option (α × PS)) (st : PS) (r : α × PS) : Prop :=
  st.elen ≤ r.2.elen ∧ (f st = some r ∨ st.elen < r.2.elen)

example (cfg : PCfg) (pE : List EI → Nat → PS → Option (Expr × PS))
   (ih_pE : ∀ is prec st x st', pE is prec st = some (x, st') → TolM (parseExpressionI cfg.tol is prec) st (x, st'))
   (st : PS) (x : Stmt) (st' : PS)
   (h : (let tok := st.cur;
                                                        match expectToken TokType.ident st with
                                                        | (ok, st) =>
                                                          if (!ok) = true then some (Stmt.none, st)
                                                          else
                                                            let name := identOfCur st;
                                                            if (st.peek.type == TokType.assign) = true then
                                                              let st := st.next.next;
                                                              do
                                                              let x ← pE cfg.strict.exprI LOWEST st
                                                              match x with
                                                              | (v, st) =>
        let (ok, st) := expectSemiASI cfg.strict st
        if !ok then some (.none, st) else some (.letS tok name v, st)
                                                            else
                                                              match expectSemiASI cfg.strict st with
                                                              | (ok, st) =>
                                                                if (!ok) = true then some (Stmt.none, st)
                                                                else some (Stmt.letS tok name Expr.none, st)) =
                                                        some (x, st')) : TolM (parseLetStatement cfg.tol) st (x, st') := by
  dsimp only [TolM] at ih_pE ⊢
  pdecompW h [ih_pE]
  all_goals trace_state
  all_goals sorry
