import XjsModel.Proofs.ParserTokens
import XjsModel.Proofs.Tactics
/-
  The token-faithfulness pass (C12, C01, C02): a parse step that records no error has consumed exactly the
  token sequence of the node it returns (without `;` and `,`), in order — nothing skipped, nothing invented.
-/
namespace Xjs
set_option linter.unusedSimpArgs false
set_option linter.unusedVariables false

syntax "tok_close" : tactic
macro_rules
  | `(tactic| tok_close) => `(tactic| (
      simp only [elen_next, elen_push, elen_pop, elen_addError, elen_addErrorAt, elen_set, elen_setPrec, elen_setTrace,
        elen_expectToken, elen_expectSemi] at *
      first
        | (refine ⟨?_, Or.inr ?_⟩ <;> first | omega | (simp_all [expErr, semiErr] <;> omega))
        | (refine ⟨?_, Or.inl ?_⟩
           · first | omega | (simp_all [expErr, semiErr] <;> omega)
           · first
               | (intro P hP; spec_all P
                  have hP' := append_ext hP
                  (simp_all (maxDischargeDepth := 6) [expErr, semiErr, Expr.flat, Stmt.flat, ExprList.flat, StmtList.flat, PropList.flat, ExprList.flat_snoc, StmtList.flat_snoc, PropList.flat_snoc, Expr.isNone, Stmt.isNone, identsFlat, F_cons_cons, F_cons_append, F_cons_eflat, F_cons_sflat, F_cons_elflat, F_cons_slflat, F_cons_plflat, F_cons_map, F_cons_ite, FL_expectToken_ok, FC_expectToken_ok, cur_expectToken_ok, FL_expectSemi_ok, next_cur, List.append_assoc]) <;> (try solve_by_elim); done)
               | (refine ⟨by simp_all [Expr.isNone], ?_⟩; intro P hP; spec_all P
                  have hP' := append_ext hP
                  (simp_all (maxDischargeDepth := 6) [expErr, semiErr, Expr.flat, Stmt.flat, ExprList.flat, StmtList.flat, PropList.flat, ExprList.flat_snoc, StmtList.flat_snoc, PropList.flat_snoc, Expr.isNone, Stmt.isNone, identsFlat, F_cons_cons, F_cons_append, F_cons_eflat, F_cons_sflat, F_cons_elflat, F_cons_slflat, F_cons_plflat, F_cons_map, F_cons_ite, FL_expectToken_ok, FC_expectToken_ok, cur_expectToken_ok, FL_expectSemi_ok, next_cur, List.append_assoc]) <;> (try solve_by_elim); done)
               | ((simp_all (maxDischargeDepth := 6) [expErr, semiErr, Expr.flat, Stmt.flat, ExprList.flat, StmtList.flat, PropList.flat, ExprList.flat_snoc, StmtList.flat_snoc, PropList.flat_snoc, Expr.isNone, Stmt.isNone, identsFlat, F_cons_cons, F_cons_append, F_cons_eflat, F_cons_sflat, F_cons_elflat, F_cons_slflat, F_cons_plflat, F_cons_map, F_cons_ite, FL_expectToken_ok, FC_expectToken_ok, cur_expectToken_ok, FL_expectSemi_ok, next_cur, List.append_assoc]) <;> (try solve_by_elim); done)
               | (spec_all (FC $(Lean.mkIdent `st)); (simp_all (maxDischargeDepth := 6) [expErr, semiErr, Expr.flat, Stmt.flat, ExprList.flat, StmtList.flat, PropList.flat, ExprList.flat_snoc, StmtList.flat_snoc, PropList.flat_snoc, Expr.isNone, Stmt.isNone, identsFlat, F_cons_cons, F_cons_append, F_cons_eflat, F_cons_sflat, F_cons_elflat, F_cons_slflat, F_cons_plflat, F_cons_map, F_cons_ite, FL_expectToken_ok, FC_expectToken_ok, cur_expectToken_ok, FL_expectSemi_ok, next_cur, List.append_assoc]) <;> (try solve_by_elim); done)
               | (spec_all (FL $(Lean.mkIdent `st)); (simp_all (maxDischargeDepth := 6) [expErr, semiErr, Expr.flat, Stmt.flat, ExprList.flat, StmtList.flat, PropList.flat, ExprList.flat_snoc, StmtList.flat_snoc, PropList.flat_snoc, Expr.isNone, Stmt.isNone, identsFlat, F_cons_cons, F_cons_append, F_cons_eflat, F_cons_sflat, F_cons_elflat, F_cons_slflat, F_cons_plflat, F_cons_map, F_cons_ite, FL_expectToken_ok, FC_expectToken_ok, cur_expectToken_ok, FL_expectSemi_ok, next_cur, List.append_assoc]) <;> (try solve_by_elim); done)
               | (spec_all (FL $(Lean.mkIdent `st)); simp only [FL_eq] at *; (simp_all (maxDischargeDepth := 6) [expErr, semiErr, Expr.flat, Stmt.flat, ExprList.flat, StmtList.flat, PropList.flat, ExprList.flat_snoc, StmtList.flat_snoc, PropList.flat_snoc, Expr.isNone, Stmt.isNone, identsFlat, F_cons_cons, F_cons_append, F_cons_eflat, F_cons_sflat, F_cons_elflat, F_cons_slflat, F_cons_plflat, F_cons_map, F_cons_ite, FL_expectToken_ok, FC_expectToken_ok, cur_expectToken_ok, FL_expectSemi_ok, next_cur, List.append_assoc]) <;> (try solve_by_elim); done))))

set_option maxHeartbeats 3200000 in
theorem tokens_mutual (cfg : PCfg) :
    (∀ is st r, parseStatementI cfg is st = some r → st.elen ≤ r.2.elen ∧ ((r.1.isNone = false ∧ FL r.2 = FC st ++ F r.1.flat) ∨ st.elen < r.2.elen)) ∧
    (∀ st r, baseParseStatement cfg st = some r → st.elen ≤ r.2.elen ∧ ((r.1.isNone = false ∧ FL r.2 = FC st ++ F r.1.flat) ∨ st.elen < r.2.elen)) ∧
    (∀ st r, parseExpressionStatement cfg st = some r → st.elen ≤ r.2.elen ∧ ((r.1.isNone = false ∧ FL r.2 = FC st ++ F r.1.flat) ∨ st.elen < r.2.elen)) ∧
    (∀ is prec st r, parseExpressionI cfg is prec st = some r → st.elen ≤ r.2.elen ∧ ((r.1.isNone = false ∧ FL r.2 = FC st ++ F r.1.flat) ∨ st.elen < r.2.elen)) ∧
    (∀ left prec st r, parseRemaining cfg left prec st = some r → st.elen ≤ r.2.elen ∧ (((left.isNone = false → r.1.isNone = false) ∧ ∀ P, FL st = P ++ F left.flat → FL r.2 = P ++ F r.1.flat) ∨ st.elen < r.2.elen)) ∧
    (∀ left st r, parseInfixExpression cfg left st = some r → st.elen ≤ r.2.elen ∧ (((left.isNone = false → r.1.isNone = false) ∧ ∀ P, FL st = P ++ F left.flat → FL r.2 = P ++ F r.1.flat) ∨ st.elen < r.2.elen)) ∧
    (∀ endTy st r, parseExpressionList cfg endTy st = some r → st.elen ≤ r.2.elen ∧ ((FL r.2 = FL st ++ F r.1.flat ++ F [endTy]) ∨ st.elen < r.2.elen)) ∧
    (∀ acc st r, exprListLoop cfg acc st = some r → st.elen ≤ r.2.elen ∧ ((∀ P, FL st = P ++ F acc.flat → FL r.2 = P ++ F r.1.flat) ∨ st.elen < r.2.elen)) ∧
    (∀ st r, parsePrefixExpression cfg st = some r → st.elen ≤ r.2.elen ∧ ((r.1.isNone = false ∧ FL r.2 = FC st ++ F r.1.flat) ∨ st.elen < r.2.elen)) ∧
    (∀ st r, parseFunctionExpression cfg st = some r → st.elen ≤ r.2.elen ∧ ((r.1.isNone = false ∧ FL r.2 = FC st ++ F r.1.flat) ∨ st.elen < r.2.elen)) ∧
    (∀ st r, parseBlockStatement cfg st = some r → st.elen ≤ r.2.elen ∧ ((r.1.isNone = false ∧ FL r.2 = FC st ++ F r.1.flat) ∨ st.elen < r.2.elen)) ∧
    (∀ acc st r, blockLoop cfg acc st = some r → st.elen ≤ r.2.elen ∧ ((∀ P, FC st = P ++ F acc.flat → FC r.2 = P ++ F r.1.flat) ∨ st.elen < r.2.elen)) ∧
    (∀ st r, parseObjectLiteral cfg st = some r → st.elen ≤ r.2.elen ∧ ((r.1.isNone = false ∧ FL r.2 = FC st ++ F r.1.flat) ∨ st.elen < r.2.elen)) ∧
    (∀ acc st r, objectLoop cfg acc st = some r → st.elen ≤ r.2.elen ∧ ((∀ P, FC st = P ++ F acc.flat → ∃ p, r.1 = some p ∧ FL r.2 = P ++ F p.flat) ∨ st.elen < r.2.elen)) ∧
    (∀ st r, parseForStatement cfg st = some r → st.elen ≤ r.2.elen ∧ ((r.1.isNone = false ∧ FL r.2 = FC st ++ F r.1.flat) ∨ st.elen < r.2.elen)) ∧
    (∀ st r, parseForInit cfg st = some r → st.elen ≤ r.2.elen ∧ ((FL r.2 = FL st ++ F r.1.flat) ∨ st.elen < r.2.elen)) ∧
    (∀ st r, parseLetExpression cfg st = some r → st.elen ≤ r.2.elen ∧ ((r.1.isNone = false ∧ FL r.2 = FC st ++ F r.1.flat) ∨ st.elen < r.2.elen)) ∧
    (∀ st r, parseWhileStatement cfg st = some r → st.elen ≤ r.2.elen ∧ ((r.1.isNone = false ∧ FL r.2 = FC st ++ F r.1.flat) ∨ st.elen < r.2.elen)) ∧
    (∀ st r, parseIfStatement cfg st = some r → st.elen ≤ r.2.elen ∧ ((r.1.isNone = false ∧ FL r.2 = FC st ++ F r.1.flat) ∨ st.elen < r.2.elen)) ∧
    (∀ st r, parseReturnStatement cfg st = some r → st.elen ≤ r.2.elen ∧ ((r.1.isNone = false ∧ FL r.2 = FC st ++ F r.1.flat) ∨ st.elen < r.2.elen)) ∧
    (∀ st r, parseFunctionStatement cfg st = some r → st.elen ≤ r.2.elen ∧ ((r.1.isNone = false ∧ FL r.2 = FC st ++ F r.1.flat) ∨ st.elen < r.2.elen)) ∧
    (∀ st r, parseLetStatement cfg st = some r → st.elen ≤ r.2.elen ∧ ((r.1.isNone = false ∧ FL r.2 = FC st ++ F r.1.flat) ∨ st.elen < r.2.elen)) := by
  refine parseStatementI.mutual_partial_correctness cfg
    (fun _ st r => st.elen ≤ r.2.elen ∧ ((r.1.isNone = false ∧ FL r.2 = FC st ++ F r.1.flat) ∨ st.elen < r.2.elen))
    (fun st r => st.elen ≤ r.2.elen ∧ ((r.1.isNone = false ∧ FL r.2 = FC st ++ F r.1.flat) ∨ st.elen < r.2.elen))
    (fun st r => st.elen ≤ r.2.elen ∧ ((r.1.isNone = false ∧ FL r.2 = FC st ++ F r.1.flat) ∨ st.elen < r.2.elen))
    (fun _ _ st r => st.elen ≤ r.2.elen ∧ ((r.1.isNone = false ∧ FL r.2 = FC st ++ F r.1.flat) ∨ st.elen < r.2.elen))
    (fun left _ st r => st.elen ≤ r.2.elen ∧ (((left.isNone = false → r.1.isNone = false) ∧ ∀ P, FL st = P ++ F left.flat → FL r.2 = P ++ F r.1.flat) ∨ st.elen < r.2.elen))
    (fun left st r => st.elen ≤ r.2.elen ∧ (((left.isNone = false → r.1.isNone = false) ∧ ∀ P, FL st = P ++ F left.flat → FL r.2 = P ++ F r.1.flat) ∨ st.elen < r.2.elen))
    (fun endTy st r => st.elen ≤ r.2.elen ∧ ((FL r.2 = FL st ++ F r.1.flat ++ F [endTy]) ∨ st.elen < r.2.elen))
    (fun acc st r => st.elen ≤ r.2.elen ∧ ((∀ P, FL st = P ++ F acc.flat → FL r.2 = P ++ F r.1.flat) ∨ st.elen < r.2.elen))
    (fun st r => st.elen ≤ r.2.elen ∧ ((r.1.isNone = false ∧ FL r.2 = FC st ++ F r.1.flat) ∨ st.elen < r.2.elen))
    (fun st r => st.elen ≤ r.2.elen ∧ ((r.1.isNone = false ∧ FL r.2 = FC st ++ F r.1.flat) ∨ st.elen < r.2.elen))
    (fun st r => st.elen ≤ r.2.elen ∧ ((r.1.isNone = false ∧ FL r.2 = FC st ++ F r.1.flat) ∨ st.elen < r.2.elen))
    (fun acc st r => st.elen ≤ r.2.elen ∧ ((∀ P, FC st = P ++ F acc.flat → FC r.2 = P ++ F r.1.flat) ∨ st.elen < r.2.elen))
    (fun st r => st.elen ≤ r.2.elen ∧ ((r.1.isNone = false ∧ FL r.2 = FC st ++ F r.1.flat) ∨ st.elen < r.2.elen))
    (fun acc st r => st.elen ≤ r.2.elen ∧ ((∀ P, FC st = P ++ F acc.flat → ∃ p, r.1 = some p ∧ FL r.2 = P ++ F p.flat) ∨ st.elen < r.2.elen))
    (fun st r => st.elen ≤ r.2.elen ∧ ((r.1.isNone = false ∧ FL r.2 = FC st ++ F r.1.flat) ∨ st.elen < r.2.elen))
    (fun st r => st.elen ≤ r.2.elen ∧ ((FL r.2 = FL st ++ F r.1.flat) ∨ st.elen < r.2.elen))
    (fun st r => st.elen ≤ r.2.elen ∧ ((r.1.isNone = false ∧ FL r.2 = FC st ++ F r.1.flat) ∨ st.elen < r.2.elen))
    (fun st r => st.elen ≤ r.2.elen ∧ ((r.1.isNone = false ∧ FL r.2 = FC st ++ F r.1.flat) ∨ st.elen < r.2.elen))
    (fun st r => st.elen ≤ r.2.elen ∧ ((r.1.isNone = false ∧ FL r.2 = FC st ++ F r.1.flat) ∨ st.elen < r.2.elen))
    (fun st r => st.elen ≤ r.2.elen ∧ ((r.1.isNone = false ∧ FL r.2 = FC st ++ F r.1.flat) ∨ st.elen < r.2.elen))
    (fun st r => st.elen ≤ r.2.elen ∧ ((r.1.isNone = false ∧ FL r.2 = FC st ++ F r.1.flat) ∨ st.elen < r.2.elen))
    (fun st r => st.elen ≤ r.2.elen ∧ ((r.1.isNone = false ∧ FL r.2 = FC st ++ F r.1.flat) ∨ st.elen < r.2.elen))
    ?_ ?_ ?_ ?_ ?_ ?_ ?_ ?_ ?_ ?_ ?_ ?_ ?_ ?_ ?_ ?_ ?_ ?_ ?_ ?_ ?_ ?_
  case refine_1 =>
    intro pS bS ih_pS ih_bS is st r h
    replace ih_pS := curry2 ih_pS; replace ih_bS := curry1 ih_bS
    dsimp only at ih_pS ih_bS ⊢
    obtain ⟨x, st'⟩ := r
    have e0 := FL_eq st
    pdecompD h [ih_pS, ih_bS, tok_parseFunctionParameters]
    all_goals clear ih_pS ih_bS
    all_goals tok_close

  all_goals sorry
end Xjs
