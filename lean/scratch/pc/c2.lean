import XjsModel.Proofs.ParserSmart
/-
  The smart-semicolon pass (C13 c).
-/
namespace Xjs
set_option linter.unusedSimpArgs false

def SmartM {α : Type} (f : PS → Option (α × PS)) (st : PS) (r : α × PS) : Prop :=
  st.noLI → (f st = some r ∧ r.2.noLI)

set_option maxHeartbeats 3200000 in
theorem smart_mutual (cfg : PCfg) :
    (∀ is st r, parseStatementI cfg.smartOff is st = some r → SmartM (parseStatementI cfg.smartOn is) st r) ∧
    (∀ st r, baseParseStatement cfg.smartOff st = some r → SmartM (baseParseStatement cfg.smartOn) st r) ∧
    (∀ st r, parseExpressionStatement cfg.smartOff st = some r → SmartM (parseExpressionStatement cfg.smartOn) st r) ∧
    (∀ is prec st r, parseExpressionI cfg.smartOff is prec st = some r → SmartM (parseExpressionI cfg.smartOn is prec) st r) ∧
    (∀ left prec st r, parseRemaining cfg.smartOff left prec st = some r → SmartM (parseRemaining cfg.smartOn left prec) st r) ∧
    (∀ left st r, parseInfixExpression cfg.smartOff left st = some r → SmartM (parseInfixExpression cfg.smartOn left) st r) ∧
    (∀ endTy st r, parseExpressionList cfg.smartOff endTy st = some r → SmartM (parseExpressionList cfg.smartOn endTy) st r) ∧
    (∀ acc st r, exprListLoop cfg.smartOff acc st = some r → SmartM (exprListLoop cfg.smartOn acc) st r) ∧
    (∀ st r, parsePrefixExpression cfg.smartOff st = some r → SmartM (parsePrefixExpression cfg.smartOn) st r) ∧
    (∀ st r, parseFunctionExpression cfg.smartOff st = some r → SmartM (parseFunctionExpression cfg.smartOn) st r) ∧
    (∀ st r, parseBlockStatement cfg.smartOff st = some r → SmartM (parseBlockStatement cfg.smartOn) st r) ∧
    (∀ acc st r, blockLoop cfg.smartOff acc st = some r → SmartM (blockLoop cfg.smartOn acc) st r) ∧
    (∀ st r, parseObjectLiteral cfg.smartOff st = some r → SmartM (parseObjectLiteral cfg.smartOn) st r) ∧
    (∀ acc st r, objectLoop cfg.smartOff acc st = some r → SmartM (objectLoop cfg.smartOn acc) st r) ∧
    (∀ st r, parseForStatement cfg.smartOff st = some r → SmartM (parseForStatement cfg.smartOn) st r) ∧
    (∀ st r, parseForInit cfg.smartOff st = some r → SmartM (parseForInit cfg.smartOn) st r) ∧
    (∀ st r, parseLetExpression cfg.smartOff st = some r → SmartM (parseLetExpression cfg.smartOn) st r) ∧
    (∀ st r, parseWhileStatement cfg.smartOff st = some r → SmartM (parseWhileStatement cfg.smartOn) st r) ∧
    (∀ st r, parseIfStatement cfg.smartOff st = some r → SmartM (parseIfStatement cfg.smartOn) st r) ∧
    (∀ st r, parseReturnStatement cfg.smartOff st = some r → SmartM (parseReturnStatement cfg.smartOn) st r) ∧
    (∀ st r, parseFunctionStatement cfg.smartOff st = some r → SmartM (parseFunctionStatement cfg.smartOn) st r) ∧
    (∀ st r, parseLetStatement cfg.smartOff st = some r → SmartM (parseLetStatement cfg.smartOn) st r) := by
  refine parseStatementI.mutual_partial_correctness cfg.smartOff
    (fun is st r => SmartM (parseStatementI cfg.smartOn is) st r)
    (fun st r => SmartM (baseParseStatement cfg.smartOn) st r)
    (fun st r => SmartM (parseExpressionStatement cfg.smartOn) st r)
    (fun is prec st r => SmartM (parseExpressionI cfg.smartOn is prec) st r)
    (fun left prec st r => SmartM (parseRemaining cfg.smartOn left prec) st r)
    (fun left st r => SmartM (parseInfixExpression cfg.smartOn left) st r)
    (fun endTy st r => SmartM (parseExpressionList cfg.smartOn endTy) st r)
    (fun acc st r => SmartM (exprListLoop cfg.smartOn acc) st r)
    (fun st r => SmartM (parsePrefixExpression cfg.smartOn) st r)
    (fun st r => SmartM (parseFunctionExpression cfg.smartOn) st r)
    (fun st r => SmartM (parseBlockStatement cfg.smartOn) st r)
    (fun acc st r => SmartM (blockLoop cfg.smartOn acc) st r)
    (fun st r => SmartM (parseObjectLiteral cfg.smartOn) st r)
    (fun acc st r => SmartM (objectLoop cfg.smartOn acc) st r)
    (fun st r => SmartM (parseForStatement cfg.smartOn) st r)
    (fun st r => SmartM (parseForInit cfg.smartOn) st r)
    (fun st r => SmartM (parseLetExpression cfg.smartOn) st r)
    (fun st r => SmartM (parseWhileStatement cfg.smartOn) st r)
    (fun st r => SmartM (parseIfStatement cfg.smartOn) st r)
    (fun st r => SmartM (parseReturnStatement cfg.smartOn) st r)
    (fun st r => SmartM (parseFunctionStatement cfg.smartOn) st r)
    (fun st r => SmartM (parseLetStatement cfg.smartOn) st r)
    ?_ ?_ ?_ ?_ ?_ ?_ ?_ ?_ ?_ ?_ ?_ ?_ ?_ ?_ ?_ ?_ ?_ ?_ ?_ ?_ ?_ ?_
  case refine_2 =>
    intro f1 f2 f3 f4 f5 f6 f7 f8 ih_f1 ih_f2 ih_f3 ih_f4 ih_f5 ih_f6 ih_f7 ih_f8  st r h
    replace ih_f1 := curry1 ih_f1; replace ih_f2 := curry1 ih_f2; replace ih_f3 := curry1 ih_f3; replace ih_f4 := curry1 ih_f4; replace ih_f5 := curry1 ih_f5; replace ih_f6 := curry1 ih_f6; replace ih_f7 := curry1 ih_f7; replace ih_f8 := curry1 ih_f8
    dsimp only [SmartM] at ih_f1 ih_f2 ih_f3 ih_f4 ih_f5 ih_f6 ih_f7 ih_f8 ⊢
    obtain ⟨x, st'⟩ := r
    intro h0
    split at h
    all_goals (first | have hh := ih_f1 _ _ _ h h0 | have hh := ih_f2 _ _ _ h h0 | have hh := ih_f3 _ _ _ h h0 | have hh := ih_f4 _ _ _ h h0
                     | have hh := ih_f5 _ _ _ h h0 | have hh := ih_f6 _ _ _ h h0 | have hh := ih_f7 _ _ _ h h0 | have hh := ih_f8 _ _ _ h h0)
    all_goals refine ⟨?_, hh.2⟩
    all_goals (rw [baseParseStatement.eq_def])
    all_goals first
      | (split <;> first | (exfalso; solve_by_elim) | exact hh.1)
      | (simp only [*]; done)
      | (simp only [*]; exact hh.1)

  all_goals sorry
end Xjs
