import XjsModel.Proofs.ParserLen
import XjsModel.Spec.TreeShape
/-
  C11 (e): a parse step that records no error returns a complete node (every mandatory child present,
  recursively). Motive: `errors only grow ∧ (complete ∨ an error was recorded)`.
-/
namespace Xjs
set_option linter.unusedSimpArgs false
set_option linter.unusedVariables false

theorem cmp_parseFunctionParameters (st : PS) (x : List Ident) (st' : PS) (h : parseFunctionParameters st = some (x, st')) :
    st.elen ≤ st'.elen ∧ (True ∨ st.elen < st'.elen) := ⟨elen_parseFunctionParameters h, Or.inl trivial⟩

syntax "cmp_close" : tactic
macro_rules
  | `(tactic| cmp_close) => `(tactic| (
      simp only [elen_next, elen_push, elen_pop, elen_addError, elen_addErrorAt, elen_set, elen_setPrec, elen_setTrace,
        elen_expectToken, elen_expectSemi] at *
      first
        | (refine ⟨?_, Or.inr ?_⟩ <;> first | omega | (simp_all [expErr, semiErr] <;> omega))
        | (refine ⟨?_, Or.inl ?_⟩
           · first | omega | (simp_all [expErr, semiErr] <;> omega)
           · simp_all [Expr.complete, Stmt.complete, ExprList.complete, StmtList.complete, PropList.complete, StmtList.complete_snoc, ExprList.complete_snoc, PropList.complete_snoc, Expr.isNone, Stmt.isNone, expErr, semiErr])))

set_option maxHeartbeats 3200000 in
theorem complete_mutual (cfg : PCfg) :
    (∀ is st r, parseStatementI cfg is st = some r → st.elen ≤ r.2.elen ∧ ((r.1.complete = true) ∨ st.elen < r.2.elen)) ∧
    (∀ st r, baseParseStatement cfg st = some r → st.elen ≤ r.2.elen ∧ ((r.1.complete = true) ∨ st.elen < r.2.elen)) ∧
    (∀ st r, parseExpressionStatement cfg st = some r → st.elen ≤ r.2.elen ∧ ((r.1.complete = true) ∨ st.elen < r.2.elen)) ∧
    (∀ is prec st r, parseExpressionI cfg is prec st = some r → st.elen ≤ r.2.elen ∧ ((r.1.complete = true) ∨ st.elen < r.2.elen)) ∧
    (∀ left prec st r, parseRemaining cfg left prec st = some r → st.elen ≤ r.2.elen ∧ ((left.complete = true → r.1.complete = true) ∨ st.elen < r.2.elen)) ∧
    (∀ left st r, parseInfixExpression cfg left st = some r → st.elen ≤ r.2.elen ∧ ((left.complete = true → r.1.complete = true) ∨ st.elen < r.2.elen)) ∧
    (∀ endTy st r, parseExpressionList cfg endTy st = some r → st.elen ≤ r.2.elen ∧ ((r.1.complete = true) ∨ st.elen < r.2.elen)) ∧
    (∀ acc st r, exprListLoop cfg acc st = some r → st.elen ≤ r.2.elen ∧ ((acc.complete = true → r.1.complete = true) ∨ st.elen < r.2.elen)) ∧
    (∀ st r, parsePrefixExpression cfg st = some r → st.elen ≤ r.2.elen ∧ ((r.1.complete = true) ∨ st.elen < r.2.elen)) ∧
    (∀ st r, parseFunctionExpression cfg st = some r → st.elen ≤ r.2.elen ∧ ((r.1.complete = true) ∨ st.elen < r.2.elen)) ∧
    (∀ st r, parseBlockStatement cfg st = some r → st.elen ≤ r.2.elen ∧ ((r.1.complete = true) ∨ st.elen < r.2.elen)) ∧
    (∀ acc st r, blockLoop cfg acc st = some r → st.elen ≤ r.2.elen ∧ ((acc.complete = true → r.1.complete = true) ∨ st.elen < r.2.elen)) ∧
    (∀ st r, parseObjectLiteral cfg st = some r → st.elen ≤ r.2.elen ∧ ((r.1.complete = true) ∨ st.elen < r.2.elen)) ∧
    (∀ acc st r, objectLoop cfg acc st = some r → st.elen ≤ r.2.elen ∧ ((acc.complete = true → ∃ p, r.1 = some p ∧ p.complete = true) ∨ st.elen < r.2.elen)) ∧
    (∀ st r, parseForStatement cfg st = some r → st.elen ≤ r.2.elen ∧ ((r.1.complete = true) ∨ st.elen < r.2.elen)) ∧
    (∀ st r, parseForInit cfg st = some r → st.elen ≤ r.2.elen ∧ (((r.1.isNone || r.1.complete) = true) ∨ st.elen < r.2.elen)) ∧
    (∀ st r, parseLetExpression cfg st = some r → st.elen ≤ r.2.elen ∧ ((r.1.complete = true) ∨ st.elen < r.2.elen)) ∧
    (∀ st r, parseWhileStatement cfg st = some r → st.elen ≤ r.2.elen ∧ ((r.1.complete = true) ∨ st.elen < r.2.elen)) ∧
    (∀ st r, parseIfStatement cfg st = some r → st.elen ≤ r.2.elen ∧ ((r.1.complete = true) ∨ st.elen < r.2.elen)) ∧
    (∀ st r, parseReturnStatement cfg st = some r → st.elen ≤ r.2.elen ∧ ((r.1.complete = true) ∨ st.elen < r.2.elen)) ∧
    (∀ st r, parseFunctionStatement cfg st = some r → st.elen ≤ r.2.elen ∧ ((r.1.complete = true) ∨ st.elen < r.2.elen)) ∧
    (∀ st r, parseLetStatement cfg st = some r → st.elen ≤ r.2.elen ∧ ((r.1.complete = true) ∨ st.elen < r.2.elen)) := by
  refine parseStatementI.mutual_partial_correctness cfg
    (fun _ st r => st.elen ≤ r.2.elen ∧ ((r.1.complete = true) ∨ st.elen < r.2.elen))
    (fun st r => st.elen ≤ r.2.elen ∧ ((r.1.complete = true) ∨ st.elen < r.2.elen))
    (fun st r => st.elen ≤ r.2.elen ∧ ((r.1.complete = true) ∨ st.elen < r.2.elen))
    (fun _ _ st r => st.elen ≤ r.2.elen ∧ ((r.1.complete = true) ∨ st.elen < r.2.elen))
    (fun left _ st r => st.elen ≤ r.2.elen ∧ ((left.complete = true → r.1.complete = true) ∨ st.elen < r.2.elen))
    (fun left st r => st.elen ≤ r.2.elen ∧ ((left.complete = true → r.1.complete = true) ∨ st.elen < r.2.elen))
    (fun _ st r => st.elen ≤ r.2.elen ∧ ((r.1.complete = true) ∨ st.elen < r.2.elen))
    (fun acc st r => st.elen ≤ r.2.elen ∧ ((acc.complete = true → r.1.complete = true) ∨ st.elen < r.2.elen))
    (fun st r => st.elen ≤ r.2.elen ∧ ((r.1.complete = true) ∨ st.elen < r.2.elen))
    (fun st r => st.elen ≤ r.2.elen ∧ ((r.1.complete = true) ∨ st.elen < r.2.elen))
    (fun st r => st.elen ≤ r.2.elen ∧ ((r.1.complete = true) ∨ st.elen < r.2.elen))
    (fun acc st r => st.elen ≤ r.2.elen ∧ ((acc.complete = true → r.1.complete = true) ∨ st.elen < r.2.elen))
    (fun st r => st.elen ≤ r.2.elen ∧ ((r.1.complete = true) ∨ st.elen < r.2.elen))
    (fun acc st r => st.elen ≤ r.2.elen ∧ ((acc.complete = true → ∃ p, r.1 = some p ∧ p.complete = true) ∨ st.elen < r.2.elen))
    (fun st r => st.elen ≤ r.2.elen ∧ ((r.1.complete = true) ∨ st.elen < r.2.elen))
    (fun st r => st.elen ≤ r.2.elen ∧ (((r.1.isNone || r.1.complete) = true) ∨ st.elen < r.2.elen))
    (fun st r => st.elen ≤ r.2.elen ∧ ((r.1.complete = true) ∨ st.elen < r.2.elen))
    (fun st r => st.elen ≤ r.2.elen ∧ ((r.1.complete = true) ∨ st.elen < r.2.elen))
    (fun st r => st.elen ≤ r.2.elen ∧ ((r.1.complete = true) ∨ st.elen < r.2.elen))
    (fun st r => st.elen ≤ r.2.elen ∧ ((r.1.complete = true) ∨ st.elen < r.2.elen))
    (fun st r => st.elen ≤ r.2.elen ∧ ((r.1.complete = true) ∨ st.elen < r.2.elen))
    (fun st r => st.elen ≤ r.2.elen ∧ ((r.1.complete = true) ∨ st.elen < r.2.elen))
    ?_ ?_ ?_ ?_ ?_ ?_ ?_ ?_ ?_ ?_ ?_ ?_ ?_ ?_ ?_ ?_ ?_ ?_ ?_ ?_ ?_ ?_
  case refine_2 =>
    intro f1 f2 f3 f4 f5 f6 f7 f8 ih_f1 ih_f2 ih_f3 ih_f4 ih_f5 ih_f6 ih_f7 ih_f8  st r h
    replace ih_f1 := curry1 ih_f1; replace ih_f2 := curry1 ih_f2; replace ih_f3 := curry1 ih_f3; replace ih_f4 := curry1 ih_f4; replace ih_f5 := curry1 ih_f5; replace ih_f6 := curry1 ih_f6; replace ih_f7 := curry1 ih_f7; replace ih_f8 := curry1 ih_f8
    dsimp only at ih_f1 ih_f2 ih_f3 ih_f4 ih_f5 ih_f6 ih_f7 ih_f8 ⊢
    obtain ⟨x, st'⟩ := r
    split at h
    all_goals first | exact ih_f1 _ _ _ h | exact ih_f2 _ _ _ h | exact ih_f3 _ _ _ h | exact ih_f4 _ _ _ h
                    | exact ih_f5 _ _ _ h | exact ih_f6 _ _ _ h | exact ih_f7 _ _ _ h | exact ih_f8 _ _ _ h

  all_goals sorry
end Xjs
