import XjsModel.Proofs.ParserTol
/-
  The tolerant-mode pass (C13 a): every strict-mode run either recorded an error or is, step for step, also the
  tolerant-mode run.
-/
namespace Xjs
set_option linter.unusedSimpArgs false

def TolM {α : Type} (f : PS → Option (α × PS)) (st : PS) (r : α × PS) : Prop :=
  st.elen ≤ r.2.elen ∧ (f st = some r ∨ st.elen < r.2.elen)

/-- closes one leaf (all induction-hypothesis disjunctions are already split): a branch with a recorded error
    is closed by arithmetic, the error-free branch by unfolding the tolerant function once and rewriting -/
syntax "tol_close " ident : tactic
macro_rules
  | `(tactic| tol_close $f:ident) => `(tactic| (
      have hfp := @elen_parseFunctionParameters
      simp only [elen_next, elen_push, elen_pop, elen_addError, elen_addErrorAt, elen_set, elen_setPrec, elen_setTrace,
        elen_expectToken, elen_expectSemi] at *
      first
        | (refine ⟨?_, Or.inr ?_⟩ <;> first | omega | (simp_all [expErr, semiErr] <;> omega))
        | (refine ⟨?_, Or.inl ?_⟩
           · first | omega | (simp_all [expErr, semiErr] <;> omega)
           · rw [$f:ident]; simp_all [expErr, semiErr, tol_expectSemi_of_ok])))


syntax "pdD1 " ident " [" ident,* "]" : tactic
macro_rules
  | `(tactic| pdD1 $h:ident [$ihs,*]) => do
    let mut alts : Array (Lean.TSyntax `tactic) := #[]
    let mut tails : Array (Lean.TSyntax `tactic) := #[]
    for ih in ihs.getElems do
      alts := alts.push (← `(tactic| obtain ⟨hyl, hyr | hyr⟩ := $ih:ident _ _ _ hx))
      alts := alts.push (← `(tactic| obtain ⟨hyl, hyr | hyr⟩ := $ih:ident _ _ _ _ hx))
      alts := alts.push (← `(tactic| obtain ⟨hyl, hyr | hyr⟩ := $ih:ident _ _ _ _ _ hx))
      tails := tails.push (← `(tactic| (have hy := $ih:ident _ _ _ $h; clear $h; obtain ⟨hyl, hyr | hyr⟩ := hy)))
      tails := tails.push (← `(tactic| (have hy := $ih:ident _ _ _ _ $h; clear $h; obtain ⟨hyl, hyr | hyr⟩ := hy)))
      tails := tails.push (← `(tactic| (have hy := $ih:ident _ _ _ _ _ $h; clear $h; obtain ⟨hyl, hyr | hyr⟩ := hy)))
    `(tactic|
      repeat' (first
        | (obtain ⟨⟨_, _⟩, hx, hy⟩ := bind_some $h; clear $h; have $h:ident := hy; clear hy;
           (first | (split at hx <;> try cases hx) | skip) <;> (first $[| $alts:tactic]* | skip))
        | (dsimp only at $h:ident)
        | (split at $h:ident)
        | (cases $h:ident)
        $[| $tails:tactic]*))

set_option maxHeartbeats 200000 in
theorem tol_mutual (cfg : PCfg) :
    (∀ is st r, parseStatementI cfg.strict is st = some r → TolM (parseStatementI cfg.tol is) st r) ∧
    (∀ st r, baseParseStatement cfg.strict st = some r → TolM (baseParseStatement cfg.tol) st r) ∧
    (∀ st r, parseExpressionStatement cfg.strict st = some r → TolM (parseExpressionStatement cfg.tol) st r) ∧
    (∀ is prec st r, parseExpressionI cfg.strict is prec st = some r → TolM (parseExpressionI cfg.tol is prec) st r) ∧
    (∀ left prec st r, parseRemaining cfg.strict left prec st = some r → TolM (parseRemaining cfg.tol left prec) st r) ∧
    (∀ left st r, parseInfixExpression cfg.strict left st = some r → TolM (parseInfixExpression cfg.tol left) st r) ∧
    (∀ endTy st r, parseExpressionList cfg.strict endTy st = some r → TolM (parseExpressionList cfg.tol endTy) st r) ∧
    (∀ acc st r, exprListLoop cfg.strict acc st = some r → TolM (exprListLoop cfg.tol acc) st r) ∧
    (∀ st r, parsePrefixExpression cfg.strict st = some r → TolM (parsePrefixExpression cfg.tol) st r) ∧
    (∀ st r, parseFunctionExpression cfg.strict st = some r → TolM (parseFunctionExpression cfg.tol) st r) ∧
    (∀ st r, parseBlockStatement cfg.strict st = some r → TolM (parseBlockStatement cfg.tol) st r) ∧
    (∀ acc st r, blockLoop cfg.strict acc st = some r → TolM (blockLoop cfg.tol acc) st r) ∧
    (∀ st r, parseObjectLiteral cfg.strict st = some r → TolM (parseObjectLiteral cfg.tol) st r) ∧
    (∀ acc st r, objectLoop cfg.strict acc st = some r → TolM (objectLoop cfg.tol acc) st r) ∧
    (∀ st r, parseForStatement cfg.strict st = some r → TolM (parseForStatement cfg.tol) st r) ∧
    (∀ st r, parseForInit cfg.strict st = some r → TolM (parseForInit cfg.tol) st r) ∧
    (∀ st r, parseLetExpression cfg.strict st = some r → TolM (parseLetExpression cfg.tol) st r) ∧
    (∀ st r, parseWhileStatement cfg.strict st = some r → TolM (parseWhileStatement cfg.tol) st r) ∧
    (∀ st r, parseIfStatement cfg.strict st = some r → TolM (parseIfStatement cfg.tol) st r) ∧
    (∀ st r, parseReturnStatement cfg.strict st = some r → TolM (parseReturnStatement cfg.tol) st r) ∧
    (∀ st r, parseFunctionStatement cfg.strict st = some r → TolM (parseFunctionStatement cfg.tol) st r) ∧
    (∀ st r, parseLetStatement cfg.strict st = some r → TolM (parseLetStatement cfg.tol) st r) := by
  refine parseStatementI.mutual_partial_correctness cfg.strict
    (fun is st r => TolM (parseStatementI cfg.tol is) st r)
    (fun st r => TolM (baseParseStatement cfg.tol) st r)
    (fun st r => TolM (parseExpressionStatement cfg.tol) st r)
    (fun is prec st r => TolM (parseExpressionI cfg.tol is prec) st r)
    (fun left prec st r => TolM (parseRemaining cfg.tol left prec) st r)
    (fun left st r => TolM (parseInfixExpression cfg.tol left) st r)
    (fun endTy st r => TolM (parseExpressionList cfg.tol endTy) st r)
    (fun acc st r => TolM (exprListLoop cfg.tol acc) st r)
    (fun st r => TolM (parsePrefixExpression cfg.tol) st r)
    (fun st r => TolM (parseFunctionExpression cfg.tol) st r)
    (fun st r => TolM (parseBlockStatement cfg.tol) st r)
    (fun acc st r => TolM (blockLoop cfg.tol acc) st r)
    (fun st r => TolM (parseObjectLiteral cfg.tol) st r)
    (fun acc st r => TolM (objectLoop cfg.tol acc) st r)
    (fun st r => TolM (parseForStatement cfg.tol) st r)
    (fun st r => TolM (parseForInit cfg.tol) st r)
    (fun st r => TolM (parseLetExpression cfg.tol) st r)
    (fun st r => TolM (parseWhileStatement cfg.tol) st r)
    (fun st r => TolM (parseIfStatement cfg.tol) st r)
    (fun st r => TolM (parseReturnStatement cfg.tol) st r)
    (fun st r => TolM (parseFunctionStatement cfg.tol) st r)
    (fun st r => TolM (parseLetStatement cfg.tol) st r)
    ?_ ?_ ?_ ?_ ?_ ?_ ?_ ?_ ?_ ?_ ?_ ?_ ?_ ?_ ?_ ?_ ?_ ?_ ?_ ?_ ?_ ?_
  case refine_1 =>
    intro pS bS ih_pS ih_bS is st r h
    replace ih_pS := curry2 ih_pS; replace ih_bS := curry1 ih_bS
    dsimp only [TolM] at ih_pS ih_bS ⊢
    obtain ⟨x, st'⟩ := r
    pdD1 h [ih_pS, ih_bS]
    all_goals sorry
  all_goals sorry
end Xjs
