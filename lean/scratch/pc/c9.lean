import XjsModel.Proofs.ParserLen
import XjsModel.Spec.TreeShape
/-
  C11 (e): a parse step that records no error returns a complete node (every mandatory child present,
  recursively). Motive: `errors only grow ∧ (complete ∨ an error was recorded)`.
-/
namespace Xjs
set_option linter.unusedSimpArgs false
set_option linter.unusedVariables false

theorem cmp_parseFunctionParameters (st : PS) (x : List Ident) (st' : PS) (h : parseFunctionParameters st = some (x, st')) :
    st.elen ≤ st'.elen ∧ (True ∨ st.elen < st'.elen) := ⟨elen_parseFunctionParameters h, Or.inl trivial⟩

syntax "cmp_close" : tactic
macro_rules
  | `(tactic| cmp_close) => `(tactic| (
      simp only [elen_next, elen_push, elen_pop, elen_addError, elen_addErrorAt, elen_set, elen_setPrec, elen_setTrace,
        elen_expectToken, elen_expectSemi] at *
      first
        | (refine ⟨?_, Or.inr ?_⟩ <;> first | omega | (simp_all [expErr, semiErr] <;> omega))
        | (refine ⟨?_, Or.inl ?_⟩
           · first | omega | (simp_all [expErr, semiErr] <;> omega)
           · simp_all [Expr.complete, Stmt.complete, ExprList.complete, StmtList.complete, PropList.complete, StmtList.complete_snoc, ExprList.complete_snoc, PropList.complete_snoc, Expr.isNone, Stmt.isNone, expErr, semiErr])))

set_option maxHeartbeats 3200000 in
theorem complete_mutual (cfg : PCfg) :
    (∀ is st r, parseStatementI cfg is st = some r → st.elen ≤ r.2.elen ∧ ((r.1.complete = true) ∨ st.elen < r.2.elen)) ∧
    (∀ st r, baseParseStatement cfg st = some r → st.elen ≤ r.2.elen ∧ ((r.1.complete = true) ∨ st.elen < r.2.elen)) ∧
    (∀ st r, parseExpressionStatement cfg st = some r → st.elen ≤ r.2.elen ∧ ((r.1.complete = true) ∨ st.elen < r.2.elen)) ∧
    (∀ is prec st r, parseExpressionI cfg is prec st = some r → st.elen ≤ r.2.elen ∧ ((r.1.complete = true) ∨ st.elen < r.2.elen)) ∧
    (∀ left prec st r, parseRemaining cfg left prec st = some r → st.elen ≤ r.2.elen ∧ ((left.complete = true → r.1.complete = true) ∨ st.elen < r.2.elen)) ∧
    (∀ left st r, parseInfixExpression cfg left st = some r → st.elen ≤ r.2.elen ∧ ((left.complete = true → r.1.complete = true) ∨ st.elen < r.2.elen)) ∧
    (∀ endTy st r, parseExpressionList cfg endTy st = some r → st.elen ≤ r.2.elen ∧ ((r.1.complete = true) ∨ st.elen < r.2.elen)) ∧
    (∀ acc st r, exprListLoop cfg acc st = some r → st.elen ≤ r.2.elen ∧ ((acc.complete = true → r.1.complete = true) ∨ st.elen < r.2.elen)) ∧
    (∀ st r, parsePrefixExpression cfg st = some r → st.elen ≤ r.2.elen ∧ ((r.1.complete = true) ∨ st.elen < r.2.elen)) ∧
    (∀ st r, parseFunctionExpression cfg st = some r → st.elen ≤ r.2.elen ∧ ((r.1.complete = true) ∨ st.elen < r.2.elen)) ∧
    (∀ st r, parseBlockStatement cfg st = some r → st.elen ≤ r.2.elen ∧ ((r.1.complete = true) ∨ st.elen < r.2.elen)) ∧
    (∀ acc st r, blockLoop cfg acc st = some r → st.elen ≤ r.2.elen ∧ ((acc.complete = true → r.1.complete = true) ∨ st.elen < r.2.elen)) ∧
    (∀ st r, parseObjectLiteral cfg st = some r → st.elen ≤ r.2.elen ∧ ((r.1.complete = true) ∨ st.elen < r.2.elen)) ∧
    (∀ acc st r, objectLoop cfg acc st = some r → st.elen ≤ r.2.elen ∧ ((acc.complete = true → ∃ p, r.1 = some p ∧ p.complete = true) ∨ st.elen < r.2.elen)) ∧
    (∀ st r, parseForStatement cfg st = some r → st.elen ≤ r.2.elen ∧ ((r.1.complete = true) ∨ st.elen < r.2.elen)) ∧
    (∀ st r, parseForInit cfg st = some r → st.elen ≤ r.2.elen ∧ (((r.1.isNone || r.1.complete) = true) ∨ st.elen < r.2.elen)) ∧
    (∀ st r, parseLetExpression cfg st = some r → st.elen ≤ r.2.elen ∧ ((r.1.complete = true) ∨ st.elen < r.2.elen)) ∧
    (∀ st r, parseWhileStatement cfg st = some r → st.elen ≤ r.2.elen ∧ ((r.1.complete = true) ∨ st.elen < r.2.elen)) ∧
    (∀ st r, parseIfStatement cfg st = some r → st.elen ≤ r.2.elen ∧ ((r.1.complete = true) ∨ st.elen < r.2.elen)) ∧
    (∀ st r, parseReturnStatement cfg st = some r → st.elen ≤ r.2.elen ∧ ((r.1.complete = true) ∨ st.elen < r.2.elen)) ∧
    (∀ st r, parseFunctionStatement cfg st = some r → st.elen ≤ r.2.elen ∧ ((r.1.complete = true) ∨ st.elen < r.2.elen)) ∧
    (∀ st r, parseLetStatement cfg st = some r → st.elen ≤ r.2.elen ∧ ((r.1.complete = true) ∨ st.elen < r.2.elen)) := by
  refine parseStatementI.mutual_partial_correctness cfg
    (fun _ st r => st.elen ≤ r.2.elen ∧ ((r.1.complete = true) ∨ st.elen < r.2.elen))
    (fun st r => st.elen ≤ r.2.elen ∧ ((r.1.complete = true) ∨ st.elen < r.2.elen))
    (fun st r => st.elen ≤ r.2.elen ∧ ((r.1.complete = true) ∨ st.elen < r.2.elen))
    (fun _ _ st r => st.elen ≤ r.2.elen ∧ ((r.1.complete = true) ∨ st.elen < r.2.elen))
    (fun left _ st r => st.elen ≤ r.2.elen ∧ ((left.complete = true → r.1.complete = true) ∨ st.elen < r.2.elen))
    (fun left st r => st.elen ≤ r.2.elen ∧ ((left.complete = true → r.1.complete = true) ∨ st.elen < r.2.elen))
    (fun _ st r => st.elen ≤ r.2.elen ∧ ((r.1.complete = true) ∨ st.elen < r.2.elen))
    (fun acc st r => st.elen ≤ r.2.elen ∧ ((acc.complete = true → r.1.complete = true) ∨ st.elen < r.2.elen))
    (fun st r => st.elen ≤ r.2.elen ∧ ((r.1.complete = true) ∨ st.elen < r.2.elen))
    (fun st r => st.elen ≤ r.2.elen ∧ ((r.1.complete = true) ∨ st.elen < r.2.elen))
    (fun st r => st.elen ≤ r.2.elen ∧ ((r.1.complete = true) ∨ st.elen < r.2.elen))
    (fun acc st r => st.elen ≤ r.2.elen ∧ ((acc.complete = true → r.1.complete = true) ∨ st.elen < r.2.elen))
    (fun st r => st.elen ≤ r.2.elen ∧ ((r.1.complete = true) ∨ st.elen < r.2.elen))
    (fun acc st r => st.elen ≤ r.2.elen ∧ ((acc.complete = true → ∃ p, r.1 = some p ∧ p.complete = true) ∨ st.elen < r.2.elen))
    (fun st r => st.elen ≤ r.2.elen ∧ ((r.1.complete = true) ∨ st.elen < r.2.elen))
    (fun st r => st.elen ≤ r.2.elen ∧ (((r.1.isNone || r.1.complete) = true) ∨ st.elen < r.2.elen))
    (fun st r => st.elen ≤ r.2.elen ∧ ((r.1.complete = true) ∨ st.elen < r.2.elen))
    (fun st r => st.elen ≤ r.2.elen ∧ ((r.1.complete = true) ∨ st.elen < r.2.elen))
    (fun st r => st.elen ≤ r.2.elen ∧ ((r.1.complete = true) ∨ st.elen < r.2.elen))
    (fun st r => st.elen ≤ r.2.elen ∧ ((r.1.complete = true) ∨ st.elen < r.2.elen))
    (fun st r => st.elen ≤ r.2.elen ∧ ((r.1.complete = true) ∨ st.elen < r.2.elen))
    (fun st r => st.elen ≤ r.2.elen ∧ ((r.1.complete = true) ∨ st.elen < r.2.elen))
    ?_ ?_ ?_ ?_ ?_ ?_ ?_ ?_ ?_ ?_ ?_ ?_ ?_ ?_ ?_ ?_ ?_ ?_ ?_ ?_ ?_ ?_
  case refine_9 =>
    intro pE pL pFE pO ih_pE ih_pL ih_pFE ih_pO  st r h
    replace ih_pE := curry3 ih_pE; replace ih_pL := curry2 ih_pL; replace ih_pFE := curry1 ih_pFE; replace ih_pO := curry1 ih_pO
    dsimp only at ih_pE ih_pL ih_pFE ih_pO ⊢
    obtain ⟨x, st'⟩ := r
    pdecompD h [ih_pE, ih_pL, ih_pFE, ih_pO, cmp_parseFunctionParameters]
    all_goals clear ih_pE ih_pL ih_pFE ih_pO
    all_goals cmp_close

  all_goals sorry
end Xjs
