import XjsModel.Proofs.ParserSmart
/-
  The smart-semicolon pass (C13 c).
-/
namespace Xjs
set_option linter.unusedSimpArgs false

def SmartM {α : Type} (f : PS → Option (α × PS)) (st : PS) (r : α × PS) : Prop :=
  st.noLI → (f st = some r ∧ r.2.noLI)

set_option maxHeartbeats 3200000 in
theorem smart_mutual (cfg : PCfg) :
    (∀ is st r, parseStatementI cfg.smartOff is st = some r → SmartM (parseStatementI cfg.smartOn is) st r) ∧
    (∀ st r, baseParseStatement cfg.smartOff st = some r → SmartM (baseParseStatement cfg.smartOn) st r) ∧
    (∀ st r, parseExpressionStatement cfg.smartOff st = some r → SmartM (parseExpressionStatement cfg.smartOn) st r) ∧
    (∀ is prec st r, parseExpressionI cfg.smartOff is prec st = some r → SmartM (parseExpressionI cfg.smartOn is prec) st r) ∧
    (∀ left prec st r, parseRemaining cfg.smartOff left prec st = some r → SmartM (parseRemaining cfg.smartOn left prec) st r) ∧
    (∀ left st r, parseInfixExpression cfg.smartOff left st = some r → SmartM (parseInfixExpression cfg.smartOn left) st r) ∧
    (∀ endTy st r, parseExpressionList cfg.smartOff endTy st = some r → SmartM (parseExpressionList cfg.smartOn endTy) st r) ∧
    (∀ acc st r, exprListLoop cfg.smartOff acc st = some r → SmartM (exprListLoop cfg.smartOn acc) st r) ∧
    (∀ st r, parsePrefixExpression cfg.smartOff st = some r → SmartM (parsePrefixExpression cfg.smartOn) st r) ∧
    (∀ st r, parseFunctionExpression cfg.smartOff st = some r → SmartM (parseFunctionExpression cfg.smartOn) st r) ∧
    (∀ st r, parseBlockStatement cfg.smartOff st = some r → SmartM (parseBlockStatement cfg.smartOn) st r) ∧
    (∀ acc st r, blockLoop cfg.smartOff acc st = some r → SmartM (blockLoop cfg.smartOn acc) st r) ∧
    (∀ st r, parseObjectLiteral cfg.smartOff st = some r → SmartM (parseObjectLiteral cfg.smartOn) st r) ∧
    (∀ acc st r, objectLoop cfg.smartOff acc st = some r → SmartM (objectLoop cfg.smartOn acc) st r) ∧
    (∀ st r, parseForStatement cfg.smartOff st = some r → SmartM (parseForStatement cfg.smartOn) st r) ∧
    (∀ st r, parseForInit cfg.smartOff st = some r → SmartM (parseForInit cfg.smartOn) st r) ∧
    (∀ st r, parseLetExpression cfg.smartOff st = some r → SmartM (parseLetExpression cfg.smartOn) st r) ∧
    (∀ st r, parseWhileStatement cfg.smartOff st = some r → SmartM (parseWhileStatement cfg.smartOn) st r) ∧
    (∀ st r, parseIfStatement cfg.smartOff st = some r → SmartM (parseIfStatement cfg.smartOn) st r) ∧
    (∀ st r, parseReturnStatement cfg.smartOff st = some r → SmartM (parseReturnStatement cfg.smartOn) st r) ∧
    (∀ st r, parseFunctionStatement cfg.smartOff st = some r → SmartM (parseFunctionStatement cfg.smartOn) st r) ∧
    (∀ st r, parseLetStatement cfg.smartOff st = some r → SmartM (parseLetStatement cfg.smartOn) st r) := by
  refine parseStatementI.mutual_partial_correctness cfg.smartOff
    (fun is st r => SmartM (parseStatementI cfg.smartOn is) st r)
    (fun st r => SmartM (baseParseStatement cfg.smartOn) st r)
    (fun st r => SmartM (parseExpressionStatement cfg.smartOn) st r)
    (fun is prec st r => SmartM (parseExpressionI cfg.smartOn is prec) st r)
    (fun left prec st r => SmartM (parseRemaining cfg.smartOn left prec) st r)
    (fun left st r => SmartM (parseInfixExpression cfg.smartOn left) st r)
    (fun endTy st r => SmartM (parseExpressionList cfg.smartOn endTy) st r)
    (fun acc st r => SmartM (exprListLoop cfg.smartOn acc) st r)
    (fun st r => SmartM (parsePrefixExpression cfg.smartOn) st r)
    (fun st r => SmartM (parseFunctionExpression cfg.smartOn) st r)
    (fun st r => SmartM (parseBlockStatement cfg.smartOn) st r)
    (fun acc st r => SmartM (blockLoop cfg.smartOn acc) st r)
    (fun st r => SmartM (parseObjectLiteral cfg.smartOn) st r)
    (fun acc st r => SmartM (objectLoop cfg.smartOn acc) st r)
    (fun st r => SmartM (parseForStatement cfg.smartOn) st r)
    (fun st r => SmartM (parseForInit cfg.smartOn) st r)
    (fun st r => SmartM (parseLetExpression cfg.smartOn) st r)
    (fun st r => SmartM (parseWhileStatement cfg.smartOn) st r)
    (fun st r => SmartM (parseIfStatement cfg.smartOn) st r)
    (fun st r => SmartM (parseReturnStatement cfg.smartOn) st r)
    (fun st r => SmartM (parseFunctionStatement cfg.smartOn) st r)
    (fun st r => SmartM (parseLetStatement cfg.smartOn) st r)
    ?_ ?_ ?_ ?_ ?_ ?_ ?_ ?_ ?_ ?_ ?_ ?_ ?_ ?_ ?_ ?_ ?_ ?_ ?_ ?_ ?_ ?_
  case refine_8 =>
    intro pE eL ih_pE ih_eL acc st r h
    replace ih_pE := curry3 ih_pE; replace ih_eL := curry2 ih_eL
    dsimp only [SmartM] at ih_pE ih_eL ⊢
    obtain ⟨x, st'⟩ := r
    intro h0
    pdecompW h [ih_pE, ih_eL, smart_parseFunctionParameters]
    all_goals clear ih_pE ih_eL
    all_goals refine ⟨?_, by simp_all (maxDischargeDepth := 8) [noLI_next, noLI_push_next, noLI_expectToken, noLI_expectSemi]⟩
    all_goals (rw [exprListLoop]; simp_all (maxDischargeDepth := 8) [noLI_next, noLI_push_next, noLI_expectToken, noLI_expectSemi])

  all_goals sorry
end Xjs
