import XjsModel.Proofs.PrinterPos
open Xjs
example : bnocr (strBytes "null") = true := by decide
example : bnocr (strBytes "function ") = true := by rfl
