import XjsModel.Proofs.ParserSteps
/-
  The frame pass: every function of the parser's mutual block satisfies `Steps st r.2`
  (one pass with the partial-correctness principle of the fixed-point definition).
-/
namespace Xjs

set_option maxHeartbeats 1600000 in
attribute [local irreducible] PS.pop PS.push PS.addError PS.addErrorAt PS.next in
#check fun (cfg : PCfg) =>
  parseStatementI.mutual_partial_correctness cfg
    (fun _ st r => StepsM st r.2)
    (fun  st r => StepsM st r.2)
    (fun  st r => StepsM st r.2)
    (fun _ _ st r => StepsM st r.2)
    (fun _ _ st r => StepsM st r.2)
    (fun _ st r => StepsM st r.2)
    (fun _ st r => StepsM st r.2)
    (fun _ st r => StepsM st r.2)
    (fun  st r => StepsM st r.2)
    (fun  st r => StepsM st r.2)
    (fun  st r => StepsM st r.2)
    (fun _ st r => StepsM st r.2)
    (fun  st r => StepsM st r.2)
    (fun _ st r => StepsM st r.2)
    (fun  st r => StepsM st r.2)
    (fun  st r => StepsM st r.2)
    (fun  st r => StepsM st r.2)
    (fun  st r => StepsM st r.2)
    (fun  st r => StepsM st r.2)
    (fun  st r => StepsM st r.2)
    (fun  st r => StepsM st r.2)
    (fun  st r => StepsM st r.2)


