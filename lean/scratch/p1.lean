import XjsModel.Proofs.ParserPlain
open Xjs
example (cfg : PCfg) (pE : List EI → Nat → PS → Option (Expr × PS))
   (ihE : ∀ is prec st x st', pE is prec st = some (x, st') →
      st'.curPrec = st.curPrec ∧ parseExpressionI cfg.plain [] prec st.strip = some (x, st'.strip))
   (st : PS) (r : Stmt × PS)
   (h : (do
                    let x ← pE cfg.exprI LOWEST st
                    match x with
                      | (e, st) =>
                        match expectSemiASI cfg st with
                        | (ok, st) => if (!ok) = true then some (Stmt.none, st) else some (Stmt.exprS e, st)) =
                  some r) : r.2.curPrec = st.curPrec ∧ parseExpressionStatement cfg.plain st.strip = some (r.1, r.2.strip) := by
  pdecompW h [ihE]
  all_goals refine ⟨?_, ?_⟩
  all_goals try (simp [*]; done)
  all_goals rw [parseExpressionStatement]
  all_goals simp_all [strip_next, strip_expectToken, strip_expectSemi]
