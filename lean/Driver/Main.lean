import XjsModel.Model.Builder
import XjsModel.Model.Printer
import XjsModel.Spec.StringValueEval
/-
  Line protocol driver: one op per input line, one result line per op.
  The Go harness (`/verif/harness/cmd/drive`) produces the same lines from the real implementation;
  the two outputs are compared byte for byte.
-/
open Xjs

namespace Drive

/-! ## text formats -/

def hexDigit (n : Nat) : Char := if n < 10 then Char.ofNat (48 + n) else Char.ofNat (87 + n)

def hexOf (b : Bytes) : String :=
  if b.isEmpty then "-" else String.ofList (b.flatMap fun x => [hexDigit (x / 16 % 16), hexDigit (x % 16)])

def hexNib (c : Char) : Nat :=
  let n := c.toNat
  if 48 ≤ n ∧ n ≤ 57 then n - 48 else if 97 ≤ n ∧ n ≤ 102 then n - 87 else if 65 ≤ n ∧ n ≤ 70 then n - 55 else 0

def unhexList : List Char → Bytes
  | a :: b :: rest => (hexNib a * 16 + hexNib b) :: unhexList rest
  | _ => []

def unhex (s : String) : Bytes := if s == "-" then [] else unhexList s.toList

def commentsOf (cs : List Bytes) : String :=
  if cs.isEmpty then "~" else ",".intercalate (cs.map hexOf)

def parseComments (s : String) : List Bytes :=
  if s == "~" then [] else (s.splitOn ",").map unhex

def tokStr (t : Token) : String :=
  s!"{t.type.toNat}:{hexOf t.lit}:{t.sl}:{t.sc}:{t.el}:{t.ec}:{if t.nl then 1 else 0}:{commentsOf t.comments}"

def parseTok (s : String) : Token :=
  match s.splitOn ":" with
  | [ty, lit, sl, sc, el, ec, nl, cs] =>
    { type := TokType.ofNat ty.toNat!, lit := unhex lit, sl := sl.toNat!, sc := sc.toNat!,
      el := el.toNat!, ec := ec.toNat!, nl := nl == "1", comments := parseComments cs }
  | _ => zeroTok

def identStr (i : Ident) : String := s!"<{tokStr i.tok} {hexOf i.value}>"

def paramsStr (ps : List Ident) : String := "[" ++ " ".intercalate (ps.map identStr) ++ "]"

mutual
  def exprStr : Expr → String
    | .none => "_"
    | .ident id => s!"(id {identStr id})"
    | .int t => s!"(int {tokStr t})"
    | .float t => s!"(flt {tokStr t})"
    | .str t v => s!"(str {tokStr t} {hexOf v})"
    | .raw t v => s!"(raw {tokStr t} {hexOf v})"
    | .bool t v => s!"(bool {tokStr t} {if v then 1 else 0})"
    | .null t => s!"(null {tokStr t})"
    | .letE t n v => s!"(lete {tokStr t} {identStr n} {exprStr v})"
    | .binary t l op r => s!"(bin {tokStr t} {hexOf op} {exprStr l} {exprStr r})"
    | .unary t op r => s!"(un {tokStr t} {hexOf op} {exprStr r})"
    | .postfix t l op => s!"(post {tokStr t} {hexOf op} {exprStr l})"
    | .group t e rp => s!"(grp {tokStr t} {tokStr rp} {exprStr e})"
    | .call t f args => s!"(call {tokStr t} {exprStr f} [{exprListStr args}])"
    | .member t o p c => s!"(mem {tokStr t} {if c then 1 else 0} {exprStr o} {exprStr p})"
    | .assign t l v => s!"(asg {tokStr t} {exprStr l} {exprStr v})"
    | .compound t l op v => s!"(casg {tokStr t} {hexOf op} {exprStr l} {exprStr v})"
    | .func t n ps b =>
      let ns := match n with | some i => identStr i | none => "_"
      s!"(fn {tokStr t} {ns} {paramsStr ps} {stmtStr b})"
    | .array t es rb => s!"(arr {tokStr t} {tokStr rb} [{exprListStr es}])"
    | .object t ps rb => s!"(obj {tokStr t} {tokStr rb} [{propListStr ps}])"
  def exprListStr : ExprList → String
    | .nil => ""
    | .cons e .nil => exprStr e
    | .cons e t => exprStr e ++ " " ++ exprListStr t
  def propListStr : PropList → String
    | .nil => ""
    | .cons k v .nil => exprStr k ++ " " ++ exprStr v
    | .cons k v t => exprStr k ++ " " ++ exprStr v ++ " " ++ propListStr t
  def stmtStr : Stmt → String
    | .none => "_"
    | .letS t n v => s!"(let {tokStr t} {identStr n} {exprStr v})"
    | .ret t v => s!"(ret {tokStr t} {exprStr v})"
    | .exprS e => s!"(es {exprStr e})"
    | .funcD t n ps b => s!"(fd {tokStr t} {identStr n} {paramsStr ps} {stmtStr b})"
    | .block t ss rb => s!"(blk {tokStr t} {tokStr rb} [{stmtListStr ss}])"
    | .ifS t c a b => s!"(if {tokStr t} {exprStr c} {stmtStr a} {stmtStr b})"
    | .whileS t c b => s!"(wh {tokStr t} {exprStr c} {stmtStr b})"
    | .forS t i c u b => s!"(for {tokStr t} {exprStr i} {exprStr c} {exprStr u} {stmtStr b})"
  def stmtListStr : StmtList → String
    | .nil => ""
    | .cons s .nil => stmtStr s
    | .cons s t => stmtStr s ++ " " ++ stmtListStr t
end

/-! ## S-expression reader (for programmatic trees) -/

def lexSexp (s : String) : List String :=
  let rec go (cs : List Char) (cur : List Char) (acc : List String) : List String :=
    match cs with
    | [] => (if cur.isEmpty then acc else String.ofList cur.reverse :: acc).reverse
    | c :: rest =>
      if c == ' ' then go rest [] (if cur.isEmpty then acc else String.ofList cur.reverse :: acc)
      else if c == '(' || c == ')' || c == '[' || c == ']' || c == '<' || c == '>' then
        let acc := if cur.isEmpty then acc else String.ofList cur.reverse :: acc
        go rest [] (String.singleton c :: acc)
      else go rest (c :: cur) acc
  go s.toList [] []

abbrev P (α : Type) := List String → Option (α × List String)

def pIdent : P Ident
  | "<" :: t :: v :: ">" :: rest => some ({ tok := parseTok t, value := unhex v }, rest)
  | _ => none

def pOptIdent : P (Option Ident)
  | "_" :: rest => some (none, rest)
  | ts => match pIdent ts with
    | some (i, rest) => some (some i, rest)
    | none => none

partial def pParams (acc : List Ident) : P (List Ident)
  | "]" :: rest => some (acc, rest)
  | ts => match pIdent ts with
    | some (i, rest) => pParams (acc ++ [i]) rest
    | none => none

mutual
  partial def pExpr : P Expr
    | "_" :: rest => some (.none, rest)
    | "(" :: "id" :: rest => do
      let (i, rest) ← pIdent rest
      match rest with | ")" :: rest => some (.ident i, rest) | _ => none
    | "(" :: "int" :: t :: ")" :: rest => some (.int (parseTok t), rest)
    | "(" :: "flt" :: t :: ")" :: rest => some (.float (parseTok t), rest)
    | "(" :: "str" :: t :: v :: ")" :: rest => some (.str (parseTok t) (unhex v), rest)
    | "(" :: "raw" :: t :: v :: ")" :: rest => some (.raw (parseTok t) (unhex v), rest)
    | "(" :: "bool" :: t :: v :: ")" :: rest => some (.bool (parseTok t) (v == "1"), rest)
    | "(" :: "null" :: t :: ")" :: rest => some (.null (parseTok t), rest)
    | "(" :: "lete" :: t :: rest => do
      let (n, rest) ← pIdent rest
      let (v, rest) ← pExpr rest
      match rest with | ")" :: rest => some (.letE (parseTok t) n v, rest) | _ => none
    | "(" :: "bin" :: t :: op :: rest => do
      let (l, rest) ← pExpr rest
      let (r, rest) ← pExpr rest
      match rest with | ")" :: rest => some (.binary (parseTok t) l (unhex op) r, rest) | _ => none
    | "(" :: "un" :: t :: op :: rest => do
      let (r, rest) ← pExpr rest
      match rest with | ")" :: rest => some (.unary (parseTok t) (unhex op) r, rest) | _ => none
    | "(" :: "post" :: t :: op :: rest => do
      let (l, rest) ← pExpr rest
      match rest with | ")" :: rest => some (.postfix (parseTok t) l (unhex op), rest) | _ => none
    | "(" :: "grp" :: t :: rp :: rest => do
      let (e, rest) ← pExpr rest
      match rest with | ")" :: rest => some (.group (parseTok t) e (parseTok rp), rest) | _ => none
    | "(" :: "call" :: t :: rest => do
      let (f, rest) ← pExpr rest
      match rest with
      | "[" :: rest => do
        let (args, rest) ← pExprList .nil rest
        match rest with | ")" :: rest => some (.call (parseTok t) f args, rest) | _ => none
      | _ => none
    | "(" :: "mem" :: t :: c :: rest => do
      let (o, rest) ← pExpr rest
      let (p, rest) ← pExpr rest
      match rest with | ")" :: rest => some (.member (parseTok t) o p (c == "1"), rest) | _ => none
    | "(" :: "asg" :: t :: rest => do
      let (l, rest) ← pExpr rest
      let (v, rest) ← pExpr rest
      match rest with | ")" :: rest => some (.assign (parseTok t) l v, rest) | _ => none
    | "(" :: "casg" :: t :: op :: rest => do
      let (l, rest) ← pExpr rest
      let (v, rest) ← pExpr rest
      match rest with | ")" :: rest => some (.compound (parseTok t) l (unhex op) v, rest) | _ => none
    | "(" :: "fn" :: t :: rest => do
      let (n, rest) ← pOptIdent rest
      match rest with
      | "[" :: rest => do
        let (ps, rest) ← pParams [] rest
        let (b, rest) ← pStmt rest
        match rest with | ")" :: rest => some (.func (parseTok t) n ps b, rest) | _ => none
      | _ => none
    | "(" :: "arr" :: t :: rb :: "[" :: rest => do
      let (es, rest) ← pExprList .nil rest
      match rest with | ")" :: rest => some (.array (parseTok t) es (parseTok rb), rest) | _ => none
    | "(" :: "obj" :: t :: rb :: "[" :: rest => do
      let (ps, rest) ← pPropList .nil rest
      match rest with | ")" :: rest => some (.object (parseTok t) ps (parseTok rb), rest) | _ => none
    | _ => none
  partial def pExprList (acc : ExprList) : P ExprList
    | "]" :: rest => some (acc, rest)
    | ts => do
      let (e, rest) ← pExpr ts
      pExprList (acc.snoc e) rest
  partial def pPropList (acc : PropList) : P PropList
    | "]" :: rest => some (acc, rest)
    | ts => do
      let (k, rest) ← pExpr ts
      let (v, rest) ← pExpr rest
      pPropList (acc.snoc k v) rest
  partial def pStmt : P Stmt
    | "_" :: rest => some (.none, rest)
    | "(" :: "let" :: t :: rest => do
      let (n, rest) ← pIdent rest
      let (v, rest) ← pExpr rest
      match rest with | ")" :: rest => some (.letS (parseTok t) n v, rest) | _ => none
    | "(" :: "ret" :: t :: rest => do
      let (v, rest) ← pExpr rest
      match rest with | ")" :: rest => some (.ret (parseTok t) v, rest) | _ => none
    | "(" :: "es" :: rest => do
      let (e, rest) ← pExpr rest
      match rest with | ")" :: rest => some (.exprS e, rest) | _ => none
    | "(" :: "fd" :: t :: rest => do
      let (n, rest) ← pIdent rest
      match rest with
      | "[" :: rest => do
        let (ps, rest) ← pParams [] rest
        let (b, rest) ← pStmt rest
        match rest with | ")" :: rest => some (.funcD (parseTok t) n ps b, rest) | _ => none
      | _ => none
    | "(" :: "blk" :: t :: rb :: "[" :: rest => do
      let (ss, rest) ← pStmtList .nil rest
      match rest with | ")" :: rest => some (.block (parseTok t) ss (parseTok rb), rest) | _ => none
    | "(" :: "if" :: t :: rest => do
      let (c, rest) ← pExpr rest
      let (a, rest) ← pStmt rest
      let (b, rest) ← pStmt rest
      match rest with | ")" :: rest => some (.ifS (parseTok t) c a b, rest) | _ => none
    | "(" :: "wh" :: t :: rest => do
      let (c, rest) ← pExpr rest
      let (b, rest) ← pStmt rest
      match rest with | ")" :: rest => some (.whileS (parseTok t) c b, rest) | _ => none
    | "(" :: "for" :: t :: rest => do
      let (i, rest) ← pExpr rest
      let (c, rest) ← pExpr rest
      let (u, rest) ← pExpr rest
      let (b, rest) ← pStmt rest
      match rest with | ")" :: rest => some (.forS (parseTok t) i c u b, rest) | _ => none
    | _ => none
  partial def pStmtList (acc : StmtList) : P StmtList
    | "]" :: rest => some (acc, rest)
    | ts => do
      let (s, rest) ← pStmt ts
      pStmtList (acc.snoc s) rest
end

/-- a program: `[S S …]` -/
def pProgram (s : String) : Option StmtList :=
  match lexSexp s with
  | "[" :: rest => match pStmtList .nil rest with
    | some (ss, []) => some ss
    | _ => none
  | _ => none

/-! ## ops -/

def errStr (e : PErr) : String := s!"{hexOf e.msg}@{e.sl}:{e.sc}:{e.el}:{e.ec}"

def ctxNat : Ctx → Nat
  | .global => 0 | .function => 1 | .block => 2

def eventStr (e : Event) : String :=
  s!"{if e.isExpr then "E" else "S"}{e.id}@{e.cur.type.toNat}:{e.cur.sl}:{e.cur.sc}:{if e.inFunction then 1 else 0}:{ctxNat e.ctx}"

def listStr (l : List String) : String := if l.isEmpty then "-" else ",".intercalate l

def parseEI (s : String) : List EI :=
  if s == "-" then [] else (s.splitOn ",").map fun x =>
    { id := (x.drop 1).toString.toNat!, kind := if x.startsWith "r" then .reenter else .observe }

def parseSI (s : String) : List SI :=
  if s == "-" then [] else (s.splitOn ",").map fun x => { id := x.toNat! }

/-- custom operator registrations `p:<hexlit>`, `i:<hexlit>:<prec>`, `s:<hexlit>`: each literal is first
    registered as a token type (name = literal), then the operator role is registered -/
def applyOps (b : Builder) (s : String) : Builder :=
  if s == "-" then b else
  (s.splitOn ",").foldl (fun b item =>
    match item.splitOn ":" with
    | ["p", lit] =>
      let (id, b) := b.registerTokenType (unhex lit)
      (b.registerPrefix (.dyn id)).2
    | ["i", lit, prec] =>
      let (id, b) := b.registerTokenType (unhex lit)
      (b.registerInfix (.dyn id) prec.toNat!).2
    | ["s", lit] =>
      let (id, b) := b.registerTokenType (unhex lit)
      (b.registerPostfix (.dyn id)).2
    | _ => b) b

/-- tokens with the byte under the cursor when each was produced (what a token interceptor sees) -/
partial def lexWithCur (s : LS) (acc : List (Token × Nat)) : List (Token × Nat) :=
  let t := trivia s.rest
  let s1 := readChars t.len s
  let (tok, s2) := baseNextToken t.nl t.comments s1
  if tok.type == .eof then ((tok, s1.cur) :: acc).reverse else lexWithCur s2 ((tok, s1.cur) :: acc)

/-- the `n` first tokens the lexer hands out (EOF repeats) -/
def tokenStream (toks : List (Token × Nat)) (n : Nat) : List (Token × Nat) :=
  match toks.getLast? with
  | none => []
  | some (e, c) => (toks ++ List.replicate n (eofAgain e, c)).take n

def tokTraceStr (k : Nat) (stream : List (Token × Nat)) : String :=
  if k == 0 then "-" else
  listStr (stream.flatMap fun (t, c) =>
    (List.range k).map fun id => s!"{id}@{t.type.toNat}:{t.sl}:{t.sc}:{t.sl}:{t.sc}:{c}")

def resultStr (r : Option ParseResult) (k : Nat) (toks : List (Token × Nat)) : String :=
  match r with
  | none => "diverge"
  | some r =>
    s!"tree=[{stmtListStr r.prog}];err={if r.hasErr then 1 else 0};errs={listStr (r.errors.map errStr)};trace={listStr (r.final.trace.map eventStr)};toktrace={tokTraceStr k (tokenStream toks r.final.nexts)};ctx={ctxNat r.final.currentContext};infn={if r.final.isInFunction then 1 else 0}"

def doParse (flags tokI stmtI exprI ops src : String) : String :=
  let b : Builder := { tolerant := flags.contains 't', smart := flags.contains 's' }
  let b := applyOps b ops
  let cfg := b.config (parseSI stmtI) (parseEI exprI)
  let toksC := (lexWithCur (LS.init (unhex src)) []).map fun (t, c) => (b.retag t, c)
  resultStr (parseProgram cfg (toksC.map (·.1))) tokI.toNat! toksC

def parseCfg (s : String) : CompCfg :=
  match s.splitOn ":" with
  | [k] => { pretty := false, sourceMap := k.contains 'm' }
  | [k, indent, semi] => { pretty := true, indent := unhex indent, semis := semi == "1", sourceMap := k.contains 'm' }
  | _ => {}

def mappingStr (m : Mapping) : String :=
  let n := match m.name with | some i => toString i | none => "_"
  s!"{m.genLine}:{m.genCol}:{m.srcLine}:{m.srcCol}:{n}"

def compileStr (cfg : CompCfg) (prog : StmtList) : String :=
  let r := compile cfg prog
  if !r.ok then "panic" else
  match r.map with
  | none => s!"code={hexOf r.code}"
  | some sm =>
    s!"code={hexOf r.code};version={sm.version};names={listStr (sm.names.map hexOf)};mappings={String.ofList (sm.mappings.map Char.ofNat)}"

def doPrint (cfg src : String) : String :=
  match parseSource {} (unhex src) with
  | none => "diverge"
  | some r => if r.hasErr then "perr" else compileStr (parseCfg cfg) r.prog

def doPrintTree (cfg : String) (sexp : String) : String :=
  match pProgram sexp with
  | none => "badsexp"
  | some prog => compileStr (parseCfg cfg) prog

def lexOne (s : LS) : String × LS :=
  let t := trivia s.rest
  let s1 := readChars t.len s
  let (tok, s2) := baseNextToken t.nl t.comments s1
  (s!"{tokStr tok}|{s1.line}:{s1.col}:{s1.cur}", s2)

/-- the harness's `blockCommentPlugin` (a lexer plugin written against the exported API; not part of the verified
    model): skip `/* … */` and the blanks behind it, repeatedly -/
partial def skipBlocks (s : LS) : LS :=
  if s.cur == 47 && s.peek == 42 then
    let rec body (s : LS) : LS :=
      if s.cur == 0 then s
      else if s.cur == 42 && s.peek == 47 then readChars 2 s
      else if s.rest.isEmpty then s else body (readChar s)
    let rec blanks (s : LS) : LS := if (s.cur == 32 || s.cur == 9) && !s.rest.isEmpty then blanks (readChar s) else s
    skipBlocks (blanks (body (readChars 2 s)))
  else s

partial def lexLoop (plugin : Nat) (s : LS) (extra : Nat) (acc : List String) (seenEof : Bool) : List String :=
  let t := trivia s.rest
  let s1 := readChars t.len s
  let s1' := if plugin == 2 then skipBlocks s1 else s1
  let (tok, s2) := baseNextToken t.nl t.comments s1'
  let item := s!"{tokStr tok}|{s1.line}:{s1.col}:{s1.cur}"
  if tok.type == .eof then
    if extra == 0 then (item :: acc).reverse else lexLoop plugin s2 (extra - 1) (item :: acc) true
  else if seenEof then (item :: acc).reverse     -- cannot happen: EOF is sticky
  else lexLoop plugin s2 extra (item :: acc) false

/-- `extra` = 100 * plugin + extra requests; plugin 1 (`newTokenPlugin`) rebuilds tokens the way the lexer does, so the
    model is the plain lexer -/
def doLex (src extra : String) : String :=
  let e := extra.toNat!
  " ".intercalate (lexLoop (e / 100) (LS.init (unhex src)) (e % 100) [] false)

def parseInt (s : String) : Int :=
  if s.startsWith "-" then -((s.drop 1).toString.toNat! : Int) else (s.toNat! : Int)

def parseMapOp (s : String) : Option MapOp :=
  match s.splitOn ":" with
  | ["m", a, b] => some (.map (parseInt a) (parseInt b))
  | ["n", a, b, n] => some (.named (parseInt a) (parseInt b) (unhex n))
  | ["c", n] => some (.advCol (parseInt n))
  | ["s", h] => some (.advStr (unhex h))
  | ["l"] => some .advLine
  | _ => none

def doSmap (ops : List String) : String :=
  let m := Mapper.run (ops.filterMap parseMapOp)
  let sm := m.sourceMap
  s!"version={sm.version};names={listStr (sm.names.map hexOf)};mappings={String.ofList (sm.mappings.map Char.ofNat)}"

/-- builder histories: `T:<hexname>` `P:<type>` `I:<type>:<prec>` `S:<type>` `B:<hexsrc>` -/
def doBuild (ops : List String) : String :=
  let (_, outs) := ops.foldl (fun (acc : Builder × List String) item =>
    let (b, outs) := acc
    match item.splitOn ":" with
    | ["T", name] => let (id, b) := b.registerTokenType (unhex name); (b, outs ++ [toString id])
    | ["P", ty] => let (ok, b) := b.registerPrefix (TokType.ofNat ty.toNat!); (b, outs ++ [if ok then "ok" else "err"])
    | ["I", ty, prec] => let (ok, b) := b.registerInfix (TokType.ofNat ty.toNat!) prec.toNat!; (b, outs ++ [if ok then "ok" else "err"])
    | ["S", ty] => let (ok, b) := b.registerPostfix (TokType.ofNat ty.toNat!); (b, outs ++ [if ok then "ok" else "err"])
    | ["M", "t", v] => ({ b with tolerant := v == "1" }, outs ++ ["ok"])
    | ["M", "s", v] => ({ b with smart := v == "1" }, outs ++ ["ok"])
    | ["B", src] =>
      let toks := (lexAll (unhex src)).map b.retag
      let r := parseProgram b.config toks
      (b, outs ++ [match r with
        | none => "diverge"
        | some r => s!"[{stmtListStr r.prog}]/{listStr (r.errors.map errStr)}"])
    | _ => (b, outs ++ ["badop"])) (Builder.new, [])
  " ".intercalate outs

/-- `SV d body expected`: the specification's value of a string-literal body, as UTF-16 code units -/
def doSV (d body : String) : String :=
  let b := unhex body
  match Spec.svEval d.toNat! (b.length + 1) b with
  | none => "none"
  | some items => "units=" ++ ".".intercalate ((Spec.itemsToUnits items).map toString)

def step (line : String) : String :=
  match line.splitOn " " with
  | ["SV", d, body, _] => doSV d body
  | ["LEX", src, extra] => doLex src extra
  | ["PARSE", flags, tokI, stmtI, exprI, ops, src] => doParse flags tokI stmtI exprI ops src
  | ["PRINT", cfg, src] => doPrint cfg src
  | "PRINTT" :: cfg :: rest => doPrintTree cfg (" ".intercalate rest)
  | "SMAP" :: ops => doSmap ops
  | "BUILD" :: ops => doBuild ops
  | _ => "bad-op"

partial def loop (h : IO.FS.Stream) (out : IO.FS.Stream) : IO Unit := do
  let line ← h.getLine
  if line.isEmpty then return ()
  let line := (line.dropEndWhile (fun c => c == '\n' || c == '\r')).toString
  out.putStrLn (step line)
  loop h out

end Drive

def main : IO Unit := do
  let stdin ← IO.getStdin
  let stdout ← IO.getStdout
  Drive.loop stdin stdout
