import XjsModel.Model.Lexer
import XjsModel.Model.Ast
/-
  Model of xjs `parser` package (parser.go, parser_functions.go, base_parser_functions.go,
  parser_context.go, builder.go).

  The Go parser keeps `CurrentToken`/`PeekToken` and pulls tokens lazily from the lexer; since the lexer
  does not depend on the parser, the model works on the pre-lexed token list `toks`
  (`toks[0]` = CurrentToken, `toks[1]` = PeekToken; once only the EOF token is left, every further
  `NextToken` yields EOF again, as the lexer does).

  All parse functions are one `mutual … partial_fixpoint` block over `Option` with explicit state
  threading: `none` means "does not terminate"; termination is a theorem (Props/C11), not an assumption.
-/
namespace Xjs

/-! ## precedence levels (parser.go) -/

def LOWEST : Nat := 1
def ASSIGNMENT : Nat := 2
def LOGICAL_OR : Nat := 3
def LOGICAL_AND : Nat := 4
def EQUALITY : Nat := 5
def COMPARISON : Nat := 6
def SUM : Nat := 7
def PRODUCT : Nat := 8
def UNARY : Nat := 9
def POSTFIX : Nat := 10
def CALL : Nat := 11
def MEMBER : Nat := 12

/-- the package-level `precedences` map as an association list -/
def basePrecedences : List (TokType × Nat) :=
  [(.assign, ASSIGNMENT), (.plusAssign, ASSIGNMENT), (.minusAssign, ASSIGNMENT),
   (.or, LOGICAL_OR), (.and, LOGICAL_AND), (.eq, EQUALITY), (.notEq, EQUALITY),
   (.lt, COMPARISON), (.gt, COMPARISON), (.lte, COMPARISON), (.gte, COMPARISON),
   (.plus, SUM), (.minus, SUM), (.multiply, PRODUCT), (.divide, PRODUCT), (.modulo, PRODUCT),
   (.increment, POSTFIX), (.decrement, POSTFIX), (.lparen, CALL), (.dot, MEMBER), (.lbracket, MEMBER)]

inductive PrefixKind where
  | ident | int | float | string | rawString | bool | null | unary | group | array | object | func
  deriving DecidableEq, Repr

inductive InfixKind where
  | binary | assign | compound | call | member | index | postfix
  deriving DecidableEq, Repr

def basePrefixFns : List (TokType × PrefixKind) :=
  [(.ident, .ident), (.int, .int), (.float, .float), (.string, .string), (.rawString, .rawString),
   (.true_, .bool), (.false_, .bool), (.null, .null), (.not, .unary), (.minus, .unary),
   (.increment, .unary), (.decrement, .unary), (.lparen, .group), (.lbracket, .array),
   (.lbrace, .object), (.function, .func)]

def baseInfixFns : List (TokType × InfixKind) :=
  [(.plus, .binary), (.minus, .binary), (.multiply, .binary), (.divide, .binary), (.modulo, .binary),
   (.eq, .binary), (.notEq, .binary), (.lt, .binary), (.gt, .binary), (.lte, .binary), (.gte, .binary),
   (.and, .binary), (.or, .binary), (.assign, .assign), (.plusAssign, .compound), (.minusAssign, .compound),
   (.lparen, .call), (.dot, .member), (.lbracket, .index), (.increment, .postfix), (.decrement, .postfix)]

def lookup {β} (l : List (TokType × β)) (t : TokType) : Option β :=
  match l.find? (fun kv => kv.1 == t) with
  | some kv => some kv.2
  | none => none

/-! ## interceptors (pass-through kinds only) -/

inductive EIKind where
  | observe    -- records the event, calls `next()`
  | reenter    -- records the event, then `ParsePrefixExpression` + `ParseRemainingExpression` instead of `next()`
  deriving DecidableEq, Repr

structure EI where
  id : Nat
  kind : EIKind
  deriving DecidableEq, Repr

structure SI where
  id : Nat
  deriving DecidableEq, Repr

inductive Ctx where
  | global | function | block
  deriving DecidableEq, Repr

/-- what an interceptor observes when it runs -/
structure Event where
  isExpr : Bool
  id : Nat
  cur : Token
  inFunction : Bool
  ctx : Ctx
  depth : Nat
  stack : List Ctx := []     -- the whole context stack at that moment (innermost first); not observable in Go
  deriving DecidableEq, Repr

structure PErr where
  msg : Bytes
  sl : Nat
  sc : Nat
  el : Nat
  ec : Nat
  deriving DecidableEq, Repr

/-- parser configuration: modes and (per-instance) operator tables, interceptor chains -/
structure PCfg where
  tolerant : Bool := false
  smart : Bool := false
  precs : List (TokType × Nat) := basePrecedences
  prefixFns : List (TokType × PrefixKind) := basePrefixFns
  infixFns : List (TokType × InfixKind) := baseInfixFns
  stmtI : List SI := []
  exprI : List EI := []

structure PS where
  toks : List Token
  errors : List PErr := []
  ctx : List Ctx := [.global]      -- context stack, innermost first
  curPrec : Nat := 0               -- currentExpressionPrecedence
  trace : List Event := []
  nexts : Nat := 2                 -- number of lexer.NextToken calls so far (two at construction)
  consumed : List TokType := []    -- ghost: types of the tokens the cursor has moved past (not observable in Go)

def eofAgain (t : Token) : Token := { t with nl := false, comments := [] }

/-- Go's zero `token.Token{}` -/
def zeroTok : Token := { type := .illegal, lit := [], sl := 0, sc := 0, el := 0, ec := 0 }

def dummyTok : Token := { type := .eof, lit := [], sl := 0, sc := 0, el := 0, ec := 0 }

def PS.cur (st : PS) : Token := st.toks.headD dummyTok
def PS.peek (st : PS) : Token :=
  match st.toks with
  | _ :: t :: _ => t
  | [t] => eofAgain t
  | [] => dummyTok

/-- `Parser.NextToken` -/
def PS.next (st : PS) : PS :=
  match st.toks with
  | a :: t :: ts => { st with toks := t :: ts, nexts := st.nexts + 1, consumed := st.consumed ++ [a.type] }
  | [t] => { st with toks := [eofAgain t], nexts := st.nexts + 1, consumed := st.consumed ++ [t.type] }
  | [] => { st with nexts := st.nexts + 1, consumed := st.consumed ++ [dummyTok.type] }

/-- decimal digits of a natural number (for `fmt.Sprintf("unknown(%d)", tt)`) -/
def natDigits (n : Nat) : Bytes := (Nat.toDigits 10 n).map Char.toNat

/-- `Type.String()` as bytes -/
def typeName : TokType → Bytes
  | .illegal => [105, 108, 108, 101, 103, 97, 108]  -- illegal
  | .eof => [101, 110, 100, 32, 111, 102, 32, 108, 105, 110, 101]  -- end of line
  | .ident => [105, 100, 101, 110, 116, 105, 102, 105, 101, 114]  -- identifier
  | .int => [105, 110, 116, 101, 103, 101, 114]  -- integer
  | .float => [102, 108, 111, 97, 116, 32, 110, 117, 109, 98, 101, 114]  -- float number
  | .string => [115, 116, 114, 105, 110, 103]  -- string
  | .rawString => [114, 97, 119, 32, 115, 116, 114, 105, 110, 103]  -- raw string
  | .assign => [61]  -- =
  | .plusAssign => [43, 61]  -- +=
  | .minusAssign => [45, 61]  -- -=
  | .plus => [43]  -- +
  | .minus => [45]  -- -
  | .multiply => [42]  -- *
  | .divide => [47]  -- /
  | .modulo => [37]  -- %
  | .eq => [61, 61]  -- ==
  | .notEq => [33, 61]  -- !=
  | .lt => [60]  -- <
  | .gt => [62]  -- >
  | .lte => [60, 61]  -- <=
  | .gte => [62, 61]  -- >=
  | .and => [38, 38]  -- &&
  | .or => [124, 124]  -- ||
  | .not => [33]  -- !
  | .increment => [43, 43]  -- ++
  | .decrement => [45, 45]  -- --
  | .comma => [44]  -- ,
  | .semicolon => [59]  -- ;
  | .colon => [58]  -- :
  | .dot => [46]  -- .
  | .lparen => [40]  -- (
  | .rparen => [41]  -- )
  | .lbrace => [123]  -- {
  | .rbrace => [125]  -- }
  | .lbracket => [91]  -- [
  | .rbracket => [93]  -- ]
  | .function => [102, 117, 110, 99, 116, 105, 111, 110]  -- function
  | .let_ => [108, 101, 116]  -- let
  | .if_ => [105, 102]  -- if
  | .else_ => [101, 108, 115, 101]  -- else
  | .while_ => [119, 104, 105, 108, 101]  -- while
  | .for_ => [102, 111, 114]  -- for
  | .return_ => [114, 101, 116, 117, 114, 110]  -- return
  | .true_ => [116, 114, 117, 101]  -- true
  | .false_ => [102, 97, 108, 115, 101]  -- false
  | .null => [117, 110, 100, 101, 102, 105, 110, 101, 100]  -- undefined
  | .dyn n => [117, 110, 107, 110, 111, 119, 110, 40] ++ natDigits n ++ [41]

def PS.addErrorAt (st : PS) (msg : Bytes) (t : Token) : PS :=
  { st with errors := st.errors ++ [{ msg := msg, sl := t.sl, sc := t.sc, el := t.el, ec := t.ec }] }

def PS.addError (st : PS) (msg : Bytes) : PS := st.addErrorAt msg st.cur

/-- `ExpectToken` -/
def expectToken (ty : TokType) (st : PS) : Bool × PS :=
  if st.peek.type == ty then (true, st.next)
  else (false, st.addErrorAt (typeName ty ++ strBytes " expected") st.peek)

/-- `shouldInsertSemicolon` ends with a `switch` over the peek token type. Go's `case` clauses do not
    fall through, so of the eighteen listed clauses (`.`, `{`, `+`, … `+=`, `-=`) only the LAST one,
    `token.MINUS_ASSIGN`, has a body (`return false`); the others are empty and control continues to
    `return true`. The extractor reports the clauses that really return false. -/
def asiContinuation : List TokType := [.minusAssign]

def shouldInsertSemicolon (st : PS) : Bool :=
  if st.peek.type == .eof then true
  else if st.peek.type == .rbrace then true
  else if !st.peek.nl then false
  else !(asiContinuation.contains st.peek.type)

/-- `ExpectSemicolonASI` -/
def expectSemiASI (cfg : PCfg) (st : PS) : Bool × PS :=
  if st.peek.type == .semicolon then (true, st.next)
  else if shouldInsertSemicolon st then (true, st)
  else if cfg.tolerant then (true, st)
  else (false, st.addErrorAt (strBytes "semicolon or newline expected") st.peek)

def precOf (cfg : PCfg) (t : TokType) : Nat := (lookup cfg.precs t).getD LOWEST
def peekPrecedence (cfg : PCfg) (st : PS) : Nat := precOf cfg st.peek.type
def curPrecedence (cfg : PCfg) (st : PS) : Nat := precOf cfg st.cur.type

def PS.push (st : PS) (c : Ctx) : PS := { st with ctx := c :: st.ctx }
def PS.pop (st : PS) : PS := { st with ctx := st.ctx.tail }
def PS.currentContext (st : PS) : Ctx := st.ctx.headD .global
def PS.isInFunction (st : PS) : Bool := st.ctx.contains .function

def PS.event (st : PS) (isExpr : Bool) (id : Nat) : Event :=
  { isExpr := isExpr, id := id, cur := st.cur, inFunction := st.isInFunction,
    ctx := st.currentContext, depth := st.ctx.length, stack := st.ctx }

/-! ## literal validity: strconv.ParseInt(lit, 0, 64) / strconv.ParseFloat(lit, 64) succeed -/

def digitsValue (base : Nat) (ds : Bytes) : Nat := ds.foldl (fun v d => v * base + hexVal d) 0

def maxInt64 : Nat := 2 ^ 63 - 1

/-- `strconv.ParseInt(s, 0, 64)` returns no error (shapes the lexer can produce as INT) -/
def parseIntOk (lit : Bytes) : Bool :=
  match lit with
  | 48 :: x :: ds =>
    if x == 120 || x == 88 then !ds.isEmpty && ds.all isHexDigit && digitsValue 16 ds ≤ maxInt64
    else if x == 98 || x == 66 then !ds.isEmpty && ds.all isBinDigit && digitsValue 2 ds ≤ maxInt64
    else if x == 111 || x == 79 then !ds.isEmpty && ds.all isOctDigit && digitsValue 8 ds ≤ maxInt64
    else (x :: ds).all isOctDigit && digitsValue 8 (x :: ds) ≤ maxInt64     -- leading 0: octal
  | _ => !lit.isEmpty && lit.all isDigit && digitsValue 10 lit ≤ maxInt64

/-- smallest decimal value that `ParseFloat` rounds to +Inf: 2^1024 - 2^970 -/
def floatOverflowThreshold : Nat := 2 ^ 1024 - 2 ^ 970

/-- `strconv.ParseFloat(s, 64)` returns no error, for the shapes the lexer produces as FLOAT:
    `d+ (. d+)? ((e|E) (+|-)? d*)?`; the exponent needs digits and the value must not overflow. -/
def parseFloatOk (lit : Bytes) : Bool :=
  let ip := lit.takeWhile isDigit
  let r1 := lit.drop ip.length
  let (fp, r2) :=
    if r1.headD 0 == 46 then ((r1.drop 1).takeWhile isDigit, (r1.drop 1).dropWhile isDigit) else ([], r1)
  let mant := digitsValue 10 (ip ++ fp)
  if r2.isEmpty then !ip.isEmpty
  else if r2.headD 0 == 101 || r2.headD 0 == 69 then
    let r3 := r2.drop 1
    let neg := r3.headD 0 == 45
    let r4 := if r3.headD 0 == 43 || r3.headD 0 == 45 then r3.drop 1 else r3
    if r4.isEmpty || !r4.all isDigit then false
    else
      let e := digitsValue 10 r4
      -- value = mant * 10^(±e - |fp|)
      if mant == 0 then true
      else if neg then
        -- mant * 10^(-e - |fp|) < threshold. `mant < 10^(number of its digits)`, so for a shift of at least that many
        -- places the comparison holds without computing the (possibly astronomically large) power
        if e + fp.length ≥ (ip ++ fp).length then true
        else mant < floatOverflowThreshold * 10 ^ (e + fp.length)
      else if e ≥ fp.length then
        -- guard against astronomically large exponents before computing the power
        if e - fp.length > 400 then false
        else mant * 10 ^ (e - fp.length) < floatOverflowThreshold
      else mant < floatOverflowThreshold * 10 ^ (fp.length - e)
  else false

/-- `fmt.Sprintf("%q", lit)` for literals made of digits and letters -/
def quoted (lit : Bytes) : Bytes := [34] ++ lit ++ [34]

/-! ## ParseFunctionParameters (no recursion into expressions) -/

def identOfCur (st : PS) : Ident := { tok := st.cur, value := st.cur.lit }

/-- the `for p.PeekToken.Type == token.COMMA` loop -/
def paramsLoop (acc : List Ident) (st : PS) : Option (List Ident × PS) :=
  if st.peek.type == .comma then
    let st := st.next.next
    paramsLoop (acc ++ [identOfCur st]) st
  else some (acc, st)
partial_fixpoint

/-- returns `none`-list (Go nil) as `[]`; the flag says whether `)` was found -/
def parseFunctionParameters (st : PS) : Option (List Ident × PS) :=
  if st.peek.type == .rparen then some ([], st.next)
  else
    let st := st.next
    (paramsLoop [identOfCur st] st) >>= fun (ids, st) =>
      let (ok, st) := expectToken .rparen st
      if ok then some (ids, st) else some ([], st)

/-! ## the recursive-descent / Pratt block -/

mutual

  /-- `p.statementParseFn(p)` with the interceptor chain `is` still to run -/
  def parseStatementI (cfg : PCfg) (is : List SI) (st : PS) : Option (Stmt × PS) :=
    match is with
    | [] => baseParseStatement cfg st
    | i :: rest =>
      let st := { st with trace := st.trace ++ [st.event false i.id] }
      parseStatementI cfg rest st
  partial_fixpoint

  def baseParseStatement (cfg : PCfg) (st : PS) : Option (Stmt × PS) :=
    match st.cur.type with
    | .let_ => parseLetStatement cfg st
    | .function => parseFunctionStatement cfg st
    | .return_ => parseReturnStatement cfg st
    | .if_ => parseIfStatement cfg st
    | .while_ => parseWhileStatement cfg st
    | .for_ => parseForStatement cfg st
    | .lbrace => parseBlockStatement cfg st
    | _ => parseExpressionStatement cfg st
  partial_fixpoint

  def parseLetStatement (cfg : PCfg) (st : PS) : Option (Stmt × PS) :=
    let tok := st.cur
    let (ok, st) := expectToken .ident st
    if !ok then some (.none, st) else
    let name := identOfCur st
    if st.peek.type == .assign then
      let st := st.next.next
      (parseExpressionI cfg cfg.exprI LOWEST st) >>= fun (v, st) =>
        let (ok, st) := expectSemiASI cfg st
        if !ok then some (.none, st) else some (.letS tok name v, st)
    else
      let (ok, st) := expectSemiASI cfg st
      if !ok then some (.none, st) else some (.letS tok name .none, st)
  partial_fixpoint

  def parseLetExpression (cfg : PCfg) (st : PS) : Option (Expr × PS) :=
    let tok := st.cur
    let (ok, st) := expectToken .ident st
    if !ok then some (.none, st) else
    let name := identOfCur st
    if st.peek.type == .assign then
      let st := st.next.next
      (parseExpressionI cfg cfg.exprI LOWEST st) >>= fun (v, st) =>
        some (.letE tok name v, st)
    else some (.letE tok name .none, st)
  partial_fixpoint

  def parseFunctionStatement (cfg : PCfg) (st : PS) : Option (Stmt × PS) :=
    let tok := st.cur
    let (ok, st) := expectToken .ident st
    if !ok then some (.none, st) else
    let name := identOfCur st
    let (ok, st) := expectToken .lparen st
    if !ok then some (.none, st) else
    (parseFunctionParameters st) >>= fun (params, st) =>
      let (ok, st) := expectToken .lbrace st
      if !ok then some (.none, st) else
      (parseBlockStatement cfg (st.push .function)) >>= fun (body, st) =>
        some (.funcD tok name params body, st.pop)
  partial_fixpoint

  def parseReturnStatement (cfg : PCfg) (st : PS) : Option (Stmt × PS) :=
    let tok := st.cur
    -- restricted production: a line break after `return` ends the statement
    if st.peek.type != .semicolon && st.peek.type != .eof && st.peek.type != .rbrace && !st.peek.nl then
      (parseExpressionI cfg cfg.exprI LOWEST st.next) >>= fun (v, st) =>
        let (ok, st) := expectSemiASI cfg st
        if !ok then some (.none, st) else some (.ret tok v, st)
    else
      let (ok, st) := expectSemiASI cfg st
      if !ok then some (.none, st) else some (.ret tok .none, st)
  partial_fixpoint

  def parseIfStatement (cfg : PCfg) (st : PS) : Option (Stmt × PS) :=
    let tok := st.cur
    let (ok, st) := expectToken .lparen st
    if !ok then some (.none, st) else
    (parseExpressionI cfg cfg.exprI LOWEST st.next) >>= fun (cond, st) =>
      let (ok, st) := expectToken .rparen st
      if !ok then some (.none, st) else
      (parseStatementI cfg cfg.stmtI st.next) >>= fun (thn, st) =>
        if st.peek.type == .else_ then
          (parseStatementI cfg cfg.stmtI st.next.next) >>= fun (els, st) =>
            some (.ifS tok cond thn els, st)
        else some (.ifS tok cond thn .none, st)
  partial_fixpoint

  def parseWhileStatement (cfg : PCfg) (st : PS) : Option (Stmt × PS) :=
    let tok := st.cur
    let (ok, st) := expectToken .lparen st
    if !ok then some (.none, st) else
    (parseExpressionI cfg cfg.exprI LOWEST st.next) >>= fun (cond, st) =>
      let (ok, st) := expectToken .rparen st
      if !ok then some (.none, st) else
      (parseStatementI cfg cfg.stmtI st.next) >>= fun (body, st) =>
        some (.whileS tok cond body, st)
  partial_fixpoint

  /-- first clause of `for (…;…;…)` -/
  def parseForInit (cfg : PCfg) (st : PS) : Option (Expr × PS) :=
    if st.peek.type != .semicolon then
      let st := st.next
      if st.cur.type == .let_ then parseLetExpression cfg st
      else parseExpressionI cfg cfg.exprI LOWEST st
    else some (.none, st)
  partial_fixpoint

  def parseForStatement (cfg : PCfg) (st : PS) : Option (Stmt × PS) :=
    let tok := st.cur
    let (ok, st) := expectToken .lparen st
    if !ok then some (.none, st) else
    (parseForInit cfg st) >>= fun (init, st) =>
      let (ok, st) := expectToken .semicolon st
      if !ok then some (.none, st) else
      (if st.peek.type != .semicolon then parseExpressionI cfg cfg.exprI LOWEST st.next
       else some (Expr.none, st)) >>= fun (cond, st) =>
        let (ok, st) := expectToken .semicolon st
        if !ok then some (.none, st) else
        (if st.peek.type != .rparen then parseExpressionI cfg cfg.exprI LOWEST st.next
         else some (Expr.none, st)) >>= fun (update, st) =>
          let (ok, st) := expectToken .rparen st
          if !ok then some (.none, st) else
          (parseStatementI cfg cfg.stmtI st.next) >>= fun (body, st) =>
            some (.forS tok init cond update body, st)
  partial_fixpoint

  /-- the statement loop of `ParseBlockStatement` -/
  def blockLoop (cfg : PCfg) (acc : StmtList) (st : PS) : Option (StmtList × PS) :=
    if st.cur.type != .rbrace && st.cur.type != .eof then
      (parseStatementI cfg cfg.stmtI st) >>= fun (s, st) =>
        blockLoop cfg (if s.isNone then acc else acc.snoc s) st.next
    else some (acc, st)
  partial_fixpoint

  def parseBlockStatement (cfg : PCfg) (st : PS) : Option (Stmt × PS) :=
    let tok := st.cur
    (blockLoop cfg .nil (st.push .block).next) >>= fun (stmts, st) =>
      let st := if st.cur.type != .rbrace && !cfg.tolerant
                then st.addError (strBytes "unclosed block statement, expected '}'") else st
      some (.block tok stmts st.cur, st.pop)
  partial_fixpoint

  def parseExpressionStatement (cfg : PCfg) (st : PS) : Option (Stmt × PS) :=
    (parseExpressionI cfg cfg.exprI LOWEST st) >>= fun (e, st) =>
      let (ok, st) := expectSemiASI cfg st
      if !ok then some (.none, st) else some (.exprS e, st)
  partial_fixpoint

  /-- `p.expressionParseFn(p, precedence)` with the interceptor chain `is` still to run -/
  def parseExpressionI (cfg : PCfg) (is : List EI) (prec : Nat) (st : PS) : Option (Expr × PS) :=
    match is with
    | [] =>
      -- baseParseExpression
      (parsePrefixExpression cfg st) >>= fun (left, st) =>
        parseRemaining cfg left prec st
    | i :: rest =>
      let old := st.curPrec
      let st := { st with curPrec := prec, trace := st.trace ++ [st.event true i.id] }
      match i.kind with
      | .observe =>
        (parseExpressionI cfg rest prec st) >>= fun (r, st) =>
          some (r, { st with curPrec := old })
      | .reenter =>
        (parsePrefixExpression cfg st) >>= fun (left, st) =>
          (parseRemaining cfg left st.curPrec st) >>= fun (r, st) =>
            some (r, { st with curPrec := old })
  partial_fixpoint

  /-- `ParseRemainingExpressionWithPrecedence` -/
  def parseRemaining (cfg : PCfg) (left : Expr) (prec : Nat) (st : PS) : Option (Expr × PS) :=
    if st.peek.type != .semicolon && prec < peekPrecedence cfg st then
      -- restricted production: no line break before a postfix `++` / `--`
      if st.peek.nl && (st.peek.type == .increment || st.peek.type == .decrement) then
        some (left, st)
      else if cfg.smart && st.peek.nl && (st.peek.type == .lparen || st.peek.type == .lbracket) then
        some (left, st)
      else
        (parseInfixExpression cfg left st) >>= fun (left, st) =>
          parseRemaining cfg left prec st
    else some (left, st)
  partial_fixpoint

  /-- `ParsePrefixExpression` -/
  def parsePrefixExpression (cfg : PCfg) (st : PS) : Option (Expr × PS) :=
    match lookup cfg.prefixFns st.cur.type with
    | none => some (.none, st.addError (strBytes "unexpected " ++ st.cur.lit))
    | some .ident => some (.ident (identOfCur st), st)
    | some .int =>
      if parseIntOk st.cur.lit then some (.int st.cur, st)
      else some (.none, st.addError (strBytes "could not parse " ++ quoted st.cur.lit ++ strBytes " as integer"))
    | some .float =>
      if parseFloatOk st.cur.lit then some (.float st.cur, st)
      else some (.none, st.addError (strBytes "could not parse " ++ quoted st.cur.lit ++ strBytes " as float"))
    | some .string => some (.str st.cur st.cur.lit, st)
    | some .rawString => some (.raw st.cur st.cur.lit, st)
    | some .bool => some (.bool st.cur (st.cur.type == .true_), st)
    | some .null => some (.null st.cur, st)
    | some .unary =>
      let tok := st.cur
      (parseExpressionI cfg cfg.exprI UNARY st.next) >>= fun (r, st) =>
        some (.unary tok tok.lit r, st)
    | some .group =>
      let tok := st.cur
      (parseExpressionI cfg cfg.exprI LOWEST st.next) >>= fun (e, st) =>
        let (ok, st) := expectToken .rparen st
        if !ok then some (.none, st) else some (.group tok e st.cur, st)
    | some .array =>
      let tok := st.cur
      (parseExpressionList cfg .rbracket st) >>= fun (elems, st) =>
        some (.array tok elems st.cur, st)
    | some .object => parseObjectLiteral cfg st
    | some .func => parseFunctionExpression cfg st
  partial_fixpoint

  /-- `ParseInfixExpression` -/
  def parseInfixExpression (cfg : PCfg) (left : Expr) (st : PS) : Option (Expr × PS) :=
    match lookup cfg.infixFns st.peek.type with
    | none => some (left, st)
    | some kind =>
      let st := st.next
      let tok := st.cur
      match kind with
      | .binary =>
        let prec := curPrecedence cfg st
        (parseExpressionI cfg cfg.exprI prec st.next) >>= fun (r, st) =>
          some (.binary tok left tok.lit r, st)
      | .assign =>
        (parseExpressionI cfg cfg.exprI LOWEST st.next) >>= fun (v, st) =>
          some (.assign tok left v, st)
      | .compound =>
        let op := if tok.type == .plusAssign then [43] else if tok.type == .minusAssign then [45] else []
        (parseExpressionI cfg cfg.exprI LOWEST st.next) >>= fun (v, st) =>
          some (.compound tok left op v, st)
      | .call =>
        (parseExpressionList cfg .rparen st) >>= fun (args, st) =>
          some (.call tok left args, st)
      | .member =>
        (parseExpressionI cfg cfg.exprI MEMBER st.next) >>= fun (prop, st) =>
          some (.member tok left prop false, st)
      | .index =>
        (parseExpressionI cfg cfg.exprI LOWEST st.next) >>= fun (prop, st) =>
          let (ok, st) := expectToken .rbracket st
          if !ok then some (.none, st) else some (.member tok left prop true, st)
      | .postfix => some (.postfix tok left tok.lit, st)
  partial_fixpoint

  /-- `ParseExpressionList(end)`; a Go nil result is the empty list -/
  def parseExpressionList (cfg : PCfg) (endTy : TokType) (st : PS) : Option (ExprList × PS) :=
    if st.peek.type == endTy then some (.nil, st.next)
    else
      (parseExpressionI cfg cfg.exprI LOWEST st.next) >>= fun (e, st) =>
        (exprListLoop cfg (.cons e .nil) st) >>= fun (args, st) =>
          let (ok, st) := expectToken endTy st
          if ok then some (args, st) else some (.nil, st)
  partial_fixpoint

  def exprListLoop (cfg : PCfg) (acc : ExprList) (st : PS) : Option (ExprList × PS) :=
    if st.peek.type == .comma then
      (parseExpressionI cfg cfg.exprI LOWEST st.next.next) >>= fun (e, st) =>
        exprListLoop cfg (acc.snoc e) st
    else some (acc, st)
  partial_fixpoint

  def parseObjectLiteral (cfg : PCfg) (st : PS) : Option (Expr × PS) :=
    let tok := st.cur
    if st.peek.type == .rbrace then some (.object tok .nil zeroTok, st.next)
    else
      (objectLoop cfg .nil st.next) >>= fun (r, st) =>
        match r with
        | none => some (.none, st)
        | some props =>
          let (ok, st) := expectToken .rbrace st
          if !ok then some (.none, st) else some (.object tok props st.cur, st)
  partial_fixpoint

  /-- the `for { key : value , }` loop; `none` inside the result = `return nil` on a missing colon -/
  def objectLoop (cfg : PCfg) (acc : PropList) (st : PS) : Option (Option PropList × PS) :=
    (parseExpressionI cfg cfg.exprI LOWEST st) >>= fun (key, st) =>
      let (ok, st) := expectToken .colon st
      if !ok then some (none, st) else
      (parseExpressionI cfg cfg.exprI LOWEST st.next) >>= fun (value, st) =>
        let acc := acc.snoc key value
        if st.peek.type != .comma then some (some acc, st)
        else objectLoop cfg acc st.next.next
  partial_fixpoint

  def parseFunctionExpression (cfg : PCfg) (st : PS) : Option (Expr × PS) :=
    let tok := st.cur
    let (name, st) :=
      if st.peek.type == .ident then (some (identOfCur st.next), st.next) else (none, st)
    let (ok, st) := expectToken .lparen st
    if !ok then some (.none, st) else
    (parseFunctionParameters st) >>= fun (params, st) =>
      let (ok, st) := expectToken .lbrace st
      if !ok then some (.none, st) else
      (parseBlockStatement cfg (st.push .function)) >>= fun (body, st) =>
        some (.func tok name params body, st.pop)
  partial_fixpoint

end

/-- the statement loop of `ParseProgram` -/
def programLoop (cfg : PCfg) (acc : StmtList) (st : PS) : Option (StmtList × PS) :=
  if st.cur.type != .eof then
    (parseStatementI cfg cfg.stmtI st) >>= fun (s, st) =>
      programLoop cfg (if s.isNone then acc else acc.snoc s) st.next
  else some (acc, st)
partial_fixpoint

structure ParseResult where
  prog : StmtList
  errors : List PErr
  hasErr : Bool         -- the `error` return value is non-nil
  final : PS

def PS.init (toks : List Token) : PS := { toks := toks }

/-- `ParseProgram` on a pre-lexed token list -/
def parseProgram (cfg : PCfg) (toks : List Token) : Option ParseResult :=
  (programLoop cfg .nil (PS.init toks)) >>= fun (stmts, st) =>
    some { prog := stmts, errors := st.errors, hasErr := !st.errors.isEmpty, final := st }

/-- `parser.NewBuilder(lexer.NewBuilder()).Build(src).ParseProgram()` -/
def parseSource (cfg : PCfg) (src : Bytes) : Option ParseResult := parseProgram cfg (lexAll src)

end Xjs
