/-
  Model of xjs `token` package: token types, positions, tokens.
  Bytes are modelled as natural numbers (the driver only ever feeds values < 256);
  Go strings are byte sequences, so `Bytes = List Nat`.
-/
namespace Xjs

abbrev Bytes := List Nat

/-- `token.Type`. The built-in constants of the `iota` block plus dynamic ids (`>= 1000`). -/
inductive TokType where
  | illegal | eof
  | ident | int | float | string | rawString
  | assign | plusAssign | minusAssign | plus | minus | multiply | divide | modulo
  | eq | notEq | lt | gt | lte | gte
  | and | or | not
  | increment | decrement
  | comma | semicolon | colon | dot
  | lparen | rparen | lbrace | rbrace | lbracket | rbracket
  | function | let_ | if_ | else_ | while_ | for_ | return_ | true_ | false_ | null
  | dyn (n : Nat)
  deriving DecidableEq, Repr, Inhabited

namespace TokType

/-- all built-in token types in `iota` order -/
def builtins : List TokType :=
  [illegal, eof, ident, int, float, string, rawString,
   assign, plusAssign, minusAssign, plus, minus, multiply, divide, modulo,
   eq, notEq, lt, gt, lte, gte, and, or, not, increment, decrement,
   comma, semicolon, colon, dot, lparen, rparen, lbrace, rbrace, lbracket, rbracket,
   function, let_, if_, else_, while_, for_, return_, true_, false_, null]

def toNat : TokType → Nat
  | illegal => 0 | eof => 1 | ident => 2 | int => 3 | float => 4 | string => 5 | rawString => 6
  | assign => 7 | plusAssign => 8 | minusAssign => 9 | plus => 10 | minus => 11 | multiply => 12
  | divide => 13 | modulo => 14 | eq => 15 | notEq => 16 | lt => 17 | gt => 18 | lte => 19 | gte => 20
  | and => 21 | or => 22 | not => 23 | increment => 24 | decrement => 25
  | comma => 26 | semicolon => 27 | colon => 28 | dot => 29
  | lparen => 30 | rparen => 31 | lbrace => 32 | rbrace => 33 | lbracket => 34 | rbracket => 35
  | function => 36 | let_ => 37 | if_ => 38 | else_ => 39 | while_ => 40 | for_ => 41 | return_ => 42
  | true_ => 43 | false_ => 44 | null => 45
  | dyn n => n

def ofNat (n : Nat) : TokType :=
  if h : n < builtins.length then builtins[n] else dyn n

end TokType

/-- `token.Token` (positions are 0-based line and byte column) -/
structure Token where
  type : TokType
  lit : Bytes
  sl : Nat
  sc : Nat
  el : Nat
  ec : Nat
  nl : Bool := false               -- AfterNewline
  comments : List Bytes := []      -- LeadingComments ("" = one line break)
  deriving DecidableEq, Repr, Inhabited

def strBytes (s : String) : Bytes := s.toUTF8.toList.map UInt8.toNat

end Xjs
