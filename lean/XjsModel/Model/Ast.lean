import XjsModel.Model.Token
/-
  Model of xjs `ast` package node types.

  Go's nil children are representable: `Expr.none` / `Stmt.none` stand for a nil interface value
  (optional children that are absent, or mandatory children missing after a parse error).
  List types are home-made so that the whole family is one plain mutual inductive
  (structural recursion and mutual theorems work on it).
-/
namespace Xjs

/-- `*ast.Identifier` -/
structure Ident where
  tok : Token
  value : Bytes
  deriving DecidableEq, Repr, Inhabited

mutual
  inductive Expr where
    | none
    | ident (id : Ident)
    | int (tok : Token)
    | float (tok : Token)
    | str (tok : Token) (value : Bytes)
    | raw (tok : Token) (value : Bytes)
    | bool (tok : Token) (value : Bool)
    | null (tok : Token)
    | letE (tok : Token) (name : Ident) (value : Expr)
    | binary (tok : Token) (left : Expr) (op : Bytes) (right : Expr)
    | unary (tok : Token) (op : Bytes) (right : Expr)
    | postfix (tok : Token) (left : Expr) (op : Bytes)
    | group (tok : Token) (e : Expr) (rparen : Token)
    | call (tok : Token) (fn : Expr) (args : ExprList)
    | member (tok : Token) (obj : Expr) (prop : Expr) (computed : Bool)
    | assign (tok : Token) (left : Expr) (value : Expr)
    | compound (tok : Token) (left : Expr) (op : Bytes) (value : Expr)
    | func (tok : Token) (name : Option Ident) (params : List Ident) (body : Stmt)
    | array (tok : Token) (elems : ExprList) (rbracket : Token)
    | object (tok : Token) (props : PropList) (rbrace : Token)
  inductive Stmt where
    | none
    | letS (tok : Token) (name : Ident) (value : Expr)
    | ret (tok : Token) (value : Expr)
    | exprS (e : Expr)
    | funcD (tok : Token) (name : Ident) (params : List Ident) (body : Stmt)
    | block (tok : Token) (stmts : StmtList) (rbrace : Token)
    | ifS (tok : Token) (cond : Expr) (thn : Stmt) (els : Stmt)
    | whileS (tok : Token) (cond : Expr) (body : Stmt)
    | forS (tok : Token) (init : Expr) (cond : Expr) (update : Expr) (body : Stmt)
  inductive ExprList where
    | nil
    | cons (e : Expr) (t : ExprList)
  inductive StmtList where
    | nil
    | cons (s : Stmt) (t : StmtList)
  inductive PropList where
    | nil
    | cons (k : Expr) (v : Expr) (t : PropList)
end

instance : Inhabited Expr := ⟨.none⟩
instance : Inhabited Stmt := ⟨.none⟩

def ExprList.snoc : ExprList → Expr → ExprList
  | .nil, e => .cons e .nil
  | .cons x t, e => .cons x (t.snoc e)

def StmtList.snoc : StmtList → Stmt → StmtList
  | .nil, s => .cons s .nil
  | .cons x t, s => .cons x (t.snoc s)

def PropList.snoc : PropList → Expr → Expr → PropList
  | .nil, k, v => .cons k v .nil
  | .cons a b t, k, v => .cons a b (t.snoc k v)

def StmtList.length : StmtList → Nat
  | .nil => 0
  | .cons _ t => t.length + 1

def ExprList.length : ExprList → Nat
  | .nil => 0
  | .cons _ t => t.length + 1

/-- `ast.Program` -/
structure Program where
  stmts : StmtList

/-! Precedence levels (`ast.Precedence*`), and `operatorPrecedence`. -/

def precLowest : Nat := 1
def precAssignment : Nat := 2
def precLogicalOr : Nat := 3
def precLogicalAnd : Nat := 4
def precEquality : Nat := 5
def precComparison : Nat := 6
def precSum : Nat := 7
def precProduct : Nat := 8
def precUnary : Nat := 9
def precPostfix : Nat := 10
def precCall : Nat := 11
def precMember : Nat := 12
def precAtomic : Nat := 13

/-- `ast.operatorPrecedence` -/
def operatorPrecedence : TokType → Nat
  | .assign | .plusAssign | .minusAssign => precAssignment
  | .or => precLogicalOr
  | .and => precLogicalAnd
  | .eq | .notEq => precEquality
  | .lt | .gt | .lte | .gte => precComparison
  | .plus | .minus => precSum
  | .multiply | .divide | .modulo => precProduct
  | .increment | .decrement => precPostfix
  | .lparen => precCall
  | .dot | .lbracket => precMember
  | _ => precLowest

/-- `Expression.Precedence()`; calling it on a nil interface panics in Go — `Expr.none` gets 0 here and
    every printer that calls it on a child first checks for `none` (see `Printer.lean`). -/
def Expr.prec : Expr → Nat
  | .none => 0
  | .ident _ | .int _ | .float _ | .str _ _ | .raw _ _ | .bool _ _ | .null _ => precAtomic
  | .letE _ _ _ => precAssignment
  | .binary tok _ _ _ => operatorPrecedence tok.type
  | .unary _ _ _ => precUnary
  | .postfix _ _ _ => precPostfix
  | .group _ _ _ => precAtomic
  | .call _ _ _ => precCall
  | .member _ _ _ _ => precMember
  | .assign _ _ _ => precAssignment
  | .compound _ _ _ _ => precAssignment
  | .func _ _ _ _ => precAtomic
  | .array _ _ _ => precAtomic
  | .object _ _ _ => precAtomic

def Expr.isNone : Expr → Bool
  | .none => true
  | _ => false

def Stmt.isNone : Stmt → Bool
  | .none => true
  | _ => false

end Xjs
