import XjsModel.Model.Token
/-
  Model of xjs `lexer` package (lexer.go, base_functions.go, helpers.go).

  The Go lexer is a byte cursor (`position`, `CurrentChar`, `Line`, `Column`) advanced by `ReadChar`.
  Here the cursor is `LS` (`rest` = `input[position:]`), `readChar` mirrors `ReadChar` (including the
  "stay at the end of input" guard), and each scanning loop of the Go code is a pure function on the
  remaining bytes that returns what was produced and *how many bytes were consumed*; the cursor is then
  advanced by that many `readChar`s, so line/column bookkeeping is done in exactly one place, as in Go.
-/
namespace Xjs

/-! ## helpers.go -/

def isWs (c : Nat) : Bool := c == 32 || c == 9 || c == 10 || c == 13
def isLetter (c : Nat) : Bool := (97 ≤ c && c ≤ 122) || (65 ≤ c && c ≤ 90) || c == 95 || c == 36
def isDigit (c : Nat) : Bool := 48 ≤ c && c ≤ 57
def isBinDigit (c : Nat) : Bool := c == 48 || c == 49
def isOctDigit (c : Nat) : Bool := 48 ≤ c && c ≤ 55
def isHexDigit (c : Nat) : Bool := (48 ≤ c && c ≤ 57) || (97 ≤ c && c ≤ 102) || (65 ≤ c && c ≤ 70)

def hexVal (c : Nat) : Nat :=
  if 48 ≤ c ∧ c ≤ 57 then c - 48
  else if 97 ≤ c ∧ c ≤ 102 then c - 97 + 10
  else if 65 ≤ c ∧ c ≤ 70 then c - 65 + 10
  else 0

/-- Go `byte(x)` conversion -/
def toByte (x : Nat) : Nat := x % 256

/-- `encodeUTF8` of helpers.go, with Go's bit operations -/
def encodeUTF8 (cp : Nat) : Bytes :=
  if cp ≤ 0x7F then [toByte cp]
  else if cp ≤ 0x7FF then [0xC0 ||| toByte (cp >>> 6), 0x80 ||| toByte (cp &&& 0x3F)]
  else if cp ≤ 0xFFFF then
    [0xE0 ||| toByte (cp >>> 12), 0x80 ||| toByte ((cp >>> 6) &&& 0x3F), 0x80 ||| toByte (cp &&& 0x3F)]
  else if cp ≤ 0x10FFFF then
    [0xF0 ||| toByte (cp >>> 18), 0x80 ||| toByte ((cp >>> 12) &&& 0x3F),
     0x80 ||| toByte ((cp >>> 6) &&& 0x3F), 0x80 ||| toByte (cp &&& 0x3F)]
  else [0xEF, 0xBF, 0xBD]

/-- Go's `string(b)` for a byte `b`: the UTF-8 encoding of the code point `b` -/
def byteAsRuneString (b : Nat) : Bytes := encodeUTF8 b

/-! ## token.Keywords / LookupIdent -/

/-- `token.Keywords` (keys as byte strings, so that the kernel can evaluate lookups) -/
def keywordTable : List (Bytes × TokType) :=
  [([102, 117, 110, 99, 116, 105, 111, 110], .function),  -- function
   ([108, 101, 116], .let_),  -- let
   ([105, 102], .if_),  -- if
   ([101, 108, 115, 101], .else_),  -- else
   ([119, 104, 105, 108, 101], .while_),  -- while
   ([102, 111, 114], .for_),  -- for
   ([114, 101, 116, 117, 114, 110], .return_),  -- return
   ([116, 114, 117, 101], .true_),  -- true
   ([102, 97, 108, 115, 101], .false_),  -- false
   ([110, 117, 108, 108], .null)]  -- null

def lookupIdent (lit : Bytes) : TokType :=
  match keywordTable.find? (fun kv => kv.1 == lit) with
  | some kv => kv.2
  | none => .ident

/-! ## cursor -/

structure LS where
  rest : Bytes
  line : Nat := 0
  col : Nat := 0
  off : Nat := 0
  deriving Repr, DecidableEq

def LS.cur (s : LS) : Nat := s.rest.headD 0
def LS.peek (s : LS) : Nat := s.rest.tail.headD 0

/-- `ReadChar`: leaving a line feed starts a new line; at the end of the input nothing moves -/
def readChar (s : LS) : LS :=
  match s.rest with
  | [] => s
  | c :: r =>
    if c == 10 then { rest := r, line := s.line + 1, col := 0, off := s.off + 1 }
    else { rest := r, line := s.line, col := s.col + 1, off := s.off + 1 }

def readChars : Nat → LS → LS
  | 0, s => s
  | n + 1, s => readChars n (readChar s)

/-! ## trivia: whitespace and `//` comments (readLeadingComments) -/

/-- `strings.TrimRight(s, " ")` -/
def trimRightSpaces (b : Bytes) : Bytes := (b.reverse.dropWhile (· == 32)).reverse

/-- Result of scanning trivia: had-newline flag, leading comments, bytes consumed. -/
structure Trivia where
  nl : Bool
  comments : List Bytes
  len : Nat
  deriving Repr, DecidableEq

/-- `inComment = some acc`: inside a `//` comment whose text so far is `acc`.
    A comment ends at a line feed (consumed), at a NUL byte or at the end of input (not consumed). -/
def scanTrivia : Bytes → Option Bytes → Trivia → Trivia
  | [], none, t => t
  | [], some acc, t => { t with comments := t.comments ++ [trimRightSpaces acc] }
  | c :: rest, some acc, t =>
    if c == 10 then
      scanTrivia rest none { nl := true, comments := t.comments ++ [trimRightSpaces acc], len := t.len + 1 }
    else if c == 0 then
      { t with comments := t.comments ++ [trimRightSpaces acc] }
    else scanTrivia rest (some (acc ++ [c])) { t with len := t.len + 1 }
  | c :: rest, none, t =>
    if isWs c then
      if c == 10 then scanTrivia rest none { nl := true, comments := t.comments ++ [[]], len := t.len + 1 }
      else scanTrivia rest none { t with len := t.len + 1 }
    else if c == 47 then
      match rest with
      | c2 :: rest2 =>
        if c2 == 47 then scanTrivia rest2 (some []) { t with len := t.len + 2 }
        else t
      | [] => t
    else t

def trivia (b : Bytes) : Trivia := scanTrivia b none { nl := false, comments := [], len := 0 }

/-! ## identifiers and numbers -/

def takeWhileLen (p : Nat → Bool) (b : Bytes) : Nat := (b.takeWhile p).length

def identLen (b : Bytes) : Nat := takeWhileLen (fun c => isLetter c || isDigit c) b

/-- `readHexNumber`/`readBinaryNumber`/`readOctalNumber`: `b` starts with `0x` etc. -/
def radixLen (p : Nat → Bool) (b : Bytes) : Nat := 2 + takeWhileLen p (b.drop 2)

/-- `readNumber`: length of the literal and its token type -/
def scanNumber (b : Bytes) : Nat × TokType :=
  let c := b.headD 0
  let p := b.tail.headD 0
  if c == 48 && (p == 120 || p == 88) then (radixLen isHexDigit b, .int)
  else if c == 48 && (p == 98 || p == 66) then (radixLen isBinDigit b, .int)
  else if c == 48 && (p == 111 || p == 79) then (radixLen isOctDigit b, .int)
  else
    let n1 := takeWhileLen isDigit b
    let b1 := b.drop n1
    -- fraction
    let hasFrac := b1.headD 0 == 46 && isDigit (b1.tail.headD 0)
    let n2 := if hasFrac then n1 + 1 + takeWhileLen isDigit (b1.drop 1) else n1
    let b2 := b.drop n2
    -- exponent
    if b2.headD 0 == 101 || b2.headD 0 == 69 then
      let b3 := b2.drop 1
      let sgn := if b3.headD 0 == 43 || b3.headD 0 == 45 then 1 else 0
      let b4 := b3.drop sgn
      if !isDigit (b4.headD 0) then (n2 + 1 + sgn, .float)
      else (n2 + 1 + sgn + takeWhileLen isDigit b4, .float)
    else (n2, if hasFrac then .float else .int)

/-! ## string literals (readString) -/

/-- the `\u{...}` digit loop: reads hex digits while fewer than 6 are collected.
    Returns (digits, closed): `closed` iff the loop ended by consuming `}`. -/
def scanBraceDigits : Nat → Bytes → Bytes → Bytes × Bool × Nat
  | 0, _, acc => (acc, false, 0)
  | fuel + 1, b, acc =>
    match b with
    | [] => (acc, false, 0)     -- PeekChar = 0: not `}` and not a hex digit: invalid
    | c :: r =>
      if c == 125 then (acc, true, 1)
      else if !isHexDigit c || acc.length ≥ 6 then (acc, false, 0)
      else
        let (d, cl, n) := scanBraceDigits fuel r (acc ++ [c])
        (d, cl, n + 1)

def hexValue (ds : Bytes) : Nat := ds.foldl (fun v d => v * 16 + hexVal d) 0

/-- `keepEscaped`: the escape stays as written (LF, CR, `"`, `\`, a digit, a surrogate half) -/
def keepEscaped (v : Nat) : Bool :=
  v == 10 || v == 13 || v == 34 || v == 92 || (48 ≤ v && v ≤ 57) || (0xD800 ≤ v && v ≤ 0xDFFF)

/-- Body of `readString` after the opening delimiter.
    `b` is the input after the opening quote. Returns the token value and the number of bytes consumed
    *before* the closing position (the closing delimiter / NUL / end of input is not counted).
    `fuel ≥ b.length` always suffices (every iteration consumes at least one byte). -/
def scanString (delim : Nat) : Nat → Bytes → Bytes → Nat → Bytes × Nat
  | 0, _, acc, n => (acc, n)
  | fuel + 1, b, acc, n =>
    match b with
    | [] => (acc, n)                                  -- CurrentChar == 0 at end of input
    | c :: r =>
      if c == 0 then (acc, n)                         -- a NUL byte also ends the loop
      else if c == 92 then                            -- backslash
        match r with
        | [] =>
          -- end of input after the backslash: CurrentChar = 0 is written as the escaped character
          (acc ++ [92, 0], n + 1)
        | e :: r1 =>
          if e == 120 then                            -- \x
            let h1 := r1.headD 0
            if isHexDigit h1 then
              let h2 := r1.tail.headD 0
              if isHexDigit h2 then
                let v := hexVal h1 * 16 + hexVal h2
                scanString delim fuel (r1.drop 2) (acc ++ (if keepEscaped v then [92, 120, h1, h2] else encodeUTF8 v)) (n + 4)
              else scanString delim fuel (r1.drop 1) (acc ++ [92, 120]) (n + 3)   -- first digit is dropped
            else scanString delim fuel r1 (acc ++ [92, 120]) (n + 2)
          else if e == 117 then                       -- \u
            if r1.headD 0 == 123 then                 -- \u{
              let (ds, closed, k) := scanBraceDigits (r1.length) (r1.drop 1) []
              let r2 := r1.drop (1 + k)
              let n2 := n + 3 + k
              if !closed || ds.length == 0 || ds.length > 6 then
                scanString delim fuel r2 (acc ++ [92, 117, 123] ++ ds ++ (if closed then [125] else [])) n2
              else
                let v := hexValue ds
                if v > 0x10FFFF then scanString delim fuel r2 (acc ++ [92, 117, 123] ++ ds ++ [125]) n2
                else if keepEscaped v then scanString delim fuel r2 (acc ++ [92, 117, 123] ++ ds ++ [125]) n2
                else scanString delim fuel r2 (acc ++ encodeUTF8 v) n2
            else
              let h1 := r1.headD 0
              if isHexDigit h1 then
                let h2 := (r1.drop 1).headD 0
                if isHexDigit h2 then
                  let h3 := (r1.drop 2).headD 0
                  if isHexDigit h3 then
                    let h4 := (r1.drop 3).headD 0
                    if isHexDigit h4 then
                      let v := hexVal h1 * 4096 + hexVal h2 * 256 + hexVal h3 * 16 + hexVal h4
                      scanString delim fuel (r1.drop 4)
                        (acc ++ (if keepEscaped v then [92, 117, h1, h2, h3, h4] else encodeUTF8 v)) (n + 6)
                    else scanString delim fuel (r1.drop 3) (acc ++ [92, 117]) (n + 5)
                  else scanString delim fuel (r1.drop 2) (acc ++ [92, 117]) (n + 4)
                else scanString delim fuel (r1.drop 1) (acc ++ [92, 117]) (n + 3)
              else scanString delim fuel r1 (acc ++ [92, 117]) (n + 2)
          else
            -- any other escaped character is kept with its backslash
            scanString delim fuel r1 (acc ++ [92, e]) (n + 2)
      else if c == delim then (acc, n)
      else scanString delim fuel r (acc ++ (if c == 34 then [92, c] else [c])) (n + 1)   -- a `"` inside '…' is escaped

/-- `readRawString` after the opening backtick -/
def scanRaw : Bytes → Bytes → Nat → Bytes × Nat
  | [], acc, n => (acc, n)
  | c :: r, acc, n =>
    if c == 0 then (acc, n)
    else if c == 92 then
      match r with
      | c2 :: r2 =>
        if c2 == 96 then scanRaw r2 (acc ++ [96]) (n + 2)
        else if c2 != 0 then scanRaw r2 (acc ++ [92, c2]) (n + 2)      -- every other escape pair is kept as written
        else scanRaw (c2 :: r2) (acc ++ [c]) (n + 1)
      | [] => (acc ++ [c], n + 1)
    else if c == 96 then (acc, n)
    else scanRaw r (acc ++ [c]) (n + 1)

/-! ## baseNextToken / NextToken -/

def mkTok (ty : TokType) (lit : Bytes) (s e : LS) (nl : Bool) (cs : List Bytes) : Token :=
  { type := ty, lit := lit, sl := s.line, sc := s.col, el := e.line, ec := e.col, nl := nl, comments := cs }

/-- `baseNextToken` with the trivia results (`hadNewlineBefore`, `leadingComments`) passed in -/
def baseNextToken (nl : Bool) (cs : List Bytes) (s : LS) : Token × LS :=
  let c := s.cur
  let p := s.peek
  let one (ty : TokType) : Token × LS := (mkTok ty (byteAsRuneString c) s s nl cs, readChar s)
  let two (ty : TokType) : Token × LS :=
    let s2 := readChar s
    (mkTok ty (byteAsRuneString c ++ byteAsRuneString p) s s2 nl cs, readChar s2)
  if c == 61 then (if p == 61 then two .eq else one .assign)
  else if c == 33 then (if p == 61 then two .notEq else one .not)
  else if c == 60 then (if p == 61 then two .lte else one .lt)
  else if c == 62 then (if p == 61 then two .gte else one .gt)
  else if c == 38 then (if p == 38 then two .and else one .illegal)
  else if c == 124 then (if p == 124 then two .or else one .illegal)
  else if c == 43 then (if p == 43 then two .increment else if p == 61 then two .plusAssign else one .plus)
  else if c == 45 then (if p == 45 then two .decrement else if p == 61 then two .minusAssign else one .minus)
  else if c == 42 then one .multiply
  else if c == 47 then one .divide
  else if c == 37 then one .modulo
  else if c == 44 then one .comma
  else if c == 59 then one .semicolon
  else if c == 58 then one .colon
  else if c == 46 then one .dot
  else if c == 40 then one .lparen
  else if c == 41 then one .rparen
  else if c == 123 then one .lbrace
  else if c == 125 then one .rbrace
  else if c == 91 then one .lbracket
  else if c == 93 then one .rbracket
  else if c == 34 || c == 39 then
    let (v, k) := scanString c s.rest.tail.length s.rest.tail [] 0
    let e := readChars (1 + k) s
    -- the closing delimiter was not found (end of input, or a NUL byte): ILLEGAL
    (mkTok (if e.cur == c then .string else .illegal) v s e nl cs, readChar e)
  else if c == 96 then
    let (v, k) := scanRaw s.rest.tail [] 0
    let e := readChars (1 + k) s
    (mkTok (if e.cur == 96 then .rawString else .illegal) v s e nl cs, readChar e)
  else if c == 0 then
    if s.rest.isEmpty then (mkTok .eof [] s s nl cs, s)      -- ReadChar at the end is a no-op
    else one .illegal
  else if isLetter c then
    let k := identLen s.rest
    let lit := s.rest.take k
    let e := readChars k s
    (mkTok (lookupIdent lit) lit s e nl cs, e)
  else if isDigit c then
    let (k, ty) := scanNumber s.rest
    let e := readChars k s
    (mkTok ty (s.rest.take k) s e nl cs, e)
  else one .illegal

/-- `Lexer.NextToken` (without interceptors) -/
def nextToken (s : LS) : Token × LS :=
  let t := trivia s.rest
  baseNextToken t.nl t.comments (readChars t.len s)

def LS.init (src : Bytes) : LS := { rest := src, line := 0, col := 0, off := 0 }

/-- tokens up to and including the first EOF. `fuel` bounds the number of tokens;
    `src.length + 1` always suffices (theorem `lexAll_ends_with_eof`). -/
def lexGo : Nat → LS → List Token
  | 0, _ => []
  | fuel + 1, s =>
    let (t, s') := nextToken s
    if t.type == .eof then [t] else t :: lexGo fuel s'

def lexAll (src : Bytes) : List Token := lexGo (src.length + 1) (LS.init src)

/-- the lexer state after the first EOF (for "EOF however often requested") -/
def lexEndState : Nat → LS → LS
  | 0, s => s
  | fuel + 1, s =>
    let (t, s') := nextToken s
    if t.type == .eof then s' else lexEndState fuel s'

end Xjs
