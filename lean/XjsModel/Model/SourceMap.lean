import XjsModel.Model.Token
/-
  Model of xjs `sourcemap` package (sourcemap.go, vlq.go).
  Go `int` is modelled as `Int` (unbounded; the 64-bit boundary is outside every property's range).
-/
namespace Xjs

structure Mapping where
  genLine : Int
  genCol : Int
  srcLine : Int
  srcCol : Int
  name : Option Nat := none          -- HasName / NameIndex
  deriving DecidableEq, Repr

structure Mapper where
  mappings : List Mapping := []
  names : List Bytes := []
  genLine : Int := 0
  genCol : Int := 0
  deriving DecidableEq, Repr

def Mapper.new : Mapper := {}

def Mapper.addMapping (m : Mapper) (sl sc : Int) : Mapper :=
  { m with mappings := m.mappings ++ [{ genLine := m.genLine, genCol := m.genCol, srcLine := sl, srcCol := sc }] }

/-- index of `name` in `names` (the Go code keeps a map name → index next to the slice) -/
def nameIndexOf (names : List Bytes) (name : Bytes) : Option Nat :=
  let i := names.findIdx (· == name)
  if i < names.length then some i else none

def Mapper.addNamedMapping (m : Mapper) (sl sc : Int) (name : Bytes) : Mapper :=
  match nameIndexOf m.names name with
  | some i =>
    { m with mappings := m.mappings ++
        [{ genLine := m.genLine, genCol := m.genCol, srcLine := sl, srcCol := sc, name := some i }] }
  | none =>
    { m with names := m.names ++ [name],
             mappings := m.mappings ++
        [{ genLine := m.genLine, genCol := m.genCol, srcLine := sl, srcCol := sc, name := some m.names.length }] }

def Mapper.advanceColumn (m : Mapper) (n : Int) : Mapper := { m with genCol := m.genCol + n }
def Mapper.advanceLine (m : Mapper) : Mapper := { m with genLine := m.genLine + 1, genCol := 0 }

/-- `AdvanceString`: `\r\n`, `\r` and `\n` each count as one line break -/
def advanceBytes : Bytes → Int × Int → Int × Int
  | [], p => p
  | 13 :: 10 :: rest, (l, _) => advanceBytes rest (l + 1, 0)
  | 13 :: rest, (l, _) => advanceBytes rest (l + 1, 0)
  | 10 :: rest, (l, _) => advanceBytes rest (l + 1, 0)
  | _ :: rest, (l, c) => advanceBytes rest (l, c + 1)

def Mapper.advanceString (m : Mapper) (s : Bytes) : Mapper :=
  let p := advanceBytes s (m.genLine, m.genCol)
  { m with genLine := p.1, genCol := p.2 }

/-! ## vlq.go -/

/-- the bytes of `base64Chars` ("ABC…XYZabc…xyz0123456789+/"); tied to the Go constant by a table obligation -/
def base64Table : Bytes :=
  [65, 66, 67, 68, 69, 70, 71, 72, 73, 74, 75, 76, 77, 78, 79, 80, 81, 82, 83, 84, 85, 86, 87, 88, 89, 90, 97, 98, 99, 100, 101, 102, 103, 104, 105, 106, 107, 108, 109, 110, 111, 112, 113, 114, 115, 116, 117, 118, 119, 120, 121, 122, 48, 49, 50, 51, 52, 53, 54, 55, 56, 57, 43, 47]

def base64Char (d : Nat) : Nat := base64Table.getD d 0

/-- the 5-bit groups of `n`, least significant first, continuation bit (32) on all but the last.
    `fuel ≥ n` suffices. -/
def vlqGroups : Nat → Nat → List Nat
  | 0, n => [n % 32]
  | fuel + 1, n => if n / 32 > 0 then (n % 32 + 32) :: vlqGroups fuel (n / 32) else [n % 32]

/-- sign in the least significant bit -/
def vlqSigned (n : Int) : Nat := if n < 0 then 2 * n.natAbs + 1 else 2 * n.natAbs

def encodeVLQ (n : Int) : Bytes := (vlqGroups (vlqSigned n) (vlqSigned n)).map base64Char

/-! ## encodeMappings -/

/-- the delta-encoding state of the `encodeMappings` loop -/
structure EncState where
  prevGenCol : Int := 0
  prevSrcLine : Int := 0
  prevSrcCol : Int := 0
  prevName : Int := 0
  curLine : Int := 0
  segs : Nat := 0          -- segmentsInCurrentLine

/-- the state after the `for currentLine < mapping.GeneratedLine` loop, which writes `k` semicolons -/
def EncState.newLines (st : EncState) (k : Nat) : EncState :=
  if k > 0 then { st with curLine := st.curLine + k, prevGenCol := 0, segs := 0 } else st

/-- one iteration of the loop over the recorded mappings: the text appended and the next state -/
def encodeStep (st : EncState) (m : Mapping) : Bytes × EncState :=
  let k := (m.genLine - st.curLine).toNat
  let st1 := st.newLines k
  let fields := encodeVLQ (m.genCol - st1.prevGenCol) ++ encodeVLQ 0
                 ++ encodeVLQ (m.srcLine - st1.prevSrcLine) ++ encodeVLQ (m.srcCol - st1.prevSrcCol)
  let pre := List.replicate k 59 ++ (if st1.segs > 0 then [44] else [])
  match m.name with
  | some i =>
    (pre ++ fields ++ encodeVLQ ((i : Int) - st1.prevName),
     { st1 with prevGenCol := m.genCol, prevSrcLine := m.srcLine, prevSrcCol := m.srcCol, prevName := i,
                segs := st1.segs + 1 })
  | none =>
    (pre ++ fields,
     { st1 with prevGenCol := m.genCol, prevSrcLine := m.srcLine, prevSrcCol := m.srcCol, segs := st1.segs + 1 })

def encodeFrom (st : EncState) : List Mapping → Bytes
  | [] => []
  | m :: ms => (encodeStep st m).1 ++ encodeFrom (encodeStep st m).2 ms

def encodeMappings (ms : List Mapping) : Bytes := encodeFrom {} ms

structure SourceMapV where
  version : Nat
  names : List Bytes
  mappings : Bytes
  deriving DecidableEq, Repr

def Mapper.sourceMap (m : Mapper) : SourceMapV :=
  { version := 3, names := m.names, mappings := encodeMappings m.mappings }

/-- operations of the public builder API -/
inductive MapOp where
  | map (sl sc : Int)
  | named (sl sc : Int) (name : Bytes)
  | advCol (n : Int)
  | advStr (s : Bytes)
  | advLine
  deriving DecidableEq, Repr

def Mapper.step (m : Mapper) : MapOp → Mapper
  | .map sl sc => m.addMapping sl sc
  | .named sl sc n => m.addNamedMapping sl sc n
  | .advCol n => m.advanceColumn n
  | .advStr s => m.advanceString s
  | .advLine => m.advanceLine

def Mapper.run (ops : List MapOp) : Mapper := ops.foldl Mapper.step Mapper.new

end Xjs
