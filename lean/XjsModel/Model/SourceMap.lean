import XjsModel.Model.Token
/-
  Model of xjs `sourcemap` package (sourcemap.go, vlq.go).
  Go `int` is modelled as `Int` (unbounded; the 64-bit boundary is outside every property's range).
-/
namespace Xjs

structure Mapping where
  genLine : Int
  genCol : Int
  srcLine : Int
  srcCol : Int
  name : Option Nat := none          -- HasName / NameIndex
  deriving DecidableEq, Repr

structure Mapper where
  mappings : List Mapping := []
  names : List Bytes := []
  genLine : Int := 0
  genCol : Int := 0
  deriving DecidableEq, Repr

def Mapper.new : Mapper := {}

def Mapper.addMapping (m : Mapper) (sl sc : Int) : Mapper :=
  { m with mappings := m.mappings ++ [{ genLine := m.genLine, genCol := m.genCol, srcLine := sl, srcCol := sc }] }

/-- index of `name` in `names` (the Go code keeps a map name → index next to the slice) -/
def nameIndexOf (names : List Bytes) (name : Bytes) : Option Nat :=
  let i := names.findIdx (· == name)
  if i < names.length then some i else none

def Mapper.addNamedMapping (m : Mapper) (sl sc : Int) (name : Bytes) : Mapper :=
  match nameIndexOf m.names name with
  | some i =>
    { m with mappings := m.mappings ++
        [{ genLine := m.genLine, genCol := m.genCol, srcLine := sl, srcCol := sc, name := some i }] }
  | none =>
    { m with names := m.names ++ [name],
             mappings := m.mappings ++
        [{ genLine := m.genLine, genCol := m.genCol, srcLine := sl, srcCol := sc, name := some m.names.length }] }

def Mapper.advanceColumn (m : Mapper) (n : Int) : Mapper := { m with genCol := m.genCol + n }
def Mapper.advanceLine (m : Mapper) : Mapper := { m with genLine := m.genLine + 1, genCol := 0 }

/-- `AdvanceString`: `\r\n`, `\r` and `\n` each count as one line break -/
def advanceBytes : Bytes → Int × Int → Int × Int
  | [], p => p
  | 13 :: 10 :: rest, (l, _) => advanceBytes rest (l + 1, 0)
  | 13 :: rest, (l, _) => advanceBytes rest (l + 1, 0)
  | 10 :: rest, (l, _) => advanceBytes rest (l + 1, 0)
  | _ :: rest, (l, c) => advanceBytes rest (l, c + 1)

def Mapper.advanceString (m : Mapper) (s : Bytes) : Mapper :=
  let p := advanceBytes s (m.genLine, m.genCol)
  { m with genLine := p.1, genCol := p.2 }

/-! ## vlq.go -/

def base64Chars : String := "ABCDEFGHIJKLMNOPQRSTUVWXYZabcdefghijklmnopqrstuvwxyz0123456789+/"

def base64Table : Bytes := strBytes base64Chars

def base64Char (d : Nat) : Nat := base64Table.getD d 0

/-- the 5-bit groups of `n`, least significant first, continuation bit (32) on all but the last.
    `fuel ≥ n` suffices. -/
def vlqGroups : Nat → Nat → List Nat
  | 0, n => [n % 32]
  | fuel + 1, n => if n / 32 > 0 then (n % 32 + 32) :: vlqGroups fuel (n / 32) else [n % 32]

/-- sign in the least significant bit -/
def vlqSigned (n : Int) : Nat := if n < 0 then 2 * n.natAbs + 1 else 2 * n.natAbs

def encodeVLQ (n : Int) : Bytes := (vlqGroups (vlqSigned n) (vlqSigned n)).map base64Char

/-! ## encodeMappings -/

structure EncState where
  out : Bytes := []
  prevGenCol : Int := 0
  prevSrcLine : Int := 0
  prevSrcCol : Int := 0
  prevName : Int := 0
  curLine : Int := 0
  segs : Nat := 0

def encodeStep (st : EncState) (m : Mapping) : EncState :=
  -- semicolons for new lines
  let k := (m.genLine - st.curLine).toNat
  let st := if k > 0 then
      { st with out := st.out ++ List.replicate k 59, curLine := st.curLine + k, prevGenCol := 0, segs := 0 }
    else st
  let out := if st.segs > 0 then st.out ++ [44] else st.out
  let out := out ++ encodeVLQ (m.genCol - st.prevGenCol) ++ encodeVLQ 0
                 ++ encodeVLQ (m.srcLine - st.prevSrcLine) ++ encodeVLQ (m.srcCol - st.prevSrcCol)
  match m.name with
  | some i =>
    { st with out := out ++ encodeVLQ ((i : Int) - st.prevName), prevGenCol := m.genCol,
              prevSrcLine := m.srcLine, prevSrcCol := m.srcCol, prevName := i, segs := st.segs + 1 }
  | none =>
    { st with out := out, prevGenCol := m.genCol, prevSrcLine := m.srcLine, prevSrcCol := m.srcCol,
              segs := st.segs + 1 }

def encodeMappings (ms : List Mapping) : Bytes := (ms.foldl encodeStep {}).out

structure SourceMapV where
  version : Nat
  names : List Bytes
  mappings : Bytes
  deriving DecidableEq, Repr

def Mapper.sourceMap (m : Mapper) : SourceMapV :=
  { version := 3, names := m.names, mappings := encodeMappings m.mappings }

/-- operations of the public builder API -/
inductive MapOp where
  | map (sl sc : Int)
  | named (sl sc : Int) (name : Bytes)
  | advCol (n : Int)
  | advStr (s : Bytes)
  | advLine
  deriving DecidableEq, Repr

def Mapper.step (m : Mapper) : MapOp → Mapper
  | .map sl sc => m.addMapping sl sc
  | .named sl sc n => m.addNamedMapping sl sc n
  | .advCol n => m.advanceColumn n
  | .advStr s => m.advanceString s
  | .advLine => m.advanceLine

def Mapper.run (ops : List MapOp) : Mapper := ops.foldl Mapper.step Mapper.new

end Xjs
