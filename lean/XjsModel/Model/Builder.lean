import XjsModel.Model.Parser
/-
  Model of `lexer.Builder.RegisterTokenType` and `parser.Builder` registration bookkeeping
  (lexer/builder.go, parser/builder.go, and the operator installation part of parser.newWithOptions).
-/
namespace Xjs

def DYNAMIC_TOKENS_START : Nat := 1000

structure Builder where
  dynTokens : List (Bytes × Nat) := []          -- name ↦ id, in registration order
  nextTokenID : Nat := DYNAMIC_TOKENS_START
  regPrefix : List TokType := basePrefixFns.map (·.1)
  regInfix : List TokType := basePrecedences.map (·.1)
  regPostfix : List TokType := [.increment, .decrement]
  prefixOps : List TokType := []
  infixOps : List (TokType × Nat) := []
  postfixOps : List TokType := []
  tolerant : Bool := false
  smart : Bool := false
  deriving DecidableEq, Repr

def Builder.new : Builder := {}

/-- `RegisterTokenType(name)`: returns the id -/
def Builder.registerTokenType (b : Builder) (name : Bytes) : Nat × Builder :=
  match b.dynTokens.find? (fun kv => kv.1 == name) with
  | some kv => (kv.2, b)
  | none => (b.nextTokenID, { b with dynTokens := b.dynTokens ++ [(name, b.nextTokenID)],
                                      nextTokenID := b.nextTokenID + 1 })

/-- `RegisterPrefixOperator`: `false` = an error was returned -/
def Builder.registerPrefix (b : Builder) (t : TokType) : Bool × Builder :=
  if b.regPrefix.contains t then (false, b)
  else (true, { b with prefixOps := b.prefixOps ++ [t], regPrefix := t :: b.regPrefix })

def Builder.registerInfix (b : Builder) (t : TokType) (prec : Nat) : Bool × Builder :=
  if b.regInfix.contains t then (false, b)
  else (true, { b with infixOps := b.infixOps ++ [(t, prec)], regInfix := t :: b.regInfix })

def Builder.registerPostfix (b : Builder) (t : TokType) : Bool × Builder :=
  if b.regPostfix.contains t then (false, b)
  else (true, { b with postfixOps := b.postfixOps ++ [t], regPostfix := t :: b.regPostfix })

/-- the parser configuration `Build` produces: prefix operators (reverse order), infix operators
    (reverse order), then postfix operators (in order) are written into the per-parser maps;
    a later write to the same key wins, so entries are consed to the front. -/
def Builder.config (b : Builder) (stmtI : List SI := []) (exprI : List EI := []) : PCfg :=
  let prefixFns := b.prefixOps.reverse.foldl (fun fns t => (t, PrefixKind.unary) :: fns) basePrefixFns
  let (precs, infixFns) := b.infixOps.reverse.foldl
    (fun (acc : List (TokType × Nat) × List (TokType × InfixKind)) (op : TokType × Nat) =>
      ((op.1, op.2) :: acc.1, (op.1, InfixKind.binary) :: acc.2)) (basePrecedences, baseInfixFns)
  let (precs, infixFns) := b.postfixOps.foldl
    (fun (acc : List (TokType × Nat) × List (TokType × InfixKind)) (t : TokType) =>
      ((t, CALL) :: acc.1, (t, InfixKind.postfix) :: acc.2)) (precs, infixFns)
  { tolerant := b.tolerant, smart := b.smart, precs := precs, prefixFns := prefixFns, infixFns := infixFns,
    stmtI := stmtI, exprI := exprI }

/-- the token interceptor used by the harness: an ILLEGAL token whose literal is a registered name
    becomes that dynamic token type -/
def Builder.retag (b : Builder) (t : Token) : Token :=
  if t.type == .illegal then
    match b.dynTokens.find? (fun kv => kv.1 == t.lit) with
    | some kv => { t with type := .dyn kv.2 }
    | none => t
  else t

end Xjs
