import XjsModel.Model.Ast
import XjsModel.Model.Writer
/-
  Model of the `WriteTo` methods of ast.go and of compiler.Compile / debug.ToString.
-/
namespace Xjs

/-- `if needsParens { cw.WriteRune('(') }` -/
def CW.openIf (cw : CW) (b : Bool) : CW := if b then cw.writeRune 40 else cw
/-- `if needsParens { cw.WriteRune(')') }` -/
def CW.closeIf (cw : CW) (b : Bool) : CW := if b then cw.writeRune 41 else cw
/-- `if i > 0 { cw.WriteRune(','); cw.WriteSpace() }` -/
def CW.sepIf (cw : CW) (first : Bool) : CW := if first then cw else (cw.writeRune 44).writeSpace
/-- `if i > 0 { cw.WriteNewline() }` -/
def CW.newlineIf (cw : CW) (first : Bool) : CW := if first then cw else cw.writeNewline

def writeIdent (id : Ident) (cw : CW) : CW :=
  ((cw.leadingComments id.tok.comments).addNamedMapping id.tok.sl id.tok.sc id.value).writeString id.value

/-- parameter lists: `a, b, c` -/
def writeParams : List Ident → Bool → CW → CW
  | [], _, cw => cw
  | p :: rest, first, cw =>
    writeParams rest false (writeIdent p (cw.sepIf first))

/-- token head of most nodes: leading comments, mapping -/
def CW.head (cw : CW) (tok : Token) : CW := (cw.leadingComments tok.comments).addMapping tok.sl tok.sc

/-- an integer literal without radix prefix: a dot directly behind it would be read as a decimal point -/
def Expr.isDecimalInt : Expr → Bool
  | .int tok => !tok.lit.isEmpty && tok.lit.all (fun c => 48 ≤ c && c ≤ 57)
  | _ => false

/-- the operand is a prefix `--` expression -/
def Expr.isDecrement : Expr → Bool
  | .unary _ op _ => op == [45, 45]
  | _ => false

/-- `strings.ReplaceAll(v, "`", "\\`")` -/
def escBackticks (v : Bytes) : Bytes := v.flatMap (fun c => if c == 96 then [92, 96] else [c])

mutual

  def writeExpr : Expr → CW → CW
    | .none, cw => cw.panic
    | .ident id, cw => writeIdent id cw
    | .int tok, cw => (cw.head tok).writeString tok.lit
    | .float tok, cw => (cw.head tok).writeString tok.lit
    | .str tok v, cw => (((cw.head tok).writeRune 34).writeString v).writeRune 34
    | .raw tok v, cw => (((cw.head tok).writeRune 96).writeString (escBackticks v)).writeRune 96
    | .bool tok _, cw => (cw.head tok).writeString tok.lit
    | .null tok, cw => (cw.head tok).writeString (strBytes "null")
    | .letE tok name v, cw =>
      let cw := writeIdent name ((cw.head tok).writeString (strBytes "let "))
      if v.isNone then cw
      else writeExpr v (((cw.writeSpace).writeRune 61).writeSpace)
    | .binary tok l op r, cw =>
      if l.isNone then cw.panic else
      let my := operatorPrecedence tok.type
      let lp : Bool := l.prec < my
      let cw := (writeExpr l (cw.openIf lp)).closeIf lp
      let cw := (((cw.writeSpace).head tok).writeString op).writeSpace
      if r.isNone then cw.panic else
      let rp : Bool := r.prec ≤ my
      (writeExpr r (cw.openIf rp)).closeIf rp
    | .unary tok op r, cw =>
      let cw := (((cw.leadingComments tok.comments).separateSigns op).addMapping tok.sl tok.sc).writeString op
      -- `!` directly followed by `--`: a space, so that `<!--` cannot appear
      let cw := if op == [33] && r.isDecrement then cw.writeRune 32 else cw
      if r.isNone then cw.panic else
      let rp : Bool := r.prec < precUnary
      (writeExpr r (cw.openIf rp)).closeIf rp
    | .postfix tok l op, cw =>
      let cw := cw.leadingComments tok.comments
      if l.isNone then cw.panic else
      let lp : Bool := l.prec < precPostfix
      let cw := (writeExpr l (cw.openIf lp)).closeIf lp
      (cw.addMapping tok.sl tok.sc).writeString op
    | .group tok e rparen, cw =>
      let cw := ((cw.head tok).writeRune 40).increaseIndent
      let cw := writeExpr e cw
      ((cw.leadingComments rparen.comments).decreaseIndent).writeRune 41
    | .call tok fn args, cw =>
      let cw := writeExpr fn cw
      let cw := ((cw.head tok).writeRune 40).increaseIndent
      let cw := writeExprList args true cw
      (cw.decreaseIndent).writeRune 41
    | .member tok obj prop computed, cw =>
      let cw := writeExpr obj cw
      let cw := cw.leadingComments tok.comments
      if computed then (writeExpr prop ((cw.addMapping tok.sl tok.sc).writeRune 91)).writeRune 93
      else
        -- `1.toString()` would read `1.` as a number: a blank keeps the literal and the dot apart
        let cw := if obj.isDecimalInt then cw.writeRune 32 else cw
        writeExpr prop ((cw.addMapping tok.sl tok.sc).writeRune 46)
    | .assign tok l v, cw =>
      let cw := writeExpr l cw
      let cw := ((((cw.writeSpace).head tok).writeRune 61).writeSpace)
      writeExpr v cw
    | .compound tok l op v, cw =>
      let cw := writeExpr l cw
      let cw := (((((cw.head tok).writeSpace).writeString op).writeRune 61).writeSpace)
      writeExpr v cw
    | .func tok name params body, cw =>
      let cw := (cw.head tok).writeString (strBytes "function")
      let cw := match name with
        | some n => writeIdent n (cw.writeRune 32)
        | none => cw
      let cw := cw.writeRune 40
      let cw := writeParams params true cw
      let cw := (cw.writeRune 41).writeSpace
      writeStmt body cw
    | .array tok elems rbracket, cw =>
      let cw := ((cw.head tok).writeRune 91).increaseIndent
      let cw := writeExprList elems true cw
      ((cw.leadingComments rbracket.comments).decreaseIndent).writeRune 93
    | .object tok props rbrace, cw =>
      let cw := ((cw.head tok).writeRune 123).increaseIndent
      let cw := writeProps props true cw
      ((cw.leadingComments rbrace.comments).decreaseIndent).writeRune 125

  def writeExprList : ExprList → Bool → CW → CW
    | .nil, _, cw => cw
    | .cons e rest, first, cw =>
      writeExprList rest false (writeExpr e (cw.sepIf first))

  def writeProps : PropList → Bool → CW → CW
    | .nil, _, cw => cw
    | .cons k v rest, first, cw =>
      let cw := writeExpr k (cw.sepIf first)
      let cw := (cw.writeRune 58).writeSpace
      writeProps rest false (writeExpr v cw)

  def writeStmt : Stmt → CW → CW
    | .none, cw => cw.panic
    | .letS tok name v, cw =>
      let cw := writeIdent name ((cw.head tok).writeString (strBytes "let "))
      let cw := if v.isNone then cw else writeExpr v (((cw.writeSpace).writeRune 61).writeSpace)
      cw.writeSemi
    | .ret tok v, cw =>
      let cw := (cw.head tok).writeString (strBytes "return")
      let cw := if v.isNone then cw else writeExpr v (cw.writeRune 32)
      cw.writeSemi
    | .exprS e, cw => if e.isNone then cw else (writeExpr e cw).writeSemi
    | .funcD tok name params body, cw =>
      let cw := writeIdent name ((cw.head tok).writeString (strBytes "function "))
      let cw := cw.writeRune 40
      let cw := writeParams params true cw
      let cw := (cw.writeRune 41).writeSpace
      writeStmt body cw
    | .block tok stmts rbrace, cw =>
      let cw := (((cw.head tok).writeRune 123).writeNewline).increaseIndent
      let cw := writeBlockStmts stmts true cw
      let cw := (cw.decreaseIndent).writeNewline
      (((cw.leadingComments rbrace.comments).writeIndent).writeRune 125)
    | .ifS tok cond thn els, cw =>
      let cw := ((((cw.head tok).writeString (strBytes "if")).writeSpace).writeRune 40)
      let cw := writeExpr cond cw
      let cw := (cw.writeRune 41).writeSpace
      let cw := writeStmt thn cw
      if els.isNone then cw else writeStmt els (cw.writeString (strBytes " else "))
    | .whileS tok cond body, cw =>
      let cw := ((((cw.head tok).writeString (strBytes "while")).writeSpace).writeRune 40)
      let cw := writeExpr cond cw
      let cw := (cw.writeRune 41).writeSpace
      writeStmt body cw
    | .forS tok init cond update body, cw =>
      let cw := ((((cw.head tok).writeString (strBytes "for")).writeSpace).writeRune 40)
      let cw := if init.isNone then cw else writeExpr init cw
      let cw := (cw.writeRune 59).writeSpace
      let cw := if cond.isNone then cw else writeExpr cond cw
      let cw := (cw.writeRune 59).writeSpace
      let cw := if update.isNone then cw else writeExpr update cw
      let cw := (cw.writeRune 41).writeSpace
      writeStmt body cw

  /-- statements of a block: newline between, indent before each -/
  def writeBlockStmts : StmtList → Bool → CW → CW
    | .nil, _, cw => cw
    | .cons s rest, first, cw =>
      writeBlockStmts rest false (writeStmt s (cw.newlineIf first).writeIndent)

  /-- statements of the program: newline between -/
  def writeProgramStmts : StmtList → Bool → CW → CW
    | .nil, _, cw => cw
    | .cons s rest, first, cw =>
      writeProgramStmts rest false (writeStmt s (cw.newlineIf first))

end

/-! ## compiler.Compile -/

def isAsciiSpace (c : Nat) : Bool := c == 32 || c == 9 || c == 10 || c == 11 || c == 12 || c == 13

/-- `strings.TrimSpace` restricted to ASCII white space (the output never starts or ends with
    non-ASCII white space, see DESIGN) -/
def trimSpace (b : Bytes) : Bytes := ((b.dropWhile isAsciiSpace).reverse.dropWhile isAsciiSpace).reverse

def splitLines : Bytes → Bytes → List Bytes
  | [], cur => [cur]
  | c :: rest, cur => if c == 10 then cur :: splitLines rest [] else splitLines rest (cur ++ [c])

def joinLines : List Bytes → Bytes
  | [] => []
  | [l] => l
  | l :: rest => l ++ [10] ++ joinLines rest

def cleanEmptyLines (code : Bytes) : Bytes :=
  joinLines ((splitLines (trimSpace code) []).map trimRightSpaces)
where trimRightSpaces (b : Bytes) : Bytes := (b.reverse.dropWhile (· == 32)).reverse

structure CompCfg where
  pretty : Bool := false
  indent : Bytes := []
  semis : Bool := false
  sourceMap : Bool := false
  deriving DecidableEq, Repr

structure CompileResult where
  code : Bytes
  map : Option SourceMapV
  mappings : List Mapping       -- the recorded absolute mappings (not part of the Go result; for C08)
  comments : List Bytes := []   -- ghost: the comment entries written, in order (for C15)
  ok : Bool

def compile (cfg : CompCfg) (prog : StmtList) : CompileResult :=
  let cw0 : CW := { pretty := cfg.pretty, indentString := cfg.indent, semis := cfg.semis,
                    mapper := if cfg.sourceMap then some Mapper.new else none }
  let cw := writeProgramStmts prog true cw0
  { code := if cfg.pretty then cleanEmptyLines cw.out else cw.out,
    map := cw.mapper.map Mapper.sourceMap,
    mappings := (cw.mapper.map (·.mappings)).getD [],
    comments := cw.clog,
    ok := cw.ok }

/-- `debug.ToString(node)` for statements / expressions: a zero `CodeWriter` -/
def debugStmtToString (s : Stmt) : Bytes := (writeStmt s {}).out
def debugExprToString (e : Expr) : Bytes := (writeExpr e {}).out
def debugProgramToString (p : StmtList) : Bytes := (writeProgramStmts p true {}).out

end Xjs
