import XjsModel.Model.SourceMap
/-
  Model of `ast.CodeWriter` (code_writer.go, code_writer_format.go, code_writer_comments.go,
  code_writer_mapping.go).
-/
namespace Xjs

structure CW where
  out : Bytes := []
  mapper : Option Mapper := none
  pretty : Bool := false
  indentLevel : Nat := 0
  indentString : Bytes := []
  semis : Bool := false
  pendings : List Nat := []
  ok : Bool := true            -- false once a nil child has been dereferenced (Go panics there)
  clog : List Bytes := []      -- ghost: the comment entries handed to `WriteLeadingComments` so far (not observable in Go)
  deriving Repr

def CW.panic (cw : CW) : CW := { cw with ok := false }

def CW.indentUnit (cw : CW) : Bytes := if cw.indentString.isEmpty then [32, 32] else cw.indentString

/-- `writeIndent` (lower case): straight to the builder -/
def CW.rawIndent (cw : CW) : CW :=
  { cw with out := cw.out ++ (List.replicate cw.indentLevel cw.indentUnit).flatten }

def CW.flushOne (cw : CW) (ch : Nat) : CW :=
  if ch == 9 then cw.rawIndent else { cw with out := cw.out ++ [ch] }

def CW.flushPending (cw : CW) : CW :=
  { cw.pendings.foldl CW.flushOne cw with pendings := [] }

def CW.mapAdvance (cw : CW) (f : Mapper → Mapper) : CW :=
  match cw.mapper with
  | none => cw
  | some m => { cw with mapper := some (f m) }

def CW.writeString (cw : CW) (s : Bytes) : CW :=
  let cw := cw.flushPending
  ({ cw with out := cw.out ++ s }).mapAdvance (·.advanceString s)

/-- `WriteRune` (only ASCII runes are ever written) -/
def CW.writeRune (cw : CW) (r : Nat) : CW :=
  let cw := cw.flushPending
  ({ cw with out := cw.out ++ [r] }).mapAdvance (fun m => if r == 10 then m.advanceLine else m.advanceColumn 1)

def CW.writeSemi (cw : CW) : CW :=
  if !cw.pretty then cw.writeRune 59
  else if cw.semis then cw.writeRune 59 else cw

/-- `separateSigns`: keep `- -x`, `+ ++x` apart -/
def CW.separateSigns (cw : CW) (op : Bytes) : CW :=
  match op with
  | [] => cw
  | c :: _ =>
    if c != 43 && c != 45 then cw
    else
      let cw := cw.flushPending
      if cw.out.getLast? == some c then cw.writeRune 32 else cw

def CW.increaseIndent (cw : CW) : CW := if !cw.pretty then cw else { cw with indentLevel := cw.indentLevel + 1 }
def CW.decreaseIndent (cw : CW) : CW := if !cw.pretty then cw else { cw with indentLevel := cw.indentLevel - 1 }

def CW.writeIndent (cw : CW) : CW :=
  if !cw.pretty then cw
  else if cw.pendings.getLast? == some 9 then cw else { cw with pendings := cw.pendings ++ [9] }

def CW.writeNewline (cw : CW) : CW := if !cw.pretty then cw else { cw with pendings := [10] }

def CW.writeSpace (cw : CW) : CW :=
  if !cw.pretty then cw
  else if cw.pendings.getLast? == some 32 then cw else { cw with pendings := cw.pendings ++ [32] }

/-- the loop of `WriteLeadingComments` from index `i` on -/
def CW.commentsLoop (cw : CW) : List Bytes → Bool → CW
  | [], _ => cw
  | c :: rest, first =>
    let isComment := !c.isEmpty
    let cw : CW :=
      if first then (if isComment then { cw with out := cw.out ++ [32] } else cw)
      else ({ cw with out := cw.out ++ [10] }).rawIndent
    let cw : CW := if isComment then { cw with out := cw.out ++ [47, 47] } else cw
    CW.commentsLoop { cw with out := cw.out ++ c } rest false

def CW.leadingComments (cw : CW) (cs : List Bytes) : CW :=
  if !cw.pretty || cs.isEmpty then cw
  else
    let cw := cw.commentsLoop cs true
    ({ cw with pendings := [], clog := cw.clog ++ cs }).writeNewline.writeIndent

def CW.addMapping (cw : CW) (sl sc : Nat) : CW := cw.mapAdvance (·.addMapping sl sc)
def CW.addNamedMapping (cw : CW) (sl sc : Nat) (name : Bytes) : CW := cw.mapAdvance (·.addNamedMapping sl sc name)

end Xjs
