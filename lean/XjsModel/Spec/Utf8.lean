/-
  UTF-8 (RFC 3629), arithmetic form: the encoding of a code point and what a scalar value is.
  Trusted specification; written from the standard, not from the xjs code.
-/
namespace Xjs.Spec

/-- a Unicode scalar value: a code point that is not a surrogate -/
def isScalar (cp : Nat) : Bool := cp ≤ 0x10FFFF && !(0xD800 ≤ cp && cp ≤ 0xDFFF)

def utf8Encode (cp : Nat) : List Nat :=
  if cp < 0x80 then [cp]
  else if cp < 0x800 then [0xC0 + cp / 64, 0x80 + cp % 64]
  else if cp < 0x10000 then [0xE0 + cp / 4096, 0x80 + cp / 64 % 64, 0x80 + cp % 64]
  else [0xF0 + cp / 262144, 0x80 + cp / 4096 % 64, 0x80 + cp / 64 % 64, 0x80 + cp % 64]

end Xjs.Spec
