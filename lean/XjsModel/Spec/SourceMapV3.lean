import XjsModel.Model.Token
/-
  TRUSTED SPECIFICATION: decoding of the `mappings` field of a Source Map v3
  (https://tc39.es/ecma426/ , "Mappings structure"), written from the specification text,
  independently of the encoder in /repo/sourcemap.

  * the string is a list of lines separated by `;`, each line a list of segments separated by `,`;
  * a segment is 1, 4 or 5 Base64-VLQ fields: generated column (relative to the previous segment of the
    same line; the first segment of a line is relative to 0), source index, original line, original column,
    name index — each of the last four relative to its previous occurrence anywhere earlier in the string;
  * a VLQ is a sequence of Base64 digits, least significant group first, bit 5 (value 32) of a digit is
    the continuation bit, and the least significant bit of the assembled value is the sign.
-/
namespace Xjs.Spec

/-- RFC 4648 Base64 alphabet: value of a character -/
def b64val (c : Nat) : Option Nat :=
  if 65 ≤ c ∧ c ≤ 90 then some (c - 65)
  else if 97 ≤ c ∧ c ≤ 122 then some (c - 97 + 26)
  else if 48 ≤ c ∧ c ≤ 57 then some (c - 48 + 52)
  else if c = 43 then some 62
  else if c = 47 then some 63
  else none

/-- unsigned VLQ: little-endian 5-bit groups with continuation bit -/
def decVlqNat : Bytes → Option (Nat × Bytes)
  | [] => none
  | c :: cs =>
    match b64val c with
    | none => none
    | some d =>
      if d < 32 then some (d, cs)
      else match decVlqNat cs with
        | some (v, rest) => some ((d - 32) + 32 * v, rest)
        | none => none

def fromVlqSigned (v : Nat) : Int := if v % 2 = 1 then -((v / 2 : Nat) : Int) else ((v / 2 : Nat) : Int)

def decVlq (s : Bytes) : Option (Int × Bytes) :=
  match decVlqNat s with
  | some (v, rest) => some (fromVlqSigned v, rest)
  | none => none

/-- a decoded segment with absolute positions -/
structure Seg where
  genLine : Int
  genCol : Int
  source : Option (Int × Int × Int) := none     -- source index, original line, original column
  name : Option Int := none
  deriving DecidableEq, Repr

structure DState where
  genLine : Int := 0
  genCol : Int := 0
  srcIdx : Int := 0
  srcLine : Int := 0
  srcCol : Int := 0
  name : Int := 0

/-- the VLQ fields of one segment: read until `,`, `;` or the end of the string -/
def readFields (s : Bytes) : Option (List Int × Bytes) :=
  match s with
  | [] => some ([], [])
  | c :: _ =>
    if c = 44 ∨ c = 59 then some ([], s)
    else decVlq s >>= fun (v, rest) => readFields rest >>= fun (vs, r) => some (v :: vs, r)
partial_fixpoint

def decodeFrom (s : Bytes) (st : DState) : Option (List Seg) :=
  match s with
  | [] => some []
  | c :: rest =>
    if c = 59 then decodeFrom rest { st with genLine := st.genLine + 1, genCol := 0 }
    else if c = 44 then decodeFrom rest st
    else
      readFields s >>= fun (fs, rest) =>
        match fs with
        | [a] =>
          let st := { st with genCol := st.genCol + a }
          decodeFrom rest st >>= fun segs => some ({ genLine := st.genLine, genCol := st.genCol } :: segs)
        | [a, b, c, d] =>
          let st := { st with genCol := st.genCol + a, srcIdx := st.srcIdx + b, srcLine := st.srcLine + c,
                              srcCol := st.srcCol + d }
          decodeFrom rest st >>= fun segs =>
            some ({ genLine := st.genLine, genCol := st.genCol, source := some (st.srcIdx, st.srcLine, st.srcCol) } :: segs)
        | [a, b, c, d, e] =>
          let st := { st with genCol := st.genCol + a, srcIdx := st.srcIdx + b, srcLine := st.srcLine + c,
                              srcCol := st.srcCol + d, name := st.name + e }
          decodeFrom rest st >>= fun segs =>
            some ({ genLine := st.genLine, genCol := st.genCol, source := some (st.srcIdx, st.srcLine, st.srcCol),
                    name := some st.name } :: segs)
        | _ => none
partial_fixpoint

/-- decode a whole `mappings` string -/
def decodeMappings (s : Bytes) : Option (List Seg) := decodeFrom s {}

/-! ### position tracking, stated by counting

  A *line break* ends at index `i` of the text when `s[i]` is LF, or `s[i]` is CR not followed by LF
  (so CR LF is one break, ending at the LF). The position after the text is
  `(line + number of breaks, number of bytes after the last break)`, or `(line, col + length)` if there is none. -/

/-- does a line break end at the head of `c :: rest`? -/
def endsBreak (c : Nat) (rest : Bytes) : Bool := c == 10 || (c == 13 && rest.head? != some 10)

def countBreaks : Bytes → Nat
  | [] => 0
  | c :: rest => (if endsBreak c rest then 1 else 0) + countBreaks rest

/-- the bytes after the last line break (`none` if the text has no line break) -/
def afterLastBreak : Bytes → Option Bytes
  | [] => none
  | c :: rest =>
    match afterLastBreak rest with
    | some t => some t
    | none => if endsBreak c rest then some rest else none

def positionAfter (s : Bytes) (p : Int × Int) : Int × Int :=
  match afterLastBreak s with
  | some t => (p.1 + countBreaks s, t.length)
  | none => (p.1, p.2 + s.length)

end Xjs.Spec
