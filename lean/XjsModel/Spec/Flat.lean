import XjsModel.Model.Ast
/-
  The token-type sequence of a tree, in source order ("flattening"). Separators that carry no structure
  (`;` and `,`) are left out; they are also filtered from the input side of the theorems (`keepTok`).
  Fixed punctuation that the tree does not store (`(`/`)` of `if`, `while`, `for`, calls; `:`; `=` of `let`)
  appears with its literal type.
-/
namespace Xjs

def keepTok (t : TokType) : Bool := t != .semicolon && t != .comma
/-- drop `;` and `,` -/
def F (l : List TokType) : List TokType := l.filter keepTok

def identsFlat (ps : List Ident) : List TokType := ps.map (·.tok.type)

mutual
  def Expr.flat : Expr → List TokType
    | .none => []
    | .ident id => [id.tok.type]
    | .int tok | .float tok | .null tok => [tok.type]
    | .str tok _ | .raw tok _ | .bool tok _ => [tok.type]
    | .letE tok name v => tok.type :: name.tok.type :: (if v.isNone then [] else .assign :: v.flat)
    | .binary tok l _ r => l.flat ++ tok.type :: r.flat
    | .unary tok _ r => tok.type :: r.flat
    | .postfix tok l _ => l.flat ++ [tok.type]
    | .group tok e _ => tok.type :: e.flat ++ [.rparen]
    | .call tok f args => f.flat ++ tok.type :: args.flat ++ [.rparen]
    | .member tok o p computed => o.flat ++ tok.type :: p.flat ++ (if computed then [.rbracket] else [])
    | .assign tok l v => l.flat ++ tok.type :: v.flat
    | .compound tok l _ v => l.flat ++ tok.type :: v.flat
    | .func tok name params body =>
      tok.type :: (match name with | some n => [n.tok.type] | none => []) ++ .lparen :: identsFlat params ++ .rparen :: body.flat
    | .array tok es _ => tok.type :: es.flat ++ [.rbracket]
    | .object tok ps _ => tok.type :: ps.flat ++ [.rbrace]
  def Stmt.flat : Stmt → List TokType
    | .none => []
    | .letS tok name v => tok.type :: name.tok.type :: (if v.isNone then [] else .assign :: v.flat)
    | .ret tok v => tok.type :: v.flat
    | .exprS e => e.flat
    | .funcD tok name params body => tok.type :: name.tok.type :: .lparen :: identsFlat params ++ .rparen :: body.flat
    | .block tok ss rb => tok.type :: ss.flat ++ [rb.type]
    | .ifS tok c t e => tok.type :: .lparen :: c.flat ++ .rparen :: t.flat ++ (if e.isNone then [] else .else_ :: e.flat)
    | .whileS tok c b => tok.type :: .lparen :: c.flat ++ .rparen :: b.flat
    | .forS tok i c u b => tok.type :: .lparen :: i.flat ++ c.flat ++ u.flat ++ .rparen :: b.flat
  def ExprList.flat : ExprList → List TokType
    | .nil => []
    | .cons e t => e.flat ++ t.flat
  def StmtList.flat : StmtList → List TokType
    | .nil => []
    | .cons s t => s.flat ++ t.flat
  def PropList.flat : PropList → List TokType
    | .nil => []
    | .cons k v t => k.flat ++ .colon :: v.flat ++ t.flat
end

theorem ExprList.flat_snoc : ∀ (l : ExprList) (e : Expr), (l.snoc e).flat = l.flat ++ e.flat
  | .nil, e => by simp [ExprList.snoc, ExprList.flat]
  | .cons x t, e => by simp [ExprList.snoc, ExprList.flat, ExprList.flat_snoc t e]
theorem StmtList.flat_snoc : ∀ (l : StmtList) (s : Stmt), (l.snoc s).flat = l.flat ++ s.flat
  | .nil, s => by simp [StmtList.snoc, StmtList.flat]
  | .cons x t, s => by simp [StmtList.snoc, StmtList.flat, StmtList.flat_snoc t s]
theorem PropList.flat_snoc : ∀ (l : PropList) (k v : Expr), (l.snoc k v).flat = l.flat ++ k.flat ++ .colon :: v.flat
  | .nil, k, v => by simp [PropList.snoc, PropList.flat]
  | .cons a b t, k, v => by simp [PropList.snoc, PropList.flat, PropList.flat_snoc t k v]

@[simp] theorem F_nil : F [] = [] := rfl
@[simp] theorem F_append (a b : List TokType) : F (a ++ b) = F a ++ F b := by simp [F]
theorem F_cons (a : TokType) (l : List TokType) : F (a :: l) = F [a] ++ F l := by
  rw [show a :: l = [a] ++ l from rfl, F_append]
theorem F_cons_cons (a b : TokType) (l : List TokType) : F (a :: b :: l) = F [a] ++ F (b :: l) := F_cons a _
theorem F_cons_append (a : TokType) (l1 l2 : List TokType) : F (a :: (l1 ++ l2)) = F [a] ++ F (l1 ++ l2) := F_cons a _
theorem F_cons_eflat (a : TokType) (e : Expr) : F (a :: e.flat) = F [a] ++ F e.flat := F_cons a _
theorem F_cons_sflat (a : TokType) (e : Stmt) : F (a :: e.flat) = F [a] ++ F e.flat := F_cons a _
theorem F_cons_elflat (a : TokType) (e : ExprList) : F (a :: e.flat) = F [a] ++ F e.flat := F_cons a _
theorem F_cons_slflat (a : TokType) (e : StmtList) : F (a :: e.flat) = F [a] ++ F e.flat := F_cons a _
theorem F_cons_plflat (a : TokType) (e : PropList) : F (a :: e.flat) = F [a] ++ F e.flat := F_cons a _
theorem F_cons_map (a : TokType) {α : Type} (f : α → TokType) (l : List α) : F (a :: l.map f) = F [a] ++ F (l.map f) := F_cons a _
theorem F_cons_ite (a : TokType) (c : Prop) [Decidable c] (x y : List TokType) :
    F (a :: (if c then x else y)) = F [a] ++ F (if c then x else y) := F_cons a _
@[simp] theorem F_semicolon : F [TokType.semicolon] = [] := by decide
@[simp] theorem F_comma : F [TokType.comma] = [] := by decide
@[simp] theorem F_rparen : F [TokType.rparen] = [TokType.rparen] := by decide
@[simp] theorem F_lparen : F [TokType.lparen] = [TokType.lparen] := by decide
@[simp] theorem F_rbracket : F [TokType.rbracket] = [TokType.rbracket] := by decide
@[simp] theorem F_rbrace : F [TokType.rbrace] = [TokType.rbrace] := by decide
@[simp] theorem F_lbrace : F [TokType.lbrace] = [TokType.lbrace] := by decide
@[simp] theorem F_assign : F [TokType.assign] = [TokType.assign] := by decide
@[simp] theorem F_else : F [TokType.else_] = [TokType.else_] := by decide
@[simp] theorem F_colon : F [TokType.colon] = [TokType.colon] := by decide
@[simp] theorem F_ident : F [TokType.ident] = [TokType.ident] := by decide
theorem F_keep {t : TokType} (h : keepTok t = true) : F [t] = [t] := by simp [F, h]

end Xjs
