import XjsModel.Model.Ast
/-
  The comment entries of a tree, in source order: the `LeadingComments` of every token the tree stores (the token of
  each node, identifiers, closing parentheses / brackets / braces). A comment in a statement list — before a
  statement, or before the closing brace — is attached to the first token of that statement, or to that brace.
  One node is not in source order: a postfix operator's entries come before its operand's, because that is where
  `PostfixExpression.WriteTo` replays them. A parsed tree has none there: a token after a `//` comment is after a
  line break, and `++`/`--` after a line break is not a postfix operator.
  An entry is the comment text; an empty entry stands for a blank line. Trusted specification (like `Spec/Flat`).
-/
namespace Xjs

def identCmts (i : Ident) : List Bytes := i.tok.comments
def identsCmts (ps : List Ident) : List Bytes := ps.flatMap identCmts

mutual
  def Expr.cmts : Expr → List Bytes
    | .none => []
    | .ident id => identCmts id
    | .int tok | .float tok | .null tok => tok.comments
    | .str tok _ | .raw tok _ | .bool tok _ => tok.comments
    | .letE tok name v => tok.comments ++ identCmts name ++ v.cmts
    | .binary tok l _ r => l.cmts ++ tok.comments ++ r.cmts
    | .unary tok _ r => tok.comments ++ r.cmts
    | .postfix tok l _ => tok.comments ++ l.cmts
    | .group tok e rp => tok.comments ++ e.cmts ++ rp.comments
    | .call tok f args => f.cmts ++ tok.comments ++ args.cmts
    | .member tok o p _ => o.cmts ++ tok.comments ++ p.cmts
    | .assign tok l v => l.cmts ++ tok.comments ++ v.cmts
    | .compound tok l _ v => l.cmts ++ tok.comments ++ v.cmts
    | .func tok name params body =>
      tok.comments ++ (match name with | some n => identCmts n | none => []) ++ identsCmts params ++ body.cmts
    | .array tok es rb => tok.comments ++ es.cmts ++ rb.comments
    | .object tok ps rb => tok.comments ++ ps.cmts ++ rb.comments
  def Stmt.cmts : Stmt → List Bytes
    | .none => []
    | .letS tok name v => tok.comments ++ identCmts name ++ v.cmts
    | .ret tok v => tok.comments ++ v.cmts
    | .exprS e => e.cmts
    | .funcD tok name params body => tok.comments ++ identCmts name ++ identsCmts params ++ body.cmts
    | .block tok ss rb => tok.comments ++ ss.cmts ++ rb.comments
    | .ifS tok c t e => tok.comments ++ c.cmts ++ t.cmts ++ e.cmts
    | .whileS tok c b => tok.comments ++ c.cmts ++ b.cmts
    | .forS tok i c u b => tok.comments ++ i.cmts ++ c.cmts ++ u.cmts ++ b.cmts
  def ExprList.cmts : ExprList → List Bytes
    | .nil => []
    | .cons e t => e.cmts ++ t.cmts
  def StmtList.cmts : StmtList → List Bytes
    | .nil => []
    | .cons s t => s.cmts ++ t.cmts
  def PropList.cmts : PropList → List Bytes
    | .nil => []
    | .cons k v t => k.cmts ++ v.cmts ++ t.cmts
end

/-- what `WriteLeadingComments` puts in the output for one entry: the first entry follows the code on the same line
    after a space (nothing for a blank-line entry), every later entry starts a new indented line; a non-empty entry
    is written verbatim after `//` -/
def commentSeg (indent : Bytes) (first : Bool) (c : Bytes) : Bytes :=
  (if first then (if c.isEmpty then [] else [32]) else [10] ++ indent) ++ (if c.isEmpty then [] else [47, 47]) ++ c

/-- the text for a run of entries -/
def commentText (indent : Bytes) : List Bytes → Bool → Bytes
  | [], _ => []
  | c :: rest, first => commentSeg indent first c ++ commentText indent rest false

/-! ### anchors -/

mutual
  /-- the first token of a node in source order: where the trivia in front of the node is attached -/
  def Expr.firstTok : Expr → Option Token
    | .none => Option.none
    | .ident id => some id.tok
    | .int tok | .float tok | .null tok => some tok
    | .str tok _ | .raw tok _ | .bool tok _ => some tok
    | .letE tok _ _ => some tok
    | .binary _ l _ _ => l.firstTok
    | .unary tok _ _ => some tok
    | .postfix _ l _ => l.firstTok
    | .group tok _ _ => some tok
    | .call _ f _ => f.firstTok
    | .member _ o _ _ => o.firstTok
    | .assign _ l _ => l.firstTok
    | .compound _ l _ _ => l.firstTok
    | .func tok _ _ _ => some tok
    | .array tok _ _ => some tok
    | .object tok _ _ => some tok
end
def Stmt.firstTok : Stmt → Option Token
  | .none => Option.none
  | .letS tok _ _ | .ret tok _ | .funcD tok _ _ _ | .block tok _ _ | .ifS tok _ _ _ | .whileS tok _ _ | .forS tok _ _ _ _ => some tok
  | .exprS e => e.firstTok


/-- along the left spine no postfix operator token carries trivia (always so in a parsed tree: a token after a `//`
    comment is after a line break, and `++` / `--` after a line break is not a postfix operator) -/
def Expr.postfixBare : Expr → Bool
  | .binary _ l _ _ | .call _ l _ | .member _ l _ _ | .assign _ l _ | .compound _ l _ _ => l.postfixBare
  | .postfix tok l _ => tok.comments.isEmpty && l.postfixBare
  | _ => true

def Stmt.postfixBare : Stmt → Bool
  | .exprS e => e.postfixBare
  | _ => true

def headCmts (t : Option Token) : List Bytes := (t.map (·.comments)).getD []


end Xjs
