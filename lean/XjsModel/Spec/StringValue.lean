import XjsModel.Spec.Utf8
/-
  The value of a JavaScript string literal (ECMAScript 2023, 12.9.4 "String Literals", static semantics SV), as a
  relation between the BODY of the literal (the bytes between the quotes) and the sequence of items it denotes.
  Trusted specification; written from the standard, not from the xjs code.

  Items: the body is UTF-8 text; a source character that is not part of an escape sequence denotes itself and is
  kept as its bytes; an escape sequence denotes a code point, which is a scalar value (kept as the bytes of its
  UTF-8 encoding — the same item sequence a raw occurrence of that character gives) or a surrogate half (which has
  no UTF-8 encoding and is kept as such). The engine's string (UTF-16 code units) is a function of this sequence, so
  two bodies with the same item sequence denote the same string.

  Covered escape forms: single-character escapes (b f n r t v), `\0` not followed by a decimal digit, identity escapes
  (an ASCII character that is none of `x u 0…9 b f n r t v` and no line terminator: this includes `\'` `\"` `\\`),
  `\xHH`, `\uHHHH`, `\u{H…}` with one to six hex digits and a value up to 10FFFF, line continuations
  (`\` followed by LF, CR or CR LF). Not covered (no rule, so nothing is claimed for them): legacy octal escapes
  `\1`…`\7`, `\0` followed by a digit, `\8`, `\9`, `\u{…}` with more than six digits, a non-ASCII character after a backslash.
-/
namespace Xjs.Spec

inductive Item where
  | byte (b : Nat)
  | surr (v : Nat)     -- a surrogate half written as an escape
  deriving DecidableEq, Repr

def hexDigit (c : Nat) : Option Nat :=
  if 48 ≤ c ∧ c ≤ 57 then some (c - 48)
  else if 97 ≤ c ∧ c ≤ 102 then some (c - 87)
  else if 65 ≤ c ∧ c ≤ 70 then some (c - 55)
  else none

def hexNumber : List Nat → Option Nat
  | [] => some 0
  | ds => ds.foldl (fun acc d => acc.bind fun a => (hexDigit d).map fun x => a * 16 + x) (some 0)

/-- the items a code point denotes -/
def cpItems (v : Nat) : List Item :=
  if 0xD800 ≤ v ∧ v ≤ 0xDFFF then [.surr v] else (utf8Encode v).map .byte

/-- SingleEscapeCharacter other than the quotes and the backslash -/
def singleEscape (e : Nat) : Option Nat :=
  if e == 98 then some 8 else if e == 102 then some 12 else if e == 110 then some 10
  else if e == 114 then some 13 else if e == 116 then some 9 else if e == 118 then some 11 else none

def isDecimalDigit (c : Nat) : Bool := 48 ≤ c && c ≤ 57

/-- NonEscapeCharacter, ASCII: not an escape letter, not a digit, not a line terminator -/
def identityEscape (e : Nat) : Bool :=
  e < 128 && !(e == 120 || e == 117 || isDecimalDigit e || e == 10 || e == 13 || (singleEscape e).isSome)

/-- `SVR d body items`: the body of a literal delimited by the byte `d` denotes `items` -/
inductive SVR (d : Nat) : List Nat → List Item → Prop
  | nil : SVR d [] []
  | raw (c : Nat) (r : List Nat) (is : List Item) :
      c ≠ d → c ≠ 92 → c ≠ 10 → c ≠ 13 → SVR d r is → SVR d (c :: r) (.byte c :: is)
  | single (e v : Nat) (r : List Nat) (is : List Item) :
      singleEscape e = some v → SVR d r is → SVR d (92 :: e :: r) (.byte v :: is)
  | ident (e : Nat) (r : List Nat) (is : List Item) :
      identityEscape e = true → SVR d r is → SVR d (92 :: e :: r) (.byte e :: is)
  | nul (r : List Nat) (is : List Item) :
      isDecimalDigit (r.headD 0) = false → SVR d r is → SVR d (92 :: 48 :: r) (.byte 0 :: is)
  | hex (h1 h2 a b : Nat) (r : List Nat) (is : List Item) :
      hexDigit h1 = some a → hexDigit h2 = some b → SVR d r is →
      SVR d (92 :: 120 :: h1 :: h2 :: r) (cpItems (a * 16 + b) ++ is)
  | u4 (h1 h2 h3 h4 a b c e : Nat) (r : List Nat) (is : List Item) :
      hexDigit h1 = some a → hexDigit h2 = some b → hexDigit h3 = some c → hexDigit h4 = some e → SVR d r is →
      SVR d (92 :: 117 :: h1 :: h2 :: h3 :: h4 :: r) (cpItems (a * 4096 + b * 256 + c * 16 + e) ++ is)
  | ubrace (ds : List Nat) (v : Nat) (r : List Nat) (is : List Item) :
      ds ≠ [] → ds.length ≤ 6 → hexNumber ds = some v → v ≤ 0x10FFFF → SVR d r is →
      SVR d (92 :: 117 :: 123 :: ds ++ 125 :: r) (cpItems v ++ is)
  | contLF (r : List Nat) (is : List Item) : SVR d r is → SVR d (92 :: 10 :: r) is
  | contCRLF (r : List Nat) (is : List Item) : SVR d r is → SVR d (92 :: 13 :: 10 :: r) is
  | contCR (r : List Nat) (is : List Item) : r.headD 0 ≠ 10 → SVR d r is → SVR d (92 :: 13 :: r) is

end Xjs.Spec
