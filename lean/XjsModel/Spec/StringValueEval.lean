import XjsModel.Spec.StringValue
/-
  An executable evaluator for the string-literal specification `SVR`, proved sound with respect to it
  (`svEval d body = some items → SVR d body items`). It exists so that the trusted relation can be RUN: the
  correspondence check evaluates generated literal bodies with it and compares the result, converted to UTF-16 code
  units, with what a JavaScript engine (goja) computes for the same literal.
-/
namespace Xjs.Spec

def allHex (ds : List Nat) : Bool := ds.all fun d => (hexDigit d).isSome

/-- digits of `\u{…}` up to the closing brace: (digits, rest after the brace) -/
def braceSplit : Nat → List Nat → List Nat → Option (List Nat × List Nat)
  | 0, _, _ => none
  | _ + 1, [], _ => none
  | fuel + 1, c :: r, acc => if c == 125 then some (acc, r) else braceSplit fuel r (acc ++ [c])

theorem braceSplit_spec : ∀ (fuel : Nat) (b acc ds r : List Nat), braceSplit fuel b acc = some (ds, r) →
    ∃ mid, ds = acc ++ mid ∧ b = mid ++ 125 :: r := by
  intro fuel
  induction fuel with
  | zero => intro b acc ds r h; simp [braceSplit] at h
  | succ fuel ih =>
    intro b acc ds r h
    cases b with
    | nil => simp [braceSplit] at h
    | cons c rest =>
      simp only [braceSplit] at h
      split at h
      · rename_i hc
        simp only [Option.some.injEq, Prod.mk.injEq] at h
        refine ⟨[], by simp [h.1], ?_⟩
        have : c = 125 := by simpa using hc
        rw [this, h.2]; rfl
      · obtain ⟨mid, h1, h2⟩ := ih rest (acc ++ [c]) ds r h
        exact ⟨c :: mid, by rw [h1]; simp, by rw [h2]; simp⟩

/-- the evaluator: `none` = the body is outside the specification's rules -/
def svEval (d : Nat) : Nat → List Nat → Option (List Item)
  | 0, _ => none
  | _ + 1, [] => some []
  | fuel + 1, c :: r =>
    if c == 92 then
      match r with
      | [] => none
      | e :: r1 =>
        if e == 120 then
          match r1 with
          | h1 :: h2 :: r2 =>
            match hexDigit h1, hexDigit h2 with
            | some a, some b => (svEval d fuel r2).map (cpItems (a * 16 + b) ++ ·)
            | _, _ => none
          | _ => none
        else if e == 117 then
          match r1 with
          | 123 :: r2 =>
            match braceSplit r2.length.succ r2 [] with
            | some (ds, r3) =>
              if ds.isEmpty || ds.length > 6 then none
              else match hexNumber ds with
                | some v => if v ≤ 0x10FFFF then (svEval d fuel r3).map (cpItems v ++ ·) else none
                | none => none
            | none => none
          | h1 :: h2 :: h3 :: h4 :: r2 =>
            match hexDigit h1, hexDigit h2, hexDigit h3, hexDigit h4 with
            | some a, some b, some c, some e => (svEval d fuel r2).map (cpItems (a * 4096 + b * 256 + c * 16 + e) ++ ·)
            | _, _, _, _ => none
          | _ => none
        else if e == 10 then svEval d fuel r1
        else if e == 13 then
          match r1 with
          | 10 :: r2 => svEval d fuel r2
          | _ => svEval d fuel r1
        else if e == 48 then
          if isDecimalDigit (r1.headD 0) then none else (svEval d fuel r1).map (Item.byte 0 :: ·)
        else match singleEscape e with
          | some v => (svEval d fuel r1).map (Item.byte v :: ·)
          | none => if identityEscape e then (svEval d fuel r1).map (Item.byte e :: ·) else none
    else if c == d || c == 10 || c == 13 then none
    else (svEval d fuel r).map (Item.byte c :: ·)

theorem map_some {α β} {f : α → β} {o : Option α} {y : β} (h : o.map f = some y) : ∃ x, o = some x ∧ y = f x := by
  cases o with
  | none => cases h
  | some x => exact ⟨x, rfl, by simpa using h.symm⟩

/-- SOUNDNESS of the evaluator: whatever it computes is derivable in the specification -/
theorem svEval_sound (d : Nat) : ∀ (fuel : Nat) (body : List Nat) (items : List Item),
    svEval d fuel body = some items → SVR d body items := by
  intro fuel
  induction fuel with
  | zero => intro body items h; simp [svEval] at h
  | succ fuel ih =>
    intro body items h
    cases body with
    | nil => simp [svEval] at h; subst h; exact .nil
    | cons c r =>
      simp only [svEval] at h
      split at h
      · -- backslash
        rename_i hc
        have hc' : c = 92 := by simpa using hc
        subst hc'
        cases r with
        | nil => simp at h
        | cons e r1 =>
          simp only at h
          split at h
          · -- \x
            rename_i he; have : e = 120 := by simpa using he
            subst this
            split at h
            · rename_i h1 h2 r2
              split at h
              · rename_i a b ha hb
                obtain ⟨x, hx, rfl⟩ := map_some h
                exact .hex h1 h2 a b r2 x ha hb (ih _ _ hx)
              · cases h
            · cases h
          · split at h
            · -- \u
              rename_i he; have : e = 117 := by simpa using he
              subst this
              split at h
              · rename_i r2
                split at h
                · rename_i ds r3 hb
                  split at h
                  · cases h
                  · rename_i hlen
                    split at h
                    · rename_i v hv
                      split at h
                      · rename_i hle
                        obtain ⟨x, hx, rfl⟩ := map_some h
                        obtain ⟨mid, h1, h2⟩ := braceSplit_spec _ _ _ _ _ hb
                        simp only [List.nil_append] at h1
                        subst h1
                        rw [h2]
                        simp only [Bool.or_eq_true, List.isEmpty_iff, decide_eq_true_eq, not_or, Nat.not_lt] at hlen
                        exact .ubrace _ v r3 x hlen.1 hlen.2 hv hle (ih _ _ hx)
                      · cases h
                    · cases h
                · cases h
              · rename_i h1 h2 h3 h4 r2 _
                split at h
                · rename_i a b c e ha hb hc he
                  obtain ⟨x, hx, rfl⟩ := map_some h
                  exact .u4 h1 h2 h3 h4 a b c e r2 x ha hb hc he (ih _ _ hx)
                · cases h
              · cases h
            · split at h
              · rename_i he; have : e = 10 := by simpa using he
                subst this
                exact .contLF r1 items (ih _ _ h)
              · split at h
                · rename_i he; have : e = 13 := by simpa using he
                  subst this
                  split at h
                  · rename_i r2
                    exact .contCRLF r2 items (ih _ _ h)
                  · rename_i hne
                    refine .contCR r1 items ?_ (ih _ _ h)
                    intro h10
                    cases r1 with
                    | nil => simp at h10
                    | cons y ys => simp only [List.headD_cons] at h10; subst h10; exact hne ys rfl
                · split at h
                  · rename_i he; have : e = 48 := by simpa using he
                    subst this
                    split at h
                    · cases h
                    · rename_i hd
                      obtain ⟨x, hx, rfl⟩ := map_some h
                      exact .nul r1 x (by simpa using hd) (ih _ _ hx)
                  · split at h
                    · rename_i v hv
                      obtain ⟨x, hx, rfl⟩ := map_some h
                      exact .single e v r1 x hv (ih _ _ hx)
                    · split at h
                      · rename_i hid
                        obtain ⟨x, hx, rfl⟩ := map_some h
                        exact .ident e r1 x hid (ih _ _ hx)
                      · cases h
      · rename_i hc
        split at h
        · cases h
        · rename_i hne
          obtain ⟨x, hx, rfl⟩ := map_some h
          simp only [Bool.or_eq_true, beq_iff_eq, not_or] at hne
          exact .raw c r x hne.1.1 (by simpa using hc) hne.1.2 hne.2 (ih _ _ hx)

/-- UTF-16 code units of a code point -/
def utf16 (v : Nat) : List Nat :=
  if v < 0x10000 then [v] else [0xD800 + (v - 0x10000) / 1024, 0xDC00 + (v - 0x10000) % 1024]

/-- decode a (valid) UTF-8 byte sequence to code points; malformed input yields U+FFFD per byte -/
def utf8Decode : Nat → List Nat → List Nat
  | 0, _ => []
  | _ + 1, [] => []
  | fuel + 1, b :: r =>
    if b < 0x80 then b :: utf8Decode fuel r
    else if 0xC0 ≤ b ∧ b < 0xE0 then
      match r with
      | b1 :: r1 => ((b - 0xC0) * 64 + (b1 - 0x80)) :: utf8Decode fuel r1
      | _ => [0xFFFD]
    else if 0xE0 ≤ b ∧ b < 0xF0 then
      match r with
      | b1 :: b2 :: r2 => ((b - 0xE0) * 4096 + (b1 - 0x80) * 64 + (b2 - 0x80)) :: utf8Decode fuel r2
      | _ => [0xFFFD]
    else if 0xF0 ≤ b ∧ b < 0xF8 then
      match r with
      | b1 :: b2 :: b3 :: r3 => ((b - 0xF0) * 262144 + (b1 - 0x80) * 4096 + (b2 - 0x80) * 64 + (b3 - 0x80)) :: utf8Decode fuel r3
      | _ => [0xFFFD]
    else 0xFFFD :: utf8Decode fuel r

/-- the engine's string: UTF-16 code units of an item sequence (runs of bytes are UTF-8 text) -/
def itemsToUnits (items : List Item) : List Nat :=
  let rec go : Nat → List Item → List Nat → List Nat
    | 0, _, _ => []
    | _ + 1, [], pending => (utf8Decode pending.length pending).flatMap utf16
    | fuel + 1, .byte b :: r, pending => go fuel r (pending ++ [b])
    | fuel + 1, .surr v :: r, pending => (utf8Decode pending.length pending).flatMap utf16 ++ v :: go fuel r []
  go (items.length + 1) items []

end Xjs.Spec
