import XjsModel.Model.Ast
/-
  Shape predicates on trees (used by C11):
    `wf`       — no statement list anywhere in the tree contains a nil entry (`Stmt.none`);
    `complete` — every mandatory child is present, recursively (what the printers dereference).
-/
namespace Xjs

mutual
  def Expr.wf : Expr → Bool
    | .none | .ident _ | .int _ | .float _ | .str _ _ | .raw _ _ | .bool _ _ | .null _ => true
    | .letE _ _ v => v.wf
    | .binary _ l _ r => l.wf && r.wf
    | .unary _ _ r => r.wf
    | .postfix _ l _ => l.wf
    | .group _ e _ => e.wf
    | .call _ f args => f.wf && args.wf
    | .member _ o p _ => o.wf && p.wf
    | .assign _ l v => l.wf && v.wf
    | .compound _ l _ v => l.wf && v.wf
    | .func _ _ _ body => body.wf
    | .array _ es _ => es.wf
    | .object _ ps _ => ps.wf
  def Stmt.wf : Stmt → Bool
    | .none => true
    | .letS _ _ v => v.wf
    | .ret _ v => v.wf
    | .exprS e => e.wf
    | .funcD _ _ _ body => body.wf
    | .block _ ss _ => ss.wf
    | .ifS _ c t e => c.wf && t.wf && e.wf
    | .whileS _ c b => c.wf && b.wf
    | .forS _ i c u b => i.wf && c.wf && u.wf && b.wf
  def ExprList.wf : ExprList → Bool
    | .nil => true
    | .cons e t => e.wf && t.wf
  /-- the list clause: no entry is nil -/
  def StmtList.wf : StmtList → Bool
    | .nil => true
    | .cons s t => !s.isNone && s.wf && t.wf
  def PropList.wf : PropList → Bool
    | .nil => true
    | .cons k v t => k.wf && v.wf && t.wf
end

mutual
  def Expr.complete : Expr → Bool
    | .none => false
    | .ident _ | .int _ | .float _ | .str _ _ | .raw _ _ | .bool _ _ | .null _ => true
    | .letE _ _ v => v.isNone || v.complete
    | .binary _ l _ r => l.complete && r.complete
    | .unary _ _ r => r.complete
    | .postfix _ l _ => l.complete
    | .group _ e _ => e.complete
    | .call _ f args => f.complete && args.complete
    | .member _ o p _ => o.complete && p.complete
    | .assign _ l v => l.complete && v.complete
    | .compound _ l _ v => l.complete && v.complete
    | .func _ _ _ body => body.complete
    | .array _ es _ => es.complete
    | .object _ ps _ => ps.complete
  def Stmt.complete : Stmt → Bool
    | .none => false
    | .letS _ _ v => v.isNone || v.complete
    | .ret _ v => v.isNone || v.complete
    | .exprS e => e.complete
    | .funcD _ _ _ body => body.complete
    | .block _ ss _ => ss.complete
    | .ifS _ c t e => c.complete && t.complete && (e.isNone || e.complete)
    | .whileS _ c b => c.complete && b.complete
    | .forS _ i c u b => (i.isNone || i.complete) && (c.isNone || c.complete) && (u.isNone || u.complete) && b.complete
  def ExprList.complete : ExprList → Bool
    | .nil => true
    | .cons e t => e.complete && t.complete
  def StmtList.complete : StmtList → Bool
    | .nil => true
    | .cons s t => s.complete && t.complete
  def PropList.complete : PropList → Bool
    | .nil => true
    | .cons k v t => k.complete && v.complete && t.complete
end

theorem StmtList.wf_snoc : ∀ (l : StmtList) (s : Stmt), (l.snoc s).wf = (l.wf && !s.isNone && s.wf)
  | .nil, s => by simp [StmtList.snoc, StmtList.wf]
  | .cons x t, s => by simp [StmtList.snoc, StmtList.wf, StmtList.wf_snoc t s, Bool.and_assoc]

theorem ExprList.wf_snoc : ∀ (l : ExprList) (e : Expr), (l.snoc e).wf = (l.wf && e.wf)
  | .nil, e => by simp [ExprList.snoc, ExprList.wf]
  | .cons x t, e => by simp [ExprList.snoc, ExprList.wf, ExprList.wf_snoc t e, Bool.and_assoc]

theorem PropList.wf_snoc : ∀ (l : PropList) (k v : Expr), (l.snoc k v).wf = (l.wf && k.wf && v.wf)
  | .nil, k, v => by simp [PropList.snoc, PropList.wf]
  | .cons a b t, k, v => by simp [PropList.snoc, PropList.wf, PropList.wf_snoc t k v, Bool.and_assoc]

theorem StmtList.complete_snoc : ∀ (l : StmtList) (s : Stmt), (l.snoc s).complete = (l.complete && s.complete)
  | .nil, s => by simp [StmtList.snoc, StmtList.complete]
  | .cons x t, s => by simp [StmtList.snoc, StmtList.complete, StmtList.complete_snoc t s, Bool.and_assoc]

theorem ExprList.complete_snoc : ∀ (l : ExprList) (e : Expr), (l.snoc e).complete = (l.complete && e.complete)
  | .nil, e => by simp [ExprList.snoc, ExprList.complete]
  | .cons x t, e => by simp [ExprList.snoc, ExprList.complete, ExprList.complete_snoc t e, Bool.and_assoc]

theorem PropList.complete_snoc : ∀ (l : PropList) (k v : Expr), (l.snoc k v).complete = (l.complete && k.complete && v.complete)
  | .nil, k, v => by simp [PropList.snoc, PropList.complete]
  | .cons a b t, k, v => by simp [PropList.snoc, PropList.complete, PropList.complete_snoc t k v, Bool.and_assoc]

theorem Stmt.complete_not_none {s : Stmt} (h : s.complete = true) : s.isNone = false := by
  cases s <;> simp_all [Stmt.complete, Stmt.isNone]
theorem Expr.complete_not_none {e : Expr} (h : e.complete = true) : e.isNone = false := by
  cases e <;> simp_all [Expr.complete, Expr.isNone]

end Xjs
