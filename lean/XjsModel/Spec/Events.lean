import XjsModel.Spec.Comments
import XjsModel.Model.Parser
/-
  SPECIFICATION (trusted): the interceptor events of a tree. Every place where the grammar asks for a statement or an
  expression ("slot"; an optional part that is absent has no first token and announces nothing) announces itself to
  the interceptors once, on the first token of what is parsed there, with the context stack of that place: `.function` on entering a function body, `.block` on entering a block.
-/
namespace Xjs

def mkEv (isExpr : Bool) (id : Nat) (t : Token) (ctx : List Ctx) : Event :=
  { isExpr := isExpr, id := id, cur := t, inFunction := ctx.contains .function, ctx := ctx.headD .global,
    depth := ctx.length, stack := ctx }

theorem event_eq (st : PS) (b : Bool) (id : Nat) : st.event b id = mkEv b id st.cur st.ctx := rfl

/-- the expression interceptors that see a step: those up to and including the first re-entrant one -/
def effE : List EI → List EI
  | [] => []
  | i :: rest => if i.kind == .observe then i :: effE rest else [i]

def tokOf (o : Option Token) : Token := o.getD dummyTok

def stepS (sI : List SI) (ctx : List Ctx) (t : Token) : List Event := sI.map (fun i => mkEv false i.id t ctx)
def stepE (eI : List EI) (ctx : List Ctx) (t : Token) : List Event := (effE eI).map (fun i => mkEv true i.id t ctx)

def Expr.isLet : Expr → Bool
  | .letE _ _ _ => true
  | _ => false

mutual
  /-- the events below an expression that has been announced already (or is a left operand, which is not a slot) -/
  def Expr.innerEv (sI : List SI) (eI : List EI) (ctx : List Ctx) : Expr → List Event
    | .none | .ident _ | .int _ | .float _ | .str _ _ | .raw _ _ | .bool _ _ | .null _ => []
    | .letE _ _ v => if v.firstTok.isNone then [] else stepE eI ctx (tokOf v.firstTok) ++ v.innerEv sI eI ctx
    | .binary _ l _ r => l.innerEv sI eI ctx ++ (stepE eI ctx (tokOf r.firstTok) ++ r.innerEv sI eI ctx)
    | .unary _ _ r => stepE eI ctx (tokOf r.firstTok) ++ r.innerEv sI eI ctx
    | .postfix _ l _ => l.innerEv sI eI ctx
    | .group _ e _ => stepE eI ctx (tokOf e.firstTok) ++ e.innerEv sI eI ctx
    | .call _ f args => f.innerEv sI eI ctx ++ args.slotsEv sI eI ctx
    | .member _ o p _ => o.innerEv sI eI ctx ++ (stepE eI ctx (tokOf p.firstTok) ++ p.innerEv sI eI ctx)
    | .assign _ l v => l.innerEv sI eI ctx ++ (stepE eI ctx (tokOf v.firstTok) ++ v.innerEv sI eI ctx)
    | .compound _ l _ v => l.innerEv sI eI ctx ++ (stepE eI ctx (tokOf v.firstTok) ++ v.innerEv sI eI ctx)
    | .func _ _ _ body => body.innerEv sI eI (.function :: ctx)
    | .array _ es _ => es.slotsEv sI eI ctx
    | .object _ ps _ => ps.slotsEv sI eI ctx
  def Stmt.innerEv (sI : List SI) (eI : List EI) (ctx : List Ctx) : Stmt → List Event
    | .none => []
    | .letS _ _ v => if v.firstTok.isNone then [] else stepE eI ctx (tokOf v.firstTok) ++ v.innerEv sI eI ctx
    | .ret _ v => if v.firstTok.isNone then [] else stepE eI ctx (tokOf v.firstTok) ++ v.innerEv sI eI ctx
    | .exprS e => stepE eI ctx (tokOf e.firstTok) ++ e.innerEv sI eI ctx
    | .funcD _ _ _ body => body.innerEv sI eI (.function :: ctx)
    | .block _ ss _ => ss.stmtsEv sI eI (.block :: ctx)
    | .ifS _ c t e =>
      (stepE eI ctx (tokOf c.firstTok) ++ c.innerEv sI eI ctx) ++ (stepS sI ctx (tokOf t.firstTok) ++ t.innerEv sI eI ctx) ++
      (if e.firstTok.isNone then [] else stepS sI ctx (tokOf e.firstTok) ++ e.innerEv sI eI ctx)
    | .whileS _ c b =>
      (stepE eI ctx (tokOf c.firstTok) ++ c.innerEv sI eI ctx) ++ (stepS sI ctx (tokOf b.firstTok) ++ b.innerEv sI eI ctx)
    | .forS _ i c u b =>
      (if i.firstTok.isNone then [] else if i.isLet then i.innerEv sI eI ctx else stepE eI ctx (tokOf i.firstTok) ++ i.innerEv sI eI ctx) ++
      (if c.firstTok.isNone then [] else stepE eI ctx (tokOf c.firstTok) ++ c.innerEv sI eI ctx) ++
      (if u.firstTok.isNone then [] else stepE eI ctx (tokOf u.firstTok) ++ u.innerEv sI eI ctx) ++
      (stepS sI ctx (tokOf b.firstTok) ++ b.innerEv sI eI ctx)
  def ExprList.slotsEv (sI : List SI) (eI : List EI) (ctx : List Ctx) : ExprList → List Event
    | .nil => []
    | .cons e t => (stepE eI ctx (tokOf e.firstTok) ++ e.innerEv sI eI ctx) ++ t.slotsEv sI eI ctx
  def StmtList.stmtsEv (sI : List SI) (eI : List EI) (ctx : List Ctx) : StmtList → List Event
    | .nil => []
    | .cons s t => (stepS sI ctx (tokOf s.firstTok) ++ s.innerEv sI eI ctx) ++ t.stmtsEv sI eI ctx
  def PropList.slotsEv (sI : List SI) (eI : List EI) (ctx : List Ctx) : PropList → List Event
    | .nil => []
    | .cons k v t => (stepE eI ctx (tokOf k.firstTok) ++ k.innerEv sI eI ctx) ++
        (stepE eI ctx (tokOf v.firstTok) ++ v.innerEv sI eI ctx) ++ t.slotsEv sI eI ctx
end

end Xjs

namespace Xjs
theorem ExprList.slotsEv_snoc (sI : List SI) (eI : List EI) (ctx : List Ctx) : ∀ (l : ExprList) (e : Expr),
    (l.snoc e).slotsEv sI eI ctx = l.slotsEv sI eI ctx ++ (stepE eI ctx (tokOf e.firstTok) ++ e.innerEv sI eI ctx)
  | .nil, e => by simp [ExprList.snoc, ExprList.slotsEv]
  | .cons x t, e => by simp [ExprList.snoc, ExprList.slotsEv, ExprList.slotsEv_snoc sI eI ctx t e, List.append_assoc]
theorem StmtList.stmtsEv_snoc (sI : List SI) (eI : List EI) (ctx : List Ctx) : ∀ (l : StmtList) (s : Stmt),
    (l.snoc s).stmtsEv sI eI ctx = l.stmtsEv sI eI ctx ++ (stepS sI ctx (tokOf s.firstTok) ++ s.innerEv sI eI ctx)
  | .nil, s => by simp [StmtList.snoc, StmtList.stmtsEv]
  | .cons x t, s => by simp [StmtList.snoc, StmtList.stmtsEv, StmtList.stmtsEv_snoc sI eI ctx t s, List.append_assoc]
theorem PropList.slotsEv_snoc (sI : List SI) (eI : List EI) (ctx : List Ctx) : ∀ (l : PropList) (k v : Expr),
    (l.snoc k v).slotsEv sI eI ctx = l.slotsEv sI eI ctx ++ ((stepE eI ctx (tokOf k.firstTok) ++ k.innerEv sI eI ctx) ++
      (stepE eI ctx (tokOf v.firstTok) ++ v.innerEv sI eI ctx))
  | .nil, k, v => by simp [PropList.snoc, PropList.slotsEv]
  | .cons a b t, k, v => by simp [PropList.snoc, PropList.slotsEv, PropList.slotsEv_snoc sI eI ctx t k v, List.append_assoc]
def forInitEv (sI : List SI) (eI : List EI) (ctx : List Ctx) (i : Expr) : List Event :=
  if i.firstTok.isNone then [] else if i.isLet then i.innerEv sI eI ctx else stepE eI ctx (tokOf i.firstTok) ++ i.innerEv sI eI ctx


end Xjs
