import XjsModel.Model.Ast
/-
  Comment erasure on trees: the tree with every token's leading trivia removed.
-/
namespace Xjs

def Token.noComments (t : Token) : Token := { t with comments := [] }
def Ident.noComments (i : Ident) : Ident := { i with tok := i.tok.noComments }

mutual
  def Expr.erase : Expr → Expr
    | .none => .none
    | .ident id => .ident id.noComments
    | .int t => .int t.noComments
    | .float t => .float t.noComments
    | .str t v => .str t.noComments v
    | .raw t v => .raw t.noComments v
    | .bool t v => .bool t.noComments v
    | .null t => .null t.noComments
    | .letE t n v => .letE t.noComments n.noComments v.erase
    | .binary t l op r => .binary t.noComments l.erase op r.erase
    | .unary t op r => .unary t.noComments op r.erase
    | .postfix t l op => .postfix t.noComments l.erase op
    | .group t e rp => .group t.noComments e.erase rp.noComments
    | .call t f args => .call t.noComments f.erase args.erase
    | .member t o p c => .member t.noComments o.erase p.erase c
    | .assign t l v => .assign t.noComments l.erase v.erase
    | .compound t l op v => .compound t.noComments l.erase op v.erase
    | .func t n ps b => .func t.noComments (n.map Ident.noComments) (ps.map Ident.noComments) b.erase
    | .array t es rb => .array t.noComments es.erase rb.noComments
    | .object t ps rb => .object t.noComments ps.erase rb.noComments
  def ExprList.erase : ExprList → ExprList
    | .nil => .nil
    | .cons e t => .cons e.erase t.erase
  def PropList.erase : PropList → PropList
    | .nil => .nil
    | .cons k v t => .cons k.erase v.erase t.erase
  def Stmt.erase : Stmt → Stmt
    | .none => .none
    | .letS t n v => .letS t.noComments n.noComments v.erase
    | .ret t v => .ret t.noComments v.erase
    | .exprS e => .exprS e.erase
    | .funcD t n ps b => .funcD t.noComments n.noComments (ps.map Ident.noComments) b.erase
    | .block t ss rb => .block t.noComments ss.erase rb.noComments
    | .ifS t c a b => .ifS t.noComments c.erase a.erase b.erase
    | .whileS t c b => .whileS t.noComments c.erase b.erase
    | .forS t i c u b => .forS t.noComments i.erase c.erase u.erase b.erase
  def StmtList.erase : StmtList → StmtList
    | .nil => .nil
    | .cons s t => .cons s.erase t.erase
end

end Xjs
