import XjsModel.Proofs.ParserFrame
/-
  Interceptor transparency (C04): a parse with pass-through statement/expression interceptors (observers and
  re-entrant ones, any number, any nesting) returns, whenever it returns, the same tree, errors and token
  position as the parse without interceptors; the only differences are the recorded trace and the
  saved/restored `currentExpressionPrecedence`.

  `cfg.plain` = the configuration without interceptors, `st.strip` = the state without trace/curPrec.
-/
namespace Xjs

def PCfg.plain (cfg : PCfg) : PCfg := { cfg with stmtI := [], exprI := [] }
def PS.strip (st : PS) : PS := { st with trace := [], curPrec := 0 }

@[simp] theorem plain_stmtI (cfg : PCfg) : cfg.plain.stmtI = [] := rfl
@[simp] theorem plain_exprI (cfg : PCfg) : cfg.plain.exprI = [] := rfl
@[simp] theorem plain_tolerant (cfg : PCfg) : cfg.plain.tolerant = cfg.tolerant := rfl
@[simp] theorem plain_smart (cfg : PCfg) : cfg.plain.smart = cfg.smart := rfl
@[simp] theorem plain_precs (cfg : PCfg) : cfg.plain.precs = cfg.precs := rfl
@[simp] theorem plain_prefixFns (cfg : PCfg) : cfg.plain.prefixFns = cfg.prefixFns := rfl
@[simp] theorem plain_infixFns (cfg : PCfg) : cfg.plain.infixFns = cfg.infixFns := rfl

@[simp] theorem strip_toks (st : PS) : st.strip.toks = st.toks := rfl
@[simp] theorem strip_errors (st : PS) : st.strip.errors = st.errors := rfl
@[simp] theorem strip_ctx (st : PS) : st.strip.ctx = st.ctx := rfl
@[simp] theorem strip_cur (st : PS) : st.strip.cur = st.cur := rfl
@[simp] theorem strip_peek (st : PS) : st.strip.peek = st.peek := rfl
@[simp] theorem strip_curPrec (st : PS) : st.strip.curPrec = 0 := rfl
theorem strip_next (st : PS) : st.strip.next = st.next.strip := by
  unfold PS.next PS.strip; split <;> simp_all
theorem strip_addErrorAt (st : PS) (m : Bytes) (t : Token) : st.strip.addErrorAt m t = (st.addErrorAt m t).strip := rfl
theorem strip_addError (st : PS) (m : Bytes) : st.strip.addError m = (st.addError m).strip := rfl
theorem strip_push (st : PS) (c : Ctx) : st.strip.push c = (st.push c).strip := rfl
theorem strip_pop (st : PS) : st.strip.pop = st.pop.strip := rfl
@[simp] theorem strip_set (st : PS) (p : Nat) (t : List Event) :
    PS.strip { st with curPrec := p, trace := t } = st.strip := rfl
@[simp] theorem strip_setPrec (st : PS) (p : Nat) : PS.strip { st with curPrec := p } = st.strip := rfl
@[simp] theorem strip_setTrace (st : PS) (t : List Event) : PS.strip { st with trace := t } = st.strip := rfl
@[simp] theorem strip_identOfCur (st : PS) : identOfCur st.strip = identOfCur st := rfl
@[simp] theorem strip_peekPrecedence (cfg : PCfg) (st : PS) : peekPrecedence cfg.plain st.strip = peekPrecedence cfg st := rfl
@[simp] theorem strip_curPrecedence (cfg : PCfg) (st : PS) : curPrecedence cfg.plain st.strip = curPrecedence cfg st := rfl

theorem strip_lt_peekPrec (cfg : PCfg) (st : PS) (prec : Nat) :
    decide (prec < peekPrecedence cfg.plain st.strip) = decide (prec < peekPrecedence cfg st) := rfl

theorem strip_expectToken (ty : TokType) (st : PS) :
    expectToken ty st.strip = ((expectToken ty st).1, (expectToken ty st).2.strip) := by
  by_cases h : (st.peek.type == ty) = true
  · simp [expectToken, h, strip_next]
  · simp [expectToken, h, strip_addErrorAt]

theorem strip_expectSemi (cfg : PCfg) (st : PS) :
    expectSemiASI cfg.plain st.strip = ((expectSemiASI cfg st).1, (expectSemiASI cfg st).2.strip) := by
  have hs : shouldInsertSemicolon st.strip = shouldInsertSemicolon st := rfl
  by_cases h1 : (st.peek.type == .semicolon) = true
  · simp [expectSemiASI, h1, strip_next]
  · by_cases h2 : shouldInsertSemicolon st = true
    · simp [expectSemiASI, h1, hs, h2]
    · by_cases h3 : cfg.tolerant = true
      · simp [expectSemiASI, h1, hs, h2, h3]
      · simp [expectSemiASI, h1, hs, h2, h3, strip_addErrorAt]

@[simp] theorem next_curPrec' (st : PS) : st.next.curPrec = st.curPrec := PS.next_curPrec st
@[simp] theorem expectToken_curPrec (ty : TokType) (st : PS) : (expectToken ty st).2.curPrec = st.curPrec := by
  unfold expectToken; split <;> simp [PS.addErrorAt]
@[simp] theorem expectSemi_curPrec (cfg : PCfg) (st : PS) : (expectSemiASI cfg st).2.curPrec = st.curPrec := by
  unfold expectSemiASI; split <;> (try split) <;> (try split) <;> simp [PS.addErrorAt]
@[simp] theorem addError_curPrec (st : PS) (m : Bytes) : (st.addError m).curPrec = st.curPrec := rfl
@[simp] theorem push_curPrec (st : PS) (c : Ctx) : (st.push c).curPrec = st.curPrec := rfl
@[simp] theorem pop_curPrec (st : PS) : st.pop.curPrec = st.curPrec := rfl

/-! ### parameter lists -/

theorem plain_paramsLoop (acc : List Ident) (st : PS) (r : List Ident × PS) (h : paramsLoop acc st = some r) :
    r.2.curPrec = st.curPrec ∧ paramsLoop acc st.strip = some (r.1, r.2.strip) := by
  refine paramsLoop.partial_correctness
    (fun acc st r => r.2.curPrec = st.curPrec ∧ paramsLoop acc st.strip = some (r.1, r.2.strip)) ?_ acc st r h
  intro f ih acc st r h
  rw [paramsLoop]
  simp only [strip_peek]
  split at h
  · rename_i hc
    have := ih _ _ _ h
    simp only [hc, if_true, strip_next, strip_identOfCur]
    refine ⟨by rw [this.1]; simp, this.2⟩
  · rename_i hc
    cases h
    simp [hc]

theorem plain_parseFunctionParameters (st : PS) (r : List Ident × PS) (h : parseFunctionParameters st = some r) :
    r.2.curPrec = st.curPrec ∧ parseFunctionParameters st.strip = some (r.1, r.2.strip) := by
  unfold parseFunctionParameters at h ⊢
  simp only [strip_peek]
  split at h
  · rename_i hc; cases h; simp [hc, strip_next]
  · rename_i hc
    obtain ⟨⟨ids, st1⟩, h1, h2⟩ := bind_some h
    have := plain_paramsLoop _ _ _ h1
    simp only [hc, if_false, strip_next, strip_identOfCur, this.2, Option.bind_eq_bind, Option.bind_some, strip_expectToken]
    simp only at h2
    split at h2 <;> cases h2 <;> simp_all

end Xjs
