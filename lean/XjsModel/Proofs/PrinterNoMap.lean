import XjsModel.Proofs.Writer
/-
  Mapper independence of the printers: two writers that differ only in their mapper stay so under every `WriteTo`.
-/
namespace Xjs

/-- equal up to the mapper -/
def Sim (a b : CW) : Prop := a.noMap = b.noMap

theorem sim_refl (a : CW) : Sim a a := rfl

theorem sim_of_commute {f : CW → CW} (hf : ∀ cw, (f cw).noMap = f cw.noMap) {a b : CW} (h : Sim a b) : Sim (f a) (f b) := by
  unfold Sim at *; rw [hf, hf, h]

theorem sim_ite {c : Prop} [Decidable c] {a b a' b' : CW} (h1 : Sim a b) (h2 : Sim a' b') :
    Sim (if c then a else a') (if c then b else b') := by split <;> assumption

theorem sim_panic {a b : CW} (h : Sim a b) : Sim a.panic b.panic := sim_of_commute noMap_panic h
theorem sim_writeString {a b : CW} (s : Bytes) (h : Sim a b) : Sim (a.writeString s) (b.writeString s) :=
  sim_of_commute (fun cw => noMap_writeString cw s) h
theorem sim_writeRune {a b : CW} (r : Nat) (h : Sim a b) : Sim (a.writeRune r) (b.writeRune r) :=
  sim_of_commute (fun cw => noMap_writeRune cw r) h
theorem sim_writeSemi {a b : CW} (h : Sim a b) : Sim a.writeSemi b.writeSemi := sim_of_commute noMap_writeSemi h
theorem sim_separateSigns {a b : CW} (op : Bytes) (h : Sim a b) : Sim (a.separateSigns op) (b.separateSigns op) :=
  sim_of_commute (fun cw => noMap_separateSigns cw op) h
theorem sim_increaseIndent {a b : CW} (h : Sim a b) : Sim a.increaseIndent b.increaseIndent := sim_of_commute noMap_increaseIndent h
theorem sim_decreaseIndent {a b : CW} (h : Sim a b) : Sim a.decreaseIndent b.decreaseIndent := sim_of_commute noMap_decreaseIndent h
theorem sim_writeIndent {a b : CW} (h : Sim a b) : Sim a.writeIndent b.writeIndent := sim_of_commute noMap_writeIndent h
theorem sim_writeNewline {a b : CW} (h : Sim a b) : Sim a.writeNewline b.writeNewline := sim_of_commute noMap_writeNewline h
theorem sim_writeSpace {a b : CW} (h : Sim a b) : Sim a.writeSpace b.writeSpace := sim_of_commute noMap_writeSpace h
theorem sim_leadingComments {a b : CW} (cs : List Bytes) (h : Sim a b) : Sim (a.leadingComments cs) (b.leadingComments cs) :=
  sim_of_commute (fun cw => noMap_leadingComments cw cs) h
theorem sim_addMapping {a b : CW} (x y : Nat) (h : Sim a b) : Sim (a.addMapping x y) (b.addMapping x y) := by
  unfold Sim at *; rw [noMap_addMapping, noMap_addMapping, h]
theorem sim_addNamedMapping {a b : CW} (x y : Nat) (n : Bytes) (h : Sim a b) :
    Sim (a.addNamedMapping x y n) (b.addNamedMapping x y n) := by
  unfold Sim at *; rw [noMap_addNamedMapping, noMap_addNamedMapping, h]
theorem sim_head {a b : CW} (t : Token) (h : Sim a b) : Sim (a.head t) (b.head t) :=
  sim_addMapping _ _ (sim_leadingComments _ h)
theorem sim_writeIdent {a b : CW} (id : Ident) (h : Sim a b) : Sim (writeIdent id a) (writeIdent id b) :=
  sim_of_commute (noMap_writeIdent id) h
theorem sim_openIf {a b : CW} (x : Bool) (h : Sim a b) : Sim (a.openIf x) (b.openIf x) := sim_of_commute (fun cw => noMap_openIf cw x) h
theorem sim_closeIf {a b : CW} (x : Bool) (h : Sim a b) : Sim (a.closeIf x) (b.closeIf x) := sim_of_commute (fun cw => noMap_closeIf cw x) h
theorem sim_sepIf {a b : CW} (x : Bool) (h : Sim a b) : Sim (a.sepIf x) (b.sepIf x) := sim_of_commute (fun cw => noMap_sepIf cw x) h
theorem sim_newlineIf {a b : CW} (x : Bool) (h : Sim a b) : Sim (a.newlineIf x) (b.newlineIf x) := sim_of_commute (fun cw => noMap_newlineIf cw x) h
theorem sim_writeParams {a b : CW} (ps : List Ident) (f : Bool) (h : Sim a b) : Sim (writeParams ps f a) (writeParams ps f b) :=
  sim_of_commute (noMap_writeParams ps f) h

/-- closes goals `Sim (f … a) (f … b)` built from writer operations -/
macro "sim_step" : tactic => `(tactic| first
  | assumption
  | exact sim_refl _
  | apply sim_panic
  | apply sim_writeString
  | apply sim_writeRune
  | apply sim_writeSemi
  | apply sim_separateSigns
  | apply sim_increaseIndent
  | apply sim_decreaseIndent
  | apply sim_writeIndent
  | apply sim_writeNewline
  | apply sim_writeSpace
  | apply sim_leadingComments
  | apply sim_addMapping
  | apply sim_addNamedMapping
  | apply sim_head
  | apply sim_writeIdent
  | apply sim_writeParams
  | apply sim_openIf
  | apply sim_closeIf
  | apply sim_sepIf
  | apply sim_newlineIf
  | apply sim_ite)

attribute [local irreducible] CW.openIf CW.closeIf CW.sepIf CW.newlineIf CW.head CW.writeString CW.writeRune CW.writeSemi
  CW.separateSigns CW.increaseIndent CW.decreaseIndent CW.writeIndent CW.writeNewline CW.writeSpace CW.leadingComments
  CW.addMapping CW.addNamedMapping CW.panic writeIdent writeParams

mutual
  theorem sim_writeExpr : ∀ (e : Expr) (a b : CW), Sim a b → Sim (writeExpr e a) (writeExpr e b)
    | .none, a, b, h => by simp only [writeExpr]; repeat' sim_step
    | .ident id, a, b, h => by simp only [writeExpr]; repeat' sim_step
    | .int tok, a, b, h => by simp only [writeExpr]; repeat' sim_step
    | .float tok, a, b, h => by simp only [writeExpr]; repeat' sim_step
    | .str tok v, a, b, h => by simp only [writeExpr]; repeat' sim_step
    | .raw tok v, a, b, h => by simp only [writeExpr]; repeat' sim_step
    | .bool tok v, a, b, h => by simp only [writeExpr]; repeat' sim_step
    | .null tok, a, b, h => by simp only [writeExpr]; repeat' sim_step
    | .letE tok name v, a, b, h => by
      simp only [writeExpr]; repeat' (first | apply sim_writeExpr v | sim_step)
    | .binary tok l op r, a, b, h => by
      simp only [writeExpr]; repeat' (first | apply sim_writeExpr l | apply sim_writeExpr r | sim_step)
    | .unary tok op r, a, b, h => by
      simp only [writeExpr]; repeat' (first | apply sim_writeExpr r | sim_step)
    | .postfix tok l op, a, b, h => by
      simp only [writeExpr]; repeat' (first | apply sim_writeExpr l | sim_step)
    | .group tok e rp, a, b, h => by
      simp only [writeExpr]; repeat' (first | apply sim_writeExpr e | sim_step)
    | .call tok fn args, a, b, h => by
      simp only [writeExpr]; repeat' (first | apply sim_writeExpr fn | apply sim_writeExprList args | sim_step)
    | .member tok obj prop c, a, b, h => by
      simp only [writeExpr]; repeat' (first | apply sim_writeExpr obj | apply sim_writeExpr prop | sim_step)
    | .assign tok l v, a, b, h => by
      simp only [writeExpr]; repeat' (first | apply sim_writeExpr l | apply sim_writeExpr v | sim_step)
    | .compound tok l op v, a, b, h => by
      simp only [writeExpr]; repeat' (first | apply sim_writeExpr l | apply sim_writeExpr v | sim_step)
    | .func tok name params body, a, b, h => by
      cases name <;> simp only [writeExpr] <;> repeat' (first | apply sim_writeStmt body | sim_step)
    | .array tok elems rb, a, b, h => by
      simp only [writeExpr]; repeat' (first | apply sim_writeExprList elems | sim_step)
    | .object tok props rb, a, b, h => by
      simp only [writeExpr]; repeat' (first | apply sim_writeProps props | sim_step)
  theorem sim_writeExprList : ∀ (es : ExprList) (first : Bool) (a b : CW), Sim a b →
      Sim (writeExprList es first a) (writeExprList es first b)
    | .nil, _, a, b, h => by simp only [writeExprList]; exact h
    | .cons e rest, first, a, b, h => by
      simp only [writeExprList]; repeat' (first | apply sim_writeExprList rest | apply sim_writeExpr e | sim_step)
  theorem sim_writeProps : ∀ (ps : PropList) (first : Bool) (a b : CW), Sim a b →
      Sim (writeProps ps first a) (writeProps ps first b)
    | .nil, _, a, b, h => by simp only [writeProps]; exact h
    | .cons k v rest, first, a, b, h => by
      simp only [writeProps]
      repeat' (first | apply sim_writeProps rest | apply sim_writeExpr k | apply sim_writeExpr v | sim_step)
  theorem sim_writeStmt : ∀ (s : Stmt) (a b : CW), Sim a b → Sim (writeStmt s a) (writeStmt s b)
    | .none, a, b, h => by simp only [writeStmt]; repeat' sim_step
    | .letS tok name v, a, b, h => by
      simp only [writeStmt]; repeat' (first | apply sim_writeExpr v | sim_step)
    | .ret tok v, a, b, h => by
      simp only [writeStmt]; repeat' (first | apply sim_writeExpr v | sim_step)
    | .exprS e, a, b, h => by
      simp only [writeStmt]; repeat' (first | apply sim_writeExpr e | sim_step)
    | .funcD tok name params body, a, b, h => by
      simp only [writeStmt]; repeat' (first | apply sim_writeStmt body | sim_step)
    | .block tok stmts rb, a, b, h => by
      simp only [writeStmt]; repeat' (first | apply sim_writeBlockStmts stmts | sim_step)
    | .ifS tok c t e, a, b, h => by
      simp only [writeStmt]
      repeat' (first | apply sim_writeExpr c | apply sim_writeStmt t | apply sim_writeStmt e | sim_step)
    | .whileS tok c body, a, b, h => by
      simp only [writeStmt]; repeat' (first | apply sim_writeExpr c | apply sim_writeStmt body | sim_step)
    | .forS tok i c u body, a, b, h => by
      simp only [writeStmt]
      repeat' (first | apply sim_writeExpr i | apply sim_writeExpr c | apply sim_writeExpr u | apply sim_writeStmt body | sim_step)
  theorem sim_writeBlockStmts : ∀ (ss : StmtList) (first : Bool) (a b : CW), Sim a b →
      Sim (writeBlockStmts ss first a) (writeBlockStmts ss first b)
    | .nil, _, a, b, h => by simp only [writeBlockStmts]; exact h
    | .cons s rest, first, a, b, h => by
      simp only [writeBlockStmts]; repeat' (first | apply sim_writeBlockStmts rest | apply sim_writeStmt s | sim_step)
  theorem sim_writeProgramStmts : ∀ (ss : StmtList) (first : Bool) (a b : CW), Sim a b →
      Sim (writeProgramStmts ss first a) (writeProgramStmts ss first b)
    | .nil, _, a, b, h => by simp only [writeProgramStmts]; exact h
    | .cons s rest, first, a, b, h => by
      simp only [writeProgramStmts]; repeat' (first | apply sim_writeProgramStmts rest | apply sim_writeStmt s | sim_step)
end

end Xjs
