import XjsModel.Proofs.ParserPos
/-
  The position-erasure pass (C03): one pass over the parser's mutual block with the partial-correctness principle —
  whenever the parser returns on a token list, it returns the position-free result on the position-free list.
  (Derived mechanically from `ParserRenPass.lean`.)
-/
namespace Xjs.Pos
open Xjs
variable {cfg : PCfg}
set_option linter.unusedSimpArgs false

theorem psZ_setTrace (st : PS) (b : Bool) (id : Nat) :
    psZ { st with trace := st.trace ++ [st.event b id] } =
      { psZ st with trace := (psZ st).trace ++ [(psZ st).event b id] } := by
  rw [psZ_event]; simp [psZ]
theorem psZ_setBoth (st : PS) (p : Nat) (b : Bool) (id : Nat) :
    psZ { st with curPrec := p, trace := st.trace ++ [st.event b id] } =
      { psZ st with curPrec := p, trace := (psZ st).trace ++ [(psZ st).event b id] } := by
  rw [psZ_event]; simp [psZ]
theorem psZ_setPrec (st : PS) (p : Nat) : psZ { st with curPrec := p } = { psZ st with curPrec := p } := rfl

theorem pos_paramsLoop (acc : List Ident) (st : PS) (r : List Ident × PS) (h : paramsLoop acc st = some r) :
    paramsLoop (acc.map (identZ)) (psZ st) = some (r.1.map (identZ), psZ r.2) := by
  refine paramsLoop.partial_correctness
    (fun acc st r => paramsLoop (acc.map (identZ)) (psZ st) = some (r.1.map (identZ), psZ r.2)) ?_ acc st r h
  intro f ih acc st r h
  rw [paramsLoop]
  rw [psZ_peek_type]
  split at h
  · rename_i hc
    have := ih _ _ _ h
    simp only [hc, if_true, psZ_next, identOfCur_pos]
    simpa using this
  · rename_i hc
    cases h
    simp [hc]

theorem pos_parseFunctionParameters (st : PS) (r : List Ident × PS) (h : parseFunctionParameters st = some r) :
    parseFunctionParameters (psZ st) = some (r.1.map (identZ), psZ r.2) := by
  unfold parseFunctionParameters at h ⊢
  rw [psZ_peek_type]
  split at h
  · rename_i hc; cases h; simp [hc, psZ_next]
  · rename_i hc
    obtain ⟨⟨ids, st1⟩, h1, h2⟩ := bind_some h
    have := pos_paramsLoop _ _ _ h1
    simp only [hc, if_false, psZ_next, identOfCur_pos] 
    have e : [identZ (identOfCur st.next)] = [identOfCur st.next].map (identZ) := rfl
    rw [e, this]
    simp only [Option.bind_eq_bind, Option.bind_some, psZ_expectToken .rparen]
    simp only at h2
    split at h2
    · rename_i hok; cases h2; simp [hok]
    · rename_i hok; cases h2; simp [hok]

set_option maxHeartbeats 6400000 in
theorem pos_mutual :
    (∀ is st r, parseStatementI cfg is st = some r → parseStatementI cfg is (psZ st) = some (stmtZ r.1, psZ r.2)) ∧
    (∀ st r, baseParseStatement cfg st = some r → baseParseStatement cfg (psZ st) = some (stmtZ r.1, psZ r.2)) ∧
    (∀ st r, parseExpressionStatement cfg st = some r → parseExpressionStatement cfg (psZ st) = some (stmtZ r.1, psZ r.2)) ∧
    (∀ is prec st r, parseExpressionI cfg is prec st = some r → parseExpressionI cfg is prec (psZ st) = some (exprZ r.1, psZ r.2)) ∧
    (∀ left prec st r, parseRemaining cfg left prec st = some r → parseRemaining cfg (exprZ left) prec (psZ st) = some (exprZ r.1, psZ r.2)) ∧
    (∀ left st r, parseInfixExpression cfg left st = some r → parseInfixExpression cfg (exprZ left) (psZ st) = some (exprZ r.1, psZ r.2)) ∧
    (∀ endTy st r, parseExpressionList cfg endTy st = some r → parseExpressionList cfg endTy (psZ st) = some (exprListZ r.1, psZ r.2)) ∧
    (∀ acc st r, exprListLoop cfg acc st = some r → exprListLoop cfg (exprListZ acc) (psZ st) = some (exprListZ r.1, psZ r.2)) ∧
    (∀ st r, parsePrefixExpression cfg st = some r → parsePrefixExpression cfg (psZ st) = some (exprZ r.1, psZ r.2)) ∧
    (∀ st r, parseFunctionExpression cfg st = some r → parseFunctionExpression cfg (psZ st) = some (exprZ r.1, psZ r.2)) ∧
    (∀ st r, parseBlockStatement cfg st = some r → parseBlockStatement cfg (psZ st) = some (stmtZ r.1, psZ r.2)) ∧
    (∀ acc st r, blockLoop cfg acc st = some r → blockLoop cfg (stmtListZ acc) (psZ st) = some (stmtListZ r.1, psZ r.2)) ∧
    (∀ st r, parseObjectLiteral cfg st = some r → parseObjectLiteral cfg (psZ st) = some (exprZ r.1, psZ r.2)) ∧
    (∀ acc st r, objectLoop cfg acc st = some r → objectLoop cfg (propListZ acc) (psZ st) = some (r.1.map (propListZ), psZ r.2)) ∧
    (∀ st r, parseForStatement cfg st = some r → parseForStatement cfg (psZ st) = some (stmtZ r.1, psZ r.2)) ∧
    (∀ st r, parseForInit cfg st = some r → parseForInit cfg (psZ st) = some (exprZ r.1, psZ r.2)) ∧
    (∀ st r, parseLetExpression cfg st = some r → parseLetExpression cfg (psZ st) = some (exprZ r.1, psZ r.2)) ∧
    (∀ st r, parseWhileStatement cfg st = some r → parseWhileStatement cfg (psZ st) = some (stmtZ r.1, psZ r.2)) ∧
    (∀ st r, parseIfStatement cfg st = some r → parseIfStatement cfg (psZ st) = some (stmtZ r.1, psZ r.2)) ∧
    (∀ st r, parseReturnStatement cfg st = some r → parseReturnStatement cfg (psZ st) = some (stmtZ r.1, psZ r.2)) ∧
    (∀ st r, parseFunctionStatement cfg st = some r → parseFunctionStatement cfg (psZ st) = some (stmtZ r.1, psZ r.2)) ∧
    (∀ st r, parseLetStatement cfg st = some r → parseLetStatement cfg (psZ st) = some (stmtZ r.1, psZ r.2)) := by
  refine parseStatementI.mutual_partial_correctness cfg
    (fun is st r => parseStatementI cfg is (psZ st) = some (stmtZ r.1, psZ r.2))
    (fun st r => baseParseStatement cfg (psZ st) = some (stmtZ r.1, psZ r.2))
    (fun st r => parseExpressionStatement cfg (psZ st) = some (stmtZ r.1, psZ r.2))
    (fun is prec st r => parseExpressionI cfg is prec (psZ st) = some (exprZ r.1, psZ r.2))
    (fun left prec st r => parseRemaining cfg (exprZ left) prec (psZ st) = some (exprZ r.1, psZ r.2))
    (fun left st r => parseInfixExpression cfg (exprZ left) (psZ st) = some (exprZ r.1, psZ r.2))
    (fun endTy st r => parseExpressionList cfg endTy (psZ st) = some (exprListZ r.1, psZ r.2))
    (fun acc st r => exprListLoop cfg (exprListZ acc) (psZ st) = some (exprListZ r.1, psZ r.2))
    (fun st r => parsePrefixExpression cfg (psZ st) = some (exprZ r.1, psZ r.2))
    (fun st r => parseFunctionExpression cfg (psZ st) = some (exprZ r.1, psZ r.2))
    (fun st r => parseBlockStatement cfg (psZ st) = some (stmtZ r.1, psZ r.2))
    (fun acc st r => blockLoop cfg (stmtListZ acc) (psZ st) = some (stmtListZ r.1, psZ r.2))
    (fun st r => parseObjectLiteral cfg (psZ st) = some (exprZ r.1, psZ r.2))
    (fun acc st r => objectLoop cfg (propListZ acc) (psZ st) = some (r.1.map (propListZ), psZ r.2))
    (fun st r => parseForStatement cfg (psZ st) = some (stmtZ r.1, psZ r.2))
    (fun st r => parseForInit cfg (psZ st) = some (exprZ r.1, psZ r.2))
    (fun st r => parseLetExpression cfg (psZ st) = some (exprZ r.1, psZ r.2))
    (fun st r => parseWhileStatement cfg (psZ st) = some (stmtZ r.1, psZ r.2))
    (fun st r => parseIfStatement cfg (psZ st) = some (stmtZ r.1, psZ r.2))
    (fun st r => parseReturnStatement cfg (psZ st) = some (stmtZ r.1, psZ r.2))
    (fun st r => parseFunctionStatement cfg (psZ st) = some (stmtZ r.1, psZ r.2))
    (fun st r => parseLetStatement cfg (psZ st) = some (stmtZ r.1, psZ r.2))
    ?_ ?_ ?_ ?_ ?_ ?_ ?_ ?_ ?_ ?_ ?_ ?_ ?_ ?_ ?_ ?_ ?_ ?_ ?_ ?_ ?_ ?_
  · -- parseStatementI
    intro pS bS ih_pS ih_bS is st r h
    replace ih_pS := curry2 ih_pS; replace ih_bS := curry1 ih_bS
    dsimp only at ih_pS ih_bS ⊢
    obtain ⟨x, st'⟩ := r
    have hparams := pos_parseFunctionParameters
    pdecompW h [ih_pS, ih_bS, hparams]
    all_goals (rw [parseStatementI]; simp_all [psZ_next, psZ_expectToken, psZ_expectSemi, psZ_addError, psZ_push, psZ_pop, exprZ, stmtZ, exprListZ, stmtListZ, propListZ, exprListZ_snoc, stmtListZ_snoc, propListZ_snoc, exprZ_isNone, stmtZ_isNone, identZ, tokZ_type, tokZ_lit, psZ_setTrace, psZ_setBoth, psZ_setPrec])
    all_goals (try (split <;> simp_all [psZ_next, psZ_expectToken, psZ_expectSemi, psZ_addError, psZ_push, psZ_pop, exprZ, stmtZ, exprListZ, stmtListZ, propListZ, exprListZ_snoc, stmtListZ_snoc, propListZ_snoc, exprZ_isNone, stmtZ_isNone, identZ, tokZ_type, tokZ_lit, psZ_setTrace, psZ_setBoth, psZ_setPrec]))
    all_goals (try (split <;> simp_all [psZ_next, psZ_expectToken, psZ_expectSemi, psZ_addError, psZ_push, psZ_pop, exprZ, stmtZ, exprListZ, stmtListZ, propListZ, exprListZ_snoc, stmtListZ_snoc, propListZ_snoc, exprZ_isNone, stmtZ_isNone, identZ, tokZ_type, tokZ_lit, psZ_setTrace, psZ_setBoth, psZ_setPrec]))
    all_goals (try (intros; first | omega | (exfalso; simp_all; done) | (simp_all; omega)))
  · -- baseParseStatement
    intro f1 f2 f3 f4 f5 f6 f7 f8 ih_f1 ih_f2 ih_f3 ih_f4 ih_f5 ih_f6 ih_f7 ih_f8  st r h
    replace ih_f1 := curry1 ih_f1; replace ih_f2 := curry1 ih_f2; replace ih_f3 := curry1 ih_f3; replace ih_f4 := curry1 ih_f4; replace ih_f5 := curry1 ih_f5; replace ih_f6 := curry1 ih_f6; replace ih_f7 := curry1 ih_f7; replace ih_f8 := curry1 ih_f8
    dsimp only at ih_f1 ih_f2 ih_f3 ih_f4 ih_f5 ih_f6 ih_f7 ih_f8 ⊢
    obtain ⟨x, st'⟩ := r
    have hparams := pos_parseFunctionParameters
    pdecompW h [ih_f1, ih_f2, ih_f3, ih_f4, ih_f5, ih_f6, ih_f7, ih_f8, hparams]
    all_goals (rw [baseParseStatement]; simp_all [psZ_next, psZ_expectToken, psZ_expectSemi, psZ_addError, psZ_push, psZ_pop, exprZ, stmtZ, exprListZ, stmtListZ, propListZ, exprListZ_snoc, stmtListZ_snoc, propListZ_snoc, exprZ_isNone, stmtZ_isNone, identZ, tokZ_type, tokZ_lit, psZ_setTrace, psZ_setBoth, psZ_setPrec])
    all_goals (try (split <;> simp_all [psZ_next, psZ_expectToken, psZ_expectSemi, psZ_addError, psZ_push, psZ_pop, exprZ, stmtZ, exprListZ, stmtListZ, propListZ, exprListZ_snoc, stmtListZ_snoc, propListZ_snoc, exprZ_isNone, stmtZ_isNone, identZ, tokZ_type, tokZ_lit, psZ_setTrace, psZ_setBoth, psZ_setPrec]))
    all_goals (try (split <;> simp_all [psZ_next, psZ_expectToken, psZ_expectSemi, psZ_addError, psZ_push, psZ_pop, exprZ, stmtZ, exprListZ, stmtListZ, propListZ, exprListZ_snoc, stmtListZ_snoc, propListZ_snoc, exprZ_isNone, stmtZ_isNone, identZ, tokZ_type, tokZ_lit, psZ_setTrace, psZ_setBoth, psZ_setPrec]))
    all_goals (try (intros; first | omega | (exfalso; simp_all; done) | (simp_all; omega)))
  · -- parseExpressionStatement
    intro pE ih_pE  st r h
    replace ih_pE := curry3 ih_pE
    dsimp only at ih_pE ⊢
    obtain ⟨x, st'⟩ := r
    have hparams := pos_parseFunctionParameters
    pdecompW h [ih_pE, hparams]
    all_goals (rw [parseExpressionStatement]; simp_all [psZ_next, psZ_expectToken, psZ_expectSemi, psZ_addError, psZ_push, psZ_pop, exprZ, stmtZ, exprListZ, stmtListZ, propListZ, exprListZ_snoc, stmtListZ_snoc, propListZ_snoc, exprZ_isNone, stmtZ_isNone, identZ, tokZ_type, tokZ_lit, psZ_setTrace, psZ_setBoth, psZ_setPrec])
    all_goals (try (split <;> simp_all [psZ_next, psZ_expectToken, psZ_expectSemi, psZ_addError, psZ_push, psZ_pop, exprZ, stmtZ, exprListZ, stmtListZ, propListZ, exprListZ_snoc, stmtListZ_snoc, propListZ_snoc, exprZ_isNone, stmtZ_isNone, identZ, tokZ_type, tokZ_lit, psZ_setTrace, psZ_setBoth, psZ_setPrec]))
    all_goals (try (split <;> simp_all [psZ_next, psZ_expectToken, psZ_expectSemi, psZ_addError, psZ_push, psZ_pop, exprZ, stmtZ, exprListZ, stmtListZ, propListZ, exprListZ_snoc, stmtListZ_snoc, propListZ_snoc, exprZ_isNone, stmtZ_isNone, identZ, tokZ_type, tokZ_lit, psZ_setTrace, psZ_setBoth, psZ_setPrec]))
    all_goals (try (intros; first | omega | (exfalso; simp_all; done) | (simp_all; omega)))
  · -- parseExpressionI
    intro pE pR pP ih_pE ih_pR ih_pP is prec st r h
    replace ih_pE := curry3 ih_pE; replace ih_pR := curry3 ih_pR; replace ih_pP := curry1 ih_pP
    dsimp only at ih_pE ih_pR ih_pP ⊢
    obtain ⟨x, st'⟩ := r
    have hparams := pos_parseFunctionParameters
    pdecompW h [ih_pE, ih_pR, ih_pP, hparams]
    all_goals (rw [parseExpressionI]; simp_all [psZ_next, psZ_expectToken, psZ_expectSemi, psZ_addError, psZ_push, psZ_pop, exprZ, stmtZ, exprListZ, stmtListZ, propListZ, exprListZ_snoc, stmtListZ_snoc, propListZ_snoc, exprZ_isNone, stmtZ_isNone, identZ, tokZ_type, tokZ_lit, psZ_setTrace, psZ_setBoth, psZ_setPrec])
    all_goals (try (split <;> simp_all [psZ_next, psZ_expectToken, psZ_expectSemi, psZ_addError, psZ_push, psZ_pop, exprZ, stmtZ, exprListZ, stmtListZ, propListZ, exprListZ_snoc, stmtListZ_snoc, propListZ_snoc, exprZ_isNone, stmtZ_isNone, identZ, tokZ_type, tokZ_lit, psZ_setTrace, psZ_setBoth, psZ_setPrec]))
    all_goals (try (split <;> simp_all [psZ_next, psZ_expectToken, psZ_expectSemi, psZ_addError, psZ_push, psZ_pop, exprZ, stmtZ, exprListZ, stmtListZ, propListZ, exprListZ_snoc, stmtListZ_snoc, propListZ_snoc, exprZ_isNone, stmtZ_isNone, identZ, tokZ_type, tokZ_lit, psZ_setTrace, psZ_setBoth, psZ_setPrec]))
    all_goals (try (intros; first | omega | (exfalso; simp_all; done) | (simp_all; omega)))
  · -- parseRemaining
    intro pR pI ih_pR ih_pI left prec st r h
    replace ih_pR := curry3 ih_pR; replace ih_pI := curry2 ih_pI
    dsimp only at ih_pR ih_pI ⊢
    obtain ⟨x, st'⟩ := r
    have hparams := pos_parseFunctionParameters
    pdecompW h [ih_pR, ih_pI, hparams]
    all_goals (rw [parseRemaining]; simp_all [psZ_next, psZ_expectToken, psZ_expectSemi, psZ_addError, psZ_push, psZ_pop, exprZ, stmtZ, exprListZ, stmtListZ, propListZ, exprListZ_snoc, stmtListZ_snoc, propListZ_snoc, exprZ_isNone, stmtZ_isNone, identZ, tokZ_type, tokZ_lit, psZ_setTrace, psZ_setBoth, psZ_setPrec])
    all_goals (try (split <;> simp_all [psZ_next, psZ_expectToken, psZ_expectSemi, psZ_addError, psZ_push, psZ_pop, exprZ, stmtZ, exprListZ, stmtListZ, propListZ, exprListZ_snoc, stmtListZ_snoc, propListZ_snoc, exprZ_isNone, stmtZ_isNone, identZ, tokZ_type, tokZ_lit, psZ_setTrace, psZ_setBoth, psZ_setPrec]))
    all_goals (try (split <;> simp_all [psZ_next, psZ_expectToken, psZ_expectSemi, psZ_addError, psZ_push, psZ_pop, exprZ, stmtZ, exprListZ, stmtListZ, propListZ, exprListZ_snoc, stmtListZ_snoc, propListZ_snoc, exprZ_isNone, stmtZ_isNone, identZ, tokZ_type, tokZ_lit, psZ_setTrace, psZ_setBoth, psZ_setPrec]))
    all_goals (try (intros; first | omega | (exfalso; simp_all; done) | (simp_all; omega)))
  · -- parseInfixExpression
    intro pE pL ih_pE ih_pL left st r h
    replace ih_pE := curry3 ih_pE; replace ih_pL := curry2 ih_pL
    dsimp only at ih_pE ih_pL ⊢
    obtain ⟨x, st'⟩ := r
    have hparams := pos_parseFunctionParameters
    pdecompW h [ih_pE, ih_pL, hparams]
    all_goals (rw [parseInfixExpression]; simp_all [psZ_next, psZ_expectToken, psZ_expectSemi, psZ_addError, psZ_push, psZ_pop, exprZ, stmtZ, exprListZ, stmtListZ, propListZ, exprListZ_snoc, stmtListZ_snoc, propListZ_snoc, exprZ_isNone, stmtZ_isNone, identZ, tokZ_type, tokZ_lit, psZ_setTrace, psZ_setBoth, psZ_setPrec])
    all_goals (try (split <;> simp_all [psZ_next, psZ_expectToken, psZ_expectSemi, psZ_addError, psZ_push, psZ_pop, exprZ, stmtZ, exprListZ, stmtListZ, propListZ, exprListZ_snoc, stmtListZ_snoc, propListZ_snoc, exprZ_isNone, stmtZ_isNone, identZ, tokZ_type, tokZ_lit, psZ_setTrace, psZ_setBoth, psZ_setPrec]))
    all_goals (try (split <;> simp_all [psZ_next, psZ_expectToken, psZ_expectSemi, psZ_addError, psZ_push, psZ_pop, exprZ, stmtZ, exprListZ, stmtListZ, propListZ, exprListZ_snoc, stmtListZ_snoc, propListZ_snoc, exprZ_isNone, stmtZ_isNone, identZ, tokZ_type, tokZ_lit, psZ_setTrace, psZ_setBoth, psZ_setPrec]))
    all_goals (try (intros; first | omega | (exfalso; simp_all; done) | (simp_all; omega)))
  · -- parseExpressionList
    intro pE eL ih_pE ih_eL endTy st r h
    replace ih_pE := curry3 ih_pE; replace ih_eL := curry2 ih_eL
    dsimp only at ih_pE ih_eL ⊢
    obtain ⟨x, st'⟩ := r
    have hparams := pos_parseFunctionParameters
    pdecompW h [ih_pE, ih_eL, hparams]
    all_goals (rw [parseExpressionList]; simp_all [psZ_next, psZ_expectToken, psZ_expectSemi, psZ_addError, psZ_push, psZ_pop, exprZ, stmtZ, exprListZ, stmtListZ, propListZ, exprListZ_snoc, stmtListZ_snoc, propListZ_snoc, exprZ_isNone, stmtZ_isNone, identZ, tokZ_type, tokZ_lit, psZ_setTrace, psZ_setBoth, psZ_setPrec])
    all_goals (try (split <;> simp_all [psZ_next, psZ_expectToken, psZ_expectSemi, psZ_addError, psZ_push, psZ_pop, exprZ, stmtZ, exprListZ, stmtListZ, propListZ, exprListZ_snoc, stmtListZ_snoc, propListZ_snoc, exprZ_isNone, stmtZ_isNone, identZ, tokZ_type, tokZ_lit, psZ_setTrace, psZ_setBoth, psZ_setPrec]))
    all_goals (try (split <;> simp_all [psZ_next, psZ_expectToken, psZ_expectSemi, psZ_addError, psZ_push, psZ_pop, exprZ, stmtZ, exprListZ, stmtListZ, propListZ, exprListZ_snoc, stmtListZ_snoc, propListZ_snoc, exprZ_isNone, stmtZ_isNone, identZ, tokZ_type, tokZ_lit, psZ_setTrace, psZ_setBoth, psZ_setPrec]))
    all_goals (try (intros; first | omega | (exfalso; simp_all; done) | (simp_all; omega)))
  · -- exprListLoop
    intro pE eL ih_pE ih_eL acc st r h
    replace ih_pE := curry3 ih_pE; replace ih_eL := curry2 ih_eL
    dsimp only at ih_pE ih_eL ⊢
    obtain ⟨x, st'⟩ := r
    have hparams := pos_parseFunctionParameters
    pdecompW h [ih_pE, ih_eL, hparams]
    all_goals (rw [exprListLoop]; simp_all [psZ_next, psZ_expectToken, psZ_expectSemi, psZ_addError, psZ_push, psZ_pop, exprZ, stmtZ, exprListZ, stmtListZ, propListZ, exprListZ_snoc, stmtListZ_snoc, propListZ_snoc, exprZ_isNone, stmtZ_isNone, identZ, tokZ_type, tokZ_lit, psZ_setTrace, psZ_setBoth, psZ_setPrec])
    all_goals (try (split <;> simp_all [psZ_next, psZ_expectToken, psZ_expectSemi, psZ_addError, psZ_push, psZ_pop, exprZ, stmtZ, exprListZ, stmtListZ, propListZ, exprListZ_snoc, stmtListZ_snoc, propListZ_snoc, exprZ_isNone, stmtZ_isNone, identZ, tokZ_type, tokZ_lit, psZ_setTrace, psZ_setBoth, psZ_setPrec]))
    all_goals (try (split <;> simp_all [psZ_next, psZ_expectToken, psZ_expectSemi, psZ_addError, psZ_push, psZ_pop, exprZ, stmtZ, exprListZ, stmtListZ, propListZ, exprListZ_snoc, stmtListZ_snoc, propListZ_snoc, exprZ_isNone, stmtZ_isNone, identZ, tokZ_type, tokZ_lit, psZ_setTrace, psZ_setBoth, psZ_setPrec]))
    all_goals (try (intros; first | omega | (exfalso; simp_all; done) | (simp_all; omega)))
  · -- parsePrefixExpression
    intro pE pL pFE pO ih_pE ih_pL ih_pFE ih_pO  st r h
    replace ih_pE := curry3 ih_pE; replace ih_pL := curry2 ih_pL; replace ih_pFE := curry1 ih_pFE; replace ih_pO := curry1 ih_pO
    dsimp only at ih_pE ih_pL ih_pFE ih_pO ⊢
    obtain ⟨x, st'⟩ := r
    have hparams := pos_parseFunctionParameters
    pdecompW h [ih_pE, ih_pL, ih_pFE, ih_pO, hparams]
    all_goals (rw [parsePrefixExpression]; simp_all [psZ_next, psZ_expectToken, psZ_expectSemi, psZ_addError, psZ_push, psZ_pop, exprZ, stmtZ, exprListZ, stmtListZ, propListZ, exprListZ_snoc, stmtListZ_snoc, propListZ_snoc, exprZ_isNone, stmtZ_isNone, identZ, tokZ_type, tokZ_lit, psZ_setTrace, psZ_setBoth, psZ_setPrec])
    all_goals (try (split <;> simp_all [psZ_next, psZ_expectToken, psZ_expectSemi, psZ_addError, psZ_push, psZ_pop, exprZ, stmtZ, exprListZ, stmtListZ, propListZ, exprListZ_snoc, stmtListZ_snoc, propListZ_snoc, exprZ_isNone, stmtZ_isNone, identZ, tokZ_type, tokZ_lit, psZ_setTrace, psZ_setBoth, psZ_setPrec]))
    all_goals (try (split <;> simp_all [psZ_next, psZ_expectToken, psZ_expectSemi, psZ_addError, psZ_push, psZ_pop, exprZ, stmtZ, exprListZ, stmtListZ, propListZ, exprListZ_snoc, stmtListZ_snoc, propListZ_snoc, exprZ_isNone, stmtZ_isNone, identZ, tokZ_type, tokZ_lit, psZ_setTrace, psZ_setBoth, psZ_setPrec]))
    all_goals (try (intros; first | omega | (exfalso; simp_all; done) | (simp_all; omega)))
  · -- parseFunctionExpression
    intro pB ih_pB  st r h
    replace ih_pB := curry1 ih_pB
    dsimp only at ih_pB ⊢
    obtain ⟨x, st'⟩ := r
    have hparams := pos_parseFunctionParameters
    pdecompW h [ih_pB, hparams]
    all_goals (rw [parseFunctionExpression]; simp_all [psZ_next, psZ_expectToken, psZ_expectSemi, psZ_addError, psZ_push, psZ_pop, exprZ, stmtZ, exprListZ, stmtListZ, propListZ, exprListZ_snoc, stmtListZ_snoc, propListZ_snoc, exprZ_isNone, stmtZ_isNone, identZ, tokZ_type, tokZ_lit, psZ_setTrace, psZ_setBoth, psZ_setPrec])
    all_goals (try (split <;> simp_all [psZ_next, psZ_expectToken, psZ_expectSemi, psZ_addError, psZ_push, psZ_pop, exprZ, stmtZ, exprListZ, stmtListZ, propListZ, exprListZ_snoc, stmtListZ_snoc, propListZ_snoc, exprZ_isNone, stmtZ_isNone, identZ, tokZ_type, tokZ_lit, psZ_setTrace, psZ_setBoth, psZ_setPrec]))
    all_goals (try (split <;> simp_all [psZ_next, psZ_expectToken, psZ_expectSemi, psZ_addError, psZ_push, psZ_pop, exprZ, stmtZ, exprListZ, stmtListZ, propListZ, exprListZ_snoc, stmtListZ_snoc, propListZ_snoc, exprZ_isNone, stmtZ_isNone, identZ, tokZ_type, tokZ_lit, psZ_setTrace, psZ_setBoth, psZ_setPrec]))
    all_goals (try (intros; first | omega | (exfalso; simp_all; done) | (simp_all; omega)))
  · -- parseBlockStatement
    intro bL ih_bL  st r h
    replace ih_bL := curry2 ih_bL
    dsimp only at ih_bL ⊢
    obtain ⟨x, st'⟩ := r
    have hparams := pos_parseFunctionParameters
    pdecompW h [ih_bL, hparams]
    all_goals (rw [parseBlockStatement]; simp_all [psZ_next, psZ_expectToken, psZ_expectSemi, psZ_addError, psZ_push, psZ_pop, exprZ, stmtZ, exprListZ, stmtListZ, propListZ, exprListZ_snoc, stmtListZ_snoc, propListZ_snoc, exprZ_isNone, stmtZ_isNone, identZ, tokZ_type, tokZ_lit, psZ_setTrace, psZ_setBoth, psZ_setPrec])
    all_goals (try (split <;> simp_all [psZ_next, psZ_expectToken, psZ_expectSemi, psZ_addError, psZ_push, psZ_pop, exprZ, stmtZ, exprListZ, stmtListZ, propListZ, exprListZ_snoc, stmtListZ_snoc, propListZ_snoc, exprZ_isNone, stmtZ_isNone, identZ, tokZ_type, tokZ_lit, psZ_setTrace, psZ_setBoth, psZ_setPrec]))
    all_goals (try (split <;> simp_all [psZ_next, psZ_expectToken, psZ_expectSemi, psZ_addError, psZ_push, psZ_pop, exprZ, stmtZ, exprListZ, stmtListZ, propListZ, exprListZ_snoc, stmtListZ_snoc, propListZ_snoc, exprZ_isNone, stmtZ_isNone, identZ, tokZ_type, tokZ_lit, psZ_setTrace, psZ_setBoth, psZ_setPrec]))
    all_goals (try (intros; first | omega | (exfalso; simp_all; done) | (simp_all; omega)))
  · -- blockLoop
    intro pS bL ih_pS ih_bL acc st r h
    replace ih_pS := curry2 ih_pS; replace ih_bL := curry2 ih_bL
    dsimp only at ih_pS ih_bL ⊢
    obtain ⟨x, st'⟩ := r
    have hparams := pos_parseFunctionParameters
    pdecompW h [ih_pS, ih_bL, hparams]
    all_goals (rw [blockLoop]; simp_all [psZ_next, psZ_expectToken, psZ_expectSemi, psZ_addError, psZ_push, psZ_pop, exprZ, stmtZ, exprListZ, stmtListZ, propListZ, exprListZ_snoc, stmtListZ_snoc, propListZ_snoc, exprZ_isNone, stmtZ_isNone, identZ, tokZ_type, tokZ_lit, psZ_setTrace, psZ_setBoth, psZ_setPrec])
    all_goals (try (split <;> simp_all [psZ_next, psZ_expectToken, psZ_expectSemi, psZ_addError, psZ_push, psZ_pop, exprZ, stmtZ, exprListZ, stmtListZ, propListZ, exprListZ_snoc, stmtListZ_snoc, propListZ_snoc, exprZ_isNone, stmtZ_isNone, identZ, tokZ_type, tokZ_lit, psZ_setTrace, psZ_setBoth, psZ_setPrec]))
    all_goals (try (split <;> simp_all [psZ_next, psZ_expectToken, psZ_expectSemi, psZ_addError, psZ_push, psZ_pop, exprZ, stmtZ, exprListZ, stmtListZ, propListZ, exprListZ_snoc, stmtListZ_snoc, propListZ_snoc, exprZ_isNone, stmtZ_isNone, identZ, tokZ_type, tokZ_lit, psZ_setTrace, psZ_setBoth, psZ_setPrec]))
    all_goals (try (intros; first | omega | (exfalso; simp_all; done) | (simp_all; omega)))
  · -- parseObjectLiteral
    intro oL ih_oL  st r h
    replace ih_oL := curry2 ih_oL
    dsimp only at ih_oL ⊢
    obtain ⟨x, st'⟩ := r
    have hparams := pos_parseFunctionParameters
    pdecompW h [ih_oL, hparams]
    all_goals (rw [parseObjectLiteral]; simp_all [psZ_next, psZ_expectToken, psZ_expectSemi, psZ_addError, psZ_push, psZ_pop, exprZ, stmtZ, exprListZ, stmtListZ, propListZ, exprListZ_snoc, stmtListZ_snoc, propListZ_snoc, exprZ_isNone, stmtZ_isNone, identZ, tokZ_type, tokZ_lit, psZ_setTrace, psZ_setBoth, psZ_setPrec])
    all_goals (try (split <;> simp_all [psZ_next, psZ_expectToken, psZ_expectSemi, psZ_addError, psZ_push, psZ_pop, exprZ, stmtZ, exprListZ, stmtListZ, propListZ, exprListZ_snoc, stmtListZ_snoc, propListZ_snoc, exprZ_isNone, stmtZ_isNone, identZ, tokZ_type, tokZ_lit, psZ_setTrace, psZ_setBoth, psZ_setPrec]))
    all_goals (try (split <;> simp_all [psZ_next, psZ_expectToken, psZ_expectSemi, psZ_addError, psZ_push, psZ_pop, exprZ, stmtZ, exprListZ, stmtListZ, propListZ, exprListZ_snoc, stmtListZ_snoc, propListZ_snoc, exprZ_isNone, stmtZ_isNone, identZ, tokZ_type, tokZ_lit, psZ_setTrace, psZ_setBoth, psZ_setPrec]))
    all_goals (try (intros; first | omega | (exfalso; simp_all; done) | (simp_all; omega)))
  · -- objectLoop
    intro pE oL ih_pE ih_oL acc st r h
    replace ih_pE := curry3 ih_pE; replace ih_oL := curry2 ih_oL
    dsimp only at ih_pE ih_oL ⊢
    obtain ⟨x, st'⟩ := r
    have hparams := pos_parseFunctionParameters
    pdecompW h [ih_pE, ih_oL, hparams]
    all_goals (rw [objectLoop]; simp_all [psZ_next, psZ_expectToken, psZ_expectSemi, psZ_addError, psZ_push, psZ_pop, exprZ, stmtZ, exprListZ, stmtListZ, propListZ, exprListZ_snoc, stmtListZ_snoc, propListZ_snoc, exprZ_isNone, stmtZ_isNone, identZ, tokZ_type, tokZ_lit, psZ_setTrace, psZ_setBoth, psZ_setPrec])
    all_goals (try (split <;> simp_all [psZ_next, psZ_expectToken, psZ_expectSemi, psZ_addError, psZ_push, psZ_pop, exprZ, stmtZ, exprListZ, stmtListZ, propListZ, exprListZ_snoc, stmtListZ_snoc, propListZ_snoc, exprZ_isNone, stmtZ_isNone, identZ, tokZ_type, tokZ_lit, psZ_setTrace, psZ_setBoth, psZ_setPrec]))
    all_goals (try (split <;> simp_all [psZ_next, psZ_expectToken, psZ_expectSemi, psZ_addError, psZ_push, psZ_pop, exprZ, stmtZ, exprListZ, stmtListZ, propListZ, exprListZ_snoc, stmtListZ_snoc, propListZ_snoc, exprZ_isNone, stmtZ_isNone, identZ, tokZ_type, tokZ_lit, psZ_setTrace, psZ_setBoth, psZ_setPrec]))
    all_goals (try (intros; first | omega | (exfalso; simp_all; done) | (simp_all; omega)))
  · -- parseForStatement
    intro pS pE pFI ih_pS ih_pE ih_pFI  st r h
    replace ih_pS := curry2 ih_pS; replace ih_pE := curry3 ih_pE; replace ih_pFI := curry1 ih_pFI
    dsimp only at ih_pS ih_pE ih_pFI ⊢
    obtain ⟨x, st'⟩ := r
    have hparams := pos_parseFunctionParameters
    pdecompW h [ih_pS, ih_pE, ih_pFI, hparams]
    all_goals (rw [parseForStatement]; simp_all [psZ_next, psZ_expectToken, psZ_expectSemi, psZ_addError, psZ_push, psZ_pop, exprZ, stmtZ, exprListZ, stmtListZ, propListZ, exprListZ_snoc, stmtListZ_snoc, propListZ_snoc, exprZ_isNone, stmtZ_isNone, identZ, tokZ_type, tokZ_lit, psZ_setTrace, psZ_setBoth, psZ_setPrec])
    all_goals (try (split <;> simp_all [psZ_next, psZ_expectToken, psZ_expectSemi, psZ_addError, psZ_push, psZ_pop, exprZ, stmtZ, exprListZ, stmtListZ, propListZ, exprListZ_snoc, stmtListZ_snoc, propListZ_snoc, exprZ_isNone, stmtZ_isNone, identZ, tokZ_type, tokZ_lit, psZ_setTrace, psZ_setBoth, psZ_setPrec]))
    all_goals (try (split <;> simp_all [psZ_next, psZ_expectToken, psZ_expectSemi, psZ_addError, psZ_push, psZ_pop, exprZ, stmtZ, exprListZ, stmtListZ, propListZ, exprListZ_snoc, stmtListZ_snoc, propListZ_snoc, exprZ_isNone, stmtZ_isNone, identZ, tokZ_type, tokZ_lit, psZ_setTrace, psZ_setBoth, psZ_setPrec]))
    all_goals (try (intros; first | omega | (exfalso; simp_all; done) | (simp_all; omega)))
  · -- parseForInit
    intro pE pLE ih_pE ih_pLE  st r h
    replace ih_pE := curry3 ih_pE; replace ih_pLE := curry1 ih_pLE
    dsimp only at ih_pE ih_pLE ⊢
    obtain ⟨x, st'⟩ := r
    have hparams := pos_parseFunctionParameters
    pdecompW h [ih_pE, ih_pLE, hparams]
    all_goals (rw [parseForInit]; simp_all [psZ_next, psZ_expectToken, psZ_expectSemi, psZ_addError, psZ_push, psZ_pop, exprZ, stmtZ, exprListZ, stmtListZ, propListZ, exprListZ_snoc, stmtListZ_snoc, propListZ_snoc, exprZ_isNone, stmtZ_isNone, identZ, tokZ_type, tokZ_lit, psZ_setTrace, psZ_setBoth, psZ_setPrec])
    all_goals (try (split <;> simp_all [psZ_next, psZ_expectToken, psZ_expectSemi, psZ_addError, psZ_push, psZ_pop, exprZ, stmtZ, exprListZ, stmtListZ, propListZ, exprListZ_snoc, stmtListZ_snoc, propListZ_snoc, exprZ_isNone, stmtZ_isNone, identZ, tokZ_type, tokZ_lit, psZ_setTrace, psZ_setBoth, psZ_setPrec]))
    all_goals (try (split <;> simp_all [psZ_next, psZ_expectToken, psZ_expectSemi, psZ_addError, psZ_push, psZ_pop, exprZ, stmtZ, exprListZ, stmtListZ, propListZ, exprListZ_snoc, stmtListZ_snoc, propListZ_snoc, exprZ_isNone, stmtZ_isNone, identZ, tokZ_type, tokZ_lit, psZ_setTrace, psZ_setBoth, psZ_setPrec]))
    all_goals (try (intros; first | omega | (exfalso; simp_all; done) | (simp_all; omega)))
  · -- parseLetExpression
    intro pE ih_pE  st r h
    replace ih_pE := curry3 ih_pE
    dsimp only at ih_pE ⊢
    obtain ⟨x, st'⟩ := r
    have hparams := pos_parseFunctionParameters
    pdecompW h [ih_pE, hparams]
    all_goals (rw [parseLetExpression]; simp_all [psZ_next, psZ_expectToken, psZ_expectSemi, psZ_addError, psZ_push, psZ_pop, exprZ, stmtZ, exprListZ, stmtListZ, propListZ, exprListZ_snoc, stmtListZ_snoc, propListZ_snoc, exprZ_isNone, stmtZ_isNone, identZ, tokZ_type, tokZ_lit, psZ_setTrace, psZ_setBoth, psZ_setPrec])
    all_goals (try (split <;> simp_all [psZ_next, psZ_expectToken, psZ_expectSemi, psZ_addError, psZ_push, psZ_pop, exprZ, stmtZ, exprListZ, stmtListZ, propListZ, exprListZ_snoc, stmtListZ_snoc, propListZ_snoc, exprZ_isNone, stmtZ_isNone, identZ, tokZ_type, tokZ_lit, psZ_setTrace, psZ_setBoth, psZ_setPrec]))
    all_goals (try (split <;> simp_all [psZ_next, psZ_expectToken, psZ_expectSemi, psZ_addError, psZ_push, psZ_pop, exprZ, stmtZ, exprListZ, stmtListZ, propListZ, exprListZ_snoc, stmtListZ_snoc, propListZ_snoc, exprZ_isNone, stmtZ_isNone, identZ, tokZ_type, tokZ_lit, psZ_setTrace, psZ_setBoth, psZ_setPrec]))
    all_goals (try (intros; first | omega | (exfalso; simp_all; done) | (simp_all; omega)))
  · -- parseWhileStatement
    intro pS pE ih_pS ih_pE  st r h
    replace ih_pS := curry2 ih_pS; replace ih_pE := curry3 ih_pE
    dsimp only at ih_pS ih_pE ⊢
    obtain ⟨x, st'⟩ := r
    have hparams := pos_parseFunctionParameters
    pdecompW h [ih_pS, ih_pE, hparams]
    all_goals (rw [parseWhileStatement]; simp_all [psZ_next, psZ_expectToken, psZ_expectSemi, psZ_addError, psZ_push, psZ_pop, exprZ, stmtZ, exprListZ, stmtListZ, propListZ, exprListZ_snoc, stmtListZ_snoc, propListZ_snoc, exprZ_isNone, stmtZ_isNone, identZ, tokZ_type, tokZ_lit, psZ_setTrace, psZ_setBoth, psZ_setPrec])
    all_goals (try (split <;> simp_all [psZ_next, psZ_expectToken, psZ_expectSemi, psZ_addError, psZ_push, psZ_pop, exprZ, stmtZ, exprListZ, stmtListZ, propListZ, exprListZ_snoc, stmtListZ_snoc, propListZ_snoc, exprZ_isNone, stmtZ_isNone, identZ, tokZ_type, tokZ_lit, psZ_setTrace, psZ_setBoth, psZ_setPrec]))
    all_goals (try (split <;> simp_all [psZ_next, psZ_expectToken, psZ_expectSemi, psZ_addError, psZ_push, psZ_pop, exprZ, stmtZ, exprListZ, stmtListZ, propListZ, exprListZ_snoc, stmtListZ_snoc, propListZ_snoc, exprZ_isNone, stmtZ_isNone, identZ, tokZ_type, tokZ_lit, psZ_setTrace, psZ_setBoth, psZ_setPrec]))
    all_goals (try (intros; first | omega | (exfalso; simp_all; done) | (simp_all; omega)))
  · -- parseIfStatement
    intro pS pE ih_pS ih_pE  st r h
    replace ih_pS := curry2 ih_pS; replace ih_pE := curry3 ih_pE
    dsimp only at ih_pS ih_pE ⊢
    obtain ⟨x, st'⟩ := r
    have hparams := pos_parseFunctionParameters
    pdecompW h [ih_pS, ih_pE, hparams]
    all_goals (rw [parseIfStatement]; simp_all [psZ_next, psZ_expectToken, psZ_expectSemi, psZ_addError, psZ_push, psZ_pop, exprZ, stmtZ, exprListZ, stmtListZ, propListZ, exprListZ_snoc, stmtListZ_snoc, propListZ_snoc, exprZ_isNone, stmtZ_isNone, identZ, tokZ_type, tokZ_lit, psZ_setTrace, psZ_setBoth, psZ_setPrec])
    all_goals (try (split <;> simp_all [psZ_next, psZ_expectToken, psZ_expectSemi, psZ_addError, psZ_push, psZ_pop, exprZ, stmtZ, exprListZ, stmtListZ, propListZ, exprListZ_snoc, stmtListZ_snoc, propListZ_snoc, exprZ_isNone, stmtZ_isNone, identZ, tokZ_type, tokZ_lit, psZ_setTrace, psZ_setBoth, psZ_setPrec]))
    all_goals (try (split <;> simp_all [psZ_next, psZ_expectToken, psZ_expectSemi, psZ_addError, psZ_push, psZ_pop, exprZ, stmtZ, exprListZ, stmtListZ, propListZ, exprListZ_snoc, stmtListZ_snoc, propListZ_snoc, exprZ_isNone, stmtZ_isNone, identZ, tokZ_type, tokZ_lit, psZ_setTrace, psZ_setBoth, psZ_setPrec]))
    all_goals (try (intros; first | omega | (exfalso; simp_all; done) | (simp_all; omega)))
  · -- parseReturnStatement
    intro pE ih_pE  st r h
    replace ih_pE := curry3 ih_pE
    dsimp only at ih_pE ⊢
    obtain ⟨x, st'⟩ := r
    have hparams := pos_parseFunctionParameters
    pdecompW h [ih_pE, hparams]
    all_goals (rw [parseReturnStatement]; simp_all [psZ_next, psZ_expectToken, psZ_expectSemi, psZ_addError, psZ_push, psZ_pop, exprZ, stmtZ, exprListZ, stmtListZ, propListZ, exprListZ_snoc, stmtListZ_snoc, propListZ_snoc, exprZ_isNone, stmtZ_isNone, identZ, tokZ_type, tokZ_lit, psZ_setTrace, psZ_setBoth, psZ_setPrec])
    all_goals (try (split <;> simp_all [psZ_next, psZ_expectToken, psZ_expectSemi, psZ_addError, psZ_push, psZ_pop, exprZ, stmtZ, exprListZ, stmtListZ, propListZ, exprListZ_snoc, stmtListZ_snoc, propListZ_snoc, exprZ_isNone, stmtZ_isNone, identZ, tokZ_type, tokZ_lit, psZ_setTrace, psZ_setBoth, psZ_setPrec]))
    all_goals (try (split <;> simp_all [psZ_next, psZ_expectToken, psZ_expectSemi, psZ_addError, psZ_push, psZ_pop, exprZ, stmtZ, exprListZ, stmtListZ, propListZ, exprListZ_snoc, stmtListZ_snoc, propListZ_snoc, exprZ_isNone, stmtZ_isNone, identZ, tokZ_type, tokZ_lit, psZ_setTrace, psZ_setBoth, psZ_setPrec]))
    all_goals (try (intros; first | omega | (exfalso; simp_all; done) | (simp_all; omega)))
  · -- parseFunctionStatement
    intro pB ih_pB  st r h
    replace ih_pB := curry1 ih_pB
    dsimp only at ih_pB ⊢
    obtain ⟨x, st'⟩ := r
    have hparams := pos_parseFunctionParameters
    pdecompW h [ih_pB, hparams]
    all_goals (rw [parseFunctionStatement]; simp_all [psZ_next, psZ_expectToken, psZ_expectSemi, psZ_addError, psZ_push, psZ_pop, exprZ, stmtZ, exprListZ, stmtListZ, propListZ, exprListZ_snoc, stmtListZ_snoc, propListZ_snoc, exprZ_isNone, stmtZ_isNone, identZ, tokZ_type, tokZ_lit, psZ_setTrace, psZ_setBoth, psZ_setPrec])
    all_goals (try (split <;> simp_all [psZ_next, psZ_expectToken, psZ_expectSemi, psZ_addError, psZ_push, psZ_pop, exprZ, stmtZ, exprListZ, stmtListZ, propListZ, exprListZ_snoc, stmtListZ_snoc, propListZ_snoc, exprZ_isNone, stmtZ_isNone, identZ, tokZ_type, tokZ_lit, psZ_setTrace, psZ_setBoth, psZ_setPrec]))
    all_goals (try (split <;> simp_all [psZ_next, psZ_expectToken, psZ_expectSemi, psZ_addError, psZ_push, psZ_pop, exprZ, stmtZ, exprListZ, stmtListZ, propListZ, exprListZ_snoc, stmtListZ_snoc, propListZ_snoc, exprZ_isNone, stmtZ_isNone, identZ, tokZ_type, tokZ_lit, psZ_setTrace, psZ_setBoth, psZ_setPrec]))
    all_goals (try (intros; first | omega | (exfalso; simp_all; done) | (simp_all; omega)))
  · -- parseLetStatement
    intro pE ih_pE  st r h
    replace ih_pE := curry3 ih_pE
    dsimp only at ih_pE ⊢
    obtain ⟨x, st'⟩ := r
    have hparams := pos_parseFunctionParameters
    pdecompW h [ih_pE, hparams]
    all_goals (rw [parseLetStatement]; simp_all [psZ_next, psZ_expectToken, psZ_expectSemi, psZ_addError, psZ_push, psZ_pop, exprZ, stmtZ, exprListZ, stmtListZ, propListZ, exprListZ_snoc, stmtListZ_snoc, propListZ_snoc, exprZ_isNone, stmtZ_isNone, identZ, tokZ_type, tokZ_lit, psZ_setTrace, psZ_setBoth, psZ_setPrec])
    all_goals (try (split <;> simp_all [psZ_next, psZ_expectToken, psZ_expectSemi, psZ_addError, psZ_push, psZ_pop, exprZ, stmtZ, exprListZ, stmtListZ, propListZ, exprListZ_snoc, stmtListZ_snoc, propListZ_snoc, exprZ_isNone, stmtZ_isNone, identZ, tokZ_type, tokZ_lit, psZ_setTrace, psZ_setBoth, psZ_setPrec]))
    all_goals (try (split <;> simp_all [psZ_next, psZ_expectToken, psZ_expectSemi, psZ_addError, psZ_push, psZ_pop, exprZ, stmtZ, exprListZ, stmtListZ, propListZ, exprListZ_snoc, stmtListZ_snoc, propListZ_snoc, exprZ_isNone, stmtZ_isNone, identZ, tokZ_type, tokZ_lit, psZ_setTrace, psZ_setBoth, psZ_setPrec]))
    all_goals (try (intros; first | omega | (exfalso; simp_all; done) | (simp_all; omega)))

end Xjs.Pos
