import XjsModel.Model.Lexer
import XjsModel.Spec.StringValue
import XjsModel.Proofs.Utf8Enc
/-
  The lexer's `readString` keeps the value of every string literal: the token value, written between double quotes
  (what the printer does), denotes the same item sequence as the source body between its own delimiters.
  Induction over the derivation of the specification relation `SVR`.
-/
namespace Xjs.SVP
open Xjs Xjs.Spec

theorem hexDigit_model {c a : Nat} (h : hexDigit c = some a) : isHexDigit c = true ∧ hexVal c = a := by
  unfold hexDigit at h
  unfold isHexDigit hexVal
  by_cases h1 : 48 ≤ c ∧ c ≤ 57
  · rw [if_pos h1] at h ⊢; cases h; simp [h1.1, h1.2]
  · rw [if_neg h1] at h ⊢
    by_cases h2 : 97 ≤ c ∧ c ≤ 102
    · rw [if_pos h2] at h ⊢; cases h
      refine ⟨by simp [h2.1, h2.2], by omega⟩
    · rw [if_neg h2] at h ⊢
      by_cases h3 : 65 ≤ c ∧ c ≤ 70
      · rw [if_pos h3] at h ⊢; cases h
        refine ⟨by simp [h3.1, h3.2], by omega⟩
      · rw [if_neg h3] at h; cases h

/-- raw bytes that are no quote, backslash or line terminator denote themselves -/
theorem raw_bytes (bs : Bytes) (X : Bytes) (is : List Item)
    (h : ∀ b ∈ bs, b ≠ 34 ∧ b ≠ 92 ∧ b ≠ 10 ∧ b ≠ 13) (hX : SVR 34 X is) : SVR 34 (bs ++ X) (bs.map .byte ++ is) := by
  induction bs with
  | nil => exact hX
  | cons b bs ih =>
    have hb := h b (by simp)
    exact .raw b _ _ hb.1 hb.2.1 hb.2.2.1 hb.2.2.2 (ih (fun x hx => h x (by simp [hx])))

/-- a decoded code point, written as its UTF-8 bytes, denotes what the escape denoted -/
theorem decoded_items (v : Nat) (hv : v ≤ 0x10FFFF) (hk : keepEscaped v = false) (X : Bytes) (is : List Item)
    (hX : SVR 34 X is) : SVR 34 (encodeUTF8 v ++ X) (cpItems v ++ is) := by
  have hs : ¬ (0xD800 ≤ v ∧ v ≤ 0xDFFF) := by
    intro h; rw [C07.surrogates_stay_escaped v h] at hk; cases hk
  have hh := C07.decoded_escape_is_harmless v hv hk
  have he := C07.encodeUTF8_is_utf8 v hv
  unfold cpItems; rw [if_neg hs, ← he]
  refine raw_bytes _ _ _ ?_ hX
  intro b hb
  have := hh b hb
  unfold C07.structural at this
  simp only [Bool.or_eq_false_iff, beq_eq_false_iff_ne, ne_eq] at this
  exact ⟨this.1.1.1.1, this.1.1.1.2, this.1.1.2, this.1.2⟩

/-- the first byte after a rewrite step: unchanged, or neither a line feed nor a decimal digit -/
def HeadOk (out body : Bytes) : Prop :=
  out.headD 0 = body.headD 0 ∨ (out.headD 0 ≠ 10 ∧ isDecimalDigit (out.headD 0) = false)

/-- … and starts neither with a line feed nor with a decimal digit -/
theorem decoded_head (v : Nat) (hv : v ≤ 0x10FFFF) (hk : keepEscaped v = false) (X body : Bytes) :
    HeadOk (encodeUTF8 v ++ X) body := by
  have hh := C07.decoded_escape_is_harmless v hv hk
  have he := C07.encodeUTF8_is_utf8 v hv
  have hne : encodeUTF8 v ≠ [] := by rw [he]; unfold utf8Encode; split <;> (try split) <;> (try split) <;> simp
  obtain ⟨b, bs, hb⟩ := List.exists_cons_of_ne_nil hne
  have := hh b (by rw [hb]; simp)
  rw [hb]
  unfold C07.structural at this
  simp only [Bool.or_eq_false_iff, beq_eq_false_iff_ne, ne_eq] at this
  right
  exact ⟨by simpa using this.1.1.2, by simpa [isDecimalDigit] using this.2⟩

theorem headOk_same (c : Nat) (X Y : Bytes) : HeadOk (c :: X) (c :: Y) := Or.inl rfl

/-! ### one step of `readString` on each shape of input -/

theorem step_end (d f : Nat) (rest acc : Bytes) (n : Nat) (h0 : d ≠ 0) (h92 : d ≠ 92) :
    scanString d (f + 1) (d :: rest) acc n = (acc, n) := by
  simp [scanString, h0, h92]

theorem step_raw (d f c : Nat) (r acc : Bytes) (n : Nat) (h0 : c ≠ 0) (h92 : c ≠ 92) (hd : c ≠ d) :
    scanString d (f + 1) (c :: r) acc n = scanString d f r (acc ++ (if c == 34 then [92, c] else [c])) (n + 1) := by
  simp [scanString, h0, h92, hd]

theorem step_esc (d f e : Nat) (r acc : Bytes) (n : Nat) (hx : e ≠ 120) (hu : e ≠ 117) :
    scanString d (f + 1) (92 :: e :: r) acc n = scanString d f r (acc ++ [92, e]) (n + 2) := by
  simp [scanString, hx, hu]

theorem step_hex (d f h1 h2 : Nat) (r acc : Bytes) (n : Nat) (a1 : isHexDigit h1 = true) (a2 : isHexDigit h2 = true) :
    scanString d (f + 1) (92 :: 120 :: h1 :: h2 :: r) acc n =
      scanString d f r (acc ++ (if keepEscaped (hexVal h1 * 16 + hexVal h2) then [92, 120, h1, h2]
        else encodeUTF8 (hexVal h1 * 16 + hexVal h2))) (n + 4) := by
  simp [scanString, a1, a2]

theorem step_u4 (d f h1 h2 h3 h4 : Nat) (r acc : Bytes) (n : Nat) (a1 : isHexDigit h1 = true) (a2 : isHexDigit h2 = true)
    (a3 : isHexDigit h3 = true) (a4 : isHexDigit h4 = true) :
    scanString d (f + 1) (92 :: 117 :: h1 :: h2 :: h3 :: h4 :: r) acc n =
      scanString d f r (acc ++ (if keepEscaped (hexVal h1 * 4096 + hexVal h2 * 256 + hexVal h3 * 16 + hexVal h4)
        then [92, 117, h1, h2, h3, h4]
        else encodeUTF8 (hexVal h1 * 4096 + hexVal h2 * 256 + hexVal h3 * 16 + hexVal h4))) (n + 6) := by
  have hb : (h1 == 123) = false := by
    unfold isHexDigit at a1
    simp only [Bool.or_eq_true, Bool.and_eq_true, decide_eq_true_eq] at a1
    simp; omega
  simp [scanString, a1, a2, a3, a4, hb]

theorem braceDigits (ds : Bytes) (hds : ∀ c ∈ ds, isHexDigit c = true) :
    ∀ (fuel : Nat) (acc r : Bytes), ds.length < fuel → acc.length + ds.length ≤ 6 →
      scanBraceDigits fuel (ds ++ 125 :: r) acc = (acc ++ ds, true, ds.length + 1) := by
  induction ds with
  | nil =>
    intro fuel acc r hf _
    cases fuel with
    | zero => omega
    | succ f => simp [scanBraceDigits]
  | cons c ds ih =>
    intro fuel acc r hf hl
    cases fuel with
    | zero => omega
    | succ f =>
      have hc := hds c (by simp)
      have hne : (c == 125) = false := by
        unfold isHexDigit at hc
        simp only [Bool.or_eq_true, Bool.and_eq_true, decide_eq_true_eq] at hc
        simp; omega
      have hlen : ¬ (6 ≤ acc.length) := by simp at hl; omega
      simp only [List.cons_append, scanBraceDigits, hne, Bool.false_eq_true, if_false, hc, Bool.not_true, Bool.false_or,
        decide_eq_true_eq, ge_iff_le, hlen]
      rw [ih (fun x hx => hds x (by simp [hx])) f (acc ++ [c]) r (by simp at hf; omega) (by simp at hl ⊢; omega)]
      simp

theorem hexNumber_model (ds : Bytes) : ∀ (v a : Nat),
    ds.foldl (fun acc d => acc.bind fun a => (hexDigit d).map fun x => a * 16 + x) (some a) = some v →
    (∀ c ∈ ds, isHexDigit c = true) ∧ ds.foldl (fun v d => v * 16 + hexVal d) a = v := by
  induction ds with
  | nil => intro v a h; simp at h; subst h; simp
  | cons c ds ih =>
    intro v a h
    simp only [List.foldl_cons, Option.bind_some] at h
    cases hc : hexDigit c with
    | none =>
      rw [hc] at h
      simp only [Option.map_none] at h
      have : ∀ (l : Bytes), l.foldl (fun acc d => acc.bind fun a => (hexDigit d).map fun x => a * 16 + x) none = none := by
        intro l; induction l with
        | nil => rfl
        | cons x l ih => simp [ih]
      rw [this] at h; cases h
    | some x =>
      rw [hc] at h
      simp only [Option.map_some] at h
      obtain ⟨h1, h2⟩ := ih v _ h
      have hm := hexDigit_model hc
      refine ⟨?_, ?_⟩
      · intro y hy
        simp only [List.mem_cons] at hy
        rcases hy with rfl | hy
        · exact hm.1
        · exact h1 y hy
      · simp only [List.foldl_cons, hm.2]; exact h2

theorem step_ub (d f : Nat) (ds r acc : Bytes) (n : Nat) (hds : ∀ c ∈ ds, isHexDigit c = true) (h1 : ds ≠ [])
    (h6 : ds.length ≤ 6) (hv : hexValue ds ≤ 0x10FFFF) :
    scanString d (f + 1) (92 :: 117 :: 123 :: ds ++ 125 :: r) acc n =
      scanString d f r (acc ++ (if keepEscaped (hexValue ds) then [92, 117, 123] ++ ds ++ [125] else encodeUTF8 (hexValue ds)))
        (n + 3 + (ds.length + 1)) := by
  have hb : ∀ fuel, ds.length < fuel → scanBraceDigits fuel (ds ++ 125 :: r) [] = (ds, true, ds.length + 1) := by
    intro fuel hf
    have := braceDigits ds hds fuel [] r hf (by simpa using h6)
    simpa using this
  have hl : ¬ (ds.length = 0) := by
    intro h; exact h1 (List.eq_nil_of_length_eq_zero h)
  have hl6 : ¬ (6 < ds.length) := by omega
  have hvv : ¬ (0x10FFFF < hexValue ds) := Nat.not_lt.mpr hv
  have hd : List.drop (ds.length + 1) (ds ++ 125 :: r) = r := by
    rw [List.drop_append]
    simp
  simp only [List.cons_append, scanString]
  simp only [beq_self_eq_true, if_true, List.headD_cons, List.drop_succ_cons, List.drop_zero,
    show (92 == 0) = false by decide, show (117 == 120) = false by decide, Bool.false_eq_true, if_false]
  rw [hb _ (by simp; omega)]
  have hd' : List.drop (1 + (ds.length + 1)) (123 :: (ds ++ 125 :: r)) = r := by
    rw [show 1 + (ds.length + 1) = (ds.length + 1) + 1 by omega, List.drop_succ_cons]; exact hd
  simp only [Bool.not_true, Bool.false_or, beq_iff_eq, hl, gt_iff_lt, hl6, decide_false, Bool.or_self,
    Bool.false_eq_true, if_false, hvv, hd', List.nil_append]
  split
  · rename_i h; simp [hl] at h
  · split <;> simp_all

/-! ### the induction -/

/-- what `readString` does on a body followed by its closing delimiter: it consumes exactly the body, and the value
    it returns, read as the body of a double-quoted literal, denotes the same items -/
def Good (d : Nat) (body : Bytes) (items : List Item) : Prop :=
  ∀ (rest : Bytes) (fuel : Nat) (acc : Bytes) (n : Nat), body.length < fuel →
    ∃ out, scanString d fuel (body ++ d :: rest) acc n = (acc ++ out, n + body.length) ∧ SVR 34 out items ∧ HeadOk out body

theorem good_of_step {d : Nat} {chunk r : Bytes} {is_c is : List Item} (outc : Bytes) (hne : chunk ≠ [])
    (hr : Good d r is)
    (hstep : ∀ (rest : Bytes) (f : Nat) (acc : Bytes) (n : Nat),
      scanString d (f + 1) (chunk ++ (r ++ d :: rest)) acc n = scanString d f (r ++ d :: rest) (acc ++ outc) (n + chunk.length))
    (hsv : ∀ X isX, SVR 34 X isX → HeadOk X r → SVR 34 (outc ++ X) (is_c ++ isX))
    (hdig : ∀ X, HeadOk (outc ++ X) (chunk ++ r)) :
    Good d (chunk ++ r) (is_c ++ is) := by
  intro rest fuel acc n hf
  have hl : 1 ≤ chunk.length := by cases chunk with | nil => exact absurd rfl hne | cons _ _ => simp
  cases fuel with
  | zero => omega
  | succ f =>
    obtain ⟨out, h1, h2, h3⟩ := hr rest f (acc ++ outc) (n + chunk.length) (by simp at hf; omega)
    refine ⟨outc ++ out, ?_, hsv out is h2 h3, hdig out⟩
    rw [List.append_assoc, hstep, h1]
    simp [Nat.add_assoc]

theorem good_nil (d : Nat) (h0 : d ≠ 0) (h92 : d ≠ 92) : Good d [] [] := by
  intro rest fuel acc n hf
  cases fuel with
  | zero => omega
  | succ f => exact ⟨[], by simp [step_end d f rest acc n h0 h92], .nil, Or.inl rfl⟩

theorem sv_keeps_value (d : Nat) (hd : d = 34 ∨ d = 39) {body : Bytes} {items : List Item} (h : SVR d body items)
    (hnul : ∀ c ∈ body, c ≠ 0) : Good d body items := by
  have d0 : d ≠ 0 := by rcases hd with rfl | rfl <;> decide
  have d92 : d ≠ 92 := by rcases hd with rfl | rfl <;> decide
  induction h with
  | nil => exact good_nil d d0 d92
  | raw c r is hcd h92 h10 h13 _ ih =>
    have hr := ih (fun x hx => hnul x (by simp [hx]))
    have hc0 := hnul c (by simp)
    have := good_of_step (d := d) (chunk := [c]) (r := r) (is_c := [.byte c]) (is := is)
      (if c == 34 then [92, c] else [c]) (by simp) hr
      (by intro rest f acc n; simpa using step_raw d f c (r ++ d :: rest) acc n hc0 h92 hcd)
      (by
        intro X isX hX _
        by_cases h34 : c = 34
        · subst h34; exact .ident 34 X isX (by decide) hX
        · have : (c == 34) = false := by simpa using h34
          simp only [this, Bool.false_eq_true, if_false]
          exact .raw c X isX h34 h92 h10 h13 hX)
      (by
        intro X
        by_cases h34 : c = 34
        · subst h34; exact Or.inr ⟨by simp, by simp [isDecimalDigit]⟩
        · have : (c == 34) = false := by simpa using h34
          simp only [this, Bool.false_eq_true, if_false]; exact Or.inl rfl)
    simpa using this
  | single e v r is he _ ih =>
    have hr := ih (fun x hx => hnul x (by simp [hx]))
    have hx : e ≠ 120 := by intro h; subst h; simp [singleEscape] at he
    have hu : e ≠ 117 := by intro h; subst h; simp [singleEscape] at he
    have := good_of_step (d := d) (chunk := [92, e]) (r := r) (is_c := [.byte v]) (is := is) [92, e] (by simp) hr
      (by intro rest f acc n; simpa using step_esc d f e (r ++ d :: rest) acc n hx hu)
      (by intro X isX hX _; exact .single e v X isX he hX)
      (by intro X; exact Or.inl rfl)
    simpa using this
  | ident e r is he _ ih =>
    have hr := ih (fun x hx => hnul x (by simp [hx]))
    have hx : e ≠ 120 := by intro h; subst h; simp [identityEscape] at he
    have hu : e ≠ 117 := by intro h; subst h; simp [identityEscape] at he
    have := good_of_step (d := d) (chunk := [92, e]) (r := r) (is_c := [.byte e]) (is := is) [92, e] (by simp) hr
      (by intro rest f acc n; simpa using step_esc d f e (r ++ d :: rest) acc n hx hu)
      (by intro X isX hX _; exact .ident e X isX he hX)
      (by intro X; exact Or.inl rfl)
    simpa using this
  | nul r is hnd _ ih =>
    have hr := ih (fun x hx => hnul x (by simp [hx]))
    have := good_of_step (d := d) (chunk := [92, 48]) (r := r) (is_c := [.byte 0]) (is := is) [92, 48] (by simp) hr
      (by intro rest f acc n; simpa using step_esc d f 48 (r ++ d :: rest) acc n (by decide) (by decide))
      (by
        intro X isX hX hh
        refine .nul X isX ?_ hX
        rcases hh with hh | hh
        · rw [hh]; exact hnd
        · exact hh.2)
      (by intro X; exact Or.inl rfl)
    simpa using this
  | hex h1 h2 a b r is ha hb _ ih =>
    have hr := ih (fun x hx => hnul x (by simp [hx]))
    obtain ⟨a1, a2⟩ := hexDigit_model ha
    obtain ⟨b1, b2⟩ := hexDigit_model hb
    have hv : a * 16 + b ≤ 0x10FFFF := by
      have : a < 16 := by unfold hexDigit at ha; split at ha <;> (try split at ha) <;> (try split at ha) <;> cases ha <;> omega
      have : b < 16 := by unfold hexDigit at hb; split at hb <;> (try split at hb) <;> (try split at hb) <;> cases hb <;> omega
      omega
    have := good_of_step (d := d) (chunk := [92, 120, h1, h2]) (r := r) (is_c := cpItems (a * 16 + b)) (is := is)
      (if keepEscaped (a * 16 + b) then [92, 120, h1, h2] else encodeUTF8 (a * 16 + b)) (by simp) hr
      (by intro rest f acc n; have := step_hex d f h1 h2 (r ++ d :: rest) acc n a1 b1; rw [a2, b2] at this; simpa using this)
      (by
        intro X isX hX _
        cases hk : keepEscaped (a * 16 + b) with
        | true => simpa using SVR.hex h1 h2 a b X isX ha hb hX
        | false => simpa using decoded_items _ hv hk X isX hX)
      (by
        intro X
        cases hk : keepEscaped (a * 16 + b) with
        | true => exact Or.inl rfl
        | false => simpa using decoded_head _ hv hk X _)
    simpa using this
  | u4 h1 h2 h3 h4 a b c e r is ha hb hc he _ ih =>
    have hr := ih (fun x hx => hnul x (by simp [hx]))
    obtain ⟨a1, a2⟩ := hexDigit_model ha
    obtain ⟨b1, b2⟩ := hexDigit_model hb
    obtain ⟨c1, c2⟩ := hexDigit_model hc
    obtain ⟨e1, e2⟩ := hexDigit_model he
    have lt16 : ∀ {x y : Nat}, hexDigit x = some y → y < 16 := by
      intro x y h; unfold hexDigit at h; split at h <;> (try split at h) <;> (try split at h) <;> cases h <;> omega
    have hv : a * 4096 + b * 256 + c * 16 + e ≤ 0x10FFFF := by
      have := lt16 ha; have := lt16 hb; have := lt16 hc; have := lt16 he; omega
    have := good_of_step (d := d) (chunk := [92, 117, h1, h2, h3, h4]) (r := r)
      (is_c := cpItems (a * 4096 + b * 256 + c * 16 + e)) (is := is)
      (if keepEscaped (a * 4096 + b * 256 + c * 16 + e) then [92, 117, h1, h2, h3, h4]
        else encodeUTF8 (a * 4096 + b * 256 + c * 16 + e)) (by simp) hr
      (by
        intro rest f acc n
        have := step_u4 d f h1 h2 h3 h4 (r ++ d :: rest) acc n a1 b1 c1 e1
        rw [a2, b2, c2, e2] at this; simpa using this)
      (by
        intro X isX hX _
        cases hk : keepEscaped (a * 4096 + b * 256 + c * 16 + e) with
        | true => simpa using SVR.u4 h1 h2 h3 h4 a b c e X isX ha hb hc he hX
        | false => simpa using decoded_items _ hv hk X isX hX)
      (by
        intro X
        cases hk : keepEscaped (a * 4096 + b * 256 + c * 16 + e) with
        | true => exact Or.inl rfl
        | false => simpa using decoded_head _ hv hk X _)
    simpa using this
  | ubrace ds v r is hne h6 hv hle _ ih =>
    have hr := ih (fun x hx => hnul x (by simp [hx]))
    have hm : (∀ c ∈ ds, isHexDigit c = true) ∧ hexValue ds = v := by
      cases ds with
      | nil => exact absurd rfl hne
      | cons x xs => exact hexNumber_model (x :: xs) v 0 hv
    obtain ⟨hds, hval⟩ := hm
    have := good_of_step (d := d) (chunk := 92 :: 117 :: 123 :: ds ++ [125]) (r := r) (is_c := cpItems v) (is := is)
      (if keepEscaped v then [92, 117, 123] ++ ds ++ [125] else encodeUTF8 v) (by simp) hr
      (by
        intro rest f acc n
        have := step_ub d f ds (r ++ d :: rest) acc n hds hne h6 (by rw [hval]; exact hle)
        rw [hval] at this
        simp only [List.cons_append, List.append_assoc, List.singleton_append, List.length_cons, List.length_append,
          List.length_nil, List.nil_append] at this ⊢
        rw [this]
        congr 1
        omega)
      (by
        intro X isX hX _
        cases hk : keepEscaped v with
        | true => simpa using SVR.ubrace ds v X isX hne h6 hv hle hX
        | false => simpa using decoded_items _ hle hk X isX hX)
      (by
        intro X
        cases hk : keepEscaped v with
        | true => exact Or.inl rfl
        | false => simpa using decoded_head _ hle hk X _)
    simpa using this
  | contLF r is _ ih =>
    have hr := ih (fun x hx => hnul x (by simp [hx]))
    have := good_of_step (d := d) (chunk := [92, 10]) (r := r) (is_c := []) (is := is) [92, 10] (by simp) hr
      (by intro rest f acc n; simpa using step_esc d f 10 (r ++ d :: rest) acc n (by decide) (by decide))
      (by intro X isX hX _; exact .contLF X isX hX)
      (by intro X; exact Or.inl rfl)
    simpa using this
  | contCRLF r is _ ih =>
    have hr := ih (fun x hx => hnul x (by simp [hx]))
    -- two steps of the lexer: the escape pair `\\` CR, then the LF as an ordinary byte
    intro rest fuel acc n hf
    cases fuel with
    | zero => omega
    | succ f =>
    cases f with
    | zero => simp at hf
    | succ f =>
      obtain ⟨out, e1, e2, e3⟩ := hr rest f (acc ++ [92, 13] ++ [10]) (n + 2 + 1) (by simp at hf; omega)
      refine ⟨92 :: 13 :: 10 :: out, ?_, .contCRLF out is e2, Or.inl rfl⟩
      have d10 : (10 : Nat) ≠ d := by rcases hd with rfl | rfl <;> decide
      have s1 := step_esc d (f + 1) 13 (10 :: (r ++ d :: rest)) acc n (by decide) (by decide)
      have s2 := step_raw d f 10 (r ++ d :: rest) (acc ++ [92, 13]) (n + 2) (by decide) (by decide) d10
      simp only [show ((10 : Nat) == 34) = false by decide, Bool.false_eq_true, if_false] at s2
      simp only [List.cons_append]
      rw [s1, s2, e1]
      simp only [List.append_assoc, List.cons_append, List.nil_append, List.length_cons, Prod.mk.injEq, true_and]
      omega
  | contCR r is hh _ ih =>
    have hr := ih (fun x hx => hnul x (by simp [hx]))
    have := good_of_step (d := d) (chunk := [92, 13]) (r := r) (is_c := []) (is := is) [92, 13] (by simp) hr
      (by intro rest f acc n; simpa using step_esc d f 13 (r ++ d :: rest) acc n (by decide) (by decide))
      (by
        intro X isX hX hk
        refine .contCR X isX ?_ hX
        rcases hk with hk | hk
        · rw [hk]; exact hh
        · exact hk.1)
      (by intro X; exact Or.inl rfl)
    simpa using this

end Xjs.SVP
