import XjsModel.Model.Printer
import XjsModel.Spec.TreeShape
/-
  C11 (e), second half: the printers dereference only mandatory children, so on a complete tree no nil child is
  ever dereferenced (`ok` stays what it was): compiling a complete tree cannot panic, in any configuration.
-/
namespace Xjs

@[simp] theorem ok_flushOne (cw : CW) (c : Nat) : (cw.flushOne c).ok = cw.ok := by
  unfold CW.flushOne CW.rawIndent; split <;> rfl
theorem ok_foldl_flushOne (l : List Nat) (cw : CW) : (l.foldl CW.flushOne cw).ok = cw.ok := by
  induction l generalizing cw with
  | nil => rfl
  | cons a l ih => simp [List.foldl_cons, ih]
@[simp] theorem ok_flushPending (cw : CW) : cw.flushPending.ok = cw.ok := by
  unfold CW.flushPending; simp [ok_foldl_flushOne]
@[simp] theorem ok_mapAdvance (cw : CW) (f : Mapper → Mapper) : (cw.mapAdvance f).ok = cw.ok := by
  unfold CW.mapAdvance; split <;> rfl
@[simp] theorem ok_writeString (cw : CW) (s : Bytes) : (cw.writeString s).ok = cw.ok := by
  unfold CW.writeString; simp
@[simp] theorem ok_writeRune (cw : CW) (r : Nat) : (cw.writeRune r).ok = cw.ok := by
  unfold CW.writeRune; simp
@[simp] theorem ok_writeSemi (cw : CW) : cw.writeSemi.ok = cw.ok := by
  unfold CW.writeSemi; split <;> (try split) <;> simp
@[simp] theorem ok_separateSigns (cw : CW) (op : Bytes) : (cw.separateSigns op).ok = cw.ok := by
  unfold CW.separateSigns
  split
  · rfl
  · split
    · rfl
    · dsimp only; split <;> simp
@[simp] theorem ok_increaseIndent (cw : CW) : cw.increaseIndent.ok = cw.ok := by unfold CW.increaseIndent; split <;> rfl
@[simp] theorem ok_decreaseIndent (cw : CW) : cw.decreaseIndent.ok = cw.ok := by unfold CW.decreaseIndent; split <;> rfl
@[simp] theorem ok_writeIndent (cw : CW) : cw.writeIndent.ok = cw.ok := by
  unfold CW.writeIndent; split <;> (try split) <;> rfl
@[simp] theorem ok_writeNewline (cw : CW) : cw.writeNewline.ok = cw.ok := by unfold CW.writeNewline; split <;> rfl
@[simp] theorem ok_writeSpace (cw : CW) : cw.writeSpace.ok = cw.ok := by
  unfold CW.writeSpace; split <;> (try split) <;> rfl
@[simp] theorem ok_rawIndent (cw : CW) : cw.rawIndent.ok = cw.ok := rfl
theorem ok_commentsLoop (cs : List Bytes) (cw : CW) (first : Bool) : (cw.commentsLoop cs first).ok = cw.ok := by
  induction cs generalizing cw first with
  | nil => rfl
  | cons c rest ih =>
    simp only [CW.commentsLoop]
    rw [ih]
    split <;> (try split) <;> (try split) <;> simp
@[simp] theorem ok_leadingComments (cw : CW) (cs : List Bytes) : (cw.leadingComments cs).ok = cw.ok := by
  unfold CW.leadingComments; split
  · rfl
  · simp [ok_commentsLoop]
@[simp] theorem ok_addMapping (cw : CW) (a b : Nat) : (cw.addMapping a b).ok = cw.ok := by unfold CW.addMapping; simp
@[simp] theorem ok_addNamedMapping (cw : CW) (a b : Nat) (n : Bytes) : (cw.addNamedMapping a b n).ok = cw.ok := by
  unfold CW.addNamedMapping; simp
@[simp] theorem ok_head (cw : CW) (t : Token) : (cw.head t).ok = cw.ok := by unfold CW.head; simp
@[simp] theorem ok_openIf (cw : CW) (b : Bool) : (cw.openIf b).ok = cw.ok := by unfold CW.openIf; split <;> simp
@[simp] theorem ok_closeIf (cw : CW) (b : Bool) : (cw.closeIf b).ok = cw.ok := by unfold CW.closeIf; split <;> simp
@[simp] theorem ok_sepIf (cw : CW) (b : Bool) : (cw.sepIf b).ok = cw.ok := by unfold CW.sepIf; split <;> simp
@[simp] theorem ok_newlineIf (cw : CW) (b : Bool) : (cw.newlineIf b).ok = cw.ok := by unfold CW.newlineIf; split <;> simp
@[simp] theorem ok_writeIdent (id : Ident) (cw : CW) : (writeIdent id cw).ok = cw.ok := by unfold writeIdent; simp
@[simp] theorem ok_writeParams (ps : List Ident) (f : Bool) (cw : CW) : (writeParams ps f cw).ok = cw.ok := by
  induction ps generalizing f cw with
  | nil => rfl
  | cons p rest ih => simp [writeParams, ih]

attribute [local irreducible] CW.openIf CW.closeIf CW.sepIf CW.newlineIf CW.head CW.writeString CW.writeRune CW.writeSemi
  CW.separateSigns CW.increaseIndent CW.decreaseIndent CW.writeIndent CW.writeNewline CW.writeSpace CW.leadingComments
  CW.addMapping CW.addNamedMapping writeIdent writeParams

mutual
  theorem ok_writeExpr : ∀ (e : Expr) (cw : CW), e.complete = true → (writeExpr e cw).ok = cw.ok
    | .none, cw, h => by simp [Expr.complete] at h
    | .ident id, cw, h => by simp [writeExpr]
    | .int tok, cw, h => by simp [writeExpr]
    | .float tok, cw, h => by simp [writeExpr]
    | .str tok v, cw, h => by simp [writeExpr]
    | .raw tok v, cw, h => by simp [writeExpr]
    | .bool tok v, cw, h => by simp [writeExpr]
    | .null tok, cw, h => by simp [writeExpr]
    | .letE tok name v, cw, h => by
      simp only [Expr.complete, Bool.or_eq_true] at h
      simp only [writeExpr]
      split
      · simp
      · rename_i hv
        rcases h with h | h
        · exact absurd h hv
        · rw [ok_writeExpr v _ h]; simp
    | .binary tok l op r, cw, h => by
      simp only [Expr.complete, Bool.and_eq_true] at h
      simp only [writeExpr, Expr.complete_not_none h.1, Expr.complete_not_none h.2, Bool.false_eq_true, if_false]
      rw [ok_closeIf, ok_writeExpr r _ h.2]
      simp [ok_writeExpr l _ h.1]
    | .unary tok op r, cw, h => by
      simp only [Expr.complete] at h
      simp only [writeExpr, Expr.complete_not_none h, Bool.false_eq_true, if_false]
      rw [ok_closeIf, ok_writeExpr r _ h]
      split <;> simp
    | .postfix tok l op, cw, h => by
      simp only [Expr.complete] at h
      simp only [writeExpr, Expr.complete_not_none h, Bool.false_eq_true, if_false]
      simp [ok_writeExpr l _ h]
    | .group tok e rp, cw, h => by
      simp only [Expr.complete] at h
      simp [writeExpr, ok_writeExpr e _ h]
    | .call tok fn args, cw, h => by
      simp only [Expr.complete, Bool.and_eq_true] at h
      simp [writeExpr, ok_writeExprList args _ _ h.2, ok_writeExpr fn _ h.1]
    | .member tok obj prop c, cw, h => by
      simp only [Expr.complete, Bool.and_eq_true] at h
      simp only [writeExpr]
      split
      · simp [ok_writeExpr prop _ h.2, ok_writeExpr obj _ h.1]
      · split <;> simp [ok_writeExpr prop _ h.2, ok_writeExpr obj _ h.1]
    | .assign tok l v, cw, h => by
      simp only [Expr.complete, Bool.and_eq_true] at h
      simp [writeExpr, ok_writeExpr v _ h.2, ok_writeExpr l _ h.1]
    | .compound tok l op v, cw, h => by
      simp only [Expr.complete, Bool.and_eq_true] at h
      simp [writeExpr, ok_writeExpr v _ h.2, ok_writeExpr l _ h.1]
    | .func tok name params body, cw, h => by
      simp only [Expr.complete] at h
      cases name <;> simp [writeExpr, ok_writeStmt body _ h]
    | .array tok elems rb, cw, h => by
      simp only [Expr.complete] at h
      simp [writeExpr, ok_writeExprList elems _ _ h]
    | .object tok props rb, cw, h => by
      simp only [Expr.complete] at h
      simp [writeExpr, ok_writeProps props _ _ h]
  theorem ok_writeExprList : ∀ (es : ExprList) (first : Bool) (cw : CW), es.complete = true →
      (writeExprList es first cw).ok = cw.ok
    | .nil, _, cw, _ => by simp [writeExprList]
    | .cons e rest, first, cw, h => by
      simp only [ExprList.complete, Bool.and_eq_true] at h
      simp [writeExprList, ok_writeExprList rest _ _ h.2, ok_writeExpr e _ h.1]
  theorem ok_writeProps : ∀ (ps : PropList) (first : Bool) (cw : CW), ps.complete = true →
      (writeProps ps first cw).ok = cw.ok
    | .nil, _, cw, _ => by simp [writeProps]
    | .cons k v rest, first, cw, h => by
      simp only [PropList.complete, Bool.and_eq_true] at h
      simp [writeProps, ok_writeProps rest _ _ h.2, ok_writeExpr v _ h.1.2, ok_writeExpr k _ h.1.1]
  theorem ok_writeStmt : ∀ (s : Stmt) (cw : CW), s.complete = true → (writeStmt s cw).ok = cw.ok
    | .none, cw, h => by simp [Stmt.complete] at h
    | .letS tok name v, cw, h => by
      simp only [Stmt.complete, Bool.or_eq_true] at h
      simp only [writeStmt]
      rw [ok_writeSemi]
      split
      · simp
      · rename_i hv
        rcases h with h | h
        · exact absurd h hv
        · rw [ok_writeExpr v _ h]; simp
    | .ret tok v, cw, h => by
      simp only [Stmt.complete, Bool.or_eq_true] at h
      simp only [writeStmt]
      rw [ok_writeSemi]
      split
      · simp
      · rename_i hv
        rcases h with h | h
        · exact absurd h hv
        · rw [ok_writeExpr v _ h]; simp
    | .exprS e, cw, h => by
      simp only [Stmt.complete] at h
      simp only [writeStmt, Expr.complete_not_none h, Bool.false_eq_true, if_false]
      simp [ok_writeExpr e _ h]
    | .funcD tok name params body, cw, h => by
      simp only [Stmt.complete] at h
      simp [writeStmt, ok_writeStmt body _ h]
    | .block tok stmts rb, cw, h => by
      simp only [Stmt.complete] at h
      simp [writeStmt, ok_writeBlockStmts stmts _ _ h]
    | .ifS tok c t e, cw, h => by
      simp only [Stmt.complete, Bool.and_eq_true, Bool.or_eq_true] at h
      simp only [writeStmt]
      split
      · simp [ok_writeStmt t _ h.1.2, ok_writeExpr c _ h.1.1]
      · rename_i he
        rcases h.2 with h2 | h2
        · exact absurd h2 he
        · rw [ok_writeStmt e _ h2]; simp [ok_writeStmt t _ h.1.2, ok_writeExpr c _ h.1.1]
    | .whileS tok c body, cw, h => by
      simp only [Stmt.complete, Bool.and_eq_true] at h
      simp [writeStmt, ok_writeStmt body _ h.2, ok_writeExpr c _ h.1]
    | .forS tok i c u body, cw, h => by
      simp only [Stmt.complete, Bool.and_eq_true, Bool.or_eq_true] at h
      obtain ⟨⟨⟨hi, hc⟩, hu⟩, hb⟩ := h
      simp only [writeStmt]
      rw [ok_writeStmt body _ hb]
      have e1 : ∀ cw : CW, (if i.isNone = true then cw else writeExpr i cw).ok = cw.ok := by
        intro cw; split
        · rfl
        · rename_i hn; rcases hi with h | h
          · exact absurd h hn
          · exact ok_writeExpr i _ h
      have e2 : ∀ cw : CW, (if c.isNone = true then cw else writeExpr c cw).ok = cw.ok := by
        intro cw; split
        · rfl
        · rename_i hn; rcases hc with h | h
          · exact absurd h hn
          · exact ok_writeExpr c _ h
      have e3 : ∀ cw : CW, (if u.isNone = true then cw else writeExpr u cw).ok = cw.ok := by
        intro cw; split
        · rfl
        · rename_i hn; rcases hu with h | h
          · exact absurd h hn
          · exact ok_writeExpr u _ h
      simp [e1, e2, e3]
  theorem ok_writeBlockStmts : ∀ (ss : StmtList) (first : Bool) (cw : CW), ss.complete = true →
      (writeBlockStmts ss first cw).ok = cw.ok
    | .nil, _, cw, _ => by simp [writeBlockStmts]
    | .cons s rest, first, cw, h => by
      simp only [StmtList.complete, Bool.and_eq_true] at h
      simp [writeBlockStmts, ok_writeBlockStmts rest _ _ h.2, ok_writeStmt s _ h.1]
  theorem ok_writeProgramStmts : ∀ (ss : StmtList) (first : Bool) (cw : CW), ss.complete = true →
      (writeProgramStmts ss first cw).ok = cw.ok
    | .nil, _, cw, _ => by simp [writeProgramStmts]
    | .cons s rest, first, cw, h => by
      simp only [StmtList.complete, Bool.and_eq_true] at h
      simp [writeProgramStmts, ok_writeProgramStmts rest _ _ h.2, ok_writeStmt s _ h.1]
end

/-- compiling a complete program never dereferences a nil child, in any configuration -/
theorem compile_ok (cfg : CompCfg) (prog : StmtList) (h : prog.complete = true) : (compile cfg prog).ok = true := by
  unfold compile
  simp only
  rw [ok_writeProgramStmts prog true _ h]

end Xjs
