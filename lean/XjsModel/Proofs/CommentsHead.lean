import XjsModel.Spec.Comments
/-
  The entries replayed for a node start with those of its first token (C15: a comment in front of a statement is
  written in front of that statement's code).
-/
namespace Xjs

/-- the entries replayed for a node start with those of its first token -/
theorem Expr.cmts_head : ∀ (e : Expr), e.postfixBare = true → ∃ rest, e.cmts = headCmts e.firstTok ++ rest
  | .none, _ => ⟨[], by simp [Expr.cmts, Expr.firstTok, headCmts]⟩
  | .ident id, _ => ⟨[], by simp [Expr.cmts, Expr.firstTok, headCmts, identCmts]⟩
  | .int tok, _ | .float tok, _ | .null tok, _ => ⟨[], by simp [Expr.cmts, Expr.firstTok, headCmts]⟩
  | .str tok _, _ | .raw tok _, _ | .bool tok _, _ => ⟨[], by simp [Expr.cmts, Expr.firstTok, headCmts]⟩
  | .letE tok n v, _ => ⟨identCmts n ++ v.cmts, by simp [Expr.cmts, Expr.firstTok, headCmts]⟩
  | .unary tok _ r, _ => ⟨r.cmts, by simp [Expr.cmts, Expr.firstTok, headCmts]⟩
  | .group tok e rp, _ => ⟨e.cmts ++ rp.comments, by simp [Expr.cmts, Expr.firstTok, headCmts]⟩
  | .func tok name ps b, _ => ⟨_, by simp only [Expr.cmts, Expr.firstTok, headCmts, Option.map_some, Option.getD_some, List.append_assoc]; rfl⟩
  | .array tok es rb, _ => ⟨es.cmts ++ rb.comments, by simp [Expr.cmts, Expr.firstTok, headCmts]⟩
  | .object tok ps rb, _ => ⟨ps.cmts ++ rb.comments, by simp [Expr.cmts, Expr.firstTok, headCmts]⟩
  | .binary tok l _ r, h => by
    obtain ⟨rest, hr⟩ := Expr.cmts_head l (by simpa [Expr.postfixBare] using h)
    exact ⟨rest ++ tok.comments ++ r.cmts, by simp [Expr.cmts, Expr.firstTok, hr]⟩
  | .call tok l args, h => by
    obtain ⟨rest, hr⟩ := Expr.cmts_head l (by simpa [Expr.postfixBare] using h)
    exact ⟨rest ++ tok.comments ++ args.cmts, by simp [Expr.cmts, Expr.firstTok, hr]⟩
  | .member tok l p _, h => by
    obtain ⟨rest, hr⟩ := Expr.cmts_head l (by simpa [Expr.postfixBare] using h)
    exact ⟨rest ++ tok.comments ++ p.cmts, by simp [Expr.cmts, Expr.firstTok, hr]⟩
  | .assign tok l v, h => by
    obtain ⟨rest, hr⟩ := Expr.cmts_head l (by simpa [Expr.postfixBare] using h)
    exact ⟨rest ++ tok.comments ++ v.cmts, by simp [Expr.cmts, Expr.firstTok, hr]⟩
  | .compound tok l _ v, h => by
    obtain ⟨rest, hr⟩ := Expr.cmts_head l (by simpa [Expr.postfixBare] using h)
    exact ⟨rest ++ tok.comments ++ v.cmts, by simp [Expr.cmts, Expr.firstTok, hr]⟩
  | .postfix tok l _, h => by
    simp only [Expr.postfixBare, Bool.and_eq_true, List.isEmpty_iff] at h
    obtain ⟨rest, hr⟩ := Expr.cmts_head l h.2
    exact ⟨rest, by simp [Expr.cmts, Expr.firstTok, hr, h.1]⟩

theorem Stmt.cmts_head (s : Stmt) (h : s.postfixBare = true) : ∃ rest, s.cmts = headCmts s.firstTok ++ rest := by
  cases s with
  | exprS e => simpa [Stmt.cmts, Stmt.firstTok] using Expr.cmts_head e (by simpa [Stmt.postfixBare] using h)
  | none => exact ⟨[], by simp [Stmt.cmts, Stmt.firstTok, headCmts]⟩
  | _ => exact ⟨_, by simp only [Stmt.cmts, Stmt.firstTok, headCmts, Option.map_some, Option.getD_some, List.append_assoc]; rfl⟩

end Xjs
