import XjsModel.Proofs.ParserFrame
/-
  Erasing token positions (C03, print → lex → parse): the parser reads of a token its type, its literal and its
  after-newline flag; positions are only copied — into the tree, into error ranges, into the trace. So parsing commutes
  with setting every position to zero (`tokZ`). This file: the erasure on tokens, trees, events, errors and parser states,
  and the commutation of the primitive state operations; `ParserPosPass.lean` is the pass over the mutual block.
  (Mechanical counterpart of `ParserRen.lean`, where token types are renamed instead.)
-/
namespace Xjs.Pos
open Xjs
variable {cfg : PCfg}

def tokZ (t : Token) : Token := { t with sl := 0, sc := 0, el := 0, ec := 0 }

@[simp] theorem tokZ_type (t : Token) : (tokZ t).type = t.type := rfl
@[simp] theorem tokZ_lit (t : Token) : (tokZ t).lit = t.lit := rfl
@[simp] theorem tokZ_comments (t : Token) : (tokZ t).comments = t.comments := rfl
@[simp] theorem tokZ_nl (t : Token) : (tokZ t).nl = t.nl := rfl

def identZ (i : Ident) : Ident := { i with tok := tokZ i.tok }

mutual
  def exprZ : Expr → Expr
    | .none => .none
    | .ident id => .ident (identZ id)
    | .int t => .int (tokZ t)
    | .float t => .float (tokZ t)
    | .str t v => .str (tokZ t) v
    | .raw t v => .raw (tokZ t) v
    | .bool t v => .bool (tokZ t) v
    | .null t => .null (tokZ t)
    | .letE t n v => .letE (tokZ t) (identZ n) (exprZ v)
    | .binary t l op r => .binary (tokZ t) (exprZ l) op (exprZ r)
    | .unary t op r => .unary (tokZ t) op (exprZ r)
    | .postfix t l op => .postfix (tokZ t) (exprZ l) op
    | .group t e rp => .group (tokZ t) (exprZ e) (tokZ rp)
    | .call t f args => .call (tokZ t) (exprZ f) (exprListZ args)
    | .member t o p c => .member (tokZ t) (exprZ o) (exprZ p) c
    | .assign t l v => .assign (tokZ t) (exprZ l) (exprZ v)
    | .compound t l op v => .compound (tokZ t) (exprZ l) op (exprZ v)
    | .func t name ps body => .func (tokZ t) (name.map (identZ)) (ps.map (identZ)) (stmtZ body)
    | .array t es rb => .array (tokZ t) (exprListZ es) (tokZ rb)
    | .object t ps rb => .object (tokZ t) (propListZ ps) (tokZ rb)
  def stmtZ : Stmt → Stmt
    | .none => .none
    | .letS t n v => .letS (tokZ t) (identZ n) (exprZ v)
    | .ret t v => .ret (tokZ t) (exprZ v)
    | .exprS e => .exprS (exprZ e)
    | .funcD t n ps body => .funcD (tokZ t) (identZ n) (ps.map (identZ)) (stmtZ body)
    | .block t ss rb => .block (tokZ t) (stmtListZ ss) (tokZ rb)
    | .ifS t c a b => .ifS (tokZ t) (exprZ c) (stmtZ a) (stmtZ b)
    | .whileS t c b => .whileS (tokZ t) (exprZ c) (stmtZ b)
    | .forS t i c u b => .forS (tokZ t) (exprZ i) (exprZ c) (exprZ u) (stmtZ b)
  def exprListZ : ExprList → ExprList
    | .nil => .nil
    | .cons e t => .cons (exprZ e) (exprListZ t)
  def stmtListZ : StmtList → StmtList
    | .nil => .nil
    | .cons s t => .cons (stmtZ s) (stmtListZ t)
  def propListZ : PropList → PropList
    | .nil => .nil
    | .cons k v t => .cons (exprZ k) (exprZ v) (propListZ t)
end

def eventZ (e : Event) : Event := { e with cur := tokZ e.cur }

def errZ (e : PErr) : PErr := { e with sl := 0, sc := 0, el := 0, ec := 0 }

/-- the parser state over the position-free token list -/
def psZ (st : PS) : PS :=
  { st with toks := st.toks.map tokZ, trace := st.trace.map eventZ, errors := st.errors.map errZ }

@[simp] theorem tokZ_dummy : tokZ dummyTok = dummyTok := rfl
@[simp] theorem tokZ_zero : tokZ zeroTok = zeroTok := rfl
@[simp] theorem tokZ_eofAgain (t : Token) : tokZ (eofAgain t) = eofAgain (tokZ t) := rfl
@[simp] theorem tokZ_tokZ (t : Token) : tokZ (tokZ t) = tokZ t := rfl

@[simp] theorem psZ_toks (st : PS) : (psZ st).toks = st.toks.map tokZ := rfl
@[simp] theorem psZ_errors (st : PS) : (psZ st).errors = st.errors.map errZ := rfl
@[simp] theorem psZ_ctx (st : PS) : (psZ st).ctx = st.ctx := rfl
@[simp] theorem psZ_curPrec (st : PS) : (psZ st).curPrec = st.curPrec := rfl

@[simp] theorem psZ_cur (st : PS) : (psZ st).cur = tokZ st.cur := by
  unfold PS.cur; simp only [psZ_toks]
  cases st.toks <;> simp

@[simp] theorem psZ_peek (st : PS) : (psZ st).peek = tokZ st.peek := by
  unfold PS.peek; simp only [psZ_toks]
  match st.toks with
  | [] => simp
  | [a] => simp
  | a :: b :: r => simp

theorem psZ_next (st : PS) : (psZ st).next = psZ st.next := by
  unfold PS.next
  simp only [psZ_toks]
  match h : st.toks with
  | [] => simp [psZ, h]
  | [a] => simp [psZ, h]
  | a :: b :: r => simp [psZ, h]

theorem psZ_addErrorAt (st : PS) (m : Bytes) (t : Token) : (psZ st).addErrorAt m (tokZ t) = psZ (st.addErrorAt m t) := by
  unfold PS.addErrorAt psZ; simp [errZ, tokZ]
theorem psZ_addError (st : PS) (m : Bytes) : (psZ st).addError m = psZ (st.addError m) := by
  unfold PS.addError; rw [psZ_cur, psZ_addErrorAt]
theorem psZ_push (st : PS) (c : Ctx) : (psZ st).push c = psZ (st.push c) := rfl
theorem psZ_pop (st : PS) : (psZ st).pop = psZ st.pop := rfl

@[simp] theorem psZ_peek_type (st : PS) : (psZ st).peek.type = st.peek.type := by rw [psZ_peek]; rfl
@[simp] theorem psZ_cur_type (st : PS) : (psZ st).cur.type = st.cur.type := by rw [psZ_cur]; rfl
@[simp] theorem psZ_peek_nl (st : PS) : (psZ st).peek.nl = st.peek.nl := by rw [psZ_peek]; rfl
@[simp] theorem psZ_cur_lit (st : PS) : (psZ st).cur.lit = st.cur.lit := by rw [psZ_cur]; rfl
@[simp] theorem psZ_peek_lit (st : PS) : (psZ st).peek.lit = st.peek.lit := by rw [psZ_peek]; rfl

theorem psZ_expectToken (ty : TokType) (st : PS) :
    expectToken ty (psZ st) = ((expectToken ty st).1, psZ (expectToken ty st).2) := by
  unfold expectToken
  rw [psZ_peek_type]
  split
  · simp [psZ_next]
  · simp only [psZ_peek]; rw [psZ_addErrorAt]

theorem psZ_shouldInsert (st : PS) : shouldInsertSemicolon (psZ st) = shouldInsertSemicolon st := by
  unfold shouldInsertSemicolon
  simp only [psZ_peek_type, psZ_peek_nl]

theorem psZ_expectSemi (st : PS) :
    expectSemiASI cfg (psZ st) = ((expectSemiASI cfg st).1, psZ (expectSemiASI cfg st).2) := by
  unfold expectSemiASI
  rw [psZ_peek_type, psZ_shouldInsert]
  split
  · simp [psZ_next]
  · split
    · rfl
    · split
      · rfl
      · simp only [psZ_peek]; rw [psZ_addErrorAt]

@[simp] theorem peekPrec_pos (st : PS) : peekPrecedence cfg (psZ st) = peekPrecedence cfg st := by
  unfold peekPrecedence; rw [psZ_peek_type]
@[simp] theorem curPrec_pos (st : PS) : curPrecedence cfg (psZ st) = curPrecedence cfg st := by
  unfold curPrecedence; rw [psZ_cur_type]

@[simp] theorem identOfCur_pos (st : PS) : identOfCur (psZ st) = identZ (identOfCur st) := by
  unfold identOfCur identZ; simp

theorem exprZ_isNone (e : Expr) : (exprZ e).isNone = e.isNone := by cases e <;> simp [exprZ, Expr.isNone]
theorem stmtZ_isNone (s : Stmt) : (stmtZ s).isNone = s.isNone := by cases s <;> simp [stmtZ, Stmt.isNone]

theorem exprListZ_snoc : ∀ (l : ExprList) (e : Expr), exprListZ (l.snoc e) = (exprListZ l).snoc (exprZ e)
  | .nil, e => by simp [ExprList.snoc, exprListZ]
  | .cons x t, e => by simp [ExprList.snoc, exprListZ, exprListZ_snoc t e]
theorem stmtListZ_snoc : ∀ (l : StmtList) (e : Stmt), stmtListZ (l.snoc e) = (stmtListZ l).snoc (stmtZ e)
  | .nil, e => by simp [StmtList.snoc, stmtListZ]
  | .cons x t, e => by simp [StmtList.snoc, stmtListZ, stmtListZ_snoc t e]
theorem propListZ_snoc : ∀ (l : PropList) (k v : Expr), propListZ (l.snoc k v) = (propListZ l).snoc (exprZ k) (exprZ v)
  | .nil, k, v => by simp [PropList.snoc, propListZ]
  | .cons a b t, k, v => by simp [PropList.snoc, propListZ, propListZ_snoc t k v]

theorem psZ_event (st : PS) (b : Bool) (id : Nat) : (psZ st).event b id = eventZ (st.event b id) := by
  unfold PS.event eventZ; simp [PS.isInFunction, PS.currentContext]

end Xjs.Pos
