import XjsModel.Proofs.RsStmt
/-
  Round trip, part 5: the induction over the (mutually inductive) spec trees — structural recursion, each case
  discharged by its lemma in `RtCases` / `RtLemmas`.
-/
namespace Xjs.RS
open Xjs

variable {cfg : PCfg}

mutual
  theorem main (hc : BaseCfg cfg) : ∀ (s : SE), s.wf = true → Main cfg s
    | .atom t, hw => case_atom hc t hw
    | .grp e, hw => case_grp hc e (by simpa [SE.wf] using hw) (main hc e (by simpa [SE.wf] using hw))
    | .un t r, hw =>
      have h : r.wf = true := by
        have hw' : (lookup basePrefixFns t.type == some .unary && r.wf) = true := by simpa [SE.wf] using hw
        simp only [Bool.and_eq_true] at hw'; exact hw'.2
      case_un hc t r hw (main hc r h)
    | .bin t l r, hw =>
      have h : l.wf = true ∧ r.wf = true := by
        have hw' : (lookup baseInfixFns t.type == some .binary && l.wf && r.wf) = true := by simpa [SE.wf] using hw
        simp only [Bool.and_eq_true] at hw'; exact ⟨hw'.1.2, hw'.2⟩
      case_bin hc t l r hw (main hc l h.1) (main hc r h.2)
    | .post t l, hw =>
      have h : l.wf = true := by
        have hw' : (lookup baseInfixFns t.type == some .postfix && l.wf && !t.nl) = true := by simpa [SE.wf] using hw
        simp only [Bool.and_eq_true] at hw'; exact hw'.1.2
      case_post hc t l hw (main hc l h)
    | .call t f args, hw =>
      have h : f.wf = true ∧ args.wf = true := by
        have hw' : (t.type == .lparen && !t.nl && decide (precCall ≤ f.level) && f.wf && args.wf) = true := by simpa [SE.wf] using hw
        simp only [Bool.and_eq_true] at hw'; exact ⟨hw'.1.2, hw'.2⟩
      case_call hc t f args hw (main hc f h.1) (mainList hc args h.2).1
    | .dot t o p, hw =>
      have h : o.wf = true := by
        have hw' : (t.type == .dot && decide (precCall ≤ o.level) && o.wf && atomWf p) = true := by simpa [SE.wf] using hw
        simp only [Bool.and_eq_true] at hw'; exact hw'.1.2
      case_dot hc t o p hw (main hc o h)
    | .idx t o p, hw =>
      have h : o.wf = true ∧ p.wf = true := by
        have hw' : (t.type == .lbracket && !t.nl && decide (precCall ≤ o.level) && o.wf && p.wf) = true := by simpa [SE.wf] using hw
        simp only [Bool.and_eq_true] at hw'; exact ⟨hw'.1.2, hw'.2⟩
      case_idx hc t o p hw (main hc o h.1) (main hc p h.2)
    | .asg t l v, hw =>
      have h : l.wf = true ∧ v.wf = true := by
        have hw' : (t.type == .assign && decide (precCall ≤ l.level) && l.wf && v.wf) = true := by simpa [SE.wf] using hw
        simp only [Bool.and_eq_true] at hw'; exact ⟨hw'.1.2, hw'.2⟩
      case_asg hc t l v hw (main hc l h.1) (main hc v h.2)
    | .casg t l v, hw =>
      have h : l.wf = true ∧ v.wf = true := by
        have hw' : ((t.type == .plusAssign || t.type == .minusAssign) && decide (precCall ≤ l.level) && l.wf && v.wf) = true := by
          simpa [SE.wf] using hw
        simp only [Bool.and_eq_true] at hw'; exact ⟨hw'.1.2, hw'.2⟩
      case_casg hc t l v hw (main hc l h.1) (main hc v h.2)
    | .arr t es, hw =>
      have h : es.wf = true := by
        have hw' : (t.type == .lbracket && es.wf) = true := by simpa [SE.wf] using hw
        simp only [Bool.and_eq_true] at hw'; exact hw'.2
      case_arr hc t es hw (mainList hc es h).1
    | .func t name ps body, hw =>
      have h : body.wf = true := by
        have hw' : (t.type == .function && (optTok name).all isIdentTok && ps.all isIdentTok && body.wf) = true := by
          simpa [SE.wf] using hw
        simp only [Bool.and_eq_true] at hw'; exact hw'.2
      case_func hc t name ps body hw (blockInv hc body h)
    | .obj t ps, hw =>
      have h : ps.wf = true := by
        have hw' : (t.type == .lbrace && ps.wf) = true := by simpa [SE.wf] using hw
        simp only [Bool.and_eq_true] at hw'; exact hw'.2
      case_obj hc t ps hw (mainProps hc ps h)
  theorem mainList (hc : BaseCfg cfg) : ∀ (es : SEList), es.wf = true → MainList cfg es ∧ LoopInv cfg es
    | .nil, _ => ⟨list_nil, loop_nil⟩
    | .cons e rest, hw =>
      have h : e.wf = true ∧ rest.wf = true := by
        have hw' : (e.wf && rest.wf) = true := by simpa [SEList.wf] using hw
        simp only [Bool.and_eq_true] at hw'; exact hw'
      ⟨list_cons hc e rest h.1 (main hc e h.1) (mainList hc rest h.2).2,
       loop_cons hc e rest h.1 (main hc e h.1) (mainList hc rest h.2).2⟩
  theorem mainProps (hc : BaseCfg cfg) : ∀ (ps : SPList), ps.wf = true → PropsInv cfg ps
    | .nil, _ => props_nil
    | .cons k v rest, hw =>
      have h : (k.wf = true ∧ v.wf = true) ∧ rest.wf = true := by
        have hw' : (k.wf && v.wf && rest.wf) = true := by simpa [SPList.wf] using hw
        simp only [Bool.and_eq_true] at hw'; exact hw'
      props_cons hc k v rest h.1.1 h.1.2 (main hc k h.1.1) (main hc v h.1.2) (mainProps hc rest h.2)
  theorem stmtMain (hc : BaseCfg cfg) : ∀ (s : SS), s.wf = true → StmtMain cfg s
    | .exprS e, hw =>
      have h : e.wf = true := by
        have hw' : (e.wf && (e.toks.headD lpT).type != .lbrace && (e.toks.headD lpT).type != .function) = true := by
          simpa [SS.wf] using hw
        simp only [Bool.and_eq_true] at hw'; exact hw'.1.1
      case_exprS hc e hw (main hc e h)
    | .letS t name v, hw =>
      have h : v.wf = true := by
        have hw' : (t.type == .let_ && isIdentTok name && v.wf) = true := by simpa [SS.wf] using hw
        simp only [Bool.and_eq_true] at hw'; exact hw'.2
      case_letS hc t name v hw (main hc v h)
    | .letN t name, hw => case_letN hc t name hw
    | .ret t v, hw =>
      have h : v.wf = true := by
        have hw' : (t.type == .return_ && v.wf && !(v.toks.headD lpT).nl) = true := by simpa [SS.wf] using hw
        simp only [Bool.and_eq_true] at hw'; exact hw'.1.2
      case_ret hc t v hw (main hc v h)
    | .retN t, hw => case_retN hc t hw
    | .ifS t c thn, hw =>
      have h : c.wf = true ∧ thn.wf = true := by
        have hw' : (t.type == .if_ && c.wf && thn.wf) = true := by simpa [SS.wf] using hw
        simp only [Bool.and_eq_true] at hw'; exact ⟨hw'.1.2, hw'.2⟩
      case_ifS hc t c thn hw (main hc c h.1) (stmtMain hc thn h.2)
    | .ifElse t c thn els, hw =>
      have h : c.wf = true ∧ thn.wf = true ∧ els.wf = true := by
        have hw' : (t.type == .if_ && c.wf && thn.wf && !thn.openIf && els.wf) = true := by simpa [SS.wf] using hw
        simp only [Bool.and_eq_true] at hw'; exact ⟨hw'.1.1.1.2, hw'.1.1.2, hw'.2⟩
      case_ifElse hc t c thn els hw (main hc c h.1) (stmtMain hc thn h.2.1) (stmtMain hc els h.2.2)
    | .whileS t c body, hw =>
      have h : c.wf = true ∧ body.wf = true := by
        have hw' : (t.type == .while_ && c.wf && body.wf) = true := by simpa [SS.wf] using hw
        simp only [Bool.and_eq_true] at hw'; exact ⟨hw'.1.2, hw'.2⟩
      case_whileS hc t c body hw (main hc c h.1) (stmtMain hc body h.2)
    | .forS t i c u body, hw =>
      have h : i.wf = true ∧ c.wf = true ∧ u.wf = true ∧ body.wf = true := by
        have hw' : (t.type == .for_ && i.wf && c.wf && u.wf && body.wf) = true := by simpa [SS.wf] using hw
        simp only [Bool.and_eq_true] at hw'; exact ⟨hw'.1.1.1.2, hw'.1.1.2, hw'.1.2, hw'.2⟩
      case_forS hc t i c u body hw (initMain hc i h.1) (optMain hc c h.2.1) (optMain hc u h.2.2.1) (stmtMain hc body h.2.2.2)
    | .block body, hw => case_block hc body (blockInv hc body (by simpa [SS.wf] using hw))
    | .funcD t name ps body, hw =>
      have h : body.wf = true := by
        have hw' : (t.type == .function && isIdentTok name && ps.all isIdentTok && body.wf) = true := by simpa [SS.wf] using hw
        simp only [Bool.and_eq_true] at hw'; exact hw'.2
      case_funcD hc t name ps body hw (blockInv hc body h)
  theorem blockInv (hc : BaseCfg cfg) : ∀ (ss : SSList), ss.wf = true → BlockInv cfg ss
    | .nil, _ => block_nil
    | .cons s rest, hw =>
      have h : s.wf = true ∧ rest.wf = true := by
        have hw' : (s.wf && rest.wf) = true := by simpa [SSList.wf] using hw
        simp only [Bool.and_eq_true] at hw'; exact hw'
      block_cons s rest h.1 h.2 (stmtMain hc s h.1) (blockInv hc rest h.2)
  theorem optMain (hc : BaseCfg cfg) : ∀ (o : SOpt), o.wf = true → OptMain cfg o
    | .none, _ => trivial
    | .some e, hw => main hc e (by simpa [SOpt.wf] using hw)
  theorem initMain (hc : BaseCfg cfg) : ∀ (i : SInit), i.wf = true → InitMain cfg i
    | .none, _ => trivial
    | .letN _ _, _ => trivial
    | .expr e, hw => main hc e (by simpa [SInit.wf] using hw)
    | .letV t name v, hw =>
      have h : v.wf = true := by
        have hw' : (t.type == .let_ && isIdentTok name && v.wf) = true := by simpa [SInit.wf] using hw
        simp only [Bool.and_eq_true] at hw'; exact hw'.2
      main hc v h
end

/-- THE ROUND TRIP (expressions without function and object literals): what the printer emits for a tree is parsed
    back to that tree, the cursor ending on the last token of the expression -/
theorem print_then_parse (hc : BaseCfg cfg) (s : SE) (hw : s.wf = true) (p : Nat) (st : PS) (rest : List Token)
    (hr : rest ≠ []) (ht : st.toks = s.toks ++ rest) (hf : s.fits p) (hs : stops cfg s.rbl rest) (hq : stops cfg p rest) :
    parseExpressionI cfg [] p st = some (s.tree, nextK (s.toks.length - 1) st) :=
  eval_of_main s (main hc s hw) p st rest hr ht hf hs hq

/-- the statement loop of `ParseProgram`, up to the end-of-input token -/
theorem prog_inv (hc : BaseCfg cfg) : ∀ (ss : SSList), ss.wf = true → ∀ (acc : StmtList) (st : PS) (eofTok : Token),
    eofTok.type = .eof → st.toks = ss.toks ++ [eofTok] →
    programLoop cfg acc st = some (acc.app ss.tree, nextK ss.toks.length st)
  | .nil, _, acc, st, eofTok, he, ht => by
    have ht' : st.toks = [eofTok] := by simpa [SSList.toks] using ht
    rw [programLoop]
    have : (st.cur.type != TokType.eof) = false := by rw [cur_of_toks ht', he]; rfl
    simp [this, SSList.tree, SSList.toks, nextK, StmtList.app_nil]
  | .cons s ss, hw, acc, st, eofTok, he, ht => by
    have h : s.wf = true ∧ ss.wf = true := by
      have hw' : (s.wf && ss.wf) = true := by simpa [SSList.wf] using hw
      simp only [Bool.and_eq_true] at hw'; exact hw'
    obtain ⟨t, ts, h1, _, h3, _⟩ := head_stmt s h.1
    have ht' : st.toks = s.toks ++ (ss.toks ++ [eofTok]) := by rw [ht]; simp [SSList.toks]
    have hcur : st.cur = t := by rw [h1] at ht'; exact cur_of_toks (by simpa using ht')
    rw [programLoop]
    have hgo : (st.cur.type != TokType.eof) = true := by rw [hcur]; simpa using h3
    simp only [hgo, if_true]
    have hfollow : ((ss.toks ++ [eofTok]).headD semiT).type ≠ .else_ := by
      cases ss with
      | nil => simp only [SSList.toks, List.nil_append, List.headD_cons]; rw [he]; decide
      | cons s2 ss2 =>
        have hw2 : s2.wf = true := by
          have : (s2.wf && ss2.wf) = true := by simpa [SSList.wf] using h.2
          simp only [Bool.and_eq_true] at this; exact this.1
        obtain ⟨t2, ts2, e1, _, _, e4⟩ := head_stmt s2 hw2
        simp only [SSList.toks, e1, List.cons_append, List.headD_cons]; exact e4
    rw [stmtMain hc s h.1 st (ss.toks ++ [eofTok]) (by simp) ht' (fun _ => hfollow)]
    simp only [Option.bind_eq_bind, Option.bind_some, tree_not_none, Bool.false_eq_true, if_false]
    have hnext : (nextK (s.toks.length - 1) st).next = nextK s.toks.length st := by
      have : s.toks.length ≥ 1 := by rw [h1]; simp
      rw [← nextK_succ']; congr 1; omega
    rw [hnext]
    have htoks : (nextK s.toks.length st).toks = ss.toks ++ [eofTok] := toks_at s.toks _ st ht' (by simp)
    rw [prog_inv hc ss h.2 (acc.snoc s.tree) _ eofTok he htoks, StmtList.snoc_app]
    congr 2
    simp only [SSList.toks, List.length_append]
    rw [nextK_add]

theorem nextK_errors (k : Nat) (st : PS) : (nextK k st).errors = st.errors := by
  induction k generalizing st with
  | zero => rfl
  | succ k ih => rw [nextK, ih, next_errors']

/-- THE ROUND TRIP FOR PROGRAMS: the token sequence the printer emits for any well-formed program tree, followed by
    the end-of-input token, is parsed — in every mode — to exactly that tree, without any error. -/
theorem program_round_trip (hc : BaseCfg cfg) (prog : SSList) (hw : prog.wf = true) (eofTok : Token) (he : eofTok.type = .eof) :
    ∃ r, parseProgram cfg (prog.toks ++ [eofTok]) = some r ∧ r.prog = prog.tree ∧ r.errors = [] ∧ r.hasErr = false := by
  unfold parseProgram
  rw [prog_inv hc prog hw .nil (PS.init (prog.toks ++ [eofTok])) eofTok he rfl]
  refine ⟨_, rfl, ?_, ?_, ?_⟩
  · simp [StmtList.app]
  · simp [nextK_errors, PS.init]
  · simp [nextK_errors, PS.init]

end Xjs.RS
