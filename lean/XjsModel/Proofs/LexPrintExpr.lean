import XjsModel.Proofs.LexPrintWriter
import XjsModel.Proofs.RaDefs
/-
  Lexing what the printer spells, part 3: the compact printer's text for an expression tree lexes to the tree's tokens
  (`SE.toks`, the sequence the print → parse theorems of C03 start from).
-/
namespace Xjs.LP
open Xjs Xjs.RA

def keyOf (t : Token) : Key := (t.type, t.lit)

/-- the literal of the token is what the lexer produces for a token of its type: the fixed spelling for operators,
    delimiters and keywords; an identifier; a number / string / backtick literal that re-lexes as itself -/
def tokOk (t : Token) : Prop :=
  match t.type with
  | .ident => identOk t.lit = true
  | .int => numOk t.lit .int
  | .float => numOk t.lit .float
  | .string => strOk t.lit
  | .rawString => rawOk t.lit
  | ty => canon ty ≠ [] ∧ t.lit = canon ty

/-- bytes an expression can start with, the signs `+` `-` apart (those are `separateSigns`' business) -/
def startByte (c : Nat) : Bool := isWordByte c || c == 34 || c == 96 || c == 40 || c == 91 || c == 123 || c == 33 || c == 32

/-- the follow predicate admits everything an expression can start with -/
def StartOK (fc : Bytes → Bool) : Prop := ∀ r, startByte (r.headD 0) = true → fc r = true
/-- the follow predicate admits everything that may stand behind a number -/
def EndOK (fc : Bytes → Bool) : Prop := ∀ r, fol .int r = true → fc r = true

/-- the same, digits only when `d` holds (behind the dot of a member access the printer never writes a digit) -/
def StartOKd (d : Bool) (fc : Bytes → Bool) : Prop :=
  ∀ r, startByte (r.headD 0) = true → (isDigit (r.headD 0) = true → d = true) → fc r = true
theorem StartOK.d {fc : Bytes → Bool} (h : StartOK fc) (d : Bool) : StartOKd d fc := fun r hr _ => h r hr

theorem startOK_any : StartOK anyFol := fun _ _ => rfl
theorem endOK_any : EndOK anyFol := fun _ _ => rfl

theorem pre_start {fc : Bytes → Bool} (hs : StartOK fc) (c : Nat) (w : Bytes) (h : startByte c = true) : ∀ r, fc ((c :: w) ++ r) = true :=
  fun r => hs _ (by simpa using h)

theorem pre_end {fc : Bytes → Bool} (he : EndOK fc) (c : Nat) (w : Bytes) (h : isWordByte c = false) (h46 : c ≠ 46) :
    ∀ r, fc ((c :: w) ++ r) = true :=
  fun r => he _ (by simp [fol, h, h46])

theorem pre_dot {fc : Bytes → Bool} (he : EndOK fc) (r : Bytes) (h : isDigit (r.headD 0) = false) : fc (46 :: r) = true :=
  he _ (by
    have : isWordByte 46 = false := by decide
    simp [fol, this]; simpa using h)

/-- only `+` and `-` reject a sign behind them -/
theorem fol_sign (ty : TokType) (c : Nat) (r : Bytes) (hc : c = 43 ∨ c = 45) (h : fol ty (c :: r) = false) :
    (ty = .plus ∧ c = 43) ∨ (ty = .minus ∧ c = 45) := by
  rcases hc with rfl | rfl <;> cases ty <;> simp [fol, isWordByte, isLetter, isDigit] at h ⊢

/-- writing the fixed spelling of a token -/
theorem WInv.fixed {cw cw' : CW} {ks fc} (h : WInv cw ks fc) (ty : TokType) (hc : canon ty ≠ [])
    (hf : cw'.pretty = cw.pretty ∧ cw'.pendings = [] ∧ cw'.out = cw.out ++ canon ty)
    (hpre : ∀ r, fc (canon ty ++ r) = true) : WInv cw' (ks ++ [(ty, canon ty)]) (fol ty) := by
  refine h.token (canon ty) (ty, canon ty) (fol ty) hf hc (fun r hr s hs => fixed_lexes ty hc r hr s hs) ?_ (fun r _ => hpre r) ?_
  · intro e; simp only at e; subst e; exact hc rfl
  · intro c r hcs hfl
    rcases fol_sign ty c r hcs hfl with ⟨rfl, rfl⟩ | ⟨rfl, rfl⟩ <;> rfl

/-- what three fields of the writer say after writing `w` -/
def Fields (cw cw' : CW) (w : Bytes) : Prop := cw'.pretty = cw.pretty ∧ cw'.pendings = [] ∧ cw'.out = cw.out ++ w

theorem Fields.str {cw : CW} (h : cw.pendings = []) (w : Bytes) : Fields cw (cw.writeString w) w := writeString_fields cw h w
theorem Fields.rune {cw : CW} (h : cw.pendings = []) (c : Nat) : Fields cw (cw.writeRune c) [c] := writeRune_fields cw h c
theorem Fields.trans {a b c : CW} {w1 w2 : Bytes} (h1 : Fields a b w1) (h2 : Fields b c w2) : Fields a c (w1 ++ w2) :=
  ⟨h2.1.trans h1.1, h2.2.1, by rw [h2.2.2, h1.2.2, List.append_assoc]⟩
theorem Fields.head {cw : CW} (hp : cw.pretty = false) (hq : cw.pendings = []) (t : Token) : Fields cw (cw.head t) [] := by
  have := (WInv.init { cw with out := [] } hp hq rfl).head t
  unfold CW.head at this ⊢
  rw [leadingComments_compact _ _ hp]
  refine ⟨?_, ?_, ?_⟩ <;> (cases hm : cw.mapper <;> simp [CW.addMapping, CW.mapAdvance, hm, hq])

theorem sb_null : strBytes "null" = canon .null := by decide +kernel

theorem endOK_word : EndOK (fol .ident) := by
  intro r h; simp only [fol, Bool.and_eq_true] at h ⊢; exact h.1
theorem endOK_num : EndOK (fol .int) := fun _ h => h

theorem nosign_word (c : Nat) (r : Bytes) (hc : c = 43 ∨ c = 45) : fol .ident (c :: r) = true := by
  rcases hc with rfl | rfl <;> simp [fol, isWordByte, isLetter, isDigit]
theorem nosign_num (c : Nat) (r : Bytes) (hc : c = 43 ∨ c = 45) : fol .int (c :: r) = true := by
  rcases hc with rfl | rfl <;> simp [fol, isWordByte, isLetter, isDigit]

/-- a literal-class token (`w` is its spelling, starting with a byte an expression can start with) -/
theorem WInv.lit {cw cw' : CW} {ks fc} (h : WInv cw ks fc) {d : Bool} (hs : StartOKd d fc) (k : Key) (c : Nat) (w : Bytes) (fk : Bytes → Bool)
    (hf : Fields cw cw' (c :: w)) (hsb : startByte c = true) (hd : isDigit c = true → d = true)
    (htok : ∀ r, fk r = true → ∀ s : LS, s.rest = (c :: w) ++ r → key3 (nextToken s) = (k, r, false, [])) (hk : k.1 ≠ .eof)
    (hnosign : ∀ c r, (c = 43 ∨ c = 45) → fk (c :: r) = true) : WInv cw' (ks ++ [k]) fk :=
  h.token (c :: w) k fk hf (by simp) htok hk (fun r _ => hs _ (by simpa using hsb) (by simpa using hd))
    (fun c r hc hfk => by rw [hnosign c r hc] at hfk; cases hfk)

theorem startByte_letter (c : Nat) (h : isLetter c = true) : startByte c = true := by simp [startByte, isWordByte, h]
theorem startByte_digit (c : Nat) (h : isDigit c = true) : startByte c = true := by simp [startByte, isWordByte, h]

/-- atoms: identifier, number, string, backtick string, `true` / `false` / `null` -/
theorem letter_not_digit (c : Nat) (h : isLetter c = true) : isDigit c = false := by
  unfold isLetter at h; unfold isDigit
  simp only [Bool.or_eq_true, Bool.and_eq_true, decide_eq_true_eq, beq_iff_eq] at h
  simp only [Bool.and_eq_false_iff, decide_eq_false_iff_not]
  omega

theorem atom_lex (t : Token) (hw : atomWf t = true) (ht : tokOk t) {cw : CW} {ks fc} (h : WInv cw ks fc)
    (hs : StartOKd (isDigit (t.lit.headD 0)) fc) :
    ∃ fc', WInv (writeExpr (atomTree t) cw) (ks ++ [keyOf t]) fc' ∧ EndOK fc' := by
  have hq := h.pend
  have hp := h.compact
  cases hty : t.type
  all_goals (simp only [atomWf, lookup, basePrefixFns, hty, List.find?, show ∀ a b : TokType, (a == b) = decide (a = b) from fun _ _ => rfl] at hw)
  all_goals first
    | (simp at hw; done)
    | skip
  case ident =>
    have ha : atomTree t = .ident { tok := t, value := t.lit } := by unfold atomTree; rw [hty]; rfl
    rw [ha]; simp only [writeExpr, writeIdent]
    simp only [tokOk, hty] at ht
    obtain ⟨c, w, hl⟩ : ∃ c w, t.lit = c :: w := by
      cases hl : t.lit with
      | nil => rw [hl] at ht; cases ht
      | cons c w => exact ⟨c, w, rfl⟩
    have h1 := (h.leadingComments t.comments).addNamedMapping t.sl t.sc t.lit
    have hk : keyOf t = (.ident, c :: w) := by simp [keyOf, hty, hl]
    rw [hk]; rw [hl] at ht h1 ⊢
    have hc : isLetter c = true := by simp [identOk] at ht; exact ht.1.1
    exact ⟨fol .ident, h1.lit hs _ c w _ (Fields.str h1.pend _) (startByte_letter c hc) (fun e => by rw [letter_not_digit c hc] at e; cases e)
      (fun r hr s hs' => ident_lexes (c :: w) r ht hr s hs') (by simp) nosign_word, endOK_word⟩
  case int =>
    have ha : atomTree t = .int t := by unfold atomTree; rw [hty]; rfl
    rw [ha]; simp only [writeExpr]
    simp only [tokOk, hty] at ht
    obtain ⟨c, w, hl⟩ : ∃ c w, t.lit = c :: w := by
      cases hl : t.lit with
      | nil => rw [hl] at ht; exact absurd ht.1 (by decide)
      | cons c w => exact ⟨c, w, rfl⟩
    have h1 := h.head t
    have hk : keyOf t = (.int, c :: w) := by simp [keyOf, hty, hl]
    rw [hk]; rw [hl] at ht hs ⊢
    have hc : isDigit c = true := by simpa using ht.1
    exact ⟨fol .int, h1.lit hs _ c w _ (Fields.str h1.pend _) (startByte_digit c hc) (fun _ => by simpa using hc)
      (fun r hr s hs' => num_lexes (c :: w) r .int ht hr s hs') (by simp) nosign_num, endOK_num⟩
  case float =>
    have ha : atomTree t = .float t := by unfold atomTree; rw [hty]; rfl
    rw [ha]; simp only [writeExpr]
    simp only [tokOk, hty] at ht
    obtain ⟨c, w, hl⟩ : ∃ c w, t.lit = c :: w := by
      cases hl : t.lit with
      | nil => rw [hl] at ht; exact absurd ht.1 (by decide)
      | cons c w => exact ⟨c, w, rfl⟩
    have h1 := h.head t
    have hk : keyOf t = (.float, c :: w) := by simp [keyOf, hty, hl]
    rw [hk]; rw [hl] at ht hs ⊢
    have hc : isDigit c = true := by simpa using ht.1
    exact ⟨fol .int, h1.lit hs _ c w _ (Fields.str h1.pend _) (startByte_digit c hc) (fun _ => by simpa using hc)
      (fun r hr s hs' => num_lexes (c :: w) r .float ht hr s hs') (by simp) nosign_num, endOK_num⟩
  case string =>
    have ha : atomTree t = .str t t.lit := by unfold atomTree; rw [hty]; rfl
    rw [ha]; simp only [writeExpr]
    simp only [tokOk, hty] at ht
    have h1 := h.head t
    have hk : keyOf t = (.string, t.lit) := by simp [keyOf, hty]
    rw [hk]
    have hf : Fields (cw.head t) ((((cw.head t).writeRune 34).writeString t.lit).writeRune 34) (34 :: (t.lit ++ [34])) :=
      ((Fields.rune h1.pend 34).trans (Fields.str (Fields.rune h1.pend 34).2.1 t.lit)).trans
        (Fields.rune (Fields.str (Fields.rune h1.pend 34).2.1 t.lit).2.1 34) |> fun x => by simpa using x
    exact ⟨anyFol, h1.lit hs _ 34 _ anyFol hf (by decide) (fun e => absurd e (by decide))
      (fun r _ s hs' => str_lexes t.lit r ht s (by simpa using hs')) (by simp) (fun _ _ _ => rfl), endOK_any⟩
  case rawString =>
    have ha : atomTree t = .raw t t.lit := by unfold atomTree; rw [hty]; rfl
    rw [ha]; simp only [writeExpr]
    simp only [tokOk, hty] at ht
    have h1 := h.head t
    have hk : keyOf t = (.rawString, t.lit) := by simp [keyOf, hty]
    rw [hk]
    have hf : Fields (cw.head t) ((((cw.head t).writeRune 96).writeString (escBackticks t.lit)).writeRune 96)
        (96 :: (escBackticks t.lit ++ [96])) :=
      ((Fields.rune h1.pend 96).trans (Fields.str (Fields.rune h1.pend 96).2.1 _)).trans
        (Fields.rune (Fields.str (Fields.rune h1.pend 96).2.1 _).2.1 96) |> fun x => by simpa using x
    exact ⟨anyFol, h1.lit hs _ 96 _ anyFol hf (by decide) (fun e => absurd e (by decide))
      (fun r _ s hs' => raw_lexes t.lit r ht s (by simpa using hs')) (by simp) (fun _ _ _ => rfl), endOK_any⟩
  case true_ =>
    have ha : atomTree t = .bool t true := by unfold atomTree; rw [hty]; rfl
    rw [ha]; simp only [writeExpr]
    simp only [tokOk, hty] at ht
    have hk : keyOf t = (.true_, canon .true_) := by simp [keyOf, hty, ht.2]
    rw [hk, ht.2]
    exact ⟨fol .true_, (h.head t).fixed .true_ (by decide) (Fields.str (h.head t).pend _) (fun r => hs _ (by simp [canon, startByte, isWordByte, isLetter, isDigit]) (fun e => by simp [canon, isDigit] at e)), endOK_word⟩
  case false_ =>
    have ha : atomTree t = .bool t false := by unfold atomTree; rw [hty]; rfl
    rw [ha]; simp only [writeExpr]
    simp only [tokOk, hty] at ht
    have hk : keyOf t = (.false_, canon .false_) := by simp [keyOf, hty, ht.2]
    rw [hk, ht.2]
    exact ⟨fol .false_, (h.head t).fixed .false_ (by decide) (Fields.str (h.head t).pend _) (fun r => hs _ (by simp [canon, startByte, isWordByte, isLetter, isDigit]) (fun e => by simp [canon, isDigit] at e)), endOK_word⟩
  case null =>
    have ha : atomTree t = .null t := by unfold atomTree; rw [hty]; rfl
    rw [ha]; simp only [writeExpr]
    simp only [tokOk, hty] at ht
    have hk : keyOf t = (.null, canon .null) := by simp [keyOf, hty, ht.2]
    rw [hk, sb_null]
    exact ⟨fol .null, (h.head t).fixed .null (by decide) (Fields.str (h.head t).pend _) (fun r => hs _ (by simp [canon, startByte, isWordByte, isLetter, isDigit]) (fun e => by simp [canon, isDigit] at e)), endOK_word⟩

/-! ## facts about follow predicates, token sanity and the trees of `SE` -/

def AllOK (fc : Bytes → Bool) : Prop := ∀ r, fc r = true
def CloseOK (fc : Bytes → Bool) : Prop := ∀ c r, (c = 41 ∨ c = 93 ∨ c = 125) → fc (c :: r) = true

theorem AllOK.start {fc : Bytes → Bool} (h : AllOK fc) : StartOK fc := fun r _ => h r
theorem AllOK.endOK {fc : Bytes → Bool} (h : AllOK fc) : EndOK fc := fun r _ => h r
theorem AllOK.close {fc : Bytes → Bool} (h : AllOK fc) : CloseOK fc := fun _ r _ => h _
theorem EndOK.close {fc : Bytes → Bool} (h : EndOK fc) : CloseOK fc := fun c r hc =>
  h _ (by rcases hc with rfl | rfl | rfl <;> simp [fol, isWordByte, isLetter, isDigit])
theorem allOK_any : AllOK anyFol := fun _ => rfl

theorem sb_ne (c k : Nat) (h : startByte c = true) (hk : startByte k = false) : (c != k) = true := by
  cases e : c != k
  · have : c = k := by simpa using e
    subst this; rw [h] at hk; cases hk
  · rfl

/-- behind an operator or delimiter anything an expression starts with may follow -/
theorem fol_start (ty : TokType) (hc : canon ty ≠ []) (hnw : isWordByte ((canon ty).headD 0) = false) : StartOK (fol ty) := by
  intro r hr
  cases ty <;> first
    | exact absurd rfl hc
    | exact absurd hnw (by decide)
    | rfl
    | (simp only [fol]; generalize r.headD 0 = c at hr ⊢
       simp [sb_ne c 61 hr rfl, sb_ne c 43 hr rfl, sb_ne c 45 hr rfl, sb_ne c 47 hr rfl])

theorem tokOk_fixed (t : Token) (h : tokOk t) (hc : canon t.type ≠ []) : t.lit = canon t.type := by
  cases hty : t.type <;> simp only [tokOk, hty] at h <;> first
    | exact h.2
    | (rw [hty] at hc; exact absurd rfl hc)

theorem keyOf_fixed (t : Token) (h : tokOk t) (ty : TokType) (hty : t.type = ty) (hc : canon ty ≠ []) :
    keyOf t = (ty, canon ty) := by
  subst hty; simp [keyOf, tokOk_fixed t h hc]

theorem tree_isNone (s : SE) : s.tree.isNone = false := by
  cases s with
  | atom t => simp only [SE.tree]; unfold atomTree; split <;> rfl
  | _ => rfl

theorem prec_tree (s : SE) : s.tree.prec = s.level := by
  cases s with
  | atom t => simp only [SE.tree, SE.level]; unfold atomTree; split <;> rfl
  | _ => simp [SE.tree, Expr.prec, SE.level]

theorem wrap_isNone (b : Bool) (s : SE) : (wrapTree b s.tree).isNone = false := by
  cases b
  · exact tree_isNone s
  · rfl

theorem wrap_prec (b : Bool) (s : SE) : (wrapTree b s.tree).prec = if b then precAtomic else s.level := by
  cases b
  · exact prec_tree s
  · rfl

/-! ## the printer's text for an expression lexes to its tokens -/

/-- the induction statement: whatever was written before, the expression's text adds its tokens -/
def ELex (e : Expr) (toks : List Token) : Prop :=
  ∀ {cw : CW} {ks : List Key} {fc : Bytes → Bool}, WInv cw ks fc → StartOK fc →
    ∃ fc', WInv (writeExpr e cw) (ks ++ toks.map keyOf) fc' ∧ EndOK fc'

theorem open_paren {cw : CW} {ks fc} (h : WInv cw ks fc) (hs : StartOK fc) (lp : Token) :
    WInv (((cw.head lp).writeRune 40).increaseIndent) (ks ++ [(.lparen, [40])]) (fol .lparen) :=
  ((h.head lp).fixed .lparen (by decide) (Fields.rune (h.head lp).pend 40) (pre_start hs 40 [] (by decide))).increaseIndent

/-- `( e )` -/
theorem group_lex (lp rp : Token) (klp : keyOf lp = (.lparen, [40])) (krp : keyOf rp = (.rparen, [41])) (e : Expr) (toks : List Token)
    (ih : ELex e toks) : ELex (.group lp e rp) (lp :: toks ++ [rp]) := by
  intro cw ks fc h hs
  simp only [writeExpr]
  obtain ⟨fc2, h2, he2⟩ := ih (open_paren h hs lp) (fol_start .lparen (by decide) (by decide))
  have h3 := ((h2.leadingComments rp.comments).decreaseIndent).fixed .rparen (by decide)
    (Fields.rune ((h2.leadingComments rp.comments).decreaseIndent).pend 41) (pre_end he2 41 [] (by decide) (by decide))
  refine ⟨_, ?_, (show AllOK (fol .rparen) from fun _ => rfl).endOK⟩
  simpa only [List.map_cons, List.map_append, List.map_nil, klp, krp, List.append_assoc, List.cons_append, List.nil_append, canon] using h3

theorem wrap_lex (b : Bool) (s : SE) (ih : ELex s.tree s.toks) : ELex (wrapTree b s.tree) (wrapToks b s.toks) := by
  cases b
  · exact ih
  · exact group_lex lpT rpT rfl rfl s.tree s.toks ih

/-- `separateSigns` in front of a sign operator: afterwards the sign may be written -/
theorem sep_lex {cw : CW} {ks fc} (h : WInv cw ks fc) (hs : StartOK fc) (c : Nat) (w : Bytes) (hc : c = 43 ∨ c = 45) :
    ∃ fc1, WInv (cw.separateSigns (c :: w)) ks fc1 ∧ (∀ r, fc1 (c :: r) = true) ∧ StartOK fc1 := by
  have hcond : (c != 43 && c != 45) = false := by rcases hc with rfl | rfl <;> rfl
  unfold CW.separateSigns
  simp only [hcond, Bool.false_eq_true, if_false, flushPending_nil cw h.pend]
  by_cases hl : (cw.out.getLast? == some c) = true
  · rw [if_pos hl]
    exact ⟨anyFol, h.space (fun r => hs _ (show startByte 32 = true by decide)), fun _ => rfl, startOK_any⟩
  · rw [if_neg hl]
    refine ⟨fc, h, fun r => ?_, hs⟩
    cases hf : fc (c :: r)
    · exact absurd (by rw [h.sign c r hc hf]; exact beq_self_eq_true _) hl
    · rfl

theorem sep_not {cw : CW} : cw.separateSigns [33] = cw := by simp [CW.separateSigns]

theorem openIf_false (cw : CW) : cw.openIf false = cw := rfl
theorem closeIf_false (cw : CW) : cw.closeIf false = cw := rfl

/-- prefix operators `!` `-` `++` `--` -/
theorem un_lex (t : Token) (hp : lookup basePrefixFns t.type = some .unary) (ht : tokOk t) (R : Expr) (rtoks : List Token)
    (hR : ELex R rtoks) (hnone : R.isNone = false) (hprec : ¬ R.prec < precUnary) : ELex (.unary t t.lit R) (t :: rtoks) := by
  intro cw ks fc h hs
  have hrp : decide (R.prec < precUnary) = false := by simpa using hprec
  simp only [writeExpr, hnone, Bool.false_eq_true, if_false, hrp, openIf_false, closeIf_false]
  have h0 := h.leadingComments t.comments
  -- after the operator: the token is there and an expression may start
  have key : ∃ fc2, WInv (if (t.lit == [33] && R.isDecrement) = true then
        ((((cw.leadingComments t.comments).separateSigns t.lit).addMapping t.sl t.sc).writeString t.lit).writeRune 32
      else (((cw.leadingComments t.comments).separateSigns t.lit).addMapping t.sl t.sc).writeString t.lit)
      (ks ++ [keyOf t]) fc2 ∧ StartOK fc2 := by
    cases hty : t.type <;> rw [hty] at hp <;> simp [lookup, basePrefixFns] at hp
    case not =>
      have hl : t.lit = [33] := by have := tokOk_fixed t ht (by rw [hty]; decide); rw [hty] at this; exact this
      have hk : keyOf t = (.not, [33]) := keyOf_fixed t ht .not hty (by decide)
      rw [hl, hk, sep_not]
      have h1 := (h0.addMapping t.sl t.sc).fixed .not (by decide) (Fields.str (h0.addMapping t.sl t.sc).pend _)
        (pre_start hs 33 [] (by decide))
      simp only [canon] at h1 ⊢
      by_cases hd : R.isDecrement = true
      · simp only [hd, beq_self_eq_true, Bool.and_self, if_true]
        exact ⟨anyFol, h1.space (fun r => by simp [fol]), startOK_any⟩
      · simp only [show R.isDecrement = false by simpa using hd, Bool.and_false, Bool.false_eq_true, if_false]
        exact ⟨_, h1, fol_start .not (by decide) (by decide)⟩
    case minus =>
      have hl : t.lit = [45] := by have := tokOk_fixed t ht (by rw [hty]; decide); rw [hty] at this; exact this
      have hk : keyOf t = (.minus, [45]) := keyOf_fixed t ht .minus hty (by decide)
      rw [hl, hk]
      obtain ⟨fc1, h1, hp1, _⟩ := sep_lex h0 hs 45 [] (Or.inr rfl)
      have h2 := (h1.addMapping t.sl t.sc).fixed .minus (by decide) (Fields.str (h1.addMapping t.sl t.sc).pend _) (fun r => hp1 _)
      simp only [canon] at h2 ⊢
      simp only [show (([45] : Bytes) == [33]) = false by decide, Bool.false_and, Bool.false_eq_true, if_false]
      exact ⟨_, h2, fol_start .minus (by decide) (by decide)⟩
    case increment =>
      have hl : t.lit = [43, 43] := by have := tokOk_fixed t ht (by rw [hty]; decide); rw [hty] at this; exact this
      have hk : keyOf t = (.increment, [43, 43]) := keyOf_fixed t ht .increment hty (by decide)
      rw [hl, hk]
      obtain ⟨fc1, h1, hp1, _⟩ := sep_lex h0 hs 43 [43] (Or.inl rfl)
      have h2 := (h1.addMapping t.sl t.sc).fixed .increment (by decide) (Fields.str (h1.addMapping t.sl t.sc).pend _) (fun r => hp1 _)
      simp only [canon] at h2 ⊢
      simp only [show (([43, 43] : Bytes) == [33]) = false by decide, Bool.false_and, Bool.false_eq_true, if_false]
      exact ⟨_, h2, fol_start .increment (by decide) (by decide)⟩
    case decrement =>
      have hl : t.lit = [45, 45] := by have := tokOk_fixed t ht (by rw [hty]; decide); rw [hty] at this; exact this
      have hk : keyOf t = (.decrement, [45, 45]) := keyOf_fixed t ht .decrement hty (by decide)
      rw [hl, hk]
      obtain ⟨fc1, h1, hp1, _⟩ := sep_lex h0 hs 45 [45] (Or.inr rfl)
      have h2 := (h1.addMapping t.sl t.sc).fixed .decrement (by decide) (Fields.str (h1.addMapping t.sl t.sc).pend _) (fun r => hp1 _)
      simp only [canon] at h2 ⊢
      simp only [show (([45, 45] : Bytes) == [33]) = false by decide, Bool.false_and, Bool.false_eq_true, if_false]
      exact ⟨_, h2, fol_start .decrement (by decide) (by decide)⟩
  obtain ⟨fc2, h2, hs2⟩ := key
  obtain ⟨fc3, h3, he3⟩ := hR h2 hs2
  exact ⟨fc3, by simpa only [List.map_cons, List.append_assoc, List.cons_append, List.nil_append] using h3, he3⟩

/-- the thirteen binary operators: spelling starts with a byte that ends any expression -/
theorem binop_facts (ty : TokType) (h : lookup baseInfixFns ty = some .binary) :
    canon ty ≠ [] ∧ isWordByte ((canon ty).headD 0) = false ∧ (canon ty).headD 0 ≠ 46 ∧ operatorPrecedence ty ≤ 12 := by
  cases ty <;> simp [lookup, baseInfixFns] at h <;> decide

theorem pre_end' {fc : Bytes → Bool} (he : EndOK fc) (w : Bytes) (hw : w ≠ []) (h : isWordByte (w.headD 0) = false) (h46 : w.headD 0 ≠ 46) :
    ∀ r, fc (w ++ r) = true := by
  cases w with
  | nil => exact absurd rfl hw
  | cons c w => exact pre_end he c w (by simpa using h) (by simpa using h46)

theorem bin_lex (t : Token) (hb : lookup baseInfixFns t.type = some .binary) (ht : tokOk t) (L R : Expr) (ltoks rtoks : List Token)
    (hL : ELex L ltoks) (hR : ELex R rtoks) (hln : L.isNone = false) (hrn : R.isNone = false)
    (hlp : ¬ L.prec < operatorPrecedence t.type) (hrp : ¬ R.prec ≤ operatorPrecedence t.type) :
    ELex (.binary t L t.lit R) (ltoks ++ t :: rtoks) := by
  intro cw ks fc h hs
  obtain ⟨hc, hnw, h46, _⟩ := binop_facts t.type hb
  have hl := tokOk_fixed t ht hc
  have hk := keyOf_fixed t ht t.type rfl hc
  simp only [writeExpr, hln, hrn, Bool.false_eq_true, if_false, show decide (L.prec < operatorPrecedence t.type) = false by simpa using hlp,
    show decide (R.prec ≤ operatorPrecedence t.type) = false by simpa using hrp, openIf_false, closeIf_false]
  obtain ⟨fc1, h1, he1⟩ := hL h hs
  have h2 := ((h1.writeSpace.head t).fixed t.type hc (Fields.str (h1.writeSpace.head t).pend _) (pre_end' he1 _ hc hnw h46)).writeSpace
  rw [← hl] at h2
  obtain ⟨fc3, h3, he3⟩ := hR h2 (fol_start t.type hc hnw)
  refine ⟨fc3, ?_, he3⟩
  simpa only [List.map_cons, List.map_append, List.append_assoc, List.cons_append, List.nil_append,
    show keyOf t = (t.type, t.lit) from rfl] using h3

/-- postfix `++` / `--` -/
theorem post_lex (t : Token) (hb : lookup baseInfixFns t.type = some .postfix) (ht : tokOk t) (L : Expr) (ltoks : List Token)
    (hL : ELex L ltoks) (hln : L.isNone = false) (hlp : ¬ L.prec < precPostfix) : ELex (.postfix t L t.lit) (ltoks ++ [t]) := by
  intro cw ks fc h hs
  have hf : canon t.type ≠ [] ∧ isWordByte ((canon t.type).headD 0) = false ∧ (canon t.type).headD 0 ≠ 46 ∧ AllOK (fol t.type) := by
    cases hty : t.type <;> rw [hty] at hb <;> simp [lookup, baseInfixFns] at hb <;>
      exact ⟨by decide, by decide, by decide, fun _ => rfl⟩
  obtain ⟨hc, hnw, h46, hall⟩ := hf
  have hl := tokOk_fixed t ht hc
  have hk := keyOf_fixed t ht t.type rfl hc
  simp only [writeExpr, hln, Bool.false_eq_true, if_false, show decide (L.prec < precPostfix) = false by simpa using hlp,
    openIf_false, closeIf_false]
  obtain ⟨fc1, h1, he1⟩ := hL (h.leadingComments t.comments) hs
  have h2 := (h1.addMapping t.sl t.sc).fixed t.type hc (Fields.str (h1.addMapping t.sl t.sc).pend _) (pre_end' he1 _ hc hnw h46)
  rw [← hl] at h2
  refine ⟨_, ?_, hall.endOK⟩
  simpa only [List.map_cons, List.map_append, List.map_nil, List.append_assoc, show keyOf t = (t.type, t.lit) from rfl] using h2

/-- `o[p]` -/
theorem idx_lex (t : Token) (hty : t.type = .lbracket) (ht : tokOk t) (O P : Expr) (otoks ptoks : List Token)
    (hO : ELex O otoks) (hP : ELex P ptoks) : ELex (.member t O P true) (otoks ++ t :: ptoks ++ [rbT]) := by
  intro cw ks fc h hs
  have hk : keyOf t = (.lbracket, [91]) := keyOf_fixed t ht .lbracket hty (by decide)
  simp only [writeExpr, if_true]
  obtain ⟨fc1, h1, he1⟩ := hO h hs
  have h1' := (h1.leadingComments t.comments).addMapping t.sl t.sc
  have h2 := h1'.fixed .lbracket (by decide) (Fields.rune h1'.pend 91) (pre_end he1 91 [] (by decide) (by decide))
  obtain ⟨fc3, h3, he3⟩ := hP h2 (fol_start .lbracket (by decide) (by decide))
  have h4 := h3.fixed .rbracket (by decide) (Fields.rune h3.pend 93) (pre_end he3 93 [] (by decide) (by decide))
  refine ⟨_, ?_, (show AllOK (fol .rbracket) from fun _ => rfl).endOK⟩
  simpa only [List.map_cons, List.map_append, List.map_nil, List.append_assoc, List.cons_append, List.nil_append, hk, canon,
    show keyOf rbT = (.rbracket, [93]) from rfl] using h4

/-- `l = v` -/
theorem asg_lex (t : Token) (hty : t.type = .assign) (ht : tokOk t) (L V : Expr) (ltoks vtoks : List Token)
    (hL : ELex L ltoks) (hV : ELex V vtoks) : ELex (.assign t L V) (ltoks ++ t :: vtoks) := by
  intro cw ks fc h hs
  have hk : keyOf t = (.assign, [61]) := keyOf_fixed t ht .assign hty (by decide)
  simp only [writeExpr]
  obtain ⟨fc1, h1, he1⟩ := hL h hs
  have h1' := h1.writeSpace.head t
  have h2 := (h1'.fixed .assign (by decide) (Fields.rune h1'.pend 61) (pre_end he1 61 [] (by decide) (by decide))).writeSpace
  obtain ⟨fc3, h3, he3⟩ := hV h2 (fol_start .assign (by decide) (by decide))
  refine ⟨fc3, ?_, he3⟩
  simpa only [List.map_cons, List.map_append, List.append_assoc, List.cons_append, List.nil_append, hk, canon] using h3

/-- the follow predicate of the dot of a member access: no digit -/
def dotFol : Bytes → Bool := fun r => !isDigit (r.headD 0)

/-- `o.p` -/
theorem dot_lex (t p : Token) (hty : t.type = .dot) (ht : tokOk t) (hpw : atomWf p = true) (hp : tokOk p)
    (hpd : isDigit (p.lit.headD 0) = false) (O : Expr) (otoks : List Token) (hO : ELex O otoks) :
    ELex (.member t O (atomTree p) false) (otoks ++ [t, p]) := by
  intro cw ks fc h hs
  have hk : keyOf t = (.dot, [46]) := keyOf_fixed t ht .dot hty (by decide)
  simp only [writeExpr, Bool.false_eq_true, if_false]
  obtain ⟨fc1, h1, he1⟩ := hO h hs
  have h1' := h1.leadingComments t.comments
  have fin : ∃ fc2, WInv ((if O.isDecimalInt = true then ((writeExpr O cw).leadingComments t.comments).writeRune 32
      else (writeExpr O cw).leadingComments t.comments).addMapping t.sl t.sc |>.writeRune 46)
      (ks ++ otoks.map keyOf ++ [(.dot, [46])]) fc2 ∧ StartOKd false fc2 := by
    by_cases hd : O.isDecimalInt = true
    · rw [if_pos hd]
      have hsp := h1'.space (fun r => he1 _ (by simp [fol, isWordByte, isLetter, isDigit]))
      have h2 := (hsp.addMapping t.sl t.sc).fixed .dot (by decide) (Fields.rune (hsp.addMapping t.sl t.sc).pend 46) (fun _ => rfl)
      exact ⟨_, h2, (fol_start .dot (by decide) (by decide)).d false⟩
    · rw [if_neg hd]
      have h1'' := h1'.addMapping t.sl t.sc
      have h2 := h1''.token [46] (.dot, [46]) dotFol (Fields.rune h1''.pend 46) (by simp)
        (fun r _ s hs' => fixed_lexes .dot (by decide) r rfl s hs') (by simp)
        (fun r hr => pre_dot he1 r (by simpa [dotFol] using hr))
        (fun c r hc hfk => by rcases hc with rfl | rfl <;> simp [dotFol, isDigit] at hfk)
      refine ⟨_, h2, fun r _ hd' => ?_⟩
      cases e : isDigit (r.headD 0)
      · show (!isDigit (r.headD 0)) = true; rw [e]; rfl
      · exact absurd (hd' e) (by decide)
  obtain ⟨fc2, h2, hs2⟩ := fin
  obtain ⟨fc3, h3, he3⟩ := atom_lex p hpw hp h2 (by rw [hpd]; exact hs2)
  refine ⟨fc3, ?_, he3⟩
  simpa only [List.map_cons, List.map_append, List.map_nil, List.append_assoc, List.cons_append, List.nil_append, hk] using h3

/-- `l += v`, `l -= v` -/
theorem casg_lex (t : Token) (hty : t.type = .plusAssign ∨ t.type = .minusAssign) (ht : tokOk t) (L V : Expr) (ltoks vtoks : List Token)
    (hL : ELex L ltoks) (hV : ELex V vtoks) : ELex (.compound t L (compoundOp t) V) (ltoks ++ t :: vtoks) := by
  intro cw ks fc h hs
  simp only [writeExpr]
  obtain ⟨fc1, h1, he1⟩ := hL h hs
  have h1' := (h1.head t).writeSpace
  rcases hty with hty | hty
  · have hk : keyOf t = (.plusAssign, [43, 61]) := keyOf_fixed t ht .plusAssign hty (by decide)
    have hop : compoundOp t = [43] := by simp [compoundOp, hty]
    rw [hop]
    have hf : Fields ((writeExpr L cw).head t).writeSpace (((((writeExpr L cw).head t).writeSpace).writeString [43]).writeRune 61) [43, 61] :=
      (Fields.str h1'.pend [43]).trans (Fields.rune (Fields.str h1'.pend [43]).2.1 61)
    have h2 := (h1'.fixed .plusAssign (by decide) hf (pre_end he1 43 [61] (by decide) (by decide))).writeSpace
    obtain ⟨fc3, h3, he3⟩ := hV h2 (fol_start .plusAssign (by decide) (by decide))
    refine ⟨fc3, ?_, he3⟩
    simpa only [List.map_cons, List.map_append, List.append_assoc, List.cons_append, List.nil_append, hk, canon] using h3
  · have hk : keyOf t = (.minusAssign, [45, 61]) := keyOf_fixed t ht .minusAssign hty (by decide)
    have hop : compoundOp t = [45] := by simp [compoundOp, hty]
    rw [hop]
    have hf : Fields ((writeExpr L cw).head t).writeSpace (((((writeExpr L cw).head t).writeSpace).writeString [45]).writeRune 61) [45, 61] :=
      (Fields.str h1'.pend [45]).trans (Fields.rune (Fields.str h1'.pend [45]).2.1 61)
    have h2 := (h1'.fixed .minusAssign (by decide) hf (pre_end he1 45 [61] (by decide) (by decide))).writeSpace
    obtain ⟨fc3, h3, he3⟩ := hV h2 (fol_start .minusAssign (by decide) (by decide))
    refine ⟨fc3, ?_, he3⟩
    simpa only [List.map_cons, List.map_append, List.append_assoc, List.cons_append, List.nil_append, hk, canon] using h3

end Xjs.LP
