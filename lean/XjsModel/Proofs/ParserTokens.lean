import XjsModel.Proofs.ParserLen
import XjsModel.Spec.Flat
/-
  Token faithfulness (C12 / C01 / C02): bookkeeping lemmas about the ghost field `consumed`.
  `FC st` = the tokens the cursor has moved past, `FL st` = those plus the current token; both without `;` and `,`.
-/
namespace Xjs

def PS.log (st : PS) : List TokType := st.consumed ++ [st.cur.type]
def FC (st : PS) : List TokType := F st.consumed
def FL (st : PS) : List TokType := F st.log

theorem FL_eq (st : PS) : FL st = FC st ++ F [st.cur.type] := by simp [FL, FC, PS.log]

theorem next_cur (st : PS) : st.next.cur = st.peek := by
  unfold PS.next PS.peek PS.cur; split <;> simp_all
theorem next_consumed (st : PS) : st.next.consumed = st.consumed ++ [st.cur.type] := by
  unfold PS.next PS.cur; split <;> simp_all
@[simp] theorem FC_next (st : PS) : FC st.next = FL st := by simp [FC, FL, PS.log, next_consumed]
@[simp] theorem FL_next (st : PS) : FL st.next = FL st ++ F [st.peek.type] := by
  simp only [FL, PS.log, next_consumed, next_cur, F_append]

@[simp] theorem FC_push (st : PS) (c : Ctx) : FC (st.push c) = FC st := rfl
@[simp] theorem FL_push (st : PS) (c : Ctx) : FL (st.push c) = FL st := rfl
@[simp] theorem FC_pop (st : PS) : FC st.pop = FC st := rfl
@[simp] theorem FL_pop (st : PS) : FL st.pop = FL st := rfl
@[simp] theorem FC_addError (st : PS) (m : Bytes) : FC (st.addError m) = FC st := rfl
@[simp] theorem FL_addError (st : PS) (m : Bytes) : FL (st.addError m) = FL st := rfl
@[simp] theorem FC_set (st : PS) (p : Nat) (t : List Event) : FC { st with curPrec := p, trace := t } = FC st := rfl
@[simp] theorem FL_set (st : PS) (p : Nat) (t : List Event) : FL { st with curPrec := p, trace := t } = FL st := rfl
@[simp] theorem FC_setPrec (st : PS) (p : Nat) : FC { st with curPrec := p } = FC st := rfl
@[simp] theorem FL_setPrec (st : PS) (p : Nat) : FL { st with curPrec := p } = FL st := rfl
@[simp] theorem FC_setTrace (st : PS) (t : List Event) : FC { st with trace := t } = FC st := rfl
@[simp] theorem FL_setTrace (st : PS) (t : List Event) : FL { st with trace := t } = FL st := rfl
@[simp] theorem cur_push (st : PS) (c : Ctx) : (st.push c).cur = st.cur := rfl
@[simp] theorem peek_push (st : PS) (c : Ctx) : (st.push c).peek = st.peek := rfl
@[simp] theorem cur_pop (st : PS) : st.pop.cur = st.cur := rfl
@[simp] theorem cur_addError (st : PS) (m : Bytes) : (st.addError m).cur = st.cur := rfl
@[simp] theorem cur_set (st : PS) (p : Nat) (t : List Event) : PS.cur { st with curPrec := p, trace := t } = st.cur := rfl
@[simp] theorem cur_setPrec (st : PS) (p : Nat) : PS.cur { st with curPrec := p } = st.cur := rfl
@[simp] theorem cur_setTrace (st : PS) (t : List Event) : PS.cur { st with trace := t } = st.cur := rfl
@[simp] theorem peek_set (st : PS) (p : Nat) (t : List Event) : PS.peek { st with curPrec := p, trace := t } = st.peek := rfl
@[simp] theorem peek_setPrec (st : PS) (p : Nat) : PS.peek { st with curPrec := p } = st.peek := rfl
@[simp] theorem peek_setTrace (st : PS) (t : List Event) : PS.peek { st with trace := t } = st.peek := rfl
@[simp] theorem identOfCur_tok (st : PS) : (identOfCur st).tok = st.cur := rfl

/-- a successful expectation consumed exactly the expected token -/
theorem expectToken_ok {ty : TokType} {st : PS} (h : (expectToken ty st).1 = true) :
    (expectToken ty st).2 = st.next ∧ st.peek.type = ty := by
  unfold expectToken at h ⊢
  split at h
  · rename_i hc; simp only [hc, if_true]; exact ⟨trivial, by simpa using hc⟩
  · simp at h

theorem FL_expectToken_ok {ty : TokType} {st : PS} (h : (expectToken ty st).1 = true) :
    FL (expectToken ty st).2 = FL st ++ F [ty] := by
  obtain ⟨a, b⟩ := expectToken_ok h
  rw [a, FL_next, b]
theorem cur_expectToken_ok {ty : TokType} {st : PS} (h : (expectToken ty st).1 = true) :
    (expectToken ty st).2.cur.type = ty := by
  obtain ⟨a, b⟩ := expectToken_ok h
  rw [a, next_cur, b]
theorem FC_expectToken_ok {ty : TokType} {st : PS} (h : (expectToken ty st).1 = true) :
    FC (expectToken ty st).2 = FL st := by
  obtain ⟨a, _⟩ := expectToken_ok h
  rw [a, FC_next]

/-- an accepted statement end consumed at most a `;` -/
theorem FL_expectSemi_ok {cfg : PCfg} {st : PS} (h : (expectSemiASI cfg st).1 = true) :
    FL (expectSemiASI cfg st).2 = FL st := by
  unfold expectSemiASI at h ⊢
  by_cases h1 : (st.peek.type == .semicolon) = true
  · simp only [h1, if_true, FL_next]
    have : st.peek.type = .semicolon := by simpa using h1
    rw [this]; simp
  · by_cases h2 : shouldInsertSemicolon st = true
    · simp [h1, h2]
    · by_cases h3 : cfg.tolerant = true
      · simp [h1, h2, h3]
      · simp [h1, h2, h3] at h

theorem append_ext {α : Type} {X P C : List α} (h : X = P ++ C) : ∀ Z, X ++ Z = P ++ (C ++ Z) :=
  fun Z => by rw [h, List.append_assoc]

/-! ### parameter lists -/

theorem tok_paramsLoop (acc : List Ident) (st : PS) (r : List Ident × PS) (h : paramsLoop acc st = some r) :
    ∀ P, FL st = P ++ F (identsFlat acc) → FL r.2 = P ++ F (identsFlat r.1) := by
  refine paramsLoop.partial_correctness
    (fun acc st r => ∀ P, FL st = P ++ F (identsFlat acc) → FL r.2 = P ++ F (identsFlat r.1)) ?_ acc st r h
  intro f ih acc st r h P hP
  split at h
  · rename_i hc
    have hcm : st.peek.type = .comma := by simpa using hc
    refine ih _ _ _ h P ?_
    simp only [FL_next, hcm, F_comma, List.append_nil, hP, identsFlat, List.map_append, List.map_cons, List.map_nil,
      F_append, identOfCur_tok, next_cur, List.append_assoc]
  · cases h; exact hP

/-- a successfully parsed parameter list: the tokens after `(` are the parameters and `)` -/
theorem tok_parseFunctionParameters (st : PS) (x : List Ident) (st' : PS) (h : parseFunctionParameters st = some (x, st')) :
    st.elen ≤ st'.elen ∧ (FL st' = FL st ++ F (identsFlat x) ++ [TokType.rparen] ∨ st.elen < st'.elen) := by
  refine ⟨elen_parseFunctionParameters h, ?_⟩
  unfold parseFunctionParameters at h
  split at h
  · rename_i hc
    cases h
    left
    have : st.peek.type = .rparen := by simpa using hc
    simp [FL_next, this, identsFlat, F_keep]
  · obtain ⟨⟨ids, st1⟩, h1, h2⟩ := bind_some h
    have hl := tok_paramsLoop _ _ _ h1 (FL st) (by simp [identsFlat, FL_next, next_cur])
    simp only at h2 hl
    split at h2
    · rename_i hok
      cases h2
      left
      rw [FL_expectToken_ok (by simpa using hok), hl]
      simp [F_keep]
    · rename_i hok
      cases h2
      right
      have : (expectToken .rparen st1).1 = false := by simpa using hok
      have e := elen_expectToken .rparen st1
      rw [expErr_of_false this] at e
      have := (steps_paramsLoop _ _ _ h1 st.next (.refl _)).elen_le
      simp only [elen_next] at this
      omega

end Xjs
